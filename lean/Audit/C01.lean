import Ekit.Props.C01
open Ekit.RB
#print axioms c01_rbtree_step_refines
#print axioms c01_rbtree_run_refines
#print axioms c01_rbtree_run_refines_empty
#print axioms c01_keyValues_strictAsc
#print axioms c01_failed_call_unchanged
#print axioms c01_failure_iff
#print axioms c01_treemap_step_refines
#print axioms c01_treemap_run_refines
#print axioms c01_treemap_put_get
#print axioms c01_treeset_step_refines
#print axioms c01_treeset_run_refines
#print axioms c01_multimap_step_refines
#print axioms c01_multimap_run_refines
#print axioms c01_linked_step_refines
#print axioms c01_linked_run_refines
#print axioms c01_linked_keys_insertion_order
#print axioms c01_cmpAsc_lawful
#print axioms c01_cmpDesc_lawful
#print axioms c01_cmpHalf_lawful
