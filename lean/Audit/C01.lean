import Ekit.Props.C01
import Ekit.Props.C01Rev
import Ekit.Props.C01Ptr
import Ekit.Props.C01Total
open Ekit.RB
#print axioms c01_rbtree_step_refines
#print axioms c01_rbtree_run_refines
#print axioms c01_rbtree_run_refines_empty
#print axioms c01_keyValues_strictAsc
#print axioms c01_failed_call_unchanged
#print axioms c01_failure_iff
#print axioms c01_treemap_step_refines
#print axioms c01_treemap_run_refines
#print axioms c01_treemap_put_get
#print axioms c01_treeset_step_refines
#print axioms c01_treeset_run_refines
#print axioms c01_multimap_step_refines
#print axioms c01_multimap_run_refines
#print axioms c01_linked_step_refines
#print axioms c01_linked_run_refines
#print axioms c01_linked_keys_insertion_order
#print axioms c01_cmpAsc_lawful
#print axioms c01_cmpDesc_lawful
#print axioms c01_cmpHalf_lawful
-- review additions (Ekit/Props/C01Rev.lean)
#print axioms c01_treemap_failed_call_unchanged
#print axioms c01_treemap_put_ok
#print axioms c01_multimap_failed_call_unchanged
#print axioms c01_linked_failed_call_unchanged
#print axioms c01_treemap_run_refines_empty
#print axioms c01_treeset_run_refines_empty
#print axioms c01_multimap_run_refines_empty
#print axioms c01_treemap_keys_values_len
#print axioms c01_spec_step_sorted
#print axioms c01_spec_unique
#print axioms c01_spec_map_laws
#print axioms c01_linked_model_keys_order
#print axioms c01_linked_reachable_inv
-- pointer level (Ekit/Props/C01Ptr.lean): the MiniGo interpreter running the translated internal/tree/red_black_tree.go
#print axioms Ekit.MiniGo.RBHeap.c01_ptr_step_refines
#print axioms Ekit.MiniGo.RBHeap.c01_ptr_run_refines
#print axioms Ekit.MiniGo.RBHeap.FunFind.findNode_spec
#print axioms Ekit.MiniGo.RBHeap.FunFind.find_refines
#print axioms Ekit.MiniGo.RBHeap.FunFind.set_refines
#print axioms Ekit.MiniGo.RBHeap.FunAdd.add_refines
#print axioms Ekit.MiniGo.RBHeap.FunDel.deleteNode_entries
#print axioms Ekit.MiniGo.RBHeap.FunDel.delete_refines
#print axioms Ekit.MiniGo.RBHeap.call_noval
#print axioms Ekit.MiniGo.RBHeap.c01_ptr_history_total_refines
