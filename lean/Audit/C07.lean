import Ekit.Props.C07
import Ekit.Props.C07HW
import Ekit.Props.C07Rev
import Driver.Ev.BQSoundC07
#print axioms c07_abq_inv
#print axioms c07_abq_capacity
#print axioms c07_abq_mutual_exclusion
#print axioms c07_abq_linearizable
#print axioms c07_abq_ctx_err_no_effect
#print axioms c07_abq_ok_footprint
#print axioms c07_abq_exactly_once
#print axioms c07_abq_quiescent_capacity
#print axioms c07_abq_asSlice_snapshot
#print axioms c07_lbq_inv
#print axioms c07_lbq_linearizable
#print axioms c07_lbq_unbounded_never_full
#print axioms c07_lbq_ctx_err_no_effect
#print axioms c07_lbq_exactly_once
#print axioms c07_lbq_mutual_exclusion
#print axioms c07_exec_spec_exact
#print axioms c07_abq_cancelled_call_returns_ctx_err
#print axioms c07_lbq_cancelled_call_returns_ctx_err
#print axioms c07_skel_ConcurrentArrayBlockingQueue_AsSlice
#print axioms c07_skel_ConcurrentArrayBlockingQueue_Dequeue
#print axioms c07_skel_ConcurrentArrayBlockingQueue_Enqueue
#print axioms c07_skel_ConcurrentArrayBlockingQueue_Len
#print axioms c07_skel_ConcurrentLinkedBlockingQueue_AsSlice
#print axioms c07_skel_ConcurrentLinkedBlockingQueue_Dequeue
#print axioms c07_skel_ConcurrentLinkedBlockingQueue_Enqueue
#print axioms c07_skel_ConcurrentLinkedBlockingQueue_Len
#print axioms c07_skel_NewConcurrentArrayBlockingQueue
#print axioms c07_skel_NewConcurrentLinkedBlockingQueue
#print axioms c07_skel_cond_broadcast
#print axioms c07_skel_cond_signalCh
-- the same statements in the classical Herlihy–Wing form (Ekit/Conc/HerlihyWing*.lean)
#print axioms Ekit.Props.HWForms.c07_abq_hw_linearizable
#print axioms Ekit.Props.HWForms.c07_lbq_hw_linearizable
-- review additions (Ekit/Props/C07Rev.lean)
#print axioms c07_abq_ctx_err_only_if_ctx_ended
#print axioms c07_lbq_ctx_err_only_if_ctx_ended
#print axioms c07_abq_ctx_err_response_needs_ended_ctx
#print axioms c07_lbq_ctx_err_response_needs_ended_ctx
-- soundness of the synchronisation-event replayers (Driver/Ev/BQSound.lean, LBQSound.lean): what the driver accepts of a
-- real execution IS a run of the model, so the observed call history is linearizable and the final state satisfies the invariants
#print axioms Driver.Ev.ABQ.abq_sync_sound
#print axioms Driver.Ev.ABQ.abq_replay_sound
#print axioms Driver.Ev.ABQ.c07_abq_evtrace_linearizable
#print axioms Driver.Ev.ABQ.c07_abq_evtrace_invariants
#print axioms Driver.Ev.LBQ.lbq_sync_sound
#print axioms Driver.Ev.LBQ.lbq_replay_sound
#print axioms Driver.Ev.LBQ.c07_lbq_evtrace_linearizable
