import Ekit.Props.C04
open Ekit.Lists
#print axioms c04_calCapacity_matches_source
#print axioms c04_arrayList_step_refines
#print axioms c04_arrayList_run_refines
#print axioms c04_arrayList_no_panic
#print axioms c04_arrayList_err_unchanged
#print axioms c04_arrayList_oob_err
#print axioms c04_arrayList_len_le_cap
#print axioms c04_linked_findPos
#print axioms c04_linked_step_refines
#print axioms c04_cow_step_refines
#print axioms c04_cow_err_unchanged
#print axioms c04_anyList_step_refines
