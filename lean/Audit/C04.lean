import Ekit.Props.C04
import Ekit.Props.C04Rev
import Ekit.Props.C04Ring
import Ekit.Props.C04LL
import Ekit.Props.C04AL
open Ekit.Lists
#print axioms c04_calCapacity_matches_source
#print axioms c04_arrayList_step_refines
#print axioms c04_arrayList_run_refines
#print axioms c04_arrayList_no_panic
#print axioms c04_arrayList_err_unchanged
#print axioms c04_arrayList_oob_err
#print axioms c04_arrayList_len_le_cap
#print axioms c04_linked_findPos
#print axioms c04_linked_step_refines
#print axioms c04_cow_step_refines
#print axioms c04_cow_err_unchanged
#print axioms c04_anyList_step_refines
-- review additions (Ekit/Props/C04Rev.lean)
#print axioms c04_spec_err_unchanged
#print axioms c04_anyList_no_panic
#print axioms c04_anyList_err_unchanged
#print axioms c04_anyList_err_iff_out_of_range
#print axioms c04_anyList_run_refines
#print axioms c04_anyList_run_no_panic
#print axioms c04_arrayList_run_len_le_cap
#print axioms c04_arrayList_len_le_cap_always
#print axioms c04_arrayList_new
#print axioms c04_linked_walk_loops
#print axioms c04_cow_delete_loop
-- review additions: the pointer-level linked list (Ekit/Props/C04Ring.lean)
#print axioms Ekit.Lists.Ring.c04_ring_step_refines
#print axioms Ekit.Lists.Ring.c04_ring_run_refines
-- the regenerated linked list (Ekit/Props/C04LL.lean): the MiniGo interpreter running the translated list/linked_list.go
#print axioms Ekit.MiniGo.LL.Refine.c04_ll_new
#print axioms Ekit.MiniGo.LL.Refine.c04_ll_step_refines
#print axioms Ekit.MiniGo.LL.Refine.c04_ll_run_refines
#print axioms Ekit.MiniGo.LL.Refine.step_sim
#print axioms Ekit.MiniGo.LL.Refine.new_sim
-- the regenerated ArrayList (Ekit/Props/C04AL.lean): the MiniGo interpreter running the translated list/array_list.go
#print axioms Ekit.MiniGo.AL.Refine.c04_al_new
#print axioms Ekit.MiniGo.AL.Refine.c04_al_newOf
#print axioms Ekit.MiniGo.AL.Refine.c04_al_step_refines
#print axioms Ekit.MiniGo.AL.Refine.c04_al_run_refines
#print axioms Ekit.MiniGo.AL.Refine.step_sim
#print axioms Ekit.MiniGo.AL.Refine.run_sim
