import Ekit.Props.C17
import Ekit.Props.C17R
open Ekit.Value
#print axioms c17_table_sound
#print axioms c17_bitSize_eq_castWidth
#print axioms c17_table_complete
#print axioms c17_parse_exact
#print axioms c17_parseUint_exact
#print axioms c17_cast_exact
#print axioms c17_format_canonical
#print axioms c17_canonical_unique
#print axioms c17_exact_type
#print axioms c17_asIntN_exact
#print axioms c17_asString_exact_text
#print axioms c17_format_parse_roundtrip
#print axioms c17_err_passthrough
#print axioms c17_orDefault_iff_err
#print axioms c17_accessor_total
#print axioms c17_refines_spec
#print axioms c17_row_names_unique
#print axioms c17_def_names_unique
#print axioms c17_run_acc_eq
#print axioms c17_run_asString_eq
#print axioms c17_run_orDefault_eq
#print axioms c17_names_are_spec_domain
#print axioms c17_acc_defined
#print axioms c17_named_total
#print axioms c17_orDefault_total
#print axioms c17_orDefault_exact
#print axioms c17_asInt_rows_exist
#print axioms c17_asInt_exact_all
#print axioms c17_as_other_held_err
#print axioms c17_asString_content
