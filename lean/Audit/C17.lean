import Ekit.Props.C17
open Ekit.Value
#print axioms c17_table_sound
#print axioms c17_bitSize_eq_castWidth
#print axioms c17_table_complete
#print axioms c17_parse_exact
#print axioms c17_parseUint_exact
#print axioms c17_cast_exact
#print axioms c17_format_canonical
#print axioms c17_canonical_unique
#print axioms c17_exact_type
#print axioms c17_asIntN_exact
#print axioms c17_asString_exact_text
#print axioms c17_format_parse_roundtrip
#print axioms c17_err_passthrough
#print axioms c17_orDefault_iff_err
#print axioms c17_accessor_total
#print axioms c17_refines_spec
