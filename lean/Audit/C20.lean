import Ekit.Props.C20
open Ekit.Copier
#print axioms c20_build_total
#print axioms c20_copy_total
#print axioms c20_copy_fresh_total
#print axioms c20_copyTo_nil_dst_panics
#print axioms c20_copy_refines_spec
#print axioms c20_ignored_and_unmatched_untouched
#print axioms c20_spec_matched
#print axioms c20_copy_sets_matching
#print axioms c20_copy_sets_matching_ptr
#print axioms c20_spec_nested
#print axioms c20_converter_applied
#print axioms c20_pure_total
#print axioms c20_pure_refines_spec
#print axioms c20_agree_on_fresh
#print axioms c20_tree_succeeds_identical
#print axioms c20_pure_succeeds_identical
#print axioms c20_identicalB_sound
