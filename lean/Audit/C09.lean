import Ekit.Props.C09
import Ekit.Props.C09bRev
import Ekit.Props.C09aRev
import Driver.Ev.DelayQSoundC09
#print axioms c09a_lbq_fetch_before_unlock
#print axioms c09a_lbq_generations
#print axioms c09a_lbq_no_lost_wakeup_enq
#print axioms c09a_lbq_no_lost_wakeup_deq
#print axioms c09a_lbq_enabled_when_possible
#print axioms c09a_lbq_cancel_enabled
#print axioms c09a_lbq_capacity_conserved
#print axioms c09a_lbq_progress_partial
#print axioms c09a_abq_enabled_when_possible
#print axioms c09a_abq_cancel_enabled
#print axioms c09a_abq_cancel_after_slot_clean
#print axioms c09a_abq_cancel_after_slot_clean_deq
#print axioms c09a_abq_capacity_conserved
#print axioms c09a_abq_progress
#print axioms c09a_abq_accepts_at_quiescence
#print axioms c09a_lbq_accepts_at_quiescence
#print axioms c09a_skel_ConcurrentArrayBlockingQueue_AsSlice
#print axioms c09a_skel_ConcurrentArrayBlockingQueue_Dequeue
#print axioms c09a_skel_ConcurrentArrayBlockingQueue_Enqueue
#print axioms c09a_skel_ConcurrentArrayBlockingQueue_Len
#print axioms c09a_skel_ConcurrentLinkedBlockingQueue_AsSlice
#print axioms c09a_skel_ConcurrentLinkedBlockingQueue_Dequeue
#print axioms c09a_skel_ConcurrentLinkedBlockingQueue_Enqueue
#print axioms c09a_skel_ConcurrentLinkedBlockingQueue_Len
#print axioms c09a_skel_NewConcurrentArrayBlockingQueue
#print axioms c09a_skel_NewConcurrentLinkedBlockingQueue
#print axioms c09a_skel_cond_broadcast
#print axioms c09a_skel_cond_signalCh

open Ekit.DelayQ
#print axioms c09_skel_DelayQueue_Dequeue
#print axioms c09_skel_DelayQueue_Enqueue
#print axioms c09_skel_NewDelayQueue
#print axioms c09_skel_cond_broadcast
#print axioms c09_skel_cond_signalCh
#print axioms c09_skel_newCond
#print axioms c09_fetch_before_unlock
#print axioms c09_no_lost_wakeup_delay
#print axioms c09_no_lost_wakeup_full
#print axioms c09_superseded_closed_or_closing
#print axioms c09_broadcaster_progress
#print axioms c09_signal_arm_enabled
#print axioms c09_enabled_or_blocked
#print axioms c09_lock_holder_runs
#print axioms c09_timer_waiter_wakes
#print axioms c09_cancel_enabled
#print axioms c09_parked_not_holder
#print axioms c09_capacity_conserved
#print axioms c09_delivers_at_quiescence
#print axioms c09_delay_promptness_partial
-- review additions (Ekit/Props/C09bRev.lean): broadcast wakes all, solo completion (variant), drain
#print axioms c09_broadcast_wakes_all
#print axioms deqTail_runs
#print axioms c09_woken_dequeue_completes_solo
#print axioms c09_ticked_dequeue_completes_solo
#print axioms c09_timer_dequeue_completes_by_time_alone
#print axioms c09_woken_enqueue_completes_solo
#print axioms c09_futile_wakeup_reparks_fresh
#print axioms c09_drains_at_quiescence
#print axioms c09_accepts_and_delivers_capacity
-- review additions (Ekit/Props/C09aRev.lean)
#print axioms c09a_lbq_parked_generation_le
#print axioms c09a_lbq_superseded_waiter_wakes
#print axioms c09a_lbq_closed_stays_closed
#print axioms c09a_lbq_wake_stable_enq
#print axioms c09a_lbq_wake_stable_deq
#print axioms c09a_lbq_close_duty_stable
#print axioms c09a_lbq_closing_chain
#print axioms c09a_abq_fill
#print axioms c09a_abq_drain
#print axioms c09a_abq_full_blocks
#print axioms c09a_abq_empty_blocks
#print axioms c09a_abq_exactly_capacity
#print axioms c09a_lbq_fill
#print axioms c09a_lbq_drain
-- soundness of the DelayQueue's event replayer (Driver/Ev/DelayQSound.lean) through the C09b theorems
#print axioms Driver.Ev.DQ.c09_dq_evtrace_no_lost_wakeup
