import Ekit.Props.C10
import Ekit.Props.C10W
import Driver.Ev.PoolSoundC10
open Ekit.Pool
#print axioms c10_send_never_after_close
#print axioms c10_conservation
#print axioms c10_exactly_once
#print axioms c10_exactly_once_quiescent
#print axioms c10_at_most_once
#print axioms c10_err_never_runs
#print axioms c10_submit_result
#print axioms c10_shutdownNow_drains
#print axioms c10_panic_contained
#print axioms c10_panicked_only_recovers
#print axioms c10_skel_NewOnDemandBlockTaskPool
#print axioms c10_skel_OnDemandBlockTaskPool_Shutdown
#print axioms c10_skel_OnDemandBlockTaskPool_ShutdownNow
#print axioms c10_skel_OnDemandBlockTaskPool_Start
#print axioms c10_skel_OnDemandBlockTaskPool_States
#print axioms c10_skel_OnDemandBlockTaskPool_Submit
#print axioms c10_skel_OnDemandBlockTaskPool_allowToCreateGoroutine
#print axioms c10_skel_OnDemandBlockTaskPool_decreaseTotalGo
#print axioms c10_skel_OnDemandBlockTaskPool_getState
#print axioms c10_skel_OnDemandBlockTaskPool_goroutine
#print axioms c10_skel_OnDemandBlockTaskPool_increaseTotalGo
#print axioms c10_skel_OnDemandBlockTaskPool_internalState
#print axioms c10_skel_OnDemandBlockTaskPool_numOfGo
#print axioms c10_skel_OnDemandBlockTaskPool_numOfGoThatCanBeCreate
#print axioms c10_skel_OnDemandBlockTaskPool_sendState
#print axioms c10_skel_OnDemandBlockTaskPool_trySubmit
#print axioms c10_skel_TaskFunc_Run
#print axioms c10_skel_WithCoreGo
#print axioms c10_skel_WithMaxGo
#print axioms c10_skel_WithMaxIdleTime
#print axioms c10_skel_WithQueueBacklogRate
#print axioms c10_skel_group_add
#print axioms c10_skel_group_delete
#print axioms c10_skel_group_isIn
#print axioms c10_skel_group_size
#print axioms c10_skel_taskWrapper_Run
#print axioms c10_witness_replay
#print axioms c10_witness_all_cases
#print axioms c10_witness_panic_contained
#print axioms c10_core_floor
-- soundness of the task pool's event replayer (Driver/Ev/PoolSound.lean) and what acceptance proves through C10-C12
#print axioms Driver.Ev.Pool.sync_sound
#print axioms Driver.Ev.Pool.syncG_sound
#print axioms Driver.Ev.Pool.invL_sound
#print axioms Driver.Ev.Pool.resL_sound
#print axioms Driver.Ev.Pool.pool_replay_sound
#print axioms Driver.Ev.Pool.pool_replay_reachable
#print axioms Driver.Ev.Pool.c10_pool_evtrace_exactly_once
#print axioms Driver.Ev.Pool.c10_pool_evtrace_send_never_after_close
#print axioms Driver.Ev.Pool.c10_pool_evtrace_exactly_once_at_end
#print axioms Driver.Ev.Pool.c11_pool_evtrace_bounds
#print axioms Driver.Ev.Pool.c12_pool_evtrace_done_not_early
