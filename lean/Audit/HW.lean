import Ekit.Conc.HerlihyWing
open Ekit.Conc
open Ekit.Conc.HW
#print axioms linearizable_wellFormed
#print axioms linearizable_imp_hw
#print axioms hw_imp_linearizable
#print axioms linearizable_iff_hw
#print axioms hw_of_forward_simulation
#print axioms Linearizable.hw
#print axioms Linearizable.exists_linearization
#print axioms wellFormed_iff_pos
#print axioms mem_completedCalls
#print axioms HWExample.L₁_linearization
#print axioms HWExample.L₂_linearization
#print axioms HWExample.L₃_linearization
#print axioms HWExample.h₁_wellFormed
#print axioms HWExample.not_hw_of_deq_unenqueued
#print axioms HWExample.h₄_not_hw
#print axioms HWExample.h₅_not_hw
#print axioms c06_clq_hw_linearizable
#print axioms c06_lockWrapped_hw_linearizable
#print axioms c06_concurrentList_hw_linearizable
#print axioms c06_cow_hw_linearizable
#print axioms c06_cpq_hw_linearizable
#print axioms c06_syncMap_hw_linearizable
#print axioms c08_hw_linearizable_timed
