import Ekit.Props.C15
import Ekit.Props.C15S
open Ekit.Races
#print axioms c15_disciplined_raceFree
#print axioms c15_lock_orders
#print axioms c15_handoff_lock
#print axioms c15_handoff_atomic
#print axioms c15_accessTable_disciplined
#print axioms c15_aliases
#print axioms c15_table_wellFormed
#print axioms c15_raceFree
#print axioms c15_pairs_conflict_free
#print axioms c15_pairVerdict_accepts
#print axioms c15_witness_unlocked_reader_races
#print axioms c15_witness_plain_load_of_atomic_races
#print axioms c15_witness_locked_reader_raceFree
#print axioms c15_witness_fromTable_raceFree
#print axioms c15_disciplined_ordered_min
#print axioms c15_raceFree_any_hb
#print axioms c15_raceFree_of_strong
#print axioms c15_handoff_atomic_observed
#print axioms c15_handoff_lock_min
#print axioms c15_generous_hb_hides_a_race
