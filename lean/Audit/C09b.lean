import Ekit.Props.C09b
import Ekit.Props.C09bRev
open Ekit.DelayQ
#print axioms c09_skel_DelayQueue_Dequeue
#print axioms c09_skel_DelayQueue_Enqueue
#print axioms c09_skel_NewDelayQueue
#print axioms c09_skel_cond_broadcast
#print axioms c09_skel_cond_signalCh
#print axioms c09_skel_newCond
#print axioms c09_fetch_before_unlock
#print axioms c09_no_lost_wakeup_delay
#print axioms c09_no_lost_wakeup_full
#print axioms c09_superseded_closed_or_closing
#print axioms c09_broadcaster_progress
#print axioms c09_signal_arm_enabled
#print axioms c09_enabled_or_blocked
#print axioms c09_lock_holder_runs
#print axioms c09_timer_waiter_wakes
#print axioms c09_cancel_enabled
#print axioms c09_parked_not_holder
#print axioms c09_capacity_conserved
#print axioms c09_delivers_at_quiescence
#print axioms c09_delay_promptness_partial
-- review additions (Ekit/Props/C09bRev.lean): broadcast wakes all, solo completion (variant), drain
#print axioms c09_broadcast_wakes_all
#print axioms deqTail_runs
#print axioms c09_woken_dequeue_completes_solo
#print axioms c09_ticked_dequeue_completes_solo
#print axioms c09_timer_dequeue_completes_by_time_alone
#print axioms c09_woken_enqueue_completes_solo
#print axioms c09_futile_wakeup_reparks_fresh
#print axioms c09_drains_at_quiescence
#print axioms c09_accepts_and_delivers_capacity
