import Ekit.Props.C14
import Ekit.Props.C14R
import Driver.Ev.SyncXSoundC14
open Ekit.LimitPool Ekit.SegmentLock
#print axioms c14_limitPool_bookkeeping
#print axioms c14_limitPool_outstanding_le_max
#print axioms c14_limitPool_borrowed_le_max
#print axioms c14_limitPool_outstanding_le_max_run
#print axioms c14_limitPool_conserved_partial
#print axioms c14_limitPool_exactly_max_gets_partial
#print axioms c14_limitPool_sequential_get_partial
#print axioms c14_limitPool_failed_get_restores
#print axioms c14_limitPool_spurious_failure_possible
#print axioms c14_limitPool_wait_free
#print axioms c14_limitPool_get_enabled
#print axioms c14_limitPool_truncation_witness
#print axioms c14_limitPool_truncation_all_fail
#print axioms c14_segment_idx_congr
#print axioms c14_segment_idx_lt_size
#print axioms c14_segment_size_zero_panics
#print axioms c14_segment_lock_excludes
#print axioms c14_segment_lock_excludes_key
#print axioms c14_segment_try_fails_while_locked
#print axioms c14_segment_rlock_shared
#print axioms c14_segment_free_trylock_succeeds
#print axioms c14_segment_all_free_trylock_succeeds
#print axioms c14_segment_holder_can_unlock
#print axioms c14_limitPool_zero_tokens_nothing_outstanding
#print axioms c14_limitPool_zero_tokens_get_fails
#print axioms c14_limitPool_tokens_range
#print axioms c14_limitPool_sequential_get_any_reuse
#print axioms c14_limitPool_exactly_max_gets_any_threads_partial
#print axioms c14_limitPool_at_most_max_gets_any_interleaving
#print axioms c14_segment_n_readers_share
#print axioms c14_segment_readers_exclude_writer
#print axioms c14_segment_try_fails_equal_key
#print axioms c14_segment_size_one
#print axioms c14_segment_lock_unlock_roundtrip
-- soundness of the synchronisation-event replayers of `limit` / `seg` (Driver/Ev/SyncXSound.lean): what the driver accepts of a
-- real execution IS a run of the model, so the final state (and the state after every accepted line) satisfies the C14 invariants
#print axioms Driver.Ev.Limit.limit_replay1_sound
#print axioms Driver.Ev.Limit.limit_replay_sound
#print axioms Driver.Ev.Limit.limit_replay_reachable
#print axioms Driver.Ev.Limit.c14_limit_evtrace_invariants
#print axioms Driver.Ev.Limit.c14_limit_evtrace_invariants_at_every_line
#print axioms Driver.Ev.Limit.c14_limit_evtrace_conserved_partial
#print axioms Driver.Ev.Seg.tryFalse_spec
#print axioms Driver.Ev.Seg.seg_replay1_sound
#print axioms Driver.Ev.Seg.seg_replay_sound
#print axioms Driver.Ev.Seg.seg_replay_reachable
#print axioms Driver.Ev.Seg.c14_seg_evtrace_lock_excludes
#print axioms Driver.Ev.Seg.c14_seg_evtrace_lock_excludes_at_every_line
#print axioms Driver.Ev.Seg.c14_seg_evtrace_try_fails_while_locked
#print axioms Driver.Ev.Seg.c14_seg_evtrace_tryFalse_explained
