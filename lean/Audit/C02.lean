import Ekit.Props.C02
import Ekit.Props.C02Rev
import Ekit.Props.C02Ptr
open Ekit.RB
#print axioms c02_empty_inv
#print axioms c02_insert_inv
#print axioms c02_delete_inv
#print axioms c02_step_inv
#print axioms c02_reachable_inv
#print axioms c02_treemap_step_inv
#print axioms c02_treemap_reachable_inv
#print axioms c02_height_le
#print axioms c02_cmpCount_le_height
#print axioms c02_findCount
#print axioms c02_cmps_le
#print axioms c02_cmps_le_reachable
#print axioms c02_treemap_cmps_le
#print axioms c02_wrappers_cmps_le
#print axioms c02_cmpAsc_lawful
-- review additions (Ekit/Props/C02Rev.lean)
#print axioms c02_treeset_step_inv
#print axioms c02_treeset_reachable_inv
#print axioms c02_multimap_step_inv
#print axioms c02_multimap_reachable_inv
#print axioms c02_linked_step_inv
#print axioms c02_linked_reachable_inv
#print axioms c02_treemap_cmps_le_reachable
#print axioms c02_treeset_cmps_le_reachable
#print axioms c02_linked_cmps_le_reachable
#print axioms c02_multimap_cmps_le_reachable
#print axioms c02_linked_index_size
#print axioms c02_insCount
#print axioms c02_delCount
#print axioms c02_counts_le_reachable
#print axioms c02_height_pow
-- pointer level (Ekit/Props/C02Ptr.lean): the MiniGo interpreter running the translated internal/tree/red_black_tree.go
#print axioms Ekit.MiniGo.RBHeap.c02_ptr_new_wf
#print axioms Ekit.MiniGo.RBHeap.c02_ptr_step_wf
#print axioms Ekit.MiniGo.RBHeap.c02_ptr_reachable_wf
#print axioms Ekit.MiniGo.RBHeap.c02_ptr_history_wf
#print axioms Ekit.MiniGo.RBHeap.c02_ptr_parent_links
#print axioms Ekit.MiniGo.RBHeap.c02_ptr_history_parent_links
#print axioms Ekit.MiniGo.RBHeap.c02_ptr_wfB_sound
#print axioms Ekit.MiniGo.RBHeap.k_procs_safe
#print axioms Ekit.MiniGo.RBHeap.call_specK
#print axioms Ekit.MiniGo.RBHeap.Rot.rotateLeft_spec
#print axioms Ekit.MiniGo.RBHeap.Rot.rotateRight_spec
#print axioms Ekit.MiniGo.RBHeap.AddN.addNode_spec
#print axioms Ekit.MiniGo.RBHeap.Del.deleteNode_spec
#print axioms Ekit.MiniGo.RBHeap.c02_ptr_step_ordered_of
#print axioms Ekit.MiniGo.RBHeap.c02_ptr_history_ordered_of
#print axioms Ekit.MiniGo.RBHeap.call_pure
#print axioms Ekit.MiniGo.RBHeap.Succ.findSuccessor_spec
#print axioms Ekit.MiniGo.RBHeap.AddN.addNode_ord
#print axioms Ekit.MiniGo.RBHeap.Del.deleteNode_ord
#print axioms Ekit.MiniGo.RBHeap.Fix.fixAfterDelete_keeps_parent
#print axioms Ekit.MiniGo.RBHeap.fixSpec_holds
#print axioms Ekit.MiniGo.RBHeap.c02_ptr_step_ordered
#print axioms Ekit.MiniGo.RBHeap.c02_ptr_history_ordered
#print axioms Ekit.MiniGo.RBHeap.Fix.fixAfterDelete_keeps_leaf
#print axioms Ekit.MiniGo.RBHeap.call_nosize
#print axioms Ekit.MiniGo.RBHeap.AddN.addNode_size
#print axioms Ekit.MiniGo.RBHeap.Del.deleteNode_size
#print axioms Ekit.MiniGo.RBHeap.c02_ptr_new_size
#print axioms Ekit.MiniGo.RBHeap.c02_ptr_step_size
#print axioms Ekit.MiniGo.RBHeap.c02_ptr_history_size
