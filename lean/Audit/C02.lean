import Ekit.Props.C02
import Ekit.Props.C02Rev
open Ekit.RB
#print axioms c02_empty_inv
#print axioms c02_insert_inv
#print axioms c02_delete_inv
#print axioms c02_step_inv
#print axioms c02_reachable_inv
#print axioms c02_treemap_step_inv
#print axioms c02_treemap_reachable_inv
#print axioms c02_height_le
#print axioms c02_cmpCount_le_height
#print axioms c02_findCount
#print axioms c02_cmps_le
#print axioms c02_cmps_le_reachable
#print axioms c02_treemap_cmps_le
#print axioms c02_wrappers_cmps_le
#print axioms c02_cmpAsc_lawful
-- review additions (Ekit/Props/C02Rev.lean)
#print axioms c02_treeset_step_inv
#print axioms c02_treeset_reachable_inv
#print axioms c02_multimap_step_inv
#print axioms c02_multimap_reachable_inv
#print axioms c02_linked_step_inv
#print axioms c02_linked_reachable_inv
#print axioms c02_treemap_cmps_le_reachable
#print axioms c02_treeset_cmps_le_reachable
#print axioms c02_linked_cmps_le_reachable
#print axioms c02_multimap_cmps_le_reachable
#print axioms c02_linked_index_size
#print axioms c02_insCount
#print axioms c02_delCount
#print axioms c02_counts_le_reachable
#print axioms c02_height_pow
