import Ekit.Props.C08
import Ekit.Props.C08HW
open Ekit.DelayQ
#print axioms c08_skel_DelayQueue_Dequeue
#print axioms c08_skel_DelayQueue_Enqueue
#print axioms c08_skel_NewDelayQueue
#print axioms c08_skel_cond_broadcast
#print axioms c08_skel_cond_signalCh
#print axioms c08_skel_newCond
#print axioms c08_only_pop_removes
#print axioms c08_dequeue_expired
#print axioms c08_dequeue_earliest
#print axioms c08_returned_expired
#print axioms c08_dequeue_no_internal_error
#print axioms c08_stale_tick_harmless
#print axioms c08_exactly_once
#print axioms c08_returned_once
#print axioms c08_bounded_len_le_cap
#print axioms c08_ctx_err_no_effect
#print axioms c08_effect_marked
#print axioms c08_effect_cleared_only_by_invocation
#print axioms c08_linearizable_timed
-- the same statements in the classical Herlihy–Wing form (Ekit/Conc/HerlihyWing*.lean)
#print axioms Ekit.Props.HWForms.c08_hw_linearizable_timed
