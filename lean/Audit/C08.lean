import Ekit.Props.C08
import Ekit.Props.C08HW
import Ekit.Props.C08Heap
import Ekit.Props.C08Rev
import Driver.Ev.DelayQSoundC08
open Ekit.DelayQ
#print axioms c08_skel_DelayQueue_Dequeue
#print axioms c08_skel_DelayQueue_Enqueue
#print axioms c08_skel_NewDelayQueue
#print axioms c08_skel_cond_broadcast
#print axioms c08_skel_cond_signalCh
#print axioms c08_skel_newCond
#print axioms c08_only_pop_removes
#print axioms c08_dequeue_expired
#print axioms c08_dequeue_earliest
#print axioms c08_returned_expired
#print axioms c08_dequeue_no_internal_error
#print axioms c08_stale_tick_harmless
#print axioms c08_exactly_once
#print axioms c08_returned_once
#print axioms c08_bounded_len_le_cap
#print axioms c08_ctx_err_no_effect
#print axioms c08_effect_marked
#print axioms c08_effect_cleared_only_by_invocation
#print axioms c08_linearizable_timed
-- review additions (Ekit/Props/C08Rev.lean): whole-call form of 'earliest', clocked linearizability
#print axioms retOf_deqOk_by_pop
#print axioms c08_call_removes_by_pop
#print axioms c08_whole_call_earliest
#print axioms tlin_clock
#print axioms tlin_deq_expired
#print axioms arun_exact
#print axioms step_now
#print axioms simX_step
#print axioms c08_linearizable_clocked
#print axioms c08_tlinearizable
#print axioms exactSpec_le_timedSpec
-- the same statements in the classical Herlihy–Wing form (Ekit/Conc/HerlihyWing*.lean)
#print axioms Ekit.Props.HWForms.c08_hw_linearizable_timed
-- composition with the C05 heap model (Ekit/Props/C08Heap.lean)
open Ekit.DelayQ
-- C08 ∘ C05: the DelayQueue model's heap interface discharged by the heap model (to be merged into Audit/C08.lean)
#print axioms delayCmp_lawful
#print axioms delayCmp_now
#print axioms delayCmp_le
#print axioms c08_heap_peek
#print axioms c08_heap_dequeue
#print axioms c08_heap_enqueue
#print axioms c08_heap_no_panic
#print axioms c08_heap_len_le_cap
#print axioms coupled_init
#print axioms new_cap
#print axioms c08_heap_step_sim
#print axioms c08_heap_run_projects
#print axioms c08_heap_reachable
#print axioms c08_heap_never_refuses
#print axioms c08_heap_linearizable_timed
#print axioms c08_heap_bounded_len_le_cap
#print axioms c08_heap_pop_expired_earliest
#print axioms Ekit.Heap.unpair_pair
#print axioms Ekit.Heap.zag_zig
-- the classical Herlihy–Wing form
#print axioms Ekit.Props.HWForms.c08_heap_hw_linearizable_timed
-- soundness of the synchronisation-event replayer of the DelayQueue (Driver/Ev/DelayQSound.lean): what the driver accepts of a
-- real execution IS a run of the model, so the observed call history is linearizable and the final state satisfies the invariants
#print axioms Driver.Ev.DQ.dq_sync_sound
#print axioms Driver.Ev.DQ.dq_inv_sound
#print axioms Driver.Ev.DQ.dq_res_sound
#print axioms Driver.Ev.DQ.dq_replay_sound
#print axioms Driver.Ev.DQ.dq_replay_reachable
#print axioms Driver.Ev.DQ.c08_dq_evtrace_linearizable
#print axioms Driver.Ev.DQ.c08_dq_evtrace_tlinearizable
#print axioms Driver.Ev.DQ.c08_dq_evtrace_invariants
#print axioms Driver.Ev.DQ.demo_accepted
