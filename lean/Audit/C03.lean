import Ekit.Props.C03
open Ekit.HashMap
#print axioms c03_step_refines
#print axioms c03_empty_refines
#print axioms c03_run_refines_assoc
#print axioms c03_run_from_new
#print axioms c03_len_eq_card
#print axioms c03_keys_nodup_perm
#print axioms c03_delete_other_untouched
#print axioms c03_pool_nodes_clean
#print axioms c03_reachable_inv
#print axioms c03_no_panic
#print axioms c03_linked_step_refines
#print axioms c03_linked_run_refines
#print axioms c03_linked_keys_order
#print axioms c03_multi_step_refines
#print axioms c03_multi_append
#print axioms c03_builtin_step_refines
#print axioms c03_mapset_step_refines
#print axioms c03_multib_step_refines
#print axioms c03_multi_run_refines
#print axioms c03_builtin_run_refines
#print axioms c03_mapset_run_refines
#print axioms c03_constant_code_lawful
#print axioms c03_keyKind_law
