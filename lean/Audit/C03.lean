import Ekit.Props.C03
import Ekit.Props.C03Rev
import Ekit.Props.C03HM
import Ekit.Props.C03HMPut
open Ekit.HashMap
#print axioms c03_step_refines
#print axioms c03_empty_refines
#print axioms c03_run_refines_assoc
#print axioms c03_run_from_new
#print axioms c03_len_eq_card
#print axioms c03_keys_nodup_perm
#print axioms c03_delete_other_untouched
#print axioms c03_pool_nodes_clean
#print axioms c03_reachable_inv
#print axioms c03_no_panic
#print axioms c03_linked_step_refines
#print axioms c03_linked_run_refines
#print axioms c03_linked_keys_order
#print axioms c03_multi_step_refines
#print axioms c03_multi_append
#print axioms c03_builtin_step_refines
#print axioms c03_mapset_step_refines
#print axioms c03_multib_step_refines
#print axioms c03_multi_run_refines
#print axioms c03_builtin_run_refines
#print axioms c03_mapset_run_refines
#print axioms c03_constant_code_lawful
#print axioms c03_keyKind_law
-- review additions (Ekit/Props/C03Rev.lean)
#print axioms c03_spec_get_last_write
#print axioms c03_last_write_untouched
#print axioms c03_get_after_history
#print axioms c03_get_after_history_from
#print axioms c03_len_keys_values_reachable
#print axioms c03_len_eq_len_keys
#print axioms c03_keys_exactly_once
#print axioms c03_listed_key_is_live
#print axioms c03_keys_values_zip
#print axioms c03_reads_change_nothing
#print axioms c03_delete_missing_changes_nothing
#print axioms c03_put_pool_never_grows
#print axioms c03_run_no_panic
#print axioms c03_delete_other_untouched_reachable
#print axioms c03_validrun_exists
#print axioms c03_linked_get_after_history
#print axioms c03_linked_reachable
#print axioms c03_multi_pool_clean
#print axioms c03_linked_failed_changes_nothing
#print axioms c03_spec_multi_get_last_append
#print axioms c03_multi_get_after_history
#print axioms c03_builtin_get_after_history
#print axioms c03_mapset_exist_after_history
#print axioms c03_pool_choice_unobservable
-- the regenerated hash map (Ekit/Props/C03HM.lean): the MiniGo interpreter running the translated mapx/hashmap.go
#print axioms Ekit.MiniGo.HM.Refine.c03_hm_new
#print axioms Ekit.MiniGo.HM.Refine.c03_hm_get_refines_model
#print axioms Ekit.MiniGo.HM.Refine.c03_hm_get_refines_spec
#print axioms Ekit.MiniGo.HM.Refine.c03_hm_formatting_clean
#print axioms Ekit.MiniGo.HM.Refine.c03_hm_factory_clean
#print axioms Ekit.MiniGo.HM.Refine.c03_hm_new_strong
#print axioms Ekit.MiniGo.HM.Refine.c03_hm_put_refines
#print axioms Ekit.MiniGo.HM.Refine.c03_hm_delete_refines
#print axioms Ekit.MiniGo.HM.Refine.Put_sim
#print axioms Ekit.MiniGo.HM.Refine.Delete_sim
