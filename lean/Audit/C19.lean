import Ekit.Props.C19
import Ekit.Props.C19T
open Ekit.Retry
#print axioms c19_ctor_exp
#print axioms c19_ctor_fixed
#print axioms c19_budget_exact_partial
#print axioms c19_budget_unlimited
#print axioms c19_seq_granted_iff
#print axioms c19_counter_wrap_witness
#print axioms c19_seq_result_partial
#print axioms c19_seq_interval_partial
#print axioms c19_seq_interval_unlimited
#print axioms c19_seq_outputs_partial
#print axioms c19_seq_in_bounds
#print axioms c19_seq_monotone
#print axioms c19_seq_returned_bounds_monotone
#print axioms c19_first_overflow_negative
#print axioms c19_seq_is_run
#print axioms c19_conc_in_bounds_partial
#print axioms c19_stale_flag_witness
#print axioms c19_stale_flag_witness_five_calls
#print axioms c19_retry_outcome
#print axioms c19_retry_log_is_script
#print axioms c19_retry_nil_first_success
#print axioms c19_retry_exhausted_wraps_last
#print axioms c19_retry_ctx_only_when_ended
#print axioms c19_retry_consults_strategy_in_order
#print axioms c19_gap_ge_interval
#print axioms c19_retry_waits_spec_intervals
#print axioms c19_old_ticker_violates_gap
#print axioms c19_new_timer_same_run
#print axioms c19_counter_wrap_general
#print axioms c19_conc_in_bounds_seen
#print axioms c19_conc_in_bounds_partial_of_seen
#print axioms c19_conc_in_bounds_iff
#print axioms c19_initial_sq_not_necessary
#print axioms c19_staleCfg_not_safeSeen
