import Driver.Ev.LockWrapped
import Ekit.Props.C06
import Ekit.Props.C06HW
import Ekit.Props.C06Heap
import Ekit.Props.C06Rev
import Driver.Ev.CLQSoundC06
import Driver.Ev.LockWrappedSoundC06
import Driver.Ev.CPQSoundC06
open Ekit.Props.C06
#print axioms c06_clq_linearizable
#print axioms c06_clq_invariants
#print axioms c06_clq_unswung_iff
#print axioms c06_clq_tail_cas_succeeds
#print axioms c06_clq_no_panic
#print axioms c06_clq_empty_was_true
#print axioms c06_clq_quiescent
#print axioms c06_lockWrapped_linearizable
#print axioms c06_lockWrapped_invariants
#print axioms c06_lockWrapped_no_torn_read
#print axioms c06_concurrentList_linearizable
#print axioms c06_cow_linearizable
#print axioms c06_cpq_linearizable
#print axioms c06_cpq_ref_linearizable
#print axioms c06_seq_spec_never_panics
#print axioms c06_syncMap_linearizable
#print axioms c06_cow_unlocked_get_panics
#print axioms c06_skel_ConcurrentLinkedQueue_Dequeue
#print axioms c06_skel_ConcurrentLinkedQueue_Enqueue
#print axioms c06_skel_ConcurrentList_Add
#print axioms c06_skel_ConcurrentList_Append
#print axioms c06_skel_ConcurrentList_AsSlice
#print axioms c06_skel_ConcurrentList_Cap
#print axioms c06_skel_ConcurrentList_Delete
#print axioms c06_skel_ConcurrentList_Get
#print axioms c06_skel_ConcurrentList_Len
#print axioms c06_skel_ConcurrentList_Range
#print axioms c06_skel_ConcurrentList_Set
#print axioms c06_skel_ConcurrentPriorityQueue_Cap
#print axioms c06_skel_ConcurrentPriorityQueue_Dequeue
#print axioms c06_skel_ConcurrentPriorityQueue_Enqueue
#print axioms c06_skel_ConcurrentPriorityQueue_Len
#print axioms c06_skel_ConcurrentPriorityQueue_Peek
#print axioms c06_skel_CopyOnWriteArrayList_Add
#print axioms c06_skel_CopyOnWriteArrayList_Append
#print axioms c06_skel_CopyOnWriteArrayList_AsSlice
#print axioms c06_skel_CopyOnWriteArrayList_Cap
#print axioms c06_skel_CopyOnWriteArrayList_Delete
#print axioms c06_skel_CopyOnWriteArrayList_Get
#print axioms c06_skel_CopyOnWriteArrayList_Len
#print axioms c06_skel_CopyOnWriteArrayList_Range
#print axioms c06_skel_CopyOnWriteArrayList_Set
#print axioms c06_skel_CopyOnWriteArrayList_snapshot
#print axioms c06_skel_Map_Delete
#print axioms c06_skel_Map_Load
#print axioms c06_skel_Map_LoadAndDelete
#print axioms c06_skel_Map_LoadOrStore
#print axioms c06_skel_Map_LoadOrStoreFunc
#print axioms c06_skel_Map_Range
#print axioms c06_skel_Map_Store
#print axioms c06_skel_NewConcurrentLinkedQueue
#print axioms c06_skel_NewConcurrentPriorityQueue
#print axioms c06_skel_NewCopyOnWriteArrayList
#print axioms c06_skel_NewCopyOnWriteArrayListOf
-- the same statements in the classical Herlihy–Wing form (Ekit/Conc/HerlihyWing*.lean)
#print axioms Ekit.Props.HWForms.c06_clq_hw_linearizable
#print axioms Ekit.Props.HWForms.c06_lockWrapped_hw_linearizable
#print axioms Ekit.Props.HWForms.c06_concurrentList_hw_linearizable
#print axioms Ekit.Props.HWForms.c06_cow_hw_linearizable
#print axioms Ekit.Props.HWForms.c06_cpq_hw_linearizable
#print axioms Ekit.Props.HWForms.c06_syncMap_hw_linearizable
-- composition with the C05 heap model (Ekit/Props/C06Heap.lean)
open Ekit.Props.C06
-- C06 ∘ C05: ConcurrentPriorityQueue over the actual heap model (to be merged into Audit/C06.lean)
#print axioms c06_cpq_heap_linearizable
#print axioms c06_cpq_heap_prio_linearizable
#print axioms c06_cpq_heap_bag_linearizable
#print axioms c06_bagSpec_never_panics
#print axioms c06_pqSpec_rejects_panicRet
#print axioms c06_cpq_heap_hinit
#print axioms c06_cpq_heap_href
#print axioms c06_cpq_heap_hro
#print axioms c06_cpq_heap_data_wf
#print axioms c06_cpq_heap_no_panic
#print axioms pqStep_of_check
#print axioms Ekit.Linz.LockWrapped.linearizable_inv
#print axioms Ekit.Linz.LockWrapped.reachable_inv
#print axioms Ekit.Linz.LockWrapped.run_lift
-- the same statements in the classical Herlihy–Wing form
#print axioms Ekit.Props.HWForms.c06_cpq_heap_hw_linearizable
#print axioms Ekit.Props.HWForms.c06_cpq_heap_bag_hw_linearizable
-- review additions (Ekit/Props/C06Rev.lean)
#print axioms c06_clq_enqueuers_spin_while_unswung
#print axioms c06_clq_spin_witness
#print axioms c06_clq_conservation
-- the event replayer of ConcurrentPriorityQueue (Driver/Ev/LockWrapped.lean) repeats the three glue definitions of
-- Props/C06Heap.lean (the driver must not import Props): they are the same
example : @Driver.Ev.CPQ.rawParams = @Ekit.Props.C06.rawParams := rfl
-- soundness of the event replayers clq / cow / clist / cpq (Driver/Ev/CLQSound.lean, LockWrappedSound.lean)
#print axioms Driver.Ev.CLQ.clq_sync_sound
#print axioms Driver.Ev.CLQ.clq_sync_nocrash
#print axioms Driver.Ev.CLQ.clq_inv_sound
#print axioms Driver.Ev.CLQ.clq_res_sound
#print axioms Driver.Ev.CLQ.event_clq
#print axioms Driver.Ev.CLQ.clq_replay_sound
#print axioms Driver.Ev.CLQ.clq_replay_reachable
#print axioms Driver.Ev.CLQ.clq_replay_quiescent
#print axioms Driver.Ev.CLQ.c06_clq_evtrace_linearizable
#print axioms Driver.Ev.CLQ.c06_clq_evtrace_invariants
#print axioms Driver.Ev.CLQ.c06_clq_evtrace_quiescent
#print axioms Driver.Ev.LW.lw_sync_sound
#print axioms Driver.Ev.LW.lw_inv_sound
#print axioms Driver.Ev.LW.lw_res_sound
#print axioms Driver.Ev.LW.step_map
#print axioms Driver.Ev.LW.PRun.map
#print axioms Driver.Ev.Cow.event_cow
#print axioms Driver.Ev.Cow.cow_replay_sound
#print axioms Driver.Ev.Cow.cow_replay_reachable
#print axioms Driver.Ev.Cow.c06_cow_evtrace_linearizable
#print axioms Driver.Ev.Cow.c06_cow_evtrace_invariants
#print axioms Driver.Ev.CList.event_clist
#print axioms Driver.Ev.CList.clist_replay_prun
#print axioms Driver.Ev.CList.clist_replay_sound
#print axioms Driver.Ev.CList.c06_clist_evtrace_linearizable
#print axioms Driver.Ev.CList.c06_clist_evtrace_invariants
#print axioms Driver.Ev.CPQ.event_cpq
#print axioms Driver.Ev.CPQ.cpq_replay_prun_partial
-- cpq in full: one growth oracle glued from the per-event ones (Driver/Ev/CPQSoundC06.lean)
#print axioms Driver.Ev.LW.run_unmap
#print axioms Driver.Ev.CPQ.heap_step_view
#print axioms Driver.Ev.CPQ.abstracts
#print axioms Driver.Ev.CPQ.cpq_replay_abs_sound
#print axioms Driver.Ev.CPQ.cpq_replay_any_oracle
#print axioms Driver.Ev.CPQ.step_local
#print axioms Driver.Ev.CPQ.run_local
#print axioms Driver.Ev.CPQ.prun_glue
#print axioms Driver.Ev.CPQ.cpq_replay_sound
#print axioms Driver.Ev.CPQ.cpq_replay_reachable
#print axioms Driver.Ev.CPQ.init_lawful
#print axioms Driver.Ev.CPQ.c06_cpq_evtrace_linearizable
#print axioms Driver.Ev.CPQ.c06_cpq_evtrace_invariants
#print axioms Driver.Ev.CPQ.c06_cpq_evtrace_heap_wf
