import Driver.Main
