/-
Second generic contract: procedures that assign no pointer field, not `rb.root`, allocate nothing and call only
procedures of the same kind ("pure with respect to the pointer structure": the getters, `setColor`, `setNode`) leave
every pointer field of every node, the root pointer and the allocation counter exactly as they were.
One induction over the syntax, like Lemmas/RBPtrSafe.lean, with a simpler invariant.
-/
import Ekit.MiniGo.RBContract

namespace Ekit.MiniGo.RBHeap
open Ekit.MiniGo Ekit.Gen.RBTreeGo

/-- the pointer structure is untouched -/
def PtrSame (st st' : St) : Prop :=
  (∀ a, SamePtrs (st'.h a) (st.h a)) ∧ st'.root = st.root ∧ st'.alloc = st.alloc

theorem PtrSame.refl (st : St) : PtrSame st st := ⟨fun _ => ⟨rfl, rfl, rfl⟩, rfl, rfl⟩
theorem PtrSame.trans {a b c : St} (h1 : PtrSame a b) (h2 : PtrSame b c) : PtrSame a c :=
  ⟨fun x => ⟨(h2.1 x).1.trans (h1.1 x).1, (h2.1 x).2.1.trans (h1.1 x).2.1, (h2.1 x).2.2.trans (h1.1 x).2.2⟩,
   h2.2.1.trans h1.2.1, h2.2.2.trans h1.2.2⟩

def isPure : PName → Bool
  | .getColor | .getParent | .getLeft | .getRight | .getUncle | .getGrandParent | .getBrother
  | .setColor | .setNode => true
  | _ => false

def pureE : Expr PName → Bool
  | .nil | .int _ | .bool _ | .err _ | .unit | .var _ | .root | .size => true
  | .field e _ => pureE e
  | .cmp a b | .eq a b | .ne a b | .lt a b | .gt a b | .and a b | .or a b | .add a b => pureE a && pureE b
  | .not a => pureE a
  | .call0 fn => isPure fn
  | .call1 fn a => isPure fn && pureE a
  | .call2 fn a b => isPure fn && pureE a && pureE b
  | .call3 fn a b c => isPure fn && pureE a && pureE b && pureE c
  | .alloc .. => false

def pureS : Stmt PName → Bool
  | .skip | .continue_ | .break_ => true
  | .seq a b => pureS a && pureS b
  | .assign _ e => pureE e
  | .setField p f e => !ptrFld f && pureE p && pureE e
  | .setRoot _ => false
  | .setSize e => pureE e
  | .ite c t e => pureE c && pureS t && pureS e
  | .loop c b => pureE c && pureS b
  | .ret e => pureE e
  | .ret2 a b => pureE a && pureE b
  | .expr e => pureE e

theorem pure_procs_pure : ∀ fn, isPure fn = true → pureS (procs fn).body = true := by
  intro fn; cases fn <;> decide

def SpecPure (callH : CallH PName) (fn : PName) : Prop :=
  ∀ args st v st', callH fn args st = .ok (v, st') → PtrSame st st'

theorem set_nonptr_ptrs {n m : Node} {f : Fld} {v : Val} (hf : ptrFld f = false) (h : n.set f v = some m) :
    SamePtrs m n := by
  cases f <;> cases v <;> simp [Node.set, ptrFld] at h hf <;> subst h <;> exact ⟨rfl, rfl, rfl⟩

section
variable (cmpF : Int → Int → Int) (callH : CallH PName) (hP : ∀ fn, isPure fn = true → SpecPure callH fn)
include hP

def PGoodE (e : Expr PName) : Prop :=
  ∀ ρ st v st', evalE cmpF callH ρ st e = .ok (v, st') → PtrSame st st'

theorem evalE_pure : ∀ e : Expr PName, pureE e = true → PGoodE cmpF callH e := by
  intro e
  induction e with
  | nil => intro _ ρ st v st' h; simp [evalE] at h; obtain ⟨_, rfl⟩ := h; exact .refl _
  | int i => intro _ ρ st v st' h; simp [evalE] at h; obtain ⟨_, rfl⟩ := h; exact .refl _
  | bool b => intro _ ρ st v st' h; simp [evalE] at h; obtain ⟨_, rfl⟩ := h; exact .refl _
  | err c => intro _ ρ st v st' h; simp [evalE] at h; obtain ⟨_, rfl⟩ := h; exact .refl _
  | unit => intro _ ρ st v st' h; simp [evalE] at h; obtain ⟨_, rfl⟩ := h; exact .refl _
  | var x => intro _ ρ st v st' h; simp [evalE] at h; obtain ⟨_, rfl⟩ := h; exact .refl _
  | root => intro _ ρ st v st' h; simp [evalE] at h; obtain ⟨_, rfl⟩ := h; exact .refl _
  | size => intro _ ρ st v st' h; simp [evalE] at h; obtain ⟨_, rfl⟩ := h; exact .refl _
  | field e f ih =>
    intro hs ρ st v st' h
    simp only [pureE] at hs
    simp only [evalE] at h
    cases he : evalE cmpF callH ρ st e with
    | error x => simp [he] at h
    | ok r =>
      obtain ⟨x, st1⟩ := r
      have S1 := ih hs ρ st x st1 he
      rw [he] at h
      cases x with
      | ptr p =>
        cases p with
        | none => simp at h
        | some a => simp at h; obtain ⟨_, rfl⟩ := h; exact S1
      | _ => simp at h
  | cmp a b iha ihb =>
    intro hs ρ st v st' h
    simp only [pureE, Bool.and_eq_true] at hs
    simp only [evalE] at h
    cases h1 : evalE cmpF callH ρ st a with
    | error x => simp [h1] at h
    | ok r1 =>
      obtain ⟨x, st1⟩ := r1
      rw [h1] at h
      cases x with
      | int xi =>
        simp only at h
        cases h2 : evalE cmpF callH ρ st1 b with
        | error x => simp [h2] at h
        | ok r2 =>
          obtain ⟨y, st2⟩ := r2
          rw [h2] at h
          cases y <;> simp at h
          obtain ⟨_, rfl⟩ := h
          exact (iha hs.1 ρ st _ st1 h1).trans (ihb hs.2 ρ st1 _ st2 h2)
      | _ => simp at h
  | lt a b iha ihb =>
    intro hs ρ st v st' h
    simp only [pureE, Bool.and_eq_true] at hs
    simp only [evalE] at h
    cases h1 : evalE cmpF callH ρ st a with
    | error x => simp [h1] at h
    | ok r1 =>
      obtain ⟨x, st1⟩ := r1
      rw [h1] at h
      cases x with
      | int xi =>
        simp only at h
        cases h2 : evalE cmpF callH ρ st1 b with
        | error x => simp [h2] at h
        | ok r2 =>
          obtain ⟨y, st2⟩ := r2
          rw [h2] at h
          cases y <;> simp at h
          obtain ⟨_, rfl⟩ := h
          exact (iha hs.1 ρ st _ st1 h1).trans (ihb hs.2 ρ st1 _ st2 h2)
      | _ => simp at h
  | gt a b iha ihb =>
    intro hs ρ st v st' h
    simp only [pureE, Bool.and_eq_true] at hs
    simp only [evalE] at h
    cases h1 : evalE cmpF callH ρ st a with
    | error x => simp [h1] at h
    | ok r1 =>
      obtain ⟨x, st1⟩ := r1
      rw [h1] at h
      cases x with
      | int xi =>
        simp only at h
        cases h2 : evalE cmpF callH ρ st1 b with
        | error x => simp [h2] at h
        | ok r2 =>
          obtain ⟨y, st2⟩ := r2
          rw [h2] at h
          cases y <;> simp at h
          obtain ⟨_, rfl⟩ := h
          exact (iha hs.1 ρ st _ st1 h1).trans (ihb hs.2 ρ st1 _ st2 h2)
      | _ => simp at h
  | add a b iha ihb =>
    intro hs ρ st v st' h
    simp only [pureE, Bool.and_eq_true] at hs
    simp only [evalE] at h
    cases h1 : evalE cmpF callH ρ st a with
    | error x => simp [h1] at h
    | ok r1 =>
      obtain ⟨x, st1⟩ := r1
      rw [h1] at h
      cases x with
      | int xi =>
        simp only at h
        cases h2 : evalE cmpF callH ρ st1 b with
        | error x => simp [h2] at h
        | ok r2 =>
          obtain ⟨y, st2⟩ := r2
          rw [h2] at h
          cases y <;> simp at h
          obtain ⟨_, rfl⟩ := h
          exact (iha hs.1 ρ st _ st1 h1).trans (ihb hs.2 ρ st1 _ st2 h2)
      | _ => simp at h
  | eq a b iha ihb =>
    intro hs ρ st v st' h
    simp only [pureE, Bool.and_eq_true] at hs
    simp only [evalE] at h
    cases h1 : evalE cmpF callH ρ st a with
    | error x => simp [h1] at h
    | ok r1 =>
      obtain ⟨x, st1⟩ := r1
      rw [h1] at h
      simp only at h
      cases h2 : evalE cmpF callH ρ st1 b with
      | error x => simp [h2] at h
      | ok r2 =>
        obtain ⟨y, st2⟩ := r2
        rw [h2] at h
        simp only at h
        cases hv : valEq x y with
        | none => simp [hv] at h
        | some r =>
          simp [hv] at h; obtain ⟨_, rfl⟩ := h
          exact (iha hs.1 ρ st x st1 h1).trans (ihb hs.2 ρ st1 y st2 h2)
  | ne a b iha ihb =>
    intro hs ρ st v st' h
    simp only [pureE, Bool.and_eq_true] at hs
    simp only [evalE] at h
    cases h1 : evalE cmpF callH ρ st a with
    | error x => simp [h1] at h
    | ok r1 =>
      obtain ⟨x, st1⟩ := r1
      rw [h1] at h
      simp only at h
      cases h2 : evalE cmpF callH ρ st1 b with
      | error x => simp [h2] at h
      | ok r2 =>
        obtain ⟨y, st2⟩ := r2
        rw [h2] at h
        simp only at h
        cases hv : valEq x y with
        | none => simp [hv] at h
        | some r =>
          simp [hv] at h; obtain ⟨_, rfl⟩ := h
          exact (iha hs.1 ρ st x st1 h1).trans (ihb hs.2 ρ st1 y st2 h2)
  | and a b iha ihb =>
    intro hs ρ st v st' h
    simp only [pureE, Bool.and_eq_true] at hs
    simp only [evalE] at h
    cases h1 : evalE cmpF callH ρ st a with
    | error x => simp [h1] at h
    | ok r1 =>
      obtain ⟨x, st1⟩ := r1
      rw [h1] at h
      have S1 := iha hs.1 ρ st x st1 h1
      cases x with
      | bool xb =>
        cases xb with
        | false => simp at h; obtain ⟨_, rfl⟩ := h; exact S1
        | true =>
          simp only at h
          cases h2 : evalE cmpF callH ρ st1 b with
          | error x => simp [h2] at h
          | ok r2 =>
            obtain ⟨y, st2⟩ := r2
            rw [h2] at h
            have S2 := ihb hs.2 ρ st1 y st2 h2
            cases y <;> simp at h
            obtain ⟨_, rfl⟩ := h
            exact S1.trans S2
      | _ => simp at h
  | or a b iha ihb =>
    intro hs ρ st v st' h
    simp only [pureE, Bool.and_eq_true] at hs
    simp only [evalE] at h
    cases h1 : evalE cmpF callH ρ st a with
    | error x => simp [h1] at h
    | ok r1 =>
      obtain ⟨x, st1⟩ := r1
      rw [h1] at h
      have S1 := iha hs.1 ρ st x st1 h1
      cases x with
      | bool xb =>
        cases xb with
        | true => simp at h; obtain ⟨_, rfl⟩ := h; exact S1
        | false =>
          simp only at h
          cases h2 : evalE cmpF callH ρ st1 b with
          | error x => simp [h2] at h
          | ok r2 =>
            obtain ⟨y, st2⟩ := r2
            rw [h2] at h
            have S2 := ihb hs.2 ρ st1 y st2 h2
            cases y <;> simp at h
            obtain ⟨_, rfl⟩ := h
            exact S1.trans S2
      | _ => simp at h
  | not a iha =>
    intro hs ρ st v st' h
    simp only [pureE] at hs
    simp only [evalE] at h
    cases h1 : evalE cmpF callH ρ st a with
    | error x => simp [h1] at h
    | ok r1 =>
      obtain ⟨x, st1⟩ := r1
      rw [h1] at h
      have S1 := iha hs ρ st x st1 h1
      cases x <;> simp at h
      obtain ⟨_, rfl⟩ := h
      exact S1
  | call0 fn =>
    intro hs ρ st v st' h
    simp only [pureE] at hs
    simp only [evalE] at h
    exact hP fn hs [] st v st' h
  | call1 fn a iha =>
    intro hs ρ st v st' h
    simp only [pureE, Bool.and_eq_true] at hs
    simp only [evalE] at h
    cases h1 : evalE cmpF callH ρ st a with
    | error x => simp [h1] at h
    | ok r1 =>
      obtain ⟨x, st1⟩ := r1
      rw [h1] at h
      exact (iha hs.2 ρ st x st1 h1).trans (hP fn hs.1 [x] st1 v st' h)
  | call2 fn a b iha ihb =>
    intro hs ρ st v st' h
    simp only [pureE, Bool.and_eq_true] at hs
    simp only [evalE] at h
    cases h1 : evalE cmpF callH ρ st a with
    | error x => simp [h1] at h
    | ok r1 =>
      obtain ⟨x, st1⟩ := r1
      rw [h1] at h
      simp only at h
      cases h2 : evalE cmpF callH ρ st1 b with
      | error x => simp [h2] at h
      | ok r2 =>
        obtain ⟨y, st2⟩ := r2
        rw [h2] at h
        exact ((iha hs.1.2 ρ st x st1 h1).trans (ihb hs.2 ρ st1 y st2 h2)).trans (hP fn hs.1.1 [x, y] st2 v st' h)
  | call3 fn a b c iha ihb ihc =>
    intro hs ρ st v st' h
    simp only [pureE, Bool.and_eq_true] at hs
    simp only [evalE] at h
    cases h1 : evalE cmpF callH ρ st a with
    | error x => simp [h1] at h
    | ok r1 =>
      obtain ⟨x, st1⟩ := r1
      rw [h1] at h
      simp only at h
      cases h2 : evalE cmpF callH ρ st1 b with
      | error x => simp [h2] at h
      | ok r2 =>
        obtain ⟨y, st2⟩ := r2
        rw [h2] at h
        simp only at h
        cases h3 : evalE cmpF callH ρ st2 c with
        | error x => simp [h3] at h
        | ok r3 =>
          obtain ⟨z, st3⟩ := r3
          rw [h3] at h
          exact (((iha hs.1.1.2 ρ st x st1 h1).trans (ihb hs.1.2 ρ st1 y st2 h2)).trans
            (ihc hs.2 ρ st2 z st3 h3)).trans (hP fn hs.1.1.1 [x, y, z] st3 v st' h)
  | alloc c k v l r p => intro hs; simp [pureE] at hs

def PGoodS (lf : Nat) (s : Stmt PName) : Prop :=
  ∀ ρ st fl ρ' st', exec cmpF callH lf ρ st s = .ok (fl, ρ', st') → PtrSame st st'

omit hP in
theorem iterate_pure {cond : Env → St → Res (Val × St)} {body : Env → St → Res (Flow × Env × St)}
    (hc : ∀ ρ st v st', cond ρ st = .ok (v, st') → PtrSame st st')
    (hb : ∀ ρ st fl ρ' st', body ρ st = .ok (fl, ρ', st') → PtrSame st st') :
    ∀ n ρ st fl ρ' st', iterate cond body n ρ st = .ok (fl, ρ', st') → PtrSame st st' := by
  intro n
  induction n with
  | zero => intro ρ st fl ρ' st' h; simp [iterate] at h
  | succ n ih =>
    intro ρ st fl ρ' st' h
    simp only [iterate] at h
    cases h1 : cond ρ st with
    | error x => simp [h1] at h
    | ok r1 =>
      obtain ⟨x, st1⟩ := r1
      rw [h1] at h
      have S1 := hc ρ st x st1 h1
      cases x with
      | bool xb =>
        cases xb with
        | false => simp at h; obtain ⟨_, _, rfl⟩ := h; exact S1
        | true =>
          simp only at h
          cases h2 : body ρ st1 with
          | error x => simp [h2] at h
          | ok r2 =>
            obtain ⟨fl2, ρ2, st2⟩ := r2
            rw [h2] at h
            have S2 := hb ρ st1 fl2 ρ2 st2 h2
            cases fl2 with
            | normal => simp only at h; exact (S1.trans S2).trans (ih ρ2 st2 fl ρ' st' h)
            | cont => simp only at h; exact (S1.trans S2).trans (ih ρ2 st2 fl ρ' st' h)
            | brk => simp at h; obtain ⟨_, _, rfl⟩ := h; exact S1.trans S2
            | ret w => simp at h; obtain ⟨_, _, rfl⟩ := h; exact S1.trans S2
      | _ => simp at h

theorem exec_pure (lf : Nat) : ∀ s : Stmt PName, pureS s = true → PGoodS cmpF callH lf s := by
  intro s
  induction s with
  | skip => intro _ ρ st fl ρ' st' h; simp [exec] at h; obtain ⟨_, _, rfl⟩ := h; exact .refl _
  | continue_ => intro _ ρ st fl ρ' st' h; simp [exec] at h; obtain ⟨_, _, rfl⟩ := h; exact .refl _
  | break_ => intro _ ρ st fl ρ' st' h; simp [exec] at h; obtain ⟨_, _, rfl⟩ := h; exact .refl _
  | seq a b iha ihb =>
    intro hs ρ st fl ρ' st' h
    simp only [pureS, Bool.and_eq_true] at hs
    simp only [exec] at h
    cases h1 : exec cmpF callH lf ρ st a with
    | error x => simp [h1] at h
    | ok r1 =>
      obtain ⟨fl1, ρ1, st1⟩ := r1
      rw [h1] at h
      have S1 := iha hs.1 ρ st fl1 ρ1 st1 h1
      cases fl1 with
      | normal => simp only at h; exact S1.trans (ihb hs.2 ρ1 st1 fl ρ' st' h)
      | cont => simp at h; obtain ⟨_, _, rfl⟩ := h; exact S1
      | brk => simp at h; obtain ⟨_, _, rfl⟩ := h; exact S1
      | ret w => simp at h; obtain ⟨_, _, rfl⟩ := h; exact S1
  | assign x e =>
    intro hs ρ st fl ρ' st' h
    simp only [pureS] at hs
    simp only [exec] at h
    cases h1 : evalE cmpF callH ρ st e with
    | error x => simp [h1] at h
    | ok r1 =>
      obtain ⟨v, st1⟩ := r1
      rw [h1] at h
      simp at h; obtain ⟨_, _, rfl⟩ := h
      exact evalE_pure cmpF callH hP e hs ρ st v st1 h1
  | setField p f e =>
    intro hs ρ st fl ρ' st' h
    simp only [pureS, Bool.and_eq_true, Bool.not_eq_true'] at hs
    simp only [exec] at h
    cases h1 : evalE cmpF callH ρ st p with
    | error x => simp [h1] at h
    | ok r1 =>
      obtain ⟨pv, st1⟩ := r1
      rw [h1] at h
      simp only at h
      cases h2 : evalE cmpF callH ρ st1 e with
      | error x => simp [h2] at h
      | ok r2 =>
        obtain ⟨v, st2⟩ := r2
        rw [h2] at h
        have S2 := (evalE_pure cmpF callH hP p hs.1.2 ρ st pv st1 h1).trans
          (evalE_pure cmpF callH hP e hs.2 ρ st1 v st2 h2)
        cases pv with
        | ptr q =>
          cases q with
          | none => simp at h
          | some a =>
            simp only at h
            cases h3 : (st2.h a).set f v with
            | none => simp [h3] at h
            | some n =>
              simp [h3] at h; obtain ⟨_, _, rfl⟩ := h
              refine S2.trans ⟨fun b => ?_, rfl, rfl⟩
              simp only [upd]
              split
              · next e => subst e; exact set_nonptr_ptrs hs.1.1 h3
              · exact ⟨rfl, rfl, rfl⟩
        | _ => simp at h
  | setRoot e => intro hs; simp [pureS] at hs
  | setSize e =>
    intro hs ρ st fl ρ' st' h
    simp only [pureS] at hs
    simp only [exec] at h
    cases h1 : evalE cmpF callH ρ st e with
    | error x => simp [h1] at h
    | ok r1 =>
      obtain ⟨v, st1⟩ := r1
      rw [h1] at h
      have S1 := evalE_pure cmpF callH hP e hs ρ st v st1 h1
      cases v with
      | int i =>
        simp at h; obtain ⟨_, _, rfl⟩ := h
        exact S1.trans ⟨fun _ => ⟨rfl, rfl, rfl⟩, rfl, rfl⟩
      | _ => simp at h
  | ite c a b iha ihb =>
    intro hs ρ st fl ρ' st' h
    simp only [pureS, Bool.and_eq_true] at hs
    simp only [exec] at h
    cases h1 : evalE cmpF callH ρ st c with
    | error x => simp [h1] at h
    | ok r1 =>
      obtain ⟨v, st1⟩ := r1
      rw [h1] at h
      have S1 := evalE_pure cmpF callH hP c hs.1.1 ρ st v st1 h1
      cases v with
      | bool vb =>
        cases vb with
        | true => simp only at h; exact S1.trans (iha hs.1.2 ρ st1 fl ρ' st' h)
        | false => simp only at h; exact S1.trans (ihb hs.2 ρ st1 fl ρ' st' h)
      | _ => simp at h
  | loop c b ihb =>
    intro hs ρ st fl ρ' st' h
    simp only [pureS, Bool.and_eq_true] at hs
    simp only [exec] at h
    exact iterate_pure (fun ρ st v st' h => evalE_pure cmpF callH hP c hs.1 ρ st v st' h)
      (fun ρ st fl ρ' st' h => ihb hs.2 ρ st fl ρ' st' h) lf ρ st fl ρ' st' h
  | ret e =>
    intro hs ρ st fl ρ' st' h
    simp only [pureS] at hs
    simp only [exec] at h
    cases h1 : evalE cmpF callH ρ st e with
    | error x => simp [h1] at h
    | ok r1 =>
      obtain ⟨v, st1⟩ := r1
      rw [h1] at h
      simp at h; obtain ⟨_, _, rfl⟩ := h
      exact evalE_pure cmpF callH hP e hs ρ st v st1 h1
  | ret2 a b =>
    intro hs ρ st fl ρ' st' h
    simp only [pureS, Bool.and_eq_true] at hs
    simp only [exec] at h
    cases h1 : evalE cmpF callH ρ st a with
    | error x => simp [h1] at h
    | ok r1 =>
      obtain ⟨x, st1⟩ := r1
      rw [h1] at h
      simp only at h
      cases h2 : evalE cmpF callH ρ st1 b with
      | error x => simp [h2] at h
      | ok r2 =>
        obtain ⟨y, st2⟩ := r2
        rw [h2] at h
        simp at h; obtain ⟨_, _, rfl⟩ := h
        exact (evalE_pure cmpF callH hP a hs.1 ρ st x st1 h1).trans (evalE_pure cmpF callH hP b hs.2 ρ st1 y st2 h2)
  | expr e =>
    intro hs ρ st fl ρ' st' h
    simp only [pureS] at hs
    simp only [exec] at h
    cases h1 : evalE cmpF callH ρ st e with
    | error x => simp [h1] at h
    | ok r1 =>
      obtain ⟨v, st1⟩ := r1
      rw [h1] at h
      simp at h; obtain ⟨_, _, rfl⟩ := h
      exact evalE_pure cmpF callH hP e hs ρ st v st1 h1

theorem runBody_pure (lf : Nat) (p : Proc PName) (hs : pureS p.body = true) :
    ∀ args st v st', runBody cmpF callH lf p args st = .ok (v, st') → PtrSame st st' := by
  intro args st v st' h
  simp only [runBody] at h
  cases h1 : exec cmpF callH lf (Env.ofArgs args) st p.body with
  | error x => simp [h1] at h
  | ok r1 =>
    obtain ⟨fl, ρ1, st1⟩ := r1
    rw [h1] at h
    have S1 := exec_pure cmpF callH hP lf p.body hs _ st fl ρ1 st1 h1
    cases fl with
    | normal => simp at h; obtain ⟨_, rfl⟩ := h; exact S1
    | ret w => simp at h; obtain ⟨_, rfl⟩ := h; exact S1
    | cont => simp at h
    | brk => simp at h

end

/-- under the real call handler every pure procedure leaves the pointer structure untouched -/
theorem call_pure (cmpF : Int → Int → Int) : ∀ fuel fn, isPure fn = true → SpecPure (call cmpF procs fuel) fn := by
  intro fuel
  induction fuel with
  | zero => intro fn _ args st v st' h; simp [call] at h
  | succ f ih =>
    intro fn hp args st v st' h
    exact runBody_pure cmpF _ ih f (procs fn) (pure_procs_pure fn hp) args st v st' h

end Ekit.MiniGo.RBHeap
