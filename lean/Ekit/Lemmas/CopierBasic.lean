/-
Helper lemmas for C20, part 1: reflect.Type facts (kinds, fields, depth), well-typed values,
the field map.
-/
import Ekit.Spec.Copier

namespace Ekit.Copier
open Ekit.Go

/-! ### kinds, fields, pointers -/

theorem fields_of_kind_struct : ∀ t : Ty, t.kind = .struct → ∃ fs, t.fields? = some fs
  | .named _ u, h => by
      simp only [Ty.kind] at h
      simpa [Ty.fields?] using fields_of_kind_struct u h
  | .struct fs, _ => ⟨fs, rfl⟩
  | .basic _, h | .slice _, h | .arr _ _, h | .map _ _, h | .chan _, h | .func _, h | .iface _, h
  | .uptr, h | .ptr _, h => by simp [Ty.kind] at h

theorem kind_struct_of_fields : ∀ (t : Ty) (fs), t.fields? = some fs → t.kind = .struct
  | .named _ u, fs, h => by
      simp only [Ty.fields?] at h
      simpa [Ty.kind] using kind_struct_of_fields u fs h
  | .struct _, _, _ => rfl
  | .basic _, _, h | .slice _, _, h | .arr _ _, _, h | .map _ _, _, h | .chan _, _, h | .func _, _, h
  | .iface _, _, h | .uptr, _, h | .ptr _, _, h => by simp [Ty.fields?] at h

theorem elem_of_kind_ptr : ∀ t : Ty, t.kind = .ptr → ∃ e, t.ptrElem? = some e
  | .named _ u, h => by
      simp only [Ty.kind] at h
      simpa [Ty.ptrElem?] using elem_of_kind_ptr u h
  | .ptr e, _ => ⟨e, rfl⟩
  | .basic _, h | .slice _, h | .arr _ _, h | .map _ _, h | .chan _, h | .func _, h | .iface _, h
  | .uptr, h | .struct _, h => by simp [Ty.kind] at h

theorem kind_ptr_of_elem : ∀ (t : Ty) (e), t.ptrElem? = some e → t.kind = .ptr
  | .named _ u, e, h => by
      simp only [Ty.ptrElem?] at h
      simpa [Ty.kind] using kind_ptr_of_elem u e h
  | .ptr _, _, _ => rfl
  | .basic _, _, h | .slice _, _, h | .arr _ _, _, h | .map _ _, _, h | .chan _, _, h | .func _, _, h
  | .iface _, _, h | .uptr, _, h | .struct _, _, h => by simp [Ty.ptrElem?] at h

theorem elem_none_of_kind_ne_ptr (t : Ty) (h : t.kind ≠ .ptr) : t.ptrElem? = none := by
  cases he : t.ptrElem? with
  | none => rfl
  | some e => exact absurd (kind_ptr_of_elem t e he) h

theorem stripPtr_of_elem {t e : Ty} (h : t.ptrElem? = some e) : t.stripPtr = e := by
  simp [Ty.stripPtr, h]

theorem stripPtr_of_not_ptr {t : Ty} (h : t.kind ≠ .ptr) : t.stripPtr = t := by
  simp [Ty.stripPtr, elem_none_of_kind_ne_ptr t h]

theorem not_multiPtr_elem {t e : Ty} (h : t.ptrElem? = some e) (hm : t.isMultiPtr = false) : e.kind ≠ .ptr := by
  simp [Ty.isMultiPtr, h] at hm
  exact hm

/-! ### depth -/

theorem depth_elem : ∀ (t : Ty) (e), t.ptrElem? = some e → e.depth = t.depth
  | .named _ u, e, h => by
      simp only [Ty.ptrElem?] at h
      simpa [Ty.depth] using depth_elem u e h
  | .ptr e, e', h => by
      simp [Ty.ptrElem?] at h
      subst h
      simp [Ty.depth]
  | .basic _, _, h | .slice _, _, h | .arr _ _, _, h | .map _ _, _, h | .chan _, _, h | .func _, _, h
  | .iface _, _, h | .uptr, _, h | .struct _, _, h => by simp [Ty.ptrElem?] at h

theorem depth_stripPtr (t : Ty) : t.stripPtr.depth = t.depth := by
  unfold Ty.stripPtr
  cases h : t.ptrElem? with
  | none => rfl
  | some e => exact depth_elem t e h

theorem depthFields_mem : ∀ (fs : List Field) (f : Field), f ∈ fs → (fty f).depth ≤ Ty.depthFields fs
  | [], _, h => by simp at h
  | (n, e, t) :: r, f, h => by
      simp only [Ty.depthFields]
      rcases List.mem_cons.mp h with h | h
      · subst h; exact Nat.le_max_left _ _
      · exact Nat.le_trans (depthFields_mem r f h) (Nat.le_max_right _ _)

theorem depth_field_lt : ∀ (t : Ty) (fs : List Field) (f : Field), t.fields? = some fs → f ∈ fs →
    (fty f).depth < t.depth
  | .named _ u, fs, f, h, hm => by
      simp only [Ty.fields?] at h
      simpa [Ty.depth] using depth_field_lt u fs f h hm
  | .struct fs', fs, f, h, hm => by
      simp [Ty.fields?] at h
      subst h
      simp only [Ty.depth]
      exact Nat.lt_succ_of_le (depthFields_mem _ f hm)
  | .basic _, _, _, h, _ | .slice _, _, _, h, _ | .arr _ _, _, _, h, _ | .map _ _, _, _, h, _
  | .chan _, _, _, h, _ | .func _, _, _, h, _ | .iface _, _, _, h, _ | .uptr, _, _, h, _
  | .ptr _, _, _, h, _ => by simp [Ty.fields?] at h

theorem depth_pos_of_struct : ∀ t : Ty, t.kind = .struct → 0 < t.depth
  | .named _ u, h => by
      simp only [Ty.kind] at h
      simpa [Ty.depth] using depth_pos_of_struct u h
  | .struct _, _ => by simp [Ty.depth]
  | .basic _, h | .slice _, h | .arr _ _, h | .map _ _, h | .chan _, h | .func _, h | .iface _, h
  | .uptr, h | .ptr _, h => by simp [Ty.kind] at h

/-! ### well-typed values -/

theorem wt_struct : ∀ (t : Ty) (fs : List Field) (v : Val), t.fields? = some fs → wt t v = true →
    ∃ vs, v = .struct vs ∧ wtFields fs vs = true
  | .named _ u, fs, v, h, hw => by
      simp only [Ty.fields?] at h
      simp only [wt] at hw
      exact wt_struct u fs v h hw
  | .struct fs', fs, v, h, hw => by
      simp [Ty.fields?] at h
      subst h
      cases v <;> simp [wt] at hw
      exact ⟨_, rfl, hw⟩
  | .basic _, _, _, h, _ | .slice _, _, _, h, _ | .arr _ _, _, _, h, _ | .map _ _, _, _, h, _
  | .chan _, _, _, h, _ | .func _, _, _, h, _ | .iface _, _, _, h, _ | .uptr, _, _, h, _
  | .ptr _, _, _, h, _ => by simp [Ty.fields?] at h

theorem wt_of_struct : ∀ (t : Ty) (fs : List Field) (vs : List Val), t.fields? = some fs →
    wtFields fs vs = true → wt t (.struct vs) = true
  | .named _ u, fs, vs, h, hw => by
      simp only [Ty.fields?] at h
      simp only [wt]
      exact wt_of_struct u fs vs h hw
  | .struct fs', fs, vs, h, hw => by
      simp [Ty.fields?] at h
      subst h
      simpa [wt] using hw
  | .basic _, _, _, h, _ | .slice _, _, _, h, _ | .arr _ _, _, _, h, _ | .map _ _, _, _, h, _
  | .chan _, _, _, h, _ | .func _, _, _, h, _ | .iface _, _, _, h, _ | .uptr, _, _, h, _
  | .ptr _, _, _, h, _ => by simp [Ty.fields?] at h

theorem wt_ptr : ∀ (t e : Ty) (v : Val), t.ptrElem? = some e → wt t v = true →
    v = .nil ∨ ∃ x, v = .ptr x ∧ wt e x = true
  | .named _ u, e, v, h, hw => by
      simp only [Ty.ptrElem?] at h
      simp only [wt] at hw
      exact wt_ptr u e v h hw
  | .ptr e', e, v, h, hw => by
      simp [Ty.ptrElem?] at h
      subst h
      cases v <;> simp [wt] at hw
      · exact Or.inl rfl
      · exact Or.inr ⟨_, rfl, hw⟩
  | .basic _, _, _, h, _ | .slice _, _, _, h, _ | .arr _ _, _, _, h, _ | .map _ _, _, _, h, _
  | .chan _, _, _, h, _ | .func _, _, _, h, _ | .iface _, _, _, h, _ | .uptr, _, _, h, _
  | .struct _, _, _, h, _ => by simp [Ty.ptrElem?] at h

theorem wt_of_ptr : ∀ (t e : Ty) (x : Val), t.ptrElem? = some e → wt e x = true → wt t (.ptr x) = true
  | .named _ u, e, x, h, hw => by
      simp only [Ty.ptrElem?] at h
      simp only [wt]
      exact wt_of_ptr u e x h hw
  | .ptr e', e, x, h, hw => by
      simp [Ty.ptrElem?] at h
      subst h
      simpa [wt] using hw
  | .basic _, _, _, h, _ | .slice _, _, _, h, _ | .arr _ _, _, _, h, _ | .map _ _, _, _, h, _
  | .chan _, _, _, h, _ | .func _, _, _, h, _ | .iface _, _, _, h, _ | .uptr, _, _, h, _
  | .struct _, _, _, h, _ => by simp [Ty.ptrElem?] at h

theorem wtFields_length : ∀ (fs : List Field) (vs : List Val), wtFields fs vs = true → vs.length = fs.length
  | [], [], _ => rfl
  | (_, _, _) :: r, _ :: vs, h => by
      simp [wtFields] at h
      simp [wtFields_length r vs h.2]
  | [], _ :: _, h => by simp [wtFields] at h
  | _ :: _, [], h => by simp [wtFields] at h

theorem wtFields_get : ∀ (fs : List Field) (vs : List Val) (i : Nat) (f : Field), wtFields fs vs = true →
    fs[i]? = some f → ∃ x, vs[i]? = some x ∧ wt (fty f) x = true
  | (n, e, t) :: r, v :: vs, 0, f, h, hf => by
      simp [wtFields] at h
      simp at hf
      subst hf
      exact ⟨v, by simp, h.1⟩
  | (_, _, _) :: r, _ :: vs, i + 1, f, h, hf => by
      simp [wtFields] at h
      simp at hf
      simpa using wtFields_get r vs i f h.2 hf
  | [], _, _, _, _, hf => by simp at hf
  | _ :: _, [], _, _, h, _ => by simp [wtFields] at h

theorem wtFields_set : ∀ (fs : List Field) (vs : List Val) (i : Nat) (f : Field) (x : Val),
    wtFields fs vs = true → fs[i]? = some f → wt (fty f) x = true → wtFields fs (vs.set i x) = true
  | (n, e, t) :: r, v :: vs, 0, f, x, h, hf, hx => by
      simp [wtFields] at h
      simp at hf
      subst hf
      simp [wtFields, h.2]
      exact hx
  | (_, _, _) :: r, _ :: vs, i + 1, f, x, h, hf, hx => by
      simp [wtFields] at h
      simp at hf
      simp [wtFields, h.1, wtFields_set r vs i f x h.2 hf hx]
  | [], _, _, _, _, _, hf, _ => by simp at hf
  | _ :: _, [], _, _, _, h, _, _ => by simp [wtFields] at h

/-- a well-typed struct value has every field of its type, well-typed -/
theorem wt_field (t : Ty) (fs : List Field) (v : Val) (i : Nat) (f : Field)
    (hfs : t.fields? = some fs) (hw : wt t v = true) (hf : fs[i]? = some f) :
    ∃ x, v.field? i = some x ∧ wt (fty f) x = true := by
  obtain ⟨vs, rfl, hvs⟩ := wt_struct t fs v hfs hw
  simpa [Val.field?] using wtFields_get fs vs i f hvs hf

/-- replacing a field by a well-typed value keeps the struct well-typed -/
theorem wt_setField (t : Ty) (fs : List Field) (v : Val) (i : Nat) (f : Field) (x : Val)
    (hfs : t.fields? = some fs) (hw : wt t v = true) (hf : fs[i]? = some f) (hx : wt (fty f) x = true) :
    wt t (v.setField i x) = true := by
  obtain ⟨vs, rfl, hvs⟩ := wt_struct t fs v hfs hw
  simp only [Val.setField]
  exact wt_of_struct t fs _ hfs (wtFields_set fs vs i f x hvs hf hx)

mutual
theorem wt_zeroOf : ∀ t : Ty, wt t (zeroOf t) = true
  | .basic k => by cases k <;> simp [zeroOf, wt, wtBasic]
  | .named _ u => by simp only [zeroOf, wt]; exact wt_zeroOf u
  | .slice _ => by simp [zeroOf, wt]
  | .arr n e => by simp [zeroOf, wt]
  | .map _ _ => by simp [zeroOf, wt]
  | .chan _ => by simp [zeroOf, wt]
  | .func _ => by simp [zeroOf, wt]
  | .iface _ => by simp [zeroOf, wt]
  | .uptr => by simp [zeroOf, wt]
  | .ptr _ => by simp [zeroOf, wt]
  | .struct fs => by simp only [zeroOf, wt]; exact wtFields_zero fs
theorem wtFields_zero : ∀ fs : List (String × Bool × Ty), wtFields fs (zeroFields fs) = true
  | [] => by simp [zeroFields, wtFields]
  | (_, _, t) :: r => by simp [zeroFields, wtFields, wt_zeroOf t, wtFields_zero r]
end

/-! ### Val.field? / setField -/

theorem field_setField_same (v : Val) (i : Nat) (x y : Val) (h : v.field? i = some y) :
    (v.setField i x).field? i = some x := by
  cases v <;> simp [Val.field?] at h
  rename_i fs
  have : i < fs.length := by
    rcases Nat.lt_or_ge i fs.length with h' | h'
    · exact h'
    · simp [List.getElem?_eq_none h'] at h
  simp [Val.setField, Val.field?, this]

theorem field_setField_ne (v : Val) (i j : Nat) (x : Val) (h : i ≠ j) :
    (v.setField i x).field? j = v.field? j := by
  cases v <;> simp [Val.setField, Val.field?]
  rename_i fs
  simp [List.getElem?_set_ne h]

/-! ### the field map -/

/-- what `fieldMap[name]` holds after the first loop: the last exported field of that name -/
theorem fieldMapFrom_lookup (name : String) : ∀ (sfs : List Field) (m : List (String × Nat)) (k : Nat),
    (fieldMapFrom m sfs k).lookup name = Spec.srcFieldIdxFrom name sfs k (m.lookup name)
  | [], m, k => by simp [fieldMapFrom, Spec.srcFieldIdxFrom]
  | f :: r, m, k => by
      simp only [fieldMapFrom, Spec.srcFieldIdxFrom]
      rw [fieldMapFrom_lookup name r]
      congr 1
      by_cases he : fexp f = true
      · by_cases hn : fname f = name
        · simp [he, hn]
        · have hn' : (name == f.1) = false := by
            simp only [beq_eq_false_iff_ne, ne_eq]
            exact fun h => hn h.symm
          simp only [he, if_true, hn, Bool.true_and, beq_iff_eq, if_false]
          show List.lookup name ((f.1, k) :: m) = _
          rw [List.lookup_cons, hn']
      · simp [he]

theorem fieldMap_lookup (sfs : List Field) (name : String) :
    (fieldMap sfs).lookup name = Spec.srcFieldIdx? sfs name := by
  simp [fieldMap, Spec.srcFieldIdx?, fieldMapFrom_lookup]

theorem srcFieldIdxFrom_some (name : String) : ∀ (sfs pre : List Field) (acc : Option Nat) (i : Nat),
    (∀ j, acc = some j → ∃ f, (pre ++ sfs)[j]? = some f ∧ fexp f = true ∧ fname f = name) →
    Spec.srcFieldIdxFrom name sfs pre.length acc = some i →
    ∃ f, (pre ++ sfs)[i]? = some f ∧ fexp f = true ∧ fname f = name
  | [], pre, acc, i, hacc, h => by
      simp [Spec.srcFieldIdxFrom] at h
      exact hacc i h
  | f :: r, pre, acc, i, hacc, h => by
      simp only [Spec.srcFieldIdxFrom] at h
      have key := srcFieldIdxFrom_some name r (pre ++ [f])
        (if fexp f && fname f == name then some pre.length else acc) i
      simp only [List.length_append, List.length_cons, List.length_nil, List.append_assoc,
        List.cons_append, List.nil_append] at key
      apply key _ h
      intro j hj
      split at hj
      · rename_i hc
        simp at hc
        simp at hj
        subst hj
        exact ⟨f, by simp, hc.1, hc.2⟩
      · exact hacc j hj

/-- the index found in the field map names an exported source field of that name -/
theorem srcFieldIdx_some (sfs : List Field) (name : String) (i : Nat)
    (h : Spec.srcFieldIdx? sfs name = some i) :
    ∃ f, sfs[i]? = some f ∧ fexp f = true ∧ fname f = name := by
  have := srcFieldIdxFrom_some name sfs [] none i (by simp) (by simpa [Spec.srcFieldIdx?] using h)
  simpa using this

theorem mem_of_getElem? {α} {l : List α} {i : Nat} {a : α} (h : l[i]? = some a) : a ∈ l :=
  List.mem_of_getElem? h

end Ekit.Copier
