/-
The `Retry` loop on the virtual clock: shape of the log for each outcome, the strategy is consulted
once per failed invocation in order, and the gap between consecutive invocations.
-/
import Ekit.Model.Retry

namespace Ekit.Retry

variable {σ : Type}

/-- the invocation failed and the strategy granted a retry (so a wait followed) -/
def Waited (a : Att) : Prop := (∃ e, a.err = some e) ∧ (∃ d, a.nxt = some (d, true))

/-- what the log looks like for each way `Retry` can end -/
def OutcomeShape (env : Env) (res : Res) (log : List Att) : Prop :=
  match res with
  | .nil => ∃ pre a, log = pre ++ [a] ∧ (∀ b ∈ pre, Waited b) ∧ a.err = none ∧ a.nxt = none
  | .exhausted e => ∃ pre a d, log = pre ++ [a] ∧ (∀ b ∈ pre, Waited b) ∧ a.err = some e ∧ a.nxt = some (d, false)
  | .ctxErr => ∃ pre a c, log = pre ++ [a] ∧ (∀ b ∈ pre, Waited b) ∧ Waited a ∧
      env.ctxEnd = some c ∧ c ≤ a.fire ∧ c ≤ a.resume
  | .running => ∀ b ∈ log, Waited b
  | .invalid => True

theorem outcomeShape_cons {env : Env} {res : Res} {log : List Att} {a : Att} (ha : Waited a)
    (h : OutcomeShape env res log) : OutcomeShape env res (a :: log) := by
  cases res with
  | nil =>
    obtain ⟨pre, l, h1, h2, h3⟩ := h
    exact ⟨a :: pre, l, by simp [h1], by intro b hb; rcases List.mem_cons.1 hb with rfl | hb; exact ha; exact h2 b hb, h3⟩
  | exhausted e =>
    obtain ⟨pre, l, d, h1, h2, h3⟩ := h
    exact ⟨a :: pre, l, d, by simp [h1], by intro b hb; rcases List.mem_cons.1 hb with rfl | hb; exact ha; exact h2 b hb, h3⟩
  | ctxErr =>
    obtain ⟨pre, l, c, h1, h2, h3⟩ := h
    exact ⟨a :: pre, l, c, by simp [h1], by intro b hb; rcases List.mem_cons.1 hb with rfl | hb; exact ha; exact h2 b hb, h3⟩
  | running =>
    intro b hb; rcases List.mem_cons.1 hb with rfl | hb
    · exact ha
    · exact h b hb
  | invalid => trivial

theorem retryLoop_shape (next : σ → σ × (Int × Bool)) (env : Env) :
    ∀ (fuel k now : Nat) (st : σ),
      OutcomeShape env (retryLoop next env fuel k now st).1 (retryLoop next env fuel k now st).2 := by
  intro fuel
  induction fuel with
  | zero => intro k now st; simp [retryLoop, OutcomeShape]
  | succ f ih =>
    intro k now st
    simp only [retryLoop]
    cases hb : (env.biz k).2 with
    | none => exact ⟨[], _, rfl, by simp, rfl, rfl⟩
    | some e =>
      simp only []
      cases hok : (next st).2.2 with
      | false => exact ⟨[], _, _, rfl, by simp, rfl, rfl⟩
      | true =>
        simp only [Bool.true_eq_false, if_false]
        cases harm : env.arm k with
        | ctx =>
          simp only []
          cases hen : ctxEnabled env.ctxEnd (now + env.startLag k + (env.biz k).1 + env.nextLag k + (next st).2.1.toNat + env.fireLate k) with
          | false => simp [OutcomeShape]
          | true =>
            simp only [if_true]
            cases hc : env.ctxEnd with
            | none => simp [ctxEnabled, hc] at hen
            | some c =>
              simp only [ctxEnabled, hc, decide_eq_true_eq] at hen
              refine ⟨[], _, c, rfl, by simp, ⟨⟨e, rfl⟩, ⟨_, rfl⟩⟩, hc, hen, ?_⟩
              show c ≤ max _ c + env.wakeLag k
              omega
        | timer =>
          simp only []
          split
          · exact outcomeShape_cons ⟨⟨e, rfl⟩, ⟨_, rfl⟩⟩ (ih _ _ _)
          · simp [OutcomeShape]

/-- the log never has more entries than iterations simulated, and is non-empty when fuel is -/
theorem retryLoop_length_le (next : σ → σ × (Int × Bool)) (env : Env) :
    ∀ (fuel k now : Nat) (st : σ), (retryLoop next env fuel k now st).2.length ≤ fuel := by
  intro fuel
  induction fuel with
  | zero => intro k now st; simp [retryLoop]
  | succ f ih =>
    intro k now st
    simp only [retryLoop]
    split
    · simp
    · split
      · simp
      · split
        · split <;> simp
        · split
          · have := ih (k + 1) (now + env.startLag k + (env.biz k).1 + env.nextLag k + (next st).2.1.toNat + env.fireLate k + env.wakeLag k) (next st).1
            simp only [List.length_cons]; omega
          · simp

/-- if the simulation ran out of fuel, every one of the `fuel` iterations happened -/
theorem retryLoop_running_length (next : σ → σ × (Int × Bool)) (env : Env) :
    ∀ (fuel k now : Nat) (st : σ), (retryLoop next env fuel k now st).1 = .running →
      (retryLoop next env fuel k now st).2.length = fuel := by
  intro fuel
  induction fuel with
  | zero => intro k now st _; simp [retryLoop]
  | succ f ih =>
    intro k now st
    simp only [retryLoop]
    split
    · simp
    · split
      · simp
      · split
        · split <;> simp
        · split
          · intro h
            have := ih _ _ _ h
            simp only [List.length_cons]; omega
          · simp

/-- invocation `j` of the log is invocation `k + j` of the script: same error, and it ran for the
    scripted duration -/
theorem retryLoop_script (next : σ → σ × (Int × Bool)) (env : Env) :
    ∀ (fuel k now : Nat) (st : σ) (j : Nat) (a : Att),
      (retryLoop next env fuel k now st).2[j]? = some a →
      a.err = (env.biz (k + j)).2 ∧ a.fin = a.start + (env.biz (k + j)).1 := by
  intro fuel
  induction fuel with
  | zero => intro k now st j a h; simp [retryLoop] at h
  | succ f ih =>
    intro k now st j a
    simp only [retryLoop]
    have single : ∀ (x : Att), x.err = (env.biz k).2 → x.fin = x.start + (env.biz k).1 →
        [x][j]? = some a → a.err = (env.biz (k + j)).2 ∧ a.fin = a.start + (env.biz (k + j)).1 := by
      intro x hx1 hx2 h
      cases j with
      | zero => simp at h; subst h; exact ⟨hx1, hx2⟩
      | succ j => simp at h
    cases hb : (env.biz k).2 with
    | none => exact single _ (by simp [hb]) rfl
    | some e =>
      simp only []
      split
      · exact single _ (by simp [hb]) rfl
      · split
        · split <;> exact single _ (by simp [hb]) rfl
        · split
          · intro h
            cases j with
            | zero => simp at h; subst h; exact ⟨by simp [hb], rfl⟩
            | succ j =>
              simp only [List.getElem?_cons_succ] at h
              have := ih _ _ _ j a h
              simpa [Nat.add_assoc, Nat.add_comm 1 j] using this
          · exact single _ (by simp [hb]) rfl

/-- `Next` is called exactly once per failed invocation, in order, on the evolving strategy state -/
theorem retryLoop_nexts (next : σ → σ × (Int × Bool)) (env : Env) :
    ∀ (fuel k now : Nat) (st : σ),
      (retryLoop next env fuel k now st).2.filterMap (·.nxt) =
        stratOutputs next ((retryLoop next env fuel k now st).2.filterMap (·.nxt)).length st := by
  intro fuel
  induction fuel with
  | zero => intro k now st; simp [retryLoop, stratOutputs]
  | succ f ih =>
    intro k now st
    simp only [retryLoop]
    split
    · simp [stratOutputs]
    · split
      · rename_i hok
        simp only [List.filterMap_cons, List.filterMap_nil, List.length_singleton, stratOutputs]
        congr 1
        rw [← hok]
      · rename_i hok
        have hok' : (next st).2.2 = true := by simpa using hok
        have hpair : ((next st).2.1, true) = (next st).2 := by rw [← hok']
        split
        · split <;> simp [stratOutputs, hpair]
        · split
          · have := ih (k + 1) (now + env.startLag k + (env.biz k).1 + env.nextLag k + (next st).2.1.toNat + env.fireLate k + env.wakeLag k) (next st).1
            simp only [List.filterMap_cons, List.length_cons, stratOutputs]
            rw [hpair]
            congr 1
          · simp [stratOutputs, hpair]

/-- the first invocation does not start before the loop is entered -/
theorem retryLoop_first_start (next : σ → σ × (Int × Bool)) (env : Env) (fuel k now : Nat) (st : σ)
    (a : Att) (h : (retryLoop next env fuel k now st).2[0]? = some a) : now ≤ a.start := by
  cases fuel with
  | zero => simp [retryLoop] at h
  | succ f =>
    simp only [retryLoop] at h
    split at h
    · simp at h; subst h; simp
    · split at h
      · simp at h; subst h; simp
      · split at h
        · split at h <;> (simp at h; subst h; simp)
        · split at h <;> (simp at h; subst h; simp)

/-- **The wait**: consecutive invocations `a`, `b` are separated by at least the interval the
    strategy returned after `a`: `a.fin + d ≤ b.start` — whatever the oracle (durations, lags,
    lateness, arms, context) and whatever the strategy. Moreover the timer arm was enabled. -/
theorem retryLoop_gap (next : σ → σ × (Int × Bool)) (env : Env) :
    ∀ (fuel k now : Nat) (st : σ) (i : Nat) (a b : Att),
      (retryLoop next env fuel k now st).2[i]? = some a →
      (retryLoop next env fuel k now st).2[i + 1]? = some b →
      ∃ d : Int, a.nxt = some (d, true) ∧ (a.fin : Int) + d ≤ (b.start : Int) ∧
        a.fin ≤ a.armed ∧ a.armed + d.toNat ≤ a.fire ∧ a.fire ≤ b.start ∧
        timerEnabled env.ctxEnd a.armed a.fire = true := by
  intro fuel
  induction fuel with
  | zero => intro k now st i a b h; simp [retryLoop] at h
  | succ f ih =>
    intro k now st i a b
    simp only [retryLoop]
    split
    · intro _ h2; simp at h2
    · split
      · intro _ h2; simp at h2
      · split
        · split <;> (intro _ h2; simp at h2)
        · split
          · rename_i hen
            intro h1 h2
            cases i with
            | zero =>
              simp only [List.getElem?_cons_zero, Option.some.injEq] at h1
              simp only [Nat.zero_add, List.getElem?_cons_succ] at h2
              have hs := retryLoop_first_start next env f _ _ _ b h2
              subst h1
              refine ⟨(next st).2.1, rfl, ?_, by simp, by simp, by simp at hs ⊢; omega, hen⟩
              simp only
              have : (next st).2.1 ≤ ((next st).2.1.toNat : Int) := Int.self_le_toNat _
              omega
            | succ i =>
              simp only [List.getElem?_cons_succ] at h1 h2
              exact ih _ _ _ i a b h1 h2
          · intro _ h2; simp at h2

end Ekit.Retry
