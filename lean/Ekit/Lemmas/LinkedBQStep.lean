/-
Preservation of the second-layer invariants of the linked blocking queue model (`LinkedBQData`) by
every step, and their validity in all reachable states.
-/
import Ekit.Lemmas.LinkedBQData
namespace Ekit.LinkedBQ
open Ekit.Conc Ekit.BQ

theorem inv2_tau {m : Int} {s s' : State} {t : Nat} (h : Inv m s) (h2 : Inv2 s)
    (hs : tauStep s t = some s') : Inv2 s' := by
  have hne : s.pc t ≠ .idle := by
    intro e; unfold tauStep at hs; simp [e] at hs
  have hmem : t ∈ s.live := (h.live_iff t).mpr hne
  have hwR := wsum_le_of_mem wR s.pc hmem
  have hR0 := h.rd
  have hLt := h2.lockF t; have hPt := h2.parkF t; have hEt := h2.noErr t; have hWt := h2.wr t hne
  have hMt := h.mutexW t
  unfold tauStep at hs
  cases hp : s.pc t <;> simp only [hp] at hs
  all_goals (simp only [hp, lockFact, parkFact, resOf, wrOf, wR, inW] at hLt hPt hEt hWt hwR hMt)
  case eAppend v =>
    simp only [ll_append] at hs
    injection hs with hs; subst hs
    have hw : inW (s.pc t) = true := by simp [hp, inW]
    have hoth := others_not_inW h hw
    have hpc : ∀ u, u ≠ t → (setPc { s with q := s.q ++ [v], enqd := s.enqd ++ [v], writes := upd s.writes t (s.writes t + 1) } t (.bcSwap .notEmpty .ok)).pc u = s.pc u := by
      intro u hu; simp [setPc, upd, hu]
    obtain ⟨c1, c2, c3, c4⟩ := closers_frame (s' := setPc { s with q := s.q ++ [v], enqd := s.enqd ++ [v], writes := upd s.writes t (s.writes t + 1) } t (.bcSwap .notEmpty .ok)) h2 t hpc (fun w => by cases w <;> rfl) (by intro w g; simp [setPc, hp, isCloser])
    refine ⟨?_, ?_, ?_, ?_, ?_, h2.noPanic, c1, c2, c3, c4, ?_⟩
    · intro hm
      have := full_false_lt hLt h2.cap_le hm
      simp [setPc]; omega
    · intro u
      by_cases hut : u = t
      · subst hut; simp [setPc, lockFact]
      · rw [hpc u hut]; exact lockFact_of_not_inW _ (hoth u hut)
    · intro u
      by_cases hut : u = t
      · subst hut; simp [setPc, parkFact]
      · rw [hpc u hut]
        have hu := h2.parkF u
        cases hpu : s.pc u <;> simp only [hpu, parkFact] at hu ⊢ <;> try trivial
        · refine ⟨hu.1, fun hg => ?_⟩
          cases hu.2 hg with
          | inl hf => rw [hLt] at hf; exact absurd hf (by simp)
          | inr hsw => exact absurd hsw (no_swapper h hw .notFull (by simp [hp, isSwap]))
        · refine ⟨hu.1, fun _ => Or.inr ⟨t, by simp [setPc, isSwap]⟩⟩
    · simp [setPc, h2.fifo]
    · intro u
      by_cases hut : u = t
      · subst hut; simp [setPc, resOf]
      · rw [hpc u hut]; exact h2.noErr u
    · intro u hu
      by_cases hut : u = t
      · subst hut; simp [setPc, wrOf, wrOfRet, hWt]
      · rw [hpc u hut] at hu ⊢; simp [setPc, upd, hut]; exact h2.wr u hu
  case dDelete =>
    cases hq : s.q with
    | nil => exact absurd hq hLt
    | cons x rest =>
    simp only [hq, ll_delete0_cons] at hs
    injection hs with hs; subst hs
    have hw : inW (s.pc t) = true := by simp [hp, inW]
    have hoth := others_not_inW h hw
    have hpc : ∀ u, u ≠ t → (setPc { s with q := rest, deqd := s.deqd ++ [x], writes := upd s.writes t (s.writes t + 1) } t (.bcSwap .notFull (.val x))).pc u = s.pc u := by
      intro u hu; simp [setPc, upd, hu]
    obtain ⟨c1, c2, c3, c4⟩ := closers_frame (s' := setPc { s with q := rest, deqd := s.deqd ++ [x], writes := upd s.writes t (s.writes t + 1) } t (.bcSwap .notFull (.val x))) h2 t hpc (fun w => by cases w <;> rfl) (by intro w g; simp [setPc, hp, isCloser])
    refine ⟨?_, ?_, ?_, ?_, ?_, h2.noPanic, c1, c2, c3, c4, ?_⟩
    · intro hm
      have := h2.cap_le hm
      simp [hq] at this
      simp [setPc]; omega
    · intro u
      by_cases hut : u = t
      · subst hut; simp [setPc, lockFact]
      · rw [hpc u hut]; exact lockFact_of_not_inW _ (hoth u hut)
    · intro u
      by_cases hut : u = t
      · subst hut; simp [setPc, parkFact]
      · rw [hpc u hut]
        have hu := h2.parkF u
        cases hpu : s.pc u <;> simp only [hpu, parkFact] at hu ⊢ <;> try trivial
        · refine ⟨hu.1, fun _ => Or.inr ⟨t, by simp [setPc, isSwap]⟩⟩
        · refine ⟨hu.1, fun hg => ?_⟩
          cases hu.2 hg with
          | inl hf => rw [hq] at hf; exact absurd hf (by simp)
          | inr hsw => exact absurd hsw (no_swapper h hw .notEmpty (by simp [hp, isSwap]))
    · have := h2.fifo; rw [hq] at this; simp [setPc, this]
    · intro u
      by_cases hut : u = t
      · subst hut; simp [setPc, resOf]
      · rw [hpc u hut]; exact h2.noErr u
    · intro u hu
      by_cases hut : u = t
      · subst hut; simp [setPc, wrOf, wrOfRet, hWt]
      · rw [hpc u hut] at hu ⊢; simp [setPc, upd, hut]; exact h2.wr u hu
  case bcSwap w r =>
    injection hs with hs; subst hs
    have hw : inW (s.pc t) = true := by simp [hp, inW]
    have hoth := others_not_inW h hw
    have hpc : ∀ u, u ≠ t → (setPc (setCond s w { getCond s w with cur := (getCond s w).cur + 1 }) t (.bcUnlock w (getCond s w).cur r)).pc u = s.pc u := by
      intro u hu; simp [setPc, upd, hu]
    have hgcur : ∀ w', (getCond (setPc (setCond s w { getCond s w with cur := (getCond s w).cur + 1 }) t (.bcUnlock w (getCond s w).cur r)) w').cur = (getCond s w').cur + (if w' = w then 1 else 0) := by
      intro w'; cases w <;> cases w' <;> simp [getCond, setCond, setPc]
    have hgcl : ∀ w', (getCond (setPc (setCond s w { getCond s w with cur := (getCond s w).cur + 1 }) t (.bcUnlock w (getCond s w).cur r)) w').closed = (getCond s w').closed := by
      intro w'; cases w <;> cases w' <;> rfl
    have hnc : ∀ w' g, isCloser (s.pc t) w' g = false := by intro w' g; simp [hp, isCloser]
    refine ⟨by simpa [setPc] using h2.cap_le, ?_, ?_, by simpa [setPc] using h2.fifo, ?_, by simpa [setPc] using h2.noPanic, ?_, ?_, ?_, ?_, ?_⟩
    · intro u
      by_cases hut : u = t
      · subst hut; simp [setPc, lockFact]
      · rw [hpc u hut]; exact lockFact_of_not_inW _ (hoth u hut)
    · intro u
      by_cases hut : u = t
      · subst hut; simp [setPc, parkFact]
      · rw [hpc u hut]
        have hu := h2.parkF u
        have hf : full (setPc (setCond s w { getCond s w with cur := (getCond s w).cur + 1 }) t (.bcUnlock w (getCond s w).cur r)) = full s := full_congr (by simp [setPc]) (by simp [setPc])
        have hne1 : (setPc (setCond s w { getCond s w with cur := (getCond s w).cur + 1 }) t (.bcUnlock w (getCond s w).cur r)).notEmpty.cur = s.notEmpty.cur + (if Which.notEmpty = w then 1 else 0) := hgcur .notEmpty
        have hnf1 : (setPc (setCond s w { getCond s w with cur := (getCond s w).cur + 1 }) t (.bcUnlock w (getCond s w).cur r)).notFull.cur = s.notFull.cur + (if Which.notFull = w then 1 else 0) := hgcur .notFull
        cases hpu : s.pc u <;> simp only [hpu, parkFact] at hu ⊢ <;> try trivial
        · rw [hnf1, hf]
          cases w
          · simp only [show (Which.notFull = Which.notEmpty) = False from by simp, if_false, Nat.add_zero]
            refine ⟨hu.1, fun hg => ?_⟩
            cases hu.2 hg with
            | inl hx => exact Or.inl hx
            | inr hx =>
              obtain ⟨u', hu'⟩ := hx
              have : u' ≠ t := by rintro rfl; simp [hp, isSwap] at hu'
              exact Or.inr ⟨u', by rw [hpc u' this]; exact hu'⟩
          · simp only [if_true]
            exact ⟨by omega, fun hg => by omega⟩
        · rw [hne1]
          have hq : (setPc (setCond s w { getCond s w with cur := (getCond s w).cur + 1 }) t (.bcUnlock w (getCond s w).cur r)).q = s.q := by simp [setPc]
          rw [hq]
          cases w
          · simp only [if_true]
            exact ⟨by omega, fun hg => by omega⟩
          · simp only [show (Which.notEmpty = Which.notFull) = False from by simp, if_false, Nat.add_zero]
            refine ⟨hu.1, fun hg => ?_⟩
            cases hu.2 hg with
            | inl hx => exact Or.inl hx
            | inr hx =>
              obtain ⟨u', hu'⟩ := hx
              have : u' ≠ t := by rintro rfl; simp [hp, isSwap] at hu'
              exact Or.inr ⟨u', by rw [hpc u' this]; exact hu'⟩
    · intro u
      by_cases hut : u = t
      · subst hut; simpa [setPc, resOf] using hEt
      · rw [hpc u hut]; exact h2.noErr u
    · intro w' g hg
      rw [hgcl] at hg; rw [hgcur]
      have := h2.closedLt w' g hg; omega
    · intro u w' g hu
      rw [hgcur, hgcl]
      by_cases hut : u = t
      · subst hut
        simp [setPc, isCloser] at hu
        obtain ⟨rfl, rfl⟩ := hu
        refine ⟨by simp, fun hx => ?_⟩
        have := h2.closedLt _ _ hx; omega
      · rw [hpc u hut] at hu
        have := h2.closerOk u w' g hu
        exact ⟨by omega, this.2⟩
    · intro u u' w' g hu hu'
      by_cases hut : u = t
      · by_cases hut' : u' = t
        · rw [hut, hut']
        · subst hut
          simp [setPc, isCloser] at hu
          obtain ⟨rfl, rfl⟩ := hu
          rw [hpc u' hut'] at hu'
          have := (h2.closerOk u' _ _ hu').1; omega
      · by_cases hut' : u' = t
        · subst hut'
          simp [setPc, isCloser] at hu'
          obtain ⟨rfl, rfl⟩ := hu'
          rw [hpc u hut] at hu
          have := (h2.closerOk u _ _ hu).1; omega
        · rw [hpc u hut] at hu; rw [hpc u' hut'] at hu'; exact h2.closerInj u u' w' g hu hu'
    · intro w' g hg
      rw [hgcur] at hg; rw [hgcl]
      by_cases hlt : g < (getCond s w').cur
      · cases h2.closerEx w' g hlt with
        | inl hx => exact Or.inl hx
        | inr hx =>
          obtain ⟨u, hu⟩ := hx
          have : u ≠ t := by rintro rfl; rw [hnc] at hu; exact absurd hu (by simp)
          exact Or.inr ⟨u, by rw [hpc u this]; exact hu⟩
      · have hww : w' = w := by
          by_cases hww : w' = w
          · exact hww
          · simp [hww] at hg; omega
        subst hww
        simp at hg
        exact Or.inr ⟨t, by simp [setPc, isCloser]; omega⟩
    · intro u hu
      by_cases hut : u = t
      · subst hut; simpa [setPc, wrOf] using hWt
      · rw [hpc u hut] at hu ⊢; simp [setPc]; exact h2.wr u hu
  case bcClose w old r =>
    have hcl := h2.closerOk t w old (by simp [hp, isCloser])
    simp only [hcl.2, if_false] at hs
    injection hs with hs; subst hs
    have hpc : ∀ u, u ≠ t → (setPc (setCond s w { getCond s w with closed := old :: (getCond s w).closed }) t (.ret r)).pc u = s.pc u := by
      intro u hu; simp [setPc, upd, hu]
    have hgc : ∀ w', (getCond (setPc (setCond s w { getCond s w with closed := old :: (getCond s w).closed }) t (.ret r)) w').cur = (getCond s w').cur := by
      intro w'; cases w <;> cases w' <;> rfl
    have hcd : ∀ w' g, g ∈ (getCond (setPc (setCond s w { getCond s w with closed := old :: (getCond s w).closed }) t (.ret r)) w').closed ↔ (g ∈ (getCond s w').closed ∨ (w' = w ∧ g = old)) := by
      intro w' g; cases w <;> cases w' <;> simp [getCond, setCond, setPc, or_comm]
    refine ⟨by simpa [setPc] using h2.cap_le, ?_, ?_, by simpa [setPc] using h2.fifo, ?_, by simpa [setPc] using h2.noPanic, ?_, ?_, ?_, ?_, ?_⟩
    · intro u
      rw [lockFact_congr (s := s) (by simp [setPc]) (by simp [setPc]) (hgc .notEmpty) (hgc .notFull)]
      by_cases hut : u = t
      · subst hut; simp [setPc, lockFact]
      · rw [hpc u hut]; exact h2.lockF u
    · intro u
      rw [parkFact_congr (s := s) t hpc (by intro w'; simp [setPc, hp, isSwap]) (by simp [setPc]) (by simp [setPc]) (hgc .notEmpty) (hgc .notFull)]
      by_cases hut : u = t
      · subst hut; simp [setPc, parkFact]
      · rw [hpc u hut]; exact h2.parkF u
    · intro u
      by_cases hut : u = t
      · subst hut; simpa [setPc, resOf] using hEt
      · rw [hpc u hut]; exact h2.noErr u
    · intro w' g hg
      rw [hgc]; rw [hcd] at hg
      cases hg with
      | inl hg => exact h2.closedLt w' g hg
      | inr hg => rw [hg.1, hg.2]; exact hcl.1
    · intro u w' g hu
      rw [hgc, hcd]
      by_cases hut : u = t
      · subst hut; simp [setPc, isCloser] at hu
      · rw [hpc u hut] at hu
        have := h2.closerOk u w' g hu
        refine ⟨this.1, ?_⟩
        rintro (hx | ⟨hw', hg'⟩)
        · exact this.2 hx
        · subst hw' hg'
          exact hut (h2.closerInj u t w' g hu (by simp [hp, isCloser]))
    · intro u u' w' g hu hu'
      by_cases hut : u = t
      · subst hut; simp [setPc, isCloser] at hu
      · by_cases hut' : u' = t
        · subst hut'; simp [setPc, isCloser] at hu'
        · rw [hpc u hut] at hu; rw [hpc u' hut'] at hu'; exact h2.closerInj u u' w' g hu hu'
    · intro w' g hg
      rw [hgc] at hg
      cases h2.closerEx w' g hg with
      | inl hx => exact Or.inl ((hcd w' g).mpr (Or.inl hx))
      | inr hx =>
        obtain ⟨u, hu⟩ := hx
        by_cases hut : u = t
        · subst hut
          simp [hp, isCloser] at hu
          exact Or.inl ((hcd w' g).mpr (Or.inr ⟨hu.1.symm, hu.2.symm⟩))
        · exact Or.inr ⟨u, by rw [hpc u hut]; exact hu⟩
    · intro u hu
      by_cases hut : u = t
      · subst hut; simpa [setPc, wrOf] using hWt
      · rw [hpc u hut] at hu ⊢; simp [setPc]; exact h2.wr u hu
  all_goals (try simp only [unlockTo, ll_len, ll_asSlice] at hs)
  all_goals (try split at hs)
  all_goals (try (simp at hs; done))
  all_goals (injection hs with hs; subst hs)
  all_goals (try (
    refine inv2_frame h2 t ?_ rfl rfl rfl rfl rfl rfl rfl ?_ ?_ ?_ ?_ ?_ ?_ ?_
    · intro u hu; simp [setPc, upd, hu]
    · intro u hu; rfl
    all_goals (simp [setPc, hp, lockFact, parkFact, resOf, wrOf, wrOfRet, isCloser, isSwap, *]) ))
  case dGuard.isTrue.refine_5 => exact List.length_eq_zero_iff.mp (by assumption)
  case dGuard.isFalse.refine_5 =>
    have hg : ¬ s.q.length = 0 := by assumption
    exact fun e => hg (by simp [e])
  case runlock.isFalse => exfalso; omega
  all_goals (exfalso; simp_all)

theorem inv2_init (m : Int) : Inv2 (init m) := by
  refine ⟨by simp [init]; omega, by simp [init, lockFact], by simp [init, parkFact], by simp [init],
    by simp [init, resOf], rfl, ?_, by simp [init, isCloser], by simp [init, isCloser], ?_, by simp [init]⟩
  · intro w g; cases w <;> simp [init, getCond]
  · intro w g; cases w <;> simp [init, getCond]

theorem inv2_step {m : Int} {s s' : State} {l : Label} (h : Inv m s) (h2 : Inv2 s)
    (hs : step s l = some s') : Inv2 s' := by
  cases l with
  | tau t =>
    simp only [step] at hs
    split at hs
    · simp at hs
    · exact inv2_tau h h2 hs
  | ctxEnd t =>
    simp only [step] at hs
    split at hs
    · injection hs with hs; subst hs
      exact ⟨h2.cap_le, h2.lockF, h2.parkF, h2.fifo, h2.noErr, h2.noPanic, h2.closedLt, h2.closerOk,
        h2.closerInj, h2.closerEx, h2.wr⟩
    · simp at hs
  | ctxArm t =>
    simp only [step] at hs
    cases hp : s.pc t <;> simp only [hp] at hs <;> try (simp at hs; done)
    all_goals (split at hs <;> try (simp at hs; done))
    all_goals (injection hs with hs; subst hs)
    all_goals (have hne : s.pc t ≠ .idle := by simp [hp])
    all_goals (have hWt := h2.wr t hne; simp only [hp, wrOf] at hWt)
    all_goals (
      refine inv2_frame h2 t ?_ rfl rfl rfl rfl rfl rfl rfl ?_ ?_ ?_ ?_ ?_ ?_ ?_
      · intro u hu; simp [setPc, upd, hu]
      · intro u hu; rfl
      all_goals (simp [setPc, hp, lockFact, parkFact, resOf, wrOf, wrOfRet, isCloser, isSwap, *]))
  | inv t op =>
    simp only [step] at hs
    split at hs
    · rename_i hidle
      injection hs with hs; subst hs
      refine inv2_frame h2 t ?_ rfl rfl rfl rfl rfl rfl rfl ?_ ?_ ?_ ?_ ?_ ?_ ?_
      · intro u hu; simp [upd, hu]
      · intro u hu; simp [upd, hu]
      all_goals (cases op <;> simp [start, hidle, lockFact, parkFact, resOf, wrOf, isCloser, isSwap])
    · simp at hs
  | res t r =>
    simp only [step] at hs
    split at hs
    · rename_i hret
      injection hs with hs; subst hs
      refine inv2_frame h2 t ?_ rfl rfl rfl rfl rfl rfl rfl ?_ ?_ ?_ ?_ ?_ ?_ ?_
      · intro u hu; simp [upd, hu]
      · intro u hu; rfl
      all_goals (simp [hret, lockFact, parkFact, resOf, wrOf, isCloser, isSwap])
    · simp at hs

/-- both layers hold in every reachable state, for every `maxSize` -/
theorem inv12_reachable (m : Int) (s : State) (hr : (sys m).Reachable s) : Inv m s ∧ Inv2 s :=
  System.invariant_induction (sys m).toSystem (fun s => Inv m s ∧ Inv2 s)
    ⟨inv_init m, inv2_init m⟩
    (fun _ _ _ h hs => ⟨inv_step h.1 hs, inv2_step h.1 h.2 hs⟩) s hr

end Ekit.LinkedBQ
