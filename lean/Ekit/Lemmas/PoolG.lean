/-
Layer G of the pool invariants (C12 `done_not_early`): a worker is on the `!ok` exit path only when the
queue is closed and empty; it reaches the closing→stopped CAS only with `totalGo = 0` and then no worker
is created any more; so when the graceful path cancels `interruptCtx` (= closes the channel returned by
Shutdown) the queue is empty and `totalGo = 0` — and stays so.
-/
import Ekit.Lemmas.PoolA2
import Ekit.Lemmas.PoolB
namespace Ekit.Pool

def LG : Loc where
  G s := (s.graceful = true → s.cancelled = true → s.queue = [] ∧ s.closed = true ∧ s.totalGo = 0) ∧
         (s.cancelled = true → shutBegun s.life = true)
  W s _ w := (((w.pc = .recvd ∧ w.ok = false) ∨ clPath w.pc = true) → s.queue = [] ∧ s.closed = true) ∧
             ((w.pc = .clCas ∨ w.pc = .clCancel) → s.totalGo = 0 ∧ shutBegun s.life = true) ∧
             (intPath w.pc = true → s.cancelled = true)
  C s _ cl := snAfter cl.pc = true → s.graceful = false

theorem invG_init : LG.Inv init := by
  refine ⟨?_, ?_, ?_⟩ <;> simp [LG, init]

theorem invG_wstep (c : Cfg) (s s' : St) (i : Nat) (a : WAct) (hA : InvA s) (hB : LB.Inv s) (hi : LG.Inv s)
    (h : wStep c s i a = some s') : LG.Inv s' := by
  unfold wStep at h
  split at h
  next w hw =>
    have hbi := hB.wk i w hw
    have hwi := hi.wk i w hw
    have hg := hi.glob
    have hag := (GAI_iff _).1 hA.glob
    simp only [LB] at hbi
    simp only [LG] at hg hwi
    simp only [St.ga] at hag
    cases a <;> simp only [wAct] at h <;> (repeat' (split at h)) <;> (try simp at h) <;> (try subst h) <;>
      (refine Loc.inv_worker hw rfl rfl hi ?_ ?_ ?_ ?_
       · first
         | exact hi.glob
         | (simp only [LG]; simp_all)
       · intro hm; simp only [LG]; simp_all
       · first
         | exact fun _ _ _ _ h => h
         | (intro j x hne hx hm
            simp only [LG] at hm ⊢
            simp_all)
       · first
         | exact fun _ h => h
         | (intro u hm
            have hau := (hA.loc u).snAfter_stopped
            simp only [St.ga] at hau
            simp only [LG] at hm ⊢
            simp_all))
  next => simp at h

end Ekit.Pool
