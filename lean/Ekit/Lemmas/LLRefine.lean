/-
The translated list/linked_list.go (Ekit/Generated/LinkedListGo.lean, run by the MiniGo interpreter of
Ekit/MiniGo/LangLL.lean) simulates the hand-written pointer-level model `Ekit.Lists.Ring`
(Model/LinkedRing.lean) call by call: related states, same heap surgery, same results.
-/
import Ekit.Generated.LinkedListGo
import Ekit.Props.C04Ring

namespace Ekit.MiniGo.LL.Refine
open Ekit.MiniGo.LL Ekit.Gen.LinkedListGo
open Ekit.Lists (Op Out Ret)
open Ekit.Go (Outcome Err)

/-! ### the simulation relation -/

/-- a MiniGo node and a `Ring` node hold the same three fields -/
def NRel (n : Node) (m : Ekit.Lists.Ring.Node) : Prop := n.prev = m.prev ∧ n.next = m.next ∧ n.val = m.val

def Rel (s : St) (l : Ekit.Lists.Ring.LL) : Prop :=
  s.head = some l.head ∧ s.tail = some l.tail ∧ s.length = l.length ∧ s.alloc = l.alloc ∧
  ∀ a, (s.h a).prev = (l.h a).prev ∧ (s.h a).next = (l.h a).next ∧ (s.h a).val = (l.h a).val

def emptySt : St := { h := fun _ => {}, alloc := 0, head := none, tail := none, length := 0 }

theorem Rel.nrel {s : St} {l : Ekit.Lists.Ring.LL} (h : Rel s l) (a : Nat) : NRel (s.h a) (l.h a) := h.2.2.2.2 a

theorem nrel_upd {h : Nat → Node} {hl : Nat → Ekit.Lists.Ring.Node} (hh : ∀ a, NRel (h a) (hl a)) (x : Nat)
    {n : Node} {m : Ekit.Lists.Ring.Node} (hn : NRel n m) : ∀ a, NRel (upd h x n a) (Ekit.Lists.Ring.upd hl x m a) := by
  intro a
  by_cases e : a = x
  · simp only [upd, Ekit.Lists.Ring.upd, e, if_true]; exact hn
  · simp only [upd, Ekit.Lists.Ring.upd, e, if_false]; exact hh a

/-! ### one-statement unfolding rules (the loop forms are deliberately not among them) -/

section rules
variable (callH : CallH PName) (lf : Nat) (ρ : Env) (st : St)

theorem exec_seq (a b : Stmt PName) : exec callH lf ρ st (.seq a b) =
    (match exec callH lf ρ st a with
     | .ok (.normal, ρ1, st1) => exec callH lf ρ1 st1 b
     | .ok r => .ok r
     | .error e => .error e) := rfl
theorem exec_skip : exec callH lf ρ st (.skip : Stmt PName) = .ok (.normal, ρ, st) := rfl
theorem exec_assign (x : Nat) (e : Expr PName) : exec callH lf ρ st (.assign x e) =
    (match evalE callH ρ st e with
     | .ok (v, st1) => .ok (.normal, ρ.set x v, st1)
     | .error e => .error e) := rfl
theorem exec_ite (c : Expr PName) (t e : Stmt PName) : exec callH lf ρ st (.ite c t e) =
    (match evalE callH ρ st c with
     | .ok (.bool true, st1) => exec callH lf ρ st1 t
     | .ok (.bool false, st1) => exec callH lf ρ st1 e
     | .ok _ => .error .stuck
     | .error x => .error x) := rfl
theorem exec_ret (e : Expr PName) : exec callH lf ρ st (.ret e) =
    (match evalE callH ρ st e with
     | .ok (v, st1) => .ok (.ret v, ρ, st1)
     | .error e => .error e) := rfl
theorem exec_ret2 (a b : Expr PName) : exec callH lf ρ st (.ret2 a b) =
    (match evalE callH ρ st a with
     | .ok (x, st1) =>
       match evalE callH ρ st1 b with
       | .ok (y, st2) => .ok (.ret (.pair x y), ρ, st2)
       | .error e => .error e
     | .error e => .error e) := rfl
theorem exec_setLength (e : Expr PName) : exec callH lf ρ st (.setLength e) =
    (match evalE callH ρ st e with
     | .ok (.int i, st1) => .ok (.normal, ρ, { st1 with length := i })
     | .ok _ => .error .stuck
     | .error e => .error e) := rfl
theorem exec_setHead (e : Expr PName) : exec callH lf ρ st (.setHead e) =
    (match evalE callH ρ st e with
     | .ok (.ptr p, st1) => .ok (.normal, ρ, { st1 with head := p })
     | .ok _ => .error .stuck
     | .error e => .error e) := rfl
theorem exec_setTail (e : Expr PName) : exec callH lf ρ st (.setTail e) =
    (match evalE callH ρ st e with
     | .ok (.ptr p, st1) => .ok (.normal, ρ, { st1 with tail := p })
     | .ok _ => .error .stuck
     | .error e => .error e) := rfl
theorem exec_setField (p : Expr PName) (f : Fld) (e : Expr PName) : exec callH lf ρ st (.setField p f e) =
    (match evalE callH ρ st p with
     | .ok (pv, st1) =>
       match evalE callH ρ st1 e with
       | .ok (v, st2) =>
         match writeField st2 pv f v with
         | .ok st3 => .ok (.normal, ρ, st3)
         | .error e => .error e
       | .error e => .error e
     | .error e => .error e) := rfl
theorem exec_setField2 (p1 : Expr PName) (f1 : Fld) (p2 : Expr PName) (f2 : Fld) (e1 e2 : Expr PName) :
    exec callH lf ρ st (.setField2 p1 f1 p2 f2 e1 e2) =
    (match evalE callH ρ st p1 with
     | .ok (pv1, s1) =>
       match evalE callH ρ s1 p2 with
       | .ok (pv2, s2) =>
         match evalE callH ρ s2 e1 with
         | .ok (v1, s3) =>
           match evalE callH ρ s3 e2 with
           | .ok (v2, s4) =>
             match writeField s4 pv1 f1 v1 with
             | .ok s5 =>
               match writeField s5 pv2 f2 v2 with
               | .ok s6 => .ok (.normal, ρ, s6)
               | .error e => .error e
             | .error e => .error e
           | .error e => .error e
         | .error e => .error e
       | .error e => .error e
     | .error e => .error e) := rfl
theorem exec_loop (c : Expr PName) (body : Stmt PName) : exec callH lf ρ st (.loop c body) =
    iterate (fun ρ st => evalE callH ρ st c) (fun ρ st => exec callH lf ρ st body) lf ρ st := rfl
theorem exec_range (x : Nat) (e : Expr PName) (body : Stmt PName) : exec callH lf ρ st (.range x e body) =
    (match evalE callH ρ st e with
     | .ok (.ints ts, st1) => iterRange x (fun ρ st => exec callH lf ρ st body) ts ρ st1
     | .ok _ => .error .stuck
     | .error e => .error e) := rfl

theorem set_apply (x : Nat) (v : Val) (y : Nat) : (ρ.set x v) y = if y = x then v else ρ y := rfl
theorem ofArgs_apply (args : List Val) (x : Nat) : Env.ofArgs args x = args.getD x .unit := rfl

end rules

/-! ### calls: fuel bookkeeping -/

theorem call_succ (f : Nat) (fn : PName) (args : List Val) (st : St) :
    call procs (f + 1) fn args st = runBody (call procs f) f (procs fn) args st := rfl

theorem Len_spec (f : Nat) (s : St) : call procs (f + 1) .Len [] s = .ok (.int s.length, s) := by
  simp [call_succ, runBody, procs, body_Len, exec, evalE]

theorem checkIndex_spec (f : Nat) (s : St) (i : Int) :
    call procs (f + 2) .checkIndex [.int i] s = .ok (.bool (decide (0 ≤ i) && decide (i < s.length)), s) := by
  rw [call_succ]
  simp only [runBody, procs, body_checkIndex, exec, evalE, seq2, Len_spec, Env.ofArgs, List.getD_cons_zero, BinOp.apply]
  by_cases h0 : 0 ≤ i <;> by_cases h1 : i < s.length <;> simp [h0, h1]

/-! ### the two loops of `findNode` are `Ring.walk` -/

section loops
variable (callH : CallH PName) (lf : Nat)

theorem fwd_cond (ρ : Env) (s : St) (idx j : Int) (h0 : ρ 0 = .int idx) (h2 : ρ 2 = .int j) :
    evalE callH ρ s (.lt (.var 2) (.var 0)) = .ok (.bool (decide (j < idx)), s) := by
  simp [evalE, seq2, BinOp.apply, h0, h2]

theorem bwd_cond (ρ : Env) (s : St) (idx j : Int) (h0 : ρ 0 = .int idx) (h2 : ρ 2 = .int j) :
    evalE callH ρ s (.gt (.var 2) (.var 0)) = .ok (.bool (decide (j > idx)), s) := by
  simp [evalE, seq2, BinOp.apply, h0, h2]

theorem step_body (fld : Fld) (d : Int) (ρ : Env) (s : St) (cur : Nat) (j : Int)
    (h1 : ρ 1 = .ptr (some cur)) (h2 : ρ 2 = .int j) :
    exec callH lf ρ s (.seq (.assign 1 (.field (.var 1) fld)) (.assign 2 (.add (.var 2) (.int d)))) =
      .ok (.normal, (ρ.set 1 ((s.h cur).get fld)).set 2 (.int (j + d)), s) := by
  simp [exec, evalE, seq2, BinOp.apply, h1, h2, Env.set]

theorem fwd_loop (s : St) (l : Ekit.Lists.Ring.LL) (hR : Rel s l) :
    ∀ (k n : Nat) (ρ : Env) (idx j : Int) (cur x : Nat), ρ 0 = .int idx → ρ 1 = .ptr (some cur) → ρ 2 = .int j →
      (idx - j).toNat = k → k < n → Ekit.Lists.Ring.walk l.h (·.next) cur k = some x →
      ∃ ρ', iterate (fun ρ st => evalE callH ρ st (.lt (.var 2) (.var 0)))
          (fun ρ st => exec callH lf ρ st (.seq (.assign 1 (.field (.var 1) .next)) (.assign 2 (.add (.var 2) (.int 1)))))
          n ρ s = .ok (.normal, ρ', s) ∧ ρ' 1 = .ptr (some x) := by
  intro k
  induction k with
  | zero =>
    intro n ρ idx j cur x h0 h1 h2 hk hn hw
    obtain ⟨n, rfl⟩ : ∃ m, n = m + 1 := ⟨n - 1, by omega⟩
    have hc : decide (j < idx) = false := by simp; omega
    simp only [Ekit.Lists.Ring.walk, Option.some.injEq] at hw
    subst hw
    exact ⟨ρ, by simp only [iterate, fwd_cond callH ρ s idx j h0 h2, hc], h1⟩
  | succ k ih =>
    intro n ρ idx j cur x h0 h1 h2 hk hn hw
    obtain ⟨n, rfl⟩ : ∃ m, n = m + 1 := ⟨n - 1, by omega⟩
    have hc : decide (j < idx) = true := by simp; omega
    simp only [Ekit.Lists.Ring.walk] at hw
    cases hnx : (l.h cur).next with
    | none => simp [hnx] at hw
    | some c =>
      simp only [hnx] at hw
      have hg : (s.h cur).get .next = .ptr (some c) := by simp [Node.get, (hR.nrel cur).2.1, hnx]
      obtain ⟨ρ', e1, e2⟩ := ih n ((ρ.set 1 (.ptr (some c))).set 2 (.int (j + 1))) idx (j + 1) c x
        (by simp [Env.set, h0]) (by simp [Env.set]) (by simp [Env.set]) (by omega) (by omega) hw
      refine ⟨ρ', ?_, e2⟩
      simp only [iterate, fwd_cond callH ρ s idx j h0 h2, hc, step_body callH lf .next 1 ρ s cur j h1 h2, hg]
      exact e1

theorem bwd_loop (s : St) (l : Ekit.Lists.Ring.LL) (hR : Rel s l) :
    ∀ (k n : Nat) (ρ : Env) (idx j : Int) (cur x : Nat), ρ 0 = .int idx → ρ 1 = .ptr (some cur) → ρ 2 = .int j →
      (j - idx).toNat = k → k < n → Ekit.Lists.Ring.walk l.h (·.prev) cur k = some x →
      ∃ ρ', iterate (fun ρ st => evalE callH ρ st (.gt (.var 2) (.var 0)))
          (fun ρ st => exec callH lf ρ st (.seq (.assign 1 (.field (.var 1) .prev)) (.assign 2 (.add (.var 2) (.int (-1))))))
          n ρ s = .ok (.normal, ρ', s) ∧ ρ' 1 = .ptr (some x) := by
  intro k
  induction k with
  | zero =>
    intro n ρ idx j cur x h0 h1 h2 hk hn hw
    obtain ⟨n, rfl⟩ : ∃ m, n = m + 1 := ⟨n - 1, by omega⟩
    have hc : decide (j > idx) = false := by simp; omega
    simp only [Ekit.Lists.Ring.walk, Option.some.injEq] at hw
    subst hw
    exact ⟨ρ, by simp only [iterate, bwd_cond callH ρ s idx j h0 h2, hc], h1⟩
  | succ k ih =>
    intro n ρ idx j cur x h0 h1 h2 hk hn hw
    obtain ⟨n, rfl⟩ : ∃ m, n = m + 1 := ⟨n - 1, by omega⟩
    have hc : decide (j > idx) = true := by simp; omega
    simp only [Ekit.Lists.Ring.walk] at hw
    cases hnx : (l.h cur).prev with
    | none => simp [hnx] at hw
    | some c =>
      simp only [hnx] at hw
      have hg : (s.h cur).get .prev = .ptr (some c) := by simp [Node.get, (hR.nrel cur).1, hnx]
      obtain ⟨ρ', e1, e2⟩ := ih n ((ρ.set 1 (.ptr (some c))).set 2 (.int (j + -1))) idx (j + -1) c x
        (by simp [Env.set, h0]) (by simp [Env.set]) (by simp [Env.set]) (by omega) (by omega) hw
      refine ⟨ρ', ?_, e2⟩
      simp only [iterate, bwd_cond callH ρ s idx j h0 h2, hc, step_body callH lf .prev (-1) ρ s cur j h1 h2, hg]
      exact e1

end loops

/-- `findNode(i)` computes `Ring.findNode`; the loops need `index+1` resp. `len-index` iterations -/
theorem findNode_sim (s : St) (l : Ekit.Lists.Ring.LL) (hR : Rel s l) (i : Int) (x : Nat)
    (hf : Ekit.Lists.Ring.findNode l i = some x) (f : Nat) (h1 : (i + 1).toNat ≤ f) (h2 : (l.length - i).toNat ≤ f) :
    call procs (f + 2) .findNode [.int i] s = .ok (.ptr (some x), s) := by
  rw [call_succ]
  have hlen : s.length = l.length := hR.2.2.1
  unfold Ekit.Lists.Ring.findNode at hf
  by_cases hle : i ≤ Int.tdiv l.length 2
  · simp only [hle, if_true] at hf
    obtain ⟨ρ', e1, e2⟩ := fwd_loop (call procs (f + 1)) (f + 1) s l hR (i + 1).toNat (f + 1)
      ((((Env.ofArgs [.int i]).set 1 (.ptr none)).set 1 (.ptr s.head)).set 2 (.int (-1))) i (-1) l.head x
      (by simp [set_apply, ofArgs_apply]) (by simp [set_apply, hR.1]) (by simp [set_apply]) (by omega) (by omega) hf
    rw [← exec_loop] at e1
    simp [runBody, procs, body_findNode, exec_seq, exec_assign, exec_ite, exec_ret, evalE, seq2, BinOp.apply, Len_spec,
      set_apply, ofArgs_apply, hlen, hle, e1, e2]
  · simp only [hle, if_false] at hf
    obtain ⟨ρ', e1, e2⟩ := bwd_loop (call procs (f + 1)) (f + 1) s l hR (l.length - i).toNat (f + 1)
      ((((Env.ofArgs [.int i]).set 1 (.ptr none)).set 1 (.ptr s.tail)).set 2 (.int l.length)) i l.length l.tail x
      (by simp [set_apply, ofArgs_apply]) (by simp [set_apply, hR.2.1]) (by simp [set_apply]) (by omega) (by omega) hf
    rw [← exec_loop] at e1
    simp [runBody, procs, body_findNode, exec_seq, exec_assign, exec_ite, exec_ret, evalE, seq2, BinOp.apply, Len_spec,
      set_apply, ofArgs_apply, hlen, hle, e1, e2]

/-! ### the splice `node := &node{prev: y.prev, next: y, val: t}; node.prev.next, node.next.prev = node, node; l.length++` -/

def allocSt (s : St) (n : Node) : St := { s with h := upd s.h s.alloc n, alloc := s.alloc + 1 }
def linkSt (s : St) (z p y : Nat) : St :=
  let h2 := upd s.h p { s.h p with next := some z }
  let h3 := upd h2 y { h2 y with prev := some z }
  { s with h := h3 }
def incLen (s : St) (d : Int) : St := { s with length := s.length + d }

section splice
variable (callH : CallH PName) (lf : Nat)

theorem exec_alloc (ρ : Env) (s : St) (eY : Expr PName) (nv y : Nat) (t : Int)
    (hY : evalE callH ρ s eY = .ok (.ptr (some y), s)) (ht : ρ 1 = .int t) :
    exec callH lf ρ s (.assign nv (.alloc (.field eY .prev) eY (.var 1))) =
      .ok (.normal, ρ.set nv (.ptr (some s.alloc)), allocSt s ⟨(s.h y).prev, some y, t⟩) := by
  simp [exec_assign, evalE, hY, ht, Node.get, allocSt]

theorem exec_link (ρ : Env) (s : St) (nv z p y : Nat) (hz : ρ nv = .ptr (some z))
    (hp : (s.h z).prev = some p) (hy : (s.h z).next = some y) :
    exec callH lf ρ s (.setField2 (.field (.var nv) .prev) .next (.field (.var nv) .next) .prev (.var nv) (.var nv)) =
      .ok (.normal, ρ, linkSt s z p y) := by
  simp [exec_setField2, evalE, hz, Node.get, hp, hy, writeField, Node.set, linkSt]

theorem exec_incLen (ρ : Env) (s : St) (d : Int) :
    exec callH lf ρ s (.setLength (.add .length (.int d))) = .ok (.normal, ρ, incLen s d) := by
  simp [exec_setLength, evalE, seq2, BinOp.apply, incLen]

end splice

theorem rel_splice (s : St) (l l' : Ekit.Lists.Ring.LL) (hR : Rel s l) (y : Nat) (t : Int)
    (hs : Ekit.Lists.Ring.spliceBefore l y t = some l') :
    ∃ p, (s.h y).prev = some p ∧ Rel (incLen (linkSt (allocSt s ⟨(s.h y).prev, some y, t⟩) s.alloc p y) 1) l' := by
  obtain ⟨hh, ht, hl, ha, hn⟩ := hR
  simp only [Ekit.Lists.Ring.spliceBefore, Ekit.Lists.Ring.upd_same] at hs
  cases hp : (l.h y).prev with
  | none => simp [hp] at hs
  | some p =>
    simp only [hp, Option.some.injEq] at hs
    subst hs
    have hp' : (s.h y).prev = some p := by rw [(hn y).1, hp]
    refine ⟨p, hp', hh, ht, ?_, ?_, ?_⟩
    · simp [incLen, linkSt, allocSt, hl]
    · simp [incLen, linkSt, allocSt, ha]
    · have h1 : ∀ a, NRel (upd s.h s.alloc ⟨(s.h y).prev, some y, t⟩ a)
          (Ekit.Lists.Ring.upd l.h l.alloc ⟨some p, some y, t⟩ a) := by
        rw [ha]; exact nrel_upd hn l.alloc ⟨hp', rfl, rfl⟩
      have h2 := nrel_upd h1 p (n := { upd s.h s.alloc ⟨(s.h y).prev, some y, t⟩ p with next := some s.alloc })
        (m := { Ekit.Lists.Ring.upd l.h l.alloc ⟨some p, some y, t⟩ p with next := some l.alloc })
        ⟨(h1 p).1, by rw [ha], (h1 p).2.2⟩
      have h3 := nrel_upd h2 y (n := { upd (upd s.h s.alloc ⟨(s.h y).prev, some y, t⟩) p
            { upd s.h s.alloc ⟨(s.h y).prev, some y, t⟩ p with next := some s.alloc } y with prev := some s.alloc })
        (m := { Ekit.Lists.Ring.upd (Ekit.Lists.Ring.upd l.h l.alloc ⟨some p, some y, t⟩) p
            { Ekit.Lists.Ring.upd l.h l.alloc ⟨some p, some y, t⟩ p with next := some l.alloc } y with prev := some l.alloc })
        ⟨by rw [ha], (h2 y).2.1, (h2 y).2.2⟩
      exact h3

section spliceSim
variable (callH : CallH PName) (lf : Nat)

/-- the three statements of the splice, run from related states, end in related states -/
theorem splice_sim (ρ : Env) (s : St) (l l' : Ekit.Lists.Ring.LL) (hR : Rel s l) (eY : Expr PName) (nv y : Nat) (t : Int)
    (hY : evalE callH ρ s eY = .ok (.ptr (some y), s)) (ht : ρ 1 = .int t)
    (hs : Ekit.Lists.Ring.spliceBefore l y t = some l') :
    ∃ s1 s2 s', Rel s' l' ∧
      exec callH lf ρ s (.assign nv (.alloc (.field eY .prev) eY (.var 1))) =
        .ok (.normal, ρ.set nv (.ptr (some s.alloc)), s1) ∧
      exec callH lf (ρ.set nv (.ptr (some s.alloc))) s1
          (.setField2 (.field (.var nv) .prev) .next (.field (.var nv) .next) .prev (.var nv) (.var nv)) =
        .ok (.normal, ρ.set nv (.ptr (some s.alloc)), s2) ∧
      exec callH lf (ρ.set nv (.ptr (some s.alloc))) s2 (.setLength (.add .length (.int 1))) =
        .ok (.normal, ρ.set nv (.ptr (some s.alloc)), s') := by
  obtain ⟨p, hp, hR'⟩ := rel_splice s l l' hR y t hs
  refine ⟨_, _, _, hR', exec_alloc callH lf ρ s eY nv y t hY ht, ?_, exec_incLen callH lf _ _ 1⟩
  exact exec_link callH lf _ _ nv s.alloc p y (by simp [set_apply]) (by simp [allocSt, upd, hp]) (by simp [allocSt, upd])

/-- the loop of `Append` is `Ring.append` -/
theorem append_loop : ∀ (ts : List Int) (ρ : Env) (s : St) (l l' : Ekit.Lists.Ring.LL), Rel s l →
    Ekit.Lists.Ring.append l ts = some l' →
    ∃ ρ' s', Rel s' l' ∧
      iterRange 1 (fun ρ st => exec callH lf ρ st
        (.seq (.assign 2 (.alloc (.field .tail .prev) .tail (.var 1)))
        (.seq (.setField2 (.field (.var 2) .prev) .next (.field (.var 2) .next) .prev (.var 2) (.var 2))
        (.setLength (.add .length (.int 1)))))) ts ρ s = .ok (.normal, ρ', s') := by
  intro ts
  induction ts with
  | nil =>
    intro ρ s l l' hR ha
    simp only [Ekit.Lists.Ring.append, Option.some.injEq] at ha
    subst ha
    exact ⟨ρ, s, hR, rfl⟩
  | cons t ts ih =>
    intro ρ s l l' hR ha
    simp only [Ekit.Lists.Ring.append] at ha
    cases hs : Ekit.Lists.Ring.spliceBefore l l.tail t with
    | none => simp [hs] at ha
    | some l1 =>
      simp only [hs] at ha
      obtain ⟨s1, s2, s3, hR3, eA, eB, eC⟩ := splice_sim callH lf (ρ.set 1 (.int t)) s l l1 hR .tail 2 l.tail t
        (by simp [evalE, hR.2.1]) (by simp [set_apply]) hs
      obtain ⟨ρ', s', hR', e⟩ := ih _ s3 l1 l' hR3 ha
      refine ⟨ρ', s', hR', ?_⟩
      simp only [iterRange, exec_seq, eA, eB, eC]
      exact e

end spliceSim

theorem Append_sim (s : St) (l l' : Ekit.Lists.Ring.LL) (hR : Rel s l) (ts : List Int)
    (ha : Ekit.Lists.Ring.append l ts = some l') (f : Nat) :
    ∃ s', call procs (f + 1) .Append [.ints ts] s = .ok (.ptr none, s') ∧ Rel s' l' := by
  obtain ⟨ρ', s', hR', e⟩ := append_loop (call procs f) f ts (Env.ofArgs [.ints ts]) s l l' hR ha
  refine ⟨s', ?_, hR'⟩
  rw [call_succ]
  simp only [runBody, procs, body_Append]
  rw [exec_seq, exec_range]
  simp [evalE, ofArgs_apply, e, exec_ret]

/-! ### the unlink of `Delete` -/

def unlinkSt (s : St) (x p y : Nat) : St :=
  let h1 := upd s.h p { s.h p with next := (s.h x).next }
  let h2 := upd h1 y { h1 y with prev := (h1 x).prev }
  let h3 := upd h2 x { h2 x with prev := none }
  let h4 := upd h3 x { h3 x with next := none }
  { s with h := h4 }

theorem rel_unlink (s : St) (l l' : Ekit.Lists.Ring.LL) (hR : Rel s l) (x : Nat) (v : Int)
    (hu : Ekit.Lists.Ring.unlink l x = some (l', v)) :
    ∃ p y, (s.h x).prev = some p ∧ (upd s.h p { s.h p with next := (s.h x).next } x).next = some y ∧
      Rel (incLen (unlinkSt s x p y) (-1)) l' ∧ ((unlinkSt s x p y).h x).val = v := by
  obtain ⟨hh, ht, hl, ha, hn⟩ := hR
  simp only [Ekit.Lists.Ring.unlink] at hu
  cases hp : (l.h x).prev with
  | none => simp [hp] at hu
  | some p =>
    simp only [hp] at hu
    have hp' : (s.h x).prev = some p := by rw [(hn x).1, hp]
    have h1 : ∀ a, NRel (upd s.h p { s.h p with next := (s.h x).next } a)
        (Ekit.Lists.Ring.upd l.h p { l.h p with next := (l.h x).next } a) :=
      nrel_upd hn p ⟨(hn p).1, (hn x).2.1, (hn p).2.2⟩
    cases hy : (Ekit.Lists.Ring.upd l.h p { l.h p with next := (l.h x).next } x).next with
    | none => simp [hy] at hu
    | some y =>
      simp only [hy, Option.some.injEq, Prod.mk.injEq] at hu
      obtain ⟨hu1, hu2⟩ := hu
      subst hu1
      have hy' : (upd s.h p { s.h p with next := (s.h x).next } x).next = some y := by rw [(h1 x).2.1, hy]
      have h2 := nrel_upd h1 y
        (n := { upd s.h p { s.h p with next := (s.h x).next } y with
                  prev := (upd s.h p { s.h p with next := (s.h x).next } x).prev })
        (m := { Ekit.Lists.Ring.upd l.h p { l.h p with next := (l.h x).next } y with
                  prev := (Ekit.Lists.Ring.upd l.h p { l.h p with next := (l.h x).next } x).prev })
        ⟨(h1 x).1, (h1 y).2.1, (h1 y).2.2⟩
      have h4 : ∀ a, NRel ((unlinkSt s x p y).h a)
          (Ekit.Lists.Ring.upd (Ekit.Lists.Ring.upd (Ekit.Lists.Ring.upd l.h p { l.h p with next := (l.h x).next }) y
            { Ekit.Lists.Ring.upd l.h p { l.h p with next := (l.h x).next } y with
                prev := (Ekit.Lists.Ring.upd l.h p { l.h p with next := (l.h x).next } x).prev }) x
            { Ekit.Lists.Ring.upd (Ekit.Lists.Ring.upd l.h p { l.h p with next := (l.h x).next }) y
                { Ekit.Lists.Ring.upd l.h p { l.h p with next := (l.h x).next } y with
                  prev := (Ekit.Lists.Ring.upd l.h p { l.h p with next := (l.h x).next } x).prev } x with
              prev := none, next := none } a) := by
        intro a
        by_cases e : a = x
        · subst e
          refine ⟨?_, ?_, ?_⟩
          · simp [unlinkSt, upd, Ekit.Lists.Ring.upd]
          · simp [unlinkSt, upd, Ekit.Lists.Ring.upd]
          · have := (h2 a).2.2
            simpa [unlinkSt, upd, Ekit.Lists.Ring.upd] using this
        · have := h2 a
          simpa [unlinkSt, upd, Ekit.Lists.Ring.upd, e, NRel] using this
      refine ⟨p, y, hp', hy', ⟨hh, ht, ?_, ha, h4⟩, ?_⟩
      · show s.length + -1 = l.length - 1
        rw [hl]; omega
      · rw [(h4 x).2.2]; exact hu2

def unlinkSt1 (s : St) (x p : Nat) : St := { s with h := upd s.h p { s.h p with next := (s.h x).next } }
def unlinkSt2 (s : St) (x p y : Nat) : St :=
  let h1 := upd s.h p { s.h p with next := (s.h x).next }
  { s with h := upd h1 y { h1 y with prev := (h1 x).prev } }

section unlinkExec
variable (callH : CallH PName) (lf : Nat)

theorem unlink_exec (ρ : Env) (s : St) (x p y : Nat) (hx : ρ 2 = .ptr (some x)) (hp : (s.h x).prev = some p)
    (hy : (upd s.h p { s.h p with next := (s.h x).next } x).next = some y) :
    ∃ s1 s2,
      exec callH lf ρ s (.setField (.field (.var 2) .prev) .next (.field (.var 2) .next)) = .ok (.normal, ρ, s1) ∧
      exec callH lf ρ s1 (.setField (.field (.var 2) .next) .prev (.field (.var 2) .prev)) = .ok (.normal, ρ, s2) ∧
      exec callH lf ρ s2 (.setField2 (.var 2) .prev (.var 2) .next .nil .nil) = .ok (.normal, ρ, unlinkSt s x p y) := by
  refine ⟨unlinkSt1 s x p, unlinkSt2 s x p y, ?_, ?_, ?_⟩
  · simp [exec_setField, evalE, hx, hp, Node.get, writeField, Node.set, unlinkSt1]
  · have hy' : ((unlinkSt1 s x p).h x).next = some y := hy
    simp [exec_setField, evalE, hx, hy', Node.get, writeField, Node.set]
    simp [unlinkSt1, unlinkSt2]
  · simp [exec_setField2, evalE, hx, writeField, Node.set, unlinkSt, unlinkSt2]

end unlinkExec

/-! ### `NewLinkedList` -/

def newSt : St :=
  let h1 := upd (fun _ => {}) 0 ⟨none, none, 0⟩
  let h2 := upd h1 1 ⟨some 0, some 0, 0⟩
  let h3 := upd h2 0 { h2 0 with next := some 1 }
  let h4 := upd h3 0 { h3 0 with prev := some 1 }
  { h := h4, alloc := 2, head := some 0, tail := some 1, length := 0 }

theorem rel_new : Rel newSt Ekit.Lists.Ring.new := by
  refine ⟨rfl, rfl, rfl, rfl, ?_⟩
  intro a
  by_cases h0 : a = 0
  · subst h0; simp [newSt, Ekit.Lists.Ring.new, upd, Ekit.Lists.Ring.upd]
  · by_cases h1 : a = 1
    · subst h1; simp [newSt, Ekit.Lists.Ring.new, upd, Ekit.Lists.Ring.upd]
    · simp [newSt, Ekit.Lists.Ring.new, upd, Ekit.Lists.Ring.upd, h0, h1]

theorem new_exec (f : Nat) : call procs (f + 1) .NewLinkedList [] emptySt = .ok (.unit, newSt) := by
  simp [call_succ, runBody, procs, body_NewLinkedList, exec_seq, exec_assign, exec_setField2, exec_setHead, exec_setTail,
    exec_setLength, exec_ret, evalE, set_apply, writeField, Node.set, emptySt, newSt]

theorem new_sim (fuel : Nat) (hf : 1 ≤ fuel) :
    ∃ s, call procs fuel .NewLinkedList [] emptySt = .ok (.unit, s) ∧ Rel s Ekit.Lists.Ring.new := by
  obtain ⟨f, rfl⟩ : ∃ f, fuel = f + 1 := ⟨fuel - 1, by omega⟩
  exact ⟨newSt, new_exec f, rel_new⟩

/-! ### the public calls -/

/-- the public calls of the translated file (`Range` / `AsSlice` are not translated: they assign nothing) -/
def runOp (fuel : Nat) (s : St) : Op → Res (Val × St)
  | .get i => call procs fuel .Get [.int i] s
  | .append ts => call procs fuel .Append [.ints ts] s
  | .add i t => call procs fuel .Add [.int i, .int t] s
  | .set i t => call procs fuel .Set [.int i, .int t] s
  | .delete i => call procs fuel .Delete [.int i] s
  | .len => call procs fuel .Len [] s
  | .asSlice => .error .stuck
  | .range => .error .stuck

def translated : Op → Bool
  | .asSlice => false
  | .range => false
  | _ => true

/-- how a Go result appears as a MiniGo value: a nil `error` is `.ptr none`, `(T, error)` is a pair (with the zero
    value of `T` next to a non-nil error), the index error carries its two integers, `Len` returns an integer -/
def OutIs : Out → Val → Prop
  | .ok .unit, v => v = .ptr none
  | .ok (.val x), v => v = .pair (.int x) (.ptr none)
  | .ok (.int n), v => v = .int n
  | .err (.idx a b), v => v = .errIdx a b ∨ v = .pair (.int 0) (.errIdx a b)
  | _, _ => False

theorem checkIndex_sim (f : Nat) (s : St) (l : Ekit.Lists.Ring.LL) (hR : Rel s l) (i : Int) :
    call procs (f + 2) .checkIndex [.int i] s = .ok (.bool (Ekit.Lists.Ring.checkIndex l i), s) := by
  rw [checkIndex_spec, hR.2.2.1]; rfl

theorem checkIndex_bounds {l : Ekit.Lists.Ring.LL} {i : Int} (h : Ekit.Lists.Ring.checkIndex l i = true) :
    0 ≤ i ∧ i < l.length := by
  simpa [Ekit.Lists.Ring.checkIndex] using h

section ops
variable (s : St) (l l' : Ekit.Lists.Ring.LL) (out : Out) (hR : Rel s l) (f : Nat) (hlf : l.length ≤ (f : Int))
include hR hlf

theorem Get_sim (i : Int) (h : Ekit.Lists.Ring.step l (.get i) = some (l', out)) :
    ∃ v s', call procs (f + 3) .Get [.int i] s = .ok (v, s') ∧ Rel s' l' ∧ OutIs out v := by
  have hck := checkIndex_sim f s l hR i
  have hlen : s.length = l.length := hR.2.2.1
  simp only [Ekit.Lists.Ring.step] at h
  show ∃ v s', call procs ((f + 2) + 1) .Get [.int i] s = .ok (v, s') ∧ Rel s' l' ∧ OutIs out v
  rw [call_succ]
  cases hc : Ekit.Lists.Ring.checkIndex l i with
  | false =>
    simp [hc] at h
    obtain ⟨rfl, rfl⟩ := h
    refine ⟨.pair (.int 0) (.errIdx s.length i), s, ?_, hR, ?_⟩
    · simp [runBody, procs, body_Get, exec_seq, exec_ite, exec_assign, exec_ret2, evalE, hck, hc, Len_spec, seq2,
        BinOp.apply, ofArgs_apply, set_apply]
    · rw [hlen]; exact Or.inr rfl
  | true =>
    obtain ⟨b1, b2⟩ := checkIndex_bounds hc
    simp only [hc, Bool.not_true, Bool.false_eq_true, if_false] at h
    cases hn : Ekit.Lists.Ring.findNode l i with
    | none => simp [hn] at h
    | some n =>
      simp [hn] at h
      obtain ⟨rfl, rfl⟩ := h
      have hfn := findNode_sim s l hR i n hn f (by omega) (by omega)
      refine ⟨.pair (.int (s.h n).val) (.ptr none), s, ?_, hR, ?_⟩
      · simp [runBody, procs, body_Get, exec_seq, exec_ite, exec_assign, exec_ret2, exec_skip, evalE, hck, hc, hfn,
          ofArgs_apply, set_apply, Node.get]
      · rw [(hR.nrel n).2.2]; rfl

theorem Set_sim (i t : Int) (h : Ekit.Lists.Ring.step l (.set i t) = some (l', out)) :
    ∃ v s', call procs (f + 3) .Set [.int i, .int t] s = .ok (v, s') ∧ Rel s' l' ∧ OutIs out v := by
  have hck := checkIndex_sim f s l hR i
  have hlen : s.length = l.length := hR.2.2.1
  simp only [Ekit.Lists.Ring.step] at h
  show ∃ v s', call procs ((f + 2) + 1) .Set [.int i, .int t] s = .ok (v, s') ∧ Rel s' l' ∧ OutIs out v
  rw [call_succ]
  cases hc : Ekit.Lists.Ring.checkIndex l i with
  | false =>
    simp [hc] at h
    obtain ⟨rfl, rfl⟩ := h
    refine ⟨.errIdx s.length i, s, ?_, hR, ?_⟩
    · simp [runBody, procs, body_Set, exec_seq, exec_ite, exec_ret, evalE, hck, hc, Len_spec, seq2,
        BinOp.apply, ofArgs_apply]
    · rw [hlen]; exact Or.inl rfl
  | true =>
    obtain ⟨b1, b2⟩ := checkIndex_bounds hc
    simp only [hc, Bool.not_true, Bool.false_eq_true, if_false] at h
    cases hn : Ekit.Lists.Ring.findNode l i with
    | none => simp [hn] at h
    | some n =>
      simp [hn] at h
      obtain ⟨rfl, rfl⟩ := h
      have hfn := findNode_sim s l hR i n hn f (by omega) (by omega)
      refine ⟨.ptr none, { s with h := upd s.h n { s.h n with val := t } }, ?_, ?_, rfl⟩
      · simp [runBody, procs, body_Set, exec_seq, exec_ite, exec_assign, exec_ret, exec_skip, exec_setField, evalE, hck,
          hc, hfn, ofArgs_apply, set_apply, writeField, Node.set]
      · exact ⟨hR.1, hR.2.1, hR.2.2.1, hR.2.2.2.1,
          nrel_upd hR.2.2.2.2 n ⟨(hR.nrel n).1, (hR.nrel n).2.1, rfl⟩⟩

theorem Delete_sim (i : Int) (h : Ekit.Lists.Ring.step l (.delete i) = some (l', out)) :
    ∃ v s', call procs (f + 3) .Delete [.int i] s = .ok (v, s') ∧ Rel s' l' ∧ OutIs out v := by
  have hck := checkIndex_sim f s l hR i
  have hlen : s.length = l.length := hR.2.2.1
  simp only [Ekit.Lists.Ring.step] at h
  show ∃ v s', call procs ((f + 2) + 1) .Delete [.int i] s = .ok (v, s') ∧ Rel s' l' ∧ OutIs out v
  rw [call_succ]
  cases hc : Ekit.Lists.Ring.checkIndex l i with
  | false =>
    simp [hc] at h
    obtain ⟨rfl, rfl⟩ := h
    refine ⟨.pair (.int 0) (.errIdx s.length i), s, ?_, hR, ?_⟩
    · simp [runBody, procs, body_Delete, exec_seq, exec_ite, exec_assign, exec_ret2, evalE, hck, hc, Len_spec, seq2,
        BinOp.apply, ofArgs_apply, set_apply]
    · rw [hlen]; exact Or.inr rfl
  | true =>
    obtain ⟨b1, b2⟩ := checkIndex_bounds hc
    simp only [hc, Bool.not_true, Bool.false_eq_true, if_false] at h
    cases hn : Ekit.Lists.Ring.findNode l i with
    | none => simp [hn] at h
    | some n =>
      simp only [hn] at h
      cases hu : Ekit.Lists.Ring.unlink l n with
      | none => simp [hu] at h
      | some r =>
        obtain ⟨l1, v⟩ := r
        simp [hu] at h
        obtain ⟨rfl, rfl⟩ := h
        have hfn := findNode_sim s l hR i n hn f (by omega) (by omega)
        obtain ⟨p, y, hp, hy, hR', hv⟩ := rel_unlink s l l1 hR n v hu
        obtain ⟨s1, s2, e1, e2, e3⟩ := unlink_exec (call procs (f + 2)) (f + 2)
          (((Env.ofArgs [.int i]).set 2 (.ptr (some n)))) s n p y (by simp [set_apply]) hp hy
        have e4 := exec_incLen (call procs (f + 2)) (f + 2) (((Env.ofArgs [.int i]).set 2 (.ptr (some n))))
          (unlinkSt s n p y) (-1)
        refine ⟨.pair (.int v) (.ptr none), incLen (unlinkSt s n p y) (-1), ?_, hR', rfl⟩
        have hv' : ((incLen (unlinkSt s n p y) (-1)).h n).val = v := hv
        simp [runBody, procs, body_Delete, exec_seq, exec_ite, exec_assign, exec_ret2, exec_skip, evalE, hck,
          hc, hfn, ofArgs_apply, set_apply, e1, e2, e3, e4, Node.get, hv']

theorem Add_sim (i t : Int) (h : Ekit.Lists.Ring.step l (.add i t) = some (l', out)) :
    ∃ v s', call procs (f + 3) .Add [.int i, .int t] s = .ok (v, s') ∧ Rel s' l' ∧ OutIs out v := by
  have hlen : s.length = l.length := hR.2.2.1
  simp only [Ekit.Lists.Ring.step] at h
  show ∃ v s', call procs ((f + 2) + 1) .Add [.int i, .int t] s = .ok (v, s') ∧ Rel s' l' ∧ OutIs out v
  rw [call_succ]
  by_cases hr : i < 0 ∨ i > l.length
  · simp only [hr, if_true, Option.some.injEq, Prod.mk.injEq] at h
    obtain ⟨rfl, rfl⟩ := h
    refine ⟨.errIdx s.length i, s, ?_, hR, ?_⟩
    · rcases Int.lt_or_le i 0 with h0 | h0
      · simp [runBody, procs, body_Add, exec_seq, exec_ite, exec_ret, evalE, seq2, BinOp.apply, ofArgs_apply, h0]
      · have h1 : l.length < i := by omega
        have h0' : ¬ i < 0 := by omega
        simp [runBody, procs, body_Add, exec_seq, exec_ite, exec_ret, evalE, seq2, BinOp.apply, ofArgs_apply, h0', hlen, h1]
    · rw [hlen]; exact Or.inl rfl
  · simp only [hr, if_false] at h
    have h0 : ¬ i < 0 := by omega
    have h1 : ¬ l.length < i := by omega
    by_cases he : i = l.length
    · subst he
      simp only [if_true] at h
      cases ha : Ekit.Lists.Ring.append l [t] with
      | none => simp [ha] at h
      | some l1 =>
        simp [ha] at h
        obtain ⟨rfl, rfl⟩ := h
        obtain ⟨s', e, hR'⟩ := Append_sim s l l1 hR [t] ha (f + 1)
        have e' : call procs (f + 2) .Append [.ints [t]] s = .ok (.ptr none, s') := e
        refine ⟨.ptr none, s', ?_, hR', rfl⟩
        simp [runBody, procs, body_Add, exec_seq, exec_ite, exec_ret, exec_skip, evalE, seq2, BinOp.apply, ofArgs_apply,
          h0, hlen, valEq, e']
    · simp only [he, if_false] at h
      cases hn : Ekit.Lists.Ring.findNode l i with
      | none => simp [hn] at h
      | some n =>
        simp only [hn] at h
        cases hsp : Ekit.Lists.Ring.spliceBefore l n t with
        | none => simp [hsp] at h
        | some l1 =>
          simp [hsp] at h
          obtain ⟨rfl, rfl⟩ := h
          have hfn := findNode_sim s l hR i n hn f (by omega) (by omega)
          obtain ⟨s1, s2, s3, hR3, eA, eB, eC⟩ := splice_sim (call procs (f + 2)) (f + 2)
            ((Env.ofArgs [.int i, .int t]).set 2 (.ptr (some n))) s l l1 hR (.var 2) 3 n t
            (by simp [evalE, set_apply]) (by simp [set_apply, ofArgs_apply]) hsp
          refine ⟨.ptr none, s3, ?_, hR3, rfl⟩
          have hb : (i == l.length) = false := by simp [he]
          simp [runBody, procs, body_Add, exec_seq, exec_ite, exec_ret, exec_skip, exec_assign, evalE, seq2, BinOp.apply,
            ofArgs_apply, h0, hlen, h1, hb, valEq, hfn, eA, eB, eC]

end ops

/-- **one call**: from related states, with fuel for `len + 3` nested calls / loop iterations, the translated
    procedure returns what the pointer-level model returns and ends in a related state (in particular it does not
    panic, get stuck or run out of fuel whenever the model does not dereference nil). -/
theorem step_sim' (s : St) (l : Ekit.Lists.Ring.LL) (hR : Rel s l) (op : Op) (ht : translated op = true)
    (f : Nat) (hlf : l.length ≤ (f : Int)) (l' : Ekit.Lists.Ring.LL) (out : Out)
    (h : Ekit.Lists.Ring.step l op = some (l', out)) :
    ∃ v s', runOp (f + 3) s op = .ok (v, s') ∧ Rel s' l' ∧ OutIs out v := by
  cases op with
  | get i => exact Get_sim s l l' out hR f hlf i h
  | append ts =>
    simp only [Ekit.Lists.Ring.step] at h
    cases ha : Ekit.Lists.Ring.append l ts with
    | none => simp [ha] at h
    | some l1 =>
      simp [ha] at h
      obtain ⟨rfl, rfl⟩ := h
      obtain ⟨s', e, hR'⟩ := Append_sim s l l1 hR ts ha (f + 2)
      exact ⟨.ptr none, s', e, hR', rfl⟩
  | add i t => exact Add_sim s l l' out hR f hlf i t h
  | set i t => exact Set_sim s l l' out hR f hlf i t h
  | delete i => exact Delete_sim s l l' out hR f hlf i h
  | len =>
    simp only [Ekit.Lists.Ring.step, Option.some.injEq, Prod.mk.injEq] at h
    obtain ⟨rfl, rfl⟩ := h
    exact ⟨.int s.length, s, Len_spec (f + 2) s, hR, by rw [hR.2.2.1]; rfl⟩
  | asSlice => simp [translated] at ht
  | range => simp [translated] at ht

theorem step_sim (s : St) (l : Ekit.Lists.Ring.LL) (as : List Nat) (hR : Rel s l) (hi : Ekit.Lists.Ring.Inv l as)
    (op : Op) (ht : translated op = true) (fuel : Nat) (hf : as.length + 3 ≤ fuel) (l' : Ekit.Lists.Ring.LL) (out : Out)
    (h : Ekit.Lists.Ring.step l op = some (l', out)) :
    ∃ v s', runOp fuel s op = .ok (v, s') ∧ Rel s' l' ∧ OutIs out v := by
  obtain ⟨f, rfl⟩ : ∃ f, fuel = f + 3 := ⟨fuel - 3, by omega⟩
  exact step_sim' s l hR op ht f (by rw [hi.len]; omega) l' out h

/-! ### histories -/

/-- a history of public calls on the interpreter, collecting the returned values -/
def runOps (fuel : Nat) (s : St) : List Op → Res (List Val × St)
  | [] => .ok ([], s)
  | op :: ops =>
    match runOp fuel s op with
    | .ok (v, s1) =>
      match runOps fuel s1 ops with
      | .ok (vs, s2) => .ok (v :: vs, s2)
      | .error e => .error e
    | .error e => .error e

/-- the two lists have the same length and are related element by element (core Lean has no `Forall₂`) -/
inductive Forall₂ {α β : Type} (R : α → β → Prop) : List α → List β → Prop
  | nil : Forall₂ R [] []
  | cons {a b as bs} : R a b → Forall₂ R as bs → Forall₂ R (a :: as) (b :: bs)

/-- by how much a call can lengthen the list -/
def growth1 : Op → Nat
  | .append ts => ts.length
  | .add _ _ => 1
  | _ => 0

def growth : List Op → Nat
  | [] => 0
  | op :: ops => growth1 op + growth ops

/-- fuel sufficient for the history `ops` started on the empty list: every call needs `len + 3` -/
def fuelFor (ops : List Op) : Nat := growth ops + 3

theorem spec_step_length (xs : List Int) (op : Op) : (Ekit.Lists.Spec.step xs op).1.length ≤ xs.length + growth1 op := by
  cases op with
  | get i => simp only [Ekit.Lists.Spec.step]; split <;> simp [growth1]
  | append ts => simp [Ekit.Lists.Spec.step, growth1]
  | add i t =>
    simp only [Ekit.Lists.Spec.step]
    split
    · simp only [growth1, List.length_insertIdx]; split <;> omega
    · simp [growth1]
  | set i t => simp only [Ekit.Lists.Spec.step]; split <;> simp [growth1]
  | delete i =>
    simp only [Ekit.Lists.Spec.step]
    split
    · simp only [growth1, List.length_eraseIdx]; split <;> omega
    · simp [growth1]
  | len => simp [Ekit.Lists.Spec.step, growth1]
  | asSlice => simp [Ekit.Lists.Spec.step, growth1]
  | range => simp [Ekit.Lists.Spec.step, growth1]

/-- **every history**, from any related pair satisfying the ring invariant -/
theorem run_sim (ops : List Op) : ∀ (s : St) (l : Ekit.Lists.Ring.LL) (as : List Nat), Rel s l → Ekit.Lists.Ring.Inv l as →
    (∀ op ∈ ops, translated op = true) → ∀ fuel, as.length + growth ops + 3 ≤ fuel →
    ∃ s' l' as' vs, runOps fuel s ops = .ok (vs, s') ∧ Rel s' l' ∧ Ekit.Lists.Ring.Inv l' as' ∧
      Ekit.Lists.Ring.run l ops = some (l', (Ekit.Lists.Spec.run (Ekit.Lists.Ring.vals l as) ops).2) ∧
      Ekit.Lists.Ring.vals l' as' = (Ekit.Lists.Spec.run (Ekit.Lists.Ring.vals l as) ops).1 ∧
      Forall₂ OutIs (Ekit.Lists.Spec.run (Ekit.Lists.Ring.vals l as) ops).2 vs := by
  induction ops with
  | nil =>
    intro s l as hR hi _ fuel _
    exact ⟨s, l, as, [], rfl, hR, hi, rfl, rfl, Forall₂.nil⟩
  | cons op rest ih =>
    intro s l as hR hi hops fuel hf
    simp only [growth] at hf
    obtain ⟨l1, as1, o, h1, hi1, hr, _, _⟩ := Ekit.Lists.Ring.c04_ring_step_refines l as hi op
    have hs : Ekit.Lists.Spec.step (Ekit.Lists.Ring.vals l as) op = (Ekit.Lists.Ring.vals l1 as1, o) := by
      rw [← Ekit.Lists.c04_linked_step_refines, hr]
    have hlen1 : as1.length ≤ as.length + growth1 op := by
      have := spec_step_length (Ekit.Lists.Ring.vals l as) op
      rw [hs] at this
      simpa [Ekit.Lists.Ring.vals] using this
    obtain ⟨v, s1, e1, hR1, ho⟩ := step_sim s l as hR hi op (hops op (by simp)) fuel (by omega) l1 o h1
    obtain ⟨s2, l2, as2, vs, e2, hR2, hi2, hrun, hv, hF⟩ := ih s1 l1 as1 hR1 hi1
      (fun op' h' => hops op' (List.mem_cons_of_mem _ h')) fuel (by omega)
    refine ⟨s2, l2, as2, v :: vs, ?_, hR2, hi2, ?_, ?_, ?_⟩
    · simp only [runOps, e1, e2]
    · simp only [Ekit.Lists.Ring.run, h1, hrun, Ekit.Lists.Spec.run, hs]
    · simp only [Ekit.Lists.Spec.run, hs, hv]
    · simp only [Ekit.Lists.Spec.run, hs]
      exact Forall₂.cons ho hF

end Ekit.MiniGo.LL.Refine
