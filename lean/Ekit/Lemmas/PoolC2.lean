/- Layer C, caller steps (see PoolC.lean). -/
import Ekit.Lemmas.PoolC
namespace Ekit.Pool

@[simp] theorem liveW_newWorker : liveW newWorker = true := rfl

set_option maxHeartbeats 2000000 in
theorem invC_cstep (c : Cfg) (hv : c.initGo ≤ c.maxGo) (s s' : St) (t : Nat) (a : CAct)
    (hA : InvA s) (hB : LB.Inv s) (hi : (LCn c).Inv s)
    (h : cAct c s t (s.callers t) a = some s') : (LCn c).Inv s' := by
  have hat := (LA_iff _ _ _).1 (hA.loc t)
  have hag := (GAI_iff _).1 hA.glob
  have hbt := hB.cl t
  have hct := hi.cl t
  have hg := hi.glob
  have hnum := numCanCreate_le c s.queue.length hv
  have hallow := allowCreate_lt c s.totalGo s.queue.length
  simp only [LB] at hbt
  simp only [LCn] at hct hg
  simp only [St.ga] at hat hag
  cases a <;> simp only [cAct, toUnlock] at h <;> (repeat' (split at h)) <;> (try simp at h) <;> (try subst h) <;>
    first
    | (refine Loc.inv_global (s := s) rfl rfl hi ?_ ?_ ?_
       · first | exact hi.glob | (simp only [LCn]; simp_all <;> fin_arith)
       · first | exact fun _ h => h | (intro u hm; simp only [LCn] at hm ⊢; simp_all <;> fin_arith)
       · exact fun _ _ _ _ => trivial)
    | (refine Loc.inv_spawn (s := s) (t := t) rfl rfl hi ?_ ?_ ?_ ?_ ?_
       · simp only [LCn]
         generalize hcnt : List.countP liveW s.workers = n at *
         simp_all [List.countP_append] <;> fin_arith
       · intro hm; simp only [LCn]; simp_all <;> fin_arith
       · intro u hne hm
         have hcu : crit (s.callers u).pc = false := by
           have h1 := (hA.loc u).crit_locked
           have h2 := (hA.loc t).crit_locked
           cases hc : crit (s.callers u).pc
           · rfl
           · have e1 := (h1 hc).2
             have e2 := (h2 (by simp [*])).2
             exact absurd (e1.symm.trans e2) hne
         obtain ⟨e1, e2, e3, e4, e5, e6, e7, e8, e9, e10⟩ := not_crit_facts _ hcu
         simp only [LCn] at hm ⊢
         simp_all
       · exact fun _ _ _ _ => trivial
       · trivial)
    | (refine Loc.inv_rendezvous (s := s) (t := t) rfl rfl hi ?_ ?_ ?_ ?_ ?_
       · simp only [LCn, St.setC]
         rw [countP_set_eq liveW _ _ _ _ (by assumption)]
         generalize hcnt : List.countP liveW s.workers = n at *
         simp_all [liveW] <;> fin_arith
       · intro hm; simp only [LCn]; simp_all <;> fin_arith
       · intro u hne hm
         have hcu : crit (s.callers u).pc = false := by
           have h1 := (hA.loc u).crit_locked
           have h2 := (hA.loc t).crit_locked
           cases hc : crit (s.callers u).pc
           · rfl
           · have e1 := (h1 hc).2
             have e2 := (h2 (by simp [*])).2
             exact absurd (e1.symm.trans e2) hne
         obtain ⟨e1, e2, e3, e4, e5, e6, e7, e8, e9, e10⟩ := not_crit_facts _ hcu
         simp only [LCn] at hm ⊢
         simp_all
       · exact fun _ _ _ => trivial
       · exact fun _ _ _ _ _ => trivial)
    | (refine Loc.inv_caller (s := s) (t := t) rfl rfl hi ?_ ?_ ?_ ?_
       · first | exact hi.glob | (simp only [LCn]; simp_all <;> fin_arith)
       · intro hm; simp only [LCn]; simp_all <;> fin_arith
       · first
         | exact fun _ _ h => h
         | (intro u hne hm
            have hcu : crit (s.callers u).pc = false := by
              have h1 := (hA.loc u).crit_locked
              have h2 := (hA.loc t).crit_locked
              cases hc : crit (s.callers u).pc
              · rfl
              · have e1 := (h1 hc).2
                have e2 := (h2 (by simp [*])).2
                exact absurd (e1.symm.trans e2) hne
            obtain ⟨e1, e2, e3, e4, e5, e6, e7, e8, e9, e10⟩ := not_crit_facts _ hcu
            simp only [LCn] at hm ⊢
            simp_all)
       · exact fun _ _ _ _ => trivial)

end Ekit.Pool
