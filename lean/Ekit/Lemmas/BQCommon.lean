/-
Small library shared by the blocking-queue proofs: weighted sums of per-thread program counters over
the (duplicate-free) list of live threads, and induction over reachable states that also hands out
reachability of the pre-state.
-/
import Ekit.Conc.System

namespace Ekit.BQ
open Ekit.Conc

/-- `Σ_{t ∈ ts} w (pc t)`: e.g. the number of threads holding a permit -/
def wsum {α : Type} (w : α → Nat) (pc : Nat → α) : List Nat → Nat
  | [] => 0
  | t :: ts => w (pc t) + wsum w pc ts

variable {α : Type} (w : α → Nat) (pc : Nat → α)

@[simp] theorem wsum_nil : wsum w pc [] = 0 := rfl
@[simp] theorem wsum_cons (t : Nat) (ts : List Nat) : wsum w pc (t :: ts) = w (pc t) + wsum w pc ts := rfl

theorem wsum_upd_not_mem {t : Nat} {ts : List Nat} (p : α) (h : t ∉ ts) :
    wsum w (upd pc t p) ts = wsum w pc ts := by
  induction ts with
  | nil => rfl
  | cons u us ih =>
    simp only [List.mem_cons, not_or] at h
    simp only [wsum_cons, ih h.2]
    have : u ≠ t := fun e => h.1 e.symm
    simp [upd, this]

theorem wsum_upd_mem {t : Nat} {ts : List Nat} (p : α) (hnd : ts.Nodup) (h : t ∈ ts) :
    wsum w (upd pc t p) ts + w (pc t) = wsum w pc ts + w p := by
  induction ts with
  | nil => simp at h
  | cons u us ih =>
    rw [List.nodup_cons] at hnd
    simp only [wsum_cons]
    by_cases hut : u = t
    · subst hut
      rw [wsum_upd_not_mem w pc p hnd.1]
      simp [upd]; omega
    · have hm : t ∈ us := by
        cases List.mem_cons.mp h with
        | inl e => exact absurd e.symm hut
        | inr m => exact m
      have := ih hnd.2 hm
      simp [upd, hut]; omega

theorem wsum_erase {t : Nat} {ts : List Nat} (hnd : ts.Nodup) (h : t ∈ ts) :
    wsum w pc (ts.erase t) + w (pc t) = wsum w pc ts := by
  induction ts with
  | nil => simp at h
  | cons u us ih =>
    rw [List.nodup_cons] at hnd
    by_cases hut : u = t
    · subst hut; simp; omega
    · have hm : t ∈ us := by
        cases List.mem_cons.mp h with
        | inl e => exact absurd e.symm hut
        | inr m => exact m
      have := ih hnd.2 hm
      rw [List.erase_cons_tail (by simpa using hut)]
      simp only [wsum_cons]; omega

theorem wsum_le_of_mem {t : Nat} {ts : List Nat} (h : t ∈ ts) : w (pc t) ≤ wsum w pc ts := by
  induction ts with
  | nil => simp at h
  | cons u us ih =>
    simp only [wsum_cons]
    cases List.mem_cons.mp h with
    | inl e => subst e; omega
    | inr m => have := ih m; omega

theorem exists_of_wsum_pos {ts : List Nat} (h : 0 < wsum w pc ts) : ∃ t, t ∈ ts ∧ 0 < w (pc t) := by
  induction ts with
  | nil => simp at h
  | cons u us ih =>
    simp only [wsum_cons] at h
    by_cases hu : 0 < w (pc u)
    · exact ⟨u, List.mem_cons_self, hu⟩
    · have : 0 < wsum w pc us := by omega
      obtain ⟨t, hm, ht⟩ := ih this
      exact ⟨t, List.mem_cons_of_mem _ hm, ht⟩

theorem wsum_eq_zero {ts : List Nat} (h : ∀ t, t ∈ ts → w (pc t) = 0) : wsum w pc ts = 0 := by
  induction ts with
  | nil => rfl
  | cons u us ih =>
    simp only [wsum_cons]
    rw [h u List.mem_cons_self, ih (fun t m => h t (List.mem_cons_of_mem _ m))]

theorem wsum_two_le {t u : Nat} {ts : List Nat} (hnd : ts.Nodup) (ht : t ∈ ts) (hu : u ∈ ts) (hne : t ≠ u) :
    w (pc t) + w (pc u) ≤ wsum w pc ts := by
  have h1 := wsum_erase w pc hnd ht
  have hu' : u ∈ ts.erase t := (List.mem_erase_of_ne (fun e => hne e.symm)).mpr hu
  have h2 := wsum_le_of_mem w pc hu'
  omega

/-- induction over reachable states that also provides reachability of the pre-state -/
theorem reachable_induction {σ ι : Type} (S : System σ ι) (P : σ → Prop) (h0 : P S.init)
    (hstep : ∀ s l s', S.Reachable s → P s → S.step s l = some s' → P s') :
    ∀ s, S.Reachable s → P s := by
  intro s hr
  induction hr with
  | init => exact h0
  | step hr hs ih => exact hstep _ _ _ hr ih hs

end Ekit.BQ
