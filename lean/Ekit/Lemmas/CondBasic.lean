/-
Basic facts about the Cond model: the classification of program counters, the structural
invariant `Inv` (mutual exclusion under `mu`, node ownership, list / channel / pool discipline) and
the proof tactic used for its preservation.
-/
import Ekit.Model.Cond

namespace Ekit.Cond
open Ekit.Conc

theorem upd_apply {α : Type} (f : Nat → α) (t u : Nat) (a : α) :
    upd f t a u = if u = t then a else f u := rfl

/-- a node in the list is owned by a thread at one of these pcs -/
def Pc.listPc : Pc → Bool
  | .wAddUnlock _ | .wUnlockL _ | .wSelect _ | .wCtxLock _ | .wInner _ | .wRemove _ => true
  | _ => false

/-- a node whose channel holds a token is owned by a thread at one of these pcs -/
def Pc.fullPc : Pc → Bool
  | .wUnlockL _ | .wSelect _ | .wCtxLock _ | .wInner _ => true
  | _ => false

/-- `notifyNext` is about to take the front of the list -/
def Pc.popPc : Pc → Bool
  | .wFwdPop _ | .sPop | .bPop => true
  | _ => false

/-- past `checkFirstUse` -/
def Pc.pastInit : Pc → Bool
  | .idle | .ccLoad _ | .ccCas _ | .ccLoad2 _ | .firstUse _ | .fault _ => false
  | _ => true

/-- the ctx arm of the outer select has been taken (so the context had ended) -/
def Pc.ctxArm : Pc → Bool
  | .wCtxLock _ | .wInner _ | .wFwdLen _ | .wFwdPop _ | .wFwdSend _ _ | .wRemove _ | .wCtxErr _ => true
  | _ => false

@[simp] theorem bodyStart_popPc (k : Kind) : (bodyStart k).popPc = false := by cases k <;> rfl
@[simp] theorem bodyStart_pastInit (k : Kind) : (bodyStart k).pastInit = true := by cases k <;> rfl
@[simp] theorem bodyStart_ctxArm (k : Kind) : (bodyStart k).ctxArm = false := by cases k <;> rfl
@[simp] theorem bodyStart_listPc (k : Kind) : (bodyStart k).listPc = false := by cases k <;> rfl
@[simp] theorem bodyStart_fullPc (k : Kind) : (bodyStart k).fullPc = false := by cases k <;> rfl
@[simp] theorem bodyStart_parked (k : Kind) : (bodyStart k).parked = false := by cases k <;> rfl
@[simp] theorem bodyStart_needsL (k : Kind) : (bodyStart k).needsL = (k == .wait) := by cases k <;> rfl
@[simp] theorem bodyStart_inMu (k : Kind) : (bodyStart k).inMu = false := by cases k <;> rfl
@[simp] theorem bodyStart_node (k : Kind) : (bodyStart k).node = none := by cases k <;> rfl
@[simp] theorem bodyStart_target (k : Kind) : (bodyStart k).target = none := by cases k <;> rfl
@[simp] theorem bodyStart_inHand (k : Kind) : (bodyStart k).inHand = false := by cases k <;> rfl
@[simp] theorem bodyStart_sigFlight (k : Kind) : (bodyStart k).sigFlight = false := by cases k <;> rfl
@[simp] theorem bodyStart_isFault (k : Kind) : (bodyStart k).isFault = false := by cases k <;> rfl
@[simp] theorem bodyStart_result (k : Kind) : (bodyStart k).result = none := by cases k <;> rfl

theorem parked_fullPc {p : Pc} : p.parked = true → p.fullPc = true := by cases p <;> simp [Pc.parked, Pc.fullPc]
theorem parked_listPc {p : Pc} : p.parked = true → p.listPc = true := by cases p <;> simp [Pc.parked, Pc.listPc]
theorem fullPc_listPc {p : Pc} : p.fullPc = true → p.listPc = true := by cases p <;> simp [Pc.fullPc, Pc.listPc]
theorem parked_not_inMu {p : Pc} : p.parked = true → p.inMu = false := by cases p <;> simp [Pc.parked, Pc.inMu]
theorem listPc_inMu_or_parked {p : Pc} : p.listPc = true → p.inMu = true ∨ p.parked = true := by
  cases p <;> simp [Pc.parked, Pc.inMu, Pc.listPc]

theorem popPc_inMu {p : Pc} : p.popPc = true → p.inMu = true := by cases p <;> simp [Pc.popPc, Pc.inMu]
theorem bodyStart_ne_ccLoad2 (k k' : Kind) : bodyStart k ≠ .ccLoad2 k' := by cases k <;> simp [bodyStart]
theorem bodyStart_ne_wCtxUnlock (k : Kind) (n : NodeId) (r : Res) : bodyStart k ≠ .wCtxUnlock n r := by
  cases k <;> simp [bodyStart]

/-- **Structural invariant.** -/
structure Inv (s : State) : Prop where
  /-- a thread inside a critical section holds `mu` (so at most one thread is inside) -/
  mutex : ∀ t, (s.pc t).inMu = true → s.mu = some t
  /-- `mu` is only ever held by a thread inside a critical section -/
  muHeld : ∀ t, s.mu = some t → (s.pc t).inMu = true
  /-- a wait node belongs to one thread -/
  own : ∀ t u n, (s.pc t).node = some n → (s.pc u).node = some n → t = u
  fresh : ∀ t n, (s.pc t).node = some n → n < s.nextNode
  poolFresh : ∀ n, n ∈ s.pool → n < s.nextNode
  listFresh : ∀ n, n ∈ s.list → n < s.nextNode
  fullFresh : ∀ n, n ∈ s.full → n < s.nextNode
  poolNodup : s.pool.Nodup
  listNodup : s.list.Nodup
  fullNodup : s.full.Nodup
  /-- pooled nodes are owned by nobody, are unlinked, have an empty channel and are not a send target -/
  poolFree : ∀ n, n ∈ s.pool → ∀ t, (s.pc t).node ≠ some n
  poolClean : ∀ n, n ∈ s.pool → n ∉ s.list ∧ n ∉ s.full ∧ s.tgt ≠ some n
  /-- a linked node has an empty channel (`notifyNext` unlinks before it sends) -/
  listFull : ∀ n, n ∈ s.list → n ∉ s.full
  /-- the node about to be sent to is unlinked and its channel is empty -/
  tgtOK : ∀ m, s.tgt = some m → m ∉ s.list ∧ m ∉ s.full ∧ m < s.nextNode
  inList : ∀ t n, (s.pc t).node = some n → n ∈ s.list → (s.pc t).listPc = true
  inFull : ∀ t n, (s.pc t).node = some n → n ∈ s.full → (s.pc t).fullPc = true
  isTgt : ∀ t n, (s.pc t).node = some n → s.tgt = some n → (s.pc t).parked = true
  /-- an enqueued waiter that has not consumed a token is linked, or has a token in its channel, or is
      the node a notifier holding `mu` is just sending to -/
  must : ∀ t n, (s.pc t).node = some n → (s.pc t).listPc = true →
    n ∈ s.list ∨ n ∈ s.full ∨ s.tgt = some n
  /-- `notifyNext` is only entered with a non-empty list -/
  popOK : ∀ t, (s.pc t).popPc = true → s.list ≠ []
  /-- Wait holds `c.L` up to its `L.Unlock()` and again when it returns -/
  lHeld : ∀ t, (s.pc t).needsL = true → s.L = some t
  initOK : ∀ t, (s.pc t).pastInit = true → s.inited = true
  chkOK : ∀ t k, s.pc t = .ccLoad2 k → s.checker = true
  /-- no thread ever panics / blocks on a nil channel / unlocks an unlocked `L` -/
  noFault : ∀ t, (s.pc t).isFault = false
  /-- the ctx arm is only taken after the context ended, and then `ctx.Err()` is non-nil -/
  ctxOK : ∀ t, (s.pc t).ctxArm = true → s.ctx t = true
  ctxRes : ∀ t n r, s.pc t = .wCtxUnlock n r → r = .ctxErr

/-- a partition of the labels, used only to split long case analyses over two files -/
def Label.grpA : Label → Bool
  | .lockL _ | .unlockL _ | .expire _ | .poolDrop _ | .invWait _ _ | .invSignal _ | .invBroadcast _
  | .ccLoad _ | .ccCas _ | .ccLoad2 _ | .firstUse _
  | .addLock _ | .alloc _ _ | .push _ | .addUnlock _ | .waitUnlockL _ | .selRecv _ | .selCtx _
  | .ctxLock _ | .innerRecv _ | .innerDefault _ | .fwdLen _ | .fwdPop _ | .fwdSend _ | .remove _ => true
  | _ => false

/-- `step_cases` restricted to one half of the labels (`hg : l.grpA = true/false`) -/
macro "step_cases_grp " hs:ident hg:ident : tactic => `(tactic|
  (cases ‹Label› <;> simp [Label.grpA] at $hg:ident <;> simp only [step, State.setPc] at $hs:ident <;>
    (repeat' split at $hs:ident) <;> (try (simp at $hs:ident)) <;> (try subst $hs:ident)))

/-- case analysis on the label of a step, exposing guards and substituting the successor state -/
macro "step_cases " hs:ident : tactic => `(tactic|
  (cases ‹Label› <;> simp only [step, State.setPc] at $hs:ident <;> (repeat' split at $hs:ident) <;>
    (try (simp at $hs:ident)) <;> (try subst $hs:ident)))

end Ekit.Cond
