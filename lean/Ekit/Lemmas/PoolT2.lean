/- Layer T, caller steps (see PoolT.lean). -/
import Ekit.Lemmas.PoolT
namespace Ekit.Pool

theorem holdsT_newWorker (id : Nat) : holdsT id newWorker = false := by simp [holdsT, newWorker]

theorem sentN_modify_sent' (ts : List Task) (j i : Nat) (o : Nat) (h : tinfo ts j = some (o, false, .none)) :
    sentN (ts.modify j fun t => { t with sent := true }) i = sentN ts i + (if j = i then 1 else 0) :=
  sentN_modify_sent ts j i o .none h

theorem okInfo_unlock (t : Nat) (r : Res) (h : r = .ok ∨ r = .errCtx ∨ r = .retry) (hn : ¬ r = .retry) :
    okInfo (t, decide (r = .ok), r) := by
  rcases h with h | h | h
  · subst h; simp [okInfo, Res.isErr]
  · subst h; simp [okInfo, Res.isErr]
  · exact absurd h hn

set_option maxHeartbeats 2000000 in
theorem invT_cstep (c : Cfg) (s s' : St) (t : Nat) (a : CAct) (hi : LT.Inv s)
    (h : cAct c s t (s.callers t) a = some s') : LT.Inv s' := by
  have hct := hi.cl t
  have hg := hi.glob
  simp only [LT, CT] at hct
  simp only [LT] at hg
  cases a <;> simp only [cAct, toUnlock] at h <;> (repeat' (split at h)) <;> (try simp at h) <;> (try subst h) <;>
    first
    | (refine Loc.inv_global (s := s) rfl rfl hi ?_ ?_ (fun _ _ _ _ => trivial)
       · refine ⟨fun id => ?_, ?_⟩
         · first
           | exact hg.1 id
           | (have hc := hg.1 id
              simp only [consT] at hc ⊢
              simp_all [List.count_cons, List.count_append] <;> omega)
         · first
           | exact hg.2
           | (intro id x; simp only [tinfo_modify_released]; exact hg.2 id x)
       · first
         | exact fun _ h => h
         | (intro u hm; exact CT_congr (by simp only [tinfo_modify_released]) hm))
    | (refine Loc.inv_spawn (s := s) (t := t) rfl rfl hi ?_ ?_ (fun _ _ h => h) (fun _ _ _ _ => trivial) trivial
       · refine ⟨fun id => ?_, hg.2⟩
         have hc := hg.1 id
         simp only [consT, St.setC] at hc ⊢
         simp only [List.countP_append, List.countP_cons, List.countP_nil, holdsT_newWorker]
         simpa using hc
       · intro hm; simp only [LT, CT]; simp_all)
    | (refine Loc.inv_rendezvous (s := s) (t := t) rfl rfl hi ?_ ?_ ?_ (fun _ _ _ => trivial) (fun _ _ _ _ _ => trivial)
       · have hown := hct.1 (by simp [*])
         refine ⟨fun id => ?_, G2_modify_sent hown hg.2⟩
         have hc := hg.1 id
         simp only [consT, St.setC] at hc ⊢
         rw [countP_set_eq (holdsT id) _ _ _ _ (by assumption)]
         rw [sentN_modify_sent' _ _ _ t hown]
         generalize List.countP (holdsT id) s.workers = n at *
         by_cases hid : (s.callers t).task = id <;> simp_all [holdsT] <;> omega
       · intro hm; simp only [LT, CT]; simp_all [tinfo_modify_sent]
       · intro u hne hm
         have hown := hct.1 (by simp [*])
         exact CT_other hown hne (fun i hi => tinfo_modify_sent_ne _ _ _ hi) hm)
    | (refine Loc.inv_caller (s := s) (t := t) rfl rfl hi ?_ ?_ ?_ (fun _ _ _ _ => trivial)
       · refine ⟨fun id => ?_, ?_⟩
         · first
           | exact hg.1 id
           | (have hc := hg.1 id
              simp only [consT, St.setC, St.recSub] at hc ⊢
              first
              | (have hpre : preSend (s.callers t).pc = true := by simp [*]
                 rw [sentN_modify_sent' _ _ _ t (hct.1 hpre)]
                 by_cases hid : (s.callers t).task = id <;> simp_all [List.count_append] <;> omega)
              | (simp_all [List.count_append, runsN_append, sentN_append] <;> omega))
         · first
           | exact hg.2
           | exact G2_append _ rfl hg.2
           | (refine G2_modify_sent (hct.1 ?_) hg.2
              simp [*]; done)
           | (refine G2_modify_subRes (hct.1 ?_) ?_ hg.2
              · simp [*]
              · simp [okInfo, Res.isErr])
           | (have hu := hct.2.2 (by assumption)
              exact G2_modify_subRes hu.1 (okInfo_unlock _ _ hu.2 (by assumption)) hg.2)
       · intro hm; simp only [LT, CT]; simp_all [tinfo_modify_sent, tinfo_modify_subRes, tinfo_append, St.recSub]
       · first
         | exact fun _ _ h => h
         | (intro u hne hm; exact CT_append _ hm)
         | (intro u hne hm
            first
            | (refine CT_other (hct.1 ?_) hne (fun i hi => tinfo_modify_sent_ne _ _ _ hi) hm
               simp [*]; done)
            | (refine CT_other (hct.1 ?_) hne (fun i hi => tinfo_modify_subRes_ne _ _ _ _ hi) hm
               simp [*]; done)
            | (have hu := hct.2.2 (by assumption)
               exact CT_other hu.1 hne (fun i hi => tinfo_modify_subRes_ne _ _ _ _ hi) hm)))

end Ekit.Pool
