/- Array-level facts used by the heap proofs (C05): swapping two slots is a permutation; reads of a
   swapped array; the heap invariants. Core Lean only. -/
import Ekit.Model.Heap
import Ekit.Lemmas.Comparator

namespace Ekit.Heap
open Ekit.Cmp

/-- overwriting slot `j` (which held `b`) with `x` and putting `b` in front is a permutation of
    putting `x` in front -/
theorem set_perm_cons {l : List Int} {j : Nat} {b : Int} (x : Int) (h : l[j]? = some b) :
    (b :: l.set j x).Perm (x :: l) := by
  induction l generalizing j with
  | nil => simp at h
  | cons y t ih =>
    cases j with
    | zero =>
      simp at h; subst h
      simp only [List.set_cons_zero]
      exact List.Perm.swap x y t
    | succ j =>
      simp at h
      simp only [List.set_cons_succ]
      have h1 : (b :: y :: t.set j x).Perm (y :: b :: t.set j x) := List.Perm.swap y b _
      have h2 : (y :: b :: t.set j x).Perm (y :: x :: t) := List.Perm.cons y (ih h)
      exact h1.trans (h2.trans (List.Perm.swap x y t))

/-- the swap `d[i], d[j] = d[j], d[i]` is a permutation -/
theorem swap_perm {d : List Int} {i j : Nat} {a b : Int} (hi : d[i]? = some a) (hj : d[j]? = some b) :
    ((d.set i b).set j a).Perm d := by
  induction d generalizing i j with
  | nil => simp at hi
  | cons x t ih =>
    cases i with
    | zero =>
      simp at hi; subst hi
      cases j with
      | zero => simp at hj; subst hj; simp
      | succ j =>
        simp at hj
        simp only [List.set_cons_zero, List.set_cons_succ]
        exact set_perm_cons x hj
    | succ i =>
      simp at hi
      cases j with
      | zero =>
        simp at hj; subst hj
        simp only [List.set_cons_zero, List.set_cons_succ]
        have := set_perm_cons (l := t) (j := i) (b := a) x hi
        exact this
      | succ j =>
        simp at hj
        simp only [List.set_cons_succ]
        exact List.Perm.cons x (ih hi hj)

theorem getElem?_swap {d : List Int} {i j : Nat} (a b : Int) (hi : i < d.length) (hj : j < d.length) (k : Nat) :
    ((d.set i b).set j a)[k]? = if k = j then some a else if k = i then some b else d[k]? := by
  simp only [List.getElem?_set, List.length_set]
  by_cases h1 : j = k
  · subst h1; simp [hj]
  · have h1' : ¬ k = j := fun e => h1 e.symm
    by_cases h2 : i = k
    · subst h2; simp [h1, h1', hi]
    · have h2' : ¬ k = i := fun e => h2 e.symm
      simp [h1, h1', h2, h2']

theorem lt_length_of_getElem? {d : List Int} {i : Nat} {a : Int} (h : d[i]? = some a) : i < d.length := by
  apply Classical.byContradiction
  intro hn
  have : d[i]? = none := List.getElem?_eq_none (by omega)
  rw [this] at h
  cases h

/-- the binary min-heap condition on the 1-based array: every slot `i ≥ 2` is not smaller than its
    parent `i/2` -/
def HeapInv (cmp : Cmp) (d : List Int) : Prop :=
  ∀ i a b, 2 ≤ i → d[i]? = some a → d[i / 2]? = some b → cmp b a ≤ 0

/-- heap except that slot `k` may be smaller than its parent (the sift-up loop invariant) -/
def UpInv (cmp : Cmp) (d : List Int) (k : Nat) : Prop :=
  (∀ i a b, 2 ≤ i → i ≠ k → d[i]? = some a → d[i / 2]? = some b → cmp b a ≤ 0) ∧
  (∀ c a b, 2 ≤ k → c / 2 = k → d[c]? = some a → d[k / 2]? = some b → cmp b a ≤ 0)

/-- heap except that slot `i` may be larger than its children (the sift-down loop invariant) -/
def DownInv (cmp : Cmp) (d : List Int) (i : Nat) : Prop :=
  (∀ j a b, 2 ≤ j → j / 2 ≠ i → d[j]? = some a → d[j / 2]? = some b → cmp b a ≤ 0) ∧
  (∀ c a b, 2 ≤ i → c / 2 = i → d[c]? = some a → d[i / 2]? = some b → cmp b a ≤ 0)

/-- in a heap the root is a minimum of everything stored in slots `≥ 1` -/
theorem HeapInv.root_le {cmp : Cmp} (hc : Lawful cmp) {d : List Int} (h : HeapInv cmp d) {r : Int}
    (hr : d[1]? = some r) : ∀ i a, 1 ≤ i → d[i]? = some a → cmp r a ≤ 0 := by
  intro i
  induction i using Nat.strongRecOn with
  | _ i ih =>
    intro a h1 ha
    by_cases hi : i = 1
    · subst hi
      rw [hr] at ha; cases ha
      have := hc.refl r; omega
    · have h2 : 2 ≤ i := by omega
      have hlt : i / 2 < d.length := by
        have := lt_length_of_getElem? ha
        omega
      have hb : d[i / 2]? = some d[i / 2] := List.getElem?_eq_getElem hlt
      have hpa := h i a _ h2 ha hb
      have hrp := ih (i / 2) (by omega) _ (by omega) hb
      exact hc.trans _ _ _ hrp hpa

end Ekit.Heap
