/-
Helper lemmas for C14 (SegmentKeysLock): the index is in range, counting holds per segment, the
invariant tying the client-side `held` set to the RWMutex states, and its preservation.
-/
import Ekit.Model.SegmentLock

namespace Ekit.SegmentLock
open Ekit.Conc

/-! ### the index -/

theorem seg_lt (size : BitVec 32) (hs : size ≠ 0#32) (k : Key) : seg size k < size.toNat := by
  unfold seg
  rw [BitVec.toNat_umod]
  apply Nat.mod_lt
  have : size.toNat ≠ 0 := by
    intro h
    apply hs
    apply BitVec.eq_of_toNat_eq
    simpa using h
  omega

theorem idx_eq (size : BitVec 32) (hs : size ≠ 0#32) (k : Key) : idx size k = some (seg size k) := by
  simp [idx, hs]

/-! ### counting -/

theorem countP_erase_mem {α : Type} [DecidableEq α] (p : α → Bool) (l : List α) (a : α) (h : a ∈ l) :
    (l.erase a).countP p + (if p a then 1 else 0) = l.countP p := by
  induction l with
  | nil => simp at h
  | cons x xs ih =>
    by_cases hx : x = a
    · subst hx
      simp only [List.erase_cons_head, List.countP_cons]
    · have hm : a ∈ xs := by
        cases h with
        | head => exact absurd rfl hx
        | tail _ h => exact h
      have := ih hm
      have hb : (x == a) = false := by simpa using hx
      simp only [List.erase_cons, hb, List.countP_cons, Bool.false_eq_true, if_false]
      omega

theorem countP_pos_of_mem {α : Type} (p : α → Bool) (l : List α) (a : α) (h : a ∈ l) (hp : p a = true) :
    0 < l.countP p :=
  List.countP_pos_iff.mpr ⟨a, h, hp⟩

/-! ### the invariant -/

/-- what one RWMutex state says about the holds recorded on its segment -/
def Agrees (size : BitVec 32) (held : List Hold) (i : Nat) (rw : RW) : Prop :=
  wcount size held i = (if rw.writer then 1 else 0) ∧ rcount size held i = rw.readers ∧
    (rw.writer = true → rw.readers = 0)

structure Inv (size : BitVec 32) (s : State) : Prop where
  len : s.locks.length = size.toNat
  agrees : ∀ i rw, s.locks[i]? = some rw → Agrees size s.held i rw

theorem inv_init (size : BitVec 32) : Inv size (init size) := by
  refine ⟨by simp [init], ?_⟩
  intro i rw h
  simp only [init, List.getElem?_replicate] at h
  split at h
  · simp at h; subst h
    simp [Agrees, wcount, rcount, init]
  · simp at h

theorem wcount_cons (size : BitVec 32) (h : Hold) (held : List Hold) (j : Nat) :
    wcount size (h :: held) j = wcount size held j + (if (h.write && seg size h.key == j) then 1 else 0) := by
  simp [wcount, List.countP_cons]

theorem rcount_cons (size : BitVec 32) (h : Hold) (held : List Hold) (j : Nat) :
    rcount size (h :: held) j = rcount size held j + (if (!h.write && seg size h.key == j) then 1 else 0) := by
  simp [rcount, List.countP_cons]

theorem wcount_erase (size : BitVec 32) (h : Hold) (held : List Hold) (j : Nat) (hm : h ∈ held) :
    wcount size (held.erase h) j + (if (h.write && seg size h.key == j) then 1 else 0) = wcount size held j :=
  countP_erase_mem _ held h hm

theorem rcount_erase (size : BitVec 32) (h : Hold) (held : List Hold) (j : Nat) (hm : h ∈ held) :
    rcount size (held.erase h) j + (if (!h.write && seg size h.key == j) then 1 else 0) = rcount size held j :=
  countP_erase_mem _ held h hm

/-- updating the lock of segment `i` and the holds on segment `i` only -/
theorem inv_update (size : BitVec 32) (s : State) (inv : Inv size s) (i : Nat) (new : RW) (held' : List Hold)
    (hother : ∀ j, j ≠ i → wcount size held' j = wcount size s.held j ∧ rcount size held' j = rcount size s.held j)
    (hself : Agrees size held' i new) :
    Inv size { locks := s.locks.set i new, held := held' } := by
  refine ⟨by simpa using inv.len, ?_⟩
  intro j rw h
  by_cases hj : i = j
  · subst hj
    simp only [List.getElem?_set_self'] at h
    cases hl : s.locks[i]? with
    | none => simp [hl] at h
    | some old =>
      simp [hl] at h
      subst h
      exact hself
  · simp only [List.getElem?_set_ne hj] at h
    have := inv.agrees j rw h
    have ho := hother j (fun e => hj e.symm)
    simp only [Agrees] at this ⊢
    rw [ho.1, ho.2]
    exact this

theorem inv_step (size : BitVec 32) (hs : size ≠ 0#32) (s : State) (l : Label) (s' : State)
    (inv : Inv size s) (h : step size s l = some s') : Inv size s' := by
  obtain ⟨t, op⟩ := l
  simp only [step, idx_eq size hs] at h
  cases hl : s.locks[seg size op.key]? with
  | none => simp [hl] at h
  | some rw =>
    simp only [hl] at h
    have ag := inv.agrees _ rw hl
    obtain ⟨aw, ar, awr⟩ := ag
    -- the four state changes
    have acqW : rw.free = true → Inv size (acquireW s (seg size op.key) t op.key) := by
      intro hf
      simp only [RW.free, Bool.and_eq_true, Bool.not_eq_true', beq_iff_eq] at hf
      apply inv_update size s inv
      · intro j hj
        have : (seg size op.key == j) = false := by simpa using fun e => hj e.symm
        simp [wcount_cons, rcount_cons, this]
      · simp only [Agrees, wcount_cons, rcount_cons]
        simp [aw, ar, hf.1, hf.2]
    have acqR : rw.writer = false → Inv size (acquireR s (seg size op.key) rw t op.key) := by
      intro hf
      apply inv_update size s inv
      · intro j hj
        have : (seg size op.key == j) = false := by simpa using fun e => hj e.symm
        simp [wcount_cons, rcount_cons, this]
      · simp only [Agrees, wcount_cons, rcount_cons]
        simp [aw, ar, hf]
    cases op with
    | lock k =>
      simp only [Op.key] at *
      split at h
      · rename_i hf; simp at h; subst h; exact acqW hf
      · simp at h
    | rlock k =>
      simp only [Op.key] at *
      split at h
      · rename_i hf; simp at h; subst h; exact acqR (by simpa using hf)
      · simp at h
    | tryLock k res =>
      simp only [Op.key] at *
      cases res with
      | true =>
        simp only [if_true] at h
        split at h
        · rename_i hf; simp at h; subst h; exact acqW hf
        · simp at h
      | false =>
        simp only [Bool.false_eq_true, if_false] at h
        split at h
        · simp at h
        · simp at h; subst h; exact inv
    | tryRLock k res =>
      simp only [Op.key] at *
      cases res with
      | true =>
        simp only [if_true] at h
        split at h
        · rename_i hf; simp at h; subst h; exact acqR (by simpa using hf)
        · simp at h
      | false =>
        simp only [Bool.false_eq_true, if_false] at h
        split at h
        · simp at h; subst h; exact inv
        · simp at h
    | unlock k =>
      simp only [Op.key] at *
      by_cases hm : (⟨t, k, true⟩ : Hold) ∈ s.held
      · simp only [hm, if_true] at h
        by_cases hw : rw.writer = true
        · simp only [hw, if_true] at h
          simp at h; subst h
          apply inv_update size s inv
          · intro j hj
            have : (seg size k == j) = false := by simpa using fun e => hj e.symm
            have a := wcount_erase size ⟨t, k, true⟩ s.held j hm
            have b := rcount_erase size ⟨t, k, true⟩ s.held j hm
            simp [this] at a b
            exact ⟨a, b⟩
          · have a := wcount_erase size ⟨t, k, true⟩ s.held (seg size k) hm
            have b := rcount_erase size ⟨t, k, true⟩ s.held (seg size k) hm
            simp at a b
            simp only [Agrees]
            simp [hw] at aw
            have := awr hw
            refine ⟨?_, ?_, ?_⟩
            · simp; omega
            · omega
            · simp
        · simp [hw] at h
      · simp [hm] at h
    | runlock k =>
      simp only [Op.key] at *
      by_cases hm : (⟨t, k, false⟩ : Hold) ∈ s.held
      · simp only [hm, if_true] at h
        by_cases hw : rw.readers > 0
        · simp only [hw, if_true] at h
          simp at h; subst h
          apply inv_update size s inv
          · intro j hj
            have : (seg size k == j) = false := by simpa using fun e => hj e.symm
            have a := wcount_erase size ⟨t, k, false⟩ s.held j hm
            have b := rcount_erase size ⟨t, k, false⟩ s.held j hm
            simp [this] at a b
            exact ⟨a, b⟩
          · have a := wcount_erase size ⟨t, k, false⟩ s.held (seg size k) hm
            have b := rcount_erase size ⟨t, k, false⟩ s.held (seg size k) hm
            simp at a b
            simp only [Agrees]
            refine ⟨?_, ?_, ?_⟩
            · omega
            · omega
            · intro hw'
              have := awr hw'
              omega
        · simp [hw] at h
      · simp [hm] at h

theorem inv_reachable (size : BitVec 32) (hs : size ≠ 0#32) :
    ∀ s, (sys size).Reachable s → Inv size s :=
  System.invariant_induction (sys size) (Inv size) (inv_init size)
    (fun s l s' i h => inv_step size hs s l s' i h)

/-! ### reading the lock state off the holds -/

theorem lock_at (size : BitVec 32) (hs : size ≠ 0#32) (s : State) (inv : Inv size s) (k : Key) :
    ∃ rw, s.locks[seg size k]? = some rw ∧ Agrees size s.held (seg size k) rw := by
  have hlt : seg size k < s.locks.length := by rw [inv.len]; exact seg_lt size hs k
  exact ⟨s.locks[seg size k], List.getElem?_eq_getElem hlt, inv.agrees _ _ (List.getElem?_eq_getElem hlt)⟩

/-- a recorded write hold means the segment's mutex is write-locked, by exactly that one hold -/
theorem writer_of_hold (size : BitVec 32) (hs : size ≠ 0#32) (s : State) (inv : Inv size s)
    (h : Hold) (hm : h ∈ s.held) (hw : h.write = true) :
    ∃ rw, s.locks[seg size h.key]? = some rw ∧ rw.writer = true ∧ rw.readers = 0 ∧
      wcount size s.held (seg size h.key) = 1 ∧ rcount size s.held (seg size h.key) = 0 := by
  obtain ⟨rw, hl, aw, ar, awr⟩ := lock_at size hs s inv h.key
  have hpos : 0 < wcount size s.held (seg size h.key) :=
    countP_pos_of_mem _ _ h hm (by simp [hw])
  have hwr : rw.writer = true := by
    cases hh : rw.writer with
    | true => rfl
    | false => simp [hh] at aw; omega
  have := awr hwr
  refine ⟨rw, hl, hwr, this, ?_, ?_⟩
  · simpa [hwr] using aw
  · omega

/-- a recorded read hold means the segment's mutex has readers and no writer -/
theorem readers_of_hold (size : BitVec 32) (hs : size ≠ 0#32) (s : State) (inv : Inv size s)
    (h : Hold) (hm : h ∈ s.held) (hw : h.write = false) :
    ∃ rw, s.locks[seg size h.key]? = some rw ∧ rw.writer = false ∧ 0 < rw.readers := by
  obtain ⟨rw, hl, aw, ar, awr⟩ := lock_at size hs s inv h.key
  have hpos : 0 < rcount size s.held (seg size h.key) :=
    countP_pos_of_mem _ _ h hm (by simp [hw])
  refine ⟨rw, hl, ?_, by omega⟩
  cases hh : rw.writer with
  | false => rfl
  | true => have := awr hh; omega

/-- no write hold on the segment ⇒ its mutex has no writer -/
theorem no_writer_of_no_hold (size : BitVec 32) (hs : size ≠ 0#32) (s : State) (inv : Inv size s) (k : Key)
    (hn : ∀ h ∈ s.held, h.write = true → seg size h.key ≠ seg size k) :
    ∃ rw, s.locks[seg size k]? = some rw ∧ rw.writer = false := by
  obtain ⟨rw, hl, aw, ar, awr⟩ := lock_at size hs s inv k
  refine ⟨rw, hl, ?_⟩
  have hz : wcount size s.held (seg size k) = 0 := by
    apply List.countP_eq_zero.mpr
    intro h hm
    simp only [Bool.and_eq_true, beq_iff_eq, not_and]
    intro hw
    exact hn h hm hw
  cases hh : rw.writer with
  | false => rfl
  | true => simp [hh] at aw; omega

/-- no hold at all on the segment ⇒ its mutex is free -/
theorem free_of_no_hold (size : BitVec 32) (hs : size ≠ 0#32) (s : State) (inv : Inv size s) (k : Key)
    (hn : ∀ h ∈ s.held, seg size h.key ≠ seg size k) :
    ∃ rw, s.locks[seg size k]? = some rw ∧ rw.free = true := by
  obtain ⟨rw, hl, hw⟩ := no_writer_of_no_hold size hs s inv k (fun h hm _ => hn h hm)
  obtain ⟨rw', hl', aw, ar, awr⟩ := lock_at size hs s inv k
  rw [hl] at hl'
  cases hl'
  refine ⟨rw, hl, ?_⟩
  have hz : rcount size s.held (seg size k) = 0 := by
    apply List.countP_eq_zero.mpr
    intro h hm
    simp only [Bool.and_eq_true, beq_iff_eq, not_and]
    intro _
    exact hn h hm
  simp [RW.free, hw]
  omega

end Ekit.SegmentLock
