/-
Counting invariants of the Cond model: token conservation, accounting of Signals, accounting of nil
returns.  All counters are ghost fields; the invariants relate them to the real state (`full`).
-/
import Ekit.Lemmas.CondInv
namespace Ekit.Cond
open Ekit.Conc

/-- **Counting invariant.** -/
structure Cnt (s : State) : Prop where
  /-- token conservation: every token issued by Signal/Broadcast is consumed by a nil-returning Wait,
      sits in a channel, is in the hand of the (unique) cancelled waiter passing it on, or was dropped -/
  conserve : s.sigIssued + s.bcIssued = s.consumedNil + s.full.length + s.inHand + s.dropped
  /-- every Signal that took effect sent one token, found the list empty, or is about to send -/
  sigAcc : s.sigChecks = s.sigIssued + s.sigEmpty + s.sigInFlight
  nilNodup : s.nilPend.Nodup
  /-- exactly the threads that received a token in the outer select are committed to return nil -/
  nilMem : ∀ t, t ∈ s.nilPend ↔ (s.pc t).result = some .nil
  nilAcc : s.retNil + s.nilPend.length = s.consumedNil

variable {s s' : State} {l : Label}

theorem inHand_eq (s : State) : ∀ t, s.mu = some t → s.inHand = if (s.pc t).inHand then 1 else 0 := by
  intro t ht; simp [State.inHand, ht]
theorem inHand_none (s : State) : s.mu = none → s.inHand = 0 := by
  intro ht; simp [State.inHand, ht]
theorem sigInFlight_eq (s : State) : ∀ t, s.mu = some t → s.sigInFlight = if (s.pc t).sigFlight then 1 else 0 := by
  intro t ht; simp [State.sigInFlight, ht]
theorem sigInFlight_none (s : State) : s.mu = none → s.sigInFlight = 0 := by
  intro ht; simp [State.sigInFlight, ht]

theorem length_erase_mem {l : List Nat} {n : Nat} (h : n ∈ l) : (l.erase n).length + 1 = l.length := by
  have := List.length_erase_of_mem h
  have := List.length_pos_of_mem h
  omega

theorem conserve_step (hi : Inv s) (h : Cnt s) (hs : step s l = some s') :
    s'.sigIssued + s'.bcIssued = s'.consumedNil + s'.full.length + s'.inHand + s'.dropped := by
  have h1 := hi.mutex; have h2 := hi.muHeld; have h3 := h.conserve; have h4 := hi.popOK
  have h9 := inHand_eq s; have h10 := inHand_none s
  have h11 := @length_erase_mem
  step_cases hs <;> simp only [State.inHand, upd_apply] <;> (repeat' split) <;>
    grind [Pc.inMu, Pc.inHand, bodyStart_inHand, Pc.popPc]

theorem sigAcc_step (hi : Inv s) (h : Cnt s) (hs : step s l = some s') :
    s'.sigChecks = s'.sigIssued + s'.sigEmpty + s'.sigInFlight := by
  have h1 := hi.mutex; have h2 := hi.muHeld; have h3 := h.sigAcc; have h4 := hi.popOK
  have h9 := sigInFlight_eq s; have h10 := sigInFlight_none s
  step_cases hs <;> simp only [State.sigInFlight, upd_apply] <;> (repeat' split) <;>
    grind [Pc.inMu, Pc.sigFlight, bodyStart_sigFlight, Pc.popPc]

theorem nilNodup_step (h : Cnt s) (hs : step s l = some s') : s'.nilPend.Nodup := by
  have h3 := h.nilNodup; have h4 := h.nilMem
  step_cases hs <;> grind [Pc.result, List.Nodup.erase, List.nodup_cons]

theorem nilMem_step (hi : Inv s) (h : Cnt s) (hs : step s l = some s') :
    ∀ t, t ∈ s'.nilPend ↔ (s'.pc t).result = some .nil := by
  have h3 := h.nilNodup; have h4 := h.nilMem; have h5 := hi.ctxOK; have h6 := hi.ctxRes
  step_cases hs <;> intro u <;> simp only [upd_apply] <;> (repeat' split) <;>
    grind [Pc.result, bodyStart_result, Pc.ctxArm, List.Nodup.mem_erase_iff]

theorem nilAcc_step (h : Cnt s) (hs : step s l = some s') :
    s'.retNil + s'.nilPend.length = s'.consumedNil := by
  have h3 := h.nilAcc; have h4 := h.nilMem
  have h11 := @length_erase_mem
  step_cases hs <;> grind [Pc.result]

theorem cnt_init : Cnt init := by
  constructor <;> simp [init, State.inHand, State.sigInFlight, Pc.result]

theorem cnt_step (hi : Inv s) (h : Cnt s) (hs : step s l = some s') : Cnt s' where
  conserve := conserve_step hi h hs
  sigAcc := sigAcc_step hi h hs
  nilNodup := nilNodup_step h hs
  nilMem := nilMem_step hi h hs
  nilAcc := nilAcc_step h hs

theorem cnt_reachable {s : State} (hr : Reachable s) : Cnt s := by
  have : Inv s ∧ Cnt s := by
    refine System.invariant_induction sys.toSystem (fun s => Inv s ∧ Cnt s) ⟨inv_init, cnt_init⟩ ?_ s hr
    intro s l s' ⟨hi, hc⟩ hs
    exact ⟨inv_step hi hs, cnt_step hi hc hs⟩
  exact this.2

end Ekit.Cond
