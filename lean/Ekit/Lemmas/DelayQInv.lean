/-
The C08 invariants hold in every reachable state of the DelayQueue system, for every timer
discipline and capacity.
-/
import Ekit.Lemmas.DelayQOnce

namespace Ekit.DelayQ
open Ekit.Conc

structure Inv (P : Params) (s : State) : Prop where
  lock : LockInv s
  pop : PopInv s
  ret : RetInv s
  noErr : NoErrInv s
  cap : CapInv P s
  eff : EffInv s
  once : OnceInv s
  retd : RetdInv s

theorem inv_reachable (P : Params) : ∀ s, (sys P).Reachable s → Inv P s := by
  apply System.invariant_induction
  · exact ⟨lockInv_init, popInv_init, retInv_init, noErrInv_init, capInv_init P, effInv_init, onceInv_init,
      retdInv_init⟩
  · intro s l s' hi h
    have h : step P s l = some s' := h
    exact ⟨lockInv_step P s l s' hi.lock h, popInv_step P s l s' hi.lock hi.pop h,
      retInv_step P s l s' hi.pop hi.ret h, noErrInv_step P s l s' hi.pop hi.noErr h,
      capInv_step P s l s' hi.cap h, effInv_step P s l s' hi.eff h, onceInv_step P s l s' hi.once h,
      retdInv_step P s l s' hi.once hi.retd h⟩

/-- frame facts: which labels can change the queue, and how -/
theorem step_q (P : Params) (s : State) (l : Label) (s' : State) (h : step P s l = some s') :
    s'.q = s.q ∨ (∃ t x, l = .enq t ∧ s.pc t = .eCrit x ∧ s'.q = x :: s.q ∧ s'.eff t = true) ∨
      (∃ t y, l = .pop t (some y) ∧ isMin s.q y = true ∧ s'.q = s.q.erase y ∧ s'.eff t = true) := by
  step_cases h <;> dsimp only <;>
    first
    | (left; rfl)
    | (right; left; exact ⟨_, _, rfl, ‹_›, rfl, by simp⟩)
    | (right; right; exact ⟨_, _, rfl, ‹_›, rfl, by simp⟩)

/-- `eff t` is reset only by a new invocation of `t` -/
theorem step_eff (P : Params) (s : State) (l : Label) (s' : State) (h : step P s l = some s') (t : Nat)
    (h1 : s.eff t = true) (h2 : s'.eff t = false) : (∃ x, l = .invEnq t x) ∨ l = .invDeq t := by
  step_cases h <;> dsimp only at h2 <;>
    first
    | (rw [h1] at h2; cases h2)
    | (simp only [upd] at h2; split at h2
       · rename_i heq; subst heq
         first | exact Or.inl ⟨_, rfl⟩ | exact Or.inr rfl | cases h2
       · rw [h1] at h2; cases h2)

end Ekit.DelayQ
