/-
C06 — the priority-queue specification keeps its multiset as the list sorted by `(priority, id)`
(`insertSorted`, `Ekit/Model/LinzSpec.lean`).  `sortEl` is that canonical form of an arbitrary list;
permuted lists have the same canonical form (`sortEl_congr`), which is what lets a heap array —
known only up to permutation — be abstracted to the specification's state.  Core Lean only.
-/
import Ekit.Model.LinzSpec

namespace Ekit.Linz
open List

theorem elLe_iff (a b : El) : elLe a b = true ↔ a.1 < b.1 ∨ (a.1 = b.1 ∧ a.2 ≤ b.2) := by
  simp [elLe]

theorem elLe_total (a b : El) : elLe a b = true ∨ elLe b a = true := by
  rw [elLe_iff, elLe_iff]; omega

theorem elLe_antisymm {a b : El} (h1 : elLe a b = true) (h2 : elLe b a = true) : a = b := by
  rw [elLe_iff] at h1 h2
  apply Prod.ext <;> omega

theorem elLe_trans {a b c : El} (h1 : elLe a b = true) (h2 : elLe b c = true) : elLe a c = true := by
  rw [elLe_iff] at h1 h2 ⊢; omega

/-- the canonical (sorted) form of a multiset of elements -/
def sortEl (l : List El) : List El := l.foldr insertSorted []

@[simp] theorem sortEl_nil : sortEl [] = [] := rfl
@[simp] theorem sortEl_cons (e : El) (l : List El) : sortEl (e :: l) = insertSorted e (sortEl l) := rfl

theorem insertSorted_perm (e : El) (l : List El) : (insertSorted e l).Perm (e :: l) := by
  induction l with
  | nil => exact Perm.refl _
  | cons x xs ih =>
    simp only [insertSorted]
    split
    · exact Perm.refl _
    · exact (Perm.cons x ih).trans (Perm.swap e x xs)

theorem insertSorted_sorted (e : El) {l : List El} (h : l.Pairwise (fun a b => elLe a b = true)) :
    (insertSorted e l).Pairwise (fun a b => elLe a b = true) := by
  induction l with
  | nil => simp [insertSorted]
  | cons x xs ih =>
    simp only [insertSorted]
    obtain ⟨hx, hxs⟩ := pairwise_cons.mp h
    split
    · rename_i hle
      refine pairwise_cons.mpr ⟨fun y hy => ?_, h⟩
      rcases mem_cons.mp hy with rfl | hy'
      · exact hle
      · exact elLe_trans hle (hx y hy')
    · rename_i hle
      have hxe : elLe x e = true := by
        rcases elLe_total e x with h' | h'
        · exact absurd h' hle
        · exact h'
      refine pairwise_cons.mpr ⟨fun y hy => ?_, ih hxs⟩
      rcases mem_cons.mp ((insertSorted_perm e xs).mem_iff.mp hy) with rfl | hy'
      · exact hxe
      · exact hx y hy'

theorem sortEl_perm (l : List El) : (sortEl l).Perm l := by
  induction l with
  | nil => exact Perm.refl _
  | cons x xs ih => exact (insertSorted_perm x _).trans (Perm.cons x ih)

theorem sortEl_sorted (l : List El) : (sortEl l).Pairwise (fun a b => elLe a b = true) := by
  induction l with
  | nil => exact Pairwise.nil
  | cons x xs ih => exact insertSorted_sorted x ih

/-- two sorted lists with the same elements are the same list -/
theorem sorted_perm_eq {l₁ l₂ : List El} (h₁ : l₁.Pairwise (fun a b => elLe a b = true))
    (h₂ : l₂.Pairwise (fun a b => elLe a b = true)) (hp : l₁.Perm l₂) : l₁ = l₂ :=
  Perm.eq_of_pairwise (le := fun a b => elLe a b = true) (fun _ _ _ _ h1 h2 => elLe_antisymm h1 h2) h₁ h₂ hp

/-- the canonical form depends on the multiset only -/
theorem sortEl_congr {l₁ l₂ : List El} (hp : l₁.Perm l₂) : sortEl l₁ = sortEl l₂ :=
  sorted_perm_eq (sortEl_sorted _) (sortEl_sorted _) ((sortEl_perm l₁).trans (hp.trans (sortEl_perm l₂).symm))

theorem sortEl_length (l : List El) : (sortEl l).length = l.length := (sortEl_perm l).length_eq

theorem mem_sortEl {l : List El} {e : El} : e ∈ sortEl l ↔ e ∈ l := (sortEl_perm l).mem_iff

/-- erasing from the canonical form = the canonical form of the multiset minus one occurrence -/
theorem sortEl_erase {l l' : List El} {e : El} (hp : l.Perm (e :: l')) :
    (sortEl l).erase e = sortEl l' := by
  apply sorted_perm_eq ((sortEl_sorted l).sublist erase_sublist) (sortEl_sorted l')
  have h1 : ((sortEl l).erase e).Perm ((e :: l').erase e) := ((sortEl_perm l).trans hp).erase e
  simp only [erase_cons_head] at h1
  exact h1.trans (sortEl_perm l').symm

end Ekit.Linz
