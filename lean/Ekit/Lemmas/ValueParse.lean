/-
strconv model vs. the decimal-numeral specification: `parseUint` / `parseInt` (the literal loops of
strconv.ParseUint / ParseInt) accept exactly the numerals of `Spec.denoteU` / `Spec.denoteS` that fit
the bit size, and return their value.
-/
import Ekit.Model.Value

namespace Ekit.Value
open Ekit.Go Spec

/-- value of the digit string `s` read after the accumulator `n` -/
def natFrom (n : Nat) (s : Str) : Nat := s.foldl (fun n c => 10 * n + (c - 48)) n

theorem natOf_eq (s : Str) : natOf s = natFrom 0 s := rfl

theorem natFrom_cons (n c : Nat) (s : Str) : natFrom n (c :: s) = natFrom (10 * n + (c - 48)) s := by
  simp [natFrom]

theorem isDigit_false {c : Nat} (h : isDigit c = false) : ¬ (48 ≤ c ∧ c ≤ 57) := by
  unfold isDigit at h
  exact of_decide_eq_false h

theorem isDigit_true {c : Nat} (h : isDigit c = true) : 48 ≤ c ∧ c ≤ 57 := by
  unfold isDigit at h
  exact of_decide_eq_true h

theorem natFrom_ge (s : Str) : ∀ n, n ≤ natFrom n s := by
  induction s with
  | nil => intro n; exact Nat.le_refl _
  | cons c cs ih =>
    intro n
    rw [natFrom_cons]
    exact Nat.le_trans (by omega) (ih _)

theorem natFrom_append (n : Nat) (a b : Str) : natFrom n (a ++ b) = natFrom (natFrom n a) b := by
  simp [natFrom, List.foldl_append]

theorem digitVal_digit {c : Nat} (h : isDigit c = true) : digitVal c = some (c - 48) := by
  have h := isDigit_true h
  simp [digitVal, h]

theorem digitVal_nondigit {c d : Nat} (h : isDigit c = false) (hd : digitVal c = some d) : 10 ≤ d := by
  have h := isDigit_false h
  unfold digitVal at hd
  split at hd
  · omega
  · split at hd
    · simp at hd; omega
    · simp at hd

theorem two64_eq : two64 = 2 ^ 64 := by decide

/-- the loop of ParseUint for base 10: success iff the rest is all digits and the value fits -/
theorem parseUintLoop_ok (maxVal : Nat) (hm : maxVal < two64) :
    ∀ (s : Str) (n v : Nat), n ≤ maxVal →
      (parseUintLoop 10 maxVal ((two64 - 1) / 10 + 1) s n = (v, none) ↔
        s.all isDigit = true ∧ natFrom n s = v ∧ v ≤ maxVal) := by
  intro s
  unfold two64 at hm ⊢
  induction s with
  | nil =>
    intro n v hn
    simp [parseUintLoop, natFrom]
    intro h; omega
  | cons c cs ih =>
    intro n v hn
    have hge := natFrom_ge cs
    rw [natFrom_cons]
    unfold parseUintLoop
    cases hdg : isDigit c with
    | false =>
      cases hd : digitVal c with
      | none => simp [hdg]
      | some d =>
        have : d ≥ 10 := digitVal_nondigit hdg hd
        simp [hdg, this]
    | true =>
      rw [digitVal_digit hdg]
      have hc : 48 ≤ c ∧ c ≤ 57 := isDigit_true hdg
      simp only [List.all_cons, hdg, Bool.true_and]
      have hd10 : ¬ (c - 48 ≥ 10) := by omega
      simp only [hd10, if_false]
      simp only [two64]
      by_cases hcut : n ≥ (18446744073709551616 - 1) / 10 + 1
      · simp only [hcut, if_true]
        have := hge (10 * n + (c - 48))
        constructor
        · intro h; simp at h
        · intro ⟨_, h1, h2⟩; omega
      · simp only [hcut, if_false]
        have hn10 : n * 10 % 18446744073709551616 = n * 10 := by omega
        simp only [hn10]
        by_cases hov : (n * 10 + (c - 48)) % 18446744073709551616 < n * 10 ∨
            (n * 10 + (c - 48)) % 18446744073709551616 > maxVal
        · simp only [hov, if_true]
          have := hge (10 * n + (c - 48))
          constructor
          · intro h; simp at h
          · intro ⟨_, h1, h2⟩; omega
        · simp only [hov, if_false]
          have hlt : n * 10 + (c - 48) < 18446744073709551616 := by omega
          have heq : (n * 10 + (c - 48)) % 18446744073709551616 = 10 * n + (c - 48) := by omega
          rw [heq]
          exact ih (10 * n + (c - 48)) v (by omega)

/-- whatever the loop returns with a range error is `maxVal`; other errors are syntax errors -/
theorem parseUintLoop_err (base maxVal cutoff : Nat) :
    ∀ (s : Str) (n u : Nat) (e : PErr), parseUintLoop base maxVal cutoff s n = (u, some e) →
      (e = .range ∧ u = maxVal) ∨ e = .syntax := by
  intro s
  induction s with
  | nil => intro n u e h; simp [parseUintLoop] at h
  | cons c cs ih =>
    intro n u e h
    unfold parseUintLoop at h
    split at h
    · simp at h; exact Or.inr h.2.symm
    · split at h
      · simp at h; exact Or.inr h.2.symm
      · split at h
        · simp at h; exact Or.inl ⟨h.2.symm, h.1.symm⟩
        · simp only at h
          split at h
          · simp at h; exact Or.inl ⟨h.2.symm, h.1.symm⟩
          · exact ih _ _ _ h

theorem pow_le_two64 {bits : Nat} (h : bits ≤ 64) : 2 ^ bits ≤ two64 := by
  rw [two64_eq]; exact Nat.pow_le_pow_right (by decide) h

/-- **ParseUint is exact** (base 10, 1 ≤ bitSize ≤ 64): it returns `v` without error iff the string is
`[0-9]+`, denotes `v`, and `v < 2^bitSize`. -/
theorem parseUint_exact (s : Str) (bits v : Nat) (h1 : 1 ≤ bits) (h64 : bits ≤ 64) :
    parseUint s 10 bits = (v, none) ↔ denoteU s = some v ∧ v < 2 ^ bits := by
  have hp := pow_le_two64 h64
  have h2 : two64 = 18446744073709551616 := rfl
  have hpos : 0 < 2 ^ bits := Nat.two_pow_pos bits
  unfold parseUint denoteU
  by_cases hs : s = []
  · simp [hs]
  · have hb : bits ≠ 0 := by omega
    have hb2 : ¬ bits > 64 := by omega
    simp only [hs, if_false, hb, hb2]
    have : ¬ ¬ (2 ≤ 10 ∧ 10 ≤ 36) := by decide
    simp only [this, if_false]
    generalize 2 ^ bits = M at *
    rw [parseUintLoop_ok (M - 1) (by omega) s 0 v (by omega)]
    simp only [natOf_eq, ne_eq]
    constructor
    · intro ⟨ha, hv, hle⟩
      simp [ha, hv, hs]; omega
    · intro ⟨h, hlt⟩
      split at h
      · rename_i ha
        simp at h
        exact ⟨ha.2, h, by omega⟩
      · simp at h

/-- the error component of ParseUint (base 10): nothing, a syntax error, or a range error with value maxVal -/
theorem parseUint_err (s : Str) (bits u : Nat) (e : PErr) (h1 : 1 ≤ bits) (h64 : bits ≤ 64)
    (h : parseUint s 10 bits = (u, some e)) : (e = .range ∧ u = 2 ^ bits - 1) ∨ e = .syntax := by
  unfold parseUint at h
  by_cases hs : s = []
  · simp [hs] at h; exact Or.inr h.2.symm
  · have hb : bits ≠ 0 := by omega
    have hb2 : ¬ bits > 64 := by omega
    have : ¬ ¬ (2 ≤ 10 ∧ 10 ≤ 36) := by decide
    simp only [hs, if_false, hb, hb2, this] at h
    exact parseUintLoop_err _ _ _ _ _ _ _ h

end Ekit.Value
