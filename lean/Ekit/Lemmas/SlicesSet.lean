/- Helper lemmas for C16: the key-set model of `map[T]struct{}` and the map-based set functions. Core Lean only. -/
import Ekit.Model.Slices
import Ekit.Spec.Slices

namespace Ekit.Slices
variable {α : Type} [DecidableEq α]

/-! ### insert / delete / toMap -/

theorem mem_mapInsert {m : List α} {k x : α} : x ∈ mapInsert m k ↔ x ∈ m ∨ x = k := by
  unfold mapInsert
  split
  · constructor
    · intro h; exact Or.inl h
    · rintro (h | h)
      · exact h
      · subst h; assumption
  · simp

theorem nodup_mapInsert {m : List α} {k : α} (h : m.Nodup) : (mapInsert m k).Nodup := by
  unfold mapInsert
  split
  · exact h
  · rename_i hk
    rw [List.nodup_append]
    refine ⟨h, by simp, ?_⟩
    intro a ha b hb
    simp at hb
    subst hb
    intro e
    subst e
    exact hk ha

theorem mem_foldl_mapInsert {it m : List α} {x : α} :
    x ∈ it.foldl mapInsert m ↔ x ∈ m ∨ x ∈ it := by
  induction it generalizing m with
  | nil => simp
  | cons k r ih =>
    simp only [List.foldl_cons, ih, mem_mapInsert, List.mem_cons]
    constructor
    · rintro ((h | h) | h)
      · exact Or.inl h
      · exact Or.inr (Or.inl h)
      · exact Or.inr (Or.inr h)
    · rintro (h | h | h)
      · exact Or.inl (Or.inl h)
      · exact Or.inl (Or.inr h)
      · exact Or.inr h

theorem nodup_foldl_mapInsert {it m : List α} (h : m.Nodup) : (it.foldl mapInsert m).Nodup := by
  induction it generalizing m with
  | nil => exact h
  | cons k r ih => exact ih (nodup_mapInsert h)

theorem mem_toMap {src : List α} {x : α} : x ∈ toMap src ↔ x ∈ src := by
  simp [toMap, mem_foldl_mapInsert]

theorem nodup_toMap {src : List α} : (toMap src).Nodup :=
  nodup_foldl_mapInsert List.nodup_nil

theorem mem_mapDelete {m : List α} {k x : α} (h : m.Nodup) : x ∈ mapDelete m k ↔ x ∈ m ∧ x ≠ k := by
  unfold mapDelete
  rw [List.Nodup.mem_erase_iff h]
  exact And.comm

theorem nodup_mapDelete {m : List α} {k : α} (h : m.Nodup) : (mapDelete m k).Nodup :=
  List.Nodup.erase k h

theorem mapHas_iff {m : List α} {k : α} : mapHas m k = true ↔ k ∈ m := by
  simp [mapHas]

/-! ### UnionSet -/

theorem mem_unionSetWith {src dst it : List α} (hit : IterOrder (toMap src) it) {x : α} :
    x ∈ unionSetWith it dst ↔ x ∈ src ∨ x ∈ dst := by
  unfold unionSetWith
  rw [mem_foldl_mapInsert, mem_toMap, List.Perm.mem_iff hit, mem_toMap]
  exact Or.comm

theorem nodup_unionSetWith {dst it : List α} : (unionSetWith it dst).Nodup :=
  nodup_foldl_mapInsert nodup_toMap

/-! ### IntersectSet -/

theorem mem_intersectSet {src dst : List α} {x : α} :
    x ∈ intersectSet src dst ↔ x ∈ src ∧ x ∈ dst := by
  simp [intersectSet, deduplicate, intersectPre, mem_toMap, mapHas]
  exact And.comm

theorem nodup_intersectSet {src dst : List α} : (intersectSet src dst).Nodup := nodup_toMap

/-! ### DiffSet -/

theorem diff_fold {dst m : List α} (h : m.Nodup) :
    (dst.foldl mapDelete m).Nodup ∧ ∀ x, x ∈ dst.foldl mapDelete m ↔ x ∈ m ∧ x ∉ dst := by
  induction dst generalizing m with
  | nil => simp [h]
  | cons k r ih =>
    have := ih (nodup_mapDelete (k := k) h)
    refine ⟨this.1, ?_⟩
    intro x
    simp only [List.foldl_cons]
    rw [this.2 x, mem_mapDelete h]
    simp only [List.mem_cons, not_or]
    constructor
    · rintro ⟨⟨h1, h2⟩, h3⟩; exact ⟨h1, h2, h3⟩
    · rintro ⟨h1, h2, h3⟩; exact ⟨⟨h1, h2⟩, h3⟩

theorem mem_diffSet {src dst : List α} {x : α} : x ∈ diffSet src dst ↔ x ∈ src ∧ x ∉ dst := by
  unfold diffSet
  rw [(diff_fold nodup_toMap).2, mem_toMap]

theorem nodup_diffSet {src dst : List α} : (diffSet src dst).Nodup := (diff_fold nodup_toMap).1

/-! ### SymmetricDiffSet -/

theorem symDiff_fold {it m : List α} (hm : m.Nodup) (hit : it.Nodup) :
    (it.foldl (fun m k => if mapHas m k then mapDelete m k else mapInsert m k) m).Nodup ∧
    ∀ x, x ∈ it.foldl (fun m k => if mapHas m k then mapDelete m k else mapInsert m k) m ↔
      (x ∈ m ∧ x ∉ it) ∨ (x ∉ m ∧ x ∈ it) := by
  induction it generalizing m with
  | nil => simp [hm]
  | cons k r ih =>
    rw [List.nodup_cons] at hit
    obtain ⟨hk, hr⟩ := hit
    simp only [List.foldl_cons]
    by_cases hin : k ∈ m
    · have e : mapHas m k = true := mapHas_iff.mpr hin
      simp only [e, if_true]
      have := ih (nodup_mapDelete (k := k) hm) hr
      refine ⟨this.1, ?_⟩
      intro x
      rw [this.2 x, mem_mapDelete hm]
      simp only [List.mem_cons, not_or]
      by_cases hx : x = k
      · subst hx; simp [hin, hk]
      · simp [hx]
    · have e : mapHas m k = false := by
        cases h : mapHas m k
        · rfl
        · exact absurd (mapHas_iff.mp h) hin
      simp only [e]
      have := ih (nodup_mapInsert (k := k) hm) hr
      refine ⟨this.1, ?_⟩
      intro x
      simp only [Bool.false_eq_true, if_false]
      rw [this.2 x, mem_mapInsert]
      simp only [List.mem_cons, not_or]
      by_cases hx : x = k
      · subst hx; simp [hin, hk]
      · simp [hx]

theorem mem_symDiffSetWith {src dst it : List α} (hit : IterOrder (toMap dst) it) {x : α} :
    x ∈ symDiffSetWith it src ↔ (x ∈ src ∧ x ∉ dst) ∨ (x ∉ src ∧ x ∈ dst) := by
  unfold symDiffSetWith
  have hn : it.Nodup := (List.Perm.nodup_iff hit).mpr nodup_toMap
  rw [(symDiff_fold nodup_toMap hn).2, mem_toMap, List.Perm.mem_iff hit, mem_toMap]

theorem nodup_symDiffSetWith {src dst it : List α} (hit : IterOrder (toMap dst) it) :
    (symDiffSetWith it src).Nodup :=
  (symDiff_fold nodup_toMap ((List.Perm.nodup_iff hit).mpr nodup_toMap)).1

/-! ### ContainsAny / ContainsAll -/

theorem containsAny_go_iff {m dst : List α} : containsAny.go m dst = true ↔ ∃ x, x ∈ dst ∧ x ∈ m := by
  induction dst with
  | nil => simp [containsAny.go]
  | cons v r ih =>
    unfold containsAny.go
    by_cases h : v ∈ m
    · simp [mapHas, h]
    · simp only [mapHas, h, decide_false, Bool.false_eq_true, if_false, ih, List.mem_cons]
      constructor
      · rintro ⟨x, h1, h2⟩; exact ⟨x, Or.inr h1, h2⟩
      · rintro ⟨x, h1 | h1, h2⟩
        · subst h1; exact absurd h2 h
        · exact ⟨x, h1, h2⟩

theorem containsAll_go_iff {m dst : List α} : containsAll.go m dst = true ↔ ∀ x, x ∈ dst → x ∈ m := by
  induction dst with
  | nil => simp [containsAll.go]
  | cons v r ih =>
    unfold containsAll.go
    by_cases h : v ∈ m
    · simp [mapHas, h, ih]
    · simp [mapHas, h]

/-! ### the Boolean specification means what it says -/

theorem Spec.isSetOf_iff {r univ : List α} {mem : α → Bool} (hu : ∀ x, mem x = true → x ∈ univ) :
    Spec.isSetOf r univ mem = true ↔ r.Nodup ∧ ∀ x, x ∈ r ↔ mem x = true := by
  unfold Spec.isSetOf
  simp only [Bool.and_eq_true, decide_eq_true_eq, List.all_eq_true, List.mem_append, beq_iff_eq]
  constructor
  · rintro ⟨h1, h2⟩
    refine ⟨h1, ?_⟩
    intro x
    constructor
    · intro hx
      have := h2 x (Or.inl hx)
      simp [hx] at this
      exact this
    · intro hx
      have := h2 x (Or.inr (hu x hx))
      rw [hx] at this
      simpa using this
  · rintro ⟨h1, h2⟩
    refine ⟨h1, ?_⟩
    intro x _
    by_cases hx : x ∈ r
    · simp [hx, (h2 x).mp hx]
    · have : mem x = false := by
        cases hm : mem x
        · rfl
        · exact absurd ((h2 x).mpr hm) hx
      simp [hx, this]

omit [DecidableEq α] in
/-- an enumeration of a duplicate-free key list is characterised by its elements -/
theorem enumerates_iff {m r : List α} (hm : m.Nodup) :
    Enumerates m r ↔ r.Nodup ∧ ∀ x, x ∈ r ↔ x ∈ m := by
  unfold Enumerates
  constructor
  · intro h
    exact ⟨(List.Perm.nodup_iff h).mpr hm, fun x => List.Perm.mem_iff h⟩
  · rintro ⟨h1, h2⟩
    exact (List.perm_ext_iff_of_nodup h1 hm).mpr h2

end Ekit.Slices
