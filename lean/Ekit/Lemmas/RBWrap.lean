/-
Refinement lemmas for the containers layered on TreeMap: TreeSet, MultiMap, LinkedMap.
-/
import Ekit.Lemmas.RBRefine

namespace Ekit.RB
variable {α β : Type} {cmp : α → α → Int}

theorem pair_eq {A B : Type} {a : A} {b : B} {p : A × B} (h : (a, b) = p) : a = p.1 ∧ b = p.2 := by
  subst h; exact ⟨rfl, rfl⟩

namespace SMap

/-- "some stored key compares equal to `k`" -/
def Has (cmp : α → α → Int) (k : α) (s : List (α × β)) : Prop := ∃ p ∈ s, cmp k p.1 = 0

theorem isSome_lookup {k : α} {s : List (α × β)} : (lookup cmp k s).isSome = true ↔ Has cmp k s := by
  simp only [lookup, List.find?_isSome, Has]
  constructor
  · rintro ⟨x, hx, h⟩; exact ⟨x, hx, by simpa using h⟩
  · rintro ⟨x, hx, h⟩; exact ⟨x, hx, by simpa using h⟩

theorem lookup_eq_none {k : α} {s : List (α × β)} : lookup cmp k s = none ↔ ¬ Has cmp k s := by
  rw [← isSome_lookup]
  cases lookup cmp k s <;> simp

/-- pairwise inequivalent keys -/
def Distinct (cmp : α → α → Int) (s : List (α × β)) : Prop := s.Pairwise fun a b => cmp a.1 b.1 ≠ 0

theorem Sorted.distinct {s : List (α × β)} (h : Sorted cmp s) : Distinct cmp s :=
  List.Pairwise.imp (fun h => by omega) h

theorem has_insert {k k' : α} {v : β} {s : List (α × β)} :
    Has cmp k' (insert cmp k v s) ↔ cmp k' k = 0 ∨ Has cmp k' s := by
  simp only [Has]
  constructor
  · rintro ⟨p, hp, h⟩
    rcases mem_insert.1 hp with rfl | hp
    · exact Or.inl h
    · exact Or.inr ⟨p, hp, h⟩
  · rintro (h | ⟨p, hp, h⟩)
    · exact ⟨(k, v), mem_insert.2 (Or.inl rfl), h⟩
    · exact ⟨p, mem_insert.2 (Or.inr hp), h⟩

theorem has_append_one {k k' : α} {v : β} {s : List (α × β)} :
    Has cmp k' (s ++ [(k, v)]) ↔ Has cmp k' s ∨ cmp k' k = 0 := by
  simp only [Has, List.mem_append, List.mem_singleton]
  constructor
  · rintro ⟨p, hp | rfl, h⟩
    · exact Or.inl ⟨p, hp, h⟩
    · exact Or.inr h
  · rintro (⟨p, hp, h⟩ | h)
    · exact ⟨p, Or.inl hp, h⟩
    · exact ⟨(k, v), Or.inr rfl, h⟩

theorem has_update {k k' : α} {v : β} {s : List (α × β)} :
    Has cmp k' (update cmp k v s) ↔ Has cmp k' s := by
  simp only [Has, update, List.mem_map]
  constructor
  · rintro ⟨p, ⟨q, hq, rfl⟩, h⟩
    refine ⟨q, hq, ?_⟩
    by_cases hk : cmp k q.1 = 0 <;> simpa [hk] using h
  · rintro ⟨q, hq, h⟩
    refine ⟨_, ⟨q, hq, rfl⟩, ?_⟩
    by_cases hk : cmp k q.1 = 0 <;> simpa [hk] using h

/-- with pairwise inequivalent keys, what survives `erase k` is not equivalent to `k` -/
theorem not_equiv_of_mem_erase (hc : LawfulCmp cmp) {k : α} {s : List (α × β)} (hd : Distinct cmp s)
    {x : α × β} (hx : x ∈ erase cmp k s) : cmp k x.1 ≠ 0 := by
  induction s with
  | nil => simp [erase] at hx
  | cons a s ih =>
    obtain ⟨ha, hs⟩ := List.pairwise_cons.1 hd
    simp only [erase, List.eraseP_cons] at hx
    by_cases hp : cmp k a.1 = 0
    · simp only [hp, beq_self_eq_true, cond_true] at hx
      intro hkx
      exact ha x hx (hc.eq_trans (hc.eq_symm hp) hkx)
    · have hb : (cmp k a.1 == 0) = false := by simp [hp]
      simp only [hb, cond_false, List.mem_cons] at hx
      rcases hx with rfl | hx
      · exact hp
      · exact ih hs hx

theorem has_erase (hc : LawfulCmp cmp) {k k' : α} {s : List (α × β)} (hd : Distinct cmp s) :
    Has cmp k' (erase cmp k s) ↔ Has cmp k' s ∧ cmp k' k ≠ 0 := by
  constructor
  · rintro ⟨x, hx, h⟩
    refine ⟨⟨x, List.mem_of_mem_eraseP hx, h⟩, ?_⟩
    intro hk
    exact not_equiv_of_mem_erase hc hd hx (hc.eq_trans (hc.eq_symm hk) h)
  · rintro ⟨⟨x, hx, h⟩, hk⟩
    refine ⟨x, ?_, h⟩
    apply (List.mem_eraseP_of_neg _).2 hx
    intro hp
    have hp' : cmp k x.1 = 0 := by simpa using hp
    exact hk (hc.eq_trans h (hc.eq_symm hp'))

theorem distinct_erase {k : α} {s : List (α × β)} (hd : Distinct cmp s) : Distinct cmp (erase cmp k s) :=
  List.Pairwise.sublist List.eraseP_sublist hd

theorem distinct_update {k : α} {v : β} {s : List (α × β)} (hd : Distinct cmp s) : Distinct cmp (update cmp k v s) := by
  simp only [Distinct, update, List.pairwise_map]
  apply List.Pairwise.imp _ hd
  intro a b hab
  by_cases h1 : cmp k a.1 = 0 <;> by_cases h2 : cmp k b.1 = 0 <;> simp [h1, h2, hab]

theorem distinct_append_one (hc : LawfulCmp cmp) {k : α} {v : β} {s : List (α × β)} (hd : Distinct cmp s)
    (hn : ¬ Has cmp k s) : Distinct cmp (s ++ [(k, v)]) := by
  simp only [Distinct, List.pairwise_append]
  refine ⟨hd, by simp, ?_⟩
  intro a ha b hb
  simp at hb
  subst hb
  intro h
  exact hn ⟨a, ha, hc.eq_symm h⟩

theorem update_unit (k : α) (s : List (α × Unit)) : update cmp k () s = s := by
  simp only [update]
  conv => rhs; rw [← List.map_id s]
  apply List.map_congr_left
  intro p _
  split <;> rfl

theorem erase_of_lookup_none {k : α} {s : List (α × β)} (h : lookup cmp k s = none) : erase cmp k s = s := by
  apply erase_of_ne
  intro q hq h0
  exact (lookup_eq_none.1 h) ⟨q, hq, h0⟩

theorem length_append_one (s : List (α × β)) (p : α × β) : ((s ++ [p]).length : Int) = s.length + 1 := by
  simp

end SMap

/-! ### TreeSet -/
theorem TreeSet.step_refines (hc : LawfulCmp cmp) (t : RBTree α Unit) (hw : t.WF cmp) (op : SetOp α) :
    ((TreeSet.step cmp t op).1.root.toList, (TreeSet.step cmp t op).2) = SMap.sstep cmp t.root.toList op ∧
    (TreeSet.step cmp t op).1.WF cmp := by
  cases op with
  | add k =>
    obtain ⟨h1, h2⟩ := TreeMap.step_refines hc t hw (.put k ())
    have e1 := (pair_eq h1).1
    simp only [TreeSet.step, SMap.sstep]
    refine ⟨?_, h2⟩
    rw [e1]
    simp only [SMap.mstep]
    cases SMap.lookup cmp k t.root.toList <;> simp [SMap.update_unit]
  | delete k =>
    obtain ⟨h1, h2⟩ := TreeMap.step_refines hc t hw (.delete k)
    have e1 := (pair_eq h1).1
    simp only [TreeSet.step, SMap.sstep]
    refine ⟨?_, h2⟩
    rw [e1]
    simp only [SMap.mstep]
    cases hl : SMap.lookup cmp k t.root.toList with
    | none => simp [SMap.erase_of_lookup_none hl]
    | some p => simp
  | exist k =>
    obtain ⟨h1, h2⟩ := TreeMap.step_refines hc t hw (.get k)
    obtain ⟨e1, e2⟩ := pair_eq h1
    simp only [TreeSet.step, SMap.sstep]
    simp only [SMap.mstep] at e1 e2
    generalize TreeMap.step cmp t (.get k) = q at e1 e2 h2
    obtain ⟨q1, q2⟩ := q
    simp only at e1 e2 h2
    cases hl : SMap.lookup cmp k t.root.toList with
    | none =>
      simp only [hl] at e1 e2
      subst e2
      exact ⟨by simp [e1], h2⟩
    | some p =>
      simp only [hl] at e1 e2
      subst e2
      exact ⟨by simp [e1], h2⟩
  | keys => exact TreeMap.step_refines hc t hw .keys

/-! ### MultiMap -/
theorem MultiMap.step_refines {γ : Type} (hc : LawfulCmp cmp) (t : RBTree α (List γ)) (hw : t.WF cmp)
    (op : MapOp α (List γ)) :
    ((MultiMap.step cmp t op).1.root.toList, (MultiMap.step cmp t op).2) = SMap.multiStep cmp t.root.toList op ∧
    (MultiMap.step cmp t op).1.WF cmp := by
  cases op with
  | put k vs =>
    obtain ⟨g1, _⟩ := TreeMap.step_refines hc t hw (.get k)
    have e2 := (pair_eq g1).2
    simp only [SMap.mstep] at e2
    simp only [MultiMap.step, SMap.multiStep]
    cases hl : SMap.lookup cmp k t.root.toList with
    | none =>
      simp only [hl] at e2
      generalize TreeMap.step cmp t (.get k) = q at e2 ⊢
      obtain ⟨q1, q2⟩ := q
      simp only at e2
      subst e2
      simp only [List.nil_append]
      have := TreeMap.step_refines hc t hw (.put k vs)
      simpa only [SMap.mstep, hl] using this
    | some p =>
      simp only [hl] at e2
      generalize TreeMap.step cmp t (.get k) = q at e2 ⊢
      obtain ⟨q1, q2⟩ := q
      simp only at e2
      subst e2
      have := TreeMap.step_refines hc t hw (.put k (p.2 ++ vs))
      simpa only [SMap.mstep, hl] using this
  | get k => exact TreeMap.step_refines hc t hw (.get k)
  | delete k => exact TreeMap.step_refines hc t hw (.delete k)
  | keys => exact TreeMap.step_refines hc t hw .keys
  | values => exact TreeMap.step_refines hc t hw .values
  | len => exact TreeMap.step_refines hc t hw .len


/-! ### LinkedMap -/

/-- the index tree and the cell list hold the same (pairwise inequivalent) keys -/
structure LinkedMap.Inv (cmp : α → α → Int) (s : LinkedMap α β) : Prop where
  wf : s.m.WF cmp
  same : ∀ k, SMap.Has cmp k s.m.root.toList ↔ SMap.Has cmp k s.cells
  distinct : SMap.Distinct cmp s.cells
  len : s.length = s.cells.length

theorem LinkedMap.inv_empty : (LinkedMap.empty : LinkedMap α β).Inv cmp :=
  ⟨RBTree.wf_empty, fun k => by simp [LinkedMap.empty, RBTree.empty, SMap.Has], List.Pairwise.nil, rfl⟩

theorem LinkedMap.step_refines (hc : LawfulCmp cmp) (s : LinkedMap α β) (hi : s.Inv cmp) (op : MapOp α β) :
    ((s.step cmp op).1.cells, (s.step cmp op).2) = OMap.step cmp s.cells op ∧ (s.step cmp op).1.Inv cmp := by
  obtain ⟨hw, hsame, hdist, hlen⟩ := hi
  -- what `Get` on the index says, in terms of the cell list
  have hget : ∀ k, (TreeMap.step cmp s.m (.get k)).2 =
      (match SMap.lookup cmp k s.m.root.toList with
       | some p => Ret.val p.2
       | none => Ret.none) := by
    intro k
    have := (pair_eq (TreeMap.step_refines hc s.m hw (.get k)).1).2
    rw [this]
    simp only [SMap.mstep]
    cases SMap.lookup cmp k s.m.root.toList <;> rfl
  cases op with
  | put k v =>
    simp only [LinkedMap.step, OMap.step]
    have hg := hget k
    cases hl : SMap.lookup cmp k s.cells with
    | some p =>
      have : SMap.Has cmp k s.m.root.toList := (hsame k).2 (SMap.isSome_lookup.1 (by simp [hl]))
      obtain ⟨q, hq⟩ := Option.isSome_iff_exists.1 (SMap.isSome_lookup.2 this)
      simp only [hq] at hg
      generalize TreeMap.step cmp s.m (.get k) = g at hg ⊢
      obtain ⟨g1, g2⟩ := g
      simp only at hg
      subst hg
      refine ⟨rfl, hw, ?_, SMap.distinct_update hdist, ?_⟩
      · intro k'
        rw [hsame k']
        exact (SMap.has_update (cmp := cmp)).symm
      · show s.length = ((SMap.update cmp k v s.cells).length : Int)
        rw [SMap.length_update, hlen]
    | none =>
      have hnc : ¬ SMap.Has cmp k s.cells := SMap.lookup_eq_none.1 hl
      have hnt : SMap.lookup cmp k s.m.root.toList = none :=
        SMap.lookup_eq_none.2 (fun h => hnc ((hsame k).1 h))
      simp only [hnt] at hg
      generalize TreeMap.step cmp s.m (.get k) = g at hg ⊢
      obtain ⟨g1, g2⟩ := g
      simp only at hg
      subst hg
      obtain ⟨p1, p2⟩ := TreeMap.step_refines hc s.m hw (.put k ())
      obtain ⟨e1, e2⟩ := pair_eq p1
      simp only [SMap.mstep, hnt] at e1 e2
      generalize TreeMap.step cmp s.m (.put k ()) = q at e1 e2 p2 ⊢
      obtain ⟨q1, q2⟩ := q
      simp only at e1 e2 p2
      subst e2
      refine ⟨rfl, p2, ?_, SMap.distinct_append_one hc hdist hnc, ?_⟩
      · intro k'
        show SMap.Has cmp k' q1.root.toList ↔ SMap.Has cmp k' (s.cells ++ [(k, v)])
        rw [e1, SMap.has_insert, SMap.has_append_one, hsame k']
        exact Or.comm
      · show s.length + 1 = ((s.cells ++ [(k, v)]).length : Int)
        rw [SMap.length_append_one, hlen]
  | get k =>
    simp only [LinkedMap.step, OMap.step]
    have hg := hget k
    cases hl : SMap.lookup cmp k s.cells with
    | some p =>
      have : SMap.Has cmp k s.m.root.toList := (hsame k).2 (SMap.isSome_lookup.1 (by simp [hl]))
      obtain ⟨q, hq⟩ := Option.isSome_iff_exists.1 (SMap.isSome_lookup.2 this)
      simp only [hq] at hg
      generalize TreeMap.step cmp s.m (.get k) = g at hg ⊢
      obtain ⟨g1, g2⟩ := g
      simp only at hg
      subst hg
      have hc' : LinkedMap.cellOf cmp k s.cells = some p := hl
      simp only [hc']
      exact ⟨trivial, hw, hsame, hdist, hlen⟩
    | none =>
      have hnc : ¬ SMap.Has cmp k s.cells := SMap.lookup_eq_none.1 hl
      have hnt : SMap.lookup cmp k s.m.root.toList = none :=
        SMap.lookup_eq_none.2 (fun h => hnc ((hsame k).1 h))
      simp only [hnt] at hg
      generalize TreeMap.step cmp s.m (.get k) = g at hg ⊢
      obtain ⟨g1, g2⟩ := g
      simp only at hg
      subst hg
      exact ⟨rfl, hw, hsame, hdist, hlen⟩
  | delete k =>
    simp only [LinkedMap.step, OMap.step]
    obtain ⟨d1, d2⟩ := TreeMap.step_refines hc s.m hw (.delete k)
    obtain ⟨e1, e2⟩ := pair_eq d1
    simp only [SMap.mstep] at e1 e2
    cases hl : SMap.lookup cmp k s.cells with
    | some p =>
      have : SMap.Has cmp k s.m.root.toList := (hsame k).2 (SMap.isSome_lookup.1 (by simp [hl]))
      obtain ⟨q, hq⟩ := Option.isSome_iff_exists.1 (SMap.isSome_lookup.2 this)
      simp only [hq] at e1 e2
      generalize TreeMap.step cmp s.m (.delete k) = g at e1 e2 d2 ⊢
      obtain ⟨g1, g2⟩ := g
      simp only at e1 e2 d2
      subst e2
      have hc' : LinkedMap.cellOf cmp k s.cells = some p := hl
      simp only [hc']
      refine ⟨rfl, d2, ?_, SMap.distinct_erase hdist, ?_⟩
      · intro k'
        show SMap.Has cmp k' g1.root.toList ↔ SMap.Has cmp k' (SMap.erase cmp k s.cells)
        rw [e1, SMap.has_erase hc hw.ordered.distinct, SMap.has_erase hc hdist, hsame k']
      · show s.length - 1 = ((SMap.erase cmp k s.cells).length : Int)
        rw [SMap.length_erase hl, hlen]
    | none =>
      have hnc : ¬ SMap.Has cmp k s.cells := SMap.lookup_eq_none.1 hl
      have hnt : SMap.lookup cmp k s.m.root.toList = none :=
        SMap.lookup_eq_none.2 (fun h => hnc ((hsame k).1 h))
      simp only [hnt] at e1 e2
      generalize TreeMap.step cmp s.m (.delete k) = g at e1 e2 d2 ⊢
      obtain ⟨g1, g2⟩ := g
      simp only at e1 e2 d2
      subst e2
      exact ⟨rfl, hw, hsame, hdist, hlen⟩
  | keys => exact ⟨rfl, hw, hsame, hdist, hlen⟩
  | values => exact ⟨rfl, hw, hsame, hdist, hlen⟩
  | len => exact ⟨by simp [LinkedMap.step, OMap.step, hlen], hw, hsame, hdist, hlen⟩

end Ekit.RB
