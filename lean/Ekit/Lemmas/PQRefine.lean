/-
The translated internal/queue/priority_queue.go (Ekit/Generated/PQGo.lean, run by the MiniGo interpreter with aliasing
slices, a receiver and calls of Ekit/MiniGo/LangPQ.lean) computes the hand-written value-level heap model
`Ekit.Heap.PQ` / `Ekit.Heap.step` of Ekit/Model/Heap.lean: for every non-panicking outcome of the model the translated
method, run under the real call handler `call cmp procs fuel`, returns the corresponding MiniGo value and leaves a
state that represents the model's next queue.
-/
import Ekit.Generated.PQGo
import Ekit.Model.Heap
import Ekit.Lemmas.SLRefine

namespace Ekit.MiniGo.PQ.Refine
open Ekit.MiniGo.SL (Val Fail Res BinOp Env appendVals updA)
open Ekit.MiniGo.SL.Refine (WFS view updA_same updA_ne appendVals_fit appendVals_grow shrink_sim)
open Ekit.MiniGo.PQ Ekit.Gen.PQGo Ekit.Lists
open Ekit.Go (Outcome Err)
open Ekit.Heap (siftUp pick Op Out Ret errCap errEmpty)

/-- the interpreter state represents the model queue `q` -/
def Rel (st : St) (q : Ekit.Heap.PQ) : Prop :=
  st.capacity = q.capacity ∧ ∃ a, st.data = .slice (some a) q.data.vals.length q.data.cap ∧
    (st.mem.arrs a).length = q.data.cap ∧ q.data.vals.length ≤ q.data.cap ∧ a < st.mem.alloc ∧
    (st.mem.arrs a).take q.data.vals.length = q.data.vals

/-- overwrite the backing array `a` -/
def setArr (st : St) (a : Nat) (A : List Int) : St :=
  { st with mem := { st.mem with arrs := updA st.mem.arrs a A } }

theorem updA_updA (h : Nat → List Int) (a : Nat) (X Y : List Int) : updA (updA h a X) a Y = updA h a Y := by
  funext x; simp only [updA]; split <;> rfl

theorem updA_self (h : Nat → List Int) (a : Nat) : updA h a (h a) = h := by
  funext x; simp only [updA]; split
  · next e => rw [e]
  · rfl

theorem setArr_setArr (st : St) (a : Nat) (X Y : List Int) : setArr (setArr st a X) a Y = setArr st a Y := by
  simp only [setArr, updA_updA]

theorem setArr_self (st : St) (a : Nat) : setArr st a (st.mem.arrs a) = st := by
  simp only [setArr, updA_self]

theorem setArr_arrs (st : St) (a : Nat) (X : List Int) : (setArr st a X).mem.arrs a = X := updA_same _ _ _

/-! ### one-statement unfolding rules -/

section rules
variable (cmpF : Int → Int → Int) (sf : Nat) (callH : CallH PName) (lf : Nat) (ρ : Env) (st : St)

theorem exec_seq (a b : Stmt PName) : exec cmpF sf callH lf ρ st (.seq a b) =
    (match exec cmpF sf callH lf ρ st a with
     | .ok (.normal, ρ1, st1) => exec cmpF sf callH lf ρ1 st1 b
     | .ok r => .ok r
     | .error e => .error e) := rfl
theorem exec_skip : exec cmpF sf callH lf ρ st (.skip : Stmt PName) = .ok (.normal, ρ, st) := rfl
theorem exec_break : exec cmpF sf callH lf ρ st (.break_ : Stmt PName) = .ok (.brk, ρ, st) := rfl
theorem exec_assign (x : Nat) (e : Expr PName) : exec cmpF sf callH lf ρ st (.assign x e) =
    (match evalE cmpF sf callH ρ st e with
     | .ok (v, st1) => .ok (.normal, ρ.set x v, st1)
     | .error e => .error e) := rfl
theorem exec_expr (e : Expr PName) : exec cmpF sf callH lf ρ st (.expr e) =
    (match evalE cmpF sf callH ρ st e with
     | .ok (_, st1) => .ok (.normal, ρ, st1)
     | .error e => .error e) := rfl
theorem exec_setData (e : Expr PName) : exec cmpF sf callH lf ρ st (.setData e) =
    (match evalE cmpF sf callH ρ st e with
     | .ok (.slice a l c, st1) => .ok (.normal, ρ, { st1 with data := .slice a l c })
     | .ok _ => .error .stuck
     | .error e => .error e) := rfl
theorem exec_setCapacity (e : Expr PName) : exec cmpF sf callH lf ρ st (.setCapacity e) =
    (match evalE cmpF sf callH ρ st e with
     | .ok (.int k, st1) => .ok (.normal, ρ, { st1 with capacity := k })
     | .ok _ => .error .stuck
     | .error e => .error e) := rfl
theorem exec_ite (c : Expr PName) (t e : Stmt PName) : exec cmpF sf callH lf ρ st (.ite c t e) =
    (match evalE cmpF sf callH ρ st c with
     | .ok (.bool true, st1) => exec cmpF sf callH lf ρ st1 t
     | .ok (.bool false, st1) => exec cmpF sf callH lf ρ st1 e
     | .ok _ => .error .stuck
     | .error x => .error x) := rfl
theorem exec_loop (c : Expr PName) (body : Stmt PName) : exec cmpF sf callH lf ρ st (.loop c body) =
    iterate (fun ρ st => evalE cmpF sf callH ρ st c) (fun ρ st => exec cmpF sf callH lf ρ st body) lf ρ st := rfl
theorem exec_ret (e : Expr PName) : exec cmpF sf callH lf ρ st (.ret e) =
    (match evalE cmpF sf callH ρ st e with
     | .ok (v, st1) => .ok (.ret v, ρ, st1)
     | .error e => .error e) := rfl
theorem exec_ret2 (a b : Expr PName) : exec cmpF sf callH lf ρ st (.ret2 a b) =
    (match evalE cmpF sf callH ρ st a with
     | .ok (x, st1) =>
       match evalE cmpF sf callH ρ st1 b with
       | .ok (y, st2) => .ok (.ret (.pair x y), ρ, st2)
       | .error e => .error e
     | .error e => .error e) := rfl
theorem exec_setIndex (s i v : Expr PName) : exec cmpF sf callH lf ρ st (.setIndex s i v) =
    (match evalE cmpF sf callH ρ st s with
     | .ok (.slice arr l _, s1) =>
       match evalE cmpF sf callH ρ s1 i with
       | .ok (.int k, s2) =>
         match evalE cmpF sf callH ρ s2 v with
         | .ok (.int x, s3) =>
           match writeIdx s3 arr l k x with
           | .ok s4 => .ok (.normal, ρ, s4)
           | .error e => .error e
         | .ok _ => .error .stuck
         | .error e => .error e
       | .ok _ => .error .stuck
       | .error e => .error e
     | .ok _ => .error .stuck
     | .error e => .error e) := rfl
theorem exec_swap (s i j : Expr PName) : exec cmpF sf callH lf ρ st (.swap s i j) =
    (match evalE cmpF sf callH ρ st s with
     | .ok (.slice arr l _, s1) =>
       match evalE cmpF sf callH ρ s1 i with
       | .ok (.int ki, s2) =>
         match evalE cmpF sf callH ρ s2 j with
         | .ok (.int kj, s3) =>
           match readIdx s3 arr l kj, readIdx s3 arr l ki with
           | .ok vj, .ok vi =>
             match writeIdx s3 arr l ki vj with
             | .ok s4 =>
               match writeIdx s4 arr l kj vi with
               | .ok s5 => .ok (.normal, ρ, s5)
               | .error e => .error e
             | .error e => .error e
           | .error e, _ => .error e
           | _, .error e => .error e
         | .ok _ => .error .stuck
         | .error e => .error e
       | .ok _ => .error .stuck
       | .error e => .error e
     | .ok _ => .error .stuck
     | .error e => .error e) := rfl

theorem seq_normal {a b : Stmt PName} {ρ1 : Env} {st1 : St} (h : exec cmpF sf callH lf ρ st a = .ok (.normal, ρ1, st1)) :
    exec cmpF sf callH lf ρ st (.seq a b) = exec cmpF sf callH lf ρ1 st1 b := by rw [exec_seq, h]
theorem seq_ret {a b : Stmt PName} {v : Val} {ρ1 : Env} {st1 : St} (h : exec cmpF sf callH lf ρ st a = .ok (.ret v, ρ1, st1)) :
    exec cmpF sf callH lf ρ st (.seq a b) = .ok (.ret v, ρ1, st1) := by rw [exec_seq, h]
theorem seq_brk {a b : Stmt PName} {ρ1 : Env} {st1 : St} (h : exec cmpF sf callH lf ρ st a = .ok (.brk, ρ1, st1)) :
    exec cmpF sf callH lf ρ st (.seq a b) = .ok (.brk, ρ1, st1) := by rw [exec_seq, h]

theorem set_apply (x : Nat) (v : Val) (y : Nat) : (ρ.set x v) y = if y = x then v else ρ y := rfl
theorem ofArgs_apply (args : List Val) (x : Nat) : Env.ofArgs args x = args.getD x .unit := rfl

theorem readIdx_ok (a l k : Nat) (hk : k < l) : readIdx st (some a) l (k : Nat) = .ok ((st.mem.arrs a).getD k 0) := by
  have c1 : ¬ ((k : Int) < 0 ∨ (k : Int) ≥ l) := by omega
  simp only [readIdx, if_neg c1, Int.toNat_natCast]
theorem writeIdx_ok (a l k : Nat) (x : Int) (hk : k < l) :
    writeIdx st (some a) l (k : Nat) x = .ok (setArr st a ((st.mem.arrs a).set k x)) := by
  have c1 : ¬ ((k : Int) < 0 ∨ (k : Int) ≥ l) := by omega
  simp only [writeIdx, if_neg c1, Int.toNat_natCast, setArr]

theorem evalE_index_ok (e i : Expr PName) (a l c k : Nat)
    (he : evalE cmpF sf callH ρ st e = .ok (.slice (some a) l c, st))
    (hi : evalE cmpF sf callH ρ st i = .ok (.int (k : Nat), st)) (hk : k < l) :
    evalE cmpF sf callH ρ st (.index e i) = .ok (.int ((st.mem.arrs a).getD k 0), st) := by
  simp only [evalE, he, hi, readIdx_ok st a l k hk]

theorem exec_setIndex_ok (s i v : Expr PName) (a l c k : Nat) (x : Int)
    (hs : evalE cmpF sf callH ρ st s = .ok (.slice (some a) l c, st))
    (hi : evalE cmpF sf callH ρ st i = .ok (.int (k : Nat), st))
    (hv : evalE cmpF sf callH ρ st v = .ok (.int x, st)) (hk : k < l) :
    exec cmpF sf callH lf ρ st (.setIndex s i v) = .ok (.normal, ρ, setArr st a ((st.mem.arrs a).set k x)) := by
  simp only [exec_setIndex, hs, hi, hv, writeIdx_ok st a l k x hk]

theorem exec_swap_ok (s i j : Expr PName) (a l c ki kj : Nat)
    (hs : evalE cmpF sf callH ρ st s = .ok (.slice (some a) l c, st))
    (hi : evalE cmpF sf callH ρ st i = .ok (.int (ki : Nat), st))
    (hj : evalE cmpF sf callH ρ st j = .ok (.int (kj : Nat), st)) (hki : ki < l) (hkj : kj < l) :
    exec cmpF sf callH lf ρ st (.swap s i j) = .ok (.normal, ρ,
      setArr st a (((st.mem.arrs a).set ki ((st.mem.arrs a).getD kj 0)).set kj ((st.mem.arrs a).getD ki 0))) := by
  simp only [exec_swap, hs, hi, hj, readIdx_ok st a l ki hki, readIdx_ok st a l kj hkj, writeIdx_ok st a l ki _ hki,
    writeIdx_ok _ a l kj _ hkj, setArr_arrs, setArr_setArr]

end rules

/-- run the first statement of a sequence to a stated normal outcome -/
macro "step " ρ:term " , " s:term : tactic =>
  `(tactic| refine (seq_normal (ρ1 := $ρ) (st1 := $s) _ _ _ _ _ _ ?_).trans ?_)

theorem tdiv2 (n : Nat) : Int.tdiv (n : Int) 2 = ((n / 2 : Nat) : Int) := by
  rw [Int.tdiv_eq_ediv_of_nonneg (by omega)]; omega

theorem take_get {A : List Int} {L k : Nat} {x : Int} (h : (A.take L)[k]? = some x) : k < L ∧ A.getD k 0 = x := by
  rw [List.getElem?_take] at h
  by_cases hk : k < L
  · rw [if_pos hk] at h
    exact ⟨hk, by rw [List.getD_eq_getElem?_getD, h]; rfl⟩
  · rw [if_neg hk] at h; cases h

/-! ### the small methods, under the real call handler -/

section calls
variable (cmp : Int → Int → Int)

theorem call_succ (f : Nat) (fn : PName) (args : List Val) (st : St) :
    call cmp procs (f + 1) fn args st = runBody cmp f (call cmp procs f) f (procs fn) args st := rfl

theorem isEmpty_spec (f : Nat) (st : St) (arr : Option Nat) (l c : Nat) (hd : st.data = .slice arr l c) :
    call cmp procs (f + 1) .isEmpty [] st = .ok (.bool (decide ((l : Int) < 2)), st) := by
  simp only [call_succ, runBody, procs, body_isEmpty, exec_ret, evalE, hd, BinOp.apply]

theorem Len_spec (f : Nat) (st : St) (arr : Option Nat) (l c : Nat) (hd : st.data = .slice arr l c) :
    call cmp procs (f + 1) .Len [] st = .ok (.int ((l : Int) - 1), st) := by
  simp only [call_succ, runBody, procs, body_Len, exec_ret, evalE, hd, BinOp.apply]

theorem Cap_spec (f : Nat) (st : St) : call cmp procs (f + 1) .Cap [] st = .ok (.int st.capacity, st) := by
  simp only [call_succ, runBody, procs, body_Cap, exec_ret, evalE]

theorem IsBoundless_spec (f : Nat) (st : St) :
    call cmp procs (f + 1) .IsBoundless [] st = .ok (.bool (decide (st.capacity ≤ 0)), st) := by
  simp only [call_succ, runBody, procs, body_IsBoundless, exec_ret, evalE, BinOp.apply]

theorem isFull_spec (f : Nat) (st : St) (arr : Option Nat) (l c : Nat) (hd : st.data = .slice arr l c) :
    call cmp procs (f + 1) .isFull [] st =
      .ok (.bool (decide (st.capacity > 0) && ((l : Int) - 1 == st.capacity)), st) := by
  by_cases h : st.capacity > 0
  · simp only [call_succ, runBody, procs, body_isFull, exec_ret, evalE, hd, BinOp.apply, decide_eq_true h, Bool.true_and]
  · simp only [call_succ, runBody, procs, body_isFull, exec_ret, evalE, BinOp.apply, decide_eq_false h, Bool.false_and]

/-! ### NewPriorityQueue -/

/-- the state the constructor leaves: a fresh zeroed array of `k` slots, `len(data) = 1` -/
def newSt (st : St) (capacity : Int) (k : Nat) : St :=
  { mem := { st.mem with arrs := updA st.mem.arrs st.mem.alloc (List.replicate k 0), alloc := st.mem.alloc + 1 },
    capacity := capacity, data := .slice (some st.mem.alloc) 1 k }

theorem new_sim (capacity : Int) (compare : Val) (st : St) (fuel : Nat) (hf : 1 ≤ fuel) :
    ∃ v st', call cmp procs fuel .NewPriorityQueue [.int capacity, compare] st = .ok (v, st') ∧
      Rel st' (Ekit.Heap.PQ.new capacity) ∧ st'.mem.grow = st.mem.grow := by
  obtain ⟨f, rfl⟩ : ∃ f, fuel = f + 1 := ⟨fuel - 1, by omega⟩
  by_cases h : capacity < 1
  · refine ⟨.int 0, newSt st 0 64, ?_, ?_, rfl⟩
    · simp [call_succ, runBody, procs, body_NewPriorityQueue, exec_seq, exec_assign, exec_ite, exec_setCapacity,
        exec_setData, exec_ret, evalE, BinOp.apply, ofArgs_apply, set_apply, h, newSt]
    · simp only [Ekit.Heap.PQ.new, if_pos h]
      refine ⟨rfl, st.mem.alloc, rfl, ?_, by decide, ?_, ?_⟩
      · show (updA _ _ _ _).length = 64
        rw [updA_same, List.length_replicate]
      · show st.mem.alloc < st.mem.alloc + 1
        omega
      · show (updA _ _ _ _).take 1 = [0]
        rw [updA_same]; rfl
  · have h1 : ¬ capacity + 1 < 1 := by omega
    refine ⟨.int 0, newSt st capacity (capacity + 1).toNat, ?_, ?_, rfl⟩
    · simp [call_succ, runBody, procs, body_NewPriorityQueue, exec_seq, exec_assign, exec_ite, exec_setCapacity,
        exec_setData, exec_ret, exec_skip, evalE, BinOp.apply, ofArgs_apply, set_apply, h, h1, newSt]
    · simp only [Ekit.Heap.PQ.new, if_neg h]
      obtain ⟨k, hk⟩ : ∃ k : Nat, (capacity + 1).toNat = k + 1 := ⟨(capacity + 1).toNat - 1, by omega⟩
      refine ⟨rfl, st.mem.alloc, rfl, ?_, ?_, ?_, ?_⟩
      · show (updA _ _ _ _).length = _
        rw [updA_same, List.length_replicate]
      · show 1 ≤ (capacity + 1).toNat
        omega
      · show st.mem.alloc < st.mem.alloc + 1
        omega
      · show (updA _ _ _ _).take 1 = [0]
        rw [updA_same, hk]; rfl

end calls

/-- how a model result appears as a MiniGo value -/
def OutIs : Ekit.Heap.Out → Val → Prop
  | .ok .unit, v => v = .nilErr
  | .ok (.val x), v => v = .pair (.int x) .nilErr
  | .ok (.int n), v => v = .int n
  | .ok (.bool b), v => v = .bool b
  | .err e, v => (e = errCap ∧ v = .errIdx 1 (-1)) ∨ (e = errEmpty ∧ v = .pair (.int 0) (.errIdx 2 (-1)))
  | .panic _, _ => False

/-! ### Enqueue: the sift-up loop -/

section enqueue
variable (cmp : Int → Int → Int) (sf : Nat) (callH : CallH PName) (lf : Nat)

abbrev siftCond : Expr PName :=
  .and (.bin .gt (.var 2) (.int 0)) (.bin .lt (.cmp (.index .data (.var 1)) (.index .data (.var 2))) (.int 0))
abbrev siftBody : Stmt PName :=
  .seq (.swap .data (.var 2) (.var 1)) (.seq (.assign 1 (.var 2)) (.assign 2 (.bin .div (.var 2) (.int 2))))

theorem sift_cond (ρ : Env) (st : St) (a L c node parent : Nat) (hd : st.data = .slice (some a) L c)
    (h1 : ρ 1 = .int node) (h2 : ρ 2 = .int parent) (hn : parent > 0 → node < L ∧ parent < L) :
    evalE cmp sf callH ρ st siftCond =
      .ok (.bool (decide (parent > 0) &&
        decide (cmp ((st.mem.arrs a).getD node 0) ((st.mem.arrs a).getD parent 0) < 0)), st) := by
  by_cases hp : parent > 0
  · have hg : decide ((parent : Int) > 0) = true := decide_eq_true (by omega)
    simp only [evalE, hd, h1, h2, BinOp.apply, hg, readIdx_ok st a L node (hn hp).1, readIdx_ok st a L parent (hn hp).2,
      decide_eq_true hp, Bool.true_and]
  · have hg : decide ((parent : Int) > 0) = false := decide_eq_false (by omega)
    simp only [evalE, h2, BinOp.apply, hg, decide_eq_false hp, Bool.false_and]

theorem sift_body (ρ : Env) (st : St) (a L c node parent : Nat) (hd : st.data = .slice (some a) L c)
    (h1 : ρ 1 = .int node) (h2 : ρ 2 = .int parent) (hn : node < L) (hp : parent < L) :
    exec cmp sf callH lf ρ st siftBody =
      .ok (.normal, (ρ.set 1 (.int parent)).set 2 (.int ((parent / 2 : Nat) : Int)),
        setArr st a (((st.mem.arrs a).set parent ((st.mem.arrs a).getD node 0)).set node ((st.mem.arrs a).getD parent 0))) := by
  have hs := exec_swap_ok cmp sf callH lf ρ st .data (.var 2) (.var 1) a L c parent node (by simp only [evalE, hd])
    (by simp only [evalE, h2]) (by simp only [evalE, h1]) hp hn
  have h20 : ¬ ((2 : Int) = 0) := by decide
  rw [seq_normal _ _ _ _ _ _ hs]
  simp only [exec_seq, exec_assign, evalE, h2, set_apply, BinOp.apply, if_neg h20, tdiv2, if_false, (by decide : (2:Nat) ≠ 1)]

theorem sift_loop (a L c : Nat) : ∀ (k n node : Nat) (ρ : Env) (st : St) (d' : List Int),
    st.data = .slice (some a) L c → ρ 1 = .int node → ρ 2 = .int ((node / 2 : Nat) : Int) →
    siftUp cmp k ((st.mem.arrs a).take L) node = some d' → k ≤ n →
    ∃ ρ' A', iterate (fun ρ st => evalE cmp sf callH ρ st siftCond) (fun ρ st => exec cmp sf callH lf ρ st siftBody)
        n ρ st = .ok (.normal, ρ', setArr st a A') ∧ A'.take L = d' ∧ A'.length = (st.mem.arrs a).length := by
  intro k
  induction k with
  | zero => intro n node ρ st d' _ _ _ h; simp [siftUp] at h
  | succ k ih =>
    intro n node ρ st d' hd h1 h2 h hn
    obtain ⟨n, rfl⟩ : ∃ m, n = m + 1 := ⟨n - 1, by omega⟩
    simp only [siftUp] at h
    have stop : ∀ (hc : (decide (node / 2 > 0) &&
          decide (cmp ((st.mem.arrs a).getD node 0) ((st.mem.arrs a).getD (node / 2) 0) < 0)) = false)
        (hb : node / 2 > 0 → node < L ∧ node / 2 < L) (e : d' = (st.mem.arrs a).take L),
        ∃ ρ' A', iterate (fun ρ st => evalE cmp sf callH ρ st siftCond)
          (fun ρ st => exec cmp sf callH lf ρ st siftBody) (n + 1) ρ st = .ok (.normal, ρ', setArr st a A') ∧
          A'.take L = d' ∧ A'.length = (st.mem.arrs a).length := by
      intro hc hb e
      refine ⟨ρ, st.mem.arrs a, ?_, e.symm, rfl⟩
      simp only [iterate, sift_cond cmp sf callH ρ st a L c node (node / 2) hd h1 h2 hb, hc, setArr_self]
    by_cases hp : node / 2 > 0
    · rw [if_pos hp] at h
      split at h
      · next x y hx hy =>
        obtain ⟨hnL, hxe⟩ := take_get hx
        obtain ⟨hpL, hye⟩ := take_get hy
        by_cases hc : cmp x y < 0
        · rw [if_pos hc] at h
          let A1 := ((st.mem.arrs a).set (node / 2) ((st.mem.arrs a).getD node 0)).set node ((st.mem.arrs a).getD (node / 2) 0)
          have hA1 : (setArr st a A1).mem.arrs a = A1 := setArr_arrs _ _ _
          obtain ⟨ρ', A', e, hA, hB⟩ := ih n (node / 2) ((ρ.set 1 (.int ((node / 2 : Nat) : Int))).set 2 (.int ((node / 2 / 2 : Nat) : Int)))
            (setArr st a A1) d' hd (by simp [set_apply]) (by simp [set_apply])
            (by rw [hA1]; simp only [A1, List.take_set, hxe, hye]; exact h) (by omega)
          refine ⟨ρ', A', ?_, hA, ?_⟩
          · have hc' : cmp ((st.mem.arrs a).getD node 0) ((st.mem.arrs a).getD (node / 2) 0) < 0 := by rw [hxe, hye]; exact hc
            simp only [iterate, sift_cond cmp sf callH ρ st a L c node (node / 2) hd h1 h2 (fun _ => ⟨hnL, hpL⟩),
              decide_eq_true hp, decide_eq_true hc', Bool.true_and,
              sift_body cmp sf callH lf ρ st a L c node (node / 2) hd h1 h2 hnL hpL]
            rw [← setArr_setArr st a A1 A']
            exact e
          · rw [hB, hA1]; simp only [A1, List.length_set]
        · rw [if_neg hc] at h
          refine stop ?_ (fun _ => ⟨hnL, hpL⟩) (by cases h; rfl)
          rw [hxe, hye, decide_eq_false hc, Bool.and_false]
      · cases h
    · rw [if_neg hp] at h
      refine stop ?_ (fun hh => absurd hh hp) (by cases h; rfl)
      rw [decide_eq_false hp, Bool.false_and]

/-- `append(p.data, t)` in both regimes -/
theorem append_one (m : SL.St) (a c : Nat) (d : List Int) (t : Int) (hlen : (m.arrs a).length = c) (hle : d.length ≤ c)
    (hal : a < m.alloc) (htk : (m.arrs a).take d.length = d) (g : Nat) (rest : List Nat) (hg : m.grow = g :: rest)
    (hroom : d.length + 1 ≤ g) :
    ∃ a1 c1 m1, appendVals m (some a) d.length c [t] = .ok (.slice (some a1) (d.length + 1) c1, m1) ∧
      (m1.arrs a1).length = c1 ∧ d.length + 1 ≤ c1 ∧ a1 < m1.alloc ∧ (m1.arrs a1).take (d.length + 1) = d ++ [t] ∧
      (GoSlice.mk d c).append [t] g = ⟨d ++ [t], c1⟩ ∧ (m1.grow = g :: rest ∨ m1.grow = rest) := by
  have hvl1 : (d ++ [t]).length = d.length + 1 := by rw [List.length_append]; rfl
  by_cases hlt : d.length < c
  · obtain ⟨m1, hA, hB, hC, hD, hE⟩ := appendVals_fit m a d.length c [t] (by show d.length + 1 ≤ c; omega)
    rw [htk] at hB
    refine ⟨a, c, m1, hA, ?_, by omega, by omega, ?_, ?_, Or.inl (hE.trans hg)⟩
    · rw [hB]; simp only [List.length_append, List.length_drop, List.length_cons, List.length_nil, hlen]; omega
    · rw [hB, List.take_left' hvl1]
    · have : d.length + 1 ≤ c := by omega
      simp only [GoSlice.append, List.length_cons, List.length_nil, Nat.zero_add, if_pos this]
  · have hA := appendVals_grow m a d.length c t [] (by show ¬ d.length + 1 ≤ c; omega) g rest hg hroom
    rw [htk] at hA
    refine ⟨m.alloc, g, _, hA, ?_, hroom, ?_, ?_, ?_, Or.inr rfl⟩
    · simp only [updA_same, List.length_append, List.length_replicate, List.length_cons, List.length_nil]; omega
    · show m.alloc < m.alloc + 1; omega
    · simp only [updA_same]; rw [List.take_left' hvl1]
    · have : ¬ d.length + 1 ≤ c := by omega
      simp only [GoSlice.append, List.length_cons, List.length_nil, Nat.zero_add, if_neg this]

theorem isFull_rel (cmp : Int → Int → Int) (f : Nat) (st : St) (q : Ekit.Heap.PQ) (hR : Rel st q) :
    call cmp procs (f + 1) .isFull [] st = .ok (.bool q.isFull, st) := by
  obtain ⟨hcap, a, hd, -⟩ := hR
  rw [isFull_spec cmp f st _ _ _ hd, hcap]; rfl

theorem Enqueue_sim (cmp : Int → Int → Int) (st : St) (q : Ekit.Heap.PQ) (hR : Rel st q) (t : Int) (g : Nat) (rest : List Nat)
    (hg : st.mem.grow = g :: rest) (hroom : q.data.vals.length + 1 ≤ g) (f : Nat) (hf : q.data.vals.length + 2 ≤ f)
    (q' : Ekit.Heap.PQ) (out : Ekit.Heap.Out) (h : Ekit.Heap.step cmp q g (.enqueue t) = (q', out)) (hnp : ∀ m, out ≠ .panic m) :
    ∃ v st', call cmp procs (f + 1) .Enqueue [.int t] st = .ok (v, st') ∧ Rel st' q' ∧ OutIs out v ∧
      (st'.mem.grow = g :: rest ∨ st'.mem.grow = rest) := by
  obtain ⟨f, rfl⟩ : ∃ m, f = m + 1 := ⟨f - 1, by omega⟩
  have hfull := isFull_rel cmp f st q hR
  obtain ⟨cap0, ⟨d, c⟩⟩ := q
  obtain ⟨hcap, a, hd, hlen, hle, hal, htk⟩ := hR
  simp only at hcap hd hlen hle hal htk hroom hf
  simp only [Ekit.Heap.step] at h
  generalize hρ0 : Env.ofArgs [Val.int t] = ρ0
  have a0 : ρ0 0 = .int t := by rw [← hρ0]; rfl
  rw [call_succ]
  simp only [runBody, procs, hρ0]
  by_cases hF : Ekit.Heap.PQ.isFull ⟨cap0, ⟨d, c⟩⟩ = true
  · rw [if_pos hF] at h
    cases h
    rw [hF] at hfull
    refine ⟨.errIdx 1 (-1), st, ?_, ⟨hcap, a, hd, hlen, hle, hal, htk⟩, Or.inl ⟨rfl, rfl⟩, Or.inl hg⟩
    have : exec cmp (f + 1) (call cmp procs (f + 1)) (f + 1) ρ0 st body_Enqueue = .ok (.ret (.errIdx 1 (-1)), ρ0, st) := by
      unfold body_Enqueue
      refine seq_ret _ _ _ _ _ _ ?_
      simp only [exec_ite, evalE, hfull, exec_ret]
      rfl
    rw [this]
  · rw [if_neg hF] at h
    have hF' : Ekit.Heap.PQ.isFull ⟨cap0, ⟨d, c⟩⟩ = false := by simpa using hF
    rw [hF'] at hfull
    obtain ⟨a1, c1, m1, hA, hl1, hle1, hal1, htk1, hM, hG⟩ := append_one st.mem a c d t hlen hle hal htk g rest hg hroom
    simp only [hM, List.length_append, List.length_cons, List.length_nil, Nat.zero_add, Nat.add_sub_cancel] at h
    cases hs : siftUp cmp (d.length + 1) (d ++ [t]) d.length with
    | none =>
      rw [hs] at h
      cases h
      exact absurd rfl (hnp _)
    | some d' =>
      rw [hs] at h
      cases h
      let st1 : St := { mem := m1, capacity := st.capacity, data := .slice (some a1) (d.length + 1) c1 }
      have hd1 : st1.data = .slice (some a1) (d.length + 1) c1 := rfl
      let ρ2 : Env := (ρ0.set 1 (.int (d.length : Nat))).set 2 (.int ((d.length / 2 : Nat) : Int))
      obtain ⟨ρ', A', el, hA', hB'⟩ := sift_loop cmp (f + 1) (call cmp procs (f + 1)) (f + 1) a1 (d.length + 1) c1 (d.length + 1) (f + 1) d.length
        ρ2 st1 d' hd1 (by simp [ρ2, set_apply]) (by simp [ρ2, set_apply]) (by show siftUp cmp _ ((m1.arrs a1).take _) _ = _; rw [htk1]; exact hs)
        (by omega)
      have hl' : A'.length = c1 := hB'.trans hl1
      have hdl : d'.length = d.length + 1 := by rw [← hA', List.length_take, hl']; omega
      refine ⟨.nilErr, setArr st1 a1 A', ?_, ⟨hcap, a1, ?_, ?_, ?_, hal1, ?_⟩, rfl, hG⟩
      · have : exec cmp (f + 1) (call cmp procs (f + 1)) (f + 1) ρ0 st body_Enqueue = .ok (.ret .nilErr, ρ', setArr st1 a1 A') := by
          unfold body_Enqueue
          step ρ0, st
          · simp only [exec_ite, evalE, hfull, exec_skip]
          step ρ0, st1
          · simp only [exec_setData, evalE, hd, a0, hA, st1]
          step ρ2, st1
          · have e1 : ((d.length + 1 : Nat) : Int) - 1 = (d.length : Nat) := by omega
            have h20 : ¬ ((2 : Int) = 0) := by decide
            simp only [exec_seq, exec_assign, evalE, hd1, BinOp.apply, e1, if_neg h20, tdiv2, ρ2]
          step ρ', setArr st1 a1 A'
          · rw [exec_loop]; exact el
          simp only [exec_ret, evalE]
        rw [this]
      · show (setArr st1 a1 A').data = .slice (some a1) d'.length c1
        rw [hdl]; rfl
      · show ((setArr st1 a1 A').mem.arrs a1).length = c1
        rw [setArr_arrs]; exact hl'
      · show d'.length ≤ c1
        omega
      · show ((setArr st1 a1 A').mem.arrs a1).take d'.length = d'
        rw [setArr_arrs, hdl]; exact hA'

end enqueue

/-! ### heapify: the `for {}` loop with `break` -/

section heapify
variable (cmp : Int → Int → Int) (sf : Nat) (callH : CallH PName) (lf : Nat)

theorem set_self (ρ : Env) (x : Nat) (v : Val) (h : ρ x = v) : ρ.set x v = ρ := by
  funext y
  simp only [set_apply]
  split
  · next e => rw [e, h]
  · rfl

/-- `if cand <= n && compare(data[cand], data[minPos]) < 0 { minPos = cand }` with `cand` in variable `cv` -/
abbrev pickStmt (cv : Nat) : Stmt PName :=
  .ite (.and (.bin .le (.var cv) (.var 1)) (.bin .lt (.cmp (.index (.var 0) (.var cv)) (.index (.var 0) (.var 3))) (.int 0)))
    (.assign 3 (.var cv)) .skip

theorem pick_exec (cv : Nat) (ρ : Env) (st : St) (a L c n cand minPos m : Nat) (h0 : ρ 0 = .slice (some a) L c)
    (h1 : ρ 1 = .int n) (h3 : ρ 3 = .int minPos) (hcv : ρ cv = .int cand)
    (hp : pick cmp ((st.mem.arrs a).take L) n cand minPos = some m) :
    exec cmp sf callH lf ρ st (pickStmt cv) = .ok (.normal, ρ.set 3 (.int m), st) := by
  unfold pick at hp
  by_cases hle : cand ≤ n
  · rw [if_pos hle] at hp
    have hdle : decide ((cand : Int) ≤ n) = true := decide_eq_true (by omega)
    split at hp
    · next x y hx hy =>
      obtain ⟨hcL, hxe⟩ := take_get hx
      obtain ⟨hmL, hye⟩ := take_get hy
      by_cases hc : cmp x y < 0
      · rw [if_pos hc] at hp
        cases hp
        have hc' : cmp ((st.mem.arrs a).getD cand 0) ((st.mem.arrs a).getD minPos 0) < 0 := by rw [hxe, hye]; exact hc
        simp only [exec_ite, evalE, h0, h1, h3, hcv, BinOp.apply, hdle, readIdx_ok st a L cand hcL,
          readIdx_ok st a L minPos hmL, decide_eq_true hc', exec_assign]
      · rw [if_neg hc] at hp
        cases hp
        have hc' : ¬ cmp ((st.mem.arrs a).getD cand 0) ((st.mem.arrs a).getD minPos 0) < 0 := by rw [hxe, hye]; exact hc
        simp only [exec_ite, evalE, h0, h1, h3, hcv, BinOp.apply, hdle, readIdx_ok st a L cand hcL,
          readIdx_ok st a L minPos hmL, decide_eq_false hc', exec_skip, set_self ρ 3 _ h3]
    · cases hp
  · rw [if_neg hle] at hp
    cases hp
    have hdle : decide ((cand : Int) ≤ n) = false := decide_eq_false (by omega)
    simp only [exec_ite, evalE, h1, hcv, BinOp.apply, hdle, exec_skip, set_self ρ 3 _ h3]

abbrev heapRest : Stmt PName :=
  .seq (.ite (.bin .eq (.var 3) (.var 2)) .break_ .skip) (.seq (.swap (.var 0) (.var 2) (.var 3)) (.assign 2 (.var 3)))
abbrev heapBody : Stmt PName :=
  .seq (.seq (.assign 4 (.bin .add (.var 2) (.var 2))) (pickStmt 4))
    (.seq (.seq (.assign 5 (.bin .add (.bin .add (.var 2) (.var 2)) (.int 1))) (pickStmt 5)) heapRest)

/-- the environment after the two `if`s -/
def envD (ρ : Env) (i m1 m2 : Nat) : Env :=
  (((ρ.set 4 (.int ((i * 2 : Nat) : Int))).set 3 (.int m1)).set 5 (.int ((i * 2 + 1 : Nat) : Int))).set 3 (.int m2)

theorem heap_pre (ρ : Env) (st : St) (a L c n i m1 m2 : Nat) (h0 : ρ 0 = .slice (some a) L c)
    (h1 : ρ 1 = .int n) (h2 : ρ 2 = .int i) (h3 : ρ 3 = .int i)
    (hp1 : pick cmp ((st.mem.arrs a).take L) n (i * 2) i = some m1)
    (hp2 : pick cmp ((st.mem.arrs a).take L) n (i * 2 + 1) m1 = some m2) :
    exec cmp sf callH lf ρ st heapBody = exec cmp sf callH lf (envD ρ i m1 m2) st heapRest := by
  have e1 : (i : Int) + i = ((i * 2 : Nat) : Int) := by omega
  have e2 : ((i * 2 : Nat) : Int) + 1 = ((i * 2 + 1 : Nat) : Int) := by omega
  step (ρ.set 4 (.int ((i * 2 : Nat) : Int))).set 3 (.int m1), st
  · step ρ.set 4 (.int ((i * 2 : Nat) : Int)), st
    · simp only [exec_assign, evalE, h2, BinOp.apply, e1]
    exact pick_exec cmp sf callH lf 4 _ st a L c n (i * 2) i m1 (by simp [set_apply, h0]) (by simp [set_apply, h1])
      (by simp [set_apply, h3]) (by simp [set_apply]) hp1
  step envD ρ i m1 m2, st
  · step ((ρ.set 4 (.int ((i * 2 : Nat) : Int))).set 3 (.int m1)).set 5 (.int ((i * 2 + 1 : Nat) : Int)), st
    · simp only [exec_assign, evalE, set_apply, h2, BinOp.apply, e1, e2, if_false,
        (by decide : (2 : Nat) ≠ 3), (by decide : (2 : Nat) ≠ 4)]
    exact pick_exec cmp sf callH lf 5 _ st a L c n (i * 2 + 1) m1 m2 (by simp [set_apply, h0]) (by simp [set_apply, h1])
      (by simp [set_apply]) (by simp [set_apply]) hp2
  rfl

theorem heap_loop (a L c n : Nat) : ∀ (k N i : Nat) (ρ : Env) (st : St) (d' : List Int),
    ρ 0 = .slice (some a) L c → ρ 1 = .int n → ρ 2 = .int i → ρ 3 = .int i →
    Ekit.Heap.heapify cmp k ((st.mem.arrs a).take L) n i = some d' → k ≤ N →
    ∃ ρ' A', iterate (fun ρ st => evalE cmp sf callH ρ st (.bool true)) (fun ρ st => exec cmp sf callH lf ρ st heapBody)
        N ρ st = .ok (.normal, ρ', setArr st a A') ∧ A'.take L = d' ∧ A'.length = (st.mem.arrs a).length := by
  intro k
  induction k with
  | zero => intro N i ρ st d' _ _ _ _ h; simp [Ekit.Heap.heapify] at h
  | succ k ih =>
    intro N i ρ st d' h0 h1 h2 h3 h hN
    obtain ⟨N, rfl⟩ : ∃ m, N = m + 1 := ⟨N - 1, by omega⟩
    simp only [Ekit.Heap.heapify] at h
    cases hp1 : pick cmp ((st.mem.arrs a).take L) n (i * 2) i with
    | none => rw [hp1] at h; cases h
    | some m1 =>
      rw [hp1] at h
      simp only at h
      cases hp2 : pick cmp ((st.mem.arrs a).take L) n (i * 2 + 1) m1 with
      | none => rw [hp2] at h; cases h
      | some m2 =>
        rw [hp2] at h
        simp only at h
        have hpre := heap_pre cmp sf callH lf ρ st a L c n i m1 m2 h0 h1 h2 h3 hp1 hp2
        have d0 : envD ρ i m1 m2 0 = .slice (some a) L c := by simp [envD, set_apply, h0]
        have d1 : envD ρ i m1 m2 1 = .int n := by simp [envD, set_apply, h1]
        have d2 : envD ρ i m1 m2 2 = .int i := by simp [envD, set_apply, h2]
        have d3 : envD ρ i m1 m2 3 = .int m2 := by simp [envD, set_apply]
        by_cases hm : m2 = i
        · rw [if_pos hm] at h
          cases h
          subst hm
          refine ⟨envD ρ m2 m1 m2, st.mem.arrs a, ?_, rfl, rfl⟩
          have hb : exec cmp sf callH lf ρ st heapBody = .ok (.brk, envD ρ m2 m1 m2, st) := by
            rw [hpre]
            refine seq_brk _ _ _ _ _ _ ?_
            simp only [exec_ite, evalE, d2, d3, BinOp.apply, beq_self_eq_true, exec_break]
          simp only [iterate, evalE, hb, setArr_self]
        · rw [if_neg hm] at h
          split at h
          · next x y hx hy =>
            obtain ⟨hiL, hxe⟩ := take_get hx
            obtain ⟨hmL, hye⟩ := take_get hy
            let A1 := ((st.mem.arrs a).set i ((st.mem.arrs a).getD m2 0)).set m2 ((st.mem.arrs a).getD i 0)
            have hA1 : (setArr st a A1).mem.arrs a = A1 := setArr_arrs _ _ _
            have hb : exec cmp sf callH lf ρ st heapBody = .ok (.normal, (envD ρ i m1 m2).set 2 (.int m2), setArr st a A1) := by
              rw [hpre]
              step envD ρ i m1 m2, st
              · have : ((m2 : Int) == (i : Int)) = false := beq_eq_false_iff_ne.mpr (by omega)
                simp only [exec_ite, evalE, d2, d3, BinOp.apply, this, exec_skip]
              step envD ρ i m1 m2, setArr st a A1
              · exact exec_swap_ok cmp sf callH lf _ st (.var 0) (.var 2) (.var 3) a L c i m2 (by simp only [evalE, d0])
                  (by simp only [evalE, d2]) (by simp only [evalE, d3]) hiL hmL
              simp only [exec_assign, evalE, d3]
            obtain ⟨ρ', A', e, hA, hB⟩ := ih N m2 ((envD ρ i m1 m2).set 2 (.int m2)) (setArr st a A1) d'
              (by simp [set_apply, d0]) (by simp [set_apply, d1]) (by simp [set_apply]) (by simp [set_apply, d3])
              (by rw [hA1]; simp only [A1, List.take_set, hxe, hye]; exact h) (by omega)
            refine ⟨ρ', A', ?_, hA, ?_⟩
            · simp only [iterate, evalE, hb]
              rw [← setArr_setArr st a A1 A']
              exact e
            · rw [hB, hA1]; simp only [A1, List.length_set]
          · cases h

end heapify

/-! ### heapify, shrinkIfNecessary, Dequeue, Peek under the real call handler -/

section dequeue
variable (cmp : Int → Int → Int)

theorem isEmpty_rel (f : Nat) (st : St) (q : Ekit.Heap.PQ) (hR : Rel st q) :
    call cmp procs (f + 1) .isEmpty [] st = .ok (.bool q.isEmpty, st) := by
  obtain ⟨hcap, a, hd, -⟩ := hR
  rw [isEmpty_spec cmp f st _ _ _ hd]
  have : decide ((q.data.vals.length : Int) < 2) = q.isEmpty := by
    unfold Ekit.Heap.PQ.isEmpty
    by_cases h : q.data.vals.length < 2
    · rw [decide_eq_true h]; exact decide_eq_true (by omega)
    · rw [decide_eq_false h]; exact decide_eq_false (by omega)
  rw [this]

theorem heapify_call (st : St) (q : Ekit.Heap.PQ) (hR : Rel st q) (k n F : Nat) (d' : List Int)
    (hh : Ekit.Heap.heapify cmp k q.data.vals n 1 = some d') (hk : k ≤ F) :
    ∃ st', call cmp procs (F + 1) .heapify [st.data, .int (n : Nat), .int 1] st = .ok (.unit, st') ∧
      Rel st' { q with data := { q.data with vals := d' } } ∧ st'.mem.grow = st.mem.grow := by
  obtain ⟨cap0, ⟨d, c⟩⟩ := q
  obtain ⟨hcap, a, hd, hlen, hle, hal, htk⟩ := hR
  simp only at hcap hd hlen hle hal htk hh
  generalize hρ0 : Env.ofArgs [st.data, Val.int (n : Nat), Val.int 1] = ρ0
  have a0 : ρ0 0 = .slice (some a) d.length c := by rw [← hρ0, ← hd]; rfl
  have a1 : ρ0 1 = .int n := by rw [← hρ0]; rfl
  have a2 : ρ0 2 = .int ((1 : Nat) : Int) := by rw [← hρ0]; rfl
  obtain ⟨ρ', A', el, hA', hB'⟩ := heap_loop cmp F (call cmp procs F) F a d.length c n k F 1 (ρ0.set 3 (.int ((1 : Nat) : Int))) st d'
    (by simp [set_apply, a0]) (by simp [set_apply, a1]) (by simp [set_apply, a2]) (by simp [set_apply])
    (by rw [htk]; exact hh) hk
  have hl' : A'.length = c := hB'.trans hlen
  have hdl : d'.length = d.length := by rw [← hA', List.length_take, hl']; omega
  refine ⟨setArr st a A', ?_, ⟨hcap, a, ?_, ?_, ?_, hal, ?_⟩, rfl⟩
  · have : exec cmp F (call cmp procs F) F ρ0 st body_heapify = .ok (.normal, ρ', setArr st a A') := by
      unfold body_heapify
      step ρ0.set 3 (.int ((1 : Nat) : Int)), st
      · simp only [exec_assign, evalE, a2]
      rw [exec_loop]; exact el
    simp only [call_succ, runBody, procs, hρ0, this]
  · show st.data = .slice (some a) d'.length c
    rw [hdl]; exact hd
  · show ((setArr st a A').mem.arrs a).length = c
    rw [setArr_arrs]; exact hl'
  · show d'.length ≤ c
    omega
  · show ((setArr st a A').mem.arrs a).take d'.length = d'
    rw [setArr_arrs, hdl]; exact hA'

theorem shrink_call (st : St) (q : Ekit.Heap.PQ) (hR : Rel st q) (g F : Nat) :
    match Ekit.Heap.shrinkIfNecessary q g with
    | .ok s => ∃ st', call cmp procs (F + 2) .shrinkIfNecessary [] st = .ok (.unit, st') ∧
        Rel st' { q with data := s } ∧ s.vals = q.data.vals ∧ st'.mem.grow = st.mem.grow
    | .err _ => False
    | .panic _ => True := by
  have hbl := IsBoundless_spec cmp F st
  obtain ⟨cap0, ⟨d, c⟩⟩ := q
  obtain ⟨hcap, a, hd, hlen, hle, hal, htk⟩ := hR
  simp only at hcap hd hlen hle hal htk
  rw [hcap] at hbl
  by_cases hb : cap0 ≤ 0
  · have hB : Ekit.Heap.PQ.isBoundless ⟨cap0, ⟨d, c⟩⟩ = true := decide_eq_true hb
    rw [decide_eq_true hb] at hbl
    simp only [Ekit.Heap.shrinkIfNecessary, hB, if_true]
    have hs := shrink_sim st.mem a d.length c ⟨hlen, hle, hal⟩ g (F + 1)
    have hv : view st.mem a d.length c = ⟨d, c⟩ := by simp only [view, htk]
    rw [hv] at hs
    cases hr : sliceShrink ⟨d, c⟩ g with
    | err e => rw [hr] at hs; exact hs
    | panic m => trivial
    | ok r =>
      rw [hr] at hs
      obtain ⟨a', m', hrun, ⟨w1, w2, w3⟩, hview, hvals, hfin⟩ := hs
      have hgrow : m'.grow = st.mem.grow := by
        split at hfin
        · exact hfin.2.2.2.1
        · exact hfin.2.2.2.2
      refine ⟨{ mem := m', capacity := st.capacity, data := .slice (some a') r.vals.length r.cap }, ?_,
        ⟨hcap, a', rfl, w1, w2, w3, ?_⟩, hvals, hgrow⟩
      · simp only [call_succ, runBody, procs, body_shrinkIfNecessary, exec_ite, evalE, hbl, exec_setData, hd, hrun]
      · have := congrArg GoSlice.vals hview
        exact this
  · have hB : Ekit.Heap.PQ.isBoundless ⟨cap0, ⟨d, c⟩⟩ = false := decide_eq_false hb
    rw [decide_eq_false hb] at hbl
    simp only [Ekit.Heap.shrinkIfNecessary, hB, Bool.false_eq_true, if_false]
    refine ⟨st, ?_, ⟨hcap, a, hd, hlen, hle, hal, htk⟩, trivial, rfl⟩
    simp only [call_succ, runBody, procs, body_shrinkIfNecessary, exec_ite, evalE, hbl, exec_skip]

theorem Dequeue_sim (st : St) (q : Ekit.Heap.PQ) (hR : Rel st q) (g : Nat) (f : Nat) (hf : q.data.vals.length + 2 ≤ f)
    (q' : Ekit.Heap.PQ) (out : Ekit.Heap.Out) (h : Ekit.Heap.step cmp q g .dequeue = (q', out)) (hnp : ∀ m, out ≠ .panic m) :
    ∃ v st', call cmp procs (f + 1) .Dequeue [] st = .ok (v, st') ∧ Rel st' q' ∧ OutIs out v ∧
      st'.mem.grow = st.mem.grow := by
  obtain ⟨F, rfl⟩ : ∃ m, f = m + 2 := ⟨f - 2, by omega⟩
  have hemp := isEmpty_rel cmp (F + 1) st q hR
  obtain ⟨cap0, ⟨d, c⟩⟩ := q
  have hR0 := hR
  obtain ⟨hcap, a, hd, hlen, hle, hal, htk⟩ := hR
  simp only at hcap hd hlen hle hal htk hf
  simp only [Ekit.Heap.step] at h
  generalize hρ0 : Env.ofArgs ([] : List Val) = ρ0
  rw [call_succ]
  simp only [runBody, procs, hρ0]
  by_cases hE : Ekit.Heap.PQ.isEmpty ⟨cap0, ⟨d, c⟩⟩ = true
  · rw [if_pos hE] at h
    cases h
    rw [hE] at hemp
    refine ⟨.pair (.int 0) (.errIdx 2 (-1)), st, ?_, hR0, Or.inr ⟨rfl, rfl⟩, rfl⟩
    have : exec cmp (F + 2) (call cmp procs (F + 2)) (F + 2) ρ0 st body_Dequeue =
        .ok (.ret (.pair (.int 0) (.errIdx 2 (-1))), ρ0.set 0 (.int 0), st) := by
      unfold body_Dequeue
      refine seq_ret _ _ _ _ _ _ ?_
      simp only [exec_ite, evalE, hemp, exec_seq, exec_assign, exec_ret2, set_apply, if_true]
      rfl
    rw [this]
  · rw [if_neg hE] at h
    have hE' : Ekit.Heap.PQ.isEmpty ⟨cap0, ⟨d, c⟩⟩ = false := by simpa using hE
    rw [hE'] at hemp
    have hL : 2 ≤ d.length := by
      have : ¬ d.length < 2 := by simpa [Ekit.Heap.PQ.isEmpty] using hE
      omega
    split at h
    · next pop last hpop hlast =>
      have hpop' : ((st.mem.arrs a).take d.length)[1]? = some pop := by rw [htk]; exact hpop
      have hlast' : ((st.mem.arrs a).take d.length)[d.length - 1]? = some last := by rw [htk]; exact hlast
      obtain ⟨-, hpe⟩ := take_get hpop'
      obtain ⟨-, hle'⟩ := take_get hlast'
      -- the state after `p.data[1] = last; p.data = p.data[:len-1]`
      let st4 : St := { setArr st a ((st.mem.arrs a).set 1 last) with data := .slice (some a) (d.length - 1) c }
      let q1 : Ekit.Heap.PQ := ⟨cap0, ⟨(d.set 1 last).take (d.length - 1), c⟩⟩
      have hq1l : ((d.set 1 last).take (d.length - 1)).length = d.length - 1 := by
        rw [List.length_take, List.length_set]; omega
      have hR1 : Rel st4 q1 := by
        refine ⟨hcap, a, ?_, ?_, ?_, hal, ?_⟩
        · show Val.slice (some a) (d.length - 1) c = .slice (some a) ((d.set 1 last).take (d.length - 1)).length c
          rw [hq1l]
        · show ((setArr st a ((st.mem.arrs a).set 1 last)).mem.arrs a).length = c
          rw [setArr_arrs, List.length_set]; exact hlen
        · show ((d.set 1 last).take (d.length - 1)).length ≤ c
          rw [hq1l]; omega
        · show ((setArr st a ((st.mem.arrs a).set 1 last)).mem.arrs a).take ((d.set 1 last).take (d.length - 1)).length =
            (d.set 1 last).take (d.length - 1)
          rw [setArr_arrs, hq1l]
          have e : d.set 1 last = ((st.mem.arrs a).set 1 last).take d.length := by rw [List.take_set, htk]
          rw [e, List.take_take, Nat.min_eq_left (by omega)]
      have hsc := shrink_call cmp st4 q1 hR1 g F
      have h' : (match Ekit.Heap.shrinkIfNecessary q1 g with
          | .ok s =>
            match Ekit.Heap.heapify cmp s.vals.length s.vals (s.vals.length - 1) 1 with
            | some d' => (({ capacity := cap0, data := { s with vals := d' } } : Ekit.Heap.PQ), (Outcome.ok (Ret.val pop) : Ekit.Heap.Out))
            | none => ({ capacity := cap0, data := s }, .panic "index out of range")
          | .err e => (q1, .err e)
          | .panic m => (q1, .panic m)) = (q', out) := h
      clear h
      cases hsh : Ekit.Heap.shrinkIfNecessary q1 g with
      | err e => rw [hsh] at hsc; exact hsc.elim
      | panic m => rw [hsh] at h'; exact absurd (Prod.mk.inj h').2.symm (hnp _)
      | ok s =>
        rw [hsh] at hsc h'
        simp only at h'
        obtain ⟨st5, hc5, hR5, hsv, hg5⟩ := hsc
        have hsl : s.vals.length = d.length - 1 := by rw [hsv]; exact hq1l
        cases hh : Ekit.Heap.heapify cmp s.vals.length s.vals (s.vals.length - 1) 1 with
        | none => rw [hh] at h'; cases h'; exact absurd rfl (hnp _)
        | some d' =>
          rw [hh] at h'
          cases h'
          obtain ⟨st6, hc6, hR6, hg6⟩ := heapify_call cmp st5 ⟨cap0, s⟩ hR5 s.vals.length (s.vals.length - 1) (F + 1) d' hh (by omega)
          obtain ⟨-, a5, hd5, -⟩ := hR5
          simp only at hd5
          refine ⟨.pair (.int pop) .nilErr, st6, ?_, hR6, rfl, ?_⟩
          · have e1 : ((d.length : Nat) : Int) - 1 = ((d.length - 1 : Nat) : Int) := by omega
            have e5 : ((s.vals.length : Nat) : Int) - 1 = ((s.vals.length - 1 : Nat) : Int) := by omega
            have hsub : evalE cmp (F + 2) (call cmp procs (F + 2)) (ρ0.set 1 (.int pop)) st
                (.bin .sub (.len .data) (.int 1)) = .ok (.int ((d.length - 1 : Nat) : Int), st) := by
              simp only [evalE, hd, BinOp.apply, e1]
            have hdat : ∀ ρ, evalE cmp (F + 2) (call cmp procs (F + 2)) ρ st .data = .ok (.slice (some a) d.length c, st) := by
              intro ρ; simp only [evalE, hd]
            have : exec cmp (F + 2) (call cmp procs (F + 2)) (F + 2) ρ0 st body_Dequeue =
                .ok (.ret (.pair (.int pop) .nilErr), ρ0.set 1 (.int pop), st6) := by
              unfold body_Dequeue
              step ρ0, st
              · simp only [exec_ite, evalE, hemp, exec_skip]
              step ρ0.set 1 (.int pop), st
              · rw [exec_assign, evalE_index_ok cmp _ _ ρ0 st .data (.int 1) a d.length c 1 (hdat _) rfl (by omega), hpe]
              step ρ0.set 1 (.int pop), setArr st a ((st.mem.arrs a).set 1 last)
              · have hidx := evalE_index_ok cmp (F + 2) (call cmp procs (F + 2)) (ρ0.set 1 (.int pop)) st .data
                  (.bin .sub (.len .data) (.int 1)) a d.length c (d.length - 1) (hdat _) hsub (by omega)
                rw [hle'] at hidx
                exact exec_setIndex_ok cmp _ _ _ _ st .data (.int 1) _ a d.length c 1 last (hdat _) rfl hidx (by omega)
              step ρ0.set 1 (.int pop), st4
              · have hd3 : (setArr st a ((st.mem.arrs a).set 1 last)).data = .slice (some a) d.length c := hd
                have c1 : ¬ (((d.length - 1 : Nat) : Int) < 0 ∨ ((d.length - 1 : Nat) : Int) > (c : Nat)) := by omega
                simp only [exec_setData, evalE, hd3, BinOp.apply, if_neg c1, e1, Int.toNat_natCast, st4]
              step ρ0.set 1 (.int pop), st5
              · simp only [exec_expr, evalE, hc5]
              step ρ0.set 1 (.int pop), st6
              · have hc6' : call cmp procs (F + 2) .heapify [.slice (some a5) s.vals.length s.cap, .int ((s.vals.length - 1 : Nat) : Int), .int 1] st5
                    = .ok (.unit, st6) := by rw [← hd5]; exact hc6
                simp only [exec_expr, evalE, hd5, BinOp.apply, e5, hc6']
              simp only [exec_ret2, evalE, set_apply, if_true]
            rw [this]
          · rw [hg6, hg5]; rfl
    · cases h; exact absurd rfl (hnp _)

theorem Peek_sim (st : St) (q : Ekit.Heap.PQ) (hR : Rel st q) (g : Nat) (f : Nat) (hf : 1 ≤ f)
    (q' : Ekit.Heap.PQ) (out : Ekit.Heap.Out) (h : Ekit.Heap.step cmp q g .peek = (q', out)) (hnp : ∀ m, out ≠ .panic m) :
    ∃ v, call cmp procs (f + 1) .Peek [] st = .ok (v, st) ∧ q' = q ∧ OutIs out v := by
  obtain ⟨F, rfl⟩ : ∃ m, f = m + 1 := ⟨f - 1, by omega⟩
  have hemp := isEmpty_rel cmp F st q hR
  obtain ⟨cap0, ⟨d, c⟩⟩ := q
  obtain ⟨hcap, a, hd, hlen, hle, hal, htk⟩ := hR
  simp only at hcap hd hlen hle hal htk
  simp only [Ekit.Heap.step] at h
  generalize hρ0 : Env.ofArgs ([] : List Val) = ρ0
  rw [call_succ]
  simp only [runBody, procs, hρ0]
  by_cases hE : Ekit.Heap.PQ.isEmpty ⟨cap0, ⟨d, c⟩⟩ = true
  · rw [if_pos hE] at h
    cases h
    rw [hE] at hemp
    refine ⟨.pair (.int 0) (.errIdx 2 (-1)), ?_, rfl, Or.inr ⟨rfl, rfl⟩⟩
    have : exec cmp (F + 1) (call cmp procs (F + 1)) (F + 1) ρ0 st body_Peek =
        .ok (.ret (.pair (.int 0) (.errIdx 2 (-1))), ρ0.set 0 (.int 0), st) := by
      unfold body_Peek
      refine seq_ret _ _ _ _ _ _ ?_
      simp only [exec_ite, evalE, hemp, exec_seq, exec_assign, exec_ret2, set_apply, if_true]
      rfl
    rw [this]
  · rw [if_neg hE] at h
    have hE' : Ekit.Heap.PQ.isEmpty ⟨cap0, ⟨d, c⟩⟩ = false := by simpa using hE
    rw [hE'] at hemp
    have hL : 2 ≤ d.length := by
      have : ¬ d.length < 2 := by simpa [Ekit.Heap.PQ.isEmpty] using hE
      omega
    split at h
    · next v hv =>
      cases h
      have hv' : ((st.mem.arrs a).take d.length)[1]? = some v := by rw [htk]; exact hv
      obtain ⟨-, hve⟩ := take_get hv'
      refine ⟨.pair (.int v) .nilErr, ?_, rfl, rfl⟩
      have : exec cmp (F + 1) (call cmp procs (F + 1)) (F + 1) ρ0 st body_Peek =
          .ok (.ret (.pair (.int v) .nilErr), ρ0, st) := by
        unfold body_Peek
        step ρ0, st
        · simp only [exec_ite, evalE, hemp, exec_skip]
        rw [exec_ret2, evalE_index_ok cmp _ _ ρ0 st .data (.int 1) a d.length c 1 (by simp only [evalE, hd]) rfl (by omega), hve]
        simp only [evalE]
      rw [this]
    · cases h; exact absurd rfl (hnp _)

end dequeue

/-! ### one public call -/

/-- the model's `Op` as a call of the translated method -/
def runOp (cmp : Int → Int → Int) (fuel : Nat) (st : St) : Ekit.Heap.Op → Res (Val × St)
  | .enqueue t => call cmp procs fuel .Enqueue [.int t] st
  | .dequeue => call cmp procs fuel .Dequeue [] st
  | .peek => call cmp procs fuel .Peek [] st
  | .len => call cmp procs fuel .Len [] st
  | .cap => call cmp procs fuel .Cap [] st
  | .boundless => call cmp procs fuel .IsBoundless [] st

theorem step_sim (cmp : Int → Int → Int) (st : St) (q : Ekit.Heap.PQ) (hR : Rel st q) (op : Ekit.Heap.Op) (g : Nat)
    (rest : List Nat) (hg : st.mem.grow = g :: rest) (hroom : q.data.vals.length + 1 ≤ g)
    (fuel : Nat) (hf : q.data.vals.length + 8 ≤ fuel)
    (q' : Ekit.Heap.PQ) (out : Ekit.Heap.Out) (h : Ekit.Heap.step cmp q g op = (q', out)) (hnp : ∀ m, out ≠ .panic m) :
    ∃ v st', runOp cmp fuel st op = .ok (v, st') ∧ Rel st' q' ∧ OutIs out v ∧
      (st'.mem.grow = g :: rest ∨ st'.mem.grow = rest) := by
  obtain ⟨f, rfl⟩ : ∃ m, fuel = m + 1 := ⟨fuel - 1, by omega⟩
  cases op with
  | enqueue t => exact Enqueue_sim cmp st q hR t g rest hg hroom f (by omega) q' out h hnp
  | dequeue =>
    obtain ⟨v, st', h1, h2, h3, h4⟩ := Dequeue_sim cmp st q hR g f (by omega) q' out h hnp
    exact ⟨v, st', h1, h2, h3, Or.inl (h4.trans hg)⟩
  | peek =>
    obtain ⟨v, h1, h2, h3⟩ := Peek_sim cmp st q hR g f (by omega) q' out h hnp
    exact ⟨v, st, h1, h2 ▸ hR, h3, Or.inl hg⟩
  | len =>
    cases h
    obtain ⟨-, a, hd, -⟩ := id hR
    exact ⟨_, st, Len_spec cmp f st _ _ _ hd, hR, rfl, Or.inl hg⟩
  | cap =>
    cases h
    refine ⟨_, st, Cap_spec cmp f st, hR, ?_, Or.inl hg⟩
    show Val.int st.capacity = .int q.capacity
    rw [hR.1]
  | boundless =>
    cases h
    refine ⟨_, st, IsBoundless_spec cmp f st, hR, ?_, Or.inl hg⟩
    show Val.bool (decide (st.capacity ≤ 0)) = .bool q.isBoundless
    rw [hR.1]; rfl

end Ekit.MiniGo.PQ.Refine

