/- Call-level facts about the skip-list model (C05): what Insert / DeleteElement / Search do to a
   well-formed list, for every tower height.  Core Lean only. -/
import Ekit.Lemmas.SkipListScan

namespace Ekit.SkipList
open Ekit.Cmp Ekit.Go

def Sorted (cmp : Cmp) (nodes : List Node) : Prop := nodes.Pairwise (fun a b => cmp a.val b.val ≤ 0)

/-- `level` is the height of the tallest tower, and 1 for the empty list ("SkipList为空时, level为1") -/
def LevelOK (nodes : List Node) (level : Nat) : Prop :=
  1 ≤ level ∧ (∀ n ∈ nodes, n.h ≤ level) ∧ (1 < level → ∃ n ∈ nodes, level ≤ n.h)

/-- the representation invariant -/
structure WF (cmp : Cmp) (s : SL) : Prop where
  sorted : Sorted cmp s.nodes
  heights : ∀ n ∈ s.nodes, 1 ≤ n.h ∧ n.h ≤ MaxLevel
  level : LevelOK s.nodes s.level
  size : s.size = s.nodes.length

theorem wf_new (cmp : Cmp) : WF cmp SL.new :=
  ⟨List.Pairwise.nil, by simp [SL.new], ⟨by simp [SL.new], by simp [SL.new], by simp [SL.new]⟩, by simp [SL.new]⟩

/-! ### splitting a sorted chain at `v` -/

/-- a sorted chain is: the nodes smaller than `v`, then the nodes not smaller than `v` -/
theorem split_sorted {cmp : Cmp} (hc : Lawful cmp) (v : Int) (nodes : List Node) (hs : Sorted cmp nodes) :
    ∃ A B, nodes = A ++ B ∧ (∀ n ∈ A, cmp n.val v < 0) ∧ (∀ n ∈ B, ¬ cmp n.val v < 0) := by
  induction nodes with
  | nil => exact ⟨[], [], rfl, by simp, by simp⟩
  | cons n t ih =>
    have hs' := List.pairwise_cons.mp hs
    by_cases hn : cmp n.val v < 0
    · obtain ⟨A, B, e, hA, hB⟩ := ih hs'.2
      refine ⟨n :: A, B, by simp [e], ?_, hB⟩
      intro m hm
      rcases List.mem_cons.mp hm with rfl | hm'
      · exact hn
      · exact hA m hm'
    · refine ⟨[], n :: t, rfl, by simp, ?_⟩
      intro m hm
      rcases List.mem_cons.mp hm with rfl | hm'
      · exact hn
      · intro hlt
        exact hn (hc.lt_of_le_of_lt (hs'.1 m hm') hlt)

theorem takeWhile_split {α : Type} (p : α → Bool) (A B : List α) (hA : ∀ a ∈ A, p a = true)
    (hB : ∀ b ∈ B, p b = false) : (A ++ B).takeWhile p = A ∧ (A ++ B).dropWhile p = B := by
  induction A with
  | nil =>
    cases B with
    | nil => simp
    | cons b B => simp [hB b List.mem_cons_self]
  | cons a A ih =>
    have := ih (fun x hx => hA x (List.mem_cons_of_mem _ hx))
    simp [hA a List.mem_cons_self, this]

theorem insertIdx_append_length {α : Type} (A B : List α) (x : α) : (A ++ B).insertIdx A.length x = A ++ x :: B := by
  induction A with
  | nil => simp
  | cons a A ih => simp [List.insertIdx_succ_cons, ih]

theorem eraseIdx_append_length {α : Type} (A B : List α) (x : α) : (A ++ x :: B).eraseIdx A.length = A ++ B := by
  rw [List.eraseIdx_append_of_length_le (Nat.le_refl _)]
  simp

/-! ### `traverse` on a well-formed list -/

theorem traverse_spec {cmp : Cmp} (v : Int) (s : SL) (A B : List Node) (hn : s.nodes = A ++ B)
    (hA : ∀ n ∈ A, cmp n.val v < 0) (hB : ∀ n ∈ B, ¬ cmp n.val v < 0)
    (hh : ∀ n ∈ s.nodes, 1 ≤ n.h) (hl : LevelOK s.nodes s.level) :
    (traverse cmp v s).1 = A.length ∧ (traverse cmp v s).2.length = s.level ∧
    ∀ j, j < s.level → (traverse cmp v s).2[j]? = some (lastAbove j A 0 0) := by
  have h0 : lastAbove s.level A 0 0 = 0 :=
    lastAbove_none _ _ _ _ (fun n hm => hl.2.1 n (by rw [hn]; exact List.mem_append_left _ hm))
  have := traverseFrom_spec cmp v A B hA hB s.level
  rw [h0, ← hn] at this
  obtain ⟨h1, h2, h3⟩ := this
  refine ⟨?_, h1, h2⟩
  have := h3 hl.1
  unfold traverse
  rw [this]
  exact lastAbove_zero A (fun n hm => hh n (by rw [hn]; exact List.mem_append_left _ hm))

/-! ### DeleteElement's unlink loop and level trim -/

theorem forwardPos_split (i : Nat) (A : List Node) (node : Node) (B : List Node) (u : Nat) (hu : u ≤ A.length)
    (hnone : ∀ x ∈ A.drop u, x.h ≤ i) :
    (node.h > i → forwardPos (A ++ node :: B) u i = A.length + 1) ∧
    (¬ node.h > i → forwardPos (A ++ node :: B) u i ≠ A.length + 1) := by
  have hdrop : (A ++ node :: B).drop u = A.drop u ++ node :: B := List.drop_append_of_le_length hu
  have hX : List.findIdx? (fun n => decide (n.h > i)) (A.drop u) = none := by
    rw [List.findIdx?_eq_none_iff]
    intro x hx
    have := hnone x hx
    simp; omega
  unfold forwardPos
  rw [hdrop, List.findIdx?_append, hX, List.findIdx?_cons]
  simp only [Option.or, List.length_drop]
  constructor
  · intro h
    simp [h]; omega
  · intro h
    simp only [h, decide_false, Bool.false_eq_true, if_false]
    cases List.findIdx? (fun n => decide (n.h > i)) B with
    | none => simp
    | some j => simp; omega

theorem unlinkCount_spec (A : List Node) (node : Node) (B : List Node) (update : List Nat) (level : Nat)
    (hupd : ∀ j, j < level → update[j]? = some (lastAbove j A 0 0)) (hle : node.h ≤ level)
    (fuel i : Nat) (hf : fuel + i = level) (hi : i ≤ node.h) :
    unlinkCount (A ++ node :: B) update (A.length + 1) level fuel i = node.h := by
  induction fuel generalizing i with
  | zero => simp only [unlinkCount]; omega
  | succ fuel ih =>
    have hil : i < level := by omega
    have hu : update.getD i 0 = lastAbove i A 0 0 := by
      simp [List.getD_eq_getElem?_getD, hupd i hil]
    have hb := lastAbove_bounds i A 0 0 (Nat.le_refl _)
    have hfp := forwardPos_split i A node B (lastAbove i A 0 0) (by omega) (lastAbove_none_after i A)
    simp only [unlinkCount, hu]
    by_cases hlt : i < node.h
    · rw [if_pos ⟨hil, hfp.1 hlt⟩]
      exact ih (i + 1) (by omega) (by omega)
    · have : ¬ (i < level ∧ forwardPos (A ++ node :: B) (lastAbove i A 0 0) i = A.length + 1) :=
        fun h => hfp.2 (by omega) h.2
      rw [if_neg this]; omega

theorem trimLevel_spec (nodes : List Node) (fuel l : Nat) (hall : ∀ n ∈ nodes, n.h ≤ l) (h1 : 1 ≤ l)
    (hf : l ≤ fuel + 1) : LevelOK nodes (trimLevel nodes fuel l) := by
  induction fuel generalizing l with
  | zero =>
    have : l = 1 := by omega
    subst this
    exact ⟨by simp [trimLevel], by simpa [trimLevel] using hall, by simp [trimLevel]⟩
  | succ fuel ih =>
    simp only [trimLevel]
    by_cases hcond : l > 1 ∧ (!(nodes.any fun n => decide (n.h > l - 1))) = true
    · rw [if_pos hcond]
      apply ih (l - 1) _ (by omega) (by omega)
      intro n hn
      have : (nodes.any fun n => decide (n.h > l - 1)) = false := by simpa using hcond.2
      rw [List.any_eq_false] at this
      have := this n hn
      simp at this; exact this
    · rw [if_neg hcond]
      refine ⟨h1, hall, fun hl => ?_⟩
      have : (nodes.any fun n => decide (n.h > l - 1)) = true := by
        cases hany : (nodes.any fun n => decide (n.h > l - 1)) with
        | true => rfl
        | false => exact absurd ⟨hl, by simp [hany]⟩ hcond
      obtain ⟨n, hn, hgt⟩ := List.any_eq_true.mp this
      exact ⟨n, hn, by simp at hgt; omega⟩

/-! ### the calls -/

/-- Insert with any admissible tower height: no (model) panic, the node lands behind the nodes
    smaller than `v` and in front of everything else -/
theorem insert_ok {cmp : Cmp} (hc : Lawful cmp) {s : SL} (hs : WF cmp s) (h : Nat) (hh : 1 ≤ h ∧ h ≤ MaxLevel)
    (v : Int) (A B : List Node) (hn : s.nodes = A ++ B)
    (hA : ∀ n ∈ A, cmp n.val v < 0) (hB : ∀ n ∈ B, ¬ cmp n.val v < 0) :
    step cmp s h (.insert v) =
      ({ nodes := A ++ ⟨v, h⟩ :: B, level := if h > s.level then h else s.level, size := s.size + 1 }, .ok .unit) ∧
    WF cmp { nodes := A ++ ⟨v, h⟩ :: B, level := if h > s.level then h else s.level, size := s.size + 1 } := by
  obtain ⟨t1, t2, t3⟩ := traverse_spec v s A B hn hA hB (fun n hm => (hs.heights n hm).1) hs.level
  have hlv := hs.level
  constructor
  · simp only [step]
    rcases hT : traverse cmp v s with ⟨c, upd⟩
    rw [hT] at t1 t2 t3
    simp only at t1 t2 t3 ⊢
    -- the padded update array
    have hpad : ∀ j, j < h → (if h > s.level then upd ++ List.replicate (h - s.level) 0 else upd)[j]? =
        some (lastAbove j A 0 0) := by
      intro j hj
      by_cases hjl : j < s.level
      · have : (if h > s.level then upd ++ List.replicate (h - s.level) 0 else upd)[j]? = upd[j]? := by
          split
          · rw [List.getElem?_append_left (by omega)]
          · rfl
        rw [this]; exact t3 j hjl
      · have hgt : h > s.level := by omega
        rw [if_pos hgt, List.getElem?_append_right (by omega), List.getElem?_replicate]
        have : j - upd.length < h - s.level := by omega
        rw [if_pos this]
        congr 1
        exact (lastAbove_none j A 0 0 (fun n hm =>
          Nat.le_trans (hlv.2.1 n (by rw [hn]; exact List.mem_append_left _ hm)) (by omega))).symm
    have h0 : (if h > s.level then upd ++ List.replicate (h - s.level) 0 else upd)[0]? = some A.length := by
      rw [hpad 0 (by omega)]
      exact congrArg some (lastAbove_zero A (fun n hm => (hs.heights n (by rw [hn]; exact List.mem_append_left _ hm)).1))
    rw [h0]
    simp only []
    have hsp : spliceOk s.nodes (if h > s.level then upd ++ List.replicate (h - s.level) 0 else upd) A.length h = true := by
      simp only [spliceOk, List.all_eq_true, List.mem_range]
      intro j hj
      rw [hpad j hj, hn, List.take_left' rfl]
      simp
    rw [if_pos hsp, hn, insertIdx_append_length]
  · refine ⟨?_, ?_, ?_, ?_⟩
    · -- sorted
      have hsrt : Sorted cmp (A ++ B) := by rw [← hn]; exact hs.sorted
      unfold Sorted at hsrt ⊢
      rw [List.pairwise_append] at hsrt ⊢
      obtain ⟨p1, p2, p3⟩ := hsrt
      refine ⟨p1, ?_, ?_⟩
      · rw [List.pairwise_cons]
        exact ⟨fun b hb => hc.le_of_not_lt (hB b hb), p2⟩
      · intro a ha b hb
        rcases List.mem_cons.mp hb with rfl | hb'
        · have := hA a ha; simp only []; omega
        · exact p3 a ha b hb'
    · intro n hm
      simp only [List.mem_append, List.mem_cons] at hm
      rcases hm with hm | rfl | hm
      · exact hs.heights n (by rw [hn]; exact List.mem_append_left _ hm)
      · exact hh
      · exact hs.heights n (by rw [hn]; exact List.mem_append_right _ hm)
    · simp only []
      refine ⟨by split <;> omega, ?_, ?_⟩
      · intro n hm
        simp only [List.mem_append, List.mem_cons] at hm
        have hold : ∀ m ∈ s.nodes, m.h ≤ s.level := hlv.2.1
        rcases hm with hm | rfl | hm
        · have := hold n (by rw [hn]; exact List.mem_append_left _ hm); split <;> omega
        · simp only []; split <;> omega
        · have := hold n (by rw [hn]; exact List.mem_append_right _ hm); split <;> omega
      · intro hl
        by_cases hgt : h > s.level
        · rw [if_pos hgt]
          exact ⟨⟨v, h⟩, by simp, Nat.le_refl _⟩
        · rw [if_neg hgt] at hl ⊢
          obtain ⟨n, hm, hle⟩ := hlv.2.2 hl
          refine ⟨n, ?_, hle⟩
          rw [hn] at hm
          simp only [List.mem_append, List.mem_cons] at hm ⊢
          rcases hm with hm | hm
          · exact Or.inl hm
          · exact Or.inr (Or.inr hm)
    · simp only [List.length_append, List.length_cons]
      have := hs.size
      rw [hn] at this
      simp only [List.length_append] at this
      omega

/-- DeleteElement when the first node that is not smaller than `v` compares equal: exactly that
    node goes, the level drops to the tallest remaining tower -/
theorem delete_hit {cmp : Cmp} {s : SL} (hs : WF cmp s) (h : Nat)
    (v : Int) (A : List Node) (node : Node) (B : List Node) (hn : s.nodes = A ++ node :: B)
    (hA : ∀ n ∈ A, cmp n.val v < 0) (hB : ∀ n ∈ node :: B, ¬ cmp n.val v < 0) (heq : cmp node.val v = 0) :
    step cmp s h (.delete v) =
      ({ nodes := A ++ B, level := trimLevel (A ++ B) s.level s.level, size := s.size - 1 }, .ok (.bool true)) ∧
    WF cmp { nodes := A ++ B, level := trimLevel (A ++ B) s.level s.level, size := s.size - 1 } := by
  obtain ⟨t1, t2, t3⟩ := traverse_spec v s A (node :: B) hn hA hB (fun n hm => (hs.heights n hm).1) hs.level
  have hlv := hs.level
  have hsub : ∀ n ∈ A ++ B, n ∈ s.nodes := by
    intro n hm
    rw [hn]
    simp only [List.mem_append, List.mem_cons] at hm ⊢
    rcases hm with hm | hm
    · exact Or.inl hm
    · exact Or.inr (Or.inr hm)
  constructor
  · simp only [step]
    rcases hT : traverse cmp v s with ⟨c, upd⟩
    rw [hT] at t1 t2 t3
    simp only at t1 t2 t3 ⊢
    have hnext : next0 s c = some node := by
      simp only [next0, hn, t1]
      rw [List.getElem?_append_right (Nat.le_refl _)]
      simp
    rw [hnext]
    simp only [heq, ne_eq, not_true_eq_false, if_false]
    have hcount : unlinkCount s.nodes upd (c + 1) s.level s.level 0 = node.h := by
      rw [hn, t1]
      exact unlinkCount_spec A node B upd s.level t3
        (hlv.2.1 node (by rw [hn]; simp)) s.level 0 (by omega) (by omega)
    rw [hcount]
    simp only [not_true_eq_false, if_false]
    rw [hn, t1, eraseIdx_append_length]
  · refine ⟨?_, fun n hm => hs.heights n (hsub n hm), ?_, ?_⟩
    · have hsrt : Sorted cmp (A ++ node :: B) := by rw [← hn]; exact hs.sorted
      unfold Sorted at hsrt ⊢
      exact hsrt.sublist (List.Sublist.append_left (List.sublist_cons_self node B) A)
    · exact trimLevel_spec (A ++ B) s.level s.level (fun n hm => hlv.2.1 n (hsub n hm)) hlv.1 (by omega)
    · have := hs.size
      rw [hn] at this
      simp only [List.length_append, List.length_cons] at this ⊢
      omega

/-- DeleteElement when no node compares equal to `v`: nothing changes -/
theorem delete_miss {cmp : Cmp} {s : SL} (hs : WF cmp s) (h : Nat)
    (v : Int) (A B : List Node) (hn : s.nodes = A ++ B)
    (hA : ∀ n ∈ A, cmp n.val v < 0) (hB : ∀ n ∈ B, ¬ cmp n.val v < 0)
    (hmiss : ∀ n, B.head? = some n → cmp n.val v ≠ 0) :
    step cmp s h (.delete v) = (s, .ok (.bool true)) := by
  obtain ⟨t1, _, _⟩ := traverse_spec v s A B hn hA hB (fun n hm => (hs.heights n hm).1) hs.level
  simp only [step]
  rcases hT : traverse cmp v s with ⟨c, upd⟩
  rw [hT] at t1
  simp only at t1 ⊢
  have hnext : next0 s c = B.head? := by
    simp only [next0, hn, t1]
    rw [List.getElem?_append_right (Nat.le_refl _)]
    simp [List.head?_eq_getElem?]
  rw [hnext]
  cases hB' : B.head? with
  | none => rfl
  | some n =>
    simp only []
    rw [if_pos (hmiss n hB')]

/-- Search looks at the first node that is not smaller than `v` -/
theorem search_eq {cmp : Cmp} {s : SL} (hs : WF cmp s) (h : Nat)
    (v : Int) (A B : List Node) (hn : s.nodes = A ++ B)
    (hA : ∀ n ∈ A, cmp n.val v < 0) (hB : ∀ n ∈ B, ¬ cmp n.val v < 0) :
    step cmp s h (.search v) = (s, .ok (.bool (match B.head? with | some n => decide (cmp n.val v = 0) | none => false))) := by
  obtain ⟨t1, _, _⟩ := traverse_spec v s A B hn hA hB (fun n hm => (hs.heights n hm).1) hs.level
  simp only [step]
  rcases hT : traverse cmp v s with ⟨c, upd⟩
  rw [hT] at t1
  simp only at t1 ⊢
  have hnext : next0 s c = B.head? := by
    simp only [next0, hn, t1]
    rw [List.getElem?_append_right (Nat.le_refl _)]
    simp [List.head?_eq_getElem?]
  rw [hnext]
  cases B.head? <;> rfl

end Ekit.SkipList
