/-
`Next` under arbitrary interleavings: invariants of the transition system `Ekit.Retry.step`
(any number of goroutines), and the link between an uninterrupted call and the function `next`.
-/
import Ekit.Lemmas.RetrySeq

namespace Ekit.Retry

theorem pcOf_mem {l : List (Tid × PC)} {t : Tid} {pc : PC} (h : pcOf l t = some pc) : (t, pc) ∈ l := by
  induction l with
  | nil => simp [pcOf] at h
  | cons p rest ih =>
    obtain ⟨t', pc'⟩ := p
    simp only [pcOf] at h
    by_cases ht : t' = t
    · simp [ht] at h; subst h; subst ht; exact List.mem_cons_self
    · simp [ht] at h; exact List.mem_cons_of_mem _ (ih h)

theorem okCount_cons_true (t : Tid) (iv : Int) (rs : List Ret) : okCount (⟨t, iv, true⟩ :: rs) = okCount rs + 1 := by
  simp [okCount]

theorem okCount_cons_false (t : Tid) (iv : Int) (rs : List Ret) : okCount (⟨t, iv, false⟩ :: rs) = okCount rs := by
  simp [okCount]

theorem grants_succ (cfg : Cfg) (n : Nat) :
    Spec.grants cfg.maxRetries (n + 1) =
      Spec.grants cfg.maxRetries n + (if budgetOk cfg ((n + 1 : Nat) : Int) = true then 1 else 0) := by
  unfold Spec.grants budgetOk
  by_cases h : cfg.maxRetries ≤ 0
  · simp [h]
  · simp only [h, if_false, decide_false, Bool.false_or, decide_eq_true_eq]
    split <;> omega

def isAdd : Label → Bool
  | .add _ => true
  | _ => false

/-- every step keeps or increases the number of started calls; only `add` increases it -/
theorem step_calls {cfg : Cfg} {s s' : St} {l : Label} (h : step cfg s l = some s') :
    s'.calls = s.calls + (if isAdd l then 1 else 0) := by
  cases l with
  | add t =>
    simp only [step] at h
    split at h
    · simp at h
    · split at h
      · split at h <;> (simp at h; subst h; simp [isAdd])
      · simp at h; subst h; simp [isAdd]
  | load t =>
    simp only [step] at h
    split at h
    · split at h
      · simp at h; subst h; simp [isAdd]
      · split at h <;> (simp at h; subst h; simp [isAdd])
    · simp at h
  | store t =>
    simp only [step] at h
    split at h
    · simp at h; subst h; simp [isAdd]
    · simp at h

theorem run_calls {cfg : Cfg} : ∀ (tr : List Label) {s s' : St}, run cfg s tr = some s' →
    s'.calls = s.calls + tr.countP isAdd := by
  intro tr
  induction tr with
  | nil => intro s s' h; simp [run] at h; subst h; simp
  | cons l ls ih =>
    intro s s' h
    simp only [run] at h
    cases hs : step cfg s l with
    | none => simp [hs] at h
    | some s1 =>
      simp [hs] at h
      have h1 := step_calls hs
      have h2 := ih h
      rw [h2, h1, List.countP_cons]
      omega

/-! #### the budget invariant -/

structure BudgetInv (cfg : Cfg) (s : St) : Prop where
  retries : s.core.retries = (s.calls : Int)
  count : okCount s.rets + s.active.length = Spec.grants cfg.maxRetries s.calls
  total : s.rets.length + s.active.length = s.calls

theorem budgetInv_init (cfg : Cfg) : BudgetInv cfg St.init := by
  refine ⟨rfl, ?_, rfl⟩
  simp [St.init, okCount, Spec.grants]

theorem budgetInv_step {cfg : Cfg} {s s' : St} {l : Label} (inv : BudgetInv cfg s)
    (h : step cfg s l = some s') (hlt : s'.calls < 2147483648) : BudgetInv cfg s' := by
  obtain ⟨hr, hc, ht⟩ := inv
  have hcalls := step_calls h
  cases l with
  | add t =>
    simp only [isAdd, if_true] at hcalls
    have hw : wrap32 (s.core.retries + 1) = ((s.calls + 1 : Nat) : Int) := by
      rw [hr, wrap32_id (by unfold InI32; omega)]; omega
    have hg := grants_succ cfg s.calls
    simp only [step, hw] at h
    split at h
    · simp at h
    · by_cases hb : budgetOk cfg ((s.calls + 1 : Nat) : Int) = true
      · simp only [hb, if_true] at h hg
        split at h
        · simp at h; subst h
          exact ⟨rfl, by simp only [okCount_cons_true]; omega, by simp only [List.length_cons]; omega⟩
        · simp at h; subst h
          exact ⟨rfl, by simp only [List.length_cons]; omega, by simp only [List.length_cons]; omega⟩
      · have hb' : budgetOk cfg ((s.calls + 1 : Nat) : Int) = false := by simpa using hb
        simp only [hb', Bool.false_eq_true, if_false] at h hg
        simp at h; subst h
        exact ⟨rfl, by simp only [okCount_cons_false]; omega, by simp only [List.length_cons]; omega⟩
  | load t =>
    simp only [isAdd] at hcalls
    simp only [step] at h
    split at h
    · rename_i r hpc
      have hmem := pcOf_mem hpc
      have hlen := List.length_erase_of_mem hmem
      have hpos : 0 < s.active.length := List.length_pos_of_mem hmem
      split at h
      · simp at h; subst h
        exact ⟨hr, by simp only [okCount_cons_true, hlen]; omega, by simp only [List.length_cons, hlen]; omega⟩
      · split at h
        · simp at h; subst h
          exact ⟨hr, by simp only [List.length_cons, hlen]; omega, by simp only [List.length_cons, hlen]; omega⟩
        · simp at h; subst h
          exact ⟨hr, by simp only [okCount_cons_true, hlen]; omega, by simp only [List.length_cons, hlen]; omega⟩
    · simp at h
  | store t =>
    simp only [step] at h
    split at h
    · rename_i hpc
      have hmem := pcOf_mem hpc
      have hlen := List.length_erase_of_mem hmem
      have hpos : 0 < s.active.length := List.length_pos_of_mem hmem
      simp at h; subst h
      exact ⟨hr, by simp only [okCount_cons_true, hlen]; omega, by simp only [List.length_cons, hlen]; omega⟩
    · simp at h

theorem budgetInv_run {cfg : Cfg} : ∀ (tr : List Label) {s s' : St}, BudgetInv cfg s →
    run cfg s tr = some s' → s'.calls < 2147483648 → BudgetInv cfg s' := by
  intro tr
  induction tr with
  | nil => intro s s' inv h _; simp [run] at h; subst h; exact inv
  | cons l ls ih =>
    intro s s' inv h hlt
    simp only [run] at h
    cases hs : step cfg s l with
    | none => simp [hs] at h
    | some s1 =>
      simp [hs] at h
      have hm := run_calls ls h
      exact ih (budgetInv_step inv hs (by omega)) h hlt

/-! #### every returned interval is within bounds -/

/-- no counter value makes the product wrap to a positive number below `initial` -/
def SafeWrap (cfg : Cfg) : Prop := ∀ r : Int, 0 < rawInterval cfg r → cfg.initial ≤ rawInterval cfg r

def RetsInBounds (cfg : Cfg) (rs : List Ret) : Prop :=
  ∀ r ∈ rs, r.ok = true → cfg.initial ≤ r.iv ∧ r.iv ≤ cfg.max

theorem retsInBounds_cons {cfg : Cfg} {rs : List Ret} {r : Ret} (h : RetsInBounds cfg rs)
    (hr : r.ok = true → cfg.initial ≤ r.iv ∧ r.iv ≤ cfg.max) : RetsInBounds cfg (r :: rs) := by
  intro x hx hok
  rcases List.mem_cons.1 hx with rfl | hx
  · exact hr hok
  · exact h x hx hok

theorem inBounds_step {cfg : Cfg} (hv : Valid cfg) (hsafe : SafeWrap cfg) {s s' : St} {l : Label}
    (inv : RetsInBounds cfg s.rets) (h : step cfg s l = some s') : RetsInBounds cfg s'.rets := by
  have hle := hv.le
  cases l with
  | add t =>
    simp only [step] at h
    split at h
    · simp at h
    · split at h
      · split at h
        · simp at h; subst h
          exact retsInBounds_cons inv (fun _ => ⟨Int.le_refl _, hle⟩)
        · simp at h; subst h; exact inv
      · simp at h; subst h
        exact retsInBounds_cons inv (fun hok => by simp at hok)
  | load t =>
    simp only [step] at h
    split at h
    · rename_i r hpc
      split at h
      · simp at h; subst h
        exact retsInBounds_cons inv (fun _ => ⟨hle, Int.le_refl _⟩)
      · split at h
        · simp at h; subst h; exact inv
        · rename_i hhit
          simp at h; subst h
          refine retsInBounds_cons inv (fun _ => ?_)
          simp only [capHit, Bool.or_eq_true, decide_eq_true_eq, not_or] at hhit
          have := hsafe r (by omega)
          exact ⟨this, by show rawInterval cfg r ≤ cfg.max; omega⟩
    · simp at h
  | store t =>
    simp only [step] at h
    split at h
    · simp at h; subst h
      exact retsInBounds_cons inv (fun _ => ⟨hle, Int.le_refl _⟩)
    · simp at h

theorem inBounds_run {cfg : Cfg} (hv : Valid cfg) (hsafe : SafeWrap cfg) :
    ∀ (tr : List Label) {s s' : St}, RetsInBounds cfg s.rets → run cfg s tr = some s' →
      RetsInBounds cfg s'.rets := by
  intro tr
  induction tr with
  | nil => intro s s' inv h; simp [run] at h; subst h; exact inv
  | cons l ls ih =>
    intro s s' inv h
    simp only [run] at h
    cases hs : step cfg s l with
    | none => simp [hs] at h
    | some s1 =>
      simp [hs] at h
      exact ih (inBounds_step hv hsafe inv hs) h

/-! #### an uninterrupted call is `next` -/

theorem pcOf_cons_self (t : Tid) (pc : PC) (l : List (Tid × PC)) : pcOf ((t, pc) :: l) t = some pc := by
  simp [pcOf]

/-- One goroutine running its whole `Next` call with nobody interleaving (other goroutines may be
    parked in the middle of theirs) changes the shared state exactly as the function `next` does
    and returns what `next` returns. -/
theorem callSeq_eq_next (cfg : Cfg) (t : Tid) (s : St) (hidle : pcOf s.active t = none) :
    callSeq cfg t s = some ⟨(next cfg s.core).1, s.active, s.calls + 1,
      ⟨t, (next cfg s.core).2.1, (next cfg s.core).2.2⟩ :: s.rets⟩ := by
  unfold callSeq next
  simp only [step, hidle]
  by_cases hb : budgetOk cfg (wrap32 (s.core.retries + 1)) = true
  · simp only [hb, if_true]
    cases hk : cfg.kind with
    | fixed => simp [hidle]
    | exp =>
      simp only [Option.bind_some, pcOf_cons_self, List.erase_cons_head]
      cases hf : s.core.flag with
      | true => simp [hidle]
      | false =>
        simp only [Bool.false_eq_true, if_false]
        cases hh : capHit cfg (rawInterval cfg (wrap32 (s.core.retries + 1))) with
        | true => simp [pcOf_cons_self]
        | false => simp [hidle]
  · have hb' : budgetOk cfg (wrap32 (s.core.retries + 1)) = false := by simpa using hb
    simp [hb', hidle]

/-- an uninterrupted call is a run of one, two or three atomic steps of that goroutine -/
theorem callSeq_is_run (cfg : Cfg) (t : Tid) (s s' : St) (h : callSeq cfg t s = some s') :
    run cfg s [.add t] = some s' ∨ run cfg s [.add t, .load t] = some s' ∨
      run cfg s [.add t, .load t, .store t] = some s' := by
  unfold callSeq at h
  cases h1 : step cfg s (.add t) with
  | none => simp [h1] at h
  | some s1 =>
    simp only [h1, Option.bind_some] at h
    cases hp1 : pcOf s1.active t with
    | none =>
      simp only [hp1] at h
      left; simp [run, h1, h]
    | some pc1 =>
      simp only [hp1] at h
      cases h2 : step cfg s1 (.load t) with
      | none => simp [h2] at h
      | some s2 =>
        simp only [h2, Option.bind_some] at h
        cases hp2 : pcOf s2.active t with
        | none =>
          simp only [hp2] at h
          right; left; simp [run, h1, h2, h]
        | some pc2 =>
          simp only [hp2] at h
          right; right; simp [run, h1, h2, h]

/-- calls made one after the other by the goroutines `ts` -/
def runSeq (cfg : Cfg) : List Tid → St → Option St
  | [], s => some s
  | t :: ts, s => (callSeq cfg t s).bind (runSeq cfg ts)

def seqRets (cfg : Cfg) : List Tid → Core → List Ret → List Ret
  | [], _, acc => acc
  | t :: ts, c, acc => seqRets cfg ts (next cfg c).1 (⟨t, (next cfg c).2.1, (next cfg c).2.2⟩ :: acc)

/-- **Sequential use of the transition system is the function `next` iterated.** -/
theorem runSeq_eq (cfg : Cfg) : ∀ (ts : List Tid) (s : St), s.active = [] →
    runSeq cfg ts s = some ⟨iter cfg ts.length s.core, [], s.calls + ts.length, seqRets cfg ts s.core s.rets⟩ := by
  intro ts
  induction ts with
  | nil => intro s h; cases s; simp_all [runSeq, iter, seqRets]
  | cons t ts ih =>
    intro s h
    have hidle : pcOf s.active t = none := by rw [h]; rfl
    simp only [runSeq, callSeq_eq_next cfg t s hidle, Option.bind_some]
    rw [ih _ (by exact h)]
    simp [iter, seqRets, Nat.add_assoc, Nat.add_comm 1]

theorem seqRets_outputs (cfg : Cfg) : ∀ (ts : List Tid) (c : Core) (acc : List Ret),
    (seqRets cfg ts c acc).map (fun r => (r.iv, r.ok)) =
      (outputs cfg ts.length c).reverse ++ acc.map (fun r => (r.iv, r.ok)) := by
  intro ts
  induction ts with
  | nil => intro c acc; simp [seqRets, outputs]
  | cons t ts ih =>
    intro c acc
    simp [seqRets, outputs, ih]

/-! #### unlimited budget: every call is granted, for any number of calls -/

theorem allOk_step {cfg : Cfg} (hb : cfg.maxRetries ≤ 0) {s s' : St} {l : Label}
    (inv : ∀ r ∈ s.rets, r.ok = true) (h : step cfg s l = some s') : ∀ r ∈ s'.rets, r.ok = true := by
  have hbo : ∀ r, budgetOk cfg r = true := fun r => by simp [budgetOk, hb]
  have cons : ∀ (x : Ret), x.ok = true → ∀ r ∈ x :: s.rets, r.ok = true := by
    intro x hx r hr
    rcases List.mem_cons.1 hr with rfl | hr
    · exact hx
    · exact inv r hr
  cases l with
  | add t =>
    simp only [step, hbo, if_true] at h
    split at h
    · simp at h
    · split at h
      · simp at h; subst h; exact cons _ rfl
      · simp at h; subst h; exact inv
  | load t =>
    simp only [step] at h
    split at h
    · split at h
      · simp at h; subst h; exact cons _ rfl
      · split at h
        · simp at h; subst h; exact inv
        · simp at h; subst h; exact cons _ rfl
    · simp at h
  | store t =>
    simp only [step] at h
    split at h
    · simp at h; subst h; exact cons _ rfl
    · simp at h

theorem allOk_run {cfg : Cfg} (hb : cfg.maxRetries ≤ 0) : ∀ (tr : List Label) {s s' : St},
    (∀ r ∈ s.rets, r.ok = true) → run cfg s tr = some s' → ∀ r ∈ s'.rets, r.ok = true := by
  intro tr
  induction tr with
  | nil => intro s s' inv h; simp [run] at h; subst h; exact inv
  | cons l ls ih =>
    intro s s' inv h
    simp only [run] at h
    cases hs : step cfg s l with
    | none => simp [hs] at h
    | some s1 =>
      simp [hs] at h
      exact ih (allOk_step hb inv hs) h

/-! #### the fixed-interval strategy: `Next` is a single atomic step -/

structure FixedInv (cfg : Cfg) (s : St) : Prop where
  idle : s.active = []
  ivs : ∀ r ∈ s.rets, r.ok = true → r.iv = cfg.initial

theorem fixedInv_step {cfg : Cfg} (hk : cfg.kind = .fixed) {s s' : St} {l : Label}
    (inv : FixedInv cfg s) (h : step cfg s l = some s') : FixedInv cfg s' := by
  obtain ⟨hidle, hiv⟩ := inv
  cases l with
  | add t =>
    simp only [step, hidle, pcOf, hk] at h
    split at h
    · simp at h; subst h
      refine ⟨rfl, ?_⟩
      intro r hr hok
      rcases List.mem_cons.1 hr with rfl | hr
      · rfl
      · exact hiv r hr hok
    · simp at h; subst h
      refine ⟨rfl, ?_⟩
      intro r hr hok
      rcases List.mem_cons.1 hr with rfl | hr
      · simp at hok
      · exact hiv r hr hok
  | load t => simp [step, hidle, pcOf] at h
  | store t => simp [step, hidle, pcOf] at h

theorem fixedInv_run {cfg : Cfg} (hk : cfg.kind = .fixed) : ∀ (tr : List Label) {s s' : St},
    FixedInv cfg s → run cfg s tr = some s' → FixedInv cfg s' := by
  intro tr
  induction tr with
  | nil => intro s s' inv h; simp [run] at h; subst h; exact inv
  | cons l ls ih =>
    intro s s' inv h
    simp only [run] at h
    cases hs : step cfg s l with
    | none => simp [hs] at h
    | some s1 =>
      simp [hs] at h
      exact ih (fixedInv_step hk inv hs) h

end Ekit.Retry
