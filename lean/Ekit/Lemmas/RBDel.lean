/-
Red-black invariants (C02): preservation by deletion.
The `Bool` returned by `del` / `delMin` / `spliceOut` / `fixDel*` means "this subtree is one black
node short"; `DelInv` says exactly that.
-/
import Ekit.Lemmas.RBInv

namespace Ekit.RB
namespace Tree
variable {α β : Type}

/-- what a deletion inside `t` guarantees about the subtree `res.1` it hands back -/
structure DelInv (t : Tree α β) (res : Tree α β × Bool) : Prop where
  bal : Bal res.1
  noRR : NoRR res.1
  bh_eq : bh res.1 + (if res.2 then 1 else 0) = bh t
  black : t.color = .black → res.1.color = .black
  short : res.2 = true → res.1.color = .black

/-- the same for the fix-up functions, which are not handed the original subtree but its colour
    `c` and its black height `n` -/
structure FixInv (c : Color) (n : Nat) (res : Tree α β × Bool) : Prop where
  bal : Bal res.1
  noRR : NoRR res.1
  bh_eq : bh res.1 + (if res.2 then 1 else 0) = n
  black : c = .black → res.1.color = .black
  short : res.2 = true → res.1.color = .black
  red : c = .red → res.2 = false

@[simp] theorem red_beq_red : (Color.red == Color.red) = true := rfl
@[simp] theorem black_beq_red : (Color.black == Color.red) = false := rfl
@[simp] theorem red_beq_black : (Color.red == Color.black) = false := rfl
@[simp] theorem black_beq_black : (Color.black == Color.black) = true := rfl

macro "rb_norm2" : tactic =>
  `(tactic| simp only [NoRR, Bal, bh, rotL, rotR, color_node, color_nil, left_node, left_nil, right_node, right_nil,
      isRed_node_red, isRed_node_black, isRed_nil, setBlack_node', setBlack_nil', setRed_node', setRed_nil',
      red_beq_red, black_beq_red, red_beq_black, black_beq_black,
      reduceIte, reduceCtorEq, Bool.or_true, Bool.true_or, Bool.or_false, Bool.and_true, Bool.true_and, Bool.and_false, Bool.false_and,
      Bool.not_true, Bool.not_false, if_true, if_false, Bool.false_eq_true, Bool.or_self, Bool.and_self] at *)
macro "rb_auto2" : tactic =>
  `(tactic| ((try rb_norm2) <;> constructor <;> (try rb_norm2) <;> grind))

/-- `fixAfterDeleteLeft` with a black sibling (cases 2, 3, 4): `l` is one black short -/
theorem fixDelLB_inv (c : Color) (l : Tree α β) (k : α) (v : β) (r : Tree α β)
    (hbl : Bal l) (hnl : NoRR l) (hbr : Bal r) (hnr : NoRR r) (hrc : r.color = .black)
    (hbh : bh l + 1 = bh r) (hlc : l.color = .black) :
    FixInv c (bh r + (if c = .black then 1 else 0)) (fixDelLB c l k v r) := by
  unfold fixDelLB
  rcases r with _ | ⟨_ | _, rl, rk, rv, rr⟩
  · rb_auto2
  · rb_auto2
  · rcases rl with _ | ⟨_ | _, _, _, _, _⟩ <;> rcases rr with _ | ⟨_ | _, _, _, _, _⟩ <;> cases c <;> rb_auto2

/-- `fixAfterDeleteRight` with a black sibling -/
theorem fixDelRB_inv (c : Color) (l : Tree α β) (k : α) (v : β) (r : Tree α β)
    (hbl : Bal l) (hnl : NoRR l) (hbr : Bal r) (hnr : NoRR r) (hlc : l.color = .black)
    (hbh : bh r + 1 = bh l) (hrc : r.color = .black) :
    FixInv c (bh l + (if c = .black then 1 else 0)) (fixDelRB c l k v r) := by
  unfold fixDelRB
  rcases l with _ | ⟨_ | _, ll, lk, lv, lr⟩
  · rb_auto2
  · rb_auto2
  · rcases ll with _ | ⟨_ | _, _, _, _, _⟩ <;> rcases lr with _ | ⟨_ | _, _, _, _, _⟩ <;> cases c <;> rb_auto2

/-- `fixAfterDeleteLeft` (red sibling ⇒ rotate, then the black-sibling cases under a red parent) -/
theorem fixDelL_inv (c : Color) (l : Tree α β) (k : α) (v : β) (r : Tree α β)
    (hbl : Bal l) (hnl : NoRR l) (hbr : Bal r) (hnr : NoRR r)
    (hbh : bh l + 1 = bh r) (hlc : l.color = .black) (hcol : c = .red → r.color = .black) :
    FixInv c (bh r + (if c = .black then 1 else 0)) (fixDelL c l k v r) := by
  rcases r with _ | ⟨_ | _, rl, rk, rv, rr⟩
  · simp [bh] at hbh
  · -- red sibling: its children are black and one level higher than `l`
    have hc : c = .black := by
      cases c with
      | red => simp at hcol
      | black => rfl
    subst hc
    simp only [NoRR, Bal, bh] at hbr hnr hbh
    obtain ⟨hb1, hb2, hb3⟩ := hbr
    obtain ⟨hn1, hn2, hn3⟩ := hnr
    have hrl : rl.color = .black := (hn1 trivial).1
    have hrr : rr.color = .black := (hn1 trivial).2
    have := fixDelLB_inv .red l k v rl hbl hnl hb2 hn2 hrl (by simpa using hbh) hlc
    obtain ⟨f1, f2, f3, f4, f5, f6⟩ := this
    have f6' := f6 rfl
    simp only [fixDelL]
    constructor <;> simp_all [NoRR, Bal, bh]
  · exact fixDelLB_inv c l k v _ hbl hnl hbr hnr rfl hbh hlc

theorem fixDelR_inv (c : Color) (l : Tree α β) (k : α) (v : β) (r : Tree α β)
    (hbl : Bal l) (hnl : NoRR l) (hbr : Bal r) (hnr : NoRR r)
    (hbh : bh r + 1 = bh l) (hrc : r.color = .black) (hcol : c = .red → l.color = .black) :
    FixInv c (bh l + (if c = .black then 1 else 0)) (fixDelR c l k v r) := by
  rcases l with _ | ⟨_ | _, ll, lk, lv, lr⟩
  · simp [bh] at hbh
  · have hc : c = .black := by
      cases c with
      | red => simp at hcol
      | black => rfl
    subst hc
    simp only [NoRR, Bal, bh] at hbl hnl hbh
    obtain ⟨hb1, hb2, hb3⟩ := hbl
    obtain ⟨hn1, hn2, hn3⟩ := hnl
    have hll : ll.color = .black := (hn1 trivial).1
    have hlr : lr.color = .black := (hn1 trivial).2
    have := fixDelRB_inv .red lr k v r hb3 hn3 hbr hnr hlr (by simp at hbh; omega) hrc
    obtain ⟨f1, f2, f3, f4, f5, f6⟩ := this
    have f6' := f6 rfl
    simp only [fixDelR]
    constructor <;> simp_all [NoRR, Bal, bh] <;> omega
  · exact fixDelRB_inv c _ k v r hbl hnl hbr hnr rfl hbh hrc

/-- unlinking a node with at most one child -/
theorem spliceOut_inv (c : Color) (l : Tree α β) (k : α) (v : β) (r : Tree α β)
    (hn : NoRR (node c l k v r)) (hb : Bal (node c l k v r)) (h1 : l = nil ∨ r = nil) :
    DelInv (node c l k v r) (spliceOut c l r) := by
  unfold spliceOut
  rcases h1 with rfl | rfl
  · rcases r with _ | ⟨_ | _, _, _, _, _⟩ <;> cases c <;> rb_auto2
  · rcases l with _ | ⟨_ | _, _, _, _, _⟩ <;> cases c <;> rb_auto2

/-- re-attaching the left subtree after a deletion inside it -/
theorem balL_inv (c : Color) (l : Tree α β) (res : Tree α β × Bool) (k : α) (v : β) (r : Tree α β)
    (hd : DelInv l res) (hn : NoRR (node c l k v r)) (hb : Bal (node c l k v r)) :
    DelInv (node c l k v r) (balL c res k v r) := by
  obtain ⟨d1, d2, d3, d4, d5⟩ := hd
  simp only [NoRR] at hn
  simp only [Bal] at hb
  obtain ⟨hcol, hnl, hnr⟩ := hn
  obtain ⟨hbh, hbl, hbr⟩ := hb
  unfold balL
  by_cases hs : res.2 = true
  · simp only [hs, if_true] at d3 ⊢
    have := fixDelL_inv c res.1 k v r d1 d2 hbr hnr (by omega) (d5 hs) (fun h => (hcol h).2)
    obtain ⟨f1, f2, f3, f4, f5, f6⟩ := this
    exact ⟨f1, f2, by simp only [bh]; omega, by simpa using f4, f5⟩
  · have hs' : res.2 = false := by simpa using hs
    simp only [hs', Bool.false_eq_true, if_false] at d3 ⊢
    refine ⟨by simp only [Bal]; exact ⟨by omega, d1, hbr⟩, ?_, by simp only [bh, Bool.false_eq_true, if_false]; omega, by simp, by simp⟩
    simp only [NoRR]
    exact ⟨fun h => ⟨d4 (hcol h).1, (hcol h).2⟩, d2, hnr⟩

theorem balR_inv (c : Color) (l : Tree α β) (k : α) (v : β) (r : Tree α β) (res : Tree α β × Bool)
    (hd : DelInv r res) (hn : NoRR (node c l k v r)) (hb : Bal (node c l k v r)) :
    DelInv (node c l k v r) (balR c l k v res) := by
  obtain ⟨d1, d2, d3, d4, d5⟩ := hd
  simp only [NoRR] at hn
  simp only [Bal] at hb
  obtain ⟨hcol, hnl, hnr⟩ := hn
  obtain ⟨hbh, hbl, hbr⟩ := hb
  unfold balR
  by_cases hs : res.2 = true
  · simp only [hs, if_true] at d3 ⊢
    have := fixDelR_inv c l k v res.1 hbl hnl d1 d2 (by omega) (d5 hs) (fun h => (hcol h).1)
    obtain ⟨f1, f2, f3, f4, f5, f6⟩ := this
    exact ⟨f1, f2, by simp only [bh]; omega, by simpa using f4, f5⟩
  · have hs' : res.2 = false := by simpa using hs
    simp only [hs', Bool.false_eq_true, if_false] at d3 ⊢
    refine ⟨by simp only [Bal]; exact ⟨by omega, hbl, d1⟩, ?_, by simp only [bh, Bool.false_eq_true, if_false]; omega, by simp, by simp⟩
    simp only [NoRR]
    exact ⟨fun h => ⟨(hcol h).1, d4 (hcol h).2⟩, hnl, d2⟩

/-- removing the leftmost node (`findSuccessor` + unlink) -/
theorem delMin_inv (c : Color) (l : Tree α β) (k : α) (v : β) (r : Tree α β)
    (hn : NoRR (node c l k v r)) (hb : Bal (node c l k v r)) :
    DelInv (node c l k v r) (delMin c l k v r).2 := by
  induction l generalizing c k v r with
  | nil =>
    simp only [delMin]
    exact spliceOut_inv c nil k v r hn hb (Or.inl rfl)
  | node lc ll lk lv lr ih _ =>
    simp only [delMin]
    have hn' := hn
    have hb' := hb
    simp only [NoRR] at hn'
    simp only [Bal] at hb'
    exact balL_inv c (node lc ll lk lv lr) _ k v r (ih lc lk lv lr hn'.2.1 hb'.2.1) hn hb

/-- `deleteNode` below any node of a valid tree -/
theorem del_inv (cmp : α → α → Int) (k : α) (t : Tree α β) (x : β) (res : Tree α β × Bool)
    (hn : NoRR t) (hb : Bal t) (h : del cmp k t = some (x, res)) : DelInv t res := by
  induction t generalizing x res with
  | nil => simp [del] at h
  | node c l k' v' r ihl ihr =>
    have hn' := hn
    have hb' := hb
    simp only [NoRR] at hn'
    simp only [Bal] at hb'
    simp only [del] at h
    split at h
    · cases hi : del cmp k l with
      | none => simp [hi] at h
      | some xr =>
        obtain ⟨x1, res1⟩ := xr
        simp only [hi, Option.some.injEq, Prod.mk.injEq] at h
        obtain ⟨_, rfl⟩ := h
        exact balL_inv c l res1 k' v' r (ihl x1 res1 hn'.2.1 hb'.2.1 hi) hn hb
    · split at h
      · cases hi : del cmp k r with
        | none => simp [hi] at h
        | some xr =>
          obtain ⟨x1, res1⟩ := xr
          simp only [hi, Option.some.injEq, Prod.mk.injEq] at h
          obtain ⟨_, rfl⟩ := h
          exact balR_inv c l k' v' r res1 (ihr x1 res1 hn'.2.2 hb'.2.2 hi) hn hb
      · cases l with
        | nil =>
          simp only [Option.some.injEq, Prod.mk.injEq] at h
          obtain ⟨_, rfl⟩ := h
          exact spliceOut_inv c nil k' v' r hn hb (Or.inl rfl)
        | node lc ll lk lv lr =>
          cases r with
          | nil =>
            simp only [Option.some.injEq, Prod.mk.injEq] at h
            obtain ⟨_, rfl⟩ := h
            exact spliceOut_inv c _ k' v' nil hn hb (Or.inr rfl)
          | node rc rl rk rv rr =>
            simp only [Option.some.injEq, Prod.mk.injEq] at h
            obtain ⟨_, rfl⟩ := h
            -- the successor's key/value replace the node's: colours and shape are those of `balR`
            have hm := delMin_inv rc rl rk rv rr hn'.2.2 hb'.2.2
            have := balR_inv c (node lc ll lk lv lr) (delMin rc rl rk rv rr).1.1 (delMin rc rl rk rv rr).1.2
              (node rc rl rk rv rr) (delMin rc rl rk rv rr).2 hm
              (by simpa only [NoRR] using hn') (by simpa only [Bal] using hb')
            obtain ⟨f1, f2, f3, f4, f5⟩ := this
            exact ⟨f1, f2, by simpa only [bh] using f3, by simpa using f4, f5⟩

/-- `Delete` keeps: black root, no red-red, balanced -/
theorem delete_inv (cmp : α → α → Int) (k : α) (t t' : Tree α β) (x : β)
    (hc : t.color = .black) (hn : NoRR t) (hb : Bal t)
    (h : delete cmp t k = some (x, t')) : t'.color = .black ∧ NoRR t' ∧ Bal t' := by
  unfold delete at h
  cases hi : del cmp k t with
  | none => simp [hi] at h
  | some xr =>
    obtain ⟨x1, res⟩ := xr
    simp only [hi, Option.some.injEq, Prod.mk.injEq] at h
    obtain ⟨_, rfl⟩ := h
    have := del_inv cmp k t x1 res hn hb hi
    exact ⟨this.black hc, this.noRR, this.bal⟩

end Tree
end Ekit.RB
