/- Helper lemmas for C16: association-list maps, slice.ToMap(V), mapx and pair. Core Lean only. -/
import Ekit.Model.SlicesKV
import Ekit.Lemmas.SlicesSeq

namespace Ekit.Slices
open Ekit.Go

/-! ### association lists -/
section AMap
variable {κ ν : Type} [DecidableEq κ]

theorem amGet_amPut (m : AMap κ ν) (k : κ) (v : ν) (k' : κ) :
    amGet (amPut m k v) k' = if k = k' then some v else amGet m k' := by
  induction m with
  | nil => simp [amPut, amGet]
  | cons e r ih =>
    obtain ⟨k0, v0⟩ := e
    unfold amPut
    by_cases h : k0 = k
    · subst h
      by_cases h2 : k0 = k'
      · simp [amGet, h2]
      · simp [amGet, h2]
    · simp only [h, if_false]
      by_cases h2 : k0 = k'
      · subst h2
        have : ¬ k = k0 := fun e => h e.symm
        simp [amGet, this]
      · simp [amGet, h2, ih]

theorem mem_amKeys_amPut (m : AMap κ ν) (k : κ) (v : ν) (x : κ) :
    x ∈ amKeys (amPut m k v) ↔ x ∈ amKeys m ∨ x = k := by
  induction m with
  | nil => simp [amPut, amKeys]
  | cons e r ih =>
    obtain ⟨k0, v0⟩ := e
    unfold amPut
    by_cases h : k0 = k
    · subst h
      simp only [if_true, amKeys, List.map_cons, List.mem_cons]
      constructor
      · rintro (h1 | h1)
        · exact Or.inl (Or.inl h1)
        · exact Or.inl (Or.inr h1)
      · rintro ((h1 | h1) | h1)
        · exact Or.inl h1
        · exact Or.inr h1
        · exact Or.inl h1
    · simp only [h, if_false]
      simp only [amKeys, List.map_cons, List.mem_cons] at ih ⊢
      rw [ih]
      constructor
      · rintro (h1 | h1 | h1)
        · exact Or.inl (Or.inl h1)
        · exact Or.inl (Or.inr h1)
        · exact Or.inr h1
      · rintro ((h1 | h1) | h1)
        · exact Or.inl h1
        · exact Or.inr (Or.inl h1)
        · exact Or.inr (Or.inr h1)

theorem nodup_amKeys_amPut (m : AMap κ ν) (k : κ) (v : ν) (h : (amKeys m).Nodup) :
    (amKeys (amPut m k v)).Nodup := by
  induction m with
  | nil => simp [amPut, amKeys]
  | cons e r ih =>
    obtain ⟨k0, v0⟩ := e
    simp only [amKeys, List.map_cons, List.nodup_cons] at h
    unfold amPut
    by_cases hk : k0 = k
    · subst hk
      simp only [if_true, amKeys, List.map_cons, List.nodup_cons]
      exact h
    · simp only [hk, if_false, amKeys, List.map_cons, List.nodup_cons]
      refine ⟨?_, ih h.2⟩
      intro hmem
      have := (mem_amKeys_amPut r k v k0).mp hmem
      rcases this with h1 | h1
      · exact h.1 h1
      · exact hk h1

/-- a fresh key is appended -/
theorem amPut_fresh (m : AMap κ ν) (k : κ) (v : ν) (h : k ∉ amKeys m) : amPut m k v = m ++ [(k, v)] := by
  induction m with
  | nil => rfl
  | cons e r ih =>
    obtain ⟨k0, v0⟩ := e
    simp only [amKeys, List.map_cons, List.mem_cons, not_or] at h
    unfold amPut
    have : ¬ k0 = k := fun e => h.1 e.symm
    simp only [this, if_false, List.cons_append]
    rw [ih h.2]

theorem amGet_eq_none_iff (m : AMap κ ν) (k : κ) : amGet m k = none ↔ k ∉ amKeys m := by
  induction m with
  | nil => simp [amGet, amKeys]
  | cons e r ih =>
    obtain ⟨k0, v0⟩ := e
    unfold amGet
    by_cases h : k0 = k
    · subst h; simp [amKeys]
    · have h' : ¬ k = k0 := fun e => h e.symm
      simp only [h, if_false, ih, amKeys, List.map_cons, List.mem_cons, not_or]
      constructor
      · intro h1; exact ⟨h', h1⟩
      · intro h1; exact h1.2

theorem amGet_some_mem {m : AMap κ ν} {k : κ} {v : ν} (h : amGet m k = some v) : (k, v) ∈ m := by
  induction m with
  | nil => simp [amGet] at h
  | cons e r ih =>
    obtain ⟨k0, v0⟩ := e
    unfold amGet at h
    by_cases hk : k0 = k
    · subst hk
      simp at h
      subst h
      exact List.mem_cons_self
    · simp only [hk, if_false] at h
      exact List.mem_cons_of_mem _ (ih h)

theorem amGet_of_mem {m : AMap κ ν} (hn : (amKeys m).Nodup) {k : κ} {v : ν} (h : (k, v) ∈ m) :
    amGet m k = some v := by
  induction m with
  | nil => cases h
  | cons e r ih =>
    obtain ⟨k0, v0⟩ := e
    simp only [amKeys, List.map_cons, List.nodup_cons] at hn
    unfold amGet
    rcases List.mem_cons.mp h with h1 | h1
    · cases h1; simp
    · have : k0 ≠ k := by
        intro e; subst e
        exact hn.1 (List.mem_map_of_mem (f := (·.1)) h1)
      simp only [this, if_false]
      exact ih hn.2 h1

/-- `m[k] = v` for the pairs of `kvs` in order: the last binding of a key wins, other keys keep their value -/
theorem amGet_foldl_put (kvs : List (κ × ν)) (m0 : AMap κ ν) (k : κ) :
    amGet (kvs.foldl (fun m e => amPut m e.1 e.2) m0) k =
      match Spec.lastBinding kvs k with
      | some v => some v
      | none => amGet m0 k := by
  induction kvs generalizing m0 with
  | nil => simp [Spec.lastBinding]
  | cons e r ih =>
    simp only [List.foldl_cons]
    rw [ih]
    unfold Spec.lastBinding
    simp only [List.reverse_cons, List.find?_append]
    cases hf : List.find? (fun e => decide (e.1 = k)) r.reverse with
    | some x => simp
    | none =>
      simp only [Option.map_none, Option.none_or]
      rw [amGet_amPut]
      by_cases hk : e.1 = k
      · simp [hk]
      · simp [hk]

theorem nodup_amKeys_foldl_put (kvs : List (κ × ν)) (m0 : AMap κ ν) (h : (amKeys m0).Nodup) :
    (amKeys (kvs.foldl (fun m e => amPut m e.1 e.2) m0)).Nodup := by
  induction kvs generalizing m0 with
  | nil => exact h
  | cons e r ih => exact ih _ (nodup_amKeys_amPut m0 e.1 e.2 h)

theorem mem_amKeys_foldl_put (kvs : List (κ × ν)) (m0 : AMap κ ν) (x : κ) :
    x ∈ amKeys (kvs.foldl (fun m e => amPut m e.1 e.2) m0) ↔ x ∈ amKeys m0 ∨ x ∈ kvs.map (·.1) := by
  induction kvs generalizing m0 with
  | nil => simp
  | cons e r ih =>
    simp only [List.foldl_cons, ih, mem_amKeys_amPut, List.map_cons, List.mem_cons]
    constructor
    · rintro ((h | h) | h)
      · exact Or.inl h
      · exact Or.inr (Or.inl h)
      · exact Or.inr (Or.inr h)
    · rintro (h | h | h)
      · exact Or.inl (Or.inl h)
      · exact Or.inl (Or.inr h)
      · exact Or.inr h

/-- with pairwise distinct keys nothing is overwritten: the map is the list of pairs itself -/
theorem foldl_put_nodup (kvs : List (κ × ν)) (m0 : AMap κ ν)
    (h : (amKeys m0 ++ kvs.map (·.1)).Nodup) :
    kvs.foldl (fun m e => amPut m e.1 e.2) m0 = m0 ++ kvs := by
  induction kvs generalizing m0 with
  | nil => simp
  | cons e r ih =>
    simp only [List.foldl_cons]
    have hfresh : e.1 ∉ amKeys m0 := by
      intro hm
      rw [List.nodup_append] at h
      exact h.2.2 e.1 hm e.1 (by simp) rfl
    rw [amPut_fresh _ _ _ hfresh, ih]
    · simp
    · simp only [amKeys, List.map_append, List.map_cons, List.map_nil, List.append_assoc,
        List.singleton_append] at h ⊢
      exact h

theorem lastBinding_eq_none_iff (kvs : List (κ × ν)) (k : κ) :
    Spec.lastBinding kvs k = none ↔ k ∉ kvs.map (·.1) := by
  unfold Spec.lastBinding
  simp only [Option.map_eq_none_iff, List.find?_eq_none, List.mem_reverse, decide_eq_true_eq,
    List.mem_map, not_exists, not_and]

end AMap

/-! ### slice.ToMapV -/

theorem toMapV_foldl {α κ ν} [DecidableEq κ] (elements : List α) (fn : α → κ × ν) :
    toMapV elements fn = (elements.map fn).foldl (fun m e => amPut m e.1 e.2) [] := by
  unfold toMapV
  rw [List.foldl_map]

/-! ### mapx -/
section Mapx
variable {κ ν : Type} [DecidableEq κ]

theorem foldl_append_singleton {β γ} (f : β → γ) (it : List β) (acc : List γ) :
    it.foldl (fun res k => res ++ [f k]) acc = acc ++ it.map f := by
  induction it generalizing acc with
  | nil => simp
  | cons k r ih => simp [ih]

omit [DecidableEq κ] in
theorem mxKeys_eq (it : List κ) : mxKeys it = it := by
  unfold mxKeys
  rw [foldl_append_singleton (fun k => k)]; simp

theorem mxValues_eq [Inhabited ν] (m : AMap κ ν) (it : List κ) :
    mxValues m it = it.map (fun k => (amGet m k).getD default) := by
  unfold mxValues
  rw [foldl_append_singleton (fun k => (amGet m k).getD default)]; simp

theorem mxKeysValues_eq [Inhabited ν] (m : AMap κ ν) (it : List κ) :
    mxKeysValues m it = (it, it.map (fun k => (amGet m k).getD default)) := by
  unfold mxKeysValues
  have : ∀ (ks : List κ) (vs : List ν),
      it.foldl (fun (x : List κ × List ν) k => (x.1 ++ [k], x.2 ++ [(amGet m k).getD default])) (ks, vs) =
        (ks ++ it, vs ++ it.map (fun k => (amGet m k).getD default)) := by
    induction it with
    | nil => simp
    | cons k r ih => intro ks vs; simp [ih]
  have h := this [] []
  simp only [List.nil_append] at h
  exact h

/-- looking every key of a well-formed map up gives back its entries -/
theorem map_lookup_self [Inhabited ν] (m : AMap κ ν) (hn : (amKeys m).Nodup) :
    (amKeys m).map (fun k => (k, (amGet m k).getD default)) = m := by
  have : ∀ e, e ∈ m → (fun k => (k, (amGet m k).getD default)) e.1 = e := by
    intro e he
    obtain ⟨k, v⟩ := e
    simp [amGet_of_mem hn he]
  unfold amKeys
  rw [List.map_map]
  conv => rhs; rw [← List.map_id m]
  apply List.map_congr_left
  intro e he
  exact this e he

theorem mxToMap_loop (ks : List κ) (vs : List ν) (hlen : ks.length = vs.length) (c : Nat) :
    ∀ (i : Nat) (m : AMap κ ν), i + c = ks.length →
    forRange (fun i m =>
        match idx? ks i, idx? vs i with
        | .ok k, .ok v => .ok (amPut m k v)
        | _, _ => .panic panicIndex) i c m
      = .ok (((ks.zip vs).drop i).foldl (fun m e => amPut m e.1 e.2) m) := by
  induction c with
  | zero =>
    intro i m h
    have : (ks.zip vs).drop i = [] := by simp; omega
    simp [forRange, this]
  | succ c ih =>
    intro i m h
    have hk : i < ks.length := by omega
    have hv : i < vs.length := by omega
    have hz : i < (ks.zip vs).length := by simp; omega
    unfold forRange
    rw [idx?_of_lt hk, idx?_of_lt hv]
    simp only []
    rw [ih (i + 1) _ (by omega), List.drop_eq_getElem_cons hz, List.foldl_cons]
    simp

theorem mxToMap_ok (ks : List κ) (vs : List ν) (hlen : ks.length = vs.length) :
    mxToMap (some ks) (some vs) = .ok ((ks.zip vs).foldl (fun m e => amPut m e.1 e.2) []) := by
  unfold mxToMap
  simp only [hlen, ne_eq, not_true_eq_false, if_false, Nat.sub_zero]
  have := mxToMap_loop ks vs hlen vs.length 0 [] (by omega)
  rw [List.drop_zero] at this
  exact this

theorem map_fst_pairing {β γ} (l : List β) (f : β → γ) :
    (l.map (fun k => (k, f k))).map (·.1) = l := by
  induction l with
  | nil => rfl
  | cons a r ih => simp only [List.map_cons, ih]

theorem zip_map_self {β γ} (l : List β) (f : β → γ) : l.zip (l.map f) = l.map (fun k => (k, f k)) := by
  induction l with
  | nil => rfl
  | cons a r ih => simp [ih]

theorem amGet_perm {m m' : AMap κ ν} (hn : (amKeys m).Nodup) (hp : m'.Perm m) (k : κ) :
    amGet m' k = amGet m k := by
  have hn' : (amKeys m').Nodup := (List.Perm.nodup_iff (hp.map (fun e : κ × ν => e.1))).mpr hn
  cases h : amGet m k with
  | some v => exact amGet_of_mem hn' ((List.Perm.mem_iff hp).mpr (amGet_some_mem h))
  | none =>
    rw [amGet_eq_none_iff] at h ⊢
    intro hk
    exact h ((List.Perm.mem_iff (hp.map (fun e : κ × ν => e.1))).mp hk)

end Mapx

/-! ### pair -/
section Pair
variable {κ ν : Type}

theorem newPairs_loop [Inhabited κ] [Inhabited ν] (ks : List κ) (vs : List ν)
    (hlen : ks.length = vs.length) (c : Nat) :
    ∀ (i : Nat) (pairs : List (κ × ν)), i + c = ks.length → pairs.length = ks.length →
    forRange (fun i pairs =>
        match idx? ks i, idx? vs i with
        | .ok k, .ok v => set? pairs i (k, v)
        | _, _ => .panic panicIndex) i c pairs
      = .ok (pairs.take i ++ (ks.zip vs).drop i) := by
  induction c with
  | zero =>
    intro i pairs h hp
    have : (ks.zip vs).drop i = [] := by simp; omega
    have h2 : pairs.take i = pairs := by rw [List.take_of_length_le]; omega
    simp [forRange, this, h2]
  | succ c ih =>
    intro i pairs h hp
    have hk : i < ks.length := by omega
    have hv : i < vs.length := by omega
    have hpi : i < pairs.length := by omega
    have hz : i < (ks.zip vs).length := by simp; omega
    unfold forRange
    rw [idx?_of_lt hk, idx?_of_lt hv]
    simp only []
    rw [set?_of_lt _ hpi]
    simp only []
    rw [ih (i + 1) _ (by omega) (by simp; omega), take_succ_set _ _ _ hpi,
      List.drop_eq_getElem_cons hz]
    simp

theorem newPairs_ok [Inhabited κ] [Inhabited ν] (ks : List κ) (vs : List ν)
    (hlen : ks.length = vs.length) : newPairs (some ks) (some vs) = .ok (ks.zip vs) := by
  unfold newPairs
  simp only [hlen, ne_eq, not_true_eq_false, if_false, Nat.sub_zero]
  have := newPairs_loop ks vs hlen vs.length 0 (List.replicate vs.length default) (by omega) (by simp; omega)
  simp only [List.take_zero, List.nil_append, List.drop_zero] at this
  exact this

theorem splitLoop_spec (ps : List (κ × ν)) : ∀ (i : Nat) (keys : List κ) (values : List ν),
    keys.length = i + ps.length → values.length = i + ps.length →
    splitLoop i ps (keys, values) =
      .ok (keys.take i ++ ps.map (·.1), values.take i ++ ps.map (·.2)) := by
  induction ps with
  | nil =>
    intro i keys values hk hv
    simp at hk hv
    simp only [splitLoop, List.map_nil, List.append_nil]
    rw [List.take_of_length_le (by omega), List.take_of_length_le (by omega)]
  | cons p r ih =>
    intro i keys values hk hv
    obtain ⟨k, v⟩ := p
    simp at hk hv
    have h1 : i < keys.length := by omega
    have h2 : i < values.length := by omega
    unfold splitLoop
    rw [set?_of_lt _ h1, set?_of_lt _ h2]
    simp only []
    rw [ih (i + 1) _ _ (by simp; omega) (by simp; omega), take_succ_set _ _ _ h1, take_succ_set _ _ _ h2]
    simp

theorem splitPairs_some [Inhabited κ] [Inhabited ν] (ps : List (κ × ν)) :
    splitPairs (some ps) = .ok (some (ps.map (·.1)), some (ps.map (·.2))) := by
  unfold splitPairs
  simp only []
  rw [splitLoop_spec ps 0 _ _ (by simp) (by simp)]
  simp

theorem flattenPairs_some {δ} (injK : κ → δ) (injV : ν → δ) (ps : List (κ × ν)) :
    flattenPairs injK injV (some ps) = some (ps.flatMap (fun p => [injK p.1, injV p.2])) := by
  unfold flattenPairs
  simp only []
  congr 1
  have : ∀ acc : List δ, ps.foldl (fun flat p => flat ++ [injK p.1, injV p.2]) acc =
      acc ++ ps.flatMap (fun p => [injK p.1, injV p.2]) := by
    induction ps with
    | nil => simp
    | cons p r ih => intro acc; simp [ih]
  simpa using this []

/-- the loop of PackPairs, from pair `i`: if the remaining positions hold what `ps` says, it fills them in -/
theorem packPairs_loop {δ} [Inhabited κ] [Inhabited ν] (castK : δ → Option κ) (castV : δ → Option ν)
    (fl : List δ) (ps : List (κ × ν))
    (hk : ∀ i, i < ps.length → fl[i * 2]?.bind castK = some (ps.getD i default).1)
    (hv : ∀ i, i < ps.length → fl[i * 2 + 1]?.bind castV = some (ps.getD i default).2)
    (c : Nat) : ∀ (i : Nat) (pairs : List (κ × ν)), i + c = ps.length → pairs.length = ps.length →
    forRange (packBody castK castV fl) i c pairs
      = .ok (pairs.take i ++ ps.drop i) := by
  induction c with
  | zero =>
    intro i pairs h hp
    have : ps.drop i = [] := by simp; omega
    have h2 : pairs.take i = pairs := by rw [List.take_of_length_le]; omega
    simp [forRange, this, h2]
  | succ c ih =>
    intro i pairs h hp
    have hi : i < ps.length := by omega
    have hpi : i < pairs.length := by omega
    have hk' := hk i hi
    have hv' := hv i hi
    unfold forRange
    cases ha : fl[i * 2]? with
    | none => simp [ha] at hk'
    | some a =>
      cases hb : fl[i * 2 + 1]? with
      | none => simp [hb] at hv'
      | some b =>
        simp only [ha, Option.bind_some] at hk'
        simp only [hb, Option.bind_some] at hv'
        have ia : idx? fl (i * 2) = .ok a := by simp [idx?, ha]
        have ib : idx? fl (i * 2 + 1) = .ok b := by simp [idx?, hb]
        have hbody : packBody castK castV fl i pairs =
            .ok (pairs.set i ((ps.getD i default).1, (ps.getD i default).2)) := by
          simp only [packBody, ia, hk', ib, hv']
          exact set?_of_lt _ hpi
        rw [hbody]
        simp only []
        rw [ih (i + 1) _ (by omega) (by simp; omega), take_succ_set _ _ _ hpi,
          List.drop_eq_getElem_cons hi]
        have : (ps.getD i default) = ps[i] := by simp [List.getD, List.getElem?_eq_getElem hi]
        rw [this]
        simp
        exact (List.drop_eq_getElem_cons hi).symm

/-- the only panic PackPairs can raise is the failed type assertion (never an index panic) -/
theorem packPairs_loop_panic {δ} [Inhabited κ] [Inhabited ν] (castK : δ → Option κ) (castV : δ → Option ν)
    (fl : List δ) (n : Nat) (hn : n * 2 ≤ fl.length) (c : Nat) :
    ∀ (i : Nat) (pairs : List (κ × ν)), i + c = n → pairs.length = n →
    (∃ ps, forRange (packBody castK castV fl) i c pairs = .ok ps ∧ ps.length = n) ∨
    forRange (packBody castK castV fl) i c pairs = .panic panicCast := by
  induction c with
  | zero => intro i pairs h hp; left; exact ⟨pairs, by simp [forRange], hp⟩
  | succ c ih =>
    intro i pairs h hp
    have h1 : i * 2 < fl.length := by omega
    have h2 : i * 2 + 1 < fl.length := by omega
    have hpi : i < pairs.length := by omega
    unfold forRange
    cases hk : castK fl[i * 2] with
    | none =>
      right
      have : packBody castK castV fl i pairs = .panic panicCast := by
        simp only [packBody, idx?_of_lt h1, hk]
      rw [this]
    | some k =>
      cases hv : castV fl[i * 2 + 1] with
      | none =>
        right
        have : packBody castK castV fl i pairs = .panic panicCast := by
          simp only [packBody, idx?_of_lt h1, hk, idx?_of_lt h2, hv]
        rw [this]
      | some v =>
        have : packBody castK castV fl i pairs = .ok (pairs.set i (k, v)) := by
          simp only [packBody, idx?_of_lt h1, hk, idx?_of_lt h2, hv]
          exact set?_of_lt _ hpi
        rw [this]
        simp only []
        exact ih (i + 1) _ (by omega) (by simp; omega)

/-- positions of the flattened list -/
theorem flatMap_pair_getElem? {δ} (f g : κ × ν → δ) (ps : List (κ × ν)) (i : Nat) :
    (ps.flatMap (fun p => [f p, g p]))[i * 2]? = ps[i]?.map f ∧
    (ps.flatMap (fun p => [f p, g p]))[i * 2 + 1]? = ps[i]?.map g := by
  induction ps generalizing i with
  | nil => simp
  | cons p r ih =>
    cases i with
    | zero => simp
    | succ i =>
      have e1 : (i + 1) * 2 = i * 2 + 1 + 1 := by omega
      have e2 : (i + 1) * 2 + 1 = (i * 2 + 1) + 1 + 1 := by omega
      simp only [List.flatMap_cons, List.cons_append, List.nil_append]
      rw [e2, e1]
      simp only [List.getElem?_cons_succ]
      exact ih i

theorem length_flatMap_pair {δ} (f g : κ × ν → δ) (ps : List (κ × ν)) :
    (ps.flatMap (fun p => [f p, g p])).length = ps.length * 2 := by
  induction ps with
  | nil => rfl
  | cons p r ih => simp only [List.flatMap_cons, List.length_append, ih]; simp; omega

end Pair
end Ekit.Slices
