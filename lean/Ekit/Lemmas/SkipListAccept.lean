/- The executable pieces of the skip-list specification acceptor (`Spec.sorted`, `Spec.permB`) mean
   what they should (C05).  Core Lean only. -/
import Ekit.Lemmas.SkipListSpec

namespace Ekit.SkipList
open Ekit.Cmp Ekit.Go

theorem sorted_iff (cmp : Cmp) (l : List Int) :
    Spec.sorted cmp l = true ↔ l.Pairwise (fun a b => cmp a b ≤ 0) := by
  induction l with
  | nil => simp [Spec.sorted]
  | cons x t ih =>
    simp only [Spec.sorted, Bool.and_eq_true, List.all_eq_true, decide_eq_true_eq, List.pairwise_cons, ih]

theorem permB_of_perm {a b : List Int} (h : a.Perm b) : Spec.permB a b = true := by
  induction a generalizing b with
  | nil => simp [Spec.permB, h.symm.eq_nil]
  | cons x a ih =>
    have hx : x ∈ b := h.mem_iff.mp List.mem_cons_self
    have h2 : a.Perm (b.erase x) := by
      have := h.erase x
      simpa using this
    simp only [Spec.permB, Bool.and_eq_true, List.contains_iff_mem]
    exact ⟨hx, ih h2⟩

theorem perm_of_permB {a b : List Int} (h : Spec.permB a b = true) : a.Perm b := by
  induction a generalizing b with
  | nil =>
    simp only [Spec.permB, List.isEmpty_iff] at h
    subst h; exact List.Perm.refl _
  | cons x a ih =>
    simp only [Spec.permB, Bool.and_eq_true, List.contains_iff_mem] at h
    exact (List.Perm.cons x (ih h.2)).trans (List.perm_cons_erase h.1).symm

end Ekit.SkipList
