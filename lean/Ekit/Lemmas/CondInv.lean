/- The structural invariant of the Cond model holds in every reachable state. -/
import Ekit.Lemmas.CondInv1
import Ekit.Lemmas.CondInv3
import Ekit.Lemmas.CondInv4
import Ekit.Lemmas.CondInv5
import Ekit.Lemmas.CondInv5b
import Ekit.Lemmas.CondInv6
import Ekit.Lemmas.CondInv6b
import Ekit.Lemmas.CondInv7
namespace Ekit.Cond
open Ekit.Conc

theorem isTgt_step {s s' : State} {l : Label} (h : Inv s) (hs : step s l = some s') :
    ∀ t n, (s'.pc t).node = some n → s'.tgt = some n → (s'.pc t).parked = true := by
  cases hg : l.grpA
  · exact isTgt_step_B h hs hg
  · exact isTgt_step_A h hs hg

theorem must_step {s s' : State} {l : Label} (h : Inv s) (hs : step s l = some s') :
    ∀ t n, (s'.pc t).node = some n → (s'.pc t).listPc = true →
      n ∈ s'.list ∨ n ∈ s'.full ∨ s'.tgt = some n := by
  cases hg : l.grpA
  · exact must_step_B h hs hg
  · exact must_step_A h hs hg

theorem inv_init : Inv init := by
  constructor <;> simp [init, Pc.inMu, Pc.node, Pc.popPc, Pc.needsL, Pc.pastInit, Pc.isFault, Pc.ctxArm,
    State.tgt]

theorem inv_step {s s' : State} {l : Label} (h : Inv s) (hs : step s l = some s') : Inv s' where
  mutex := mutex_step h hs
  muHeld := muHeld_step h hs
  own := own_step h hs
  fresh := fresh_step h hs
  poolFresh := poolFresh_step h hs
  listFresh := listFresh_step h hs
  fullFresh := fullFresh_step h hs
  poolNodup := poolNodup_step h hs
  listNodup := listNodup_step h hs
  fullNodup := fullNodup_step h hs
  poolFree := poolFree_step h hs
  poolClean := poolClean_step h hs
  listFull := listFull_step h hs
  tgtOK := tgtOK_step h hs
  inList := inList_step h hs
  inFull := inFull_step h hs
  isTgt := isTgt_step h hs
  must := must_step h hs
  popOK := popOK_step h hs
  lHeld := lHeld_step h hs
  initOK := initOK_step h hs
  chkOK := chkOK_step h hs
  noFault := noFault_step h hs
  ctxOK := ctxOK_step h hs
  ctxRes := ctxRes_step h hs

theorem inv_reachable {s : State} (hr : Reachable s) : Inv s :=
  System.invariant_induction sys.toSystem Inv inv_init (fun _ _ _ h hs => inv_step h hs) s hr

end Ekit.Cond
