/-
ParseInt is exact; conversions between integer types are the identity on values that fit;
FormatInt/FormatUint produce the canonical decimal numeral of their argument.
-/
import Ekit.Lemmas.ValueParse

namespace Ekit.Value
open Ekit.Go Spec

/-! ### two's-complement wrap-around -/

theorem wrapS64_def (x : Int) : wrapS 64 x =
    if x % 18446744073709551616 ≥ 9223372036854775808 then x % 18446744073709551616 - 18446744073709551616
    else x % 18446744073709551616 := by
  simp [wrapS]

theorem wrapS64_id {x : Int} (h1 : -9223372036854775808 ≤ x) (h2 : x < 9223372036854775808) : wrapS 64 x = x := by
  rw [wrapS64_def]; split <;> omega

/-- `-int64(un)` for `un ≤ 2^63` (the `un = 2^63` case wraps twice and lands on -2^63) -/
theorem wrapS64_neg_nat {un : Nat} (h : un ≤ 9223372036854775808) : wrapS 64 (-(wrapS 64 (un : Int))) = -(un : Int) := by
  rw [wrapS64_def (un : Int)]
  split
  · rw [wrapS64_def]; split <;> omega
  · rw [wrapS64_def]; split <;> omega

/-- **cast_exact**: converting a value that fits the target type changes nothing -/
theorem wrap_of_fits (t : IntT) (v : Int) (h : t.fits v) : t.wrap v = v := by
  cases t <;> simp [IntT.fits, IntT.signed, IntT.bits, fitsS, fitsU] at h <;>
    simp [IntT.wrap, IntT.signed, IntT.bits, wrapS, wrapU] <;> (try split) <;> omega

/-- a conversion always lands in the target type -/
theorem wrap_fits (t : IntT) (v : Int) : t.fits (t.wrap v) := by
  cases t <;> simp [IntT.fits, IntT.signed, IntT.bits, fitsS, fitsU, IntT.wrap, wrapS, wrapU] <;>
    (try split) <;> omega

/-! ### ParseInt -/

theorem pow_pred_facts {bits : Nat} (h2 : 2 ≤ bits) (h64 : bits ≤ 64) :
    2 ≤ 2 ^ (bits - 1) ∧ 2 ^ (bits - 1) ≤ 9223372036854775808 ∧ 2 ^ bits = 2 * 2 ^ (bits - 1) := by
  refine ⟨?_, ?_, ?_⟩
  · calc 2 = 2 ^ 1 := rfl
      _ ≤ 2 ^ (bits - 1) := Nat.pow_le_pow_right (by decide) (by omega)
  · calc 2 ^ (bits - 1) ≤ 2 ^ 63 := Nat.pow_le_pow_right (by decide) (by omega)
      _ = 9223372036854775808 := by decide
  · have : bits = (bits - 1) + 1 := by omega
    conv => lhs; rw [this, Nat.pow_succ]
    omega

theorem fitsS_iff (bits : Nat) (v : Int) (H : Nat) (hH : 2 ^ (bits - 1) = H) :
    fitsS bits v ↔ -(H : Int) ≤ v ∧ v < (H : Int) := by
  unfold fitsS
  have : ((2 : Int) ^ (bits - 1)) = ((2 ^ (bits - 1) : Nat) : Int) := by simp
  rw [this, hH]

/-- the sign-stripping of ParseInt and of the numeral grammar agree -/
theorem denoteS_cons (c : Nat) (rest : Str) :
    denoteS (c :: rest) =
      (denoteU (if c = 43 ∨ c = 45 then rest else c :: rest)).map
        (fun (n : Nat) => if c = 45 then -(n : Int) else (n : Int)) := by
  unfold denoteS
  by_cases h43 : c = 43
  · subst h43; simp; rfl
  · by_cases h45 : c = 45
    · subst h45; simp
    · simp [h43, h45]; rfl

/-- **ParseInt is exact** (base 10, 2 ≤ bitSize ≤ 64): it returns `v` without error iff the string is
`[+-]?[0-9]+`, denotes `v`, and `-2^(bitSize-1) ≤ v < 2^(bitSize-1)`. -/
theorem parseInt_exact (s : Str) (bits : Nat) (v : Int) (h2 : 2 ≤ bits) (h64 : bits ≤ 64) :
    parseInt s 10 bits = (v, none) ↔ denoteS s = some v ∧ fitsS bits v := by
  obtain ⟨hH2, hH63, hM⟩ := pow_pred_facts h2 h64
  cases s with
  | nil => simp [parseInt, denoteS]
  | cons c rest =>
    rw [denoteS_cons, fitsS_iff bits v _ rfl]
    unfold parseInt
    simp only
    generalize hs' : (if c = 43 ∨ c = 45 then rest else c :: rest) = s'
    have hb : bits ≠ 0 := by omega
    simp only [hb, if_false]
    have hex := fun u => parseUint_exact s' bits u (by omega) h64
    rcases hp : parseUint s' 10 bits with ⟨un, err⟩
    generalize hHd : 2 ^ (bits - 1) = H at *
    cases err with
    | none =>
      have hd := (hex un).mp hp
      simp only [hd.1, Option.map_some]
      by_cases hneg : c = 45
      · simp only [hneg, if_true, true_and, not_true, false_and, if_false]
        by_cases hgt : un > H
        · simp only [hgt, if_true]
          constructor
          · intro h; simp at h
          · intro ⟨h1, h2⟩; simp at h1; omega
        · simp only [hgt, if_false]
          rw [wrapS64_neg_nat (by omega)]
          constructor
          · intro h; simp at h; subst h; simp; omega
          · intro ⟨h1, _⟩; simp at h1; simp [h1]
      · simp only [hneg, if_false, not_false_eq_true, true_and, false_and]
        by_cases hge : un ≥ H
        · simp only [hge, if_true]
          constructor
          · intro h; simp at h
          · intro ⟨h1, h2⟩; simp at h1; omega
        · simp only [hge, if_false]
          rw [wrapS64_id (by omega) (by omega)]
          constructor
          · intro h; simp at h; subst h; simp; omega
          · intro ⟨h1, _⟩; simp at h1; simp [h1]
    | some e =>
      -- no numeral that fits can make ParseUint fail
      have hno : ¬ ∃ u, denoteU s' = some u ∧ u ≤ H := by
        intro ⟨u, hu, hle⟩
        have := (hex u).mpr ⟨hu, by omega⟩
        rw [hp] at this; simp at this
      have hrhs : ¬ (Option.map (fun n : Nat => if c = 45 then -(n : Int) else (n : Int)) (denoteU s') = some v ∧
          -(H : Int) ≤ v ∧ v < (H : Int)) := by
        intro ⟨h1, h2, h3⟩
        cases hd : denoteU s' with
        | none => simp [hd] at h1
        | some u =>
          simp [hd] at h1
          apply hno
          refine ⟨u, hd, ?_⟩
          split at h1 <;> omega
      rcases parseUint_err s' bits un e (by omega) h64 hp with ⟨he, hu⟩ | he
      · subst he
        simp only
        have hun : un = 2 * H - 1 := by omega
        by_cases hneg : c = 45
        · simp only [hneg, if_true, true_and, not_true, false_and, if_false]
          have : un > H := by omega
          simp only [this, if_true]
          constructor
          · intro h; simp at h
          · intro h; exact absurd (by simpa [hneg] using h) (by simpa [hneg] using hrhs)
        · simp only [hneg, if_false, not_false_eq_true, true_and, false_and]
          have : un ≥ H := by omega
          simp only [this, if_true]
          constructor
          · intro h; simp at h
          · intro h; exact absurd (by simpa [hneg] using h) (by simpa [hneg] using hrhs)
      · subst he
        simp only
        constructor
        · intro h; simp at h
        · intro h; exact absurd h hrhs

end Ekit.Value
