/-
Simulation of the hand-written skip-list model (Ekit/Model/SkipList.lean: the level-0 chain of (value, tower height) +
level + size, forward pointer on level `i` = next tower higher than `i`) by the MiniGo interpreter (Ekit/MiniGo/LangSK.lean)
running the program that `harness/minigosk` translated from internal/list/skip_list.go (Ekit/Generated/SkipListGo.lean).

What is proved here (PARTIAL — see the end of the file for what remains):
* `Rep st as s`: the representation relation between an interpreter state and a model state (addresses `as` of the
  level-0 chain; every forward array is what `forwardPos` says; header of height `MaxLevel`);
* `new_sim`: the translated constructor builds a state representing `SL.new`;
* `randomLevel_run`: the translated `randomLevel`, for EVERY coin stream `true^n, false, rest`, returns
  `min (n+1) MaxLevel`, consumes exactly those coins and changes nothing else — hence `1 ≤ h ≤ MaxLevel`, the only
  contract the `c05_sl_*` theorems demand of tower heights (`randomLevel_contract`);
* `len_sim`, `peek_sim`, `get_sim`: the translated `Len` / `Peek` / `Get` return what the model's `step` returns and leave
  the state alone (Get: the walk along level 0, by induction on the iteration count).
-/
import Ekit.Generated.SkipListGo
import Ekit.Model.SkipList

namespace Ekit.MiniGo.SK.Refine
open Ekit.MiniGo.SK Ekit.Gen.SkipListGo
open Ekit.SkipList (SL MaxLevel forwardPos)

/-- address of the node at (1-based) position `pos` of the level-0 chain; position 0 = nil -/
def addrAt (as : List Nat) (pos : Nat) : Option Nat := if pos = 0 then none else as[pos - 1]?

/-- the forward array of the node at position `pos` (0 = header) with tower height `ht` is what the model's `forwardPos` says -/
def FwdOK (st : St) (as : List Nat) (nodes : List Ekit.SkipList.Node) (a : Nat) (pos ht : Nat) : Prop :=
  (st.h a).fwd.length = ht ∧ ∀ i, i < ht → (st.h a).fwd.getD i none = addrAt as (forwardPos nodes pos i)

structure Rep (st : St) (as : List Nat) (s : SL) : Prop where
  hdr : ∃ hd, st.header = some hd ∧ hd ∉ as ∧ hd < st.alloc ∧ FwdOK st as s.nodes hd 0 MaxLevel
  nodup : as.Nodup
  len : as.length = s.nodes.length
  fresh : ∀ a ∈ as, a < st.alloc
  node : ∀ k (hk : k < as.length) (hk' : k < s.nodes.length),
    (st.h as[k]).val = s.nodes[k].val ∧ FwdOK st as s.nodes as[k] (k + 1) s.nodes[k].h
  level : st.level = s.level
  size : st.size = s.size

def emptySt : St := { h := fun _ => {}, alloc := 0, header := none, level := 0, size := 0, coins := [] }

/-! ### the constructor -/

theorem new_run (cmp : Int → Int → Int) (fuel : Nat) (st : St) :
    call cmp procs (fuel + 1) .NewSkipList [.unit] st =
      .ok (.unit, { st with h := upd st.h st.alloc ⟨0, List.replicate 32 none⟩, alloc := st.alloc + 1,
                            header := some st.alloc, level := 1, size := 0 }) := rfl

theorem forwardPos_nil (pos i : Nat) : forwardPos [] pos i = 0 := by
  simp [forwardPos]

theorem getD_replicate_none (n i : Nat) : (List.replicate n (none : Option Nat)).getD i none = none := by
  rw [List.getD_eq_getElem?_getD, List.getElem?_replicate]
  split <;> rfl

theorem new_sim (cmp : Int → Int → Int) (fuel : Nat) (hf : 1 ≤ fuel) :
    ∃ s0, call cmp procs fuel .NewSkipList [.unit] emptySt = .ok (.unit, s0) ∧ Rep s0 [] SL.new := by
  obtain ⟨f, rfl⟩ : ∃ f, fuel = f + 1 := ⟨fuel - 1, by omega⟩
  refine ⟨_, new_run cmp f emptySt, ?_⟩
  refine ⟨⟨0, rfl, by simp, by simp [emptySt], ?_, ?_⟩, List.nodup_nil, rfl, by simp, ?_, rfl, rfl⟩
  · simp [emptySt, upd, MaxLevel]
  · intro i hi
    show (List.replicate 32 (none : Option Nat)).getD i none = _
    rw [getD_replicate_none]
    simp [SL.new, forwardPos_nil, addrAt]
  · intro k hk; simp at hk


/-! ### randomLevel: the contract on tower heights, for every coin stream -/

section
variable (cmp : Int → Int → Int) (callH : CallH PName)

/-- the translated loop `for <coin> { level++ }` -/
def rlCond : Env → St → Res (Val × St) := fun ρ st => evalE cmp callH ρ st (.coin : Expr PName)
def rlBody (lf : Nat) : Env → St → Res (Flow × Env × St) :=
  fun ρ st => exec cmp callH lf ρ st (.assign 0 (.bin .add (.var 0) (.int 1)))

def rlTail : Stmt PName := (.seq (.ite (.bin .lt (.var 0) (.int 32)) (.ret (.var 0)) .skip) (.ret (.int 32)))

theorem rlCond_false (ρ : Env) (st : St) (rest : List Bool) (hc : st.coins = false :: rest) :
    rlCond cmp callH ρ st = .ok (.bool false, { st with coins := rest }) := by
  simp only [rlCond, evalE, hc]

theorem rlCond_true (ρ : Env) (st : St) (rest : List Bool) (hc : st.coins = true :: rest) :
    rlCond cmp callH ρ st = .ok (.bool true, { st with coins := rest }) := by
  simp only [rlCond, evalE, hc]

theorem rlBody_run (lf : Nat) (ρ : Env) (st : St) (k : Int) (h0 : ρ 0 = .int k) :
    rlBody cmp callH lf ρ st = .ok (.normal, ρ.set 0 (.int (k + 1)), st) := by
  simp only [rlBody, exec, evalE, h0, BinOp.apply]

theorem rl_loop (lf : Nat) : ∀ (n : Nat) (k : Int) (ρ : Env) (st : St) (rest : List Bool) (fuel : Nat),
    st.coins = List.replicate n true ++ false :: rest → ρ 0 = .int k → n + 1 ≤ fuel →
    ∃ ρ', iterate (rlCond cmp callH) (rlBody cmp callH lf) fuel ρ st = .ok (.normal, ρ', { st with coins := rest }) ∧
      ρ' 0 = .int (k + n) := by
  intro n
  induction n with
  | zero =>
    intro k ρ st rest fuel hc h0 hf
    obtain ⟨f, rfl⟩ : ∃ f, fuel = f + 1 := ⟨fuel - 1, by omega⟩
    refine ⟨ρ, ?_, by simpa using h0⟩
    rw [iterate, rlCond_false cmp callH ρ st rest (by simpa using hc)]
  | succ n ih =>
    intro k ρ st rest fuel hc h0 hf
    obtain ⟨f, rfl⟩ : ∃ f, fuel = f + 1 := ⟨fuel - 1, by omega⟩
    have hc' : st.coins = true :: (List.replicate n true ++ false :: rest) := by
      rw [hc, List.replicate_succ]; rfl
    obtain ⟨ρ', e, h'⟩ := ih (k + 1) (ρ.set 0 (.int (k + 1))) { st with coins := List.replicate n true ++ false :: rest } rest f
      rfl (by simp [Env.set]) (by omega)
    refine ⟨ρ', ?_, by rw [h']; congr 1; omega⟩
    rw [iterate, rlCond_true cmp callH ρ st _ hc']
    simp only [rlBody_run cmp callH lf ρ _ k h0]
    exact e

theorem rlTail_run (lf : Nat) (ρ : Env) (st : St) (m : Int) (h0 : ρ 0 = .int m) :
    exec cmp callH lf ρ st rlTail = .ok (.ret (.int (if m < 32 then m else 32)), ρ, st) := by
  by_cases hm : m < 32
  · simp only [rlTail, exec, evalE, h0, BinOp.apply, hm, decide_true, if_true]
  · simp only [rlTail, exec, evalE, h0, BinOp.apply, hm, decide_false, if_false]

end

/-- `randomLevel()` of the translated program: for the coin stream `true^n, false, rest` it returns `min (n+1) 32`,
    consumes exactly `n+1` coins and changes nothing else (fuel: one call, `n+1` loop iterations) -/
theorem randomLevel_run (cmp : Int → Int → Int) (fuel n : Nat) (rest : List Bool) (st : St)
    (hc : st.coins = List.replicate n true ++ false :: rest) (hf : n + 1 ≤ fuel) :
    call cmp procs (fuel + 1) .randomLevel [] st =
      .ok (.int (if (1 : Int) + n < 32 then 1 + n else 32), { st with coins := rest }) := by
  obtain ⟨ρ', e, h'⟩ := rl_loop cmp (call cmp procs fuel) fuel n 1
    (((Env.ofArgs []).set 0 (.int 1)).set 1 .unit) st rest fuel hc (by simp [Env.set]) hf
  have h1 : call cmp procs (fuel + 1) .randomLevel [] st =
      (match (match iterate (rlCond cmp (call cmp procs fuel)) (rlBody cmp (call cmp procs fuel) fuel) fuel
                (((Env.ofArgs []).set 0 (.int 1)).set 1 .unit) st with
        | .ok (.normal, ρ1, st1) => exec cmp (call cmp procs fuel) fuel ρ1 st1 rlTail
        | .ok r => .ok r
        | .error e => .error e) with
       | .ok (.ret v, _, st1) => .ok (v, st1)
       | .ok (.normal, _, st1) => .ok (.unit, st1)
       | .error e => .error e) := rfl
  rw [h1, e]
  simp only [rlTail_run cmp (call cmp procs fuel) fuel ρ' _ _ h']

/-- the contract the `c05_sl_*` theorems demand of tower heights holds for every height the translated `randomLevel` returns -/
theorem randomLevel_contract (n : Nat) :
    ∃ h : Nat, ((if (1 : Int) + n < 32 then 1 + n else 32) : Int) = (h : Int) ∧ 1 ≤ h ∧ h ≤ MaxLevel := by
  by_cases hn : (1 : Int) + n < 32
  · exact ⟨1 + n, by simp [hn], by omega, by simp [MaxLevel]; omega⟩
  · exact ⟨32, by simp [hn], by omega, by simp [MaxLevel]⟩


/-! ### Peek -/

theorem peek_run_nil (cmp : Int → Int → Int) (fuel : Nat) (st : St) (hd : Nat) (hh : st.header = some hd)
    (hl : (st.h hd).fwd.length = 32) (hg : (st.h hd).fwd.getD 0 none = none) :
    call cmp procs (fuel + 1) .Peek [] st = .ok (.pair (.int 0) .errNew, st) := by
  generalize hF : (st.h hd).fwd = F at hl hg
  cases F with
  | nil => simp at hl
  | cons x0 F' =>
    simp at hg; subst hg
    have hpos : ¬ ((F'.length : Int) + 1 ≤ 0) := by omega
    simp [call, runBody, procs, body_Peek, exec, evalE, Env.set, readAt, hh, hF, BinOp.apply, valEq, hpos]

theorem peek_run_some (cmp : Int → Int → Int) (fuel : Nat) (st : St) (hd a : Nat) (hh : st.header = some hd)
    (hl : (st.h hd).fwd.length = 32) (hg : (st.h hd).fwd.getD 0 none = some a) :
    call cmp procs (fuel + 1) .Peek [] st = .ok (.pair (.int (st.h a).val) (.ptr none), st) := by
  generalize hF : (st.h hd).fwd = F at hl hg
  cases F with
  | nil => simp at hl
  | cons x0 F' =>
    simp at hg; subst hg
    have hpos : ¬ ((F'.length : Int) + 1 ≤ 0) := by omega
    simp [call, runBody, procs, body_Peek, exec, evalE, Env.set, readAt, hh, hF, BinOp.apply, valEq, hpos]

theorem forwardPos_head (n : Ekit.SkipList.Node) (t : List Ekit.SkipList.Node) (hn : 1 ≤ n.h) :
    forwardPos (n :: t) 0 0 = 1 := by
  have : decide (n.h > 0) = true := by simp; omega
  simp [forwardPos, List.findIdx?_cons, this]

/-- the translated `Peek` returns what the model's `step … .peek` returns and leaves the state alone -/
theorem peek_sim (cmp : Int → Int → Int) (mc : Ekit.Cmp.Cmp) (fuel : Nat) (hf : 1 ≤ fuel) (st : St) (as : List Nat) (s : SL)
    (hR : Rep st as s) (hh : ∀ n ∈ s.nodes, 1 ≤ n.h) (h : Nat) :
    (s.nodes = [] ∧ call cmp procs fuel .Peek [] st = .ok (.pair (.int 0) .errNew, st) ∧
       Ekit.SkipList.step mc s h .peek = (s, .err Ekit.SkipList.errEmpty)) ∨
    (∃ v, call cmp procs fuel .Peek [] st = .ok (.pair (.int v) (.ptr none), st) ∧
       Ekit.SkipList.step mc s h .peek = (s, .ok (.val v))) := by
  obtain ⟨f, rfl⟩ : ∃ f, fuel = f + 1 := ⟨fuel - 1, by omega⟩
  obtain ⟨hd, hhd, _, _, hl, hfw⟩ := hR.hdr
  have h0 := hfw 0 (by simp [MaxLevel])
  cases hn : s.nodes with
  | nil =>
    left
    rw [hn, forwardPos_nil] at h0
    exact ⟨rfl, peek_run_nil cmp f st hd hhd hl (by simpa [addrAt] using h0), by simp [Ekit.SkipList.step, hn]⟩
  | cons n t =>
    right
    have hlen := hR.len
    rw [hn] at hlen
    obtain ⟨a, as', rfl⟩ : ∃ a as', as = a :: as' := by
      cases as with
      | nil => simp at hlen
      | cons a as' => exact ⟨a, as', rfl⟩
    rw [hn, forwardPos_head n t (hh n (by simp [hn]))] at h0
    have hnode := hR.node 0 (by simp) (by simp [hn])
    refine ⟨n.val, ?_, by simp [Ekit.SkipList.step, hn]⟩
    rw [peek_run_some cmp f st hd a hhd hl (by simpa [addrAt] using h0)]
    have : (st.h a).val = n.val := by simpa [hn] using hnode.1
    rw [this]

/-! ### Len -/

theorem len_run (cmp : Int → Int → Int) (fuel : Nat) (st : St) :
    call cmp procs (fuel + 1) .Len [] st = .ok (.int st.size, st) := rfl

theorem len_sim (cmp : Int → Int → Int) (mc : Ekit.Cmp.Cmp) (fuel : Nat) (hf : 1 ≤ fuel) (st : St) (as : List Nat) (s : SL)
    (hR : Rep st as s) (h : Nat) :
    ∃ n, call cmp procs fuel .Len [] st = .ok (.int n, st) ∧
      Ekit.SkipList.step mc s h .len = (s, .ok (.int n)) := by
  obtain ⟨f, rfl⟩ : ∃ f, fuel = f + 1 := ⟨fuel - 1, by omega⟩
  exact ⟨st.size, len_run cmp f st, by rw [hR.size]; rfl⟩



/-! ### Get -/

section
variable (cmp : Int → Int → Int) (callH : CallH PName)

theorem exec_seq_normal (lf : Nat) (ρ ρ1 : Env) (st st1 : St) (a b : Stmt PName)
    (h : exec cmp callH lf ρ st a = .ok (.normal, ρ1, st1)) :
    exec cmp callH lf ρ st (.seq a b) = exec cmp callH lf ρ1 st1 b := by
  simp only [exec, h]

def getCond : Env → St → Res (Val × St) := fun ρ st => evalE cmp callH ρ st (.bin .le (.var 3) (.var 0) : Expr PName)
def getBody (lf : Nat) : Env → St → Res (Flow × Env × St) :=
  fun ρ st => exec cmp callH lf ρ st (.seq (.assign 2 (.fwd (.var 2) (.int 0))) (.assign 3 (.bin .add (.var 3) (.int 1))))

theorem getCond_run (ρ : Env) (st : St) (j i : Int) (h3 : ρ 3 = .int j) (h0 : ρ 0 = .int i) :
    getCond cmp callH ρ st = .ok (.bool (decide (j ≤ i)), st) := by
  simp only [getCond, evalE, h3, h0, BinOp.apply]

theorem getBody_run (lf : Nat) (ρ : Env) (st : St) (a : Nat) (x : Option Nat) (j : Int) (h2 : ρ 2 = .ptr (some a))
    (hr : readAt (st.h a).fwd 0 = .ok (.ptr x)) (h3 : ρ 3 = .int j) :
    getBody cmp callH lf ρ st = .ok (.normal, (ρ.set 2 (.ptr x)).set 3 (.int (j + 1)), st) := by
  have h3' : (ρ.set 2 (.ptr x)) 3 = .int j := by simp [Env.set, h3]
  simp only [getBody, exec, evalE, h2, hr, h3', BinOp.apply]

end

/-- the node at position `j` of the level-0 chain (0 = header) -/
def nodeAt (hd : Nat) (as : List Nat) (j : Nat) : Option Nat := if j = 0 then some hd else as[j - 1]?

theorem readAt_zero (l : List (Option Nat)) (hl : 1 ≤ l.length) : readAt l 0 = .ok (.ptr (l.getD 0 none)) := by
  have : ¬ ((0 : Int) < 0 ∨ (0 : Int) ≥ (l.length : Int)) := by omega
  unfold readAt
  rw [if_neg this]
  rfl

theorem forwardPos_zero (nodes : List Ekit.SkipList.Node) (hh : ∀ n ∈ nodes, 1 ≤ n.h) (j : Nat) (hj : j < nodes.length) :
    forwardPos nodes j 0 = j + 1 := by
  have hd : nodes.drop j = nodes[j] :: nodes.drop (j + 1) := List.drop_eq_getElem_cons hj
  have : decide (nodes[j].h > 0) = true := by
    have := hh nodes[j] (List.getElem_mem hj)
    simp; omega
  have e : List.findIdx? (fun n : Ekit.SkipList.Node => decide (n.h > 0)) (nodes.drop j) = some 0 := by
    rw [hd, List.findIdx?_cons]
    simp only [this, if_true]
  unfold forwardPos
  rw [e]

/-- `curr.Forward[0]` at position `j`: the node at position `j + 1` -/
theorem read_fwd0 {st : St} {as : List Nat} {s : SL} (hR : Rep st as s) (hh : ∀ n ∈ s.nodes, 1 ≤ n.h) (hd : Nat)
    (hhd : st.header = some hd) (j : Nat) (hj : j < s.nodes.length) (a : Nat) (ha : nodeAt hd as j = some a) :
    readAt (st.h a).fwd 0 = .ok (.ptr (nodeAt hd as (j + 1))) := by
  have hnext : addrAt as (forwardPos s.nodes j 0) = nodeAt hd as (j + 1) := by
    rw [forwardPos_zero s.nodes hh j hj]; simp [addrAt, nodeAt]
  by_cases hj0 : j = 0
  · subst hj0
    obtain ⟨hd', hhd', _, _, hl, hfw⟩ := hR.hdr
    have : hd' = hd := by rw [hhd] at hhd'; exact (Option.some.inj hhd').symm
    subst this
    have : a = hd' := by simpa [nodeAt] using ha.symm
    subst this
    rw [readAt_zero _ (by rw [hl]; simp [MaxLevel]), hfw 0 (by simp [MaxLevel]), hnext]
  · obtain ⟨k, rfl⟩ : ∃ k, j = k + 1 := ⟨j - 1, by omega⟩
    have hk : k < as.length := by rw [hR.len]; omega
    have hk' : k < s.nodes.length := by omega
    have hak : a = as[k] := by
      have : as[k]? = some a := by simpa [nodeAt] using ha
      rw [List.getElem?_eq_getElem hk] at this
      exact (Option.some.inj this).symm
    subst hak
    obtain ⟨_, hl, hfw⟩ := hR.node k hk hk'
    have h1 := hh s.nodes[k] (List.getElem_mem hk')
    rw [readAt_zero _ (by rw [hl]; exact h1), hfw 0 (by omega), hnext]

theorem get_loop (cmp : Int → Int → Int) (callH : CallH PName) (lf : Nat) {st : St} {as : List Nat} {s : SL}
    (hR : Rep st as s) (hh : ∀ n ∈ s.nodes, 1 ≤ n.h) (hd : Nat) (hhd : st.header = some hd) (idx : Nat)
    (hidx : idx < s.nodes.length) :
    ∀ (m j : Nat) (ρ : Env) (fuel : Nat), ρ 0 = .int idx → ρ 3 = .int j → ρ 2 = .ptr (nodeAt hd as j) →
      j + m = idx + 1 → m + 1 ≤ fuel →
      ∃ ρ', iterate (getCond cmp callH) (getBody cmp callH lf) fuel ρ st = .ok (.normal, ρ', st) ∧
        ρ' 2 = .ptr (nodeAt hd as (idx + 1)) := by
  intro m
  induction m with
  | zero =>
    intro j ρ fuel h0 h3 h2 hjm hf
    obtain ⟨f, rfl⟩ : ∃ f, fuel = f + 1 := ⟨fuel - 1, by omega⟩
    have hj : j = idx + 1 := by omega
    subst hj
    refine ⟨ρ, ?_, h2⟩
    rw [iterate, getCond_run cmp callH ρ st _ _ h3 h0]
    have : decide (((idx + 1 : Nat) : Int) ≤ (idx : Int)) = false := by simp; omega
    rw [this]
  | succ m ih =>
    intro j ρ fuel h0 h3 h2 hjm hf
    obtain ⟨f, rfl⟩ : ∃ f, fuel = f + 1 := ⟨fuel - 1, by omega⟩
    have hj : j ≤ idx := by omega
    have hjl : j < s.nodes.length := by omega
    obtain ⟨a, ha⟩ : ∃ a, nodeAt hd as j = some a := by
      by_cases hj0 : j = 0
      · exact ⟨hd, by simp [nodeAt, hj0]⟩
      · have : j - 1 < as.length := by rw [hR.len]; omega
        exact ⟨as[j - 1], by simp [nodeAt, hj0, List.getElem?_eq_getElem this]⟩
    have hr := read_fwd0 hR hh hd hhd j hjl a ha
    obtain ⟨ρ', e, h'⟩ := ih (j + 1) ((ρ.set 2 (.ptr (nodeAt hd as (j + 1)))).set 3 (.int ((j : Int) + 1))) f
      (by simp [Env.set, h0]) (by simp [Env.set]) (by simp [Env.set]) (by omega) (by omega)
    refine ⟨ρ', ?_, h'⟩
    rw [iterate, getCond_run cmp callH ρ st _ _ h3 h0]
    have : decide ((j : Int) ≤ (idx : Int)) = true := by simp; omega
    rw [this]
    simp only [getBody_run cmp callH lf ρ st a _ _ (by rw [h2, ha]) hr h3]
    exact e


theorem get_run_err (cmp : Int → Int → Int) (fuel : Nat) (st : St) (i : Int) (hi : i < 0 ∨ i ≥ st.size) :
    call cmp procs (fuel + 1) .Get [.int i] st = .ok (.pair (.int 0) (.errIdx st.size i), st) := by
  by_cases h1 : i < 0
  · simp [call, runBody, procs, body_Get, exec, evalE, Env.set, Env.ofArgs, BinOp.apply, h1]
  · have h2 : st.size ≤ i := by omega
    simp [call, runBody, procs, body_Get, exec, evalE, Env.set, Env.ofArgs, BinOp.apply, h1, h2]

theorem get_run_ok (cmp : Int → Int → Int) (fuel : Nat) {st : St} {as : List Nat} {s : SL} (hR : Rep st as s)
    (hh : ∀ n ∈ s.nodes, 1 ≤ n.h) (hsz : s.size = s.nodes.length) (idx : Nat) (hidx : idx < s.nodes.length)
    (hf : idx + 3 ≤ fuel) :
    call cmp procs (fuel + 1) .Get [.int idx] st = .ok (.pair (.int s.nodes[idx].val) (.ptr none), st) := by
  obtain ⟨hd, hhd, _, _, _, _⟩ := hR.hdr
  have hia : idx < as.length := by rw [hR.len]; exact hidx
  let cH := call cmp procs fuel
  let ρ0 : Env := Env.ofArgs [.int idx]
  let ρ1 : Env := ρ0.set 1 (.int 0)
  let ρ2 : Env := ρ1.set 2 (.ptr (some hd))
  let ρ3 : Env := ρ2.set 3 (.int 0)
  have hA : exec cmp cH fuel ρ0 st (.assign 1 (.int 0)) = .ok (.normal, ρ1, st) := rfl
  have hlt : ¬ ((idx : Int) < 0) := by omega
  have hge : ¬ (st.size ≤ (idx : Int)) := by rw [hR.size, hsz]; omega
  have hB : exec cmp cH fuel ρ1 st (.ite (.or (.bin .lt (.var 0) (.int 0)) (.bin .ge (.var 0) .size))
      (.ret2 (.var 1) (.bin .errIdx .size (.var 0))) .skip) = .ok (.normal, ρ1, st) := by
    have h0 : ρ1 0 = .int idx := rfl
    simp [exec, evalE, h0, BinOp.apply, hlt, hge]
  have hC : exec cmp cH fuel ρ1 st (.assign 2 .header) = .ok (.normal, ρ2, st) := by
    simp only [exec, evalE, hhd]; rfl
  have hD : exec cmp cH fuel ρ2 st (.assign 3 (.int 0)) = .ok (.normal, ρ3, st) := rfl
  obtain ⟨ρ', eL, h'⟩ := get_loop cmp cH fuel hR hh hd hhd idx hidx (idx + 1) 0 ρ3 fuel rfl rfl rfl (by omega) (by omega)
  have hL : exec cmp cH fuel ρ3 st (.loop (.bin .le (.var 3) (.var 0))
      (.seq (.assign 2 (.fwd (.var 2) (.int 0))) (.assign 3 (.bin .add (.var 3) (.int 1))))) = .ok (.normal, ρ', st) := eL
  have hDL := (exec_seq_normal cmp cH fuel ρ2 ρ3 st st _ _ hD).trans hL
  have h2 : ρ' 2 = .ptr (some as[idx]) := by
    rw [h']; simp [nodeAt, List.getElem?_eq_getElem hia]
  have hv : (st.h as[idx]).val = s.nodes[idx].val := (hR.node idx hia hidx).1
  have hRet : exec cmp cH fuel ρ' st (.ret2 (.val (.var 2)) .nil) =
      .ok (.ret (.pair (.int s.nodes[idx].val) (.ptr none)), ρ', st) := by
    simp only [exec, evalE, h2, hv]
  have hAll : exec cmp cH fuel ρ0 st body_Get = .ok (.ret (.pair (.int s.nodes[idx].val) (.ptr none)), ρ', st) :=
    (exec_seq_normal cmp cH fuel ρ0 ρ1 st st _ _ hA).trans <|
    (exec_seq_normal cmp cH fuel ρ1 ρ1 st st _ _ hB).trans <|
    (exec_seq_normal cmp cH fuel ρ1 ρ2 st st _ _ hC).trans <|
    (exec_seq_normal cmp cH fuel ρ2 ρ' st st _ _ hDL).trans hRet
  show runBody cmp (call cmp procs fuel) fuel (procs .Get) [.int idx] st = _
  have hAll' : exec cmp (call cmp procs fuel) fuel (Env.ofArgs [.int idx]) st body_Get =
      .ok (.ret (.pair (.int s.nodes[idx].val) (.ptr none)), ρ', st) := hAll
  simp only [runBody, procs, hAll']

/-- the translated `Get` returns what the model's `step … (.get i)` returns and leaves the state alone (fuel `≥ i + 4`) -/
theorem get_sim (cmp : Int → Int → Int) (mc : Ekit.Cmp.Cmp) (fuel : Nat) (st : St) (as : List Nat) (s : SL)
    (hR : Rep st as s) (hh : ∀ n ∈ s.nodes, 1 ≤ n.h) (hsz : s.size = s.nodes.length) (h : Nat) (i : Int)
    (hf : i.toNat + 4 ≤ fuel) :
    (∃ v, call cmp procs fuel .Get [.int i] st = .ok (.pair (.int v) (.ptr none), st) ∧
       Ekit.SkipList.step mc s h (.get i) = (s, .ok (.val v))) ∨
    (call cmp procs fuel .Get [.int i] st = .ok (.pair (.int 0) (.errIdx s.size i), st) ∧
       Ekit.SkipList.step mc s h (.get i) = (s, .err (.idx s.size i))) := by
  obtain ⟨f, rfl⟩ : ∃ f, fuel = f + 1 := ⟨fuel - 1, by omega⟩
  by_cases hi : i < 0 ∨ i ≥ s.size
  · right
    refine ⟨?_, by simp only [Ekit.SkipList.step, if_pos hi]⟩
    rw [get_run_err cmp f st i (by rw [hR.size]; exact hi), hR.size]
  · left
    have h0 : 0 ≤ i := by omega
    have hlt : i.toNat < s.nodes.length := by omega
    have hi' : (i.toNat : Int) = i := Int.toNat_of_nonneg h0
    refine ⟨s.nodes[i.toNat].val, ?_, ?_⟩
    · have := get_run_ok cmp f hR hh hsz i.toNat hlt (by omega)
      rw [hi'] at this
      exact this
    · simp only [Ekit.SkipList.step, if_neg hi, List.getElem?_eq_getElem hlt]

/-! ### what remains (not proved)

`traverse` and `Search` are in Lemmas/SKTraverse.lean (`scan_loop`, `tr_outer`, `traverse_run`, `search_sim`).  Open: the
CONTENTS of `update` returned by `traverse` (`update[j]` = the address at the model's `update[j]`; `tr_outer` only keeps it a
32-slot array), Insert's level-raising and splice loops (`Rep` re-established for `s.nodes.insertIdx p ⟨v, h⟩` under
`spliceOk`, fresh address), DeleteElement's unlink and trim loops (`unlinkCount`, `trimLevel`, `Rep` for `eraseIdx`), and the
lifting to histories (`run_sim`).  `randomLevel_run` is the piece of Insert that produces the height `h` the model takes as
an input. -/

end Ekit.MiniGo.SK.Refine
