/-
A red-black coloured address tree is shallow (pointer level): with the colours read from the heap, a tree that has a
black root, no red-red and equal black heights has height at most `2 * log2 (n + 1)`, `n` the number of its nodes.
-/
import Ekit.MiniGo.RBColor

namespace Ekit.MiniGo.RBHeap
open Ekit.MiniGo

def PT.height : PT → Nat
  | .leaf => 0
  | .node l _ r => max l.height r.height + 1

/-- a tree of black height `n` has at least `2^n - 1` nodes -/
theorem BH.two_pow_le (h : Nat → Node) (t : PT) : ∀ n, BH h t n → 2 ^ n ≤ t.addrs.length + 1 := by
  induction t with
  | leaf => intro n hb; simp only [BH] at hb; subst hb; simp [PT.addrs]
  | node l a r ihl ihr =>
    intro n hb
    simp only [BH] at hb
    obtain ⟨m, hl, hr, hn⟩ := hb
    have h1 := ihl m hl
    have h2 := ihr m hr
    subst hn
    simp only [PT.addrs, List.length_append, List.length_cons]
    cases (h a).color with
    | false => simp only [Bool.false_eq_true, if_false, Nat.add_zero]; omega
    | true => simp only [if_true, Nat.pow_succ]; omega

/-- no red-red: at most every other node on a path is red -/
theorem BH.height_le (h : Nat → Node) (t : PT) :
    ∀ n, NoRedRed h t → BH h t n → t.height ≤ 2 * n + 1 ∧ (blackAt h t → t.height ≤ 2 * n) := by
  induction t with
  | leaf => intro n _ _; simp [PT.height]
  | node l a r ihl ihr =>
    intro n hn hb
    simp only [NoRedRed] at hn
    simp only [BH] at hb
    obtain ⟨hcol, hnl, hnr⟩ := hn
    obtain ⟨m, hl, hr, hm⟩ := hb
    obtain ⟨l1, l2⟩ := ihl m hnl hl
    obtain ⟨r1, r2⟩ := ihr m hnr hr
    subst hm
    simp only [PT.height, blackAt]
    cases hc : (h a).color with
    | false =>
      obtain ⟨bl, br⟩ := hcol hc
      have := l2 bl
      have := r2 br
      simp only [Bool.false_eq_true, if_false, Nat.add_zero, false_implies, and_true]
      omega
    | true =>
      simp only [if_true, true_implies]
      omega

/-- **the height bound**: black root, no red-red, equal black heights ⇒ `height ≤ 2*log2(n+1)` -/
theorem rb_height_le (st : St) (t : PT) (h : RB st t) : t.height ≤ 2 * Nat.log2 (t.addrs.length + 1) := by
  obtain ⟨hblk, hnrr, n, hbh⟩ := h
  have h1 := (BH.height_le st.h t n hnrr hbh).2 hblk
  have h2 := BH.two_pow_le st.h t n hbh
  have h3 : n ≤ Nat.log2 (t.addrs.length + 1) := (Nat.le_log2 (by omega)).2 h2
  omega

end Ekit.MiniGo.RBHeap

