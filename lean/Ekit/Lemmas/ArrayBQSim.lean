/-
Forward simulation from the array blocking queue model to the canonical atomic automaton of the
bounded FIFO specification: linearization points are `eAdv` (Enqueue ok), `dAdv` (Dequeue ok), the
step on which a call commits to its context error (`ctxArm`, `eChk`/`dChk` with the context ended),
`lRead` (Len) and the exit of the copy loop (AsSlice).
-/
import Ekit.Lemmas.ArrayBQData
namespace Ekit.ArrayBQ
open Ekit.Conc Ekit.BQ

/-- status of a thread's call in the canonical automaton, read off its program counter -/
def absSt : Pc → TStatus Op Ret
  | .idle => .idle
  | .eAcq v | .eLock v | .eChk v | .eStore v | .eAdv v => .pending (.enq v)
  | .eRelBack => .done .ctxErr
  | .eRel => .done .ok
  | .dAcq | .dLock | .dChk | .dRead | .dAdv _ => .pending .deq
  | .dRelBack => .done .ctxErr
  | .dRel r => .done (.val r)
  | .unlock r => .done r
  | .lRLock | .lRead => .pending .len
  | .aRLock | .aMake | .aLoop _ _ => .pending .asSlice
  | .runlock r => .done r
  | .ret r => .done r

/-- the simulation relation: the abstract queue is the ring's contents -/
def R (s : State) (a : AState (List Int) Op Ret) : Prop :=
  a.s = contents s ∧ ∀ t, a.th t = absSt (s.pc t)

abbrev Spec (cap : Nat) := bqSpec (some cap)

theorem sim_silent {cap : Nat} {s s' : State} {a : AState (List Int) Op Ret} (t : Nat) (hR : R s a)
    (hpc : ∀ u, u ≠ t → s'.pc u = s.pc u) (hst : absSt (s'.pc t) = absSt (s.pc t))
    (hc : contents s' = contents s) :
    ∃ als a', ARun (Spec cap) a als a' ∧ R s' a' ∧ als.filterMap ALabel.obs = [] := by
  refine ⟨[], a, ARun.nil, ⟨by rw [hc]; exact hR.1, ?_⟩, rfl⟩
  intro u
  by_cases hu : u = t
  · subst hu; rw [hst]; exact hR.2 u
  · rw [hpc u hu]; exact hR.2 u

theorem sim_lin {cap : Nat} {s s' : State} {a : AState (List Int) Op Ret} (t : Nat) (op : Op) (r : Ret)
    (hR : R s a) (hpc : ∀ u, u ≠ t → s'.pc u = s.pc u)
    (hpend : absSt (s.pc t) = .pending op) (hdone : absSt (s'.pc t) = .done r)
    (happ : apply (some cap) (contents s) op (contents s') r) :
    ∃ als a', ARun (Spec cap) a als a' ∧ R s' a' ∧ als.filterMap ALabel.obs = [] := by
  refine ⟨[.lin t (contents s') r], ⟨contents s', upd a.th t (.done r)⟩, ?_, ⟨rfl, ?_⟩, rfl⟩
  · refine ARun.cons (AStep.lin (op := op) ?_ ?_) ARun.nil
    · rw [hR.2 t, hpend]
    · rw [hR.1]; exact happ
  · intro u
    by_cases hu : u = t
    · subst hu; simp [upd, hdone]
    · simp [upd, hu, hpc u hu, hR.2 u]

theorem sim_tau {cap : Nat} (hcap : 1 ≤ cap) {s s' : State} {t : Nat} {a : AState (List Int) Op Ret}
    (h : Inv cap s) (h2 : Inv2 s) (hR : R s a) (hs : tauStep s t = some s') :
    ∃ als a', ARun (Spec cap) a als a' ∧ R s' a' ∧ als.filterMap ALabel.obs = [] := by
  have hE0 := h.permE; have hD0 := h.permD
  have hnp := (inv_tau hcap h hs).noPanic
  have hc0 := h.count_nonneg
  have hne : s.pc t ≠ .idle := by
    intro e; unfold tauStep at hs; simp [e] at hs
  have hmem : t ∈ s.live := (h.live_iff t).mpr hne
  have hwE := wsum_le_of_mem wE s.pc hmem; have hwD := wsum_le_of_mem wD s.pc hmem
  unfold tauStep at hs
  cases hp : s.pc t <;> simp only [hp] at hs
  all_goals (simp only [hp, wE, wD] at hwE hwD)
  case eAdv v =>
    -- linearization point of a successful Enqueue
    injection hs with hs; subst hs
    refine sim_lin t (.enq v) .ok hR ?_ (by simp [hp, absSt]) (by simp [setPc, fpAdd, absSt]) ?_
    · intro u hu; simp [setPc, fpAdd, upd, hu]
    · show apply (some cap) (contents s) (.enq v) (contents { s with tail := (if s.tail + 1 = s.data.length then 0 else s.tail + 1), count := s.count + 1 }) .ok
      rw [contents_adv h, h2.eadv t v hp]
      refine Or.inl ⟨rfl, rfl, ?_⟩
      simp only [notFull, contents_length]; omega
  all_goals (try split at hs)
  case dAdv.isTrue r _ =>
    -- linearization point of a successful Dequeue
    injection hs with hs; subst hs
    refine sim_lin t .deq (.val r) hR ?_ (by simp [hp, absSt]) (by simp [setPc, fpAdd, absSt]) ?_
    · intro u hu; simp [setPc, fpAdd, upd, hu]
    · show apply (some cap) (contents s) .deq (contents { s with data := s.data.set s.head 0, head := (if s.head + 1 = s.data.length then 0 else s.head + 1), count := s.count - 1 }) (.val r)
      have e := contents_deq h hcap (by omega); rw [h2.dadv t r hp] at e
      exact Or.inl ⟨r, rfl, e⟩
  all_goals (try split at hs)
  all_goals (try (simp at hs; done))
  all_goals (injection hs with hs; subst hs)
  all_goals (try (simp [panic] at hnp; done))
  all_goals (try (
    refine sim_silent t hR ?_ ?_ rfl
    · intro u hu; simp [setPc, fpAdd, upd, hu]
    · simp [setPc, fpAdd, hp, absSt]
    done))
  case eChk.isTrue v _ =>
    refine sim_lin t (.enq v) .ctxErr hR ?_ (by simp [hp, absSt]) (by simp [setPc, absSt]) (Or.inr ⟨rfl, rfl⟩)
    intro u hu; simp [setPc, upd, hu]
  case dChk.isTrue =>
    refine sim_lin t .deq .ctxErr hR ?_ (by simp [hp, absSt]) (by simp [setPc, absSt]) (Or.inr ⟨rfl, rfl⟩)
    intro u hu; simp [setPc, upd, hu]
  case eStore.isTrue v _ =>
    refine sim_silent t hR ?_ ?_ ?_
    · intro u hu; simp [setPc, fpAdd, upd, hu]
    · simp [setPc, fpAdd, hp, absSt]
    · show contents { s with data := s.data.set s.tail v } = contents s
      exact contents_store h (by omega) v
  case lRead =>
    refine sim_lin t .len (.n s.count) hR ?_ (by simp [hp, absSt]) (by simp [setPc, absSt]) ?_
    · intro u hu; simp [setPc, upd, hu]
    · refine ⟨rfl, ?_⟩
      rw [contents_length]; congr 1; omega
  case aLoop.isFalse cnt res _ =>
    have hg : ¬ (cnt : Int) < s.count := by assumption
    refine sim_lin t .asSlice (.slice res) hR ?_ (by simp [hp, absSt]) (by simp [setPc, absSt]) ?_
    · intro u hu; simp [setPc, upd, hu]
    · refine ⟨rfl, ?_⟩
      obtain ⟨_, hres⟩ := h2.aloop t cnt res hp
      rw [hres, List.take_of_length_le]
      rw [contents_length]; omega

theorem absSt_start (op : Op) : absSt (start op) = .pending op := by cases op <;> rfl

/-- every step of the array queue is matched by the canonical automaton of the bounded FIFO spec -/
theorem sim_step {cap : Nat} (hcap : 1 ≤ cap) {s s' : State} {l : Label} {a : AState (List Int) Op Ret}
    (h : Inv cap s) (h2 : Inv2 s) (hR : R s a) (hs : step s l = some s') :
    ∃ als a', ARun (Spec cap) a als a' ∧ R s' a' ∧ als.filterMap ALabel.obs = (obs l).toList := by
  cases l with
  | tau t =>
    simp only [step] at hs
    split at hs
    · simp at hs
    · exact sim_tau hcap h h2 hR hs
  | ctxEnd t =>
    simp only [step] at hs
    split at hs
    · injection hs with hs; subst hs
      exact ⟨[], a, ARun.nil, ⟨hR.1, hR.2⟩, rfl⟩
    · simp at hs
  | ctxArm t =>
    simp only [step] at hs
    cases hp : s.pc t <;> simp only [hp] at hs <;> try (simp at hs; done)
    all_goals (split at hs <;> try (simp at hs; done))
    all_goals (injection hs with hs; subst hs)
    · rename_i v _
      refine sim_lin t (.enq v) .ctxErr hR ?_ (by simp [hp, absSt]) (by simp [setPc, absSt]) (Or.inr ⟨rfl, rfl⟩)
      intro u hu; simp [setPc, upd, hu]
    · refine sim_lin t .deq .ctxErr hR ?_ (by simp [hp, absSt]) (by simp [setPc, absSt]) (Or.inr ⟨rfl, rfl⟩)
      intro u hu; simp [setPc, upd, hu]
  | inv t op =>
    simp only [step] at hs
    split at hs
    · rename_i hidle
      injection hs with hs; subst hs
      refine ⟨[.inv t op], ⟨a.s, upd a.th t (.pending op)⟩, ARun.cons (AStep.inv ?_) ARun.nil, ⟨hR.1, ?_⟩, rfl⟩
      · rw [hR.2 t, hidle]; rfl
      · intro u
        by_cases hu : u = t
        · subst hu; simp [upd, absSt_start]
        · simp [upd, hu, hR.2 u]
    · simp at hs
  | res t r =>
    simp only [step] at hs
    split at hs
    · rename_i hret
      injection hs with hs; subst hs
      refine ⟨[.res t r], ⟨a.s, upd a.th t .idle⟩, ARun.cons (AStep.res ?_) ARun.nil, ⟨hR.1, ?_⟩, rfl⟩
      · rw [hR.2 t, hret]; rfl
      · intro u
        by_cases hu : u = t
        · subst hu; simp [upd, absSt]
        · simp [upd, hu, hR.2 u]
    · simp at hs

theorem R_init (cap : Nat) : R (init cap) (AInit (Spec cap)) := by
  refine ⟨by simp [AInit, Spec, bqSpec, contents, init], ?_⟩
  intro t; simp [AInit, init, absSt]

end Ekit.ArrayBQ
