/-
All invariant layers — A (state lock / lifecycle), B (mutex), C (worker counting, maxGo bound),
T (task table, exactly-once accounting), G (done is not closed early) — hold in every reachable state
of the pool system, for every configuration with initGo ≤ maxGo.
-/
import Ekit.Lemmas.PoolC2
import Ekit.Lemmas.PoolT2
import Ekit.Lemmas.PoolG2
namespace Ekit.Pool
open Ekit.Conc

structure InvAll (c : Cfg) (s : St) : Prop where
  a : InvA s
  b : LB.Inv s
  c : (LCn c).Inv s
  t : LT.Inv s
  g : LG.Inv s

theorem invAll_init (c : Cfg) : InvAll c init := ⟨invA_init, invB_init, invC_init c, invT_init, invG_init⟩

theorem invAll_step (c : Cfg) (hv : c.initGo ≤ c.maxGo) (s s' : St) (l : Label) (hi : InvAll c s)
    (h : step c s l = some s') : InvAll c s' := by
  cases l with
  | w i a =>
    exact ⟨invA_wstep c s s' i a hi.a h, invB_wstep c s s' i a hi.b h, invC_wstep c s s' i a hi.b hi.c h,
           invT_wstep c s s' i a hi.t h, invG_wstep c s s' i a hi.a hi.b hi.g h⟩
  | c t a =>
    exact ⟨invA_cstep c s s' t a hi.a h, invB_cstep c s s' t a hi.b h, invC_cstep c hv s s' t a hi.a hi.b hi.c h,
           invT_cstep c s s' t a hi.t h, invG_cstep c s s' t a hi.a hi.b hi.g h⟩

theorem reach_invAll (c : Cfg) (hv : c.initGo ≤ c.maxGo) : ∀ s, (sys c).Reachable s → InvAll c s :=
  System.invariant_induction (sys c) (InvAll c) (invAll_init c) (fun s l s' hi h => invAll_step c hv s s' l hi h)

/-- compatibility name used by the property files -/
theorem reach_invABC (c : Cfg) (hv : c.initGo ≤ c.maxGo) (s : St) (hr : (sys c).Reachable s) : InvAll c s :=
  reach_invAll c hv s hr

end Ekit.Pool
