/-
Snapshot invariant of the Cond model: what a thread holding `mu` has done to the list since it
acquired the lock, in terms of the ghost snapshot `snap t` (the list at acquisition) and the ghost
log `sent t` (nodes it has sent a token to since).  This is what makes `signal_one`,
`broadcast_all` and `handoff` statements about *one whole call*.
-/
import Ekit.Lemmas.CondInv
namespace Ekit.Cond
open Ekit.Conc

/-- relation between snapshot, send log and current list at each pc -/
def Pc.snapRel (p : Pc) (snap sent list : List NodeId) : Prop :=
  match p with
  | .sLen | .sPop | .wInner _ | .wFwdLen _ | .wFwdPop _ | .wRemove _ => snap = list ∧ sent = []
  | .sSend m | .wFwdSend _ m => snap = m :: list ∧ sent = []
  | .sUnlock => sent = snap.take 1 ∧ list = snap.drop 1
  | .sRet => sent = snap.take 1
  | .bLen | .bPop => snap = sent ++ list
  | .bSend m => snap = sent ++ m :: list
  | .bUnlock => sent = snap ∧ list = []
  | .bRet => sent = snap
  | .wCtxErr n | .wCtxUnlock n _ =>
    (sent = snap.take 1 ∧ list = snap.drop 1) ∨ (sent = [] ∧ list = snap.erase n ∧ n ∈ snap)
  | _ => True

theorem snapRel_of_not_inMu {p : Pc} (h : p.inMu = false) (a b l l' : List NodeId) :
    p.snapRel a b l → p.snapRel a b l' := by
  cases p <;> simp_all [Pc.inMu, Pc.snapRel]

@[simp] theorem bodyStart_snapRel (k : Kind) (a b l : List NodeId) : (bodyStart k).snapRel a b l := by
  cases k <;> simp [bodyStart, Pc.snapRel]

def SnapInv (s : State) : Prop := ∀ t, (s.pc t).snapRel (s.snap t) (s.sent t) s.list

variable {s s' : State} {l : Label}

theorem snap_init : SnapInv init := by intro t; simp [init, Pc.snapRel]

set_option maxHeartbeats 1000000 in
theorem snap_step (hi : Inv s) (h : SnapInv s) (hs : step s l = some s') : SnapInv s' := by
  have h1 := hi.mutex; have h2 := hi.popOK
  have key : ∀ u l', (s.pc u).inMu = false → (s.pc u).snapRel (s.snap u) (s.sent u) l' :=
    fun u l' hu => snapRel_of_not_inMu hu _ _ _ _ (h u)
  have key2 : ∀ u t, u ≠ t → (s.pc t).inMu = true → (s.pc u).inMu = false := by
    intro u t hut ht
    cases hm : (s.pc u).inMu
    · rfl
    · have := h1 u hm; have := h1 t ht; simp_all
  step_cases hs <;> intro u <;> have hu := h u <;> simp only [upd_apply] <;> (try split) <;>
    first
    | exact hu
    | exact bodyStart_snapRel _ _ _ _
    | (apply key; apply key2 u _ (by assumption); simp [*, Pc.inMu]; done)
    | (subst_vars; simp_all [Pc.snapRel]; done)

theorem snap_reachable {s : State} (hr : Reachable s) : SnapInv s := by
  have : Inv s ∧ SnapInv s := by
    refine System.invariant_induction sys.toSystem (fun s => Inv s ∧ SnapInv s) ⟨inv_init, snap_init⟩ ?_ s hr
    intro s l s' ⟨hi, hc⟩ hs
    exact ⟨inv_step hi hs, snap_step hi hc hs⟩
  exact this.2

end Ekit.Cond
