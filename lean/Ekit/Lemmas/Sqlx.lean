/-
Helper lemmas for C18 (Ekit/Model/Sqlx.lean): big-endian byte strings, width conversions,
the nonce split, bit flips.
-/
import Ekit.Model.Sqlx

namespace Ekit.Sqlx
open Ekit.Go

/-! ### big-endian byte strings -/

theorem length_beBytes (n v : Nat) : (beBytes n v).length = n := by
  induction n with
  | zero => rfl
  | succ k ih => simp [beBytes, ih]

theorem foldl_be (bs : Bytes) (acc : Nat) :
    bs.foldl (fun acc b => acc * 256 + b.toNat) acc = acc * 256 ^ bs.length + beNat bs := by
  induction bs generalizing acc with
  | nil => simp [beNat]
  | cons b bs ih =>
    simp only [List.foldl_cons, List.length_cons, beNat]
    rw [ih, ih (0 * 256 + b.toNat)]
    simp [Nat.pow_succ, Nat.add_mul, Nat.mul_assoc, Nat.add_assoc, Nat.mul_comm 256]

theorem beNat_cons (b : UInt8) (bs : Bytes) : beNat (b :: bs) = b.toNat * 256 ^ bs.length + beNat bs := by
  simp only [beNat, List.foldl_cons]
  rw [foldl_be]
  simp [beNat]

/-- Nat level: decoding the `n` big-endian bytes of `v` gives back `v` modulo `256^n`. -/
theorem beNat_beBytes (n v : Nat) : beNat (beBytes n v) = v % 256 ^ n := by
  induction n with
  | zero => simp [beBytes, beNat, Nat.mod_one]
  | succ k ih =>
    simp only [beBytes]
    rw [beNat_cons, ih, length_beBytes, Nat.pow_succ, Nat.mod_mul]
    have : (UInt8.ofNat (v / 256 ^ k)).toNat = v / 256 ^ k % 256 := by
      simp [UInt8.toNat_ofNat']
    rw [this, Nat.mul_comm, Nat.add_comm]

theorem beNat_lt (bs : Bytes) : beNat bs < 256 ^ bs.length := by
  induction bs with
  | nil => simp [beNat]
  | cons b bs ih =>
    rw [beNat_cons, List.length_cons, Nat.pow_succ]
    have hb : b.toNat < 256 := UInt8.toNat_lt b
    have : b.toNat * 256 ^ bs.length + 256 ^ bs.length ≤ 256 * 256 ^ bs.length := by
      have : (b.toNat + 1) * 256 ^ bs.length ≤ 256 * 256 ^ bs.length := Nat.mul_le_mul_right _ hb
      simpa [Nat.add_mul] using this
    omega

theorem pow256 (n : Nat) : 256 ^ n = 2 ^ (8 * n) := by
  rw [Nat.pow_mul]

/-! ### sized numerics -/

theorem NumKind.bytes_pos (k : NumKind) : 0 < k.bytes := by cases k <;> decide

theorem length_encodeNum (k : NumKind) (v : BitVec k.bits) : (encodeNum k v).length = k.bytes := by
  simp [encodeNum, length_beBytes]

/-- `binary.Read ∘ binary.Write = id` for every width, and bytes after the width are ignored. -/
theorem decodeNum_encodeNum_append (k : NumKind) (v : BitVec k.bits) (extra : Bytes) :
    decodeNum k (encodeNum k v ++ extra) = .ok v := by
  have hp := NumKind.bytes_pos k
  have hl := length_encodeNum k v
  unfold decodeNum
  have h1 : ¬ (encodeNum k v ++ extra).length = 0 := by simp [hl]; omega
  have h2 : ¬ (encodeNum k v ++ extra).length < k.bytes := by simp [hl]
  simp only [h1, h2, if_false]
  have ht : (encodeNum k v ++ extra).take k.bytes = encodeNum k v := by
    rw [List.take_append_of_le_length (by omega), ← hl, List.take_length]
  rw [ht, encodeNum, beNat_beBytes, pow256]
  congr 1
  apply BitVec.eq_of_toNat_eq
  simp

theorem decodeNum_encodeNum (k : NumKind) (v : BitVec k.bits) : decodeNum k (encodeNum k v) = .ok v := by
  simpa using decodeNum_encodeNum_append k v []

theorem decodeNum_nil (k : NumKind) : decodeNum k [] = .err eEOF := by simp [decodeNum]

theorem decodeNum_short (k : NumKind) (bs : Bytes) (h0 : bs ≠ []) (h : bs.length < k.bytes) :
    decodeNum k bs = .err eUEOF := by
  have : bs.length ≠ 0 := by simpa using h0
  simp [decodeNum, this, h]

theorem decodeNum_no_panic (k : NumKind) (bs : Bytes) (m : String) : decodeNum k bs ≠ .panic m := by
  unfold decodeNum
  split
  · simp
  · split <;> simp

/-- more is true: the decoder never looks past its width -/
theorem decodeNum_take (k : NumKind) (bs : Bytes) (h : k.bytes ≤ bs.length) :
    decodeNum k bs = decodeNum k (bs.take k.bytes) := by
  have hp := NumKind.bytes_pos k
  have h1 : ¬ bs.length = 0 := by omega
  have h2 : ¬ bs.length < k.bytes := by omega
  have hl : (bs.take k.bytes).length = k.bytes := by simp; omega
  have h3 : ¬ k.bytes = 0 := by omega
  have h4 : List.take k.bytes (List.take k.bytes bs) = List.take k.bytes bs := by
    rw [List.take_take]; simp
  simp [decodeNum, h1, h2, hl, h3, h4]

/-! ### int / uint through 64 bits -/

/-- Go's `int(int64(x))` for an `int` of any width `w ≤ 64` (32-bit platforms included) -/
theorem setWidth_signExtend_64 (w : Nat) (h : w ≤ 64) (x : BitVec w) : (x.signExtend 64).setWidth w = x := by
  apply BitVec.eq_of_getLsbD_eq
  intro i hi
  simp [BitVec.getLsbD_signExtend, hi]
  omega

theorem setWidth_setWidth_64 (w : Nat) (h : w ≤ 64) (x : BitVec w) : (x.setWidth 64).setWidth w = x := by
  apply BitVec.eq_of_getLsbD_eq
  intro i hi
  simp [BitVec.getLsbD_setWidth, hi]
  omega

theorem i64ToInt_intToI64 (v : BitVec 64) : i64ToInt (intToI64 v) = v := by
  simp [i64ToInt, intToI64]

theorem u64ToUint_uintToU64 (v : BitVec 64) : u64ToUint (uintToU64 v) = v := by
  simp [u64ToUint, uintToU64]

/-! ### slicing and the nonce split -/

theorem sliceTo_ok (d : Bytes) (n : Nat) (h : n ≤ d.length) : sliceTo d n = .ok (d.take n) := by
  simp [sliceTo, h]

theorem sliceFrom_ok (d : Bytes) (n : Nat) (h : n ≤ d.length) : sliceFrom d n = .ok (d.drop n) := by
  simp [sliceFrom, h]

/-- what `aesDecrypt` computes, with the (unreachable) slicing panics eliminated -/
theorem aesDecrypt_eq (a : AEAD) (key data : Bytes) :
    aesDecrypt a key data =
      if !keyLenOk key.length then .err eKeySize
      else if data.length < nonceSize then .err eShort
      else match a.openAE key (data.take nonceSize) (data.drop nonceSize) with
        | some p => .ok p
        | none => .err eAuth := by
  unfold aesDecrypt
  split
  · rfl
  · split
    · rfl
    · rename_i h
      have h' : nonceSize ≤ data.length := by omega
      simp only [sliceTo_ok _ _ h', sliceFrom_ok _ _ h']
      cases a.openAE key (List.take nonceSize data) (List.drop nonceSize data) <;> rfl

theorem aesDecrypt_framed (a : AEAD) (key nonce sealed : Bytes) (hk : keyLenOk key.length = true)
    (hn : nonce.length = nonceSize) :
    aesDecrypt a key (nonce ++ sealed) =
      match a.openAE key nonce sealed with
      | some p => .ok p
      | none => .err eAuth := by
  rw [aesDecrypt_eq]
  have h1 : ¬ (nonce ++ sealed).length < nonceSize := by simp [hn]
  rw [if_neg (by simp [hk]), if_neg h1]
  have h2 : (nonce ++ sealed).take nonceSize = nonce := by
    rw [← hn]; simp
  have h3 : (nonce ++ sealed).drop nonceSize = sealed := by
    rw [← hn]; simp
  rw [h2, h3]

/-! ### bit flips -/

theorem UInt8.xor_ne_self (b m : UInt8) (hm : m ≠ 0) : b ^^^ m ≠ b := by
  intro h
  have := congrArg (fun x => b ^^^ x) h
  simp [← UInt8.xor_assoc] at this
  exact hm this

theorem bitMask_ne_zero (j : Nat) (h : j < 8) : (1 : UInt8) <<< UInt8.ofNat j ≠ 0 := by
  have : j = 0 ∨ j = 1 ∨ j = 2 ∨ j = 3 ∨ j = 4 ∨ j = 5 ∨ j = 6 ∨ j = 7 := by omega
  rcases this with h | h | h | h | h | h | h | h <;> subst h <;> decide

theorem length_flipBit (bs : Bytes) (i : Nat) : (flipBit bs i).length = bs.length := by
  simp [flipBit]

/-- flipping any bit inside the byte string changes it -/
theorem flipBit_ne (bs : Bytes) (i : Nat) (h : i < 8 * bs.length) : flipBit bs i ≠ bs := by
  intro heq
  have hi : i / 8 < bs.length := by omega
  have := congrArg (fun l => l[i / 8]?) heq
  simp only [flipBit, List.getElem?_modify_eq, List.getElem?_eq_getElem hi] at this
  have this : bs[i / 8] ^^^ 1 <<< UInt8.ofNat (i % 8) = bs[i / 8] := by simpa using this
  exact UInt8.xor_ne_self _ _ (bitMask_ne_zero (i % 8) (Nat.mod_lt _ (by decide))) this

end Ekit.Sqlx
