/-
Red-black invariants (C02) and their preservation by insertion.
`NoRR` : no red node has a red child.  `Bal` : both subtrees of every node have the same black height.
-/
import Ekit.Model.RBTree

namespace Ekit.RB
namespace Tree
variable {α β : Type}

/-- no red node has a red child -/
def NoRR : Tree α β → Prop
  | nil => True
  | node c l _ _ r => (c = .red → l.color = .black ∧ r.color = .black) ∧ NoRR l ∧ NoRR r

/-- every root-to-leaf path carries the same number of black nodes -/
def Bal : Tree α β → Prop
  | nil => True
  | node _ l _ _ r => bh l = bh r ∧ Bal l ∧ Bal r

/-- what one level of `ins` guarantees about the subtree it returns: still balanced with the old
    black height; the only possible red-red conflict is between the root and ONE of its children,
    and only if the old root was red. -/
structure InsInv (t t' : Tree α β) : Prop where
  bal : Bal t'
  bh_eq : bh t' = bh t
  left : NoRR t'.left
  right : NoRR t'.right
  black : t.color = .black → NoRR t'
  one : t'.color = .red → ¬ (t'.left.color = .red ∧ t'.right.color = .red)

@[simp] theorem color_nil : (nil : Tree α β).color = .black := rfl
@[simp] theorem color_node (c : Color) (l : Tree α β) (k : α) (v : β) (r : Tree α β) : (node c l k v r).color = c := rfl
@[simp] theorem left_nil : (nil : Tree α β).left = nil := rfl
@[simp] theorem left_node (c : Color) (l : Tree α β) (k : α) (v : β) (r : Tree α β) : (node c l k v r).left = l := rfl
@[simp] theorem right_nil : (nil : Tree α β).right = nil := rfl
@[simp] theorem right_node (c : Color) (l : Tree α β) (k : α) (v : β) (r : Tree α β) : (node c l k v r).right = r := rfl
@[simp] theorem setBlack_nil' : (nil : Tree α β).setBlack = nil := rfl
@[simp] theorem setBlack_node' (c : Color) (l : Tree α β) (k : α) (v : β) (r : Tree α β) :
    (node c l k v r).setBlack = node .black l k v r := rfl
@[simp] theorem setRed_nil' : (nil : Tree α β).setRed = nil := rfl
@[simp] theorem setRed_node' (c : Color) (l : Tree α β) (k : α) (v : β) (r : Tree α β) :
    (node c l k v r).setRed = node .red l k v r := rfl
@[simp] theorem isRed_nil : (nil : Tree α β).isRed = false := rfl
@[simp] theorem isRed_node_red (l : Tree α β) (k : α) (v : β) (r : Tree α β) : (node .red l k v r).isRed = true := rfl
@[simp] theorem isRed_node_black (l : Tree α β) (k : α) (v : β) (r : Tree α β) : (node .black l k v r).isRed = false := rfl
@[simp] theorem isRed_iff (t : Tree α β) : t.isRed = true ↔ t.color = .red := by simp [isRed]
theorem color_cases (t : Tree α β) : t.color = .red ∨ t.color = .black := by
  cases t.color <;> simp
@[simp] theorem color_ne_red (t : Tree α β) : ¬ t.color = .red ↔ t.color = .black := by
  cases t.color <;> simp
@[simp] theorem color_ne_black (t : Tree α β) : ¬ t.color = .black ↔ t.color = .red := by
  cases t.color <;> simp

/-- expose constructors, colours and black heights of the trees that have been case-split -/
macro "rb_norm" : tactic =>
  `(tactic| simp only [NoRR, Bal, bh, rotL, rotR, redRed, color_node, color_nil, left_node, left_nil, right_node, right_nil,
      isRed_node_red, isRed_node_black, isRed_nil, setBlack_node', setBlack_nil', setRed_node', setRed_nil',
      reduceIte, reduceCtorEq, Bool.or_true, Bool.true_or, Bool.or_false, Bool.and_true, Bool.true_and, Bool.and_false, Bool.false_and,
      Bool.not_true, Bool.not_false, if_true, if_false, Bool.false_eq_true, Bool.or_self] at *)
/-- close a goal that is a structure/conjunction of invariants after the case split -/
macro "rb_auto" : tactic =>
  `(tactic| ((try rb_norm) <;> constructor <;> (try rb_norm) <;> grind))

theorem insInv_leaf (k : α) (v : β) : InsInv (nil : Tree α β) (node .red nil k v nil) :=
  ⟨by simp [Bal, bh], by simp [bh], by simp [NoRR], by simp [NoRR], by simp [NoRR], by simp⟩

/-- one iteration of `fixAfterAdd` coming up from the left child -/
theorem fixInsL_inv (c : Color) (l l' : Tree α β) (k : α) (v : β) (r : Tree α β)
    (hl : InsInv l l') (hr : NoRR r) (hbr : Bal r) (hbh : bh l = bh r)
    (hcol : c = .red → l.color = .black ∧ r.color = .black) :
    InsInv (node c l k v r) (fixInsL c l' k v r) := by
  obtain ⟨h1, h2, h3, h4, h5, h6⟩ := hl
  unfold fixInsL
  rcases l' with _ | ⟨_ | _, ll, lk, lv, lr⟩
  · rb_auto
  · rcases ll with _ | ⟨_ | _, _, _, _, _⟩ <;> rcases lr with _ | ⟨_ | _, _, _, _, _⟩ <;>
      rcases r with _ | ⟨_ | _, _, _, _, _⟩ <;> cases c <;> rb_auto
  · rb_auto

/-- one iteration of `fixAfterAdd` coming up from the right child -/
theorem fixInsR_inv (c : Color) (l r r' : Tree α β) (k : α) (v : β)
    (hr : InsInv r r') (hl : NoRR l) (hbl : Bal l) (hbh : bh l = bh r)
    (hcol : c = .red → l.color = .black ∧ r.color = .black) :
    InsInv (node c l k v r) (fixInsR c l k v r') := by
  obtain ⟨h1, h2, h3, h4, h5, h6⟩ := hr
  unfold fixInsR
  rcases r' with _ | ⟨_ | _, rl, rk, rv, rr⟩
  · rb_auto
  · rcases rl with _ | ⟨_ | _, _, _, _, _⟩ <;> rcases rr with _ | ⟨_ | _, _, _, _, _⟩ <;>
      rcases l with _ | ⟨_ | _, _, _, _, _⟩ <;> cases c <;> rb_auto
  · rb_auto

theorem ins_inv (cmp : α → α → Int) (k : α) (v : β) (t t' : Tree α β) (hn : NoRR t) (hb : Bal t)
    (h : ins cmp k v t = some t') : InsInv t t' := by
  induction t generalizing t' with
  | nil =>
    simp only [ins, Option.some.injEq] at h
    subst h
    exact insInv_leaf k v
  | node c l k' v' r ihl ihr =>
    simp only [NoRR] at hn
    simp only [Bal] at hb
    obtain ⟨hcol, hnl, hnr⟩ := hn
    obtain ⟨hbh, hbl, hbr⟩ := hb
    simp only [ins] at h
    split at h
    · cases hi : ins cmp k v l with
      | none => simp [hi] at h
      | some l' =>
        simp only [hi, Option.some.injEq] at h
        subst h
        exact fixInsL_inv c l l' k' v' r (ihl l' hnl hbl hi) hnr hbr hbh hcol
    · split at h
      · cases hi : ins cmp k v r with
        | none => simp [hi] at h
        | some r' =>
          simp only [hi, Option.some.injEq] at h
          subst h
          exact fixInsR_inv c l r r' k' v' (ihr r' hnr hbr hi) hnl hbl hbh hcol
      · cases h

/-- `setBlack` at the root turns the weak invariant into the full one -/
theorem noRR_setBlack (t : Tree α β) (hl : NoRR t.left) (hr : NoRR t.right) : NoRR t.setBlack := by
  cases t with
  | nil => trivial
  | node c l k v r => simp_all [NoRR]

theorem bal_setBlack (t : Tree α β) (h : Bal t) : Bal t.setBlack := by
  cases t with
  | nil => trivial
  | node c l k v r => simpa [Bal] using h

theorem color_setBlack (t : Tree α β) : t.setBlack.color = .black := by
  cases t <;> rfl

/-- `Add` keeps: black root, no red-red, balanced -/
theorem insert_inv (cmp : α → α → Int) (k : α) (v : β) (t t' : Tree α β) (hn : NoRR t) (hb : Bal t)
    (h : insert cmp t k v = some t') : t'.color = .black ∧ NoRR t' ∧ Bal t' := by
  unfold insert at h
  cases hi : ins cmp k v t with
  | none => simp [hi] at h
  | some t1 =>
    simp only [hi, Option.some.injEq] at h
    subst h
    have := ins_inv cmp k v t t1 hn hb hi
    exact ⟨color_setBlack _, noRR_setBlack _ this.left this.right, bal_setBlack _ this.bal⟩

end Tree
end Ekit.RB
