/-
The translated `Put` and `Delete` of mapx/hashmap.go (Ekit/Generated/HashMapGo.lean: `body_Put`, `body_Delete`, `body_newNode`)
simulate the hand model's `put` / `delete` (`HMap.step … (.put k v)` / `(.delete k)`, Model/HashMap.lean) under the relation
`Rel` of Lemmas/HMRefine.lean.

* `Put_sim`     — under `Rel` alone: nil error + related state whenever the model's `Put` returns; the model's only other
                  outcome (a present code with an EMPTY chain) is a nil-dereference panic of the interpreter too.
* `Delete_sim`  — under `Rel` + distinct codes in the model's association list (`NoDupCodes`; `AL.erase` removes only the first
                  entry of a code, so `Rel` alone is too weak): the model's value and found-flag, related state, the deleted
                  node formatted and pooled.
* `Rel'` = `Rel` ∧ `NoEmpty` ∧ `NoDupCodes`: established by the constructor (`New_sim'`), preserved by `Put` (`Put_sim'`, never a
  panic) and `Delete` (`Delete_sim'`); `Rel' → Rel` is `Rel'.rel`.
-/
import Ekit.Lemmas.HMRefine

namespace Ekit.MiniGo.HM.Refine
open Ekit.MiniGo.HM Ekit.Gen.HashMapGo
open Ekit.HashMap

/-! ### association lists -/

theorem lookup_set {β : Type} (c d : Int) (x : β) (l : List (Int × β)) :
    AL.lookup d (AL.set c x l) = if d = c then some x else AL.lookup d l := by
  induction l with
  | nil =>
    by_cases h : d = c
    · simp [AL.set, AL.lookup, h]
    · have h' : ¬ c = d := fun e => h e.symm
      simp [AL.set, AL.lookup, h, h']
  | cons y r ih =>
    obtain ⟨y1, y2⟩ := y
    by_cases hy : y1 = c
    · by_cases h : d = c
      · simp [AL.set, AL.lookup, hy, h]
      · have h' : ¬ c = d := fun e => h e.symm
        simp [AL.set, AL.lookup, hy, h, h']
    · by_cases h : d = c
      · subst h
        simp [AL.set, hy, AL.lookup, ih]
      · simp [AL.set, hy, AL.lookup, ih, h]

/-! ### frame lemmas -/

theorem upd_same (h : Nat → Node) (a : Nat) (n : Node) : upd h a n a = n := by simp [upd]
theorem upd_other (h : Nat → Node) (a b : Nat) (n : Node) (hb : b ≠ a) : upd h a n b = h b := by simp [upd, hb]

theorem IsPath.frame {h h' : Nat → Node} : ∀ (as : List Nat) (p : Option Nat),
    (∀ a, a ∈ as → (h' a).next = (h a).next) → IsPath h p as → IsPath h' p as := by
  intro as
  induction as with
  | nil => intro p _ hp; exact hp
  | cons a as ih =>
    intro p hf hp
    obtain ⟨rfl, hp'⟩ := hp
    refine ⟨rfl, ?_⟩
    rw [hf a (by simp)]
    exact ih _ (fun b hb => hf b (by simp [hb])) hp'

theorem contents_cons (h : Nat → Node) (a : Nat) (as : List Nat) :
    contents h (a :: as) = ((h a).key, (h a).value) :: contents h as := rfl
theorem contents_nil (h : Nat → Node) : contents h [] = [] := rfl

theorem contents_frame {h h' : Nat → Node} (as : List Nat) (hf : ∀ a, a ∈ as → h' a = h a) :
    contents h' as = contents h as := by
  unfold contents
  apply List.map_congr_left
  intro a ha
  rw [hf a ha]

theorem contents_frame' {h h' : Nat → Node} (as : List Nat)
    (hf : ∀ a, a ∈ as → (h' a).key = (h a).key ∧ (h' a).value = (h a).value) : contents h' as = contents h as := by
  unfold contents
  apply List.map_congr_left
  intro a ha
  rw [(hf a ha).1, (hf a ha).2]

theorem contents_append (h : Nat → Node) (as bs : List Nat) : contents h (as ++ bs) = contents h as ++ contents h bs := by
  simp [contents]

theorem PoolRel.frame {h h' : Nat → Node} : ∀ (as : List Nat) (pns : List (PNode Int)),
    (∀ a, a ∈ as → h' a = h a) → PoolRel h as pns → PoolRel h' as pns := by
  intro as
  induction as with
  | nil => intro pns _ hp; cases pns <;> simp [PoolRel] at hp ⊢
  | cons a as ih =>
    intro pns hf hp
    cases pns with
    | nil => simp [PoolRel] at hp
    | cons pn pns =>
      simp only [PoolRel] at hp ⊢
      refine ⟨by rw [hf a (by simp)]; exact hp.1, ih pns (fun b hb => hf b (by simp [hb])) hp.2⟩

theorem PoolRel.length {h : Nat → Node} : ∀ (as : List Nat) (pns : List (PNode Int)),
    PoolRel h as pns → as.length = pns.length := by
  intro as
  induction as with
  | nil => intro pns hp; cases pns <;> simp [PoolRel] at hp ⊢
  | cons a as ih =>
    intro pns hp
    cases pns with
    | nil => simp [PoolRel] at hp
    | cons pn pns => simp only [PoolRel] at hp; simp [ih pns hp.2]

/-- the pool relation position by position -/
theorem PoolRel.eraseIdx {h : Nat → Node} : ∀ (as : List Nat) (pns : List (PNode Int)) (i : Nat),
    PoolRel h as pns → PoolRel h (as.eraseIdx i) (pns.eraseIdx i) := by
  intro as
  induction as with
  | nil => intro pns i hp; cases pns <;> simp [PoolRel] at hp ⊢
  | cons a as ih =>
    intro pns i hp
    cases pns with
    | nil => simp [PoolRel] at hp
    | cons pn pns =>
      simp only [PoolRel] at hp
      cases i with
      | zero => simpa using hp.2
      | succ i => simp only [List.eraseIdx_cons_succ, PoolRel]; exact ⟨hp.1, ih pns i hp.2⟩

theorem PoolRel.get {h : Nat → Node} : ∀ (as : List Nat) (pns : List (PNode Int)) (i : Nat) (a : Nat),
    PoolRel h as pns → as[i]? = some a → ∃ pn, pns[i]? = some pn ∧ PRel (h a) pn := by
  intro as
  induction as with
  | nil => intro pns i a _ hi; simp at hi
  | cons x as ih =>
    intro pns i a hp hi
    cases pns with
    | nil => simp [PoolRel] at hp
    | cons pn pns =>
      simp only [PoolRel] at hp
      cases i with
      | zero => simp at hi; subst hi; exact ⟨pn, by simp, hp.1⟩
      | succ i => simp at hi; simpa using ih pns i a hp.2 hi

/-! ### rebuilding `Rel` after a change to one chain -/

/-- `Rel` with its witness exposed -/
def RelA (st : St) (m : HMap Int) (addrs : Int → List Nat) : Prop :=
    (∀ c, match AL.lookup c m.buckets with
          | none => st.map c = none ∧ addrs c = []
          | some ch => ∃ p, st.map c = some p ∧ IsPath st.h p (addrs c) ∧ contents st.h (addrs c) = ch) ∧
    (∀ c, (addrs c).Nodup) ∧
    (∀ c d a, c ≠ d → a ∈ addrs c → a ∉ addrs d) ∧
    (∀ c a, a ∈ addrs c → a < st.alloc ∧ a ∉ st.pool) ∧
    st.pool.Nodup ∧ (∀ a, a ∈ st.pool → a < st.alloc) ∧
    PoolRel st.h st.pool m.pool

theorem Rel.exA {st : St} {m : HMap Int} (r : Rel st m) : ∃ addrs, RelA st m addrs := r.ex
theorem RelA.rel {st : St} {m : HMap Int} {addrs : Int → List Nat} (r : RelA st m addrs) : Rel st m := ⟨⟨addrs, r⟩⟩

/-- a call that changed the chain of code `c` only (new addresses `as'`), moved nodes between that chain and the pool and
    possibly allocated: the other chains are still related -/
theorem RelA.rebuild {st st' : St} {m m' : HMap Int} {addrs : Int → List Nat} (r : RelA st m addrs) (c : Int) (as' : List Nat)
    (H1 : ∀ d, d ≠ c → st'.map d = st.map d)
    (H2 : ∀ d, d ≠ c → AL.lookup d m'.buckets = AL.lookup d m.buckets)
    (H3 : ∀ d b, d ≠ c → b ∈ addrs d → st'.h b = st.h b)
    (H4 : match AL.lookup c m'.buckets with
          | none => st'.map c = none ∧ as' = []
          | some ch => ∃ p, st'.map c = some p ∧ IsPath st'.h p as' ∧ contents st'.h as' = ch)
    (H5 : as'.Nodup)
    (H6 : ∀ b, b ∈ as' → b ∈ addrs c ∨ b ∈ st.pool ∨ st.alloc ≤ b)
    (H7 : ∀ b, b ∈ as' → b < st'.alloc ∧ b ∉ st'.pool)
    (H8 : st.alloc ≤ st'.alloc)
    (H9 : ∀ b, b ∈ st'.pool → b ∈ st.pool ∨ b ∈ addrs c)
    (H10 : st'.pool.Nodup)
    (H11 : PoolRel st'.h st'.pool m'.pool) :
    RelA st' m' (fun d => if d = c then as' else addrs d) := by
  obtain ⟨hb, hnd, hdis, hal, hpn, hpa, hpr⟩ := r
  refine ⟨?_, ?_, ?_, ?_, H10, ?_, H11⟩
  · intro d
    by_cases hd : d = c
    · subst hd; simpa using H4
    · simp only [hd, if_false]
      rw [H2 d hd, H1 d hd]
      have := hb d
      cases e : AL.lookup d m.buckets with
      | none => rw [e] at this; exact this
      | some ch =>
        rw [e] at this
        obtain ⟨p, h1, h2, h3⟩ := this
        refine ⟨p, h1, IsPath.frame _ _ (fun a ha => by rw [H3 d a hd ha]) h2, ?_⟩
        rw [contents_frame _ (fun a ha => H3 d a hd ha)]; exact h3
  · intro d
    by_cases hd : d = c
    · simp [hd, H5]
    · simp [hd, hnd d]
  · intro d e a hde
    have key : ∀ x, x ≠ c → a ∈ as' → a ∉ addrs x := by
      intro x hx ha hax
      rcases H6 a ha with h | h | h
      · exact hdis c x a (fun e => hx e.symm) h hax
      · exact (hal x a hax).2 h
      · have := (hal x a hax).1; omega
    by_cases hd : d = c
    · subst hd
      have he : ¬ e = d := fun x => hde x.symm
      simp only [if_true, he, if_false]
      exact key e he
    · by_cases he : e = c
      · subst he
        simp only [hd, if_false, if_true]
        intro h1 h2
        exact key d hd h2 h1
      · simp only [hd, he, if_false]
        exact hdis d e a hde
  · intro d a
    by_cases hd : d = c
    · simp only [hd, if_true]; exact H7 a
    · simp only [hd, if_false]
      intro ha
      refine ⟨by have := (hal d a ha).1; omega, fun hp => ?_⟩
      rcases H9 a hp with h | h
      · exact (hal d a ha).2 h
      · exact hdis d c a hd ha h
  · intro a ha
    rcases H9 a ha with h | h
    · have := hpa a h; omega
    · have := (hal c a h).1; omega

/-! ### `newNode` -/

theorem upd_upd_same (h : Nat → Node) (a : Nat) (n n' : Node) : upd (upd h a n) a n' = upd h a n' := by
  funext x; by_cases hx : x = a <;> simp [upd, hx]

theorem not_mem_eraseIdx_of_nodup : ∀ (l : List Nat) (i a : Nat), l.Nodup → l[i]? = some a → a ∉ l.eraseIdx i := by
  intro l
  induction l with
  | nil => intro i a _ h; simp at h
  | cons x l ih =>
    intro i a hn hi
    rw [List.nodup_cons] at hn
    cases i with
    | zero => simp at hi; subst hi; simpa using hn.1
    | succ i =>
      simp at hi
      have hmem : a ∈ l := List.mem_of_getElem? hi
      simp only [List.eraseIdx_cons_succ, List.mem_cons, not_or]
      exact ⟨fun e => hn.1 (e ▸ hmem), ih i a hn.2 hi⟩

/-- `newNode` when `sync.Pool.Get` hands out the pooled node `a` -/
theorem newNode_pick (ko : KeyOps) (f : Nat) (k v : Int) (st : St) (a : Nat) (rest : List Nat)
    (hp : poolPick st.pool st.choice = some (a, rest)) :
    call ko procs (f + 1) .newNode [.int k, .int v] st =
      .ok (.ptr (some a), { st with pool := rest, h := upd st.h a ⟨k, v, (st.h a).next⟩ }) := by
  simp [call_succ, runBody, procs, body_newNode, exec, evalE, hp, Env.ofArgs, set_apply, writeField, Node.set, upd_upd_same,
    upd_same]

/-- `newNode` when the pool's factory runs -/
theorem newNode_fresh (ko : KeyOps) (f : Nat) (k v : Int) (st : St) (hp : poolPick st.pool st.choice = none) :
    call ko procs (f + 2) .newNode [.int k, .int v] st =
      .ok (.ptr (some st.alloc), { st with alloc := st.alloc + 1, h := upd st.h st.alloc ⟨k, v, none⟩ }) := by
  rw [call_succ]
  simp [runBody, procs, body_newNode, exec, evalE, hp, poolNew_spec, Env.ofArgs, set_apply, writeField, Node.set, upd_upd_same,
    upd_same]

/-- `newNode` on related states: the node it returns is outside every chain, carries `(k, v)` and a nil `next`; the pools stay
    related -/
theorem newNode_sim (ko : KeyOps) {st : St} {m : HMap Int} {addrs : Int → List Nat} (r : RelA st m addrs) (ch : Option Nat)
    (hc : st.choice = ch) (k v : Int) (f : Nat) :
    ∃ a st', call ko procs (f + 2) .newNode [.int k, .int v] st = .ok (.ptr (some a), st') ∧
      st'.h = upd st.h a ⟨k, v, none⟩ ∧ st'.map = st.map ∧ st.alloc ≤ st'.alloc ∧ a < st'.alloc ∧ a ∉ st'.pool ∧
      (a ∈ st.pool ∨ st.alloc ≤ a) ∧ (∀ b, b ∈ st'.pool → b ∈ st.pool) ∧ st'.pool.Nodup ∧
      PoolRel st.h st'.pool (newNode m.pool ch k v).2 ∧ (newNode m.pool ch k v).1 = [(k, v)] := by
  obtain ⟨_, _, _, _, hpn, hpa, hpr⟩ := r
  have fresh : poolPick st.pool st.choice = none → (newNode m.pool ch k v) = ([(k, v)], m.pool) → _ := fun hp hm =>
    (⟨st.alloc, _, newNode_fresh ko f k v st hp, rfl, rfl, Nat.le_succ _, Nat.lt_succ_self _,
      fun h => Nat.lt_irrefl _ (hpa _ h), Or.inr (Nat.le_refl _), fun b hb => hb, hpn, by rw [hm]; exact hpr, by rw [hm]⟩ :
      ∃ a st', call ko procs (f + 2) .newNode [.int k, .int v] st = .ok (.ptr (some a), st') ∧
      st'.h = upd st.h a ⟨k, v, none⟩ ∧ st'.map = st.map ∧ st.alloc ≤ st'.alloc ∧ a < st'.alloc ∧ a ∉ st'.pool ∧
      (a ∈ st.pool ∨ st.alloc ≤ a) ∧ (∀ b, b ∈ st'.pool → b ∈ st.pool) ∧ st'.pool.Nodup ∧
      PoolRel st.h st'.pool (newNode m.pool ch k v).2 ∧ (newNode m.pool ch k v).1 = [(k, v)])
  cases hch : st.choice with
  | none =>
    have hc' : ch = none := by rw [← hc, hch]
    subst hc'
    exact fresh (by simp [poolPick, hch]) (by simp [newNode, poolGet, freshNode, Gen.HashMapFacts.newNodeSetsKey,
      Gen.HashMapFacts.newNodeSetsValue, Gen.HashMapFacts.newNodeSetsNext])
  | some i =>
    have hc' : ch = some i := by rw [← hc, hch]
    subst hc'
    cases hi : st.pool[i]? with
    | none =>
      have hlen := PoolRel.length _ _ hpr
      have hi' : m.pool[i]? = none := by
        rw [List.getElem?_eq_none_iff] at hi ⊢; omega
      exact fresh (by simp [poolPick, hch, hi]) (by simp [newNode, poolGet, hi', freshNode, Gen.HashMapFacts.newNodeSetsKey,
        Gen.HashMapFacts.newNodeSetsValue, Gen.HashMapFacts.newNodeSetsNext])
    | some a =>
      obtain ⟨pn, hpn', hk, hv, ht, hnx⟩ := PoolRel.get _ _ i a hpr hi
      have hm : newNode m.pool (some i) k v = ([(k, v)], m.pool.eraseIdx i) := by
        simp [newNode, poolGet, hpn', ht, Gen.HashMapFacts.newNodeSetsKey,
          Gen.HashMapFacts.newNodeSetsValue, Gen.HashMapFacts.newNodeSetsNext]
      have hmem : a ∈ st.pool := List.mem_of_getElem? hi
      refine ⟨a, _, newNode_pick ko (f + 1) k v st a (st.pool.eraseIdx i) (by simp [poolPick, hch, hi]), ?_, rfl, Nat.le_refl _,
        hpa a hmem, not_mem_eraseIdx_of_nodup _ i a hpn hi, Or.inl hmem, fun b hb => List.mem_of_mem_eraseIdx hb,
        hpn.eraseIdx i, ?_, by rw [hm]⟩
      · simp [hnx]
      · rw [hm]; exact PoolRel.eraseIdx _ _ i hpr

/-! ### `Put` -/

/-- `Put` when the code is not in the Go map -/
def putFresh : Stmt PName :=
  (.seq (.assign 2 (.code (.var 0)))
    (.seq (.assign 5 (.call2 .newNode (.var 0) (.var 1)))
    (.seq (.mapSet (.var 2) (.var 5))
    (.ret .nil))))

/-- the body of `Put`'s loop -/
def putLoopBody : Stmt PName :=
  (.seq (.ite (.equals (.field (.var 3) .key) (.var 0))
    (.seq (.setField (.var 3) .value (.var 1))
    (.ret .nil))
    .skip)
    (.seq (.assign 6 (.var 3))
    (.assign 3 (.field (.var 3) .next))))

/-- `Put` after the loop: append a node to the chain -/
def putTail : Stmt PName :=
  (.seq (.assign 5 (.call2 .newNode (.var 0) (.var 1)))
    (.seq (.setField (.var 6) .next (.var 5))
    (.ret .nil)))

theorem body_Put_shape : body_Put =
  (.seq (.assign 2 (.code (.var 0)))
    (.seq (.mapRead 3 4 (.var 2))
    (.seq (.ite (.not (.var 4)) putFresh .skip)
    (.seq (.assign 6 (.var 3))
    (.seq (.loop (.ne (.var 3) .nil) putLoopBody)
    putTail))))) := rfl

section putrules
variable (hk : Hashable) (callH : CallH PName) (lf : Nat) (st : St) (ρ : Env)

theorem put_cond (p : Option Nat) (h3 : ρ 3 = .ptr p) :
    evalE (koOf hk) callH ρ st (.ne (.var 3) .nil) = .ok (.bool p.isSome, st) := by
  cases p <;> simp [evalE, seq2, h3, BinOp.apply, valEq]

theorem put_body_hit (a : Nat) (k v : Int) (h3 : ρ 3 = .ptr (some a)) (h0 : ρ 0 = .int k) (h1 : ρ 1 = .int v)
    (he : hk.equals (st.h a).key k = true) :
    exec (koOf hk) callH lf ρ st putLoopBody =
      .ok (.ret (.ptr none), ρ, { st with h := upd st.h a ⟨(st.h a).key, v, (st.h a).next⟩ }) := by
  simp [putLoopBody, exec, evalE, seq2, h3, h0, h1, BinOp.apply, Node.get, koOf, he, writeField, Node.set]

theorem put_body_miss (a : Nat) (k : Int) (h3 : ρ 3 = .ptr (some a)) (h0 : ρ 0 = .int k)
    (he : hk.equals (st.h a).key k = false) :
    exec (koOf hk) callH lf ρ st putLoopBody = .ok (.normal, (ρ.set 6 (.ptr (some a))).set 3 (.ptr (st.h a).next), st) := by
  simp [putLoopBody, exec, evalE, seq2, h3, h0, BinOp.apply, Node.get, koOf, he, set_apply]

end putrules

/-- `Put`'s loop is `chainPut`: an overwrite in place of the first node with an `Equals` key, or a walk to the end that leaves
    the last node in `pre` -/
theorem put_loop (hk : Hashable) (callH : CallH PName) (lf : Nat) (st : St) (k v : Int) :
    ∀ (as : List Nat) (p : Option Nat) (ρ : Env) (n : Nat), IsPath st.h p as → as.Nodup → ρ 3 = .ptr p → ρ 0 = .int k →
      ρ 1 = .int v → as.length < n →
    (match chainPut hk k v (contents st.h as) with
     | some ch' => ∃ ρ' b, b ∈ as ∧ contents (upd st.h b ⟨(st.h b).key, v, (st.h b).next⟩) as = ch' ∧
        iterate (fun ρ st => evalE (koOf hk) callH ρ st (.ne (.var 3) .nil))
          (fun ρ st => exec (koOf hk) callH lf ρ st putLoopBody) n ρ st =
        .ok (.ret (.ptr none), ρ', { st with h := upd st.h b ⟨(st.h b).key, v, (st.h b).next⟩ })
     | none => ∃ ρ', ρ' 0 = ρ 0 ∧ ρ' 1 = ρ 1 ∧ ρ' 6 = (match as.getLast? with | some l => .ptr (some l) | none => ρ 6) ∧
        iterate (fun ρ st => evalE (koOf hk) callH ρ st (.ne (.var 3) .nil))
          (fun ρ st => exec (koOf hk) callH lf ρ st putLoopBody) n ρ st = .ok (.normal, ρ', st)) := by
  intro as
  induction as with
  | nil =>
    intro p ρ n hp _ h3 _ _ hn
    obtain ⟨n, rfl⟩ : ∃ n', n = n' + 1 := ⟨n - 1, by simp at hn; omega⟩
    simp only [IsPath] at hp
    subst hp
    simp only [contents_nil, chainPut]
    refine ⟨ρ, rfl, rfl, rfl, ?_⟩
    simp only [iterate, put_cond hk callH st ρ none h3, Option.isSome_none]
  | cons a as ih =>
    intro p ρ n hp hnd h3 h0 h1 hn
    obtain ⟨n, rfl⟩ : ∃ n', n = n' + 1 := ⟨n - 1, by simp at hn; omega⟩
    obtain ⟨rfl, hp'⟩ := hp
    rw [List.nodup_cons] at hnd
    by_cases he : hk.equals (st.h a).key k = true
    · simp only [contents_cons, chainPut, he, if_true]
      refine ⟨ρ, a, by simp, ?_, ?_⟩
      · simp only [upd_same, List.cons.injEq, true_and]
        exact contents_frame as (fun b hb => upd_other _ _ _ _ (fun e => hnd.1 (e ▸ hb)))
      · simp only [iterate, put_cond hk callH st ρ (some a) h3, Option.isSome_some]
        rw [put_body_hit hk callH lf st ρ a k v h3 h0 h1 he]
    · have he' : hk.equals (st.h a).key k = false := by simpa using he
      have hrec := ih (st.h a).next ((ρ.set 6 (.ptr (some a))).set 3 (.ptr (st.h a).next)) n hp' hnd.2 (by simp [set_apply])
        (by simp [set_apply, h0]) (by simp [set_apply, h1]) (by simp at hn; omega)
      have hit : iterate (fun ρ st => evalE (koOf hk) callH ρ st (.ne (.var 3) .nil))
          (fun ρ st => exec (koOf hk) callH lf ρ st putLoopBody) (n + 1) ρ st =
          iterate (fun ρ st => evalE (koOf hk) callH ρ st (.ne (.var 3) .nil))
          (fun ρ st => exec (koOf hk) callH lf ρ st putLoopBody) n ((ρ.set 6 (.ptr (some a))).set 3 (.ptr (st.h a).next)) st := by
        simp only [iterate, put_cond hk callH st ρ (some a) h3, Option.isSome_some]
        rw [put_body_miss hk callH lf st ρ a k h3 h0 he']
      rw [hit]
      simp only [contents_cons, chainPut, he', Bool.false_eq_true, if_false]
      cases hcp : chainPut hk k v (contents st.h as) with
      | some ch' =>
        rw [hcp] at hrec
        obtain ⟨ρ', b, hb, hcont, hrun⟩ := hrec
        have hba : b ≠ a := fun e => hnd.1 (e ▸ hb)
        refine ⟨ρ', b, by simp [hb], ?_, hrun⟩
        simp only []
        rw [upd_other _ _ _ _ hba.symm, hcont]
      | none =>
        rw [hcp] at hrec
        obtain ⟨ρ', e0, e1, e6, hrun⟩ := hrec
        refine ⟨ρ', by rw [e0]; simp [set_apply], by rw [e1]; simp [set_apply], ?_, hrun⟩
        rw [e6]
        cases as with
        | nil => simp [set_apply]
        | cons x xs =>
          rw [List.getLast?_cons_cons]
          cases hgl : (x :: xs).getLast? with
          | none => simp at hgl
          | some l => rfl

/-- appending the node `a` after the last node `l` of a path -/
theorem IsPath.snoc {h h' : Nat → Node} (a l : Nat) (ha : (h' a).next = none) (hl : (h' l).next = some a)
    (hf : ∀ x, x ≠ a → x ≠ l → (h' x).next = (h x).next) : ∀ (as : List Nat) (p : Option Nat), IsPath h p as →
    as.getLast? = some l → as.Nodup → a ∉ as → IsPath h' p (as ++ [a]) := by
  intro as
  induction as with
  | nil => intro p _ hg; simp at hg
  | cons x as ih =>
    intro p hp hg hnd hna
    obtain ⟨rfl, hp'⟩ := hp
    rw [List.nodup_cons] at hnd
    cases as with
    | nil =>
      simp at hg
      subst hg
      simp only [IsPath] at hp'
      simp [IsPath, hl, ha]
    | cons y ys =>
      rw [List.getLast?_cons_cons] at hg
      have hxl : x ≠ l := fun e => hnd.1 (e ▸ List.mem_of_getLast? hg)
      have hxa : x ≠ a := fun e => hna (by simp [e])
      refine ⟨rfl, ?_⟩
      rw [hf x hxa hxl]
      exact ih _ hp' hg hnd.2 (fun hm => hna (List.mem_cons_of_mem _ hm))

section puttail
variable (hk : Hashable) (callH : CallH PName) (lf : Nat) (st st1 : St) (ρ : Env) (k v : Int) (a : Nat)

theorem put_tail_ok (l : Nat) (h0 : ρ 0 = .int k) (h1 : ρ 1 = .int v) (h6 : ρ 6 = .ptr (some l))
    (hcall : callH .newNode [.int k, .int v] st = .ok (.ptr (some a), st1)) :
    exec (koOf hk) callH lf ρ st putTail =
      .ok (.ret (.ptr none), ρ.set 5 (.ptr (some a)),
        { st1 with h := upd st1.h l ⟨(st1.h l).key, (st1.h l).value, some a⟩ }) := by
  simp [putTail, exec, evalE, h0, h1, h6, hcall, set_apply, writeField, Node.set]

theorem put_tail_panic (h0 : ρ 0 = .int k) (h1 : ρ 1 = .int v) (h6 : ρ 6 = .ptr none)
    (hcall : callH .newNode [.int k, .int v] st = .ok (.ptr (some a), st1)) :
    exec (koOf hk) callH lf ρ st putTail = .error .panic := by
  simp [putTail, exec, evalE, h0, h1, h6, hcall, set_apply, writeField]

end puttail

/-- the model's `Put` falling off the end of a non-empty chain -/
theorem step_put_append (hk : Hashable) (m : HMap Int) (o : Oracle) (k v : Int) (ch : Chain Int)
    (e : AL.lookup (hk.code k) m.buckets = some ch) (hcp : chainPut hk k v ch = none) (hne : ch ≠ []) :
    m.step hk o (.put k v) =
      ({ buckets := AL.set (hk.code k) (ch ++ (newNode m.pool o.choice k v).1) m.buckets,
         pool := (newNode m.pool o.choice k v).2 }, .ok .unit) := by
  cases ch with
  | nil => exact absurd rfl hne
  | cons y ys => simp only [HMap.step, e, hcp]

/-- **`Put`**: on related states, with the interpreter's pool oracle equal to the model's, the translated `Put` returns the nil
    error and a state related to the model's next state whenever the model's `Put` returns; the model's only other outcome
    (a present code with an EMPTY chain: `pre.next` through a nil `pre`) is a panic of the interpreter too -/
theorem Put_sim (hk : Hashable) (st : St) (m : HMap Int) (o : Oracle) (k v : Int) (r : Rel st m) (hc : st.choice = o.choice) :
    ∃ f0, ∀ f, f0 ≤ f →
      (match (m.step hk o (.put k v)).2 with
       | .ok _ => ∃ st', call (koOf hk) procs (f + 1) .Put [.int k, .int v] st = .ok (.ptr none, st') ∧
            Rel st' (m.step hk o (.put k v)).1
       | _ => call (koOf hk) procs (f + 1) .Put [.int k, .int v] st = .error .panic) := by
  obtain ⟨addrs, ra⟩ := r.exA
  have ra' := ra
  obtain ⟨hb, hnd, hdis, hal, hpn, hpa, hpr⟩ := ra'
  have hbc := hb (hk.code k)
  cases e : AL.lookup (hk.code k) m.buckets with
  | none =>
    rw [e] at hbc
    obtain ⟨hmap, hnil⟩ := hbc
    refine ⟨2, fun f hf => ?_⟩
    obtain ⟨f, rfl⟩ : ∃ f', f = f' + 2 := ⟨f - 2, by omega⟩
    obtain ⟨a, st1, hcall, hh, hm1, hal1, haa, hap, hfrom, hsub, hnd1, hpr1, hseg⟩ := newNode_sim (koOf hk) ra o.choice hc k v f
    have hrun : call (koOf hk) procs (f + 2 + 1) .Put [.int k, .int v] st =
        .ok (.ptr none, { st1 with map := updMap st1.map (hk.code k) (some (some a)) }) := by
      rw [call_succ]
      simp [runBody, procs, body_Put_shape, putFresh, exec, evalE, Env.ofArgs, koOf_codeF, set_apply, hmap, hcall]
    have hstep : m.step hk o (.put k v) =
        ({ buckets := AL.set (hk.code k) [(k, v)] m.buckets, pool := (newNode m.pool o.choice k v).2 }, .ok .unit) := by
      simp only [HMap.step, e]
      rw [← hseg]
    rw [hstep]
    refine ⟨_, hrun, ?_⟩
    have hna : ∀ d, a ∉ addrs d := by
      intro d hd
      rcases hfrom with h | h
      · exact (hal d a hd).2 h
      · have := (hal d a hd).1; omega
    have hpool : ∀ b, b ∈ st1.pool → b ≠ a := fun b hb e => hap (e ▸ hb)
    refine (RelA.rebuild (st' := { st1 with map := updMap st1.map (hk.code k) (some (some a)) }) ra (hk.code k) [a]
      ?_ ?_ ?_ ?_ ?_ ?_ ?_ ?_ ?_ ?_ ?_).rel
    · intro d hd; simp [updMap, hd, hm1]
    · intro d hd; simp [lookup_set, hd]
    · intro d b _ hbd
      simp only [hh]
      exact upd_other _ _ _ _ (fun e => hna d (e ▸ hbd))
    · simp [lookup_set, updMap, IsPath, contents, hh, upd_same]
    · simp
    · intro b hb; simp at hb; subst hb; right; exact hfrom
    · intro b hb; simp at hb; subst hb; exact ⟨haa, hap⟩
    · exact hal1
    · intro b hb; exact Or.inl (hsub b hb)
    · exact hnd1
    · simp only [hh]
      exact PoolRel.frame _ _ (fun b hb => upd_other _ _ _ _ (hpool b hb)) hpr1
  | some ch =>
    rw [e] at hbc
    obtain ⟨p, hmap, hpath, hcont⟩ := hbc
    subst hcont
    refine ⟨(addrs (hk.code k)).length + 2, fun f hf => ?_⟩
    rw [call_succ]
    let ρ3 : Env := ((((Env.ofArgs [.int k, .int v]).set 2 (.int (hk.code k))).set 3 (.ptr p)).set 4 (.bool true)).set 6 (.ptr p)
    have hl := put_loop hk (call (koOf hk) procs f) f st k v (addrs (hk.code k)) p ρ3 f hpath (hnd _) (by simp [ρ3, set_apply])
      (by simp [ρ3, set_apply, Env.ofArgs]) (by simp [ρ3, set_apply, Env.ofArgs]) (by omega)
    simp only [runBody, procs, body_Put_shape, exec_seq, exec_assign, exec_mapRead, exec_ite, exec_skip]
    simp only [evalE, Env.ofArgs, List.getD_cons_zero, koOf_codeF, set_apply]
    simp only [if_true, if_false, Nat.reduceEqDiff, hmap, set_apply, Bool.not_true]
    rw [exec_loop]
    have hbmem : ∀ b, b ∈ addrs (hk.code k) → b ∉ st.pool := fun b hb => (hal _ b hb).2
    cases hcp : chainPut hk k v (contents st.h (addrs (hk.code k))) with
    | some ch' =>
      rw [hcp] at hl
      obtain ⟨ρ', b, hb, hcont, hrun⟩ := hl
      rw [hrun]
      simp only [HMap.step, e, hcp]
      refine ⟨_, rfl, ?_⟩
      refine (RelA.rebuild (st' := { st with h := upd st.h b ⟨(st.h b).key, v, (st.h b).next⟩ }) ra (hk.code k)
        (addrs (hk.code k)) ?_ ?_ ?_ ?_ ?_ ?_ ?_ ?_ ?_ ?_ ?_).rel
      · intro d _; rfl
      · intro d hd; simp [lookup_set, hd]
      · intro d b' hd hb'
        exact upd_other _ _ _ _ (fun e' => hdis d (hk.code k) b' hd hb' (e' ▸ hb))
      · simp only [lookup_set, if_true]
        refine ⟨p, hmap, IsPath.frame _ _ (fun x _ => ?_) hpath, hcont⟩
        by_cases hx : x = b
        · subst hx; simp [upd_same]
        · simp [upd_other _ _ _ _ hx]
      · exact hnd _
      · intro b' hb'; exact Or.inl hb'
      · intro b' hb'; exact hal _ b' hb'
      · exact Nat.le_refl _
      · intro b' hb'; exact Or.inl hb'
      · exact hpn
      · exact PoolRel.frame _ _ (fun b' hb' => upd_other _ _ _ _ (fun e' => hbmem b hb (e' ▸ hb'))) hpr
    | none =>
      rw [hcp] at hl
      obtain ⟨ρ', e0, e1, e6, hrun⟩ := hl
      rw [hrun]
      have e0' : ρ' 0 = .int k := by rw [e0]; simp [ρ3, set_apply, Env.ofArgs]
      have e1' : ρ' 1 = .int v := by rw [e1]; simp [ρ3, set_apply, Env.ofArgs]
      obtain ⟨f, rfl⟩ : ∃ f', f = f' + 2 := ⟨f - 2, by omega⟩
      obtain ⟨a, st1, hcall, hh, hm1, hal1, haa, hap, hfrom, hsub, hnd1, hpr1, hseg⟩ := newNode_sim (koOf hk) ra o.choice hc k v f
      have hna : ∀ d, a ∉ addrs d := by
        intro d hd
        rcases hfrom with h | h
        · exact (hal d a hd).2 h
        · have := (hal d a hd).1; omega
      cases hlast : (addrs (hk.code k)).getLast? with
      | none =>
        rw [List.getLast?_eq_none_iff] at hlast
        rw [hlast] at hpath e hcp
        simp only [IsPath] at hpath
        have e6' : ρ' 6 = .ptr none := by rw [e6, hlast]; simp [ρ3, set_apply, hpath]
        simp only [put_tail_panic hk _ _ st st1 ρ' k v a e0' e1' e6' hcall]
        simp [HMap.step, e, contents_nil, chainPut]
      | some l =>
        have e6' : ρ' 6 = .ptr (some l) := by rw [e6, hlast]
        simp only [put_tail_ok hk _ _ st st1 ρ' k v a l e0' e1' e6' hcall]
        have hlmem : l ∈ addrs (hk.code k) := List.mem_of_getLast? hlast
        have hne : contents st.h (addrs (hk.code k)) ≠ [] := by
          intro h0
          have : addrs (hk.code k) = [] := by simpa [contents] using h0
          rw [this] at hlmem; simp at hlmem
        rw [step_put_append hk m o k v _ e hcp hne, hseg]
        refine ⟨_, rfl, ?_⟩
        have hla : l ≠ a := fun e' => hna _ (e' ▸ hlmem)
        refine (RelA.rebuild (st' := { st1 with h := upd st1.h l ⟨(st1.h l).key, (st1.h l).value, some a⟩ }) ra (hk.code k)
          (addrs (hk.code k) ++ [a]) ?_ ?_ ?_ ?_ ?_ ?_ ?_ ?_ ?_ ?_ ?_).rel
        · intro d _; exact congrFun hm1 d
        · intro d hd; simp [lookup_set, hd]
        · intro d b' hd hb'
          have h1 : b' ≠ l := fun e' => hdis d (hk.code k) b' hd hb' (e' ▸ hlmem)
          have h2 : b' ≠ a := fun e' => hna d (e' ▸ hb')
          simp only [hh]
          rw [upd_other _ _ _ _ h1, upd_other _ _ _ _ h2]
        · simp only [lookup_set, if_true, hh]
          refine ⟨p, by rw [hm1]; exact hmap, ?_, ?_⟩
          · refine IsPath.snoc (h := st.h) a l ?_ ?_ ?_ _ _ hpath hlast (hnd _) (hna _)
            · rw [upd_other _ _ _ _ hla.symm, upd_same]
            · rw [upd_same]
            · intro x hxa hxl
              rw [upd_other _ _ _ _ hxl, upd_other _ _ _ _ hxa]
          · rw [contents_append]
            congr 1
            · apply contents_frame'
              intro x hx
              have hxa : x ≠ a := fun e' => hna _ (e' ▸ hx)
              by_cases hxl : x = l
              · subst hxl; rw [upd_same, upd_other _ _ _ _ hxa]; exact ⟨rfl, rfl⟩
              · rw [upd_other _ _ _ _ hxl, upd_other _ _ _ _ hxa]; exact ⟨rfl, rfl⟩
            · simp [contents, upd_other _ _ _ _ hla.symm, upd_same]
        · rw [List.nodup_append]
          refine ⟨hnd _, by simp, ?_⟩
          intro x hx y hy
          simp at hy; subst hy
          exact fun e' => hna _ (e' ▸ hx)
        · intro b' hb'
          rw [List.mem_append] at hb'
          rcases hb' with h | h
          · exact Or.inl h
          · simp at h; subst h; exact Or.inr hfrom
        · intro b' hb'
          rw [List.mem_append] at hb'
          rcases hb' with h | h
          · exact ⟨by have := (hal _ b' h).1; show b' < st1.alloc; omega, fun hp => (hal _ b' h).2 (hsub b' hp)⟩
          · simp at h; subst h; exact ⟨haa, hap⟩
        · exact hal1
        · intro b' hb'; exact Or.inl (hsub b' hb')
        · exact hnd1
        · simp only [hh]
          refine PoolRel.frame _ _ (fun b' hb' => ?_) hpr1
          have h1 : b' ≠ l := fun e' => hbmem l hlmem (hsub l (e' ▸ hb'))
          have h2 : b' ≠ a := fun e' => hap (e' ▸ hb')
          rw [upd_other _ _ _ _ h1, upd_other _ _ _ _ h2]

/-! ### `Put` without the panic: no empty chain under a present code
`Rel` alone admits the model `⟨[(c, [])], []⟩` (interpreter: `map c = some none`), on which both the model's and the translated
`Put` of a key with code `c` panic (`pre.next` with `pre == nil`).  No reachable state has an empty chain (`Delete` removes
the code together with its last node); `NoEmpty` says so and is preserved by `Put`. -/

def NoEmpty (m : HMap Int) : Prop := ∀ c ch, AL.lookup c m.buckets = some ch → ch ≠ []

theorem NoEmpty.empty : NoEmpty (HMap.empty : HMap Int) := by
  intro c ch h; simp [HMap.empty, AL.lookup] at h

theorem chainPut_ne_nil (hk : Hashable) (k v : Int) : ∀ (ch ch' : Chain Int), chainPut hk k v ch = some ch' → ch' ≠ [] := by
  intro ch
  cases ch with
  | nil => intro ch' h; simp [chainPut] at h
  | cons x r =>
    obtain ⟨k', v'⟩ := x
    intro ch' h
    simp only [chainPut] at h
    split at h
    · simp at h; subst h; simp
    · cases hr : chainPut hk k v r with
      | none => rw [hr] at h; simp at h
      | some r' => rw [hr] at h; simp at h; subst h; simp

theorem newNode_fst_ne_nil (pool : List (PNode Int)) (ch : Option Nat) (k v : Int) : (newNode pool ch k v).1 ≠ [] := by
  simp [newNode]

/-- the model's `Put` on a map without empty chains returns the nil error and leaves no empty chain -/
theorem step_put_noEmpty (hk : Hashable) (m : HMap Int) (o : Oracle) (k v : Int) (hne : NoEmpty m) :
    (m.step hk o (.put k v)).2 = .ok .unit ∧ NoEmpty (m.step hk o (.put k v)).1 := by
  have key : ∀ (x : Chain Int) (pool' : List (PNode Int)), x ≠ [] →
      NoEmpty { buckets := AL.set (hk.code k) x m.buckets, pool := pool' } := by
    intro x pool' hx c ch h
    simp only [lookup_set] at h
    split at h
    · simp at h; subst h; exact hx
    · exact hne c ch h
  cases e : AL.lookup (hk.code k) m.buckets with
  | none =>
    have hstep : m.step hk o (.put k v) =
        ({ buckets := AL.set (hk.code k) (newNode m.pool o.choice k v).1 m.buckets, pool := (newNode m.pool o.choice k v).2 },
          .ok .unit) := by
      simp only [HMap.step, e]
    rw [hstep]
    exact ⟨rfl, key _ _ (newNode_fst_ne_nil _ _ _ _)⟩
  | some ch =>
    have hch := hne _ _ e
    cases hcp : chainPut hk k v ch with
    | some ch' =>
      have hstep : m.step hk o (.put k v) = ({ m with buckets := AL.set (hk.code k) ch' m.buckets }, .ok .unit) := by
        simp only [HMap.step, e, hcp]
      rw [hstep]
      exact ⟨rfl, key _ _ (chainPut_ne_nil hk k v ch ch' hcp)⟩
    | none =>
      rw [step_put_append hk m o k v ch e hcp hch]
      refine ⟨rfl, key _ _ ?_⟩
      intro h
      exact hch (List.append_eq_nil_iff.mp h).1

/-- **`Put`, no panic**: on related states without empty chains the translated `Put` (any key, any value, enough fuel, the pool
    oracle of the state) returns the nil error and a state related to the model's `put`, which again has no empty chain -/
theorem Put_sim_ok (hk : Hashable) (st : St) (m : HMap Int) (o : Oracle) (k v : Int) (r : Rel st m) (hne : NoEmpty m)
    (hc : st.choice = o.choice) :
    ∃ f0, ∀ f, f0 ≤ f → ∃ st', call (koOf hk) procs (f + 1) .Put [.int k, .int v] st = .ok (.ptr none, st') ∧
      Rel st' (m.step hk o (.put k v)).1 ∧ NoEmpty (m.step hk o (.put k v)).1 ∧ (m.step hk o (.put k v)).2 = .ok .unit := by
  obtain ⟨f0, h⟩ := Put_sim hk st m o k v r hc
  obtain ⟨hok, hne'⟩ := step_put_noEmpty hk m o k v hne
  refine ⟨f0, fun f hf => ?_⟩
  have := h f hf
  rw [hok] at this
  obtain ⟨st', h1, h2⟩ := this
  exact ⟨st', h1, h2, hne', hok⟩

/-! ### `Delete` -/

/-- `formatting()` as an equation -/
theorem formatting_eq (ko : KeyOps) (f : Nat) (a : Nat) (st : St) :
    call ko procs (f + 1) .formatting [.ptr (some a)] st = .ok (.unit, { st with h := upd st.h a ⟨0, 0, none⟩ }) := by
  simp [call_succ, runBody, procs, body_formatting, exec, evalE, Env.ofArgs, set_apply, writeField, Node.set, upd_upd_same,
    upd_same]

/-- `Delete` on a hit: unlink, format, pool -/
def delHit : Stmt PName :=
  (.seq (.ite (.and (.eq (.var 5) (.int 0)) (.eq (.field (.var 1) .next) .nil))
    (.mapDelete (.code (.var 0)))
    (.ite (.and (.eq (.var 5) (.int 0)) (.ne (.field (.var 1) .next) .nil))
    (.mapSet (.code (.var 0)) (.field (.var 1) .next))
    (.setField (.var 4) .next (.field (.var 1) .next))))
    (.seq (.assign 6 (.field (.var 1) .value))
    (.seq (.expr (.call1 .formatting (.var 1)))
    (.seq (.poolPut (.var 1))
    (.ret2 (.var 6) (.bool true))))))

/-- the body of `Delete`'s loop -/
def delLoopBody : Stmt PName :=
  (.seq (.ite (.equals (.field (.var 1) .key) (.var 0)) delHit .skip)
    (.seq (.assign 5 (.add (.var 5) (.int 1)))
    (.seq (.assign 4 (.var 1))
    (.assign 1 (.field (.var 1) .next)))))

theorem body_Delete_shape : body_Delete =
  (.seq (.mapRead 1 2 (.code (.var 0)))
    (.seq (.ite (.not (.var 2))
    (.seq (.assign 3 (.int 0))
    (.ret2 (.var 3) (.bool false)))
    .skip)
    (.seq (.assign 4 (.var 1))
    (.seq (.assign 5 (.int 0))
    (.seq (.loop (.ne (.var 1) .nil) delLoopBody)
    (.seq (.assign 3 (.int 0))
    (.ret2 (.var 3) (.bool false)))))))) := rfl

section delrules
variable (hk : Hashable) (g : Nat) (lf : Nat) (st : St) (ρ : Env)

theorem del_cond (callH : CallH PName) (p : Option Nat) (h1 : ρ 1 = .ptr p) :
    evalE (koOf hk) callH ρ st (.ne (.var 1) .nil) = .ok (.bool p.isSome, st) := by
  cases p <;> simp [evalE, seq2, h1, BinOp.apply, valEq]

/-- the only node of its chain: the code leaves the Go map -/
theorem del_hit_only (a : Nat) (k : Int) (h1 : ρ 1 = .ptr (some a)) (h0 : ρ 0 = .int k) (h5 : ρ 5 = .int 0)
    (hn : (st.h a).next = none) :
    exec (koOf hk) (call (koOf hk) procs (g + 1)) lf ρ st delHit =
      .ok (.ret (.pair (.int (st.h a).value) (.bool true)), ρ.set 6 (.int (st.h a).value),
        { st with map := updMap st.map (hk.code k) none, h := upd st.h a ⟨0, 0, none⟩, pool := a :: st.pool }) := by
  simp [delHit, exec, evalE, seq2, h1, h0, h5, hn, BinOp.apply, valEq, Node.get, koOf_codeF, set_apply, formatting_eq]

/-- the head of a longer chain: the Go map points to its successor -/
theorem del_hit_head (a : Nat) (k : Int) (nx : Nat) (h1 : ρ 1 = .ptr (some a)) (h0 : ρ 0 = .int k) (h5 : ρ 5 = .int 0)
    (hn : (st.h a).next = some nx) :
    exec (koOf hk) (call (koOf hk) procs (g + 1)) lf ρ st delHit =
      .ok (.ret (.pair (.int (st.h a).value) (.bool true)), ρ.set 6 (.int (st.h a).value),
        { st with map := updMap st.map (hk.code k) (some (some nx)), h := upd st.h a ⟨0, 0, none⟩, pool := a :: st.pool }) := by
  simp [delHit, exec, evalE, seq2, h1, h0, h5, hn, BinOp.apply, valEq, Node.get, koOf_codeF, set_apply, formatting_eq]

/-- an inner node: its predecessor skips it -/
theorem del_hit_inner (a pr : Nat) (num : Nat) (h1 : ρ 1 = .ptr (some a))
    (h5 : ρ 5 = .int (num + 1 : Nat)) (h4 : ρ 4 = .ptr (some pr)) (hne : pr ≠ a) :
    exec (koOf hk) (call (koOf hk) procs (g + 1)) lf ρ st delHit =
      .ok (.ret (.pair (.int (st.h a).value) (.bool true)), ρ.set 6 (.int (st.h a).value),
        { st with h := upd (upd st.h pr ⟨(st.h pr).key, (st.h pr).value, (st.h a).next⟩) a ⟨0, 0, none⟩,
                  pool := a :: st.pool }) := by
  have hz : (((num : Int) + 1) == 0) = false := by
    rw [beq_eq_false_iff_ne]; omega
  have hne' : a ≠ pr := fun e => hne e.symm
  simp [delHit, exec, evalE, seq2, h1, h5, h4, hz, BinOp.apply, valEq, Node.get, set_apply, formatting_eq, writeField,
    Node.set, upd_other _ _ _ _ hne']

end delrules

section delloop
variable (hk : Hashable) (callH : CallH PName) (lf : Nat) (st : St)

theorem del_body_miss (ρ : Env) (a : Nat) (k : Int) (num : Nat) (h1 : ρ 1 = .ptr (some a)) (h0 : ρ 0 = .int k)
    (h5 : ρ 5 = .int num) (he : hk.equals (st.h a).key k = false) :
    exec (koOf hk) callH lf ρ st delLoopBody =
      .ok (.normal, ((ρ.set 5 (.int ((num + 1 : Nat) : Int))).set 4 (.ptr (some a))).set 1 (.ptr (st.h a).next), st) := by
  simp [delLoopBody, exec, evalE, seq2, h1, h0, h5, BinOp.apply, Node.get, koOf, he, set_apply]

theorem del_body_hit (ρ : Env) (a : Nat) (k : Int) (h1 : ρ 1 = .ptr (some a)) (h0 : ρ 0 = .int k)
    (he : hk.equals (st.h a).key k = true) (v : Val) (ρ2 : Env) (st2 : St)
    (hh : exec (koOf hk) callH lf ρ st delHit = .ok (.ret v, ρ2, st2)) :
    exec (koOf hk) callH lf ρ st delLoopBody = .ok (.ret v, ρ2, st2) := by
  simp only [delLoopBody, exec_seq, exec_ite]
  simp only [evalE, seq2, h1, h0, Node.get, BinOp.apply, koOf_eqF, he, hh]

/-- `Delete`'s loop when no key of the chain `Equals` -/
theorem del_loop_miss (k : Int) : ∀ (as : List Nat) (q : Option Nat) (ρ : Env) (n num : Nat), IsPath st.h q as →
    (∀ x, x ∈ as → hk.equals (st.h x).key k = false) → ρ 1 = .ptr q → ρ 0 = .int k → ρ 5 = .int num → as.length < n →
    ∃ ρ', iterate (fun ρ st => evalE (koOf hk) callH ρ st (.ne (.var 1) .nil))
      (fun ρ st => exec (koOf hk) callH lf ρ st delLoopBody) n ρ st = .ok (.normal, ρ', st) := by
  intro as
  induction as with
  | nil =>
    intro q ρ n num hp _ h1 _ _ hn
    obtain ⟨n, rfl⟩ : ∃ n', n = n' + 1 := ⟨n - 1, by simp at hn; omega⟩
    simp only [IsPath] at hp
    subst hp
    exact ⟨ρ, by simp only [iterate, del_cond hk st ρ callH none h1, Option.isSome_none]⟩
  | cons a as ih =>
    intro q ρ n num hp hmiss h1 h0 h5 hn
    obtain ⟨n, rfl⟩ : ∃ n', n = n' + 1 := ⟨n - 1, by simp at hn; omega⟩
    obtain ⟨rfl, hp'⟩ := hp
    have he := hmiss a (by simp)
    obtain ⟨ρ', hrec⟩ := ih (st.h a).next _ n (num + 1) hp' (fun x hx => hmiss x (by simp [hx]))
      (show (((ρ.set 5 (.int ((num + 1 : Nat) : Int))).set 4 (.ptr (some a))).set 1 (.ptr (st.h a).next)) 1 = _ by simp [set_apply])
      (by simp [set_apply, h0]) (by simp [set_apply]) (by simp at hn; omega)
    refine ⟨ρ', ?_⟩
    simp only [iterate, del_cond hk st ρ callH (some a) h1, Option.isSome_some]
    rw [del_body_miss hk callH lf st ρ a k num h1 h0 h5 he]
    exact hrec

/-- `Delete`'s loop up to the first node `a` whose key `Equals`: `num` counts the nodes before it, `pre` is the last of them -/
theorem del_loop_hit (k : Int) (a : Nat) (post : List Nat) (he : hk.equals (st.h a).key k = true) :
    ∀ (pre : List Nat) (q : Option Nat) (ρ : Env) (n num : Nat), IsPath st.h q (pre ++ a :: post) →
    (∀ x, x ∈ pre → hk.equals (st.h x).key k = false) → ρ 1 = .ptr q → ρ 0 = .int k → ρ 5 = .int num → pre.length < n →
    ∃ ρ', ρ' 0 = .int k ∧ ρ' 1 = .ptr (some a) ∧ ρ' 5 = .int ((num + pre.length : Nat) : Int) ∧
      ρ' 4 = (match pre.getLast? with | some l => .ptr (some l) | none => ρ 4) ∧
      ∀ v ρ2 st2, exec (koOf hk) callH lf ρ' st delHit = .ok (.ret v, ρ2, st2) →
        iterate (fun ρ st => evalE (koOf hk) callH ρ st (.ne (.var 1) .nil))
          (fun ρ st => exec (koOf hk) callH lf ρ st delLoopBody) n ρ st = .ok (.ret v, ρ2, st2) := by
  intro pre
  induction pre with
  | nil =>
    intro q ρ n num hp _ h1 h0 h5 hn
    obtain ⟨n, rfl⟩ : ∃ n', n = n' + 1 := ⟨n - 1, by omega⟩
    obtain ⟨rfl, hp'⟩ := hp
    refine ⟨ρ, h0, h1, by simpa using h5, rfl, fun v ρ2 st2 hh => ?_⟩
    simp only [iterate, del_cond hk st ρ callH (some a) h1, Option.isSome_some]
    rw [del_body_hit hk callH lf st ρ a k h1 h0 he v ρ2 st2 hh]
  | cons x pre ih =>
    intro q ρ n num hp hmiss h1 h0 h5 hn
    obtain ⟨n, rfl⟩ : ∃ n', n = n' + 1 := ⟨n - 1, by simp at hn; omega⟩
    obtain ⟨rfl, hp'⟩ := hp
    have hex := hmiss x (by simp)
    obtain ⟨ρ', e0, e1, e5, e4, hrec⟩ := ih (st.h x).next
      (((ρ.set 5 (.int ((num + 1 : Nat) : Int))).set 4 (.ptr (some x))).set 1 (.ptr (st.h x).next)) n (num + 1) hp'
      (fun y hy => hmiss y (by simp [hy])) (by simp [set_apply]) (by simp [set_apply, h0]) (by simp [set_apply])
      (by simp at hn; omega)
    refine ⟨ρ', e0, e1, ?_, ?_, fun v ρ2 st2 hh => ?_⟩
    · rw [e5]; simp only [List.length_cons]; congr 2; omega
    · rw [e4]
      cases pre with
      | nil => simp [set_apply]
      | cons y ys =>
        rw [List.getLast?_cons_cons]
        cases hgl : (y :: ys).getLast? with
        | none => simp at hgl
        | some l => rfl
    · simp only [iterate, del_cond hk st ρ callH (some x) h1, Option.isSome_some]
      rw [del_body_miss hk callH lf st ρ x k num h1 h0 h5 hex]
      exact hrec v ρ2 st2 hh

end delloop

/-! ### `Delete`: association lists with distinct codes
`AL.erase` removes the FIRST entry of a code, so `Rel` alone is too weak for `Delete`: the model `⟨[(c, [(k, v)]), (c, ch)], []⟩`
is related to the interpreter state whose Go map holds the one-node chain at `c`; after `Delete k` the interpreter's map has no
`c`, the model's `lookup c` finds the shadowed `ch`.  No reachable model has two entries of one code (`NoDupCodes`). -/

def NoDupCodes (m : HMap Int) : Prop := (m.buckets.map (·.1)).Nodup

theorem NoDupCodes.empty : NoDupCodes (HMap.empty : HMap Int) := by simp [NoDupCodes, HMap.empty]

theorem lookup_erase_ne {β : Type} (c d : Int) (hd : d ≠ c) (l : List (Int × β)) :
    AL.lookup d (AL.erase c l) = AL.lookup d l := by
  induction l with
  | nil => rfl
  | cons y r ih =>
    obtain ⟨y1, y2⟩ := y
    by_cases hy : y1 = c
    · simp [AL.erase, AL.lookup, hy]
      intro h; exact absurd h.symm hd
    · simp [AL.erase, AL.lookup, hy, ih]

theorem lookup_none_of_not_mem {β : Type} (c : Int) (l : List (Int × β)) (h : c ∉ l.map (·.1)) : AL.lookup c l = none := by
  induction l with
  | nil => rfl
  | cons y r ih =>
    obtain ⟨y1, y2⟩ := y
    simp only [List.map_cons, List.mem_cons, not_or] at h
    have : ¬ y1 = c := fun e => h.1 e.symm
    simp [AL.lookup, this, ih h.2]

theorem lookup_erase_self {β : Type} (c : Int) (l : List (Int × β)) (hn : (l.map (·.1)).Nodup) :
    AL.lookup c (AL.erase c l) = none := by
  induction l with
  | nil => rfl
  | cons y r ih =>
    obtain ⟨y1, y2⟩ := y
    simp only [List.map_cons, List.nodup_cons] at hn
    by_cases hy : y1 = c
    · subst hy
      simp only [AL.erase, if_true]
      exact lookup_none_of_not_mem _ _ hn.1
    · simp [AL.erase, AL.lookup, hy, ih hn.2]

theorem erase_sublist {β : Type} (c : Int) (l : List (Int × β)) : (AL.erase c l).Sublist l := by
  induction l with
  | nil => exact List.Sublist.refl _
  | cons y r ih =>
    obtain ⟨y1, y2⟩ := y
    by_cases hy : y1 = c
    · simp [AL.erase, hy]
    · simp [AL.erase, hy, ih]

theorem nodup_keys_erase {β : Type} (c : Int) (l : List (Int × β)) (hn : (l.map (·.1)).Nodup) :
    ((AL.erase c l).map (·.1)).Nodup :=
  List.Nodup.sublist ((erase_sublist c l).map _) hn

theorem mem_keys_set {β : Type} (c d : Int) (x : β) (l : List (Int × β)) :
    d ∈ (AL.set c x l).map (·.1) → d = c ∨ d ∈ l.map (·.1) := by
  induction l with
  | nil => intro h; simp [AL.set] at h; exact Or.inl h
  | cons y r ih =>
    obtain ⟨y1, y2⟩ := y
    by_cases hy : y1 = c
    · intro h
      simp [AL.set, hy] at h
      rcases h with h | h
      · exact Or.inl h
      · right; simp only [List.map_cons, List.mem_cons]; right
        obtain ⟨b, hb⟩ := h
        exact List.mem_map.mpr ⟨(d, b), hb, rfl⟩
    · intro h
      simp only [AL.set, hy, if_false, List.map_cons, List.mem_cons] at h
      rcases h with h | h
      · right; simp [h]
      · rcases ih h with h' | h'
        · exact Or.inl h'
        · right; simp only [List.map_cons, List.mem_cons]; exact Or.inr h'

theorem nodup_keys_set {β : Type} (c : Int) (x : β) (l : List (Int × β)) (hn : (l.map (·.1)).Nodup) :
    ((AL.set c x l).map (·.1)).Nodup := by
  induction l with
  | nil => simp [AL.set]
  | cons y r ih =>
    obtain ⟨y1, y2⟩ := y
    simp only [List.map_cons, List.nodup_cons] at hn
    by_cases hy : y1 = c
    · subst hy
      simp only [AL.set, if_true, List.map_cons, List.nodup_cons]
      exact hn
    · simp only [AL.set, hy, if_false, List.map_cons, List.nodup_cons]
      refine ⟨fun h => ?_, ih hn.2⟩
      rcases mem_keys_set c y1 x r h with h' | h'
      · exact hy h'
      · exact hn.1 h'

/-- the model's `Put` keeps the codes distinct -/
theorem step_put_noDupCodes (hk : Hashable) (m : HMap Int) (o : Oracle) (k v : Int) (hn : NoDupCodes m) :
    NoDupCodes (m.step hk o (.put k v)).1 := by
  unfold NoDupCodes at *
  simp only [HMap.step]
  split
  · exact nodup_keys_set _ _ _ hn
  · split
    · exact nodup_keys_set _ _ _ hn
    · split
      · exact hn
      · exact nodup_keys_set _ _ _ hn

/-- `chainFind` over the fields of a path: the first node whose key `Equals` -/
theorem chainFind_contents (hk : Hashable) (k : Int) (h : Nat → Node) : ∀ (as : List Nat),
    match chainFind hk k (contents h as) with
    | none => ∀ x, x ∈ as → hk.equals (h x).key k = false
    | some (j, e, nx) => ∃ pre a post, as = pre ++ a :: post ∧ j = pre.length ∧ e = ((h a).key, (h a).value) ∧
        nx = contents h post ∧ hk.equals (h a).key k = true ∧ ∀ x, x ∈ pre → hk.equals (h x).key k = false := by
  intro as
  induction as with
  | nil => simp [contents_nil, chainFind]
  | cons a as ih =>
    rw [contents_cons]
    by_cases he : hk.equals (h a).key k = true
    · simp only [chainFind, he, if_true]
      exact ⟨[], a, as, rfl, rfl, rfl, rfl, he, by simp⟩
    · have he' : hk.equals (h a).key k = false := by simpa using he
      simp only [chainFind, he', Bool.false_eq_true, if_false]
      cases hf : chainFind hk k (contents h as) with
      | none =>
        rw [hf] at ih
        simp only [Option.map_none]
        intro x hx
        simp at hx
        rcases hx with rfl | hx
        · exact he'
        · exact ih x hx
      | some t =>
        obtain ⟨j, e, nx⟩ := t
        rw [hf] at ih
        obtain ⟨pre, b, post, h1, h2, h3, h4, h5, h6⟩ := ih
        simp only [Option.map_some]
        refine ⟨a :: pre, b, post, by simp [h1], by simp [h2], h3, h4, h5, ?_⟩
        intro x hx
        simp at hx
        rcases hx with rfl | hx
        · exact he'
        · exact h6 x hx

/-- the model's `Delete` on a hit -/
theorem step_delete_found (hk : Hashable) (m : HMap Int) (o : Oracle) (k : Int) (ch : Chain Int) (num : Nat) (node : Int × Int)
    (next : Chain Int) (e : AL.lookup (hk.code k) m.buckets = some ch) (hf : chainFind hk k ch = some (num, node, next)) :
    m.step hk o (.delete k) =
      ({ buckets := if num = 0 ∧ next.isEmpty then AL.erase (hk.code k) m.buckets
                    else if num = 0 then AL.set (hk.code k) next m.buckets
                    else AL.set (hk.code k) (ch.take num ++ next) m.buckets,
         pool := ⟨0, 0, []⟩ :: m.pool }, .ok (.found node.2)) := by
  simp [HMap.step, e, hf, formatting, Gen.HashMapFacts.deleteFormatsBeforePoolPut, Gen.HashMapFacts.formattingClearsKey,
    Gen.HashMapFacts.formattingClearsValue, Gen.HashMapFacts.formattingClearsNext]

/-- unlinking the node `a` that follows `pr` -/
theorem IsPath.unlink {h h' : Nat → Node} (a pr : Nat) (post : List Nat) (hpr : (h' pr).next = (h a).next)
    (hf : ∀ x, x ≠ pr → x ≠ a → (h' x).next = (h x).next) : ∀ (pre : List Nat) (p : Option Nat),
    IsPath h p (pre ++ a :: post) → pre.getLast? = some pr → (pre ++ a :: post).Nodup → IsPath h' p (pre ++ post) := by
  intro pre
  induction pre with
  | nil => intro p _ hg; simp at hg
  | cons x pre ih =>
    intro p hp hg hnd
    obtain ⟨rfl, hp'⟩ := hp
    simp only [List.cons_append, List.nodup_cons] at hnd
    cases pre with
    | nil =>
      simp at hg
      subst hg
      obtain ⟨_, hp''⟩ := hp'
      refine ⟨rfl, ?_⟩
      rw [hpr]
      simp only [List.nil_append, List.mem_cons, not_or, List.nodup_cons] at hnd
      refine IsPath.frame _ _ (fun y hy => hf y (fun e => hnd.1.2 (e ▸ hy)) (fun e => hnd.2.1 (e ▸ hy))) hp''
    | cons y ys =>
      rw [List.getLast?_cons_cons] at hg
      have hmem : pr ∈ y :: ys := List.mem_of_getLast? hg
      have hxpr : x ≠ pr := fun e => hnd.1 (by rw [e]; exact List.mem_append_left _ hmem)
      have hxa : x ≠ a := fun e => hnd.1 (by rw [e]; simp)
      refine ⟨rfl, ?_⟩
      rw [hf x hxpr hxa]
      exact ih _ hp' hg hnd.2

/-- what `Delete` returns after its loop -/
def delFinish (r : Res (Flow × Env × St)) : Res (Val × St) :=
  match r with
  | .ok (.ret v, _, st1) => .ok (v, st1)
  | .ok (.normal, _, st1) => .ok (.pair (.int 0) (.bool false), st1)
  | .ok _ => .error .stuck
  | .error e => .error e

/-- `Delete` when the code is in the Go map: the loop from the head with `num = 0`, `pre = root` -/
theorem delete_run (hk : Hashable) (f : Nat) (st : St) (k : Int) (p : Option Nat) (hmap : st.map (hk.code k) = some p) :
    call (koOf hk) procs (f + 1) .Delete [.int k] st =
      delFinish (iterate (fun ρ st => evalE (koOf hk) (call (koOf hk) procs f) ρ st (.ne (.var 1) .nil))
        (fun ρ st => exec (koOf hk) (call (koOf hk) procs f) f ρ st delLoopBody) f
        (((((Env.ofArgs [.int k]).set 1 (.ptr p)).set 2 (.bool true)).set 4 (.ptr p)).set 5 (.int 0)) st) := by
  have key : ∀ R, iterate (fun ρ st => evalE (koOf hk) (call (koOf hk) procs f) ρ st (.ne (.var 1) .nil))
        (fun ρ st => exec (koOf hk) (call (koOf hk) procs f) f ρ st delLoopBody) f
        (((((Env.ofArgs [.int k]).set 1 (.ptr p)).set 2 (.bool true)).set 4 (.ptr p)).set 5 (.int 0)) st = R →
      call (koOf hk) procs (f + 1) .Delete [.int k] st = delFinish R := by
    intro R hR
    rw [call_succ]
    simp only [runBody, procs, body_Delete_shape, exec_seq, exec_assign, exec_mapRead, exec_ite, exec_skip]
    simp only [evalE, Env.ofArgs, List.getD_cons_zero, koOf_codeF]
    simp only [if_true, if_false, Nat.reduceEqDiff, hmap, set_apply, Bool.not_true]
    rw [exec_loop, hR]
    rcases R with e | ⟨fl, ρ1, st1⟩
    · rfl
    · cases fl <;> simp [delFinish, exec, evalE, set_apply]
  exact key _ rfl

theorem IsPath.suffix {h : Nat → Node} (a : Nat) (post : List Nat) : ∀ (pre : List Nat) (p : Option Nat),
    IsPath h p (pre ++ a :: post) → IsPath h (h a).next post := by
  intro pre
  induction pre with
  | nil => intro p hp; exact hp.2
  | cons x pre ih => intro p hp; exact ih _ hp.2

/-- after `Delete` unlinked `a` from the chain `pre ++ a :: post` of code `c`, formatted it and put it into the pool -/
theorem RelA.delete_rebuild {st st' : St} {m m' : HMap Int} {addrs : Int → List Nat} (ra : RelA st m addrs) (c : Int)
    (pre : List Nat) (a : Nat) (post : List Nat) (has : addrs c = pre ++ a :: post)
    (Hpool : st'.pool = a :: st.pool) (Halloc : st'.alloc = st.alloc) (Hmpool : m'.pool = ⟨0, 0, []⟩ :: m.pool)
    (Ha : st'.h a = ⟨0, 0, none⟩) (Hh : ∀ x, x ≠ a → x ∉ pre → st'.h x = st.h x)
    (H1 : ∀ d, d ≠ c → st'.map d = st.map d)
    (H2 : ∀ d, d ≠ c → AL.lookup d m'.buckets = AL.lookup d m.buckets)
    (H4 : match AL.lookup c m'.buckets with
          | none => st'.map c = none ∧ pre ++ post = []
          | some ch => ∃ p, st'.map c = some p ∧ IsPath st'.h p (pre ++ post) ∧ contents st'.h (pre ++ post) = ch) :
    RelA st' m' (fun d => if d = c then pre ++ post else addrs d) := by
  have ra' := ra
  obtain ⟨hb, hnd, hdis, hal, hpn, hpa, hpr⟩ := ra'
  have hN := hnd c
  rw [has] at hN
  have hamem : a ∈ addrs c := by rw [has]; simp
  have hsub : ∀ b, b ∈ pre ++ post → b ∈ addrs c := by
    intro b hb; rw [has]; simp only [List.mem_append, List.mem_cons] at hb ⊢
    rcases hb with h | h
    · exact Or.inl h
    · exact Or.inr (Or.inr h)
  have hpremem : ∀ b, b ∈ pre → b ∈ addrs c := fun b hb => hsub b (List.mem_append_left _ hb)
  have hane : ∀ b, b ∈ pre ++ post → b ≠ a := by
    intro b hb e
    subst e
    rw [List.nodup_append] at hN
    simp only [List.nodup_cons, List.mem_cons] at hN
    simp only [List.mem_append] at hb
    rcases hb with h | h
    · exact hN.2.2 b h b (Or.inl rfl) rfl
    · exact hN.2.1.1 h
  refine RelA.rebuild ra c (pre ++ post) H1 H2 ?_ H4 ?_ ?_ ?_ ?_ ?_ ?_ ?_
  · intro d b hd hbd
    exact Hh b (fun e => hdis d c b hd hbd (e ▸ hamem)) (fun hp => hdis d c b hd hbd (hpremem b hp))
  · refine List.Nodup.sublist ?_ hN
    exact List.Sublist.append (List.Sublist.refl _) (List.sublist_cons_self _ _)
  · intro b hb; exact Or.inl (hsub b hb)
  · intro b hb
    rw [Halloc, Hpool]
    refine ⟨(hal c b (hsub b hb)).1, ?_⟩
    simp only [List.mem_cons, not_or]
    exact ⟨hane b hb, (hal c b (hsub b hb)).2⟩
  · rw [Halloc]; exact Nat.le_refl _
  · intro b hb
    rw [Hpool] at hb
    simp only [List.mem_cons] at hb
    rcases hb with rfl | h
    · exact Or.inr hamem
    · exact Or.inl h
  · rw [Hpool, List.nodup_cons]; exact ⟨(hal c a hamem).2, hpn⟩
  · rw [Hpool, Hmpool]
    simp only [PoolRel]
    refine ⟨by rw [Ha]; exact ⟨rfl, rfl, rfl, rfl⟩, PoolRel.frame _ _ (fun b hb => ?_) hpr⟩
    exact Hh b (fun e => (hal c a hamem).2 (e ▸ hb)) (fun hp => (hal c b (hpremem b hp)).2 hb)

/-- the model's `Delete` keeps the codes distinct -/
theorem step_delete_noDupCodes (hk : Hashable) (m : HMap Int) (o : Oracle) (k : Int) (hd : NoDupCodes m) :
    NoDupCodes (m.step hk o (.delete k)).1 := by
  cases e : AL.lookup (hk.code k) m.buckets with
  | none =>
    have hstep : m.step hk o (.delete k) = (m, .ok .missing) := by simp only [HMap.step, e]
    rw [hstep]; exact hd
  | some ch =>
    cases hfind : chainFind hk k ch with
    | none =>
      have hstep : m.step hk o (.delete k) = (m, .ok .missing) := by simp only [HMap.step, e, hfind]
      rw [hstep]; exact hd
    | some t =>
      obtain ⟨j, nd, nx⟩ := t
      rw [step_delete_found hk m o k _ j nd nx e hfind]
      unfold NoDupCodes at *
      simp only
      split
      · exact nodup_keys_erase _ _ hd
      · split
        · exact nodup_keys_set _ _ _ hd
        · exact nodup_keys_set _ _ _ hd

/-- **`Delete`**: on related states whose model has distinct codes the translated `Delete` returns the model's value and
    found-flag and a state related to the model's next state (the deleted node formatted and pooled) -/
theorem Delete_sim (hk : Hashable) (st : St) (m : HMap Int) (o : Oracle) (k : Int) (r : Rel st m) (hd : NoDupCodes m) :
    ∃ f0, ∀ f, f0 ≤ f → ∃ st',
      call (koOf hk) procs (f + 1) .Delete [.int k] st = .ok (retVal (m.step hk o (.delete k)).2, st') ∧
      Rel st' (m.step hk o (.delete k)).1 ∧ NoDupCodes (m.step hk o (.delete k)).1 := by
  obtain ⟨addrs, ra⟩ := r.exA
  have ra' := ra
  obtain ⟨hb, hnd, hdis, hal, hpn, hpa, hpr⟩ := ra'
  have hbc := hb (hk.code k)
  have hnodup' := step_delete_noDupCodes hk m o k hd
  cases e : AL.lookup (hk.code k) m.buckets with
  | none =>
    rw [e] at hbc
    have hstep : m.step hk o (.delete k) = (m, .ok .missing) := by simp only [HMap.step, e]
    rw [hstep]
    refine ⟨0, fun f _ => ⟨st, ?_, r, hd⟩⟩
    rw [call_succ]
    simp [runBody, procs, body_Delete_shape, exec, evalE, Env.ofArgs, koOf, set_apply, hbc.1, retVal]
  | some ch =>
    rw [e] at hbc
    obtain ⟨p, hmap, hpath, hcont⟩ := hbc
    subst hcont
    have hcf := chainFind_contents hk k st.h (addrs (hk.code k))
    refine ⟨(addrs (hk.code k)).length + 2, fun f hf => ?_⟩
    obtain ⟨g, rfl⟩ : ∃ g, f = g + 1 := ⟨f - 1, by omega⟩
    rw [delete_run hk (g + 1) st k p hmap]
    let ρ3 : Env := ((((Env.ofArgs [.int k]).set 1 (.ptr p)).set 2 (.bool true)).set 4 (.ptr p)).set 5 (.int 0)
    have h31 : ρ3 1 = .ptr p := by simp [ρ3, set_apply]
    have h30 : ρ3 0 = .int k := by simp [ρ3, set_apply, Env.ofArgs]
    have h35 : ρ3 5 = .int ((0 : Nat) : Int) := by simp [ρ3, set_apply]
    have h34 : ρ3 4 = .ptr p := by simp [ρ3, set_apply]
    cases hfind : chainFind hk k (contents st.h (addrs (hk.code k))) with
    | none =>
      rw [hfind] at hcf
      have hstep : m.step hk o (.delete k) = (m, .ok .missing) := by simp only [HMap.step, e, hfind]
      rw [hstep]
      obtain ⟨ρ', hrun⟩ := del_loop_miss hk (call (koOf hk) procs (g + 1)) (g + 1) st k (addrs (hk.code k)) p ρ3 (g + 1) 0
        hpath hcf h31 h30 h35 (by omega)
      rw [hrun]
      exact ⟨st, rfl, r, hd⟩
    | some t =>
      obtain ⟨j, nd, nx⟩ := t
      rw [hfind] at hcf
      obtain ⟨pre, a, post, has, hj, hnode, hnx, hea, hpre⟩ := hcf
      rw [step_delete_found hk m o k _ j nd nx e hfind] at hnodup' ⊢
      have hN := hnd (hk.code k)
      rw [has] at hpath hN hf
      have hsuf := IsPath.suffix a post pre p hpath
      obtain ⟨ρ', e0, e1, e5, e4, hrun⟩ := del_loop_hit hk (call (koOf hk) procs (g + 1)) (g + 1) st k a post hea pre p ρ3
        (g + 1) 0 hpath hpre h31 h30 h35 (by simp at hf; omega)
      have hval : nd.2 = (st.h a).value := by rw [hnode]
      rw [hval]
      simp only [retVal]
      have hamem : a ∈ addrs (hk.code k) := by rw [has]; simp
      cases pre with
      | nil =>
        have e5' : ρ' 5 = .int 0 := by simpa using e5
        have hj0 : j = 0 := by simpa using hj
        simp only [List.nil_append] at has hN hpath
        cases hnext : (st.h a).next with
        | none =>
          have hpost : post = [] := by
            cases post with
            | nil => rfl
            | cons y ys => rw [hnext] at hsuf; exact absurd hsuf.1 (by simp)
          subst hpost
          rw [hrun _ _ _ (del_hit_only hk g (g + 1) st ρ' a k e1 e0 e5' hnext)]
          simp only [delFinish]
          rw [if_pos (show j = 0 ∧ nx.isEmpty = true from ⟨hj0, by simp [hnx, contents_nil]⟩)] at hnodup' ⊢
          refine ⟨_, rfl, ?_, hnodup'⟩
          refine RelA.rel (RelA.delete_rebuild ra (hk.code k) [] a [] has rfl rfl rfl (upd_same _ _ _)
            (fun x hx _ => upd_other _ _ _ _ hx) ?_ ?_ ?_)
          · intro d hd'; simp [updMap, hd']
          · intro d hd'; exact lookup_erase_ne _ _ hd' _
          · simp only [lookup_erase_self _ _ hd]
            simp [updMap]
        | some nx' =>
          obtain ⟨y, ys, hpost⟩ : ∃ y ys, post = y :: ys := by
            cases post with
            | nil => rw [hnext] at hsuf; exact absurd hsuf (by simp [IsPath])
            | cons y ys => exact ⟨y, ys, rfl⟩
          rw [hrun _ _ _ (del_hit_head hk g (g + 1) st ρ' a k nx' e1 e0 e5' hnext)]
          simp only [delFinish]
          rw [if_neg (show ¬ (j = 0 ∧ nx.isEmpty = true) from fun h => by simp [hnx, hpost, contents_cons] at h),
            if_pos hj0] at hnodup' ⊢
          refine ⟨_, rfl, ?_, hnodup'⟩
          have hpa' : ∀ x, x ∈ post → x ≠ a := by
            intro x hx e'; subst e'
            simp only [List.nodup_cons] at hN
            exact hN.1 hx
          refine RelA.rel (RelA.delete_rebuild ra (hk.code k) [] a post has rfl rfl rfl (upd_same _ _ _)
            (fun x hx _ => upd_other _ _ _ _ hx) ?_ ?_ ?_)
          · intro d hd'; simp [updMap, hd']
          · intro d hd'; simp [lookup_set, hd']
          · simp only [lookup_set, if_true, List.nil_append]
            refine ⟨some nx', by simp [updMap], ?_, ?_⟩
            · rw [hnext] at hsuf
              exact IsPath.frame _ _ (fun x hx => by rw [upd_other _ _ _ _ (hpa' x hx)]) hsuf
            · rw [hnx]; exact contents_frame _ (fun x hx => upd_other _ _ _ _ (hpa' x hx))
      | cons x xs =>
        obtain ⟨pr, hgl⟩ : ∃ pr, (x :: xs).getLast? = some pr := by
          cases hgl : (x :: xs).getLast? with
          | none => simp at hgl
          | some pr => exact ⟨pr, rfl⟩
        have e4' : ρ' 4 = .ptr (some pr) := by rw [e4, hgl]
        have e5' : ρ' 5 = .int ((xs.length + 1 : Nat) : Int) := by
          rw [e5]; simp only [List.length_cons, Nat.zero_add]
        have hprmem : pr ∈ x :: xs := List.mem_of_getLast? hgl
        have hN' := hN
        rw [List.nodup_append] at hN'
        obtain ⟨_, hN2, hN3⟩ := hN'
        simp only [List.nodup_cons] at hN2
        have hpra : pr ≠ a := hN3 pr hprmem a (by simp)
        have hj0 : ¬ j = 0 := by rw [hj]; simp
        rw [hrun _ _ _ (del_hit_inner hk g (g + 1) st ρ' a pr xs.length e1 e5' e4' hpra)]
        simp only [delFinish]
        rw [if_neg (show ¬ (j = 0 ∧ nx.isEmpty = true) from fun h => hj0 h.1), if_neg hj0] at hnodup' ⊢
        refine ⟨_, rfl, ?_, hnodup'⟩
        have hpost : ∀ y, y ∈ post → y ≠ a ∧ y ≠ pr := by
          intro y hy
          refine ⟨fun e' => hN2.1 (e' ▸ hy), fun e' => ?_⟩
          exact hN3 pr hprmem y (by simp [hy]) e'.symm
        have hprea : ∀ y, y ∈ x :: xs → y ≠ a := fun y hy => hN3 y hy a (by simp)
        refine RelA.rel (RelA.delete_rebuild ra (hk.code k) (x :: xs) a post has rfl rfl rfl (upd_same _ _ _) ?_ ?_ ?_ ?_)
        · intro y hya hypre
          have hypr : y ≠ pr := fun e' => hypre (e' ▸ hprmem)
          show upd (upd st.h pr _) a _ y = st.h y
          rw [upd_other _ _ _ _ hya, upd_other _ _ _ _ hypr]
        · intro d _; rfl
        · intro d hd'; simp [lookup_set, hd']
        · simp only [lookup_set, if_true]
          refine ⟨p, hmap, ?_, ?_⟩
          · refine IsPath.unlink (h := st.h) a pr post ?_ ?_ (x :: xs) p hpath hgl hN
            · rw [upd_other _ _ _ _ hpra, upd_same]
            · intro y hy1 hy2
              rw [upd_other _ _ _ _ hy2, upd_other _ _ _ _ hy1]
          · rw [contents_append, has, contents_append, hj, hnx]
            have hlen : (contents st.h (x :: xs)).length = (x :: xs).length := by simp [contents]
            rw [← hlen, List.take_left' rfl]
            congr 1
            · apply contents_frame'
              intro y hy
              rw [upd_other _ _ _ _ (hprea y hy)]
              by_cases hyp : y = pr
              · subst hyp; rw [upd_same]; exact ⟨rfl, rfl⟩
              · rw [upd_other _ _ _ _ hyp]; exact ⟨rfl, rfl⟩
            · apply contents_frame
              intro y hy
              rw [upd_other _ _ _ _ (hpost y hy).1, upd_other _ _ _ _ (hpost y hy).2]

/-! ### the strengthened relation: `Rel` + no empty chain + distinct codes -/

/-- the model's `Delete` leaves no empty chain -/
theorem step_delete_noEmpty (hk : Hashable) (m : HMap Int) (o : Oracle) (k : Int) (hne : NoEmpty m) (hd : NoDupCodes m) :
    NoEmpty (m.step hk o (.delete k)).1 := by
  cases e : AL.lookup (hk.code k) m.buckets with
  | none =>
    have hstep : m.step hk o (.delete k) = (m, .ok .missing) := by simp only [HMap.step, e]
    rw [hstep]; exact hne
  | some ch =>
    cases hfind : chainFind hk k ch with
    | none =>
      have hstep : m.step hk o (.delete k) = (m, .ok .missing) := by simp only [HMap.step, e, hfind]
      rw [hstep]; exact hne
    | some t =>
      obtain ⟨j, nd, nx⟩ := t
      rw [step_delete_found hk m o k _ j nd nx e hfind]
      intro d chd hl
      simp only at hl
      split at hl
      · by_cases hdc : d = hk.code k
        · subst hdc; rw [lookup_erase_self _ _ hd] at hl; simp at hl
        · rw [lookup_erase_ne _ _ hdc] at hl; exact hne _ _ hl
      · next h1 =>
        split at hl
        · next h2 =>
          rw [lookup_set] at hl
          split at hl
          · simp at hl; subst hl
            intro h0; exact h1 ⟨h2, by simp [h0]⟩
          · exact hne _ _ hl
        · next h2 =>
          rw [lookup_set] at hl
          split at hl
          · simp at hl; subst hl
            cases ch with
            | nil => simp [chainFind] at hfind
            | cons y ys =>
              cases j with
              | zero => exact absurd rfl h2
              | succ j => simp
          · exact hne _ _ hl

/-- `Rel` of HMRefine.lean strengthened by the two model invariants it lacks: no empty chain under a present code (else
    `Put` panics) and distinct codes in the model's association list (else the model's `erase` uncovers a shadowed entry) -/
def Rel' (st : St) (m : HMap Int) : Prop := Rel st m ∧ NoEmpty m ∧ NoDupCodes m

theorem Rel'.rel {st : St} {m : HMap Int} (r : Rel' st m) : Rel st m := r.1

/-- the translated constructor establishes `Rel'` -/
theorem New_sim' (ko : KeyOps) (f : Nat) (n : Int) (hn : 0 ≤ n) (st : St) :
    ∃ st', call ko procs (f + 1) .NewHashMap [.int n] st = .ok (.unit, st') ∧ Rel' st' (HMap.empty : HMap Int) := by
  obtain ⟨st', h1, h2⟩ := New_sim ko f n hn st
  exact ⟨st', h1, h2, NoEmpty.empty, NoDupCodes.empty⟩

/-- **`Put` preserves `Rel'`**: no panic, no stuck, no out-of-fuel beyond `f0`; nil error; the model's `put` -/
theorem Put_sim' (hk : Hashable) (st : St) (m : HMap Int) (o : Oracle) (k v : Int) (r : Rel' st m) (hc : st.choice = o.choice) :
    ∃ f0, ∀ f, f0 ≤ f → ∃ st', call (koOf hk) procs (f + 1) .Put [.int k, .int v] st = .ok (.ptr none, st') ∧
      Rel' st' (m.step hk o (.put k v)).1 ∧ (m.step hk o (.put k v)).2 = .ok .unit := by
  obtain ⟨f0, h⟩ := Put_sim_ok hk st m o k v r.1 r.2.1 hc
  refine ⟨f0, fun f hf => ?_⟩
  obtain ⟨st', h1, h2, h3, h4⟩ := h f hf
  exact ⟨st', h1, ⟨h2, h3, step_put_noDupCodes hk m o k v r.2.2⟩, h4⟩

/-- **`Delete` preserves `Rel'`**: the model's value and found-flag, the model's `delete` -/
theorem Delete_sim' (hk : Hashable) (st : St) (m : HMap Int) (o : Oracle) (k : Int) (r : Rel' st m) :
    ∃ f0, ∀ f, f0 ≤ f → ∃ st',
      call (koOf hk) procs (f + 1) .Delete [.int k] st = .ok (retVal (m.step hk o (.delete k)).2, st') ∧
      Rel' st' (m.step hk o (.delete k)).1 := by
  obtain ⟨f0, h⟩ := Delete_sim hk st m o k r.1 r.2.2
  refine ⟨f0, fun f hf => ?_⟩
  obtain ⟨st', h1, h2, h3⟩ := h f hf
  exact ⟨st', h1, h2, step_delete_noEmpty hk m o k r.2.1 r.2.2, h3⟩

end Ekit.MiniGo.HM.Refine
