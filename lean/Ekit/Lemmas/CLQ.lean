/-
C06 — ConcurrentLinkedQueue: the invariant is inductive; forward simulation to the canonical
automaton of the FIFO specification.  Linearization points:
  Enqueue            — the tail swing (e4), whose CAS always succeeds;
  Dequeue → value    — the successful CAS on head (d4);
  Dequeue → empty    — the load of the tail (d2): `lh = tail` and `lh ≤ head ≤ tail` give `head = tail` then.
-/
import Ekit.Lemmas.CLQInv

namespace Ekit.Linz.CLQ
open Ekit.Conc Ekit.Linz

variable {α : Type}

/-! ### list facts about the abstract queue -/

theorem absq_link (nodes : List α) (v : α) (head tail : Nat) (h : tail ≤ nodes.length) :
    ((nodes ++ [v]).take tail).drop head = (nodes.take tail).drop head := by
  rw [List.take_append_of_le_length h]

theorem absq_swing (nodes : List α) (v : α) (head tail : Nat) (hh : head ≤ tail) (ht : tail ≤ nodes.length)
    (hv : nodes[tail]? = some v) :
    (nodes.take (tail + 1)).drop head = (nodes.take tail).drop head ++ [v] := by
  rw [List.take_add_one, hv]
  rw [List.drop_append_of_le_length (by simp [List.length_take]; omega)]
  rfl

theorem absq_pop (nodes : List α) (x : α) (lh tail : Nat) (hh : lh < tail) (ht : tail ≤ nodes.length)
    (hx : nodes[lh]? = some x) :
    (nodes.take tail).drop lh = x :: (nodes.take tail).drop (lh + 1) := by
  have hl : lh < (nodes.take tail).length := by simp [List.length_take]; omega
  rw [List.drop_eq_getElem_cons hl]
  congr 1
  rw [List.getElem_take]
  have : lh < nodes.length := by omega
  rw [List.getElem?_eq_getElem this] at hx
  exact Option.some.inj hx

theorem absq_empty (nodes : List α) (tail : Nat) : (nodes.take tail).drop tail = [] := by
  apply List.drop_eq_nil_of_le
  simp [List.length_take]; omega

variable [DecidableEq α]

/-- facts a thread at d4 has: its snapshot of `head.next` is the next node, which holds a value -/
theorem Inv.d4_facts {s : St α} (h : Inv s) {t : Nat} {lh : Nat} {ln : Option Nat} (hpc : s.pc t = .d4 lh ln) :
    lh < s.tail ∧ ln = some (lh + 1) ∧ ∃ x, s.nodes[lh]? = some x := by
  have := h.ok t
  simp only [hpc, PcOk] at this
  refine ⟨this.1, this.2, ?_⟩
  have hl : lh < s.nodes.length := by have := h.tl; omega
  exact ⟨s.nodes[lh], List.getElem?_eq_getElem hl⟩

theorem inv_step (s : St α) (l : Lbl (QOp α) (QRet α)) (s' : St α)
    (h : Inv s) (hs : (sys α).step s l = some s') : Inv s' := by
  cases l with
  | call t op =>
    simp only [sys, step] at hs
    cases hpc : s.pc t <;> simp only [hpc] at hs <;> try contradiction
    cases op <;> simp only [Option.some.injEq] at hs <;> subst hs <;>
      exact h.setPc (by simp [hpc, isE4]) (by simp [isE4]) (by simp [PcOk])
  | ret t r =>
    simp only [sys, step] at hs
    cases hpc : s.pc t <;> simp only [hpc] at hs <;> try contradiction
    rename_i r'
    by_cases hr : r = r'
    · simp only [hr, if_true, Option.some.injEq] at hs; subst hs
      exact h.setPc (by simp [hpc, isE4]) (by simp [isE4]) (by simp [PcOk])
    · simp [hr] at hs
  | tau t =>
    simp only [sys, step] at hs
    have hok := h.ok t
    cases hpc : s.pc t <;> simp only [hpc] at hs hok <;> try contradiction
    · -- e1
      simp only [Option.some.injEq] at hs; subst hs
      exact h.setPc (by simp [hpc, isE4]) (by simp [isE4]) (by simp [PcOk])
    · -- e2
      rename_i v lt
      cases hn : s.next lt <;> simp only [hn, Option.some.injEq] at hs <;> subst hs
      · exact h.setPc (by simp [hpc, isE4]) (by simp [isE4]) (by simpa [PcOk] using hok)
      · exact h.setPc (by simp [hpc, isE4]) (by simp [isE4]) (by simp [PcOk])
    · -- e3
      rename_i v lt
      cases hn : s.next lt <;> simp only [hn, Option.some.injEq] at hs <;> subst hs
      · exact h.link hpc hn
      · exact h.setPc (by simp [hpc, isE4]) (by simp [isE4]) (by simp [PcOk])
    · -- e4
      rename_i v lt nw
      obtain ⟨hlt, _⟩ := h.e4_facts hpc
      simp only [hlt, if_true, Option.some.injEq] at hs; subst hs
      exact h.swing hpc
    · -- d1
      simp only [Option.some.injEq] at hs; subst hs
      exact h.setPc (by simp [hpc, isE4]) (by simp [isE4]) (by simp [PcOk])
    · -- d2
      rename_i lh
      simp only [PcOk] at hok
      by_cases he : lh = s.tail
      · simp only [he, if_true, Option.some.injEq] at hs; subst hs
        exact h.setPc (by simp [hpc, isE4]) (by simp [isE4]) (by simp [PcOk])
      · simp only [he, if_false, Option.some.injEq] at hs; subst hs
        refine h.setPc (by simp [hpc, isE4]) (by simp [isE4]) ?_
        simp only [PcOk]; have := h.ht; omega
    · -- d3
      rename_i lh
      simp only [PcOk] at hok
      simp only [Option.some.injEq] at hs; subst hs
      refine h.setPc (by simp [hpc, isE4]) (by simp [isE4]) ?_
      simp only [PcOk, St.next]
      have : lh < s.nodes.length := by have := h.tl; omega
      simp [this, hok]
    · -- d4
      rename_i lh ln
      obtain ⟨hlt, hln, x, hx⟩ := h.d4_facts hpc
      subst hln
      by_cases hh : s.head = lh
      · simp only [hh, if_true, Nat.add_sub_cancel, hx, Option.some.injEq] at hs; subst hs
        exact h.advance hpc hh (by simp [isE4]) (by simp [PcOk])
      · simp only [hh, if_false, Option.some.injEq] at hs; subst hs
        exact h.setPc (by simp [hpc, isE4]) (by simp [isE4]) (by simp [PcOk])

theorem inv_reachable (s : St α) (hr : (sys α).Reachable s) : Inv s :=
  System.invariant_induction (sys α).toSystem Inv Inv.init inv_step s hr

/-! ### forward simulation -/

theorem sim_silent {s : St α} {a : AState (List α) (QOp α) (QRet α)} {t : Nat} {p : Pc α} {s' : St α}
    (h : Rel s a) (hp : a.th t = expect p) (hq : s'.absq = s.absq) (hpc : s'.pc = upd s.pc t p) :
    ∃ als a', ARun (fifoSpec α) a als a' ∧ Rel s' a' ∧ als.filterMap ALabel.obs = [] :=
  ⟨[], a, ARun.nil, ⟨by rw [hq]; exact h.1, by rw [hpc]; exact upd_pointwise_left h.2 hp⟩, rfl⟩

theorem sim_lin {s : St α} {a : AState (List α) (QOp α) (QRet α)} {t : Nat} {op : QOp α} {r : QRet α} {s' : St α}
    (h : Rel s a) (hp : a.th t = .pending op) (hap : fifoStep s.absq op r = some s'.absq)
    (hpc : s'.pc = upd s.pc t (.ret r)) :
    ∃ als a', ARun (fifoSpec α) a als a' ∧ Rel s' a' ∧ als.filterMap ALabel.obs = [] := by
  refine ⟨[.lin t s'.absq r], ⟨s'.absq, upd a.th t (.done r)⟩, arun_one (AStep.lin hp ?_), ⟨rfl, ?_⟩, rfl⟩
  · show fifoStep a.s op r = some s'.absq
    rw [h.1]; exact hap
  · rw [hpc]; exact upd_pointwise (e := expect) (a := Pc.ret r) h.2

theorem sim_step (s : St α) (a : AState (List α) (QOp α) (QRet α)) (l : Lbl (QOp α) (QRet α)) (s' : St α)
    (hreach : (sys α).Reachable s) (h : Rel s a) (hs : (sys α).step s l = some s') :
    ∃ als a', ARun (fifoSpec α) a als a' ∧ Rel s' a' ∧
      als.filterMap ALabel.obs = ((sys α).obs l).toList := by
  have hinv := inv_reachable s hreach
  cases l with
  | call t op =>
    have hcall : ∀ p, s.pc t = .idle → expect p = .pending op →
        ∃ als a', ARun (fifoSpec α) a als a' ∧ Rel (s.set t p) a' ∧
          als.filterMap ALabel.obs = ((sys α).obs (.call t op)).toList := by
      intro p hidle hp
      have hth : a.th t = .idle := by rw [h.2 t, hidle]; rfl
      refine ⟨[.inv t op], ⟨a.s, upd a.th t (.pending op)⟩, arun_one (AStep.inv hth), ⟨h.1, ?_⟩, rfl⟩
      rw [← hp]; exact upd_pointwise (e := expect) h.2
    simp only [sys, step] at hs
    cases hpc : s.pc t <;> simp only [hpc] at hs <;> try contradiction
    cases op <;> simp only [Option.some.injEq] at hs <;> subst hs <;> exact hcall _ hpc rfl
  | ret t r =>
    simp only [sys, step] at hs
    cases hpc : s.pc t <;> simp only [hpc] at hs <;> try contradiction
    rename_i r'
    by_cases hr : r = r'
    · simp only [hr, if_true, Option.some.injEq] at hs; subst hs
      have hth : a.th t = .done r := by rw [h.2 t, hpc, hr]; rfl
      refine ⟨[.res t r], ⟨a.s, upd a.th t .idle⟩, arun_one (AStep.res hth), ⟨h.1, ?_⟩, rfl⟩
      exact upd_pointwise (e := expect) (a := Pc.idle) h.2
    · simp [hr] at hs
  | tau t =>
    simp only [sys, step] at hs
    have hth := h.2 t
    have hok := hinv.ok t
    cases hpc : s.pc t <;> simp only [hpc] at hs hth hok <;> try contradiction
    · -- e1
      rename_i v
      simp only [Option.some.injEq] at hs; subst hs
      exact sim_silent h (p := .e2 v s.tail) hth rfl rfl
    · -- e2
      rename_i v lt
      cases hn : s.next lt <;> simp only [hn, Option.some.injEq] at hs <;> subst hs
      · exact sim_silent h (p := .e3 v lt) hth rfl rfl
      · exact sim_silent h (p := .e1 v) hth rfl rfl
    · -- e3
      rename_i v lt
      cases hn : s.next lt <;> simp only [hn, Option.some.injEq] at hs <;> subst hs
      · -- linked, but not yet in the queue
        refine sim_silent h (p := .e4 v lt (s.nodes.length + 1)) hth ?_ rfl
        exact absq_link s.nodes v s.head s.tail hinv.tl
      · exact sim_silent h (p := .e1 v) hth rfl rfl
    · -- e4: the tail swing is the linearization point of Enqueue
      rename_i v lt nw
      obtain ⟨hlt, hnw, hlen, hv⟩ := hinv.e4_facts hpc
      simp only [hlt, if_true, Option.some.injEq] at hs; subst hs
      refine sim_lin h (op := .enq v) hth ?_ rfl
      simp only [fifoStep, St.absq, hnw]
      rw [absq_swing s.nodes v s.head s.tail hinv.ht hinv.tl hv]
    · -- d1
      simp only [Option.some.injEq] at hs; subst hs
      exact sim_silent h (p := .d2 s.head) hth rfl rfl
    · -- d2
      rename_i lh
      simp only [PcOk] at hok
      by_cases he : lh = s.tail
      · -- empty answer: head = tail at this instant
        simp only [he, if_true, Option.some.injEq] at hs; subst hs
        refine sim_lin h (op := .deq) hth ?_ rfl
        have hht : s.head = s.tail := by have := hinv.ht; omega
        have : s.absq = [] := by simp only [St.absq, hht]; exact absq_empty s.nodes s.tail
        simp [fifoStep, St.set, St.absq] at this ⊢
        simp [this]
      · simp only [he, if_false, Option.some.injEq] at hs; subst hs
        exact sim_silent h (p := .d3 lh) hth rfl rfl
    · -- d3
      rename_i lh
      simp only [Option.some.injEq] at hs; subst hs
      exact sim_silent h (p := .d4 lh (s.next lh)) hth rfl rfl
    · -- d4
      rename_i lh ln
      obtain ⟨hlt, hln, x, hx⟩ := hinv.d4_facts hpc
      subst hln
      by_cases hh : s.head = lh
      · -- successful CAS on head: the linearization point of a successful Dequeue
        simp only [hh, if_true, Nat.add_sub_cancel, hx, Option.some.injEq] at hs; subst hs
        refine sim_lin h (op := .deq) hth ?_ rfl
        simp only [St.absq, hh]
        rw [absq_pop s.nodes x lh s.tail hlt hinv.tl hx]
        simp [fifoStep]
      · simp only [hh, if_false, Option.some.injEq] at hs; subst hs
        exact sim_silent h (p := .d1) hth rfl rfl

theorem linearizable (ls : List (Lbl (QOp α) (QRet α))) (s : St α)
    (hrun : (sys α).run (sys α).init ls = some s) :
    Linearizable (fifoSpec α) ((sys α).history ls) :=
  forward_simulation (sys α) (fifoSpec α) Rel ⟨rfl, fun _ => rfl⟩ sim_step ls s hrun

end Ekit.Linz.CLQ
