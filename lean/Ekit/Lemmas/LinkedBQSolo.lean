/-
"The queue accepts … without blocking" (C09, linked queue): with nobody else in a call and the
context alive, an Enqueue on a non-full queue (a Dequeue on a non-empty queue) reaches `return nil`
(`return (v, nil)`) by its own actions alone, all of them enabled, without ever parking.
-/
import Ekit.Lemmas.LinkedBQLive
namespace Ekit.LinkedBQ
open Ekit.Conc Ekit.BQ

def Solo (s : State) (t : Nat) : Prop := (∀ u, u ≠ t → s.pc u = .idle) ∧ s.ctxDone t = false

/-- on the successful path of an Enqueue (the queue is not full while the guard is still ahead) -/
def okE (s : State) : Pc → Prop
  | .eCtx _ | .eLock _ | .eGuard _ => full s = false
  | .eAppend _ | .bcSwap _ .ok | .bcUnlock _ _ .ok | .bcClose _ _ .ok | .ret .ok => True
  | _ => False
/-- on the successful path of a Dequeue -/
def okD (s : State) : Pc → Prop
  | .dCtx | .dLock | .dGuard | .dDelete => s.q ≠ []
  | .bcSwap _ (.val _) | .bcUnlock _ _ (.val _) | .bcClose _ _ (.val _) | .ret (.val _) => True
  | _ => False

theorem solo_step {s s' : State} {t : Nat} (hsolo : Solo s t) (hnp : s'.panicked = false)
    (hs : tauStep s t = some s') :
    Solo s' t ∧ (okE s (s.pc t) → okE s' (s'.pc t)) ∧ (okD s (s.pc t) → okD s' (s'.pc t)) := by
  have hc := hsolo.2
  unfold tauStep at hs
  cases hp : s.pc t <;> simp only [hp] at hs
  case dDelete =>
    cases hq : s.q with
    | nil =>
      refine ⟨?_, by simp [okE], fun h => absurd hq (by simpa [okD] using h)⟩
      simp only [hq, ll_delete0_nil] at hs
      injection hs with hs; subst hs
      exact ⟨fun u hu => by simp only [setPc, upd, hu, if_false]; exact hsolo.1 u hu, by simpa [setPc] using hc⟩
    | cons x rest =>
      simp only [hq, ll_delete0_cons] at hs
      injection hs with hs; subst hs
      exact ⟨⟨fun u hu => by simp only [setPc, upd, hu, if_false]; exact hsolo.1 u hu, by simpa [setPc] using hc⟩,
        by simp [okE], by simp [okD, setPc]⟩
  all_goals (try simp only [unlockTo, ll_append, ll_len, ll_asSlice] at hs)
  all_goals (try split at hs)
  all_goals (try (simp at hs; done))
  all_goals (injection hs with hs; subst hs)
  all_goals (try (simp [panic] at hnp; done))
  all_goals (
    refine ⟨⟨fun u hu => ?_, ?_⟩, ?_, ?_⟩
    · simp only [setPc, setCond_pc, upd, hu, if_false]; exact hsolo.1 u hu
    · simpa [setPc] using hc
    all_goals (first
      | (simp_all [okE, okD, setPc, full]; done)
      | (rename_i r; cases r <;> simp_all [okE, okD, setPc])
      | (rename_i r _; cases r <;> simp_all [okE, okD, setPc])))

theorem okE_not_parked {s : State} {p : Pc} (h : okE s p) : (∀ v g, p ≠ .eSelect v g) ∧ (∀ g, p ≠ .dSelect g) ∧ p ≠ .idle := by
  cases p <;> simp [okE] at h ⊢
theorem okD_not_parked {s : State} {p : Pc} (h : okD s p) : (∀ v g, p ≠ .eSelect v g) ∧ (∀ g, p ≠ .dSelect g) ∧ p ≠ .idle := by
  cases p <;> simp [okD] at h ⊢

/-- when only `t` is in a call and it is not parked, `t` never waits for anybody -/
theorem solo_enabled (m : Int) (s : State) (hr : (sys m).Reachable s) (t : Nat)
    (hsolo : Solo s t) (hidle : s.pc t ≠ .idle) (hret : ∀ r, s.pc t ≠ .ret r)
    (hnp : (∀ v g, s.pc t ≠ .eSelect v g) ∧ (∀ g, s.pc t ≠ .dSelect g)) :
    tauEn s t := by
  obtain ⟨h, _, h3⟩ := inv123_reachable m s hr
  have hidle_w : ∀ u, u ≠ t → wR (s.pc u) = 0 ∧ inW (s.pc u) = false := by
    intro u hu; rw [hsolo.1 u hu]; simp [wR, inW]
  have nowriter : ∀ u, s.writer = some u → inW (s.pc t) = true := by
    intro u hw
    have := h3 u hw
    by_cases hu : u = t
    · subst hu; exact this
    · rw [(hidle_w u hu).2] at this; exact absurd this (by simp)
  have hspec : specEnables s t := by
    unfold specEnables
    cases hp : s.pc t <;> simp
    · exact absurd hp (hnp.1 _ _)
    · exact absurd hp (hnp.2 _)
  rcases enabled_when_possible m s hr t hidle hret hspec with he | ⟨u, hw, _⟩
  · exact he
  · exfalso
    unfold waitsFor at hw
    by_cases hu : u = t
    · subst hu
      cases hp : s.pc u <;> simp [hp, wR, isCloser, isSwap] at hw
      all_goals (first
        | (have := nowriter u hw; simp [hp, inW] at this; done)
        | exact absurd hp (hnp.1 _ _)
        | exact absurd hp (hnp.2 _))
    · have hui := hsolo.1 u hu
      cases hp : s.pc t <;> simp [hp, hui, wR, isCloser, isSwap] at hw
      all_goals (have := nowriter u hw; simp [hp, inW] at this)

theorem run_replicate_succ {σ ι : Type} (S : System σ ι) (s s1 s' : σ) (l : ι) (n : Nat)
    (h1 : S.step s l = some s1) (h2 : S.run s1 (List.replicate n l) = some s') :
    S.run s (List.replicate (n + 1) l) = some s' := by
  simp [List.replicate_succ, System.run, h1, h2]

/-- **solo completion** (linked queue). -/
theorem solo_completes (m : Int) (t : Nat) :
    ∀ k (s : State), (sys m).Reachable s → Solo s t → rank s t ≤ k →
      (okE s (s.pc t) ∨ okD s (s.pc t)) →
      ∃ n s', (sys m).run s (List.replicate n (.tau t)) = some s' ∧ (sys m).Reachable s' ∧ Solo s' t ∧
        ((okE s (s.pc t) → s'.pc t = .ret .ok) ∧ (okD s (s.pc t) → ∃ v, s'.pc t = .ret (.val v))) := by
  intro k
  induction k with
  | zero =>
    intro s _ _ hk hok
    exfalso
    cases hp : s.pc t <;> simp [hp, okE, okD] at hok <;> simp [rank, hp] at hk
  | succ k ih =>
    intro s hr hsolo hk hok
    by_cases hret : ∃ r, s.pc t = .ret r
    · obtain ⟨r, hp⟩ := hret
      refine ⟨0, s, rfl, hr, hsolo, ?_, ?_⟩
      · intro he; cases r <;> simp [hp, okE] at he; exact hp
      · intro hd; cases r <;> simp [hp, okD] at hd; exact ⟨_, hp⟩
    · have hnpk : (∀ v g, s.pc t ≠ .eSelect v g) ∧ (∀ g, s.pc t ≠ .dSelect g) ∧ s.pc t ≠ .idle := by
        rcases hok with h | h
        · exact okE_not_parked h
        · exact okD_not_parked h
      have hen := solo_enabled m s hr t hsolo hnpk.2.2 (fun r e => hret ⟨r, e⟩) ⟨hnpk.1, hnpk.2.1⟩
      unfold tauEn at hen
      obtain ⟨s1, hs1⟩ := Option.isSome_iff_exists.mp hen
      have hr1 : (sys m).Reachable s1 := @System.Reachable.step _ _ (sys m).toSystem s s1 (.tau t) hr hs1
      have hnp1 := (inv123_reachable m s1 hr1).2.1.noPanic
      have hrank : rank s1 t < rank s t := by
        rcases rank_decreases_or_backEdge hnp1 (Or.inl hs1) with h | h
        · exact h
        · exfalso
          rcases h with ⟨v, g, hp, _⟩ | ⟨g, hp, _⟩
          · exact hnpk.1 v g hp
          · exact hnpk.2.1 g hp
      have hts : tauStep s t = some s1 := by
        simp only [step] at hs1
        split at hs1
        · simp at hs1
        · exact hs1
      obtain ⟨hsolo1, hE1, hD1⟩ := solo_step hsolo hnp1 hts
      have hok1 : okE s1 (s1.pc t) ∨ okD s1 (s1.pc t) := by
        rcases hok with h | h
        · exact Or.inl (hE1 h)
        · exact Or.inr (hD1 h)
      obtain ⟨n, s', hrun, hr', hsolo', hres⟩ := ih s1 hr1 hsolo1 (by omega) hok1
      refine ⟨n + 1, s', run_replicate_succ _ s s1 s' _ n hs1 hrun, hr', hsolo', ?_, ?_⟩
      · intro he; exact hres.1 (hE1 he)
      · intro hd; exact hres.2 (hD1 hd)

end Ekit.LinkedBQ
