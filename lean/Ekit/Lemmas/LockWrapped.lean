/-
C06 — lock-wrapped containers: the invariant is inductive, and the forward simulation to the
canonical automaton of any specification the sequential body refines.
-/
import Ekit.Lemmas.LockWrappedInv

namespace Ekit.Linz.LockWrapped
open Ekit.Conc Ekit.Linz

variable {S Op Ret : Type} [DecidableEq Ret] (P : Params S Op Ret)

theorem inv_step (s : St S Op Ret) (l : Lbl Op Ret) (s' : St S Op Ret)
    (h : Inv P s) (hs : (sys P).step s l = some s') : Inv P s' := by
  cases l with
  | call t op =>
    simp only [sys, step] at hs
    cases hpc : s.pc t <;> simp only [hpc] at hs <;> try contradiction
    simp only [Option.some.injEq] at hs; subst hs
    exact h.move P (by simp [hpc, lockOf]) (by simp) (by simp [hpc]) (by simp)
  | ret t r =>
    simp only [sys, step] at hs
    cases hpc : s.pc t <;> simp only [hpc] at hs <;> try contradiction
    rename_i r'
    by_cases hr : r = r'
    · simp only [hr, if_true, Option.some.injEq] at hs; subst hs
      exact h.move P (by simp [hpc, lockOf]) (by simp) (by simp [hpc]) (by simp)
    · simp [hr] at hs
  | tau t =>
    simp only [sys, step] at hs
    cases hpc : s.pc t <;> simp only [hpc] at hs <;> try contradiction
    · -- want
      rename_i op
      by_cases hsh : (P.style op).shared = true
      · simp only [hsh, if_true] at hs
        by_cases hw : s.w = true
        · simp [hw] at hs
        · have hw' : s.w = false := by simpa using hw
          rw [if_neg hw] at hs; simp only [Option.some.injEq] at hs; subst hs
          exact h.rlock P hpc hsh hw'
      · have hsh' : (P.style op).shared = false := by simpa using hsh
        simp only [hsh', Bool.false_eq_true, if_false] at hs
        by_cases hc : (s.w || s.rc != 0) = true
        · simp [hc] at hs
        · simp only [hc, Bool.false_eq_true, if_false, Option.some.injEq] at hs; subst hs
          have hc' : s.w = false ∧ s.rc = 0 := by simpa using hc
          exact h.lock P hpc hsh' hc'.1 hc'.2
    · -- held
      rename_i op
      have hclean := h.held_clean P hpc
      simp only [hclean, Bool.false_eq_true, if_false, Option.some.injEq] at hs; subst hs
      exact h.begin P hpc
    · -- mid
      rename_i op sn
      by_cases hlate : (P.style op).late = true
      · simp only [hlate, if_true, Option.some.injEq] at hs; subst hs
        refine h.unlock P (by simp [hpc, lockOf, style_late_excl hlate]) (by simp [lockOf]) (by simp) (by simp) ?_
        intro op' sn' he
        rw [hpc] at he; simp only [Pc.mid.injEq] at he
        cases hd : (P.style op').dirties with
        | false => rfl
        | true => have := style_dirties_not_late hd; rw [← he.1] at this; simp [hlate] at this
      · simp only [hlate, Bool.false_eq_true, if_false] at hs
        by_cases hro : (P.style op).readOnly = true
        · simp only [hro, if_true, Option.some.injEq] at hs; subst hs
          exact h.finishR P hpc hro
        · simp only [hro, Bool.false_eq_true, if_false, Option.some.injEq] at hs; subst hs
          exact h.finishW P hpc (by simpa using hro)
    · -- fin
      rename_i op r
      by_cases hsh : (P.style op).shared = true
      · simp only [hsh, if_true, Option.some.injEq] at hs; subst hs
        exact h.runlock P hpc hsh
      · have hsh' : (P.style op).shared = false := by simpa using hsh
        simp only [hsh', Bool.false_eq_true, if_false, Option.some.injEq] at hs; subst hs
        exact h.unlock P (by simp [hpc, lockOf, hsh']) (by simp [lockOf]) (by simp) (by simp)
          (by intro op' sn' he; simp [hpc] at he)
    · -- out
      rename_i op sn
      simp only [Option.some.injEq] at hs; subst hs
      exact h.move P (by simp [hpc, lockOf]) (by simp) (by simp [hpc]) (by simp)

theorem inv_reachable (s : St S Op Ret) (hr : (sys P).Reachable s) : Inv P s :=
  System.invariant_induction (sys P).toSystem (Inv P) (Inv.init P) (inv_step P) s hr

/-! ### forward simulation -/

variable {A : Type} (spec : SeqSpec A Op Ret) (abs : S → A)

omit [DecidableEq Ret] in
theorem sim_silent {s : St S Op Ret} {a : AState A Op Ret} {t : Nat} {p : Pc S Op Ret} {s' : St S Op Ret}
    (h : Rel P abs s a) (hp : a.th t = expect P p) (hd : s'.data = s.data) (hpc : s'.pc = upd s.pc t p) :
    ∃ als a', ARun spec a als a' ∧ Rel P abs s' a' ∧ als.filterMap ALabel.obs = [] :=
  ⟨[], a, ARun.nil, ⟨by rw [hd]; exact h.1, by rw [hpc]; exact upd_pointwise_left h.2 hp⟩, rfl⟩

theorem sim_step
    (href : ∀ s op, spec.apply (abs s) op (abs (P.f s op).1) (P.f s op).2)
    (hro : ∀ s op, (P.style op).readOnly = true → (P.f s op).1 = s)
    (s : St S Op Ret) (a : AState A Op Ret) (l : Lbl Op Ret) (s' : St S Op Ret)
    (hreach : (sys P).Reachable s) (h : Rel P abs s a) (hs : (sys P).step s l = some s') :
    ∃ als a', ARun spec a als a' ∧ Rel P abs s' a' ∧ als.filterMap ALabel.obs = ((sys P).obs l).toList := by
  have hinv := inv_reachable P s hreach
  cases l with
  | call t op =>
    simp only [sys, step] at hs
    cases hpc : s.pc t <;> simp only [hpc] at hs <;> try contradiction
    simp only [Option.some.injEq] at hs; subst hs
    have hth : a.th t = .idle := by rw [h.2 t, hpc]; rfl
    refine ⟨[.inv t op], ⟨a.s, upd a.th t (.pending op)⟩, arun_one (AStep.inv hth), ⟨h.1, ?_⟩, rfl⟩
    exact upd_pointwise (e := expect P) (a := Pc.want op) h.2
  | ret t r =>
    simp only [sys, step] at hs
    cases hpc : s.pc t <;> simp only [hpc] at hs <;> try contradiction
    rename_i r'
    by_cases hr : r = r'
    · simp only [hr, if_true, Option.some.injEq] at hs; subst hs
      have hth : a.th t = .done r := by rw [h.2 t, hpc, hr]; rfl
      refine ⟨[.res t r], ⟨a.s, upd a.th t .idle⟩, arun_one (AStep.res hth), ⟨h.1, ?_⟩, rfl⟩
      exact upd_pointwise (e := expect P) (a := Pc.idle) h.2
    · simp [hr] at hs
  | tau t =>
    simp only [sys, step] at hs
    have hth := h.2 t
    cases hpc : s.pc t <;> simp only [hpc] at hs hth <;> try contradiction
    · -- want: Lock / RLock, no effect yet
      rename_i op
      by_cases hsh : (P.style op).shared = true
      · simp only [hsh, if_true] at hs
        by_cases hw : s.w = true
        · simp [hw] at hs
        · have hw' : s.w = false := by simpa using hw
          rw [if_neg hw] at hs; simp only [Option.some.injEq] at hs; subst hs
          exact sim_silent P spec abs h (p := .held op) hth rfl rfl
      · have hsh' : (P.style op).shared = false := by simpa using hsh
        simp only [hsh', Bool.false_eq_true, if_false] at hs
        by_cases hc : (s.w || s.rc != 0) = true
        · simp [hc] at hs
        · simp only [hc, Bool.false_eq_true, if_false, Option.some.injEq] at hs; subst hs
          exact sim_silent P spec abs h (p := .held op) hth rfl rfl
    · -- held: begin — linearization point of a read-only body
      rename_i op
      have hclean := hinv.held_clean P hpc
      simp only [hclean, Bool.false_eq_true, if_false, Option.some.injEq] at hs; subst hs
      by_cases hr : (P.style op).readOnly = true
      · refine ⟨[.lin t (abs s.data) (P.f s.data op).2], ⟨abs s.data, upd a.th t (.done (P.f s.data op).2)⟩,
          arun_one (AStep.lin hth ?_), ⟨rfl, ?_⟩, rfl⟩
        · have := href s.data op
          rw [hro s.data op hr] at this
          rw [h.1]; exact this
        · have e : expect P (.mid op s.data) = .done (P.f s.data op).2 := by simp [expect, hr]
          rw [← e]; exact upd_pointwise (e := expect P) h.2
      · refine sim_silent P spec abs h (p := .mid op s.data) ?_ rfl rfl
        simp [expect, hr]; exact hth
    · -- mid
      rename_i op sn
      by_cases hlate : (P.style op).late = true
      · simp only [hlate, if_true, Option.some.injEq] at hs; subst hs
        refine sim_silent P spec abs h (p := .out op sn) ?_ rfl rfl
        simp only [expect, style_late_ro hlate, if_true] at hth ⊢; exact hth
      · simp only [hlate, Bool.false_eq_true, if_false] at hs
        by_cases hr : (P.style op).readOnly = true
        · simp only [hr, if_true, Option.some.injEq] at hs; subst hs
          refine sim_silent P spec abs h (p := .fin op (P.f sn op).2) ?_ rfl rfl
          simp only [expect, hr, if_true] at hth ⊢; exact hth
        · -- finish of a writer: the linearization point
          simp only [hr, Bool.false_eq_true, if_false, Option.some.injEq] at hs; subst hs
          have hsn : sn = s.data := hinv.snap t op sn hpc
          subst hsn
          have hth' : a.th t = .pending op := by simpa [expect, hr] using hth
          refine ⟨[.lin t (abs (P.f s.data op).1) (P.f s.data op).2],
            ⟨abs (P.f s.data op).1, upd a.th t (.done (P.f s.data op).2)⟩,
            arun_one (AStep.lin hth' ?_), ⟨rfl, ?_⟩, rfl⟩
          · rw [h.1]; exact href s.data op
          · exact upd_pointwise (e := expect P) (a := Pc.fin op (P.f s.data op).2) h.2
    · -- fin: Unlock / RUnlock
      rename_i op r
      by_cases hsh : (P.style op).shared = true
      · simp only [hsh, if_true, Option.some.injEq] at hs; subst hs
        exact sim_silent P spec abs h (p := .ret r) hth rfl rfl
      · have hsh' : (P.style op).shared = false := by simpa using hsh
        simp only [hsh', Bool.false_eq_true, if_false, Option.some.injEq] at hs; subst hs
        exact sim_silent P spec abs h (p := .ret r) hth rfl rfl
    · -- out: the answer is computed from the immutable snapshot
      rename_i op sn
      simp only [Option.some.injEq] at hs; subst hs
      exact sim_silent P spec abs h (p := .ret (P.f sn op).2) hth rfl rfl

/-- **Generic theorem**: a container whose methods run `f` inside critical sections of one RWMutex
    (writers exclusive, read-only bodies shared or snapshot-style) is linearizable w.r.t. every
    specification that `f` refines through the abstraction `abs`. -/
theorem linearizable
    (hinit : abs P.init = spec.init)
    (href : ∀ s op, spec.apply (abs s) op (abs (P.f s op).1) (P.f s op).2)
    (hro : ∀ s op, (P.style op).readOnly = true → (P.f s op).1 = s)
    (ls : List (Lbl Op Ret)) (s : St S Op Ret) (hrun : (sys P).run (sys P).init ls = some s) :
    Linearizable spec ((sys P).history ls) := by
  refine forward_simulation (sys P) spec (Rel P abs) ⟨?_, fun _ => rfl⟩
    (sim_step P spec abs href hro) ls s hrun
  show spec.init = abs P.init
  exact hinit.symm

end Ekit.Linz.LockWrapped
