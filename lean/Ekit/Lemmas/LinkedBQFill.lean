/-
Review addition (C09, linked queue): "the queue still accepts and delivers exactly `capacity`
elements without blocking", as a theorem about runs (the array-queue counterpart is `ArrayBQFill`).

* `fill`  — from every reachable quiescent state with `len + k ≤ maxSize` (or any `k` when the queue is
  unbounded), `k` consecutive Enqueues each run to `return nil` by their own, always enabled, actions
  (none of them parks); the history is exactly these `k` completed calls; the list grew by `k`;
* `drain` — `k ≤ len` consecutive Dequeues each return an element.
(That no further element is accepted on a full queue is `c07_lbq_inv` + `c07_lbq_linearizable`: the list
never exceeds `maxSize` and an Enqueue cannot answer nil on a full queue.)
-/
import Ekit.Lemmas.LinkedBQSolo
namespace Ekit.LinkedBQ
open Ekit.Conc Ekit.BQ
set_option linter.unusedSimpArgs false

/-- 1 while a successful Enqueue has not yet appended -/
def pendE : Pc → Nat
  | .eCtx _ | .eLock _ | .eGuard _ | .eAppend _ => 1
  | _ => 0
/-- 1 while a successful Dequeue has not yet removed -/
def pendD : Pc → Nat
  | .dCtx | .dLock | .dGuard | .dDelete => 1
  | _ => 0

theorem solo_len {s s' : State} {t : Nat} (hc : s.ctxDone t = false) (hnp : s'.panicked = false)
    (hs : tauStep s t = some s') :
    (okE s (s.pc t) → s'.q.length + pendE (s'.pc t) = s.q.length + pendE (s.pc t)) ∧
    (okD s (s.pc t) → s'.q.length + pendD (s.pc t) = s.q.length + pendD (s'.pc t)) ∧
    s'.maxSize = s.maxSize := by
  unfold tauStep at hs
  cases hp : s.pc t <;> simp only [hp] at hs
  case dDelete =>
    cases hq : s.q with
    | nil =>
      simp only [hq, ll_delete0_nil] at hs
      injection hs with hs; subst hs
      exact ⟨by simp [okE], fun h => absurd hq (by simpa [okD] using h), rfl⟩
    | cons x rest =>
      simp only [hq, ll_delete0_cons] at hs
      injection hs with hs; subst hs
      exact ⟨by simp [okE], fun _ => by simp [setPc, pendD], rfl⟩
  all_goals (try simp only [unlockTo, ll_append, ll_len, ll_asSlice] at hs)
  all_goals (try split at hs)
  all_goals (try (simp at hs; done))
  all_goals (injection hs with hs; subst hs)
  all_goals (try (simp [panic] at hnp; done))
  all_goals (
    refine ⟨?_, ?_, ?_⟩
    all_goals (first
      | (simp_all [okE, okD, pendE, pendD, setPc, full]; done)
      | (simp [okE, okD, pendE, pendD, setPc, hc]; done)
      | (rename_i r; cases r <;> simp_all [okE, okD, pendE, pendD, setPc])
      | (rename_i r _; cases r <;> simp_all [okE, okD, pendE, pendD, setPc])
      | (rename_i w _; cases w <;> rfl)
      | (rename_i w _ _; cases w <;> rfl)
      | (rename_i w _ _ _; cases w <;> rfl)))

theorem tauStep_of_step {s s' : State} {t : Nat} (hs : step s (.tau t) = some s') : tauStep s t = some s' := by
  simp only [step] at hs
  split at hs
  · simp at hs
  · exact hs

theorem solo_run_len (m : Int) (t : Nat) :
    ∀ (n : Nat) (s s' : State), (sys m).Reachable s → Solo s t →
      (sys m).run s (List.replicate n (.tau t)) = some s' →
      (okE s (s.pc t) → s'.q.length + pendE (s'.pc t) = s.q.length + pendE (s.pc t)) ∧
      (okD s (s.pc t) → s'.q.length + pendD (s.pc t) = s.q.length + pendD (s'.pc t)) := by
  intro n
  induction n with
  | zero =>
    intro s s' _ _ hrun
    simp [System.run] at hrun; subst hrun; exact ⟨fun _ => rfl, fun _ => rfl⟩
  | succ n ih =>
    intro s s' hr hsolo hrun
    simp only [List.replicate_succ, System.run] at hrun
    cases hs1 : (sys m).step s (.tau t) with
    | none => simp [hs1] at hrun
    | some s1 =>
      simp only [hs1] at hrun
      have hr1 : (sys m).Reachable s1 := @System.Reachable.step _ _ (sys m).toSystem s s1 (.tau t) hr hs1
      have hnp1 := (inv123_reachable m s1 hr1).2.1.noPanic
      have hts := tauStep_of_step (show step s (.tau t) = some s1 from hs1)
      obtain ⟨hsolo1, hE1, hD1⟩ := solo_step hsolo hnp1 hts
      obtain ⟨hcE, hcD, _⟩ := solo_len hsolo.2 hnp1 hts
      obtain ⟨iE, iD⟩ := ih s1 s' hr1 hsolo1 hrun
      exact ⟨fun h => by rw [iE (hE1 h), hcE h], fun h => by have a := iD (hD1 h); have b := hcD h; omega⟩

theorem history_replicate_tau (m : Int) (t n : Nat) :
    (sys m).history (List.replicate n (.tau t)) = [] := by
  induction n with
  | zero => rfl
  | succ n ih =>
    simp only [ObjSystem.history] at ih ⊢
    simp [List.replicate_succ, List.filterMap_cons, sys, obs, ih]

theorem inv_at_quiescence (s : State) (hq : ∀ u, s.pc u = .idle) (t : Nat) (op : Op) :
    ∃ s0, step s (.inv t op) = some s0 ∧ s0.pc t = start op ∧ s0.q = s.q ∧ s0.maxSize = s.maxSize ∧ Solo s0 t :=
  ⟨{ s with pc := upd s.pc t (start op), ctxDone := upd s.ctxDone t false, writes := upd s.writes t 0, live := t :: s.live },
    by simp [step, hq t], by simp, rfl, rfl, fun u hu => by simp [upd, hu, hq u], by simp⟩

theorem res_to_quiescence {s : State} {t : Nat} {r : Ret} (hsolo : Solo s t) (hp : s.pc t = .ret r) :
    ∃ s2, step s (.res t r) = some s2 ∧ (∀ u, s2.pc u = .idle) ∧ s2.q = s.q ∧ s2.maxSize = s.maxSize := by
  refine ⟨{ s with pc := upd s.pc t .idle, live := s.live.erase t }, by simp [step, hp], fun u => ?_, rfl, rfl⟩
  by_cases hu : u = t
  · subst hu; simp [upd]
  · simp [upd, hu, hsolo.1 u hu]

def fillHist (t : Nat) (vs : List Int) : List (Ev Op Ret) :=
  vs.flatMap fun v => [.inv t (.enq v), .res t .ok]

/-- room for `k` more elements: always when unbounded, `len + k ≤ maxSize` when bounded -/
def room (s : State) (k : Nat) : Prop := 0 < s.maxSize → (s.q.length : Int) + k ≤ s.maxSize

theorem not_full_of_room {s : State} {k : Nat} (h : room s (k + 1)) : full s = false := by
  simp only [full, Bool.and_eq_false_iff, decide_eq_false_iff_not]
  by_cases hm : 0 < s.maxSize
  · right; have := h hm; omega
  · left; exact hm

/-- **fill** (linked queue) -/
theorem fill (m : Int) (t : Nat) :
    ∀ (vs : List Int) (s : State), (sys m).Reachable s → (∀ u, s.pc u = .idle) → room s vs.length →
      ∃ ls s', (sys m).run s ls = some s' ∧ (sys m).Reachable s' ∧ (∀ u, s'.pc u = .idle) ∧
        s'.q.length = s.q.length + vs.length ∧ (sys m).history ls = fillHist t vs := by
  intro vs
  induction vs with
  | nil => intro s hr hq _; exact ⟨[], s, rfl, hr, hq, by simp, rfl⟩
  | cons v vs ih =>
    intro s hr hq hroom
    obtain ⟨s0, hs0, hp0, hq0, hm0, hsolo⟩ := inv_at_quiescence s hq t (.enq v)
    have hr0 : (sys m).Reachable s0 := @System.Reachable.step _ _ (sys m).toSystem s s0 (.inv t (.enq v)) hr hs0
    have hnf : full s = false := not_full_of_room (by simpa using hroom)
    have hok : okE s0 (s0.pc t) := by
      rw [hp0]; simp only [start, okE]; rw [full_congr hq0 hm0]; exact hnf
    obtain ⟨n, s1, hrun1, hr1, hsolo1, hres⟩ :=
      solo_completes m t 12 s0 hr0 hsolo (by simp [rank, hp0, start]) (Or.inl hok)
    have hp1 := hres.1 hok
    have hlen1 : s1.q.length = s.q.length + 1 := by
      have := (solo_run_len m t n s0 s1 hr0 hsolo hrun1).1 hok
      simp [hp1, hp0, start, pendE, hq0] at this; exact this
    have hm1 : s1.maxSize = s.maxSize := by
      rw [(inv123_reachable m s1 hr1).1.msz, (inv123_reachable m s hr).1.msz]
    obtain ⟨s2, hs2, hq2, hqq2, hm2⟩ := res_to_quiescence hsolo1 hp1
    have hr2 : (sys m).Reachable s2 := @System.Reachable.step _ _ (sys m).toSystem s1 s2 (.res t .ok) hr1 hs2
    have hroom2 : room s2 vs.length := by
      intro hpos
      rw [hm2, hm1] at hpos ⊢
      have := hroom hpos
      simp only [List.length_cons] at this
      rw [hqq2, hlen1]; push_cast; omega
    obtain ⟨ls2, s', hrun2, hr', hq', hlen', hhist2⟩ := ih s2 hr2 hq2 hroom2
    refine ⟨.inv t (.enq v) :: (List.replicate n (.tau t) ++ .res t .ok :: ls2), s', ?_, hr', hq', ?_, ?_⟩
    · have e0 : (sys m).step s (.inv t (.enq v)) = some s0 := hs0
      have e2 : (sys m).step s1 (.res t .ok) = some s2 := hs2
      simp only [System.run, e0]
      rw [System.run_append, hrun1]
      simp only [Option.bind, System.run, e2]
      exact hrun2
    · rw [hlen', hqq2, hlen1]; simp only [List.length_cons]; omega
    · have hh := history_replicate_tau m t n
      simp only [ObjSystem.history] at hh hhist2 ⊢
      simp only [List.filterMap_cons, List.filterMap_append, hh, hhist2, fillHist, List.flatMap_cons]
      simp [sys, obs]

/-- **drain** (linked queue) -/
theorem drain (m : Int) (t : Nat) :
    ∀ (k : Nat) (s : State), (sys m).Reachable s → (∀ u, s.pc u = .idle) → k ≤ s.q.length →
      ∃ (ls : List Label) (s' : State) (xs : List Int), (sys m).run s ls = some s' ∧ (sys m).Reachable s' ∧
        (∀ u, s'.pc u = .idle) ∧ s'.q.length + k = s.q.length ∧ xs.length = k ∧
        (sys m).history ls = xs.flatMap fun x => [.inv t .deq, .res t (.val x)] := by
  intro k
  induction k with
  | zero => intro s hr hq _; exact ⟨[], s, [], rfl, hr, hq, by simp, rfl, rfl⟩
  | succ k ih =>
    intro s hr hq hle
    obtain ⟨s0, hs0, hp0, hq0, _, hsolo⟩ := inv_at_quiescence s hq t .deq
    have hr0 : (sys m).Reachable s0 := @System.Reachable.step _ _ (sys m).toSystem s s0 (.inv t .deq) hr hs0
    have hne : s.q ≠ [] := by intro e; rw [e] at hle; simp at hle
    have hok : okD s0 (s0.pc t) := by rw [hp0]; simp only [start, okD]; rw [hq0]; exact hne
    obtain ⟨n, s1, hrun1, hr1, hsolo1, hres⟩ :=
      solo_completes m t 12 s0 hr0 hsolo (by simp [rank, hp0, start]) (Or.inr hok)
    obtain ⟨x, hp1⟩ := hres.2 hok
    have hlen1 : s1.q.length + 1 = s.q.length := by
      have := (solo_run_len m t n s0 s1 hr0 hsolo hrun1).2 hok
      simp [hp1, hp0, start, pendD, hq0] at this; exact this
    obtain ⟨s2, hs2, hq2, hqq2, _⟩ := res_to_quiescence hsolo1 hp1
    have hr2 : (sys m).Reachable s2 := @System.Reachable.step _ _ (sys m).toSystem s1 s2 (.res t (.val x)) hr1 hs2
    obtain ⟨ls2, s', xs, hrun2, hr', hq', hlen', hxl, hhist2⟩ := ih s2 hr2 hq2 (by rw [hqq2]; omega)
    refine ⟨.inv t .deq :: (List.replicate n (.tau t) ++ .res t (.val x) :: ls2), s', x :: xs, ?_, hr', hq', ?_, by simp [hxl], ?_⟩
    · have e0 : (sys m).step s (.inv t .deq) = some s0 := hs0
      have e2 : (sys m).step s1 (.res t (.val x)) = some s2 := hs2
      simp only [System.run, e0]
      rw [System.run_append, hrun1]
      simp only [Option.bind, System.run, e2]
      exact hrun2
    · rw [hqq2] at hlen'; omega
    · have hh := history_replicate_tau m t n
      simp only [ObjSystem.history] at hh hhist2 ⊢
      simp only [List.filterMap_cons, List.filterMap_append, hh, hhist2, List.flatMap_cons]
      simp [sys, obs]

end Ekit.LinkedBQ
