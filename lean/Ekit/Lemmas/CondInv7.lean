/- Preservation of the structural invariant of the Cond model, part 7: no fault, `L`, context. -/
import Ekit.Lemmas.CondInv2
namespace Ekit.Cond
open Ekit.Conc
variable {s s' : State} {l : Label}

theorem popOK_step (h : Inv s) (hs : step s l = some s') :
    ∀ t, (s'.pc t).popPc = true → s'.list ≠ [] := by
  have h1 := h.mutex; have h2 := h.popOK; have h3 := @popPc_inMu
  step_cases hs <;> intro u <;> simp only [upd_apply] <;> (repeat' split) <;>
    grind [Pc.inMu, Pc.popPc, bodyStart_popPc]

theorem lHeld_step (h : Inv s) (hs : step s l = some s') :
    ∀ t, (s'.pc t).needsL = true → s'.L = some t := by
  have h2 := h.lHeld
  step_cases hs <;> intro u <;> simp only [upd_apply] <;> (repeat' split) <;>
    grind [Pc.needsL, bodyStart_needsL]

theorem initOK_step (h : Inv s) (hs : step s l = some s') :
    ∀ t, (s'.pc t).pastInit = true → s'.inited = true := by
  have h2 := h.initOK
  step_cases hs <;> intro u <;> simp only [upd_apply] <;> (repeat' split) <;>
    grind [Pc.pastInit, bodyStart_pastInit]

theorem chkOK_step (h : Inv s) (hs : step s l = some s') :
    ∀ t k, s'.pc t = .ccLoad2 k → s'.checker = true := by
  have h2 := h.chkOK
  step_cases hs <;> intro u k <;> simp only [upd_apply] <;> (repeat' split) <;>
    grind [bodyStart_ne_ccLoad2]

theorem noFault_step (h : Inv s) (hs : step s l = some s') :
    ∀ t, (s'.pc t).isFault = false := by
  have h1 := h.mutex; have h2 := h.noFault; have h3 := h.popOK; have h4 := h.initOK
  have h5 := h.lHeld; have h6 := h.chkOK; have h7 := h.must; have h8 := h.inFull
  have h9 := tgt_eq s
  step_cases hs <;> intro u <;> simp only [upd_apply] <;> (repeat' split) <;>
    grind [Pc.inMu, Pc.isFault, bodyStart_isFault, Pc.popPc, Pc.pastInit, Pc.needsL, Pc.node,
      Pc.listPc, Pc.fullPc, Pc.target]

theorem ctxOK_step (h : Inv s) (hs : step s l = some s') :
    ∀ t, (s'.pc t).ctxArm = true → s'.ctx t = true := by
  have h2 := h.ctxOK
  step_cases hs <;> intro u <;> simp only [upd_apply] <;> (repeat' split) <;>
    grind [Pc.ctxArm, bodyStart_ctxArm]

theorem ctxRes_step (h : Inv s) (hs : step s l = some s') :
    ∀ t n r, s'.pc t = .wCtxUnlock n r → r = .ctxErr := by
  have h2 := h.ctxOK; have h3 := h.ctxRes
  step_cases hs <;> intro u n r <;> simp only [upd_apply] <;> (repeat' split) <;>
    grind [Pc.ctxArm, bodyStart_ne_wCtxUnlock]
end Ekit.Cond
