/-
Review addition (C09, linked queue / `cond`): the wake-up is **stable** and the closing chain is
**concrete**.

`no_lost_wakeup_*` say that in a reachable state a parked waiter whose wait condition is false has an
enabled `<-signal` arm, or a thread that owes the `close` / the swap has an enabled action.  For
"enabled ⇒ eventually taken" under weak fairness one also needs that the enabledness is not taken
away again by other threads.  Proved here, for arbitrary (not only reachable) states:

* `closed_mono`      — no step ever removes a channel from a `closed` list (a closed channel stays closed);
* `parked_enq_stable`/`parked_deq_stable` — a waiter parked on a closed channel stays parked on that
  closed channel under every step of every *other* thread (and under `ctxEnd` of its own context): only its
  own `tau` (wake-up) or `ctxArm` (cancellation) moves it;
* `closer_unlock_step`, `closer_close_step` — the thread that owes `close(g)` reaches it by its own next
  (always enabled, on reachable states) actions: `bcUnlock → bcClose → g ∈ closed`.
-/
import Ekit.Lemmas.LinkedBQLive
namespace Ekit.LinkedBQ
open Ekit.Conc Ekit.BQ
set_option linter.unusedSimpArgs false

theorem getCond_panic (s : State) (w : Which) : getCond (panic s) w = getCond s w := by cases w <;> rfl

theorem closed_setCond_cur (s : State) (w' w : Which) (c : Nat) (g : Nat)
    (hg : g ∈ (getCond s w).closed) :
    g ∈ (getCond (setCond s w' { getCond s w' with cur := c }) w).closed := by
  cases w <;> cases w' <;> simpa [getCond, setCond] using hg

theorem closed_setCond_cons (s : State) (w' w : Which) (x : Nat) (g : Nat)
    (hg : g ∈ (getCond s w).closed) :
    g ∈ (getCond (setCond s w' { getCond s w' with closed := x :: (getCond s w').closed }) w).closed := by
  cases w <;> cases w' <;> simp [getCond, setCond] at hg ⊢ <;> simp [hg]

/-- one action of `u`: the other program counters are untouched and closed channels stay closed -/
theorem tau_closed_mono {s s' : State} {u : Nat} (hs : tauStep s u = some s') :
    (∀ t, t ≠ u → s'.pc t = s.pc t) ∧ ∀ w g, g ∈ (getCond s w).closed → g ∈ (getCond s' w).closed := by
  unfold tauStep at hs
  cases hp : s.pc u <;> simp only [hp] at hs
  all_goals (try simp only [unlockTo, ll_append, ll_len, ll_asSlice] at hs)
  all_goals (try split at hs)
  all_goals (try split at hs)
  all_goals (try (simp at hs; done))
  all_goals (injection hs with hs; subst hs)
  all_goals (refine ⟨fun t ht => by simp [setPc, panic, upd, ht], fun w g hg => ?_⟩)
  all_goals (first
    | (simpa [getCond_panic] using hg)
    | (simp only [getCond_setPc]; exact closed_setCond_cur s _ w _ g hg)
    | (simp only [getCond_setPc]; exact closed_setCond_cons s _ w _ g hg)
    | (cases w <;> simpa [setPc, panic, getCond] using hg))

/-- **a closed channel stays closed**, under every label -/
theorem closed_mono {s s' : State} {l : Label} (hs : step s l = some s') (w : Which) (g : Nat)
    (hg : g ∈ (getCond s w).closed) : g ∈ (getCond s' w).closed := by
  cases l with
  | tau u =>
    simp only [step] at hs
    split at hs
    · simp at hs
    · exact (tau_closed_mono hs).2 w g hg
  | ctxEnd u =>
    simp only [step] at hs
    split at hs
    · injection hs with hs; subst hs; cases w <;> exact hg
    · simp at hs
  | ctxArm u =>
    simp only [step] at hs
    cases hp : s.pc u <;> simp only [hp] at hs <;> try (simp at hs; done)
    all_goals (split at hs <;> try (simp at hs; done))
    all_goals (injection hs with hs; subst hs; cases w <;> exact hg)
  | inv u op =>
    simp only [step] at hs
    split at hs
    · injection hs with hs; subst hs; cases w <;> exact hg
    · simp at hs
  | res u r =>
    simp only [step] at hs
    split at hs
    · injection hs with hs; subst hs; cases w <;> exact hg
    · simp at hs

/-- the program counter of a thread in a call changes only by its own `tau` / `ctxArm` / `res` -/
theorem pc_stable {s s' : State} {l : Label} (t : Nat) (hs : step s l = some s')
    (hidle : s.pc t ≠ .idle) (hret : ∀ r, s.pc t ≠ .ret r) :
    l = .tau t ∨ l = .ctxArm t ∨ s'.pc t = s.pc t := by
  cases l with
  | tau u =>
    by_cases hu : u = t
    · subst hu; exact Or.inl rfl
    · right; right
      simp only [step] at hs
      split at hs
      · simp at hs
      · exact (tau_closed_mono hs).1 t (fun e => hu e.symm)
  | ctxEnd u =>
    right; right
    simp only [step] at hs
    split at hs
    · injection hs with hs; subst hs; rfl
    · simp at hs
  | ctxArm u =>
    by_cases hu : u = t
    · subst hu; exact Or.inr (Or.inl rfl)
    · right; right
      simp only [step] at hs
      cases hp : s.pc u <;> simp only [hp] at hs <;> try (simp at hs; done)
      all_goals (split at hs <;> try (simp at hs; done))
      all_goals (injection hs with hs; subst hs; simp [setPc, upd, Ne.symm hu])
  | inv u op =>
    right; right
    simp only [step] at hs
    split at hs
    · rename_i hi
      injection hs with hs; subst hs
      have : t ≠ u := fun e => hidle (e ▸ hi)
      simp [upd, this]
    · simp at hs
  | res u r =>
    right; right
    simp only [step] at hs
    split at hs
    · rename_i hr
      injection hs with hs; subst hs
      have : t ≠ u := fun e => hret r (e ▸ hr)
      simp [upd, this]
    · simp at hs

/-- **the wake-up of a blocked Enqueue is stable**: parked on a closed channel, it stays parked on
    that closed channel until it takes the `<-signal` arm itself (or its own `ctx.Done()` arm). -/
theorem parked_enq_stable {s s' : State} {l : Label} (t : Nat) (v : Int) (g : Nat)
    (hp : s.pc t = .eSelect v g) (hc : g ∈ s.notFull.closed) (hs : step s l = some s') :
    l = .tau t ∨ l = .ctxArm t ∨ (s'.pc t = .eSelect v g ∧ g ∈ s'.notFull.closed) := by
  rcases pc_stable t hs (by simp [hp]) (by simp [hp]) with h | h | h
  · exact Or.inl h
  · exact Or.inr (Or.inl h)
  · exact Or.inr (Or.inr ⟨by rw [h, hp], closed_mono hs .notFull g hc⟩)

/-- the same for a blocked Dequeue -/
theorem parked_deq_stable {s s' : State} {l : Label} (t : Nat) (g : Nat)
    (hp : s.pc t = .dSelect g) (hc : g ∈ s.notEmpty.closed) (hs : step s l = some s') :
    l = .tau t ∨ l = .ctxArm t ∨ (s'.pc t = .dSelect g ∧ g ∈ s'.notEmpty.closed) := by
  rcases pc_stable t hs (by simp [hp]) (by simp [hp]) with h | h | h
  · exact Or.inl h
  · exact Or.inr (Or.inl h)
  · exact Or.inr (Or.inr ⟨by rw [h, hp], closed_mono hs .notEmpty g hc⟩)

/-- the pending swap / close duties are stable as well: nobody but the owner discharges them -/
theorem closer_stable {s s' : State} {l : Label} (u : Nat) (w : Which) (g : Nat)
    (hu : isCloser (s.pc u) w g = true) (hs : step s l = some s') :
    l = .tau u ∨ isCloser (s'.pc u) w g = true := by
  have hidle : s.pc u ≠ .idle := by intro e; simp [e, isCloser] at hu
  have hret : ∀ r, s.pc u ≠ .ret r := by intro r e; simp [e, isCloser] at hu
  rcases pc_stable u hs hidle hret with h | h | h
  · exact Or.inl h
  · subst h
    simp only [step] at hs
    cases hp : s.pc u <;> simp only [hp] at hs <;> simp [hp, isCloser] at hu <;> simp at hs
  · right; rw [h]; exact hu

/-- the closing chain, step 1: `broadcast`'s `Unlock` is enabled and leads to the `close` -/
theorem closer_unlock_step (m : Int) (s : State) (hr : (sys m).Reachable s) (u : Nat) (w : Which) (g : Nat) (r : Ret)
    (hp : s.pc u = .bcUnlock w g r) :
    ∃ s', step s (.tau u) = some s' ∧ s'.pc u = .bcClose w g r ∧ s'.writer = none ∧ s'.panicked = false := by
  obtain ⟨h, h2, _⟩ := inv123_reachable m s hr
  have hw := h.mutexW u (by simp [hp, inW])
  refine ⟨setPc { s with writer := none } u (.bcClose w g r), ?_, by simp [setPc], by simp [setPc], by simpa [setPc] using h2.noPanic⟩
  simp [step, h2.noPanic, tauStep, hp, unlockTo, hw]

/-- the closing chain, step 2: the `close` is enabled, does not panic, and closes exactly the
    channel the superseded waiters hold -/
theorem closer_close_step (m : Int) (s : State) (hr : (sys m).Reachable s) (u : Nat) (w : Which) (g : Nat) (r : Ret)
    (hp : s.pc u = .bcClose w g r) :
    ∃ s', step s (.tau u) = some s' ∧ s'.pc u = .ret r ∧ g ∈ (getCond s' w).closed ∧ s'.panicked = false := by
  obtain ⟨_, h2, _⟩ := inv123_reachable m s hr
  have hnc := (h2.closerOk u w g (by simp [hp, isCloser])).2
  refine ⟨setPc (setCond s w { getCond s w with closed := g :: (getCond s w).closed }) u (.ret r), ?_, by simp [setPc], ?_, ?_⟩
  · simp [step, h2.noPanic, tauStep, hp, hnc]
  · simp
  · simpa [setPc] using h2.noPanic

end Ekit.LinkedBQ
