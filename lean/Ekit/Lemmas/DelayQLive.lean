/-
C09 (DelayQueue share): the timer of a parked Dequeue is live; every reachable state satisfies all
C09 invariants; enabledness of every program point.
-/
import Ekit.Lemmas.DelayQWake2
import Ekit.Lemmas.DelayQInv

namespace Ekit.DelayQ
open Ekit.Conc

/-- a timer from which a tick will come: one is buffered, or the timer is armed -/
def timerLive : Option Timer → Bool
  | some ⟨a, b⟩ => b || a.isSome
  | none => false

/-- a Dequeue parked in the three-way select has a live timer -/
def TimerInv (s : State) : Prop := ∀ t g, s.pc t = .dWaitT g → timerLive (s.timer t) = true

theorem armTimer_live (d : Disc) (now dl : Nat) (o : Option Timer) : timerLive (some (armTimer d now dl o)) = true := by
  cases o <;> simp [armTimer, timerLive]

theorem timerInv_init : TimerInv init := by intro t g h; simp [init] at h

set_option maxHeartbeats 1000000 in
theorem timerInv_step (P : Params) (s : State) (l : Label) (s' : State)
    (hi : TimerInv s) (h : step P s l = some s') : TimerInv s' := by
  step_cases h <;> intro u g hu <;> dsimp only at hu ⊢ <;>
    first
    | exact hi u g hu
    | grind [upd, timerLive, armTimer, TimerInv]
    | (simp only [upd] at hu ⊢; split
       · exact armTimer_live _ _ _ _
       · rename_i hne; simp only [hne, if_false] at hu; exact hi u g hu)

structure Inv9 (P : Params) (s : State) : Prop extends Inv P s where
  gen : GenInv s
  wake : WakeInv s
  tmr : TimerInv s

theorem inv9_reachable (P : Params) : ∀ s, (sys P).Reachable s → Inv9 P s := by
  intro s hr
  have hb := inv_reachable P s hr
  suffices h : GenInv s ∧ WakeInv s ∧ TimerInv s from ⟨hb, h.1, h.2.1, h.2.2⟩
  induction hr with
  | init => exact ⟨genInv_init, wakeInv_init, timerInv_init⟩
  | step hr' hs ih =>
    rename_i s0 s1 l
    have hb0 := inv_reachable P s0 hr'
    have hs : step P s0 l = some s1 := hs
    obtain ⟨g, w, t⟩ := ih hb0
    exact ⟨genInv_step P s0 l s1 hb0.lock g hs, wakeInv_step P s0 l s1 hb0.lock g w hs,
      timerInv_step P s0 l s1 t hs⟩

end Ekit.DelayQ
