/-
The two rotations of the translated red-black tree satisfy contract K (pointer level).
-/
import Ekit.MiniGo.RBContract
namespace Ekit.MiniGo.RBHeap.Rot
open Ekit.MiniGo Ekit.Gen.RBTreeGo

/-! ### structural helpers on address trees -/

theorem repr_ne_of_not_mem {h : Nat → Node} {t : PT} {q par : Option Nat} {a : Nat}
    (hR : Repr h q par t) (ha : a ∉ t.addrs) : q ≠ some a := by
  intro e
  have := repr_ptr hR
  cases t with
  | leaf => simp [PT.ptr, e] at this
  | node _ x _ => simp [PT.ptr, e] at this; subst this; exact ha (by simp [PT.addrs])

theorem repr_frame {h h' : Nat → Node} {t : PT} {p par : Option Nat}
    (hs : ∀ a ∈ t.addrs, h' a = h a) (hR : Repr h p par t) : Repr h' p par t :=
  repr_congr (fun a ha => by rw [hs a ha]; exact ⟨rfl, rfl, rfl⟩) hR

theorem sub_nodup {t : PT} {a : Nat} {s : PT} (hnd : t.addrs.Nodup) (hs : t.sub a = some s) :
    s.addrs.Nodup := by
  induction t with
  | leaf => simp [PT.sub] at hs
  | node l b r ihl ihr =>
    have hnd' := hnd
    simp only [PT.addrs] at hnd'
    rw [List.nodup_append] at hnd'
    obtain ⟨ndl, ndr', _⟩ := hnd'
    rw [List.nodup_cons] at ndr'
    by_cases hab : a = b
    · simp [PT.sub, hab] at hs; subst hs; exact hnd
    · simp only [PT.sub, hab, if_false] at hs
      cases hl : l.sub a with
      | some s0 => simp [hl] at hs; subst hs; exact ihl ndl hl
      | none => simp [hl] at hs; exact ihr ndr'.2 hs

/-- the parent link of `a`: either `a` is the topmost node, or its parent is a node of the tree outside the
    subtree at `a`, exactly one of whose child pointers is `a` -/
theorem parOf_spec {h : Nat → Node} {t : PT} {a : Nat} {s : PT} : ∀ {q par}, Repr h q par t → t.addrs.Nodup →
    t.sub a = some s →
    (q = some a ∧ t.parOf par a = par) ∨
    (q ≠ some a ∧ ∃ p, t.parOf par a = some p ∧ p ∈ t.addrs ∧ p ∉ s.addrs ∧
      (((h p).left = some a ∧ (h p).right ≠ some a) ∨ ((h p).left ≠ some a ∧ (h p).right = some a))) := by
  induction t with
  | leaf => intro q par _ _ hs; simp [PT.sub] at hs
  | node l b r ihl ihr =>
    intro q par hR hnd hs
    simp only [Repr] at hR
    obtain ⟨h1, h2, h3, h4⟩ := hR
    have hnd' := hnd
    simp only [PT.addrs] at hnd'
    rw [List.nodup_append] at hnd'
    obtain ⟨ndl, ndr', hdisj⟩ := hnd'
    rw [List.nodup_cons] at ndr'
    obtain ⟨hbr, ndr⟩ := ndr'
    have hbl : b ∉ l.addrs := fun hb => hdisj b hb b (by simp) rfl
    by_cases hab : a = b
    · left; subst hab; exact ⟨h1, by simp [PT.parOf]⟩
    · right
      have hqa : q ≠ some a := by rw [h1]; intro e; exact hab (Option.some.inj e).symm
      refine ⟨hqa, ?_⟩
      simp only [PT.sub, hab, if_false] at hs
      cases hl : l.sub a with
      | some s0 =>
        simp [hl] at hs; subst hs
        have hsl := (sub_spec hl).2
        have hal := mem_of_sub hl
        have har : a ∉ r.addrs := fun ha => hdisj a hal a (by simp [ha]) rfl
        simp only [PT.parOf, hab, if_false, hl]
        rcases ihl h3 ndl hl with ⟨e1, e2⟩ | ⟨_, p, e1, e2, e3, e4⟩
        · exact ⟨b, e2, by simp [PT.addrs], fun hb => hbl (hsl b hb),
            .inl ⟨e1, repr_ne_of_not_mem h4 har⟩⟩
        · exact ⟨p, e1, by simp [PT.addrs, e2], e3, e4⟩
      | none =>
        simp [hl] at hs
        have hsr := (sub_spec hs).2
        have har := mem_of_sub hs
        have hal : a ∉ l.addrs := fun ha => hdisj a ha a (by simp [har]) rfl
        simp only [PT.parOf, hab, if_false, hl]
        rcases ihr h4 ndr hs with ⟨e1, e2⟩ | ⟨_, p, e1, e2, e3, e4⟩
        · exact ⟨b, e2, by simp [PT.addrs], fun hb => hbr (hsr b hb),
            .inr ⟨repr_ne_of_not_mem h3 hal, e1⟩⟩
        · exact ⟨p, e1, by simp [PT.addrs, e2], e3, e4⟩

/-- a child pointer of a node of the tree points to a node whose parent link is that node -/
theorem child_parent {h : Nat → Node} {t : PT} {q par : Option Nat} {x c : Nat} (hR : Repr h q par t)
    (hx : x ∈ t.addrs) (hc : (h x).left = some c ∨ (h x).right = some c) : (h c).parent = some x := by
  obtain ⟨sx, hsx⟩ := sub_some_of_mem hx
  obtain ⟨⟨L, R, rfl⟩, _⟩ := sub_spec hsx
  have hRx := repr_sub hR hsx
  simp only [Repr] at hRx
  obtain ⟨_, _, hL, hRr⟩ := hRx
  rcases hc with hc | hc
  · rw [hc] at hL
    cases L with
    | leaf => simp [Repr] at hL
    | node _ y _ => simp only [Repr] at hL; obtain ⟨e, hp, _⟩ := hL; cases e; exact hp
  · rw [hc] at hRr
    cases R with
    | leaf => simp [Repr] at hRr
    | node _ y _ => simp only [Repr] at hRr; obtain ⟨e, hp, _⟩ := hRr; cases e; exact hp

/-- replacing the subtree at `a` by one with the same in-order addresses keeps the in-order addresses -/
theorem addrs_replace {t : PT} {a : Nat} {s s' : PT} (hnd : t.addrs.Nodup) (hs : t.sub a = some s)
    (he : s'.addrs = s.addrs) : (t.replace a s').addrs = t.addrs := by
  induction t with
  | leaf => simp [PT.sub] at hs
  | node l b r ihl ihr =>
    have hnd' := hnd
    simp only [PT.addrs] at hnd'
    rw [List.nodup_append] at hnd'
    obtain ⟨ndl, ndr', hdisj⟩ := hnd'
    rw [List.nodup_cons] at ndr'
    by_cases hab : a = b
    · simp [PT.sub, hab] at hs; subst hs; simp [PT.replace, hab, he]
    · simp only [PT.sub, hab, if_false] at hs
      simp only [PT.replace, hab, if_false, PT.addrs]
      cases hl : l.sub a with
      | some s0 =>
        simp [hl] at hs; subst hs
        have har : a ∉ r.addrs := fun ha => hdisj a (mem_of_sub hl) a (by simp [ha]) rfl
        rw [ihl ndl hl, replace_of_not_mem har]
      | none =>
        simp [hl] at hs
        have hal : a ∉ l.addrs := fun ha => hdisj a ha a (by simp [mem_of_sub hs]) rfl
        rw [ihr ndr'.2 hs, replace_of_not_mem hal]

/-- what is known about an address `n` of a held tree: its subtree, and its parent -/
theorem rot_setup {h : Nat → Node} {q : Option Nat} {t : PT} {n : Nat} (hR : Repr h q none t)
    (hnd : t.addrs.Nodup) (hn : n ∈ t.addrs) :
    ∃ A R, t.sub n = some (.node A n R) ∧ (PT.node A n R).addrs.Nodup ∧
      (∀ x ∈ (PT.node A n R).addrs, x ∈ t.addrs) ∧
      Repr h (h n).left (some n) A ∧ Repr h (h n).right (some n) R ∧ t.parOf none n = (h n).parent ∧
      ((q = some n ∧ (h n).parent = none) ∨
       (q ≠ some n ∧ ∃ p, (h n).parent = some p ∧ p ∈ t.addrs ∧ p ∉ (PT.node A n R).addrs ∧
          (((h p).left = some n ∧ (h p).right ≠ some n) ∨ ((h p).left ≠ some n ∧ (h p).right = some n)))) := by
  obtain ⟨s, hs⟩ := sub_some_of_mem hn
  obtain ⟨⟨A, R, rfl⟩, hsub⟩ := sub_spec hs
  have hRs := repr_sub hR hs
  simp only [Repr] at hRs
  obtain ⟨_, hp, hA, hRr⟩ := hRs
  refine ⟨A, R, hs, sub_nodup hnd hs, hsub, hA, hRr, hp.symm, ?_⟩
  rcases parOf_spec hR hnd hs with ⟨e1, e2⟩ | ⟨e1, p, e2, e3, e4, e5⟩
  · left; exact ⟨e1, by rw [hp, e2]⟩
  · right; exact ⟨e1, p, by rw [hp, e2], e3, e4, e5⟩

/-! ### left rotation, heap level -/

/-- pointwise description of the heap after `rotateLeft(n)` with `r = n.right` -/
structure RotL (h h' : Nat → Node) (n r : Nat) : Prop where
  n_left : (h' n).left = (h n).left
  n_right : (h' n).right = (h r).left
  n_parent : (h' n).parent = some r
  r_left : (h' r).left = some n
  r_right : (h' r).right = (h r).right
  r_parent : (h' r).parent = (h n).parent
  b : ∀ b, (h r).left = some b →
    (h' b).left = (h b).left ∧ (h' b).right = (h b).right ∧ (h' b).parent = some n
  p : ∀ p, (h n).parent = some p → Redirected h h' n (some r) p
  other : ∀ x, x ≠ n → x ≠ r → (h r).left ≠ some x → (h n).parent ≠ some x → h' x = h x

theorem rotL_heap {h h' : Nat → Node} {q : Option Nat} {t : PT} {n r : Nat}
    (hR : Repr h q none t) (hnd : t.addrs.Nodup) (hn : n ∈ t.addrs) (hr : (h n).right = some r)
    (H : RotL h h' n r) :
    ∃ t', Repr h' (if (h n).parent = none then some r else q) none t' ∧ t'.addrs.Nodup ∧ t'.addrs = t.addrs := by
  obtain ⟨A, R, hs, hnds, hsub, hA, hRr, hpar, hdich⟩ := rot_setup hR hnd hn
  rw [hr] at hRr
  cases R with
  | leaf => simp [Repr] at hRr
  | node B r' C =>
  simp only [Repr] at hRr
  obtain ⟨e, hrp, hB, hC⟩ := hRr
  cases e
  have hbB : ∀ x, (h r).left = some x → x ∈ B.addrs := by
    intro x hx; rw [hx] at hB
    cases B with
    | leaf => simp [Repr] at hB
    | node _ y _ => simp only [Repr] at hB; obtain ⟨e, _⟩ := hB; cases e; simp [PT.addrs]
  have hpS : ∀ x, (h n).parent = some x → x ∉ (PT.node A n (.node B r C)).addrs := by
    intro x hx
    rcases hdich with ⟨_, e⟩ | ⟨_, p, e, _, e3, _⟩
    · rw [e] at hx; cases hx
    · rw [e] at hx; cases hx; exact e3
  simp only [PT.addrs] at hnds hpS hsub
  -- frame: nodes of the subtree other than n, r, b are untouched
  have hfr : ∀ x, x ∈ A.addrs ++ n :: (B.addrs ++ r :: C.addrs) → x ≠ n → x ≠ r → (h r).left ≠ some x →
      h' x = h x := fun x hx h1 h2 h3 => H.other x h1 h2 h3 (fun e => hpS x e hx)
  let s' : PT := .node (.node A n B) r C
  have hs'addrs : s'.addrs = (PT.node A n (.node B r C)).addrs := by simp [s', PT.addrs]
  refine ⟨t.replace n s', ?_, ?_, ?_⟩
  · have hrep := repr_replace (h' := h') (s' := s') hR hnd hs ?_ ?_
    · have : (q = some n) ↔ ((h n).parent = none) := by
        rcases hdich with ⟨e1, e2⟩ | ⟨e1, p, e2, _⟩
        · simp [e1, e2]
        · simp [e1, e2]
      simpa only [this, s', PT.ptr] using hrep
    · -- the rotated subtree is represented
      rw [hpar]
      simp only [s', PT.ptr, Repr]
      refine ⟨trivial, H.r_parent, ?_, ?_⟩
      · rw [H.r_left]
        refine ⟨rfl, H.n_parent, ?_, ?_⟩
        · rw [H.n_left]
          refine repr_frame (fun x hx => hfr x (by simp [hx]) ?_ ?_ ?_) hA
          · grind [List.nodup_append, List.nodup_cons]
          · grind [List.nodup_append, List.nodup_cons]
          · intro e; have := hbB x e; grind [List.nodup_append, List.nodup_cons]
        · rw [H.n_right]
          cases B with
          | leaf => simpa [Repr] using hB
          | node Bl b Br =>
            simp only [Repr] at hB ⊢
            obtain ⟨e1, _, hBl, hBr⟩ := hB
            obtain ⟨b1, b2, b3⟩ := H.b b e1
            simp only [PT.addrs] at hnds hfr
            refine ⟨e1, b3, ?_, ?_⟩
            · rw [b1]
              refine repr_frame (fun x hx => hfr x (by simp [hx]) ?_ ?_ ?_) hBl
              · grind [List.nodup_append, List.nodup_cons]
              · grind [List.nodup_append, List.nodup_cons]
              · rw [e1]; grind [List.nodup_append, List.nodup_cons]
            · rw [b2]
              refine repr_frame (fun x hx => hfr x (by simp [hx]) ?_ ?_ ?_) hBr
              · grind [List.nodup_append, List.nodup_cons]
              · grind [List.nodup_append, List.nodup_cons]
              · rw [e1]; grind [List.nodup_append, List.nodup_cons]
      · rw [H.r_right]
        refine repr_frame (fun x hx => hfr x (by simp [hx]) ?_ ?_ ?_) hC
        · grind [List.nodup_append, List.nodup_cons]
        · grind [List.nodup_append, List.nodup_cons]
        · intro e; have := hbB x e; grind [List.nodup_append, List.nodup_cons]
    · -- the rest of the tree is redirected
      intro x hx hxs
      simp only [s', PT.ptr]
      by_cases hxp : (h n).parent = some x
      · exact H.p x hxp
      · have hxe : h' x = h x := by
          refine H.other x ?_ ?_ ?_ hxp
          · intro e; exact hxs (by simp [PT.addrs, e])
          · intro e; exact hxs (by simp [PT.addrs, e])
          · intro e; exact hxs (by have := hbB x e; simp [PT.addrs, this])
        have h1 : (h x).left ≠ some n := fun e => hxp (child_parent hR hx (.inl e))
        have h2 : (h x).right ≠ some n := fun e => hxp (child_parent hR hx (.inr e))
        simp [Redirected, hxe, h1, h2]
  · exact nodup_replace hnd hs (by rw [hs'addrs]; simpa [PT.addrs] using hnds)
      (fun x hx => .inl (by rw [← hs'addrs]; exact hx))
  · exact addrs_replace hnd hs hs'addrs

/-! ### symbolic execution, generic in the side -/

def getP (nd : Node) : Fld → Option Nat
  | .left => nd.left
  | .right => nd.right
  | .parent => nd.parent
  | _ => none

def setP (nd : Node) : Fld → Option Nat → Node
  | .left, p => { nd with left := p }
  | .right, p => { nd with right := p }
  | .parent, p => { nd with parent := p }
  | _, _ => nd

/-- the part of a rotation after the guard; `f = right, g = left` for `rotateLeft` -/
def rotRest (f g : Fld) : Stmt PName :=
    (.seq (.assign 1 (.field (.var 0) f))
    (.seq (.setField (.var 0) f (.field (.var 1) g))
    (.seq (.ite (.ne (.field (.var 1) g) .nil)
    (.setField (.field (.var 1) g) .parent (.var 0))
    .skip)
    (.seq (.setField (.var 1) .parent (.field (.var 0) .parent))
    (.seq (.ite (.eq (.field (.var 0) .parent) .nil)
    (.setRoot (.var 1))
    (.ite (.eq (.field (.field (.var 0) .parent) g) (.var 0))
    (.setField (.field (.var 0) .parent) g (.var 1))
    (.setField (.field (.var 0) .parent) f (.var 1))))
    (.seq (.setField (.var 1) g (.var 0))
    (.setField (.var 0) .parent (.var 1))))))))

def rotBody (f g : Fld) (getF : PName) : Stmt PName :=
  (.seq (.ite (.or (.eq (.var 0) .nil) (.eq (.call1 getF (.var 0)) .nil))
    (.ret .unit)
    .skip)
    (rotRest f g))

theorem body_rotateLeft_eq : body_rotateLeft = rotBody .right .left .getRight := rfl
theorem body_rotateRight_eq : body_rotateRight = rotBody .left .right .getLeft := rfl

def Sides (f g : Fld) : Prop := (f = .right ∧ g = .left) ∨ (f = .left ∧ g = .right)

def stB (f g : Fld) (st : St) (n r : Nat) : St :=
  { st with h := upd st.h n (setP (st.h n) f (getP (st.h r) g)) }
def stC (g : Fld) (st : St) (n r : Nat) : St :=
  match getP (st.h r) g with
  | some b => { st with h := upd st.h b (setP (st.h b) .parent (some n)) }
  | none => st
def stD (st : St) (n r : Nat) : St :=
  { st with h := upd st.h r (setP (st.h r) .parent (st.h n).parent) }
def stE (f g : Fld) (st : St) (n r : Nat) : St :=
  match (st.h n).parent with
  | none => { st with root := some r }
  | some p =>
    if getP (st.h p) g = some n then { st with h := upd st.h p (setP (st.h p) g (some r)) }
    else { st with h := upd st.h p (setP (st.h p) f (some r)) }
def stF (g : Fld) (st : St) (n r : Nat) : St :=
  { st with h := upd st.h r (setP (st.h r) g (some n)) }
def stG (st : St) (n r : Nat) : St :=
  { st with h := upd st.h n (setP (st.h n) .parent (some r)) }

def rotSt (f g : Fld) (st : St) (n r : Nat) : St :=
  stG (stF g (stE f g (stD (stC g (stB f g st n r) n r) n r) n r) n r) n r

theorem key_upd_setP (h : Nat → Node) (a : Nat) (f : Fld) (p : Option Nat) (x : Nat) :
    ((upd h a (setP (h a) f p)) x).key = (h x).key := by
  unfold upd
  split
  · next e => subst e; cases f <;> rfl
  · rfl

/-- a rotation writes no key field -/
theorem rotSt_key (f g : Fld) (st : St) (n r : Nat) (x : Nat) :
    ((rotSt f g st n r).h x).key = (st.h x).key := by
  have kB : ∀ (st : St) x, ((stB f g st n r).h x).key = (st.h x).key := fun st x => key_upd_setP _ _ _ _ _
  have kC : ∀ (st : St) x, ((stC g st n r).h x).key = (st.h x).key := by
    intro st x; unfold stC; split
    · exact key_upd_setP _ _ _ _ _
    · rfl
  have kD : ∀ (st : St) x, ((stD st n r).h x).key = (st.h x).key := fun st x => key_upd_setP _ _ _ _ _
  have kE : ∀ (st : St) x, ((stE f g st n r).h x).key = (st.h x).key := by
    intro st x; unfold stE; split
    · rfl
    · split
      · exact key_upd_setP _ _ _ _ _
      · exact key_upd_setP _ _ _ _ _
  have kF : ∀ (st : St) x, ((stF g st n r).h x).key = (st.h x).key := fun st x => key_upd_setP _ _ _ _ _
  have kG : ∀ (st : St) x, ((stG st n r).h x).key = (st.h x).key := fun st x => key_upd_setP _ _ _ _ _
  unfold rotSt
  rw [kG, kF, kE, kD, kC, kB]

section
variable (cmpF : Int → Int → Int) (callH : CallH PName) (lf : Nat)

theorem exec_seq_normal {ρ ρ1 : Env} {st st1 : St} {a b : Stmt PName}
    (h : exec cmpF callH lf ρ st a = .ok (.normal, ρ1, st1)) :
    exec cmpF callH lf ρ st (.seq a b) = exec cmpF callH lf ρ1 st1 b := by
  simp [exec, h]

theorem exec_seq_error {ρ : Env} {st : St} {a b : Stmt PName} {e : Fail}
    (h : exec cmpF callH lf ρ st a = .error e) :
    exec cmpF callH lf ρ st (.seq a b) = .error e := by
  simp [exec, h]

variable {f g : Fld} {ρ : Env} {n r : Nat} (st : St)

theorem exec_A (hfg : Sides f g) (h0 : ρ 0 = .ptr (some n)) :
    exec cmpF callH lf ρ st (.assign 1 (.field (.var 0) f))
      = .ok (.normal, ρ.set 1 (.ptr (getP (st.h n) f)), st) := by
  rcases hfg with ⟨rfl, rfl⟩ | ⟨rfl, rfl⟩ <;> simp [exec, evalE, h0, Node.get, getP]

theorem exec_B_nil (h0 : ρ 0 = .ptr (some n)) (h1 : ρ 1 = .ptr none) :
    exec cmpF callH lf ρ st (.setField (.var 0) f (.field (.var 1) g)) = .error .panic := by
  simp [exec, evalE, h0, h1]

theorem exec_B (hfg : Sides f g) (h0 : ρ 0 = .ptr (some n)) (h1 : ρ 1 = .ptr (some r)) :
    exec cmpF callH lf ρ st (.setField (.var 0) f (.field (.var 1) g))
      = .ok (.normal, ρ, stB f g st n r) := by
  rcases hfg with ⟨rfl, rfl⟩ | ⟨rfl, rfl⟩ <;> simp [exec, evalE, h0, h1, Node.get, Node.set, getP, setP, stB]

theorem exec_C (hfg : Sides f g) (h0 : ρ 0 = .ptr (some n)) (h1 : ρ 1 = .ptr (some r)) :
    exec cmpF callH lf ρ st (.ite (.ne (.field (.var 1) g) .nil)
        (.setField (.field (.var 1) g) .parent (.var 0)) .skip)
      = .ok (.normal, ρ, stC g st n r) := by
  rcases hfg with ⟨rfl, rfl⟩ | ⟨rfl, rfl⟩
  · cases hb : (st.h r).left <;>
      simp [exec, evalE, h0, h1, Node.get, Node.set, getP, setP, stC, valEq, hb]
  · cases hb : (st.h r).right <;>
      simp [exec, evalE, h0, h1, Node.get, Node.set, getP, setP, stC, valEq, hb]

theorem exec_D (h0 : ρ 0 = .ptr (some n)) (h1 : ρ 1 = .ptr (some r)) :
    exec cmpF callH lf ρ st (.setField (.var 1) .parent (.field (.var 0) .parent))
      = .ok (.normal, ρ, stD st n r) := by
  simp [exec, evalE, h0, h1, Node.get, Node.set, setP, stD]

theorem exec_E (hfg : Sides f g) (h0 : ρ 0 = .ptr (some n)) (h1 : ρ 1 = .ptr (some r)) :
    exec cmpF callH lf ρ st (.ite (.eq (.field (.var 0) .parent) .nil)
        (.setRoot (.var 1))
        (.ite (.eq (.field (.field (.var 0) .parent) g) (.var 0))
          (.setField (.field (.var 0) .parent) g (.var 1))
          (.setField (.field (.var 0) .parent) f (.var 1))))
      = .ok (.normal, ρ, stE f g st n r) := by
  rcases hfg with ⟨rfl, rfl⟩ | ⟨rfl, rfl⟩
  · cases hp : (st.h n).parent with
    | none => simp [exec, evalE, h0, h1, Node.get, valEq, stE, hp]
    | some p =>
      by_cases hc : (st.h p).left = some n
      · simp [exec, evalE, h0, h1, Node.get, Node.set, getP, setP, valEq, stE, hp, hc]
      · have hc' : ((st.h p).left == some n) = false := by simpa using hc
        simp [exec, evalE, h0, h1, Node.get, Node.set, getP, setP, valEq, stE, hp, hc, hc']
  · cases hp : (st.h n).parent with
    | none => simp [exec, evalE, h0, h1, Node.get, valEq, stE, hp]
    | some p =>
      by_cases hc : (st.h p).right = some n
      · simp [exec, evalE, h0, h1, Node.get, Node.set, getP, setP, valEq, stE, hp, hc]
      · have hc' : ((st.h p).right == some n) = false := by simpa using hc
        simp [exec, evalE, h0, h1, Node.get, Node.set, getP, setP, valEq, stE, hp, hc, hc']

theorem exec_F (hfg : Sides f g) (h0 : ρ 0 = .ptr (some n)) (h1 : ρ 1 = .ptr (some r)) :
    exec cmpF callH lf ρ st (.setField (.var 1) g (.var 0))
      = .ok (.normal, ρ, stF g st n r) := by
  rcases hfg with ⟨rfl, rfl⟩ | ⟨rfl, rfl⟩ <;> simp [exec, evalE, h0, h1, Node.set, setP, stF]

theorem exec_G (h0 : ρ 0 = .ptr (some n)) (h1 : ρ 1 = .ptr (some r)) :
    exec cmpF callH lf ρ st (.setField (.var 0) .parent (.var 1))
      = .ok (.normal, ρ, stG st n r) := by
  simp [exec, evalE, h0, h1, Node.set, setP, stG]

theorem exec_rotRest (hfg : Sides f g) (h0 : ρ 0 = .ptr (some n)) {res}
    (h : exec cmpF callH lf ρ st (rotRest f g) = .ok res) :
    ∃ r ρ', getP (st.h n) f = some r ∧ res = (.normal, ρ', rotSt f g st n r) := by
  unfold rotRest at h
  rw [exec_seq_normal _ _ _ (exec_A cmpF callH lf st hfg h0)] at h
  have h0' : (ρ.set 1 (.ptr (getP (st.h n) f))) 0 = .ptr (some n) := by simp [Env.set, h0]
  cases hr : getP (st.h n) f with
  | none =>
    have h1' : (ρ.set 1 (.ptr (getP (st.h n) f))) 1 = .ptr none := by simp [Env.set, hr]
    rw [exec_seq_error _ _ _ (exec_B_nil cmpF callH lf st h0' h1')] at h
    cases h
  | some r =>
    have h1' : (ρ.set 1 (.ptr (getP (st.h n) f))) 1 = .ptr (some r) := by simp [Env.set, hr]
    rw [exec_seq_normal _ _ _ (exec_B cmpF callH lf st hfg h0' h1'),
      exec_seq_normal _ _ _ (exec_C cmpF callH lf _ hfg h0' h1'),
      exec_seq_normal _ _ _ (exec_D cmpF callH lf _ h0' h1'),
      exec_seq_normal _ _ _ (exec_E cmpF callH lf _ hfg h0' h1'),
      exec_seq_normal _ _ _ (exec_F cmpF callH lf _ hfg h0' h1'),
      exec_G cmpF callH lf _ h0' h1'] at h
    cases h
    exact ⟨r, _, rfl, rfl⟩

theorem exec_rotRest_err {f g : Fld} {ρ : Env} {c : Nat} (st : St) (h0 : ρ 0 = .err c) :
    exec cmpF callH lf ρ st (rotRest f g) = .error .stuck := by
  simp [rotRest, exec, evalE, h0]

theorem run_rotBody {f g : Fld} (hfg : Sides f g) (getF : PName) {args : List Val} {st st' : St} {v : Val}
    (h : runBody cmpF callH lf ⟨1, rotBody f g getF⟩ args st = .ok (v, st')) :
    v = .unit ∧ (st' = st ∨ ∃ v1 st1, callH getF [Env.ofArgs args 0] st = .ok (v1, st1) ∧
      (st' = st1 ∨ ∃ n r, Env.ofArgs args 0 = .ptr (some n) ∧ getP (st1.h n) f = some r ∧
        st' = rotSt f g st1 n r)) := by
  simp only [runBody, rotBody, exec, evalE] at h
  cases hv : Env.ofArgs args 0 with
  | ptr p =>
    cases p with
    | none =>
      simp [hv, valEq] at h
      exact ⟨h.1.symm, .inl h.2.symm⟩
    | some n =>
      have e1 : valEq (.ptr (some n)) (.ptr none) = some false := by simp [valEq]
      simp only [hv] at h
      cases hc : callH getF [.ptr (some n)] st with
      | error e => simp [hc, e1] at h
      | ok r1 =>
        obtain ⟨v1, st1⟩ := r1
        cases hq : valEq v1 (.ptr none) with
        | none => simp [hc, hq, e1] at h
        | some b =>
          cases b with
          | true =>
            simp [hc, hq, e1] at h
            exact ⟨h.1.symm, .inr ⟨v1, st1, rfl, .inl h.2.symm⟩⟩
          | false =>
            simp [hc, hq, e1] at h
            cases he : exec cmpF callH lf (Env.ofArgs args) st1 (rotRest f g) with
            | error e => simp [he] at h
            | ok res =>
              obtain ⟨r, ρ', hr, rfl⟩ := exec_rotRest cmpF callH lf st1 hfg hv he
              simp [he] at h
              exact ⟨h.1.symm, .inr ⟨v1, st1, rfl, .inr ⟨n, r, rfl, hr, h.2.symm⟩⟩⟩
  | err c =>
    have e1 : valEq (.err c) (.ptr none) = some false := by simp [valEq]
    simp only [hv] at h
    cases hc : callH getF [.err c] st with
    | error e => simp [hc, e1] at h
    | ok r1 =>
      obtain ⟨v1, st1⟩ := r1
      cases hq : valEq v1 (.ptr none) with
      | none => simp [hc, hq, e1] at h
      | some b =>
        cases b with
        | true =>
          simp [hc, hq, e1] at h
          exact ⟨h.1.symm, .inr ⟨v1, st1, rfl, .inl h.2.symm⟩⟩
        | false =>
          simp [hc, hq, e1, exec_rotRest_err cmpF callH lf st1 hv] at h
  | int i => simp [hv, valEq] at h
  | bool b => simp [hv, valEq] at h
  | unit => simp [hv, valEq] at h
  | pair a b => simp [hv, valEq] at h

end

theorem rotL_distinct {h : Nat → Node} {q : Option Nat} {t : PT} {n r : Nat}
    (hR : Repr h q none t) (hnd : t.addrs.Nodup) (hn : n ∈ t.addrs) (hr : (h n).right = some r) :
    n ≠ r ∧ (∀ b, (h r).left = some b → b ≠ n ∧ b ≠ r) ∧
    (∀ p, (h n).parent = some p → p ≠ n ∧ p ≠ r ∧ (h r).left ≠ some p ∧
      (((h p).left = some n ∧ (h p).right ≠ some n) ∨ ((h p).left ≠ some n ∧ (h p).right = some n))) := by
  obtain ⟨A, R, hs, hnds, hsub, hA, hRr, hpar, hdich⟩ := rot_setup hR hnd hn
  rw [hr] at hRr
  cases R with
  | leaf => simp [Repr] at hRr
  | node B r' C =>
  simp only [Repr] at hRr
  obtain ⟨e, hrp, hB, hC⟩ := hRr
  cases e
  have hbB : ∀ x, (h r).left = some x → x ∈ B.addrs := by
    intro x hx; rw [hx] at hB
    cases B with
    | leaf => simp [Repr] at hB
    | node _ y _ => simp only [Repr] at hB; obtain ⟨e, _⟩ := hB; cases e; simp [PT.addrs]
  simp only [PT.addrs] at hnds hdich
  refine ⟨?_, ?_, ?_⟩
  · grind [List.nodup_append, List.nodup_cons]
  · intro b hb; have := hbB b hb; grind [List.nodup_append, List.nodup_cons]
  · intro p hp
    rcases hdich with ⟨_, e⟩ | ⟨_, p', e, _, e3, e4⟩
    · rw [e] at hp; cases hp
    · rw [e] at hp; cases hp
      refine ⟨?_, ?_, ?_, e4⟩
      · intro e; apply e3; simp [e]
      · intro e; apply e3; simp [e]
      · intro e; apply e3; have := hbB _ e; simp [this]

/-- unfold the explicit final state and decide all address comparisons from the hypotheses -/
macro "rot_unfold" : tactic =>
  `(tactic| simp_all [rotSt, stB, stC, stD, stE, stF, stG, getP, setP, upd, Redirected])

theorem rotL_explicit {q : Option Nat} {t : PT} {n r : Nat} (st : St)
    (hR : Repr st.h q none t) (hnd : t.addrs.Nodup) (hn : n ∈ t.addrs) (hr : (st.h n).right = some r) :
    RotL st.h (rotSt .right .left st n r).h n r ∧
    (rotSt .right .left st n r).root = (if (st.h n).parent = none then some r else st.root) ∧
    (rotSt .right .left st n r).alloc = st.alloc ∧ (rotSt .right .left st n r).size = st.size := by
  obtain ⟨hnr, hb, hp⟩ := rotL_distinct hR hnd hn hr
  have hrn := hnr.symm
  cases eb : (st.h r).left with
  | none =>
    cases ep : (st.h n).parent with
    | none =>
      refine ⟨?_, ?_, ?_, ?_⟩
      · constructor <;> intros <;> rot_unfold <;> grind
      all_goals rot_unfold
    | some p =>
      obtain ⟨hpn, hpr, hpb, hpc⟩ := hp p ep
      have hnp := hpn.symm
      have hrp := hpr.symm
      rcases hpc with ⟨hc1, hc2⟩ | ⟨hc1, hc2⟩
      · refine ⟨?_, ?_, ?_, ?_⟩
        · constructor <;> intros <;> rot_unfold <;> grind
        all_goals rot_unfold
      · refine ⟨?_, ?_, ?_, ?_⟩
        · constructor <;> intros <;> rot_unfold <;> grind
        all_goals rot_unfold
  | some b =>
    obtain ⟨hbn, hbr⟩ := hb b eb
    have hnb := hbn.symm
    have hrb := hbr.symm
    cases ep : (st.h n).parent with
    | none =>
      refine ⟨?_, ?_, ?_, ?_⟩
      · constructor <;> intros <;> rot_unfold <;> grind
      all_goals rot_unfold
    | some p =>
      obtain ⟨hpn, hpr, hpb, hpc⟩ := hp p ep
      have hnp := hpn.symm
      have hrp := hpr.symm
      have hbp : b ≠ p := by intro e; apply hpb; rw [eb, e]
      have hpb' := hbp.symm
      rcases hpc with ⟨hc1, hc2⟩ | ⟨hc1, hc2⟩
      · refine ⟨?_, ?_, ?_, ?_⟩
        · constructor <;> intros <;> rot_unfold <;> grind
        all_goals rot_unfold
      · refine ⟨?_, ?_, ?_, ?_⟩
        · constructor <;> intros <;> rot_unfold <;> grind
        all_goals rot_unfold

/-! ### right rotation, heap level (mirror image) -/

/-- pointwise description of the heap after `rotateRight(n)` with `l = n.left` -/
structure RotR (h h' : Nat → Node) (n l : Nat) : Prop where
  n_right : (h' n).right = (h n).right
  n_left : (h' n).left = (h l).right
  n_parent : (h' n).parent = some l
  l_right : (h' l).right = some n
  l_left : (h' l).left = (h l).left
  l_parent : (h' l).parent = (h n).parent
  b : ∀ b, (h l).right = some b →
    (h' b).left = (h b).left ∧ (h' b).right = (h b).right ∧ (h' b).parent = some n
  p : ∀ p, (h n).parent = some p → Redirected h h' n (some l) p
  other : ∀ x, x ≠ n → x ≠ l → (h l).right ≠ some x → (h n).parent ≠ some x → h' x = h x

theorem rotR_heap {h h' : Nat → Node} {q : Option Nat} {t : PT} {n l : Nat}
    (hR : Repr h q none t) (hnd : t.addrs.Nodup) (hn : n ∈ t.addrs) (hl : (h n).left = some l)
    (H : RotR h h' n l) :
    ∃ t', Repr h' (if (h n).parent = none then some l else q) none t' ∧ t'.addrs.Nodup ∧ t'.addrs = t.addrs := by
  obtain ⟨A, C, hs, hnds, hsub, hA, hC, hpar, hdich⟩ := rot_setup hR hnd hn
  rw [hl] at hA
  cases A with
  | leaf => simp [Repr] at hA
  | node A1 l' B =>
  simp only [Repr] at hA
  obtain ⟨e, hlp, hA1, hB⟩ := hA
  cases e
  have hbB : ∀ x, (h l).right = some x → x ∈ B.addrs := by
    intro x hx; rw [hx] at hB
    cases B with
    | leaf => simp [Repr] at hB
    | node _ y _ => simp only [Repr] at hB; obtain ⟨e, _⟩ := hB; cases e; simp [PT.addrs]
  have hpS : ∀ x, (h n).parent = some x → x ∉ (PT.node (.node A1 l B) n C).addrs := by
    intro x hx
    rcases hdich with ⟨_, e⟩ | ⟨_, p, e, _, e3, _⟩
    · rw [e] at hx; cases hx
    · rw [e] at hx; cases hx; exact e3
  simp only [PT.addrs] at hnds hpS hsub
  have hfr : ∀ x, x ∈ (A1.addrs ++ l :: B.addrs) ++ n :: C.addrs → x ≠ n → x ≠ l → (h l).right ≠ some x →
      h' x = h x := fun x hx h1 h2 h3 => H.other x h1 h2 h3 (fun e => hpS x e hx)
  let s' : PT := .node A1 l (.node B n C)
  have hs'addrs : s'.addrs = (PT.node (.node A1 l B) n C).addrs := by simp [s', PT.addrs]
  refine ⟨t.replace n s', ?_, ?_, ?_⟩
  · have hrep := repr_replace (h' := h') (s' := s') hR hnd hs ?_ ?_
    · have : (q = some n) ↔ ((h n).parent = none) := by
        rcases hdich with ⟨e1, e2⟩ | ⟨e1, p, e2, _⟩
        · simp [e1, e2]
        · simp [e1, e2]
      simpa only [this, s', PT.ptr] using hrep
    · rw [hpar]
      simp only [s', PT.ptr, Repr]
      refine ⟨trivial, H.l_parent, ?_, ?_⟩
      · rw [H.l_left]
        refine repr_frame (fun x hx => hfr x (by simp [hx]) ?_ ?_ ?_) hA1
        · grind [List.nodup_append, List.nodup_cons]
        · grind [List.nodup_append, List.nodup_cons]
        · intro e; have := hbB x e; grind [List.nodup_append, List.nodup_cons]
      · rw [H.l_right]
        refine ⟨rfl, H.n_parent, ?_, ?_⟩
        · rw [H.n_left]
          cases B with
          | leaf => simpa [Repr] using hB
          | node Bl b Br =>
            simp only [Repr] at hB ⊢
            obtain ⟨e1, _, hBl, hBr⟩ := hB
            obtain ⟨b1, b2, b3⟩ := H.b b e1
            simp only [PT.addrs] at hnds hfr
            refine ⟨e1, b3, ?_, ?_⟩
            · rw [b1]
              refine repr_frame (fun x hx => hfr x (by simp [hx]) ?_ ?_ ?_) hBl
              · grind [List.nodup_append, List.nodup_cons]
              · grind [List.nodup_append, List.nodup_cons]
              · rw [e1]; grind [List.nodup_append, List.nodup_cons]
            · rw [b2]
              refine repr_frame (fun x hx => hfr x (by simp [hx]) ?_ ?_ ?_) hBr
              · grind [List.nodup_append, List.nodup_cons]
              · grind [List.nodup_append, List.nodup_cons]
              · rw [e1]; grind [List.nodup_append, List.nodup_cons]
        · rw [H.n_right]
          refine repr_frame (fun x hx => hfr x (by simp [hx]) ?_ ?_ ?_) hC
          · grind [List.nodup_append, List.nodup_cons]
          · grind [List.nodup_append, List.nodup_cons]
          · intro e; have := hbB x e; grind [List.nodup_append, List.nodup_cons]
    · intro x hx hxs
      simp only [s', PT.ptr]
      by_cases hxp : (h n).parent = some x
      · exact H.p x hxp
      · have hxe : h' x = h x := by
          refine H.other x ?_ ?_ ?_ hxp
          · intro e; exact hxs (by simp [PT.addrs, e])
          · intro e; exact hxs (by simp [PT.addrs, e])
          · intro e; exact hxs (by have := hbB x e; simp [PT.addrs, this])
        have h1 : (h x).left ≠ some n := fun e => hxp (child_parent hR hx (.inl e))
        have h2 : (h x).right ≠ some n := fun e => hxp (child_parent hR hx (.inr e))
        simp [Redirected, hxe, h1, h2]
  · exact nodup_replace hnd hs (by rw [hs'addrs]; simpa [PT.addrs] using hnds)
      (fun x hx => .inl (by rw [← hs'addrs]; exact hx))
  · exact addrs_replace hnd hs hs'addrs

theorem rotR_distinct {h : Nat → Node} {q : Option Nat} {t : PT} {n l : Nat}
    (hR : Repr h q none t) (hnd : t.addrs.Nodup) (hn : n ∈ t.addrs) (hl : (h n).left = some l) :
    n ≠ l ∧ (∀ b, (h l).right = some b → b ≠ n ∧ b ≠ l) ∧
    (∀ p, (h n).parent = some p → p ≠ n ∧ p ≠ l ∧ (h l).right ≠ some p ∧
      (((h p).left = some n ∧ (h p).right ≠ some n) ∨ ((h p).left ≠ some n ∧ (h p).right = some n))) := by
  obtain ⟨A, C, hs, hnds, hsub, hA, hC, hpar, hdich⟩ := rot_setup hR hnd hn
  rw [hl] at hA
  cases A with
  | leaf => simp [Repr] at hA
  | node A1 l' B =>
  simp only [Repr] at hA
  obtain ⟨e, hlp, hA1, hB⟩ := hA
  cases e
  have hbB : ∀ x, (h l).right = some x → x ∈ B.addrs := by
    intro x hx; rw [hx] at hB
    cases B with
    | leaf => simp [Repr] at hB
    | node _ y _ => simp only [Repr] at hB; obtain ⟨e, _⟩ := hB; cases e; simp [PT.addrs]
  simp only [PT.addrs] at hnds hdich
  refine ⟨?_, ?_, ?_⟩
  · grind [List.nodup_append, List.nodup_cons]
  · intro b hb; have := hbB b hb; grind [List.nodup_append, List.nodup_cons]
  · intro p hp
    rcases hdich with ⟨_, e⟩ | ⟨_, p', e, _, e3, e4⟩
    · rw [e] at hp; cases hp
    · rw [e] at hp; cases hp
      refine ⟨?_, ?_, ?_, e4⟩
      · intro e; apply e3; simp [e]
      · intro e; apply e3; simp [e]
      · intro e; apply e3; have := hbB _ e; simp [this]

theorem rotR_explicit {q : Option Nat} {t : PT} {n l : Nat} (st : St)
    (hR : Repr st.h q none t) (hnd : t.addrs.Nodup) (hn : n ∈ t.addrs) (hl : (st.h n).left = some l) :
    RotR st.h (rotSt .left .right st n l).h n l ∧
    (rotSt .left .right st n l).root = (if (st.h n).parent = none then some l else st.root) ∧
    (rotSt .left .right st n l).alloc = st.alloc ∧ (rotSt .left .right st n l).size = st.size := by
  obtain ⟨hnr, hb, hp⟩ := rotR_distinct hR hnd hn hl
  have hrn := hnr.symm
  cases eb : (st.h l).right with
  | none =>
    cases ep : (st.h n).parent with
    | none =>
      refine ⟨?_, ?_, ?_, ?_⟩
      · constructor <;> intros <;> rot_unfold <;> grind
      all_goals rot_unfold
    | some p =>
      obtain ⟨hpn, hpr, hpb, hpc⟩ := hp p ep
      have hnp := hpn.symm
      have hrp := hpr.symm
      rcases hpc with ⟨hc1, hc2⟩ | ⟨hc1, hc2⟩
      · refine ⟨?_, ?_, ?_, ?_⟩
        · constructor <;> intros <;> rot_unfold <;> grind
        all_goals rot_unfold
      · refine ⟨?_, ?_, ?_, ?_⟩
        · constructor <;> intros <;> rot_unfold <;> grind
        all_goals rot_unfold
  | some b =>
    obtain ⟨hbn, hbr⟩ := hb b eb
    have hnb := hbn.symm
    have hrb := hbr.symm
    cases ep : (st.h n).parent with
    | none =>
      refine ⟨?_, ?_, ?_, ?_⟩
      · constructor <;> intros <;> rot_unfold <;> grind
      all_goals rot_unfold
    | some p =>
      obtain ⟨hpn, hpr, hpb, hpc⟩ := hp p ep
      have hnp := hpn.symm
      have hrp := hpr.symm
      have hbp : b ≠ p := by intro e; apply hpb; rw [eb, e]
      have hpb' := hbp.symm
      rcases hpc with ⟨hc1, hc2⟩ | ⟨hc1, hc2⟩
      · refine ⟨?_, ?_, ?_, ?_⟩
        · constructor <;> intros <;> rot_unfold <;> grind
        all_goals rot_unfold
      · refine ⟨?_, ?_, ?_, ?_⟩
        · constructor <;> intros <;> rot_unfold <;> grind
        all_goals rot_unfold

/-! ### the contracts -/

theorem ptrIn_ofArgs0 {A : List Nat} {args : List Val} (h : ∀ x ∈ args, PtrIn A x) :
    PtrIn A (Env.ofArgs args 0) := by
  cases args with
  | nil => simp [Env.ofArgs, PtrIn]
  | cons a l => simpa [Env.ofArgs] using h a (by simp)

theorem rotateLeft_spec (cmpF : Int → Int → Int) (callH : CallH PName) (lf : Nat)
    (hK : ∀ fn, isK fn = true → SpecK callH fn) :
    SpecOf (runBody cmpF callH lf (procs .rotateLeft)) := by
  intro args st v st' t hH hargs h
  have hproc : procs .rotateLeft = ⟨1, rotBody .right .left .getRight⟩ := rfl
  rw [hproc] at h
  obtain ⟨rfl, hc⟩ := run_rotBody cmpF callH lf (.inl ⟨rfl, rfl⟩) _ h
  have h0 := ptrIn_ofArgs0 hargs
  rcases hc with rfl | ⟨v1, st1, hcall, hc⟩
  · exact ⟨t, hH, Pres.refl hH, trivial⟩
  · obtain ⟨t1, hH1, hP1, _⟩ := hK .getRight rfl _ _ _ _ t hH (by simpa using h0) hcall
    rcases hc with rfl | ⟨n, r, hv, hr, rfl⟩
    · exact ⟨t1, hH1, hP1, trivial⟩
    · rw [hv] at h0
      have hn1 : n ∈ t1.addrs := (hP1.same n).2 h0
      have hr' : (st1.h n).right = some r := by simpa [getP] using hr
      obtain ⟨hR1, hnd1, hal1⟩ := hH1
      obtain ⟨H, eroot, ealloc, _⟩ := rotL_explicit st1 hR1 hnd1 hn1 hr'
      obtain ⟨t', hR', hnd', hadd'⟩ := rotL_heap hR1 hnd1 hn1 hr' H
      have hH' : Holds (rotSt .right .left st1 n r) t' :=
        ⟨by rw [eroot]; exact hR', hnd', fun a ha => by rw [ealloc]; exact hal1 a (by rw [← hadd']; exact ha)⟩
      exact ⟨t', hH', hP1.trans ⟨hH', hadd', rotSt_key _ _ _ _ _⟩, trivial⟩

theorem rotateRight_spec (cmpF : Int → Int → Int) (callH : CallH PName) (lf : Nat)
    (hK : ∀ fn, isK fn = true → SpecK callH fn) :
    SpecOf (runBody cmpF callH lf (procs .rotateRight)) := by
  intro args st v st' t hH hargs h
  have hproc : procs .rotateRight = ⟨1, rotBody .left .right .getLeft⟩ := rfl
  rw [hproc] at h
  obtain ⟨rfl, hc⟩ := run_rotBody cmpF callH lf (.inr ⟨rfl, rfl⟩) _ h
  have h0 := ptrIn_ofArgs0 hargs
  rcases hc with rfl | ⟨v1, st1, hcall, hc⟩
  · exact ⟨t, hH, Pres.refl hH, trivial⟩
  · obtain ⟨t1, hH1, hP1, _⟩ := hK .getLeft rfl _ _ _ _ t hH (by simpa using h0) hcall
    rcases hc with rfl | ⟨n, r, hv, hr, rfl⟩
    · exact ⟨t1, hH1, hP1, trivial⟩
    · rw [hv] at h0
      have hn1 : n ∈ t1.addrs := (hP1.same n).2 h0
      have hr' : (st1.h n).left = some r := by simpa [getP] using hr
      obtain ⟨hR1, hnd1, hal1⟩ := hH1
      obtain ⟨H, eroot, ealloc, _⟩ := rotR_explicit st1 hR1 hnd1 hn1 hr'
      obtain ⟨t', hR', hnd', hadd'⟩ := rotR_heap hR1 hnd1 hn1 hr' H
      have hH' : Holds (rotSt .left .right st1 n r) t' :=
        ⟨by rw [eroot]; exact hR', hnd', fun a ha => by rw [ealloc]; exact hal1 a (by rw [← hadd']; exact ha)⟩
      exact ⟨t', hH', hP1.trans ⟨hH', hadd', rotSt_key _ _ _ _ _⟩, trivial⟩

end Ekit.MiniGo.RBHeap.Rot
