/-
Review additions for C13 (syncx.Cond): one more inductive invariant (`OffL`: a Wait between its
`c.L.Unlock()` and its deferred `c.L.Lock()` does not hold `c.L`), used by the thread-progress /
no-deadlock theorem of Ekit/Props/C13Rev.lean, and the erasure of the ghost fields.
-/
import Ekit.Lemmas.CondExtra
namespace Ekit.Cond
open Ekit.Conc
variable {s s' : State} {l : Label}

/-- pcs of `Wait` after `c.L.Unlock()` and up to (including) the deferred `c.L.Lock()` -/
def Pc.offL : Pc → Bool
  | .wSelect _ | .wCtxLock _ | .wInner _ | .wFwdLen _ | .wFwdPop _ | .wFwdSend _ _ | .wRemove _
  | .wCtxErr _ | .wCtxUnlock _ _ | .wFree _ _ | .wRelock _ => true
  | _ => false

@[simp] theorem bodyStart_offL (k : Kind) : (bodyStart k).offL = false := by cases k <;> rfl

/-- a Wait that has released `c.L` and not yet re-acquired it does not hold it -/
def OffL (s : State) : Prop := ∀ t, (s.pc t).offL = true → s.L ≠ some t

theorem offL_init : OffL init := by intro t; simp [init, Pc.offL]

theorem offL_step (h : OffL s) (hs : step s l = some s') : OffL s' := by
  unfold OffL at h ⊢
  step_cases hs <;> intro u <;> have hu := h u <;> simp only [upd_apply] <;> (repeat' split) <;>
    grind [Pc.offL, bodyStart_offL]

theorem offL_reachable {s : State} (hr : Reachable s) : OffL s :=
  System.invariant_induction sys.toSystem OffL offL_init (fun _ _ _ h hs => offL_step h hs) s hr

end Ekit.Cond
