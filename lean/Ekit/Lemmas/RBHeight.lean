/-
Red-black invariants (C02): a balanced tree without red-red has logarithmic height; `set` keeps
shape and colours; the instrumented lookup counts exactly `cmpCount` comparator calls.
-/
import Ekit.Lemmas.RBDel

namespace Ekit.RB
namespace Tree
variable {α β : Type}

theorem length_toList (t : Tree α β) : t.toList.length = t.count := by
  induction t with
  | nil => rfl
  | node c l k v r ihl ihr => simp [toList, count, ihl, ihr]; omega

/-- a tree of black height `b` has at least `2^b - 1` nodes -/
theorem two_pow_bh_le (t : Tree α β) (hb : Bal t) : 2 ^ bh t ≤ t.count + 1 := by
  induction t with
  | nil => simp [bh, count]
  | node c l k v r ihl ihr =>
    simp only [Bal] at hb
    obtain ⟨hbh, hbl, hbr⟩ := hb
    have h1 := ihl hbl
    have h2 := ihr hbr
    rw [← hbh] at h2
    cases c with
    | red => simp only [bh, count, reduceCtorEq, if_false, Nat.add_zero]; omega
    | black =>
      simp only [bh, count, if_true, Nat.pow_succ]
      omega

/-- no red-red: at most every other node on a path is red -/
theorem height_le_bh (t : Tree α β) (hn : NoRR t) (hb : Bal t) :
    t.height ≤ 2 * bh t + (if t.color = .red then 1 else 0) := by
  induction t with
  | nil => simp [height, bh]
  | node c l k v r ihl ihr =>
    simp only [NoRR] at hn
    simp only [Bal] at hb
    obtain ⟨hcol, hnl, hnr⟩ := hn
    obtain ⟨hbh, hbl, hbr⟩ := hb
    have h1 := ihl hnl hbl
    have h2 := ihr hnr hbr
    cases c with
    | red =>
      obtain ⟨hl, hr⟩ := hcol rfl
      simp only [hl, hr, reduceCtorEq, if_false] at h1 h2
      simp only [height, bh, color_node, reduceCtorEq, if_false, if_true]
      omega
    | black =>
      simp only [height, bh, color_node, reduceCtorEq, if_false, if_true]
      split at h1 <;> split at h2 <;> omega

/-- **the height bound**: black root, no red-red, balanced ⇒ `height ≤ 2*log2(n+1)` -/
theorem height_le_log (t : Tree α β) (hc : t.color = .black) (hn : NoRR t) (hb : Bal t) :
    t.height ≤ 2 * Nat.log2 (t.count + 1) := by
  have h1 := height_le_bh t hn hb
  simp only [hc, reduceCtorEq, if_false, Nat.add_zero] at h1
  have h2 := two_pow_bh_le t hb
  have h3 : bh t ≤ Nat.log2 (t.count + 1) := (Nat.le_log2 (by omega)).2 h2
  omega

theorem cmpCount_le_height (cmp : α → α → Int) (k : α) (t : Tree α β) : t.cmpCount cmp k ≤ t.height := by
  induction t with
  | nil => exact Nat.le_refl _
  | node c l k' v' r ihl ihr =>
    simp only [cmpCount, height]
    split
    · omega
    · split <;> omega

/-- the instrumented `findNode` returns what `findEntry` returns and counts `cmpCount` calls -/
theorem findCount_eq (cmp : α → α → Int) (k : α) (t : Tree α β) :
    findCount cmp k t = (findEntry cmp k t, cmpCount cmp k t) := by
  induction t with
  | nil => rfl
  | node c l k' v' r ihl ihr =>
    simp only [findCount, findEntry, cmpCount]
    split
    · simp [ihl]
    · split
      · simp [ihr]
      · rfl

/-- `Set` changes one value and nothing else: colours and shape stay -/
theorem set_shape (cmp : α → α → Int) (k : α) (v : β) (t t' : Tree α β) (h : set cmp k v t = some t') :
    t'.color = t.color ∧ bh t' = bh t ∧ t'.count = t.count ∧ (NoRR t → NoRR t') ∧ (Bal t → Bal t') := by
  induction t generalizing t' with
  | nil => simp [set] at h
  | node c l k' v' r ihl ihr =>
    simp only [set] at h
    split at h
    · cases hi : set cmp k v l with
      | none => simp [hi] at h
      | some l' =>
        simp only [hi, Option.some.injEq] at h
        subst h
        obtain ⟨a1, a2, a3, a4, a5⟩ := ihl l' hi
        simp only [color_node, bh, count, NoRR, Bal, a1, a2, a3, true_and]
        exact ⟨fun h => ⟨h.1, a4 h.2.1, h.2.2⟩, fun h => ⟨h.1, a5 h.2.1, h.2.2⟩⟩
    · split at h
      · cases hi : set cmp k v r with
        | none => simp [hi] at h
        | some r' =>
          simp only [hi, Option.some.injEq] at h
          subst h
          obtain ⟨a1, a2, a3, a4, a5⟩ := ihr r' hi
          simp only [color_node, bh, count, NoRR, Bal, a1, a2, a3, true_and]
          exact ⟨fun h => ⟨h.1, h.2.1, a4 h.2.2⟩, fun h => ⟨h.1, h.2.1, a5 h.2.2⟩⟩
      · simp only [Option.some.injEq] at h
        subst h
        simp [bh, count, NoRR, Bal]

end Tree
end Ekit.RB
