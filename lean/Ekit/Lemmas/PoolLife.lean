/-
The lifecycle is one-way (C11): `base s` is the lifecycle state with the transient `locked` replaced by
the state its holder will restore; its rank never decreases along a step.
-/
import Ekit.Lemmas.PoolInv
namespace Ekit.Pool
open Ekit.Conc

/-- the lifecycle state behind the transient lock value -/
def base (s : St) : Life := if s.life = .locked then (s.callers s.holder).st else s.life

def rank : Life → Nat
  | .created => 0 | .running => 1 | .closing => 2 | .stopped => 3 | .locked => 0

theorem base_ne_locked (s : St) (hA : InvA s) : base s ≠ .locked := by
  unfold base
  split
  · rename_i hl
    have h1 := (hA.loc s.holder).holder_crit hl rfl
    exact ((hA.loc s.holder).crit_st h1).1
  · assumption

theorem life_monotone_w (c : Cfg) (s s' : St) (i : Nat) (a : WAct) (h : wStep c s i a = some s') :
    rank (base s) ≤ rank (base s') := by
  obtain ⟨h1, h2⟩ := wStep_frameA h
  rcases h2 with h2 | ⟨h2, h3⟩
  · have e1 : s'.life = s.life := congrArg GA.life h2
    have e2 : s'.holder = s.holder := congrArg GA.holder h2
    simp [base, h1, e1, e2]
  · have e1 : s'.life = .stopped := congrArg GA.life h3
    simp [base, e1, h2, rank]

set_option maxHeartbeats 1000000 in
theorem life_monotone_c (c : Cfg) (s s' : St) (t : Nat) (a : CAct) (hA : InvA s)
    (h : cAct c s t (s.callers t) a = some s') : rank (base s) ≤ rank (base s') := by
  have hat := (LA_iff _ _ _).1 (hA.loc t)
  have hah := (LA_iff _ _ _).1 (hA.loc s.holder)
  simp only [St.ga] at hat hah
  cases a <;> simp only [cAct, toUnlock] at h <;> (repeat' (split at h)) <;> (try simp at h) <;> (try subst h) <;>
    (by_cases hht : s.holder = t <;> simp_all [base, rank, upd] <;>
      (try (cases hst : (s.callers t).st <;> simp_all [rank])))

end Ekit.Pool
