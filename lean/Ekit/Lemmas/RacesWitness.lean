import Ekit.Conc.Lockset
/-!
Concrete traces for C15: negative witnesses (the two defects recorded on the pinned tree really are
races in the trace model — the definition of `Race` is not vacuous) and a positive one (a well-formed,
conforming two-thread trace exists — the hypotheses of `disciplined_raceFree` are satisfiable).
-/
namespace Ekit.Races.Witness
open Ekit.Conc.Lockset

abbrev E := Ev Nat Nat Nat

/-- executable form of `Sync` -/
def syncB : E → E → Bool
  | .rel _ l m, .acq _ l' m' => l == l' && (m == .excl || m' == .excl)
  | .atomic _ x true, .atomic _ x' _ => x == x'
  | .publish _ k, .receive _ k' => k == k'
  | _, _ => false

theorem syncB_of_sync {a b : E} (h : Sync a b) : syncB a b = true := by
  cases h with
  | lock t t' l m m' hm => rcases hm with h | h <;> subst h <;> simp [syncB]
  | atomic t t' x w' => simp [syncB]
  | pub t t' k => simp [syncB]

def edgeB (tr : List E) (i j : Nat) : Bool :=
  match tr[i]?, tr[j]? with
  | some a, some b => decide (i < j) && (a.tid == b.tid || syncB a b)
  | _, _ => false

theorem edgeB_of_edge {tr : List E} {i j : Nat} (h : Edge tr i j) :
    i < tr.length ∧ j < tr.length ∧ edgeB tr i j = true := by
  obtain ⟨hij, a, b, ha, hb, hor⟩ := h
  have hi : i < tr.length := by
    rcases Nat.lt_or_ge i tr.length with h | h
    · exact h
    · rw [List.getElem?_eq_none h] at ha; cases ha
  have hj : j < tr.length := by
    rcases Nat.lt_or_ge j tr.length with h | h
    · exact h
    · rw [List.getElem?_eq_none h] at hb; cases hb
  refine ⟨hi, hj, ?_⟩
  unfold edgeB
  rw [ha, hb]
  rcases hor with h | h
  · simp [hij, h]
  · simp [hij, syncB_of_sync h]

/-- A writer that holds the lock and a reader that does not (CopyOnWriteArrayList.Get/Len/Cap/Range on
the pinned tree): thread 0 creates and publishes the object 0, thread 1 receives it; thread 0 writes
location 7 under lock 1, thread 1 reads it without the lock. -/
def unlockedReader : List E :=
  [.publish 0 0, .receive 1 0, .acq 0 1 .excl, .write 0 7, .rel 0 1 .excl, .read 1 7]

theorem unlockedReader_hb_inv : ∀ i j, HB unlockedReader i j → i = 0 ∨ i = 1 ∨ j ≤ 4 := by
  intro i j h
  induction h with
  | base e =>
    obtain ⟨hi, hj, hb⟩ := edgeB_of_edge e
    have key : ∀ (i j : Fin 6), edgeB unlockedReader i.1 j.1 = true → i.1 = 0 ∨ i.1 = 1 ∨ j.1 ≤ 4 := by decide
    exact key ⟨_, hi⟩ ⟨_, hj⟩ hb
  | trans h₁ h₂ ih₁ ih₂ =>
    have := h₁.lt
    rcases ih₁ with h | h | h
    · exact .inl h
    · exact .inr (.inl h)
    · rcases ih₂ with h' | h' | h'
      · omega
      · omega
      · exact .inr (.inr h')

theorem unlockedReader_races : Race unlockedReader 3 5 := by
  refine ⟨by decide, .write 0 7, .read 1 7, ⟨0, 7, true, false⟩, ⟨1, 7, false, false⟩, rfl, rfl, rfl, rfl, ?_, ?_⟩
  · exact ⟨rfl, by decide, .inl rfl, by simp⟩
  · intro h
    rcases unlockedReader_hb_inv 3 5 h with h | h | h <;> omega

/-- An atomic store against a plain load (syncx.Cond.checkCopy on the pinned tree): thread 0 CASes
location 7, thread 1 reads it plainly. -/
def plainLoadOfAtomic : List E :=
  [.publish 0 0, .receive 1 0, .atomic 0 7 true, .read 1 7]

theorem plainLoadOfAtomic_hb_inv : ∀ i j, HB plainLoadOfAtomic i j → i = 0 ∨ i = 1 := by
  intro i j h
  induction h with
  | base e =>
    obtain ⟨hi, hj, hb⟩ := edgeB_of_edge e
    have key : ∀ (i j : Fin 4), edgeB plainLoadOfAtomic i.1 j.1 = true → i.1 = 0 ∨ i.1 = 1 := by decide
    exact key ⟨_, hi⟩ ⟨_, hj⟩ hb
  | trans _ _ ih₁ _ => exact ih₁

theorem plainLoadOfAtomic_races : Race plainLoadOfAtomic 2 3 := by
  refine ⟨by decide, .atomic 0 7 true, .read 1 7, ⟨0, 7, true, true⟩, ⟨1, 7, false, false⟩, rfl, rfl, rfl, rfl, ?_, ?_⟩
  · exact ⟨rfl, by decide, .inl rfl, by simp⟩
  · intro h
    rcases plainLoadOfAtomic_hb_inv 2 3 h with h | h <;> omega

/-- The repaired shape: the reader takes the lock (shared).  Well-formed and conforming, hence
race-free by the main theorem — its hypotheses are satisfiable by a trace with two threads, a
publication, a write and a read. -/
def lockedReader : List E :=
  [.publish 0 0, .receive 1 0, .acq 0 1 .excl, .write 0 7, .rel 0 1 .excl, .acq 1 1 .shared, .read 1 7,
   .rel 1 1 .shared]

/-- executable form of `HoldsAt` for concrete traces -/
def holdsB (tr : List E) (i t l : Nat) (m : Mode) : Bool :=
  (List.range i).any fun a => tr[a]? == some (.acq t l m) &&
    (List.range i).all fun k => !(decide (a < k) && tr[k]? == some (.rel t l m))

theorem holdsB_iff {tr : List E} {i t l : Nat} {m : Mode} : holdsB tr i t l m = true ↔ HoldsAt tr i t l m := by
  unfold holdsB HoldsAt
  constructor
  · intro h
    obtain ⟨a, ha, h2⟩ := List.any_eq_true.mp h
    simp only [Bool.and_eq_true, beq_iff_eq, List.all_eq_true, List.mem_range, Bool.not_eq_true',
      Bool.and_eq_false_iff, decide_eq_false_iff_not] at h2
    refine ⟨a, List.mem_range.mp ha, h2.1, ?_⟩
    intro k hak hki hk
    rcases h2.2 k hki with h3 | h3
    · exact h3 hak
    · simp [hk] at h3
  · intro ⟨a, hai, hev, hno⟩
    apply List.any_eq_true.mpr
    refine ⟨a, List.mem_range.mpr hai, ?_⟩
    simp only [Bool.and_eq_true, beq_iff_eq, List.all_eq_true, List.mem_range, Bool.not_eq_true',
      Bool.and_eq_false_iff, decide_eq_false_iff_not]
    refine ⟨hev, ?_⟩
    intro k hki
    by_cases hak : a < k
    · right
      have := hno k hak hki
      cases hk : (tr[k]? == some (Ev.rel t l m)) with
      | false => rfl
      | true => exact (this (by simpa using hk)).elim
    · exact .inl hak

theorem lockedReader_bound {x : Nat} {e : E} (h : lockedReader[x]? = some e) : x < 8 := by
  rcases Nat.lt_or_ge x lockedReader.length with h' | h'
  · exact h'
  · rw [List.getElem?_eq_none h'] at h; cases h

theorem lockedReader_acq {x t l : Nat} {m : Mode} (h : lockedReader[x]? = some (.acq t l m)) :
    (x = 2 ∧ t = 0 ∧ l = 1 ∧ m = .excl) ∨ (x = 5 ∧ t = 1 ∧ l = 1 ∧ m = .shared) := by
  have hx := lockedReader_bound h
  match x, hx, h with
  | 0, _, h => simp [lockedReader] at h
  | 1, _, h => simp [lockedReader] at h
  | 2, _, h =>
    simp only [lockedReader, List.getElem?_cons_succ, List.getElem?_cons_zero, Option.some.injEq, Ev.acq.injEq] at h
    obtain ⟨h1, h2, h3⟩ := h
    exact .inl ⟨rfl, h1.symm, h2.symm, h3.symm⟩
  | 3, _, h => simp [lockedReader] at h
  | 4, _, h => simp [lockedReader] at h
  | 5, _, h =>
    simp only [lockedReader, List.getElem?_cons_succ, List.getElem?_cons_zero, Option.some.injEq, Ev.acq.injEq] at h
    obtain ⟨h1, h2, h3⟩ := h
    exact .inr ⟨rfl, h1.symm, h2.symm, h3.symm⟩
  | 6, _, h => simp [lockedReader] at h
  | 7, _, h => simp [lockedReader] at h

theorem lockedReader_acc {i : Nat} {e : E} {acc : Acc Nat} (h : lockedReader[i]? = some e) (ha : e.acc? = some acc) :
    (i = 3 ∧ acc = ⟨0, 7, true, false⟩) ∨ (i = 6 ∧ acc = ⟨1, 7, false, false⟩) := by
  have hx := lockedReader_bound h
  match i, hx, h with
  | 0, _, h => simp [lockedReader] at h; subst h; simp [Ev.acc?] at ha
  | 1, _, h => simp [lockedReader] at h; subst h; simp [Ev.acc?] at ha
  | 2, _, h => simp [lockedReader] at h; subst h; simp [Ev.acc?] at ha
  | 3, _, h => simp [lockedReader] at h; subst h; simp [Ev.acc?] at ha; exact .inl ⟨rfl, ha.symm⟩
  | 4, _, h => simp [lockedReader] at h; subst h; simp [Ev.acc?] at ha
  | 5, _, h => simp [lockedReader] at h; subst h; simp [Ev.acc?] at ha
  | 6, _, h => simp [lockedReader] at h; subst h; simp [Ev.acc?] at ha; exact .inr ⟨rfl, ha.symm⟩
  | 7, _, h => simp [lockedReader] at h; subst h; simp [Ev.acc?] at ha

theorem lockedReader_wellFormed : WellFormed lockedReader := by
  intro a t l m ha t' m' hne hm hh
  obtain ⟨x, hxa, hx, hno⟩ := hh
  rcases lockedReader_acq ha with ⟨rfl, rfl, rfl, rfl⟩ | ⟨rfl, rfl, rfl, rfl⟩
  · -- the first acquisition: nothing was acquired before it
    rcases lockedReader_acq hx with ⟨rfl, _⟩ | ⟨rfl, _⟩ <;> omega
  · rcases lockedReader_acq hx with ⟨rfl, rfl, _, rfl⟩ | ⟨rfl, _⟩
    · -- thread 0 released at position 4
      exact hno 4 (by decide) (by decide) rfl
    · omega

def lockedReaderSetup : Setup Nat Nat := { owner := fun _ => 0, creator := fun _ => 0 }

theorem lockedReader_conforms :
    Conforms lockedReaderSetup (fun _ => Discipline.lockProtected 1) (fun _ => False) lockedReader where
  init_by_creator := by intro i e acc _ _ h; exact h.elim
  foreign_after_receive := by
    intro j e acc hj ha hne
    rcases lockedReader_acc hj ha with ⟨rfl, rfl⟩ | ⟨rfl, rfl⟩
    · exact (hne rfl).elim
    · exact ⟨1, by decide, rfl⟩
  receive_after_publish := by
    intro q t k hq
    have hx := lockedReader_bound hq
    match q, hx, hq with
    | 0, _, h => simp [lockedReader] at h
    | 1, _, h =>
      simp only [lockedReader, List.getElem?_cons_succ, List.getElem?_cons_zero, Option.some.injEq, Ev.receive.injEq] at h
      obtain ⟨rfl, rfl⟩ := h
      exact ⟨0, 0, by decide, rfl, .inl rfl⟩
    | 2, _, h => simp [lockedReader] at h
    | 3, _, h => simp [lockedReader] at h
    | 4, _, h => simp [lockedReader] at h
    | 5, _, h => simp [lockedReader] at h
    | 6, _, h => simp [lockedReader] at h
    | 7, _, h => simp [lockedReader] at h
  disciplined := by
    intro i e acc hi ha _
    rcases lockedReader_acc hi ha with ⟨rfl, rfl⟩ | ⟨rfl, rfl⟩
    · show HoldsAt lockedReader 3 0 1 .excl
      exact holdsB_iff.mp (by decide)
    · show HoldsAt lockedReader 6 1 1 .shared ∨ HoldsAt lockedReader 6 1 1 .excl
      exact .inl (holdsB_iff.mp (by decide))

/-- the main theorem applies to a concrete two-thread trace -/
theorem lockedReader_raceFree : RaceFree lockedReader :=
  disciplined_raceFree lockedReader_wellFormed lockedReader_conforms

end Ekit.Races.Witness
