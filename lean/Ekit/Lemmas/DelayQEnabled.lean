/-
C09 (DelayQueue share): enabledness — no reachable state is stuck.
-/
import Ekit.Lemmas.DelayQLive

namespace Ekit.DelayQ
open Ekit.Conc

/-- the thread that performs a label (`tick`, `cancel`, `fire` are the environment's / runtime's) -/
def Label.actor : Label → Option Nat
  | .tick _ | .cancel _ | .fire _ => none
  | .invEnq t _ | .invDeq t | .ctxErr t | .ctxOk t | .lock t | .enq t | .peek t _ | .pop t _ | .repeek t _
  | .swap t | .fetch t | .unlock t | .close t | .arm t | .selCtx t | .selSig t | .selTimer t | .ret t _ => some t

/-- The ONLY situations in which a thread inside a call has no enabled step of its own:
    it wants the mutex and somebody holds it, or it is parked in a `select` none of whose arms is ready. -/
def blocked (s : State) (t : Nat) : Prop :=
  match s.pc t with
  | .eLock _ | .dLock | .dRelock => s.mutex ≠ none
  | .eWait _ g => s.ctxDone t = false ∧ g ∉ s.closed .deqSig
  | .dWaitE g => s.ctxDone t = false ∧ g ∉ s.closed .enqSig
  | .dWaitT g => s.ctxDone t = false ∧ g ∉ s.closed .enqSig ∧ ∀ a, s.timer t ≠ some ⟨a, true⟩
  | _ => False

theorem isMin_iff (q : List Elem) (x : Elem) : isMin q x = true ↔ x ∈ q ∧ ∀ y ∈ q, x.dl ≤ y.dl := by
  simp [isMin]

theorem exists_isMin : ∀ (q : List Elem), q ≠ [] → ∃ y, isMin q y = true
  | [], h => absurd rfl h
  | [a], _ => ⟨a, by simp [isMin]⟩
  | a :: b :: r, _ => by
    obtain ⟨y, hy⟩ := exists_isMin (b :: r) (by simp)
    rw [isMin_iff] at hy
    by_cases hay : a.dl ≤ y.dl
    · refine ⟨a, (isMin_iff _ _).mpr ⟨by simp, ?_⟩⟩
      intro z hz
      rcases List.mem_cons.mp hz with rfl | hz
      · exact Nat.le_refl _
      · exact Nat.le_trans hay (hy.2 z hz)
    · refine ⟨y, (isMin_iff _ _).mpr ⟨List.mem_cons_of_mem _ hy.1, ?_⟩⟩
      intro z hz
      rcases List.mem_cons.mp hz with rfl | hz
      · omega
      · exact hy.2 z hz

theorem enabled_or_blocked (P : Params) (s : State) (t : Nat) (hi : Inv9 P s) (hpc : s.pc t ≠ .idle) :
    blocked s t ∨ ∃ l, l.actor = some t ∧ (step P s l).isSome = true := by
  have hlock : (s.pc t).locked = true → s.mutex = some t := hi.lock.1 t
  cases hp : s.pc t with
  | idle => exact absurd hp hpc
  | eTop x =>
    right
    cases hc : s.ctxDone t
    · exact ⟨.ctxOk t, rfl, by simp [step, hp, hc, State.setPc]⟩
    · exact ⟨.ctxErr t, rfl, by simp [step, hp, hc, State.setPc]⟩
  | dTop =>
    right
    cases hc : s.ctxDone t
    · exact ⟨.ctxOk t, rfl, by simp [step, hp, hc, State.setPc]⟩
    · exact ⟨.ctxErr t, rfl, by simp [step, hp, hc, State.setPc]⟩
  | eLock x =>
    cases hm : s.mutex
    · exact Or.inr ⟨.lock t, rfl, by simp [step, hp, hm]⟩
    · exact Or.inl (by simp [blocked, hp, hm])
  | dLock =>
    cases hm : s.mutex
    · exact Or.inr ⟨.lock t, rfl, by simp [step, hp, hm]⟩
    · exact Or.inl (by simp [blocked, hp, hm])
  | dRelock =>
    cases hm : s.mutex
    · exact Or.inr ⟨.lock t, rfl, by simp [step, hp, hm]⟩
    · exact Or.inl (by simp [blocked, hp, hm])
  | eCrit x =>
    refine Or.inr ⟨.enq t, rfl, ?_⟩
    simp only [step, hp]; split <;> rfl
  | dPeek =>
    right
    by_cases hq : s.q = []
    · exact ⟨.peek t none, rfl, by simp [step, hp, hq]⟩
    · obtain ⟨y, hy⟩ := exists_isMin s.q hq
      refine ⟨.peek t (some y), rfl, ?_⟩
      simp only [step, hp, hy, if_true]; split <;> rfl
  | dRepeek =>
    right
    by_cases hq : s.q = []
    · exact ⟨.repeek t none, rfl, by simp [step, hp, hq, State.setPc]⟩
    · obtain ⟨y, hy⟩ := exists_isMin s.q hq
      refine ⟨.repeek t (some y), rfl, ?_⟩
      simp only [step, hp, hy, if_true]; split <;> rfl
  | dPop x =>
    right
    have hx := hi.pop t x hp
    have hq : s.q ≠ [] := by intro h; rw [h] at hx; cases hx.1
    obtain ⟨y, hy⟩ := exists_isMin s.q hq
    exact ⟨.pop t (some y), rfl, by simp [step, hp, hy]⟩
  | bSwap c r => exact Or.inr ⟨.swap t, rfl, by simp [step, hp]⟩
  | sFetch k => exact Or.inr ⟨.fetch t, rfl, by simp [step, hp, State.setPc]⟩
  | dArm d g => exact Or.inr ⟨.arm t, rfl, by simp [step, hp]⟩
  | ret r => exact Or.inr ⟨.ret t r, rfl, by simp [step, hp]⟩
  | dReUnlock =>
    have hm := hlock (by rw [hp]; rfl)
    exact Or.inr ⟨.unlock t, rfl, by simp [step, hp, hm]⟩
  | bUnlock c g r =>
    have hm := hlock (by rw [hp]; rfl)
    exact Or.inr ⟨.unlock t, rfl, by simp [step, hp, hm]⟩
  | sUnlock g k =>
    have hm := hlock (by rw [hp]; rfl)
    refine Or.inr ⟨.unlock t, rfl, ?_⟩
    cases k <;> simp [step, hp, hm]
  | bClose c g r =>
    have hc := (hi.gen.closing_lt t c g (by rw [hp]; rfl)).2
    exact Or.inr ⟨.close t, rfl, by simp [step, hp, hc]⟩
  | eWait x g =>
    cases hc : s.ctxDone t
    · by_cases hg : g ∈ s.closed .deqSig
      · exact Or.inr ⟨.selSig t, rfl, by simp [step, hp, hg, State.setPc]⟩
      · exact Or.inl (by simp [blocked, hp, hc, hg])
    · exact Or.inr ⟨.selCtx t, rfl, by simp [step, hp, hc, State.setPc]⟩
  | dWaitE g =>
    cases hc : s.ctxDone t
    · by_cases hg : g ∈ s.closed .enqSig
      · exact Or.inr ⟨.selSig t, rfl, by simp [step, hp, hg, State.setPc]⟩
      · exact Or.inl (by simp [blocked, hp, hc, hg])
    · exact Or.inr ⟨.selCtx t, rfl, by simp [step, hp, hc, State.setPc]⟩
  | dWaitT g =>
    cases hc : s.ctxDone t
    · by_cases hg : g ∈ s.closed .enqSig
      · exact Or.inr ⟨.selSig t, rfl, by simp [step, hp, hg, State.setPc]⟩
      · by_cases hb : ∃ a, s.timer t = some ⟨a, true⟩
        · obtain ⟨a, ha⟩ := hb
          exact Or.inr ⟨.selTimer t, rfl, by simp [step, hp, ha]⟩
        · exact Or.inl (by simp only [blocked, hp]; exact ⟨hc, hg, fun a ha => hb ⟨a, ha⟩⟩)
    · exact Or.inr ⟨.selCtx t, rfl, by simp [step, hp, hc, State.setPc]⟩

end Ekit.DelayQ
