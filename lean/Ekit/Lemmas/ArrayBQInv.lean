/-
Invariants of the array blocking queue model (`Ekit/Model/ArrayBQ.lean`), for every capacity ≥ 1 and
any number of threads: thread bookkeeping, permit conservation, reader/writer exclusion, ring cursor
well-formedness, absence of panics.  Used by C07 (`abq_inv`, capacity, linearizability) and C09.
-/
import Ekit.Model.ArrayBQ
import Ekit.Lemmas.BQCommon
namespace Ekit.ArrayBQ
open Ekit.Conc Ekit.BQ

/-- permits of `enqueueCap` in flight: taken by an enqueuer that has not yet stored/returned it, or
    owed by a dequeuer that has removed an element and not yet released (`dRel`) -/
def wE : Pc → Nat
  | .eLock _ | .eChk _ | .eRelBack | .eStore _ | .eAdv _ | .dRel _ => 1
  | _ => 0
/-- permits of `dequeueCap` in flight (symmetric; `eRel` owes one) -/
def wD : Pc → Nat
  | .dLock | .dChk | .dRelBack | .dRead | .dAdv _ | .eRel => 1
  | _ => 0
/-- holds the read lock -/
def wR : Pc → Nat
  | .lRead | .aMake | .aLoop _ _ | .runlock _ => 1
  | _ => 0
/-- inside the critical section of the write lock -/
def inW : Pc → Bool
  | .eChk _ | .eRelBack | .eStore _ | .eAdv _ | .eRel | .dChk | .dRelBack | .dRead | .dAdv _ | .dRel _
  | .unlock _ => true
  | _ => false

structure Inv (cap : Nat) (s : State) : Prop where
  nodup : s.live.Nodup
  live_iff : ∀ t, t ∈ s.live ↔ s.pc t ≠ .idle
  size_eq : s.size = cap
  dlen : s.data.length = cap
  permE : (s.enqFree : Int) + wsum wE s.pc s.live + s.count = cap
  permD : s.count = (s.deqFree : Int) + wsum wD s.pc s.live
  rd : s.readers = wsum wR s.pc s.live
  mutexW : ∀ t, inW (s.pc t) = true → s.writer = some t
  wr_excl : s.writer.isSome = true → s.readers = 0
  head_lt : s.head < cap
  tail_eq : s.tail = (s.head + s.count.toNat) % cap
  noPanic : s.panicked = false

theorem sums_upd {cap : Nat} {s : State} (h : Inv cap s) {t : Nat} (ht : s.pc t ≠ .idle) (p : Pc) :
    wsum wE (upd s.pc t p) s.live + wE (s.pc t) = wsum wE s.pc s.live + wE p ∧
    wsum wD (upd s.pc t p) s.live + wD (s.pc t) = wsum wD s.pc s.live + wD p ∧
    wsum wR (upd s.pc t p) s.live + wR (s.pc t) = wsum wR s.pc s.live + wR p := by
  have hm := (h.live_iff t).mpr ht
  exact ⟨wsum_upd_mem _ _ _ h.nodup hm, wsum_upd_mem _ _ _ h.nodup hm, wsum_upd_mem _ _ _ h.nodup hm⟩

theorem live_iff_upd {pc : Nat → Pc} {live : List Nat} (h : ∀ u, u ∈ live ↔ pc u ≠ .idle) {t : Nat}
    (ht : pc t ≠ .idle) {p : Pc} (hp : p ≠ .idle) : ∀ u, u ∈ live ↔ upd pc t p u ≠ .idle := by
  intro u
  by_cases hu : u = t
  · subst hu; simp [upd, hp, (h u).mpr ht]
  · simp [upd, hu, h u]



theorem inv_local {cap : Nat} {s : State} (h : Inv cap s) {t : Nat} (ht : s.pc t ≠ .idle)
    (s' : State)
    (hpc' : ∀ u, u ≠ t → s'.pc u = s.pc u) (hp' : s'.pc t ≠ .idle)
    (hlive : s'.live = s.live) (hsize : s'.size = s.size)
    (hdl : s'.data.length = s.data.length) (hpan : s'.panicked = s.panicked)
    (hE : (s'.enqFree : Int) + wE (s'.pc t) + s'.count = s.enqFree + wE (s.pc t) + s.count)
    (hD : s'.count - s'.deqFree - wD (s'.pc t) = s.count - s.deqFree - wD (s.pc t))
    (hR : s'.readers + wR (s.pc t) = s.readers + wR (s'.pc t))
    (hW1 : inW (s'.pc t) = true → s'.writer = some t)
    (hW2 : ∀ u, u ≠ t → inW (s.pc u) = true → s'.writer = some u)
    (hX : s'.writer.isSome = true → s'.readers = 0)
    (hH : s'.head < cap)
    (hT : s'.tail = (s'.head + s'.count.toNat) % cap) : Inv cap s' := by
  have hpc : s'.pc = upd s.pc t (s'.pc t) := by
    funext u
    by_cases hu : u = t
    · subst hu; simp [upd]
    · simp [upd, hu, hpc' u hu]
  obtain ⟨hsE, hsD, hsR⟩ := sums_upd h ht (s'.pc t)
  have hE0 := h.permE; have hD0 := h.permD; have hR0 := h.rd
  refine ⟨by rw [hlive]; exact h.nodup, ?_, by rw [hsize]; exact h.size_eq, by rw [hdl]; exact h.dlen,
    ?_, ?_, ?_, ?_, hX, hH, hT, by rw [hpan]; exact h.noPanic⟩
  · rw [hlive, hpc]; exact live_iff_upd h.live_iff ht hp'
  · rw [hlive, hpc]; omega
  · rw [hlive, hpc]; omega
  · rw [hlive, hpc]; omega
  · intro u hu
    by_cases hut : u = t
    · subst hut; exact hW1 hu
    · rw [hpc' u hut] at hu; exact hW2 u hut hu



theorem mod_succ_wrap (a c : Nat) (hc : 0 < c) :
    (a + 1) % c = if a % c + 1 = c then 0 else a % c + 1 := by
  have h1 : a % c < c := Nat.mod_lt _ hc
  by_cases hc1 : c = 1
  · subst hc1; simp [Nat.mod_one]
  · have h11 : 1 % c = 1 := Nat.mod_eq_of_lt (by omega)
    rw [Nat.add_mod, h11]
    by_cases h : a % c + 1 = c
    · simp only [h, if_true, Nat.mod_self]
    · simp only [h, if_false]; exact Nat.mod_eq_of_lt (by omega)

syntax "bq_side" ident ident : tactic
macro_rules
  | `(tactic| bq_side $h $hp) => `(tactic| first
    | exact ($h).wr_excl | exact ($h).head_lt | exact ($h).tail_eq
    | omega
    | (intro u hu; simp [upd, hu]; done)
    | exact ($h).mutexW _ (by simp [$hp:ident, inW])
    | (intro u _ hu; exact ($h).mutexW u hu))

syntax "bq_local" ident ident ident : tactic
macro_rules
  | `(tactic| bq_local $h $hp $hne) => `(tactic| (
    refine inv_local $h $hne _ ?_ ?_ rfl rfl ?_ rfl ?_ ?_ ?_ ?_ ?_ ?_ ?_ ?_
    all_goals (simp [fpAdd, setPc, $hp:ident, wE, wD, wR, inW])
    all_goals (try bq_side $h $hp)))

theorem inv_tau {cap : Nat} (hcap : 1 ≤ cap) {s s' : State} {t : Nat} (h : Inv cap s)
    (hs : tauStep s t = some s') : Inv cap s' := by
  have hE0 := h.permE; have hD0 := h.permD; have hR0 := h.rd
  have hsz := h.size_eq; have hdl := h.dlen
  have htl : s.tail < cap := by rw [h.tail_eq]; exact Nat.mod_lt _ (by omega)
  have hhd := h.head_lt
  have hteq := h.tail_eq
  unfold tauStep at hs
  cases hp : s.pc t <;> simp only [hp] at hs
  all_goals (try split at hs)
  all_goals (try split at hs)
  all_goals (try (simp at hs; done))
  all_goals (injection hs with hs; subst hs)
  all_goals (have hne : s.pc t ≠ .idle := by simp [hp])
  all_goals (have hmem : t ∈ s.live := (h.live_iff t).mpr hne)
  all_goals (have hwE := wsum_le_of_mem wE s.pc hmem; have hwD := wsum_le_of_mem wD s.pc hmem; have hwR := wsum_le_of_mem wR s.pc hmem)
  all_goals (simp only [hp, wE, wD, wR] at hwE hwD hwR)
  -- the panicking branches are unreachable
  all_goals (try (exfalso; omega))
  case unlock.isFalse => exfalso; have h2 := h.mutexW t (by simp [hp, inW]); simp_all
  all_goals (try (bq_local h hp hne))
  case eLock.isTrue.refine_8 =>
    have hg : s.writer = none ∧ s.readers = 0 := by assumption
    intro u _ hu; have := h.mutexW u hu; rw [hg.1] at this; exact absurd this (by simp)
  case dLock.isTrue.refine_8 =>
    have hg : s.writer = none ∧ s.readers = 0 := by assumption
    intro u _ hu; have := h.mutexW u hu; rw [hg.1] at this; exact absurd this (by simp)
  case unlock.isTrue.refine_8 =>
    intro u hut
    show inW (s.pc u) = false
    cases hb : inW (s.pc u)
    · rfl
    · have h1 := h.mutexW u hb; have h2 := h.mutexW t (by simp [hp, inW])
      rw [h2] at h1; injection h1 with h1; exact absurd h1.symm hut
  case runlock.isTrue.refine_9 => intro hw; have := h.wr_excl hw; omega
  case eAdv.isTrue.refine_11 =>
    have hg : s.tail + 1 = s.data.length := by assumption
    have hc : (s.count + 1).toNat = s.count.toNat + 1 := by omega
    rw [hc, ← Nat.add_assoc, mod_succ_wrap _ _ (by omega), ← hteq]
    simp [hg, hdl]
  case eAdv.isFalse.refine_11 =>
    have hg : ¬ s.tail + 1 = s.data.length := by assumption
    have hc : (s.count + 1).toNat = s.count.toNat + 1 := by omega
    rw [hc, ← Nat.add_assoc, mod_succ_wrap _ _ (by omega), ← hteq]
    rw [hdl] at hg; simp [hg]
  case dAdv.isTrue.isTrue.refine_11 =>
    have hg : s.head + 1 = s.data.length := by assumption
    have : s.head + s.count.toNat = cap + (s.count.toNat - 1) := by omega
    rw [hteq, this, Nat.add_mod_left]
  case dAdv.isTrue.isFalse.refine_11 =>
    have : s.head + 1 + (s.count.toNat - 1) = s.head + s.count.toNat := by omega
    rw [this]; exact hteq

theorem inv_init (cap : Nat) (hcap : 1 ≤ cap) : Inv cap (init cap) := by
  refine ⟨List.nodup_nil, by simp [init], rfl, by simp [init], by simp [init], by simp [init], by simp [init],
    by simp [init, inW], by simp [init], by simp [init]; omega, by simp [init], rfl⟩

theorem wE_start (op : Op) : wE (start op) = 0 := by cases op <;> rfl
theorem wD_start (op : Op) : wD (start op) = 0 := by cases op <;> rfl
theorem wR_start (op : Op) : wR (start op) = 0 := by cases op <;> rfl
theorem inW_start (op : Op) : inW (start op) = false := by cases op <;> rfl
theorem start_ne_idle (op : Op) : start op ≠ .idle := by cases op <;> simp [start]

theorem inv_step {cap : Nat} (hcap : 1 ≤ cap) {s s' : State} {l : Label} (h : Inv cap s)
    (hs : step s l = some s') : Inv cap s' := by
  cases l with
  | tau t =>
    simp only [step] at hs
    split at hs
    · simp at hs
    · exact inv_tau hcap h hs
  | ctxEnd t =>
    simp only [step] at hs
    split at hs
    · injection hs with hs; subst hs
      exact ⟨h.nodup, h.live_iff, h.size_eq, h.dlen, h.permE, h.permD, h.rd, h.mutexW, h.wr_excl, h.head_lt,
        h.tail_eq, h.noPanic⟩
    · simp at hs
  | ctxArm t =>
    simp only [step] at hs
    cases hp : s.pc t <;> simp only [hp] at hs <;> try (simp at hs; done)
    all_goals (split at hs <;> try (simp at hs; done))
    all_goals (injection hs with hs; subst hs)
    all_goals (have hne : s.pc t ≠ .idle := by simp [hp])
    all_goals (have hE0 := h.permE; have hD0 := h.permD; have hR0 := h.rd)
    all_goals (bq_local h hp hne)
  | inv t op =>
    simp only [step] at hs
    split at hs
    · rename_i hidle
      injection hs with hs; subst hs
      have hnm : t ∉ s.live := fun hm => (h.live_iff t).mp hm hidle
      have hE0 := h.permE; have hD0 := h.permD; have hR0 := h.rd
      refine ⟨List.nodup_cons.mpr ⟨hnm, h.nodup⟩, ?_, h.size_eq, h.dlen, ?_, ?_, ?_, ?_, h.wr_excl, h.head_lt,
        h.tail_eq, h.noPanic⟩
      · intro u
        by_cases hu : u = t
        · subst hu; simp [upd, start_ne_idle]
        · simp [upd, hu, h.live_iff u]
      · simp only [wsum_cons, upd_same, wE_start, wsum_upd_not_mem wE s.pc _ hnm]; omega
      · simp only [wsum_cons, upd_same, wD_start, wsum_upd_not_mem wD s.pc _ hnm]; omega
      · simp only [wsum_cons, upd_same, wR_start, wsum_upd_not_mem wR s.pc _ hnm]; omega
      · intro u hu
        by_cases hut : u = t
        · subst hut; simp [upd, inW_start] at hu
        · simp only [upd, hut, if_false] at hu; exact h.mutexW u hu
    · simp at hs
  | res t r =>
    simp only [step] at hs
    split at hs
    · rename_i hret
      injection hs with hs; subst hs
      have hm : t ∈ s.live := (h.live_iff t).mpr (by simp [hret])
      have hnm : t ∉ s.live.erase t := fun hm' => by
        have := (List.Nodup.mem_erase_iff h.nodup).mp hm'; exact this.1 rfl
      have hE0 := h.permE; have hD0 := h.permD; have hR0 := h.rd
      have hE1 := wsum_erase wE s.pc h.nodup hm
      have hD1 := wsum_erase wD s.pc h.nodup hm
      have hR1 := wsum_erase wR s.pc h.nodup hm
      simp only [hret, wE, wD, wR] at hE1 hD1 hR1
      refine ⟨h.nodup.erase t, ?_, h.size_eq, h.dlen, ?_, ?_, ?_, ?_, h.wr_excl, h.head_lt, h.tail_eq, h.noPanic⟩
      · intro u
        rw [List.Nodup.mem_erase_iff h.nodup]
        by_cases hu : u = t
        · subst hu; simp [upd]
        · simp [upd, hu, h.live_iff u]
      · simp only [wsum_upd_not_mem wE s.pc _ hnm]; omega
      · simp only [wsum_upd_not_mem wD s.pc _ hnm]; omega
      · simp only [wsum_upd_not_mem wR s.pc _ hnm]; omega
      · intro u hu
        by_cases hut : u = t
        · subst hut; simp [upd, inW] at hu
        · simp only [upd, hut, if_false] at hu; exact h.mutexW u hu
    · simp at hs

/-- **the invariant holds in every reachable state**, for every capacity ≥ 1 -/
theorem inv_reachable {cap : Nat} (hcap : 1 ≤ cap) (s : State) (hr : (sys cap).Reachable s) : Inv cap s :=
  System.invariant_induction (sys cap).toSystem (Inv cap) (inv_init cap hcap)
    (fun _ _ _ h hs => inv_step hcap h hs) s hr

/-- consequences used everywhere: `0 ≤ count ≤ cap`, `tail < cap` -/
theorem Inv.count_nonneg {cap : Nat} {s : State} (h : Inv cap s) : 0 ≤ s.count := by
  have := h.permD; omega
theorem Inv.count_le {cap : Nat} {s : State} (h : Inv cap s) : s.count ≤ cap := by
  have := h.permE; omega
theorem Inv.tail_lt {cap : Nat} {s : State} (h : Inv cap s) (hcap : 1 ≤ cap) : s.tail < cap := by
  rw [h.tail_eq]; exact Nat.mod_lt _ (by omega)

end Ekit.ArrayBQ
