/-
C06 — invariants of the ConcurrentLinkedQueue model (`Ekit.Linz.CLQ.Inv`) hold in every reachable state.
-/
import Ekit.Model.CLQ

namespace Ekit.Linz.CLQ
open Ekit.Conc Ekit.Linz

variable {α : Type}

theorem PcOk.mono {nodes nodes' : List α} {h h' tl tl' : Nat} {p : Pc α}
    (he : isE4 p = false) (hh : h ≤ h') (ht : tl ≤ tl') (hp : PcOk nodes h tl p) : PcOk nodes' h' tl' p := by
  cases p with
  | e4 v lt nw => simp [isE4] at he
  | e2 v lt => simp only [PcOk] at hp ⊢; omega
  | e3 v lt => simp only [PcOk] at hp ⊢; omega
  | d2 lh => simp only [PcOk] at hp ⊢; omega
  | d3 lh => simp only [PcOk] at hp ⊢; omega
  | d4 lh ln => simp only [PcOk] at hp ⊢; exact ⟨by omega, hp.2⟩
  | crash => simp [PcOk] at hp
  | idle => trivial
  | e1 v => trivial
  | d1 => trivial
  | ret r => trivial

theorem PcOk.head {nodes : List α} {h h' tl : Nat} {p : Pc α}
    (hh : h ≤ h') (hp : PcOk nodes h tl p) : PcOk nodes h' tl p := by
  cases p with
  | e4 v lt nw => exact hp
  | e2 v lt => exact hp
  | e3 v lt => exact hp
  | d2 lh => simp only [PcOk] at hp ⊢; omega
  | d3 lh => exact hp
  | d4 lh ln => exact hp
  | crash => simp [PcOk] at hp
  | idle => trivial
  | e1 v => trivial
  | d1 => trivial
  | ret r => trivial

theorem Inv.init : Inv (⟨[], 0, 0, fun _ => .idle⟩ : St α) where
  ht := Nat.le_refl _
  tl := Nat.le_refl _
  lt := by simp
  uniq := by simp [isE4]
  ex := by simp
  ok := by simp [PcOk]

/-- a step that only moves thread `t` between program counters that are not `e4` -/
theorem Inv.setPc {s : St α} (h : Inv s) {t : Nat} {p' : Pc α}
    (h0 : isE4 (s.pc t) = false) (h1 : isE4 p' = false) (hok : PcOk s.nodes s.head s.tail p') :
    Inv (s.set t p') where
  ht := h.ht
  tl := h.tl
  lt := h.lt
  uniq := by
    intro u v hu hv
    have key : ∀ x, isE4 (upd s.pc t p' x) = true → isE4 (s.pc x) = true := by
      intro x hx
      by_cases hxt : x = t
      · subst hxt; simp [h1] at hx
      · simpa [upd_other _ _ _ _ hxt] using hx
    exact h.uniq u v (key u hu) (key v hv)
  ex := by
    intro hl
    obtain ⟨t0, h0'⟩ := h.ex hl
    have : t0 ≠ t := fun e => by subst e; simp [h0] at h0'
    exact ⟨t0, by simp only [St.set, upd_other _ _ _ _ this]; exact h0'⟩
  ok := by
    intro u
    by_cases hut : u = t
    · subst hut; simp only [St.set, upd_same]; exact hok
    · simp only [St.set, upd_other _ _ _ _ hut]; exact h.ok u

/-- e3, CAS succeeds: the new node is linked after the current tail, and nobody else is between
    its two CASes -/
theorem Inv.link {s : St α} (h : Inv s) {t : Nat} {v : α} {lt : Nat} (hpc : s.pc t = .e3 v lt)
    (hnext : s.next lt = none) :
    Inv { s with nodes := s.nodes ++ [v], pc := upd s.pc t (.e4 v lt (s.nodes.length + 1)) } := by
  have hlt : lt ≤ s.tail := by have := h.ok t; simpa [hpc, PcOk] using this
  have hge : s.nodes.length ≤ lt := by
    simp only [St.next] at hnext
    by_cases hc : lt < s.nodes.length
    · simp [hc] at hnext
    · omega
  have hlen : s.nodes.length = s.tail := by have := h.tl; omega
  have hlt' : lt = s.tail := by have := h.tl; omega
  have noE4 : ∀ u, isE4 (s.pc u) = false := by
    intro u
    cases hu : isE4 (s.pc u) with
    | false => rfl
    | true =>
      have := h.ok u
      cases hp : s.pc u <;> simp [hp, isE4] at hu
      simp only [hp, PcOk] at this
      omega
  exact {
    ht := h.ht
    tl := by simp only [List.length_append]; have := h.tl; omega
    lt := by simp [hlen]
    uniq := by
      intro u w hu hw
      have key : ∀ x, isE4 (upd s.pc t (Pc.e4 v lt (s.nodes.length + 1)) x) = true → x = t := by
        intro x hx
        by_cases hxt : x = t
        · exact hxt
        · simp [upd_other _ _ _ _ hxt, noE4 x] at hx
      rw [key u hu, key w hw]
    ex := fun _ => ⟨t, by simp [isE4]⟩
    ok := by
      intro u
      by_cases hut : u = t
      · subst hut
        simp only [upd_same, PcOk]
        refine ⟨hlt', by omega, by simp [hlen], ?_⟩
        rw [← hlen]; simp
      · simp only [upd_other _ _ _ _ hut]
        exact PcOk.mono (noE4 u) (Nat.le_refl _) (Nat.le_refl _) (h.ok u) }

/-- what a thread at e4 knows: its CAS on `c.tail` will succeed -/
theorem Inv.e4_facts {s : St α} (h : Inv s) {t : Nat} {v : α} {lt nw : Nat} (hpc : s.pc t = .e4 v lt nw) :
    lt = s.tail ∧ nw = s.tail + 1 ∧ s.nodes.length = s.tail + 1 ∧ s.nodes[s.tail]? = some v := by
  have := h.ok t; simpa [hpc, PcOk] using this

/-- e4, CAS succeeds: the tail is swung to the linked node -/
theorem Inv.swing {s : St α} (h : Inv s) {t : Nat} {v : α} {lt nw : Nat} (hpc : s.pc t = .e4 v lt nw) :
    Inv { s with tail := nw, pc := upd s.pc t (.ret .ok) } := by
  obtain ⟨_, hnw, hlen, _⟩ := h.e4_facts hpc
  have others : ∀ u, u ≠ t → isE4 (s.pc u) = false := by
    intro u hut
    cases hu : isE4 (s.pc u) with
    | false => rfl
    | true => exact absurd (h.uniq u t hu (by simp [hpc, isE4])) hut
  exact {
    ht := by have := h.ht; show s.head ≤ nw; omega
    tl := by show nw ≤ s.nodes.length; omega
    lt := by show s.nodes.length ≤ nw + 1; omega
    uniq := by
      intro u w hu _
      by_cases hut : u = t
      · subst hut; simp [isE4] at hu
      · simp [upd_other _ _ _ _ hut, others u hut] at hu
    ex := by intro hl; have : s.nodes.length = nw + 1 := hl; omega
    ok := by
      intro u
      by_cases hut : u = t
      · subst hut; simp [PcOk]
      · simp only [upd_other _ _ _ _ hut]
        exact PcOk.mono (others u hut) (Nat.le_refl _) (by omega) (h.ok u) }

/-- d4, CAS succeeds with a non-nil next: head moves one node forward -/
theorem Inv.advance {s : St α} (h : Inv s) {t : Nat} {lh : Nat} {ln : Option Nat} {p' : Pc α}
    (hpc : s.pc t = .d4 lh ln) (hh : s.head = lh) (h1 : isE4 p' = false)
    (hok : PcOk s.nodes (lh + 1) s.tail p') :
    Inv { s with head := lh + 1, pc := upd s.pc t p' } := by
  have hd : lh < s.tail := by have := h.ok t; simp only [hpc, PcOk] at this; exact this.1
  exact {
    ht := by show lh + 1 ≤ s.tail; omega
    tl := h.tl
    lt := h.lt
    uniq := by
      intro u v hu hv
      have key : ∀ x, isE4 (upd s.pc t p' x) = true → isE4 (s.pc x) = true := by
        intro x hx
        by_cases hxt : x = t
        · subst hxt; simp [h1] at hx
        · simpa [upd_other _ _ _ _ hxt] using hx
      exact h.uniq u v (key u hu) (key v hv)
    ex := by
      intro hl
      obtain ⟨t0, h0'⟩ := h.ex hl
      have : t0 ≠ t := fun e => by subst e; simp [hpc, isE4] at h0'
      exact ⟨t0, by simp only [upd_other _ _ _ _ this]; exact h0'⟩
    ok := by
      intro u
      by_cases hut : u = t
      · subst hut; simp only [upd_same]; exact hok
      · simp only [upd_other _ _ _ _ hut]
        exact PcOk.head (by omega) (h.ok u) }

end Ekit.Linz.CLQ
