/-
Helper lemmas for C20, part 5: the copy loop over the children built by `buildLoop` establishes
`Spec.loopRel`; by induction on the fuel, `copyChildren ∘ createFieldNodes` refines `Spec.structRel`.
-/
import Ekit.Lemmas.CopierSpec

namespace Ekit.Copier
open Ekit.Go

/-- everything that stays fixed while one struct level is copied -/
structure LoopCtx (opts : Options) (atomics : List Ty) (recB : Ty → Ty → Outcome (List Node))
    (recS : Ty → Val → Ty → Val → Val → Bool) (sT dT : Ty) (sfs dfs : List Field) (sv : Val)
    (svs : List Val) (fl : Flags) : Prop where
  hsfs : sT.fields? = some sfs
  hdfs : dT.fields? = some dfs
  hsv : sv = .struct svs
  hws : wt sT sv = true
  hcs : fl.canSet = true
  hc : ConvOK opts
  hrecOK : ∀ s d kids, s.kind = .struct → d.kind = .struct → recB s d = .ok kids →
    ∃ sfs' dfs', s.fields? = some sfs' ∧ d.fields? = some dfs' ∧ KidsOK kids sfs' dfs'
  IH : ∀ s d kids, s.kind = .struct → d.kind = .struct → recB s d = .ok kids →
    ∀ x y ifl, wt s x = true → wt d y = true → ifl.canSet = true →
      (copyChildren opts kids s x false d y ifl).res = .ok () →
      recS s x d y (copyChildren opts kids s x false d y ifl).dst = true

/-- what is shown of the children `kids` responsible for the destination fields `dsuf`, which start
    at index `j0`: whenever they run successfully from a destination `d0s`, the result `d1s` has the
    same length, agrees with `d0s` below `j0`, and satisfies the specification from `j0` on -/
def LoopGoal (opts : Options) (atomics : List Ty) (m : Spec.ZeroMode) (recS : Ty → Val → Ty → Val → Val → Bool) (sT dT : Ty)
    (sfs : List Field) (sv : Val) (svs : List Val) (fl : Flags) (kids : List Node) (dsuf : List Field)
    (j0 : Nat) : Prop :=
  ∀ (dv : Val) (d0s : List Val), dv = .struct d0s → wt dT dv = true →
    (copyChildren opts kids sT sv false dT dv fl).res = .ok () →
    ∃ d1s, (copyChildren opts kids sT sv false dT dv fl).dst = .struct d1s ∧ d1s.length = d0s.length ∧
      (∀ j, j < j0 → d1s[j]? = d0s[j]?) ∧
      Spec.loopRel (specParams atomics opts m) recS sfs svs d0s d1s dsuf j0 = true

theorem untouched_core (p : Spec.Params) (recS : Ty → Val → Ty → Val → Val → Bool) (sfs : List Field)
    (svs d0s d1s : List Val) (df : Field) (rest : List Field) (j0 : Nat)
    (hlen : j0 < d0s.length) (hA : ∀ j, j < j0 + 1 → d1s[j]? = d0s[j]?)
    (hB : Spec.loopRel p recS sfs svs d0s d1s rest (j0 + 1) = true)
    (hcl : ∀ a, Spec.fieldClause p recS sfs svs df a a = true) :
    (∀ j, j < j0 → d1s[j]? = d0s[j]?) ∧ Spec.loopRel p recS sfs svs d0s d1s (df :: rest) j0 = true := by
  refine ⟨fun j hj => hA j (by omega), ?_⟩
  simp only [Spec.loopRel, hB, Bool.and_true]
  rw [hA j0 (by omega)]
  have : d0s[j0]? = some d0s[j0] := List.getElem?_eq_getElem hlen
  rw [this]
  exact hcl _

theorem dst_length {dT : Ty} {dfs : List Field} {d0s : List Val} (hdfs : dT.fields? = some dfs)
    (hw : wt dT (.struct d0s) = true) : d0s.length = dfs.length := by
  obtain ⟨vs, hvs, hwf⟩ := wt_struct dT dfs _ hdfs hw
  cases hvs
  exact wtFields_length dfs _ hwf

/-- a destination field for which no child exists -/
theorem goal_skip {opts : Options} {atomics : List Ty} {m : Spec.ZeroMode} {recB : Ty → Ty → Outcome (List Node)}
    {recS : Ty → Val → Ty → Val → Val → Bool} {sT dT : Ty} {sfs dfs : List Field} {sv : Val}
    {svs : List Val} {fl : Flags} (ctx : LoopCtx opts atomics recB recS sT dT sfs dfs sv svs fl)
    (df : Field) (rest : List Field) (j0 : Nat) (kids : List Node) (hdf : dfs[j0]? = some df)
    (hcl : ∀ a, Spec.fieldClause (specParams atomics opts m) recS sfs svs df a a = true)
    (hrest : LoopGoal opts atomics m recS sT dT sfs sv svs fl kids rest (j0 + 1)) :
    LoopGoal opts atomics m recS sT dT sfs sv svs fl kids (df :: rest) j0 := by
  intro dv d0s hdv hw hres
  obtain ⟨d1s, h1, h2, hA, hB⟩ := hrest dv d0s hdv hw hres
  have hlen : j0 < d0s.length := by
    rw [dst_length ctx.hdfs (hdv ▸ hw)]
    rcases Nat.lt_or_ge j0 dfs.length with h | h
    · exact h
    · simp [List.getElem?_eq_none h] at hdf
  obtain ⟨hA', hB'⟩ := untouched_core _ recS sfs svs d0s d1s df rest j0 hlen hA hB hcl
  exact ⟨d1s, h1, h2, hA', hB'⟩

/-- a destination field with a child -/
theorem goal_touched {opts : Options} {atomics : List Ty} {m : Spec.ZeroMode} {recB : Ty → Ty → Outcome (List Node)}
    {recS : Ty → Val → Ty → Val → Val → Bool} {sT dT : Ty} {sfs dfs : List Field} {sv : Val}
    {svs : List Val} {fl : Flags} (ctx : LoopCtx opts atomics recB recS sT dT sfs dfs sv svs fl)
    (df : Field) (rest : List Field) (j0 : Nat) (node : Node) (more : List Node) (i : Nat) (sf : Field)
    (hdf : dfs[j0]? = some df) (hname : node.name = fname df) (hsi : node.srcIndex = i)
    (hdi : node.dstIndex = j0) (he : fexp df = true) (hes : fexp sf = true)
    (hi : Spec.srcFieldIdx? sfs (fname df) = some i) (hsf : sfs[i]? = some sf)
    (hnok : NodeOK node (fty sf) (fty df))
    (hfield : ∀ sfv dfv, wt (fty sf) sfv = true → wt (fty df) dfv = true →
      (copyNode opts node (fty sf) sfv false (fty df) dfv (fl.field true)).res = .ok () →
      Spec.fieldRel (specParams atomics opts m) recS (fname df) (fty sf) sfv (fty df) dfv
        (copyNode opts node (fty sf) sfv false (fty df) dfv (fl.field true)).dst = true)
    (hrest : LoopGoal opts atomics m recS sT dT sfs sv svs fl more rest (j0 + 1)) :
    LoopGoal opts atomics m recS sT dT sfs sv svs fl (node :: more) (df :: rest) j0 := by
  intro dv d0s hdv hw hres
  have hlen : j0 < d0s.length := by
    rw [dst_length ctx.hdfs (hdv ▸ hw)]
    rcases Nat.lt_or_ge j0 dfs.length with h | h
    · exact h
    · simp [List.getElem?_eq_none h] at hdf
  by_cases hig : opts.inIgnore node.name = true
  · -- ignored: the child is not run
    have e : copyChildren opts (node :: more) sT sv false dT dv fl = copyChildren opts more sT sv false dT dv fl := by
      simp only [copyChildren, hig, if_true]
    rw [e] at hres ⊢
    obtain ⟨d1s, h1, h2, hA, hB⟩ := hrest dv d0s hdv hw hres
    have hcl : ∀ a, Spec.fieldClause (specParams atomics opts m) recS sfs svs df a a = true := by
      intro a
      apply fieldClause_untouched
      refine Or.inr (Or.inl ?_)
      rw [← hname]
      exact hig
    obtain ⟨hA', hB'⟩ := untouched_core _ recS sfs svs d0s d1s df rest j0 hlen hA hB hcl
    exact ⟨d1s, h1, h2, hA', hB'⟩
  · obtain ⟨sfv, hsfv, hwsfv⟩ := wt_field sT sfs sv i sf ctx.hsfs ctx.hws hsf
    obtain ⟨dfv, hdfv, hwdfv⟩ := wt_field dT dfs dv j0 df ctx.hdfs hw hdf
    have hfl : FlOK (fl.field true) (fty df) dfv := by
      have := ctx.hcs
      simp only [Flags.canSet, Bool.and_eq_true, Bool.not_eq_true'] at this
      exact ⟨by simp [Flags.field, this.2], Or.inl (by simp [Flags.field, this.1])⟩
    have hflcs : (fl.field true).canSet = true := by
      have := ctx.hcs
      simpa [Flags.field, Flags.canSet] using this
    have htot := copyNode_total opts ctx.hc node (fty sf) sfv (fty df) dfv (fl.field true) hnok hwsfv hwdfv hfl
    have e : copyChildren opts (node :: more) sT sv false dT dv fl =
        (match (copyNode opts node (fty sf) sfv false (fty df) dfv (fl.field true)).res with
          | .ok _ => copyChildren opts more sT sv false dT
              (dv.setField j0 (copyNode opts node (fty sf) sfv false (fty df) dfv (fl.field true)).dst) fl
          | e => ⟨dv.setField j0 (copyNode opts node (fty sf) sfv false (fty df) dfv (fl.field true)).dst, e⟩) := by
      simp only [copyChildren, hig, Bool.false_eq_true, if_false, ctx.hsfs, ctx.hdfs, hsi, hdi, hsf, hdf,
        hsfv, hdfv, hes, he, Bool.not_true, Bool.or_false]
      generalize (copyNode opts node (fty sf) sfv false (fty df) dfv (fl.field true)).res = R
      cases R <;> rfl
    rw [e] at hres ⊢
    cases hr1 : (copyNode opts node (fty sf) sfv false (fty df) dfv (fl.field true)).res with
    | err e' => rw [hr1] at hres; simp at hres
    | panic m => rw [hr1] at hres; simp at hres
    | ok u =>
      rw [hr1] at hres
      simp only [] at hres ⊢
      have hrel := hfield sfv dfv hwsfv hwdfv hr1
      generalize (copyNode opts node (fty sf) sfv false (fty df) dfv (fl.field true)).dst = x at hres hrel htot ⊢
      subst hdv
      have hw' : wt dT ((Val.struct d0s).setField j0 x) = true :=
        wt_setField dT dfs _ j0 df x ctx.hdfs hw hdf htot.2
      obtain ⟨d1s, h1, h2, hA, hB⟩ := hrest ((Val.struct d0s).setField j0 x) (d0s.set j0 x) rfl hw' hres
      refine ⟨d1s, h1, by simpa using h2, ?_, ?_⟩
      · intro j hj
        rw [hA j (by omega), List.getElem?_set_ne (by omega)]
      · have hd1 : d1s[j0]? = some x := by
          rw [hA j0 (by omega)]
          simp [hlen]
        have hd0 : d0s[j0]? = some dfv := by simpa [Val.field?] using hdfv
        have hsv' : svs[i]? = some sfv := by
          have := ctx.hsv
          subst this
          simpa [Val.field?] using hsfv
        simp only [Spec.loopRel, hd0, hd1]
        rw [← loopRel_congr _ recS sfs svs (d0s.set j0 x) d0s d1s rest (j0 + 1)
          (fun j hj => List.getElem?_set_ne (by omega)), hB, Bool.and_true]
        have hig' : (specParams atomics opts m).ignore.contains (fname df) = false := by
          rw [← hname]
          simpa [specParams, Options.inIgnore] using hig
        exact fieldClause_touched _ recS sfs svs df dfv x i sf sfv he hig' hi hsf hsv' hrel

/-- the copy loop over what `buildLoop` built for the destination fields `dsuf` (preceded by `pre`) -/
theorem loop_spec {opts : Options} {atomics : List Ty} {m : Spec.ZeroMode} (hm : m ≠ .copy)
    {recB : Ty → Ty → Outcome (List Node)}
    {recS : Ty → Val → Ty → Val → Val → Bool} {sT dT : Ty} {sfs dfs : List Field} {sv : Val}
    {svs : List Val} {fl : Flags} (ctx : LoopCtx opts atomics recB recS sT dT sfs dfs sv svs fl) :
    ∀ (dsuf pre : List Field) (kids : List Node), dfs = pre ++ dsuf →
      buildLoop recB atomics sfs (fieldMap sfs) dsuf pre.length = .ok kids →
      LoopGoal opts atomics m recS sT dT sfs sv svs fl kids dsuf pre.length
  | [], pre, kids, _, hb => by
      simp [buildLoop] at hb
      subst hb
      intro dv d0s hdv _ _
      exact ⟨d0s, by simp [copyChildren, hdv], rfl, fun _ _ => rfl, by simp [Spec.loopRel]⟩
  | df :: rest, pre, kids, hdfs, hb => by
      rw [buildLoop_cons] at hb
      have inv := planField_inv atomics sfs df
      have hdf : dfs[pre.length]? = some df := by rw [hdfs]; simp
      have ih := loop_spec hm ctx rest (pre ++ [df])
      simp only [List.length_append, List.length_cons, List.length_nil, Nat.zero_add, List.append_assoc,
        List.cons_append, List.nil_append] at ih
      have hsvs : ∀ (i : Nat) (sf : Field), sfs[i]? = some sf → ∃ sfv, svs[i]? = some sfv := by
        intro i sf hsf
        obtain ⟨sfv, h1, _⟩ := wt_field sT sfs sv i sf ctx.hsfs ctx.hws hsf
        have := ctx.hsv
        subst this
        exact ⟨sfv, by simpa [Val.field?] using h1⟩
      cases hp : planField atomics sfs (fieldMap sfs) df with
      | skip =>
        rw [hp] at hb inv
        simp only [] at hb
        refine goal_skip ctx df rest pre.length kids hdf ?_ (ih kids hdfs hb)
        intro a
        apply fieldClause_untouched
        rcases inv with h | h | ⟨_, i, sf, h1, h2, h3, h4, h5, h6⟩
        · exact Or.inl h
        · exact Or.inr (Or.inr (Or.inl h))
        · obtain ⟨sfv, hsfv⟩ := hsvs i sf h2
          exact Or.inr (Or.inr (Or.inr ⟨i, sf, sfv, h1, h2, hsfv, h3, h4, h5, h6⟩))
      | leaf i =>
        rw [hp] at hb inv
        simp only [] at hb
        obtain ⟨hed, sf, hi, hsf, hes, hm1, hm2, hleaf⟩ := inv
        cases hb' : buildLoop recB atomics sfs (fieldMap sfs) rest (pre.length + 1) with
        | ok more =>
          rw [hb'] at hb
          simp at hb
          subst hb
          refine goal_touched ctx df rest pre.length _ more i sf hdf rfl rfl rfl hed hes hi hsf
            (by simp [NodeOK]) ?_ (ih more hdfs hb')
          intro sfv dfv hws hwd _
          have hcs : (fl.field true).canSet = true := by
            have := ctx.hcs
            simpa [Flags.field, Flags.canSet] using this
          exact leaf_fieldRel opts atomics m hm recS (fname df) i pre.length (fty sf) (fty df) sfv dfv _ hm1 hm2 hleaf
            hws hwd hcs
        | err e => rw [hb'] at hb; simp at hb
        | panic m => rw [hb'] at hb; simp at hb
      | node i fs fd =>
        rw [hp] at hb inv
        simp only [] at hb
        obtain ⟨hed, sf, hi, hsf, hes, hm1, hm2, hleaf, hfs, hfd, hks, hkd⟩ := inv
        cases hr : recB fs fd with
        | ok kids' =>
          rw [hr] at hb
          simp only [] at hb
          cases hb' : buildLoop recB atomics sfs (fieldMap sfs) rest (pre.length + 1) with
          | ok more =>
            rw [hb'] at hb
            simp at hb
            subst hb
            obtain ⟨sfs', dfs', h1, h2, h3⟩ := ctx.hrecOK fs fd kids' hks hkd hr
            have hnok : NodeOK (.mk (fname df) i pre.length false kids') (fty sf) (fty df) := by
              simp only [NodeOK]
              exact Or.inr ⟨sfs', dfs', hfs ▸ h1, hfd ▸ h2, h3⟩
            refine goal_touched ctx df rest pre.length _ more i sf hdf rfl rfl rfl hed hes hi hsf hnok ?_
              (ih more hdfs hb')
            intro sfv dfv hws hwd hres
            have hcs : (fl.field true).canSet = true := by
              have := ctx.hcs
              simpa [Flags.field, Flags.canSet] using this
            subst hfs hfd
            exact node_fieldRel opts atomics m recS (fname df) i pre.length kids' (fty sf) (fty df) sfv dfv _ hm1 hm2
              hleaf hks hkd hws hwd hcs (ctx.IH _ _ kids' hks hkd hr) hres
          | err e => rw [hb'] at hb; simp at hb
          | panic m => rw [hb'] at hb; simp at hb
        | err e => rw [hr] at hb; simp at hb
        | panic m => rw [hr] at hb; simp at hb
      | fail e => rw [hp] at hb; simp at hb
      | panic m => rw [hp] at hb; simp at hb

/-- **refinement**: the children built for `(sT, dT)`, run successfully on well-typed values, relate
    source, destination-before and destination-after as `Spec.structRel` demands -/
theorem copyChildren_spec (opts : Options) (atomics : List Ty) (m : Spec.ZeroMode) (hm : m ≠ .copy)
    (hc : ConvOK opts) :
    ∀ (fuel : Nat) (sT dT : Ty) (kids : List Node), sT.kind = .struct → dT.kind = .struct →
      createFieldNodes atomics fuel sT dT = .ok kids →
      ∀ (sv dv : Val) (fl : Flags), wt sT sv = true → wt dT dv = true → fl.canSet = true →
        (copyChildren opts kids sT sv false dT dv fl).res = .ok () →
        Spec.structRel (specParams atomics opts m) fuel sT sv dT dv
          (copyChildren opts kids sT sv false dT dv fl).dst = true
  | 0, _, _, _, _, _, hb => by simp [createFieldNodes] at hb
  | fuel + 1, sT, dT, kids, hks, hkd, hb => by
      intro sv dv fl hws hwd hcs hres
      obtain ⟨sfs, hsfs⟩ := fields_of_kind_struct sT hks
      obtain ⟨dfs, hdfs⟩ := fields_of_kind_struct dT hkd
      simp only [createFieldNodes, hsfs, hdfs] at hb
      obtain ⟨svs, rfl, _⟩ := wt_struct sT sfs sv hsfs hws
      obtain ⟨d0s, rfl, _⟩ := wt_struct dT dfs dv hdfs hwd
      have ctx : LoopCtx opts atomics (createFieldNodes atomics fuel) (Spec.structRel (specParams atomics opts m) fuel)
          sT dT sfs dfs (.struct svs) svs fl :=
        { hsfs := hsfs, hdfs := hdfs, hsv := rfl, hws := hws, hcs := hcs, hc := hc
          hrecOK := fun s d k a b c => createFieldNodes_ok atomics fuel s d k a b c
          IH := fun s d k a b c x y ifl hx hy hi hr =>
            copyChildren_spec opts atomics m hm hc fuel s d k a b c x y ifl hx hy hi hr }
      have := loop_spec hm ctx dfs [] kids rfl (by simpa using hb) (.struct d0s) d0s rfl hwd hres
      obtain ⟨d1s, h1, h2, _, h4⟩ := this
      simp only [Spec.structRel, hsfs, hdfs, h1]
      simp only [List.length_nil] at h4
      simp [h2, h4]

end Ekit.Copier
