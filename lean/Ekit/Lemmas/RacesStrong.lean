import Ekit.Lemmas.Races
/-!
Review addition for C15: race freedom with respect to the *smallest* happens-before relation.

`Ekit/Conc/Lockset.lean` defines `HB` with three generous kinds of synchronisation edge:
  (a) release → any later conflicting acquire of the same lock            (exactly the Go memory model),
  (b) atomic store → ANY later atomic access of the same location        (Go: only the access that *observes* it),
  (c) publish of token k → ANY later receive of token k                  (Go: only the matching receive).
`RaceFree` is "no conflicting pair unordered by `HB`".  Because (b) and (c) over-approximate the memory model's
synchronized-before, a larger `HB` makes `RaceFree` a WEAKER statement: a trace could be `RaceFree` in the
model and racy for Go.  The proof of `disciplined_raceFree` never uses an edge of kind (b) and uses (c) only for
the publish that the conformance hypothesis names.  This file makes that explicit:

* `HBM tr M` is the transitive closure of program order, lock edges (a), and the pairs `(p, q) ∈ M` of a
  *matching* `M` of synchronising events (a publish with the receive it is matched with; an atomic store with an
  atomic access that observes it).  `HBM tr M ⊆ HB tr`.
* `ConformsM` / `FromTableM` are `Conforms` / `FromTable` with "the receive is matched (`M`) with an earlier
  publish".
* `disciplined_ordered`: every conflicting pair of a well-formed conforming trace is ordered by `HBM tr M`;
  hence by EVERY transitive relation that contains program order, lock edges and `M` (`ordered_by_any_hb`) — in
  particular by Go's happens-before when `M` is the run-time's matching.  The original theorem is a corollary.
-/
namespace Ekit.Conc.Lockset

section
variable {Lock Loc Tok : Type}

/-- the events at `i`, `j` are a pair the matching `M` may contain: publish/receive of one token, or an atomic
    store and an atomic access of one location -/
def MatchShape (e₁ e₂ : Ev Lock Loc Tok) : Prop :=
  (∃ t t' k, e₁ = .publish t k ∧ e₂ = .receive t' k) ∨ (∃ t t' x w', e₁ = .atomic t x true ∧ e₂ = .atomic t' x w')

/-- one step of the minimal happens-before -/
def EdgeM (tr : Trace Lock Loc Tok) (M : Nat → Nat → Prop) (i j : Nat) : Prop :=
  i < j ∧ ∃ e₁ e₂, tr[i]? = some e₁ ∧ tr[j]? = some e₂ ∧
    (e₁.tid = e₂.tid ∨
     (∃ t t' l m m', e₁ = .rel t l m ∧ e₂ = .acq t' l m' ∧ (m = .excl ∨ m' = .excl)) ∨
     (M i j ∧ MatchShape e₁ e₂))

inductive HBM (tr : Trace Lock Loc Tok) (M : Nat → Nat → Prop) : Nat → Nat → Prop where
  | base {i j} : EdgeM tr M i j → HBM tr M i j
  | trans {i j k} : HBM tr M i j → HBM tr M j k → HBM tr M i k

theorem EdgeM.toEdge {tr : Trace Lock Loc Tok} {M : Nat → Nat → Prop} {i j : Nat} (h : EdgeM tr M i j) : Edge tr i j := by
  obtain ⟨hij, e₁, e₂, h₁, h₂, h⟩ := h
  refine ⟨hij, e₁, e₂, h₁, h₂, ?_⟩
  rcases h with h | ⟨t, t', l, m, m', rfl, rfl, hm⟩ | ⟨_, ⟨t, t', k, rfl, rfl⟩ | ⟨t, t', x, w', rfl, rfl⟩⟩
  · exact .inl h
  · exact .inr (.lock t t' l m m' hm)
  · exact .inr (.pub t t' k)
  · exact .inr (.atomic t t' x w')

/-- the minimal happens-before is contained in the generous one of `Lockset.lean` -/
theorem HBM.toHB {tr : Trace Lock Loc Tok} {M : Nat → Nat → Prop} {i j : Nat} (h : HBM tr M i j) : HB tr i j := by
  induction h with
  | base e => exact .base e.toEdge
  | trans _ _ ih₁ ih₂ => exact .trans ih₁ ih₂

/-- …and in every transitive relation that contains program order, the lock edges and the matched pairs -/
theorem HBM.le_any {tr : Trace Lock Loc Tok} {M : Nat → Nat → Prop} (R : Nat → Nat → Prop)
    (htrans : ∀ i j k, R i j → R j k → R i k)
    (hpo : ∀ i j e₁ e₂, i < j → tr[i]? = some e₁ → tr[j]? = some e₂ → e₁.tid = e₂.tid → R i j)
    (hlock : ∀ i j t t' l m m', i < j → tr[i]? = some (.rel t l m) → tr[j]? = some (.acq t' l m') →
      (m = .excl ∨ m' = .excl) → R i j)
    (hM : ∀ i j, i < j → M i j → R i j) {i j : Nat} (h : HBM tr M i j) : R i j := by
  induction h with
  | base e =>
    obtain ⟨hij, e₁, e₂, h₁, h₂, h⟩ := e
    rcases h with h | ⟨t, t', l, m, m', rfl, rfl, hm⟩ | ⟨hm, _⟩
    · exact hpo _ _ e₁ e₂ hij h₁ h₂ h
    · exact hlock _ _ t t' l m m' hij h₁ h₂ hm
    · exact hM _ _ hij hm
  | trans _ _ ih₁ ih₂ => exact htrans _ _ _ ih₁ ih₂

theorem HBM.po {tr : Trace Lock Loc Tok} {M : Nat → Nat → Prop} {i j : Nat} {e₁ e₂ : Ev Lock Loc Tok} (hij : i < j)
    (h₁ : tr[i]? = some e₁) (h₂ : tr[j]? = some e₂) (ht : e₁.tid = e₂.tid) : HBM tr M i j :=
  .base ⟨hij, e₁, e₂, h₁, h₂, .inl ht⟩

theorem HBM.lock {tr : Trace Lock Loc Tok} {M : Nat → Nat → Prop} {i j : Nat} {t t' : Tid} {l : Lock} {m m' : Mode}
    (hij : i < j) (h₁ : tr[i]? = some (.rel t l m)) (h₂ : tr[j]? = some (.acq t' l m'))
    (hm : m = .excl ∨ m' = .excl) : HBM tr M i j :=
  .base ⟨hij, _, _, h₁, h₂, .inr (.inl ⟨t, t', l, m, m', rfl, rfl, hm⟩)⟩

theorem HBM.pub {tr : Trace Lock Loc Tok} {M : Nat → Nat → Prop} {i j : Nat} {t t' : Tid} {k : Tok}
    (hij : i < j) (h₁ : tr[i]? = some (.publish t k)) (h₂ : tr[j]? = some (.receive t' k)) (hm : M i j) :
    HBM tr M i j :=
  .base ⟨hij, _, _, h₁, h₂, .inr (.inr ⟨hm, .inl ⟨t, t', k, rfl, rfl⟩⟩)⟩

/-- the lockset argument, in the minimal relation -/
theorem lock_ordersM {tr : Trace Lock Loc Tok} {M : Nat → Nat → Prop} (wf : WellFormed tr) {i j : Nat} {t t' : Tid}
    {l : Lock} {m m' : Mode} {eᵢ eⱼ : Ev Lock Loc Tok}
    (hij : i < j) (hne : t ≠ t') (hi : tr[i]? = some eᵢ) (hj : tr[j]? = some eⱼ)
    (hti : eᵢ.tid = t) (htj : eⱼ.tid = t') (hm : m = .excl ∨ m' = .excl)
    (h₁ : HoldsAt tr i t l m) (h₂ : HoldsAt tr j t' l m') : HBM tr M i j := by
  obtain ⟨a, ha_lt, ha_ev, ha_norel⟩ := h₁
  obtain ⟨a', ha'_lt, ha'_ev, ha'_norel⟩ := h₂
  have hm' : m' = .excl ∨ m = .excl := hm.symm
  rcases Nat.lt_trichotomy a' i with hlt | heq | hgt
  · exfalso
    have hane : a ≠ a' := by
      intro h; subst h
      rw [ha_ev] at ha'_ev
      injection ha'_ev with h; injection h with h1; exact hne h1
    rcases Nat.lt_or_gt_of_ne hane with h | h
    · exact wf a' t' l m' ha'_ev t m hne hm' ⟨a, h, ha_ev, fun k hk1 hk2 => ha_norel k hk1 (Nat.lt_trans hk2 hlt)⟩
    · exact wf a t l m ha_ev t' m' (Ne.symm hne) hm
        ⟨a', h, ha'_ev, fun k hk1 hk2 => ha'_norel k hk1 (Nat.lt_trans hk2 (Nat.lt_trans ha_lt hij))⟩
  · exfalso
    subst heq
    rw [hi] at ha'_ev
    injection ha'_ev with h
    subst h
    exact hne (hti.symm.trans rfl)
  · have hnh : ¬ HoldsAt tr a' t l m := wf a' t' l m' ha'_ev t m hne hm'
    have hex : ∃ r, a < r ∧ r < a' ∧ tr[r]? = some (.rel t l m) := by
      apply Classical.byContradiction
      intro hno
      exact hnh ⟨a, Nat.lt_trans ha_lt hgt, ha_ev, fun k hk1 hk2 hk => hno ⟨k, hk1, hk2, hk⟩⟩
    obtain ⟨r, har, hra', hr⟩ := hex
    have hir : i ≤ r := by
      apply Classical.byContradiction
      intro h
      exact ha_norel r har (Nat.lt_of_not_le h) hr
    have h2 : HBM tr M r a' := HBM.lock hra' hr ha'_ev hm
    have h3 : HBM tr M a' j := HBM.po ha'_lt ha'_ev hj htj.symm
    rcases Nat.lt_or_eq_of_le hir with h | h
    · have h1 : HBM tr M i r := HBM.po h hi hr hti
      exact .trans (.trans h1 h2) h3
    · subst h
      exact .trans h2 h3

/-- `Conforms` with a matching: the receive of a token is *matched* with an earlier publish of it -/
structure ConformsM (S : Setup Loc Tok) (disc : Loc → Discipline Lock) (ini : Nat → Prop) (M : Nat → Nat → Prop)
    (tr : Trace Lock Loc Tok) : Prop where
  init_by_creator : ∀ (i : Nat) (e : Ev Lock Loc Tok) (acc : Acc Loc), tr[i]? = some e → e.acc? = some acc → ini i →
    acc.t = S.creator (S.owner acc.x) ∧ ∀ p, p ≤ i → tr[p]? ≠ some (Ev.publish acc.t (S.owner acc.x))
  foreign_after_receive : ∀ (j : Nat) (e : Ev Lock Loc Tok) (acc : Acc Loc), tr[j]? = some e → e.acc? = some acc →
    acc.t ≠ S.creator (S.owner acc.x) → ∃ q, q < j ∧ tr[q]? = some (Ev.receive acc.t (S.owner acc.x))
  receive_after_publish : ∀ (q : Nat) (t : Tid) (k : Tok), tr[q]? = some (Ev.receive t k) →
    ∃ p t', p < q ∧ M p q ∧ tr[p]? = some (Ev.publish t' k) ∧
      (t' = S.creator k ∨ ∃ q', q' < p ∧ tr[q']? = some (Ev.receive t' k))
  disciplined : ∀ (i : Nat) (e : Ev Lock Loc Tok) (acc : Acc Loc), tr[i]? = some e → e.acc? = some acc → ¬ ini i →
    Obeys tr i acc (disc acc.x)

/-- forgetting the matching gives the original notion (with the total matching it IS the original notion) -/
theorem ConformsM.toConforms {S : Setup Loc Tok} {disc : Loc → Discipline Lock} {ini : Nat → Prop}
    {M : Nat → Nat → Prop} {tr : Trace Lock Loc Tok} (c : ConformsM S disc ini M tr) : Conforms S disc ini tr where
  init_by_creator := c.init_by_creator
  foreign_after_receive := c.foreign_after_receive
  receive_after_publish := fun q t k h => by
    obtain ⟨p, t', h1, _, h3, h4⟩ := c.receive_after_publish q t k h
    exact ⟨p, t', h1, h3, h4⟩
  disciplined := c.disciplined

theorem Conforms.toConformsM {S : Setup Loc Tok} {disc : Loc → Discipline Lock} {ini : Nat → Prop}
    {tr : Trace Lock Loc Tok} (c : Conforms S disc ini tr) : ConformsM S disc ini (fun _ _ => True) tr where
  init_by_creator := c.init_by_creator
  foreign_after_receive := c.foreign_after_receive
  receive_after_publish := fun q t k h => by
    obtain ⟨p, t', h1, h3, h4⟩ := c.receive_after_publish q t k h
    exact ⟨p, t', h1, trivial, h3, h4⟩
  disciplined := c.disciplined

theorem receive_hbm_creator_publish {S : Setup Loc Tok} {disc : Loc → Discipline Lock} {ini : Nat → Prop}
    {M : Nat → Nat → Prop} {tr : Trace Lock Loc Tok} (c : ConformsM S disc ini M tr) :
    ∀ q t k, tr[q]? = some (.receive t k) →
      ∃ p₀, p₀ < q ∧ tr[p₀]? = some (.publish (S.creator k) k) ∧ HBM tr M p₀ q := by
  intro q
  induction q using Nat.strongRecOn with
  | _ q ih =>
    intro t k hq
    obtain ⟨p, t', hpq, hm, hp, hor⟩ := c.receive_after_publish q t k hq
    have hedge : HBM tr M p q := HBM.pub hpq hp hq hm
    rcases hor with h | ⟨q', hq'p, hq'⟩
    · subst h
      exact ⟨p, hpq, hp, hedge⟩
    · obtain ⟨p₀, hp₀, hp₀ev, hhb⟩ := ih q' (Nat.lt_trans hq'p hpq) t' k hq'
      have hpo : HBM tr M q' p := HBM.po hq'p hq' hp rfl
      exact ⟨p₀, Nat.lt_trans hp₀ (Nat.lt_trans hq'p hpq), hp₀ev, .trans (.trans hhb hpo) hedge⟩

theorem init_hbm_foreign {S : Setup Loc Tok} {disc : Loc → Discipline Lock} {ini : Nat → Prop}
    {M : Nat → Nat → Prop} {tr : Trace Lock Loc Tok} (c : ConformsM S disc ini M tr) {i j : Nat}
    {eᵢ eⱼ : Ev Lock Loc Tok} {aᵢ aⱼ : Acc Loc} (hi : tr[i]? = some eᵢ) (hj : tr[j]? = some eⱼ)
    (hai : eᵢ.acc? = some aᵢ) (haj : eⱼ.acc? = some aⱼ) (hx : S.owner aᵢ.x = S.owner aⱼ.x) (hne : aᵢ.t ≠ aⱼ.t)
    (hini : ini i) : HBM tr M i j := by
  obtain ⟨hcr, hnopub⟩ := c.init_by_creator i eᵢ aᵢ hi hai hini
  have hforeign : aⱼ.t ≠ S.creator (S.owner aⱼ.x) := by
    intro h; apply hne; rw [hcr, hx, h]
  obtain ⟨q, hqj, hq⟩ := c.foreign_after_receive j eⱼ aⱼ hj haj hforeign
  obtain ⟨p₀, _, hp₀ev, hhb⟩ := receive_hbm_creator_publish c q aⱼ.t (S.owner aⱼ.x) hq
  have hip₀ : i < p₀ := by
    apply Classical.byContradiction
    intro h
    apply hnopub p₀ (Nat.le_of_not_lt h)
    rw [hp₀ev, hcr, hx]
  have h1 : HBM tr M i p₀ := HBM.po hip₀ hi hp₀ev (by rw [Ev.acc?_tid hai, hcr, hx]; rfl)
  have h3 : HBM tr M q j := HBM.po hqj hq hj (by rw [Ev.acc?_tid haj]; rfl)
  exact .trans (.trans h1 hhb) h3

/-- **Strong form of the main theorem.**  In a well-formed trace that conforms to a discipline table (with
    matching `M`), every two conflicting accesses are ordered by the MINIMAL happens-before `HBM tr M`:
    program order, release→acquire of one lock, and the matched publish→receive pairs — no atomic edges, no
    unmatched publish→receive edges. -/
theorem disciplined_ordered {S : Setup Loc Tok} {disc : Loc → Discipline Lock} {ini : Nat → Prop}
    {M : Nat → Nat → Prop} {tr : Trace Lock Loc Tok} (wf : WellFormed tr) (c : ConformsM S disc ini M tr)
    {i j : Nat} {eᵢ eⱼ : Ev Lock Loc Tok} {aᵢ aⱼ : Acc Loc} (hij : i < j)
    (hi : tr[i]? = some eᵢ) (hj : tr[j]? = some eⱼ) (hai : eᵢ.acc? = some aᵢ) (haj : eⱼ.acc? = some aⱼ)
    (hc : Conflict aᵢ aⱼ) : HBM tr M i j := by
  obtain ⟨hx, hne, hw, hna⟩ := hc
  have hown : S.owner aᵢ.x = S.owner aⱼ.x := by rw [hx]
  by_cases hini_i : ini i
  · exact init_hbm_foreign c hi hj hai haj hown hne hini_i
  by_cases hini_j : ini j
  · exact (foreign_not_before_init c.toConforms hij hi hj hai haj hown hne hini_j).elim
  have oi := c.disciplined i eᵢ aᵢ hi hai hini_i
  have oj := c.disciplined j eⱼ aⱼ hj haj hini_j
  rw [← hx] at oj
  have hti := Ev.acc?_tid hai
  have htj := Ev.acc?_tid haj
  cases hd : disc aᵢ.x with
  | atomicOnly =>
    rw [hd] at oi oj
    exact (hna ⟨oi, oj⟩).elim
  | readOnly =>
    rw [hd] at oi oj
    simp only [Obeys] at oi oj
    rcases hw with h | h
    · rw [oi] at h; cases h
    · rw [oj] at h; cases h
  | threadLocal t =>
    rw [hd] at oi oj
    simp only [Obeys] at oi oj
    exact (hne (oi.trans oj.symm)).elim
  | lockProtected l =>
    rw [hd] at oi oj
    simp only [Obeys] at oi oj
    cases hwi : aᵢ.w <;> cases hwj : aⱼ.w <;> simp only [hwi, hwj] at oi oj hw
    · rcases hw with h | h <;> cases h
    · rcases oi with oi | oi
      · exact lock_ordersM wf hij hne hi hj hti htj (.inr rfl) oi oj
      · exact lock_ordersM wf hij hne hi hj hti htj (.inr rfl) oi oj
    · rcases oj with oj | oj
      · exact lock_ordersM wf hij hne hi hj hti htj (.inl rfl) oi oj
      · exact lock_ordersM wf hij hne hi hj hti htj (.inl rfl) oi oj
    · exact lock_ordersM wf hij hne hi hj hti htj (.inl rfl) oi oj

/-- race freedom with respect to an arbitrary happens-before relation `R` -/
def RaceFreeWrt (tr : Trace Lock Loc Tok) (R : Nat → Nat → Prop) : Prop :=
  ∀ i j eᵢ eⱼ aᵢ aⱼ, i < j → tr[i]? = some eᵢ → tr[j]? = some eⱼ → eᵢ.acc? = some aᵢ → eⱼ.acc? = some aⱼ →
    Conflict aᵢ aⱼ → R i j

theorem raceFreeWrt_HB_iff (tr : Trace Lock Loc Tok) : RaceFreeWrt tr (HB tr) ↔ RaceFree tr := by
  constructor
  · intro h i j ⟨hij, eᵢ, eⱼ, aᵢ, aⱼ, hi, hj, hai, haj, hc, hn⟩
    exact hn (h i j eᵢ eⱼ aᵢ aⱼ hij hi hj hai haj hc)
  · intro h i j eᵢ eⱼ aᵢ aⱼ hij hi hj hai haj hc
    apply Classical.byContradiction
    intro hn
    exact h i j ⟨hij, eᵢ, eⱼ, aᵢ, aⱼ, hi, hj, hai, haj, hc, hn⟩

/-- a smaller happens-before gives a stronger race-freedom statement -/
theorem RaceFreeWrt.mono {tr : Trace Lock Loc Tok} {R R' : Nat → Nat → Prop} (h : ∀ i j, R i j → R' i j)
    (hr : RaceFreeWrt tr R) : RaceFreeWrt tr R' :=
  fun i j eᵢ eⱼ aᵢ aⱼ hij hi hj hai haj hc => h i j (hr i j eᵢ eⱼ aᵢ aⱼ hij hi hj hai haj hc)

theorem disciplined_raceFreeWrt_min {S : Setup Loc Tok} {disc : Loc → Discipline Lock} {ini : Nat → Prop}
    {M : Nat → Nat → Prop} {tr : Trace Lock Loc Tok} (wf : WellFormed tr) (c : ConformsM S disc ini M tr) :
    RaceFreeWrt tr (HBM tr M) :=
  fun _ _ _ _ _ _ hij hi hj hai haj hc => disciplined_ordered wf c hij hi hj hai haj hc

/-- hand-off through an atomic location, minimal form: the store happens before the atomic access that
    OBSERVES it (`M i j`), not before every later access -/
theorem handoff_atomicM {tr : Trace Lock Loc Tok} {M : Nat → Nat → Prop} {i₀ i j j₀ : Nat} {t t' : Tid} {x : Loc}
    {w' : Bool} {e₀ e₁ : Ev Lock Loc Tok}
    (h0 : tr[i₀]? = some e₀) (hi : tr[i]? = some (.atomic t x true)) (hj : tr[j]? = some (.atomic t' x w'))
    (h1 : tr[j₀]? = some e₁) (ht0 : e₀.tid = t) (ht1 : e₁.tid = t')
    (hi0 : i₀ < i) (hij : i < j) (hj1 : j < j₀) (hobs : M i j) : HBM tr M i₀ j₀ :=
  .trans (.trans (HBM.po hi0 h0 hi ht0)
    (.base ⟨hij, _, _, hi, hj, .inr (.inr ⟨hobs, .inr ⟨t, t', x, w', rfl, rfl⟩⟩)⟩)) (HBM.po hj1 hj h1 ht1.symm)

/-- hand-off through a lock, minimal form -/
theorem handoff_lockM {tr : Trace Lock Loc Tok} {M : Nat → Nat → Prop} (wf : WellFormed tr) {i₀ i j j₀ : Nat}
    {t t' : Tid} {l : Lock} {m : Mode} {e₀ eᵢ eⱼ e₁ : Ev Lock Loc Tok}
    (h0 : tr[i₀]? = some e₀) (hi : tr[i]? = some eᵢ) (hj : tr[j]? = some eⱼ) (h1 : tr[j₀]? = some e₁)
    (ht0 : e₀.tid = t) (hti : eᵢ.tid = t) (htj : eⱼ.tid = t') (ht1 : e₁.tid = t')
    (hi0 : i₀ < i) (hij : i < j) (hj1 : j < j₀) (hne : t ≠ t')
    (hw : HoldsAt tr i t l .excl) (hr : HoldsAt tr j t' l m) : HBM tr M i₀ j₀ :=
  .trans (.trans (HBM.po hi0 h0 hi (ht0.trans hti.symm)) (lock_ordersM wf hij hne hi hj hti htj (.inl rfl) hw hr))
    (HBM.po hj1 hj h1 (htj.trans ht1.symm))

end
end Ekit.Conc.Lockset

namespace Ekit.Races
open Ekit.Conc.Lockset Ekit.Conc.AccessTable

/-- `FromTable` with a matching of publish/receive events -/
structure FromTableM (tbl : List Access) (W : World) (ini : Nat → Prop) (M : Nat → Nat → Prop) (tr : TTrace) : Prop where
  base : FromTable tbl W ini tr
  receive_matched : ∀ (q : Nat) (t : Tid) (k : Obj), tr[q]? = some (Ev.receive t k) →
    ∃ p t', p < q ∧ M p q ∧ tr[p]? = some (Ev.publish t' k) ∧
      (t' = W.creator k ∨ ∃ q', q' < p ∧ tr[q']? = some (Ev.receive t' k))

theorem fromTableM_conforms {cert : List Cls} {tbl : List Access} {W : World} {ini : Nat → Prop}
    {M : Nat → Nat → Prop} {tr : TTrace} (h : DisciplinedBy cert tbl = true) (ft : FromTableM tbl W ini M tr) :
    ConformsM W.setup (discOf cert W) ini M tr where
  init_by_creator := ft.base.init_by_creator
  foreign_after_receive := ft.base.foreign_after_receive
  receive_after_publish := ft.receive_matched
  disciplined := (fromTable_conforms h ft.base).disciplined

/-- `FromTable` is `FromTableM` with the total matching -/
theorem FromTable.toM {tbl : List Access} {W : World} {ini : Nat → Prop} {tr : TTrace} (ft : FromTable tbl W ini tr) :
    FromTableM tbl W ini (fun _ _ => True) tr :=
  ⟨ft, fun q t k h => by
    obtain ⟨p, t', h1, h3, h4⟩ := ft.receive_after_publish q t k h
    exact ⟨p, t', h1, trivial, h3, h4⟩⟩

end Ekit.Races
