/-
C06 — the generic lock-wrapped theorem with a *data invariant*.

`LockWrapped.linearizable` asks the sequential body `f` to refine the specification from EVERY state
of type `S`.  A real data structure (the heap of C05) refines its specification only from
well-formed states.  This file removes the gap without touching the model: for a predicate `I` on
the protected data that holds initially and is preserved by every body,

* the lock-wrapped system over the subtype `{s // I s}` (same `f`, same styles) is a lock-step copy
  of the system over `S` (`step_proj`, `run_proj`): every run of the raw system is the projection of
  a run of the subtype system, with the same labels, hence the same history;
* so the raw system — whose bodies are the raw `f`, defined on all of `S` — is linearizable as soon as
  `f` refines the specification *from states satisfying `I`* (`linearizable_inv`);
* the protected data of every reachable state of the raw system satisfy `I` (`reachable_inv`).
-/
import Ekit.Lemmas.LockWrapped

namespace Ekit.Linz.LockWrapped
open Ekit.Conc Ekit.Linz

variable {S Op Ret : Type}

/-- the same container restricted to the states satisfying the invariant `I` -/
def subParams (P : Params S Op Ret) (I : S → Prop) (h0 : I P.init)
    (hI : ∀ s op, I s → I (P.f s op).1) : Params {s : S // I s} Op Ret where
  init := ⟨P.init, h0⟩
  f := fun s op => (⟨(P.f s.1 op).1, hI s.1 op s.2⟩, (P.f s.1 op).2)
  style := P.style

def projPc {I : S → Prop} : Pc {s : S // I s} Op Ret → Pc S Op Ret
  | .idle => .idle
  | .want op => .want op
  | .held op => .held op
  | .mid op sn => .mid op sn.1
  | .fin op r => .fin op r
  | .out op sn => .out op sn.1
  | .ret r => .ret r
  | .crash => .crash

section
variable {I : S → Prop}
@[simp] theorem projPc_idle : projPc (I := I) (Op := Op) (Ret := Ret) .idle = .idle := rfl
@[simp] theorem projPc_want (op : Op) : projPc (I := I) (Ret := Ret) (.want op) = .want op := rfl
@[simp] theorem projPc_held (op : Op) : projPc (I := I) (Ret := Ret) (.held op) = .held op := rfl
@[simp] theorem projPc_mid (op : Op) (sn : {s : S // I s}) : projPc (Ret := Ret) (.mid op sn) = .mid op sn.1 := rfl
@[simp] theorem projPc_fin (op : Op) (r : Ret) : projPc (I := I) (.fin op r) = .fin op r := rfl
@[simp] theorem projPc_out (op : Op) (sn : {s : S // I s}) : projPc (Ret := Ret) (.out op sn) = .out op sn.1 := rfl
@[simp] theorem projPc_ret (r : Ret) : projPc (I := I) (Op := Op) (.ret r) = .ret r := rfl
@[simp] theorem projPc_crash : projPc (I := I) (Op := Op) (Ret := Ret) .crash = .crash := rfl
end

def projSt {I : S → Prop} (s : St {s : S // I s} Op Ret) : St S Op Ret :=
  ⟨s.data.1, s.dirty, s.w, s.rc, fun t => projPc (s.pc t)⟩

theorem projPc_upd {I : S → Prop} (pc : Nat → Pc {s : S // I s} Op Ret) (t : Nat)
    (p : Pc {s : S // I s} Op Ret) :
    (fun u => projPc (upd pc t p u)) = upd (fun u => projPc (pc u)) t (projPc p) := by
  funext u
  by_cases h : u = t <;> simp [upd, h]

section
variable (P : Params S Op Ret) (I : S → Prop) (h0 : I P.init)
  (hI : ∀ s op, I s → I (P.f s op).1)

@[simp] theorem subParams_style : (subParams P I h0 hI).style = P.style := rfl
@[simp] theorem subParams_f_fst (x : {s : S // I s}) (op : Op) :
    ((subParams P I h0 hI).f x op).1.1 = (P.f x.1 op).1 := rfl
@[simp] theorem subParams_f_snd (x : {s : S // I s}) (op : Op) :
    ((subParams P I h0 hI).f x op).2 = (P.f x.1 op).2 := rfl

variable [DecidableEq Ret]

/-- one step of the raw system from a projected state is the projection of the subtype system's step -/
theorem step_proj (s : St {s : S // I s} Op Ret) (l : Lbl Op Ret) :
    step P (projSt s) l = (step (subParams P I h0 hI) s l).map projSt := by
  cases l with
  | call t op =>
    simp only [step, projSt]
    cases hp : s.pc t <;> simp [St.set, projSt, projPc_upd]
  | tau t =>
    simp only [step, projSt]
    cases hp : s.pc t with
    | idle => simp
    | want op =>
      simp only [projPc_want, subParams_style]
      by_cases hs : (P.style op).shared = true
      · by_cases hw : s.w = true <;> simp [hs, hw, projSt, projPc_upd]
      · by_cases hw : (s.w || s.rc != 0) = true <;> simp [hs, hw, projSt, projPc_upd]
    | held op =>
      simp only [projPc_held, subParams_style]
      by_cases hd : s.dirty = true <;> simp [hd, St.set, projSt, projPc_upd]
    | mid op sn =>
      simp only [projPc_mid, subParams_style]
      by_cases hl : (P.style op).late = true
      · simp [hl, projSt, projPc_upd]
      · by_cases hr : (P.style op).readOnly = true
        · simp [hl, hr, St.set, projSt, projPc_upd]
        · by_cases hdd : (P.style op).dirties = true <;> simp [hl, hr, hdd, projSt, projPc_upd]
    | fin op r =>
      simp only [projPc_fin, subParams_style]
      by_cases hs : (P.style op).shared = true <;> simp [hs, projSt, projPc_upd]
    | out op sn => simp [St.set, projSt, projPc_upd]
    | ret r => simp
    | crash => simp
  | ret t r =>
    simp only [step, projSt]
    cases hp : s.pc t with
    | ret r' =>
      simp only [projPc_ret]
      by_cases hr : r = r' <;> simp [hr, St.set, projSt, projPc_upd]
    | _ => simp

theorem run_proj (s : St {s : S // I s} Op Ret) (ls : List (Lbl Op Ret)) :
    (sys P).run (projSt s) ls = ((sys (subParams P I h0 hI)).run s ls).map projSt := by
  induction ls generalizing s with
  | nil => rfl
  | cons l rest ih =>
    simp only [System.run]
    have h := step_proj P I h0 hI s l
    simp only [sys] at h ⊢
    rw [h]
    cases hs : step (subParams P I h0 hI) s l with
    | none => rfl
    | some s' => exact ih s'

theorem init_proj : projSt (sys (subParams P I h0 hI)).init = (sys P).init := rfl

/-- every run of the raw system is the projection of a run of the restricted system -/
theorem run_lift (ls : List (Lbl Op Ret)) (s : St S Op Ret)
    (hrun : (sys P).run (sys P).init ls = some s) :
    ∃ s', (sys (subParams P I h0 hI)).run (sys (subParams P I h0 hI)).init ls = some s' ∧ projSt s' = s := by
  rw [← init_proj P I h0 hI, run_proj P I h0 hI] at hrun
  cases hs : (sys (subParams P I h0 hI)).run (sys (subParams P I h0 hI)).init ls with
  | none => rw [hs] at hrun; cases hrun
  | some s' =>
    rw [hs] at hrun
    exact ⟨s', rfl, Option.some.inj hrun⟩

include h0 hI in
/-- the protected data of every reachable state satisfy the invariant, and so does every snapshot
    a thread is working on -/
theorem reachable_inv (s : St S Op Ret) (hr : (sys P).Reachable s) :
    I s.data ∧ ∀ t op sn, (s.pc t = .mid op sn ∨ s.pc t = .out op sn) → I sn := by
  obtain ⟨ls, hrun⟩ := System.run_of_reachable _ hr
  obtain ⟨s', _, rfl⟩ := run_lift P I h0 hI ls s hrun
  refine ⟨s'.data.2, ?_⟩
  intro t op sn h
  simp only [projSt] at h
  cases hp : s'.pc t with
  | mid op' sn' => simp [hp] at h; rw [← h.2]; exact sn'.2
  | out op' sn' => simp [hp] at h; rw [← h.2]; exact sn'.2
  | _ => simp [hp] at h

include h0 hI in
/-- **The lock-wrapped theorem under a data invariant**: `f` needs to refine the specification, and
    leave the data alone in read-only bodies, only from states satisfying `I`. -/
theorem linearizable_inv {A : Type} (spec : SeqSpec A Op Ret) (abs : S → A)
    (hinit : abs P.init = spec.init)
    (href : ∀ s op, I s → spec.apply (abs s) op (abs (P.f s op).1) (P.f s op).2)
    (hro : ∀ s op, I s → (P.style op).readOnly = true → (P.f s op).1 = s)
    (ls : List (Lbl Op Ret)) (s : St S Op Ret) (hrun : (sys P).run (sys P).init ls = some s) :
    Linearizable spec ((sys P).history ls) := by
  obtain ⟨s', hrun', _⟩ := run_lift P I h0 hI ls s hrun
  have := LockWrapped.linearizable (subParams P I h0 hI) spec (fun x => abs x.1) hinit
    (fun x op => href x.1 op x.2)
    (fun x op h => Subtype.ext (hro x.1 op x.2 h)) ls s' hrun'
  exact this

end

end Ekit.Linz.LockWrapped
