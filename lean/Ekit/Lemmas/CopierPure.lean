/-
Helper lemmas for C20, part 6: the pure recursive `CopyTo` never panics on well-typed values and
keeps the destination well-typed.
-/
import Ekit.Lemmas.CopierTotal

namespace Ekit.Copier
open Ekit.Go

/-- what the recursive call (`copyStruct` one level down) is assumed to satisfy -/
def PureRecOK (rec : Ty → Val → Ty → Val → Flags → CopyRes) (bound : Nat) : Prop :=
  ∀ s x d y fl, s.kind = .struct → d.kind = .struct → s.depth < bound → wt s x = true → wt d y = true →
    fl.canSet = true → (rec s x d y fl).res.isPanic = false ∧ wt d (rec s x d y fl).dst = true

theorem pureData_total (rec : Ty → Val → Ty → Val → Flags → CopyRes) (bound : Nat) (hrec : PureRecOK rec bound)
    (sT : Ty) (sv : Val) (dT : Ty) (dv : Val) (fl : Flags) (name : String)
    (hdep : sT.depth < bound) (hs : wt sT sv = true) (hd : wt dT dv = true) (hcs : fl.canSet = true) :
    (pureData rec sT sv dT dv fl name).res.isPanic = false ∧ wt dT (pureData rec sT sv dT dv fl name).dst = true := by
  unfold pureData
  by_cases h1 : (sT.kind == Kind.ptr) = true
  · rw [if_pos h1]; exact ⟨rfl, hd⟩
  · rw [if_neg h1]
    by_cases h2 : (sT.kind != dT.kind) = true
    · rw [if_pos h2]; exact ⟨rfl, hd⟩
    · rw [if_neg h2]
      have hk : sT.kind = dT.kind := by simpa using h2
      by_cases h3 : isShadowCopyType sT.kind = true
      · rw [if_pos h3]
        by_cases h4 : sT ≠ dT
        · rw [if_pos h4]; exact ⟨rfl, hd⟩
        · rw [if_neg h4]
          have h4' : sT = dT := by simpa using h4
          rw [if_pos hcs]
          exact ⟨rfl, h4' ▸ hs⟩
      · rw [if_neg h3]
        by_cases h5 : (sT.kind == Kind.struct) = true
        · rw [if_pos h5]
          have h5' : sT.kind = .struct := by simpa using h5
          exact hrec sT sv dT dv fl h5' (hk ▸ h5') hdep hs hd hcs
        · rw [if_neg h5]; exact ⟨rfl, hd⟩

theorem pureField_total (rec : Ty → Val → Ty → Val → Flags → CopyRes) (bound : Nat) (hrec : PureRecOK rec bound)
    (sf : Field) (sv : Val) (df : Field) (dv : Val) (fl : Flags)
    (hdep : (fty sf).depth < bound) (hs : wt (fty sf) sv = true) (hd : wt (fty df) dv = true)
    (hcs : fl.canSet = true) :
    (pureField rec sf sv df dv fl).res.isPanic = false ∧ wt (fty df) (pureField rec sf sv df dv fl).dst = true := by
  unfold pureField
  by_cases h1 : ((fty sf).kind != (fty df).kind) = true
  · rw [if_pos h1]; exact ⟨rfl, hd⟩
  · rw [if_neg h1]
    have hk : (fty sf).kind = (fty df).kind := by simpa using h1
    by_cases h2 : ((fty sf).kind == Kind.ptr) = true
    · rw [if_pos h2]
      have h2' : (fty sf).kind = .ptr := by simpa using h2
      obtain ⟨se, hse⟩ := elem_of_kind_ptr _ h2'
      obtain ⟨de, hde⟩ := elem_of_kind_ptr _ (hk ▸ h2')
      have hflc : fl.elem.canSet = true := by
        simp only [Flags.canSet, Bool.and_eq_true, Bool.not_eq_true'] at hcs
        simp [Flags.elem, Flags.canSet, hcs.2]
      have hdse : se.depth < bound := by rw [depth_elem _ _ hse]; exact hdep
      rcases wt_ptr _ se sv hse hs with rfl | ⟨x, rfl, hx⟩
      · simp only [hse, hde]
        exact ⟨rfl, hd⟩
      · rcases wt_ptr _ de dv hde hd with rfl | ⟨y, rfl, hy⟩
        · simp only [hse, hde, hcs, Bool.not_true, Bool.false_eq_true, if_false]
          have := pureData_total rec bound hrec se x de (zeroOf de) fl.elem (fname sf) hdse hx (wt_zeroOf de) hflc
          exact ⟨this.1, wt_of_ptr _ de _ hde this.2⟩
        · simp only [hse, hde]
          have := pureData_total rec bound hrec se x de y fl.elem (fname sf) hdse hx hy hflc
          exact ⟨this.1, wt_of_ptr _ de _ hde this.2⟩
    · rw [if_neg h2]
      exact pureData_total rec bound hrec _ sv _ dv fl (fname sf) hdep hs hd hcs

theorem pureLoop_total (rec : Ty → Val → Ty → Val → Flags → CopyRes) (sT dT : Ty) (sfs dfs : List Field)
    (hsfs : sT.fields? = some sfs) (hdfs : dT.fields? = some dfs) (hrec : PureRecOK rec sT.depth)
    (sv : Val) (hs : wt sT sv = true) (fl : Flags) (hcs : fl.canSet = true) :
    ∀ (dsuf pre : List Field), dfs = pre ++ dsuf → ∀ dv, wt dT dv = true →
      (pureLoop rec sfs (fieldMap sfs) sv fl dsuf pre.length dv).res.isPanic = false ∧
        wt dT (pureLoop rec sfs (fieldMap sfs) sv fl dsuf pre.length dv).dst = true
  | [], _, _, dv, hd => by simp only [pureLoop]; exact ⟨rfl, hd⟩
  | df :: rest, pre, hpre, dv, hd => by
      have ih := pureLoop_total rec sT dT sfs dfs hsfs hdfs hrec sv hs fl hcs rest (pre ++ [df]) (by simp [hpre])
      simp only [List.length_append, List.length_cons, List.length_nil, Nat.zero_add] at ih
      simp only [pureLoop]
      by_cases he : (!fexp df) = true
      · rw [if_pos he]; exact ih dv hd
      · rw [if_neg he]
        have he' : fexp df = true := by simpa using he
        rw [fieldMap_lookup]
        cases hi : Spec.srcFieldIdx? sfs (fname df) with
        | none => exact ih dv hd
        | some idx =>
          simp only []
          obtain ⟨sf, hsf, _, _⟩ := srcFieldIdx_some sfs (fname df) idx hi
          have hdf : dfs[pre.length]? = some df := by rw [hpre]; simp
          obtain ⟨sfv, hsfv, hwsfv⟩ := wt_field sT sfs sv idx sf hsfs hs hsf
          obtain ⟨dfv, hdfv, hwdfv⟩ := wt_field dT dfs dv pre.length df hdfs hd hdf
          simp only [hsf, hsfv, hdfv, he']
          have hflc : (fl.field true).canSet = true := by simpa [Flags.field, Flags.canSet] using hcs
          have hdep := depth_field_lt sT sfs sf hsfs (mem_of_getElem? hsf)
          have hr := pureField_total rec sT.depth hrec sf sfv df dfv (fl.field true) hdep hwsfv hwdfv hflc
          have hd' := wt_setField dT dfs dv pre.length df _ hdfs hd hdf hr.2
          cases hres : (pureField rec sf sfv df dfv (fl.field true)).res with
          | ok u => exact ih _ hd'
          | err e => exact ⟨rfl, hd'⟩
          | panic m => rw [hres] at hr; simp [Outcome.isPanic] at hr

theorem pureStruct_total : ∀ (fuel : Nat) (sT : Ty) (sv : Val) (dT : Ty) (dv : Val) (fl : Flags),
    sT.kind = .struct → dT.kind = .struct → sT.depth ≤ fuel → wt sT sv = true → wt dT dv = true →
    fl.canSet = true →
    (pureStruct fuel sT sv dT dv fl).res.isPanic = false ∧ wt dT (pureStruct fuel sT sv dT dv fl).dst = true
  | 0, sT, _, _, _, _, hks, _, hdep, _, _, _ => by
      have := depth_pos_of_struct sT hks
      omega
  | fuel + 1, sT, sv, dT, dv, fl, hks, hkd, hdep, hs, hd, hcs => by
      obtain ⟨sfs, hsfs⟩ := fields_of_kind_struct sT hks
      obtain ⟨dfs, hdfs⟩ := fields_of_kind_struct dT hkd
      simp only [pureStruct, hsfs, hdfs]
      have hrec : PureRecOK (pureStruct fuel) sT.depth := by
        intro s x d y fl' a b c e f g
        exact pureStruct_total fuel s x d y fl' a b (by omega) e f g
      have := pureLoop_total (pureStruct fuel) sT dT sfs dfs hsfs hdfs hrec sv hs fl hcs dfs [] rfl dv hd
      simpa using this

end Ekit.Copier
