/- Layer A, caller steps (see PoolA.lean). -/
import Ekit.Lemmas.PoolA
namespace Ekit.Pool
open Ekit.Conc

theorem invA_of_caller_update {s s' : St} {t : Nat} {cl' : Caller}
    (hc : s'.callers = upd s.callers t cl') (hi : InvA s)
    (hg : GAI s'.ga) (hl : LA s'.ga t cl')
    (ho : ∀ u cl, u ≠ t → LA s.ga u cl → LA s'.ga u cl) : InvA s' := by
  refine ⟨hg, fun u => ?_⟩
  rw [hc]
  by_cases hut : u = t
  · subst hut; simpa using hl
  · simpa [hut] using ho u _ hut (hi.loc u)

theorem invA_of_global_update {s s' : St}
    (hc : s'.callers = s.callers) (hi : InvA s)
    (hg : GAI s'.ga) (ho : ∀ u cl, LA s.ga u cl → LA s'.ga u cl) : InvA s' :=
  ⟨hg, fun u => hc ▸ ho u _ (hi.loc u)⟩

set_option maxHeartbeats 1000000 in
theorem invA_cstep (c : Cfg) (s s' : St) (t : Nat) (a : CAct) (hi : InvA s)
    (h : cAct c s t (s.callers t) a = some s') : InvA s' := by
  have hg := (GAI_iff _).1 hi.glob
  have hl := (LA_iff _ _ _).1 (hi.loc t)
  cases a <;> simp only [cAct, toUnlock] at h <;> (repeat' (split at h)) <;> (try simp at h) <;> (try subst h) <;>
    first
    | (refine invA_of_global_update (s := s) rfl hi ?_ ?_
       · first
         | exact hi.glob
         | (rw [GAI_iff]; simp_all [St.ga])
       · first
         | exact fun _ _ h => h
         | (intro u cl hm
            rw [LA_iff] at hm ⊢
            simp_all [St.ga]))
    | (refine invA_of_caller_update (s := s) (t := t) rfl hi ?_ ?_ ?_
       · first
         | exact hi.glob
         | (rw [GAI_iff]; simp_all [St.ga]; done)
         | (rw [GAI_iff]; simp_all [St.ga]; omega)
         | (rw [GAI_iff]; cases hst : (s.callers t).st <;> simp_all [St.ga])
       · first
         | (rw [LA_iff]; simp_all [St.ga, Res.isErr]; done)
         | (rw [LA_iff]; cases hlf : s.life <;> simp_all [St.ga, Res.isErr])
       · first
         | exact fun _ _ _ h => h
         | (intro u cl hne hm
            have hne' : t ≠ u := fun h => hne h.symm
            rw [LA_iff] at hm ⊢
            simp_all [St.ga]))

end Ekit.Pool
