/- Layer G, caller steps (see PoolG.lean). -/
import Ekit.Lemmas.PoolG
namespace Ekit.Pool

set_option maxHeartbeats 2000000 in
theorem invG_cstep (c : Cfg) (s s' : St) (t : Nat) (a : CAct) (hA : InvA s) (hB : LB.Inv s) (hi : LG.Inv s)
    (h : cAct c s t (s.callers t) a = some s') : LG.Inv s' := by
  have hat := (LA_iff _ _ _).1 (hA.loc t)
  have hag := (GAI_iff _).1 hA.glob
  have hbt := hB.cl t
  have hct := hi.cl t
  have hg := hi.glob
  simp only [LB] at hbt
  simp only [LG] at hct hg
  simp only [St.ga] at hat hag
  cases a <;> simp only [cAct, toUnlock] at h <;> (repeat' (split at h)) <;> (try simp at h) <;> (try subst h) <;>
    first
    | (refine Loc.inv_global (s := s) rfl rfl hi ?_ ?_ ?_
       · first | exact hi.glob | (simp only [LG]; simp_all)
       · first | exact fun _ h => h | (intro u hm; simp only [LG] at hm ⊢; simp_all)
       · first | exact fun _ _ _ h => h | (intro j x hx hm; simp only [LG] at hm ⊢; simp_all))
    | (refine Loc.inv_spawn (s := s) (t := t) rfl rfl hi ?_ ?_ ?_ ?_ ?_
       · first | exact hi.glob | (simp only [LG]; simp_all)
       · intro hm; simp only [LG]; simp_all
       · first | exact fun _ _ h => h | (intro u hne hm; simp only [LG] at hm ⊢; simp_all)
       · first | exact fun _ _ _ h => h | (intro j x hx hm; simp only [LG] at hm ⊢; simp_all)
       · simp [LG, newWorker])
    | (refine Loc.inv_rendezvous (s := s) (t := t) rfl rfl hi ?_ ?_ ?_ ?_ ?_
       · first | exact hi.glob | (simp only [LG]; simp_all)
       · intro hm; simp only [LG]; simp_all
       · first | exact fun _ _ h => h | (intro u hne hm; simp only [LG] at hm ⊢; simp_all)
       · intro w0 hw0 hm; simp only [LG] at hm ⊢; simp_all
       · first | exact fun _ _ _ _ h => h | (intro j x hne hx hm; simp only [LG] at hm ⊢; simp_all))
    | (refine Loc.inv_caller (s := s) (t := t) rfl rfl hi ?_ ?_ ?_ ?_
       · first | exact hi.glob | (simp only [LG]; simp_all)
       · intro hm; simp only [LG]; simp_all
       · first
         | exact fun _ _ h => h
         | (intro u hne hm
            have hau := (hA.loc u).snAfter_stopped
            simp only [St.ga] at hau
            simp only [LG] at hm ⊢
            simp_all)
       · first
         | exact fun _ _ _ h => h
         | (intro j x hx hm; simp only [LG] at hm ⊢; simp_all))

end Ekit.Pool
