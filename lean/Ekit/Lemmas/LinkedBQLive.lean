/-
Enabledness facts about the linked blocking queue model (C09 share): the lock holder can always
move, no wake-up is lost, cancellation is enabled wherever a call can block, and a variant.
-/
import Ekit.Lemmas.LinkedBQStep
namespace Ekit.LinkedBQ
open Ekit.Conc Ekit.BQ

/-- the recorded holder of the write lock is a thread inside the critical section -/
def Inv3 (s : State) : Prop := ∀ w, s.writer = some w → inW (s.pc w) = true

theorem inv3_init (m : Int) : Inv3 (init m) := by intro w hw; simp [init] at hw

theorem inv3_step {m : Int} {s s' : State} {l : Label} (h : Inv m s) (h3 : Inv3 s)
    (hs : step s l = some s') : Inv3 s' := by
  cases l with
  | tau t =>
    simp only [step] at hs
    split at hs
    · simp at hs
    · have hMt := h.mutexW t
      unfold tauStep at hs
      cases hp : s.pc t <;> simp only [hp] at hs
      all_goals (try simp only [unlockTo, ll_append, ll_len, ll_asSlice] at hs)
      all_goals (try split at hs)
      all_goals (try (simp at hs; done))
      all_goals (injection hs with hs; subst hs)
      all_goals (
        intro w hw
        simp only [setPc, panic, setCond_writer, setCond_pc] at hw ⊢
        by_cases hwt : w = t
        · subst hwt
          first
            | (simp [inW]; done)
            | (have := h3 w hw; simp [hp, inW] at this ⊢; done)
            | (have := h3 w hw; simpa [hp] using this)
            | (simp at hw)
        · first
            | (simp only [upd, hwt, if_false]; exact h3 w hw)
            | (simp at hw; exact absurd hw.symm hwt)
            | (simp at hw)
            | exact h3 w hw)
  | ctxEnd t =>
    simp only [step] at hs
    split at hs
    · injection hs with hs; subst hs; exact h3
    · simp at hs
  | ctxArm t =>
    simp only [step] at hs
    cases hp : s.pc t <;> simp only [hp] at hs <;> try (simp at hs; done)
    all_goals (split at hs <;> try (simp at hs; done))
    all_goals (injection hs with hs; subst hs)
    all_goals (
      intro w hw
      simp only [setPc] at hw ⊢
      by_cases hwt : w = t
      · subst hwt; have := h3 w hw; simp [hp, inW] at this
      · simp only [upd, hwt, if_false]; exact h3 w hw)
  | inv t op =>
    simp only [step] at hs
    split at hs
    · rename_i hidle
      injection hs with hs; subst hs
      intro w hw
      by_cases hwt : w = t
      · subst hwt; have := h3 w hw; simp [hidle, inW] at this
      · simp only [upd, hwt, if_false]; exact h3 w hw
    · simp at hs
  | res t r =>
    simp only [step] at hs
    split at hs
    · rename_i hret
      injection hs with hs; subst hs
      intro w hw
      by_cases hwt : w = t
      · subst hwt; have := h3 w hw; simp [hret, inW] at this
      · simp only [upd, hwt, if_false]; exact h3 w hw
    · simp at hs

theorem inv123_reachable (m : Int) (s : State) (hr : (sys m).Reachable s) : Inv m s ∧ Inv2 s ∧ Inv3 s :=
  System.invariant_induction (sys m).toSystem (fun s => Inv m s ∧ Inv2 s ∧ Inv3 s)
    ⟨inv_init m, inv2_init m, inv3_init m⟩
    (fun _ _ _ h hs => ⟨inv_step h.1 hs, inv2_step h.1 h.2.1 hs, inv3_step h.1 h.2.2 hs⟩) s hr

/-- thread `u`'s next action is enabled -/
def tauEn (s : State) (u : Nat) : Prop := (step s (.tau u)).isSome = true

theorem tauEn_of {s : State} {u : Nat} (hnp : s.panicked = false) (h : (tauStep s u).isSome = true) : tauEn s u := by
  simp [tauEn, step, hnp, h]

/-- steps inside the write lock's critical section never block -/
theorem tau_enabled_inW (s : State) (t : Nat) (h : inW (s.pc t) = true) : (tauStep s t).isSome = true := by
  unfold tauStep
  cases hp : s.pc t <;> simp [hp, inW] at h ⊢
  split <;> simp

theorem tau_enabled_reader (s : State) (t : Nat) (h : wR (s.pc t) = 1) : (tauStep s t).isSome = true := by
  unfold tauStep
  cases hp : s.pc t <;> simp [hp, wR] at h ⊢ <;> (repeat' split) <;> simp

/-- a thread that owes a `close` (after the swap) can always move: `Unlock` and `close` never block -/
theorem tau_enabled_closer (s : State) (u : Nat) (w : Which) (g : Nat) (h : isCloser (s.pc u) w g = true) :
    (tauStep s u).isSome = true := by
  unfold tauStep
  cases hp : s.pc u <;> simp [hp, isCloser] at h ⊢
  split <;> simp

theorem wR_le_one (p : Pc) : wR p ≤ 1 := by cases p <;> simp [wR]

/-- `u` holds something `t` is waiting for: the lock, or the duty to swap/close the channel `t` is
    parked on -/
def waitsFor (s : State) (t u : Nat) : Prop :=
  match s.pc t with
  | .eLock _ | .dLock => s.writer = some u ∨ wR (s.pc u) = 1
  | .lRLock | .aRLock => s.writer = some u
  | .eSelect _ g => isCloser (s.pc u) .notFull g = true ∨ isSwap (s.pc u) .notFull = true
  | .dSelect g => isCloser (s.pc u) .notEmpty g = true ∨ isSwap (s.pc u) .notEmpty = true
  | _ => False

/-- the specification enables the pending call of a parked waiter -/
def specEnables (s : State) (t : Nat) : Prop :=
  match s.pc t with
  | .eSelect _ _ => full s = false
  | .dSelect _ => s.q ≠ []
  | _ => True

/-- **no lost wake-up** (Enqueue side): a waiter parked on generation `g` of `notFull` while the
    queue is no longer full either holds a closed channel (its select is enabled), or the `close` of
    its channel is pending in a thread that can move, or the thread that made room has not yet
    swapped the channel, still holds the lock and can move.  In the first two cases `g` is older than
    the current generation. -/
theorem no_lost_wakeup_enq (m : Int) (s : State) (hr : (sys m).Reachable s) (t : Nat) (v : Int) (g : Nat)
    (hp : s.pc t = .eSelect v g) (hnf : full s = false) :
    (g < s.notFull.cur ∧ g ∈ s.notFull.closed ∧ tauEn s t) ∨
    (g < s.notFull.cur ∧ ∃ u, isCloser (s.pc u) .notFull g = true ∧ tauEn s u) ∨
    (g = s.notFull.cur ∧ ∃ u, isSwap (s.pc u) .notFull = true ∧ tauEn s u) := by
  obtain ⟨h, h2, _⟩ := inv123_reachable m s hr
  have hpf := h2.parkF t
  simp only [hp, parkFact] at hpf
  by_cases hg : g = s.notFull.cur
  · right; right
    cases hpf.2 hg with
    | inl hf => rw [hnf] at hf; exact absurd hf (by simp)
    | inr hsw =>
      obtain ⟨u, hu⟩ := hsw
      exact ⟨hg, u, hu, tauEn_of h2.noPanic (tau_enabled_inW s u (isSwap_inW hu))⟩
  · have hlt : g < s.notFull.cur := by have := hpf.1; omega
    cases h2.closerEx .notFull g hlt with
    | inl hc =>
      left
      refine ⟨hlt, hc, tauEn_of h2.noPanic ?_⟩
      unfold tauStep; simp only [hp]; simp [getCond] at hc; simp [hc]
    | inr hc =>
      obtain ⟨u, hu⟩ := hc
      exact Or.inr (Or.inl ⟨hlt, u, hu, tauEn_of h2.noPanic (tau_enabled_closer s u _ _ hu)⟩)

/-- **no lost wake-up** (Dequeue side, `notEmpty`). -/
theorem no_lost_wakeup_deq (m : Int) (s : State) (hr : (sys m).Reachable s) (t : Nat) (g : Nat)
    (hp : s.pc t = .dSelect g) (hne : s.q ≠ []) :
    (g < s.notEmpty.cur ∧ g ∈ s.notEmpty.closed ∧ tauEn s t) ∨
    (g < s.notEmpty.cur ∧ ∃ u, isCloser (s.pc u) .notEmpty g = true ∧ tauEn s u) ∨
    (g = s.notEmpty.cur ∧ ∃ u, isSwap (s.pc u) .notEmpty = true ∧ tauEn s u) := by
  obtain ⟨h, h2, _⟩ := inv123_reachable m s hr
  have hpf := h2.parkF t
  simp only [hp, parkFact] at hpf
  by_cases hg : g = s.notEmpty.cur
  · right; right
    cases hpf.2 hg with
    | inl hf => exact absurd hf hne
    | inr hsw =>
      obtain ⟨u, hu⟩ := hsw
      exact ⟨hg, u, hu, tauEn_of h2.noPanic (tau_enabled_inW s u (isSwap_inW hu))⟩
  · have hlt : g < s.notEmpty.cur := by have := hpf.1; omega
    cases h2.closerEx .notEmpty g hlt with
    | inl hc =>
      left
      refine ⟨hlt, hc, tauEn_of h2.noPanic ?_⟩
      unfold tauStep; simp only [hp]; simp [getCond] at hc; simp [hc]
    | inr hc =>
      obtain ⟨u, hu⟩ := hc
      exact Or.inr (Or.inl ⟨hlt, u, hu, tauEn_of h2.noPanic (tau_enabled_closer s u _ _ hu)⟩)

/-- **no stuck call**: in every reachable state, every call in flight that the specification enables
    can take its next action, or a thread it waits for (lock holder, pending swap or close of the
    channel it is parked on) can take its next action. -/
theorem enabled_when_possible (m : Int) (s : State) (hr : (sys m).Reachable s)
    (t : Nat) (hidle : s.pc t ≠ .idle) (hret : ∀ r, s.pc t ≠ .ret r) (hspec : specEnables s t) :
    tauEn s t ∨ ∃ u, waitsFor s t u ∧ tauEn s u := by
  obtain ⟨h, h2, h3⟩ := inv123_reachable m s hr
  have hnp := h2.noPanic
  have lockw : s.writer = none ∧ s.readers = 0 ∨ ∃ w, (s.writer = some w ∨ wR (s.pc w) = 1) ∧ tauEn s w := by
    cases hw : s.writer with
    | some w => exact Or.inr ⟨w, Or.inl rfl, tauEn_of hnp (tau_enabled_inW s w (h3 w hw))⟩
    | none =>
      by_cases hr0 : s.readers = 0
      · exact Or.inl ⟨rfl, hr0⟩
      · right
        have : 0 < wsum wR s.pc s.live := by have := h.rd; omega
        obtain ⟨w, _, hwr⟩ := exists_of_wsum_pos wR s.pc this
        have h1 : wR (s.pc w) = 1 := by have := wR_le_one (s.pc w); omega
        exact ⟨w, Or.inr h1, tauEn_of hnp (tau_enabled_reader s w h1)⟩
  cases hp : s.pc t with
  | idle => exact absurd hp hidle
  | ret r => exact absurd hp (hret r)
  | eLock v =>
    cases lockw with
    | inl hf => left; apply tauEn_of hnp; unfold tauStep; simp [hp, hf.1, hf.2]
    | inr hw => obtain ⟨w, hw, hen⟩ := hw; exact Or.inr ⟨w, by simp [waitsFor, hp, hw], hen⟩
  | dLock =>
    cases lockw with
    | inl hf => left; apply tauEn_of hnp; unfold tauStep; simp [hp, hf.1, hf.2]
    | inr hw => obtain ⟨w, hw, hen⟩ := hw; exact Or.inr ⟨w, by simp [waitsFor, hp, hw], hen⟩
  | lRLock =>
    cases hw : s.writer with
    | none => left; apply tauEn_of hnp; unfold tauStep; simp [hp, hw]
    | some w => exact Or.inr ⟨w, by simp [waitsFor, hp, hw], tauEn_of hnp (tau_enabled_inW s w (h3 w hw))⟩
  | aRLock =>
    cases hw : s.writer with
    | none => left; apply tauEn_of hnp; unfold tauStep; simp [hp, hw]
    | some w => exact Or.inr ⟨w, by simp [waitsFor, hp, hw], tauEn_of hnp (tau_enabled_inW s w (h3 w hw))⟩
  | eSelect v g =>
    simp only [specEnables, hp] at hspec
    rcases no_lost_wakeup_enq m s hr t v g hp hspec with ⟨_, _, he⟩ | ⟨_, u, hu, he⟩ | ⟨_, u, hu, he⟩
    · exact Or.inl he
    · exact Or.inr ⟨u, by simp [waitsFor, hp, hu], he⟩
    · exact Or.inr ⟨u, by simp [waitsFor, hp, hu], he⟩
  | dSelect g =>
    simp only [specEnables, hp] at hspec
    rcases no_lost_wakeup_deq m s hr t g hp hspec with ⟨_, _, he⟩ | ⟨_, u, hu, he⟩ | ⟨_, u, hu, he⟩
    · exact Or.inl he
    · exact Or.inr ⟨u, by simp [waitsFor, hp, hu], he⟩
    · exact Or.inr ⟨u, by simp [waitsFor, hp, hu], he⟩
  | lRead | aRead | runlock _ =>
    left; exact tauEn_of hnp (tau_enabled_reader s t (by simp [hp, wR]))
  | eGuard _ | eSigRead _ | eSigUnlock _ _ | eAppend _ | dGuard | dSigRead | dSigUnlock _ | dDelete
  | bcSwap _ _ | bcUnlock _ _ _ =>
    left; exact tauEn_of hnp (tau_enabled_inW s t (by simp [hp, inW]))
  | bcClose w g r =>
    left; exact tauEn_of hnp (tau_enabled_closer s t w g (by simp [hp, isCloser]))
  | eCtx _ | dCtx =>
    left; apply tauEn_of hnp; unfold tauStep; simp [hp]

/-- a variant: own actions still to perform, ignoring the wake-up back edge -/
def rank (s : State) (t : Nat) : Nat :=
  match s.pc t with
  | .idle => 0
  | .ret _ => 1
  | .runlock _ | .bcClose _ _ _ => 2
  | .lRead | .aRead | .bcUnlock _ _ _ => 3
  | .lRLock | .aRLock | .bcSwap _ _ => 4
  | .eAppend _ | .dDelete => 5
  | .eSelect _ _ | .dSelect _ => 7
  | .eSigUnlock _ _ | .dSigUnlock _ => 8
  | .eSigRead _ | .dSigRead => 9
  | .eGuard _ | .dGuard => 10
  | .eLock _ | .dLock => 11
  | .eCtx _ | .dCtx => 12

/-- the wake-up back edge: the `<-signal` arm of the select, taken on a closed channel -/
def backEdge (s s' : State) (t : Nat) : Prop :=
  (∃ v g, s.pc t = .eSelect v g ∧ g ∈ s.notFull.closed ∧ s'.pc t = .eLock v) ∨
  (∃ g, s.pc t = .dSelect g ∧ g ∈ s.notEmpty.closed ∧ s'.pc t = .dLock)

/-- every action of a call other than the wake-up back edge strictly decreases the variant -/
theorem rank_decreases_or_backEdge {s s' : State} {t : Nat} (hnp : s'.panicked = false)
    (hs : step s (.tau t) = some s' ∨ step s (.ctxArm t) = some s') :
    rank s' t < rank s t ∨ backEdge s s' t := by
  cases hs with
  | inl hs =>
    simp only [step] at hs
    split at hs
    · simp at hs
    · unfold tauStep at hs
      cases hp : s.pc t <;> simp only [hp] at hs
      all_goals (try simp only [unlockTo, ll_append, ll_len, ll_asSlice] at hs)
      all_goals (try split at hs)
      all_goals (try (simp at hs; done))
      all_goals (injection hs with hs; subst hs)
      all_goals (try (simp_all [panic]; done))
      all_goals (first
        | (left; simp [rank, setPc, hp]; done)
        | (right; simp [backEdge, setPc, hp]; assumption)
        | (right; left; exact ⟨_, _, hp, by assumption, by simp [setPc]⟩)
        | (right; right; exact ⟨_, hp, by assumption, by simp [setPc]⟩))
  | inr hs =>
    simp only [step] at hs
    cases hp : s.pc t <;> simp only [hp] at hs <;> try (simp at hs; done)
    all_goals (split at hs <;> try (simp at hs; done))
    all_goals (injection hs with hs; subst hs)
    all_goals (left; simp [rank, setPc, hp])

/-- a back edge is paid for by a broadcast: the generation the waiter held is older than the current
    one, and the generation it fetches next time (`eSigRead`) is the then current one, so the
    generations a call parks on are strictly increasing -/
theorem backEdge_generation (m : Int) (s s' : State) (hr : (sys m).Reachable s) (t : Nat)
    (hb : backEdge s s' t) :
    (∀ v g, s.pc t = .eSelect v g → g < s.notFull.cur) ∧ (∀ g, s.pc t = .dSelect g → g < s.notEmpty.cur) := by
  obtain ⟨_, h2, _⟩ := inv123_reachable m s hr
  rcases hb with ⟨v, g, hp, hc, _⟩ | ⟨g, hp, hc, _⟩
  · refine ⟨fun v' g' hp' => ?_, fun g' hp' => by rw [hp] at hp'; simp at hp'⟩
    rw [hp] at hp'; injection hp' with _ hg; subst hg
    exact h2.closedLt .notFull g hc
  · refine ⟨fun v' g' hp' => by rw [hp] at hp'; simp at hp', fun g' hp' => ?_⟩
    rw [hp] at hp'; injection hp' with hg; subst hg
    exact h2.closedLt .notEmpty g hc

end Ekit.LinkedBQ
