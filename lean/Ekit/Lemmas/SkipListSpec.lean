/- The skip-list model refines the sorted-sequence specification (C05), call by call, for every
   tower height.  Core Lean only. -/
import Ekit.Lemmas.SkipList

namespace Ekit.SkipList
open Ekit.Cmp Ekit.Go

/-- if the first node that is not smaller than `v` is not equal to `v`, no node is -/
theorem no_eq_of_head_ne {cmp : Cmp} (hc : Lawful cmp) (v : Int) (A B : List Node)
    (hs : Sorted cmp (A ++ B)) (hA : ∀ n ∈ A, cmp n.val v < 0) (hB : ∀ n ∈ B, ¬ cmp n.val v < 0)
    (hmiss : ∀ n, B.head? = some n → cmp n.val v ≠ 0) : ∀ n ∈ A ++ B, cmp n.val v ≠ 0 := by
  intro n hm
  rcases List.mem_append.mp hm with hm | hm
  · have := hA n hm; omega
  · cases B with
    | nil => cases hm
    | cons b B' =>
      have hb0 := hmiss b rfl
      have hb1 := hB b List.mem_cons_self
      have hbpos : 0 < cmp b.val v := by omega
      have hvb : cmp v b.val < 0 := (hc.swap v b.val).mpr hbpos
      rcases List.mem_cons.mp hm with rfl | hm'
      · exact hb0
      · have hp := (List.pairwise_append.mp hs).2.1
        have hbn : cmp b.val n.val ≤ 0 := (List.pairwise_cons.mp hp).1 n hm'
        have hvn : cmp v n.val < 0 := hc.lt_of_lt_of_le hvb hbn
        have := (hc.swap v n.val).mp hvn
        omega

theorem map_val_split (cmp : Cmp) (v : Int) (A B : List Node)
    (hA : ∀ n ∈ A, cmp n.val v < 0) (hB : ∀ n ∈ B, ¬ cmp n.val v < 0) :
    ((A ++ B).map (·.val)).takeWhile (fun x => decide (cmp x v < 0)) = A.map (·.val) ∧
    ((A ++ B).map (·.val)).dropWhile (fun x => decide (cmp x v < 0)) = B.map (·.val) := by
  rw [List.map_append]
  apply takeWhile_split
  · intro a ha
    obtain ⟨n, hn, rfl⟩ := List.mem_map.mp ha
    simpa using hA n hn
  · intro b hb
    obtain ⟨n, hn, rfl⟩ := List.mem_map.mp hb
    simpa using hB n hn

/-- **one call refines the sorted-sequence specification**, for every admissible tower height -/
theorem step_refines {cmp : Cmp} (hc : Lawful cmp) {s : SL} (hs : WF cmp s) (h : Nat)
    (hh : 1 ≤ h ∧ h ≤ MaxLevel) (op : Op) :
    ((step cmp s h op).1.asSlice, (step cmp s h op).2) = Spec.step cmp s.asSlice op ∧
    WF cmp (step cmp s h op).1 := by
  cases op with
  | insert v =>
    obtain ⟨A, B, hn, hA, hB⟩ := split_sorted hc v s.nodes hs.sorted
    obtain ⟨h1, h2⟩ := insert_ok hc hs h hh v A B hn hA hB
    rw [h1]
    refine ⟨?_, h2⟩
    obtain ⟨m1, m2⟩ := map_val_split cmp v A B hA hB
    simp only [SL.asSlice, Spec.step, Spec.insert, hn, m1, m2]
    simp
  | delete v =>
    obtain ⟨A, B, hn, hA, hB⟩ := split_sorted hc v s.nodes hs.sorted
    have hAne : (A.map (·.val)).any (fun x => decide (cmp x v = 0)) = false := by
      rw [List.any_eq_false]
      intro x hx
      obtain ⟨n, hm, rfl⟩ := List.mem_map.mp hx
      have := hA n hm
      simp; omega
    by_cases hhit : ∃ node B', B = node :: B' ∧ cmp node.val v = 0
    · obtain ⟨node, B', rfl, heq⟩ := hhit
      obtain ⟨h1, h2⟩ := delete_hit hs h v A node B' hn hA hB heq
      rw [h1]
      refine ⟨?_, h2⟩
      simp only [SL.asSlice, Spec.step, Spec.delete, hn, List.map_append, List.map_cons]
      rw [List.eraseP_append, hAne]
      simp [heq]
    · have hmiss : ∀ n, B.head? = some n → cmp n.val v ≠ 0 := by
        intro n hn' heq
        cases B with
        | nil => cases hn'
        | cons b B' =>
          simp at hn'; subst hn'
          exact hhit ⟨_, _, rfl, heq⟩
      have h1 := delete_miss hs h v A B hn hA hB hmiss
      rw [h1]
      refine ⟨?_, hs⟩
      have hnone := no_eq_of_head_ne hc v A B (by rw [← hn]; exact hs.sorted) hA hB hmiss
      simp only [SL.asSlice, Spec.step, Spec.delete]
      rw [List.eraseP_of_forall_not]
      intro a ha
      obtain ⟨n, hm, rfl⟩ := List.mem_map.mp ha
      simpa using hnone n (by rw [← hn]; exact hm)
  | search v =>
    obtain ⟨A, B, hn, hA, hB⟩ := split_sorted hc v s.nodes hs.sorted
    rw [search_eq hs h v A B hn hA hB]
    refine ⟨?_, hs⟩
    simp only [SL.asSlice, Spec.step, Prod.mk.injEq, true_and, Outcome.ok.injEq, Ret.bool.injEq]
    by_cases hhit : ∃ node B', B = node :: B' ∧ cmp node.val v = 0
    · obtain ⟨node, B', rfl, heq⟩ := hhit
      simp only [List.head?_cons, heq, decide_true]
      symm
      rw [List.any_eq_true]
      exact ⟨node.val, List.mem_map.mpr ⟨node, by rw [hn]; simp, rfl⟩, by simp [heq]⟩
    · have hmiss : ∀ n, B.head? = some n → cmp n.val v ≠ 0 := by
        intro n hn' heq
        cases B with
        | nil => cases hn'
        | cons b B' =>
          simp at hn'; subst hn'
          exact hhit ⟨_, _, rfl, heq⟩
      have hnone := no_eq_of_head_ne hc v A B (by rw [← hn]; exact hs.sorted) hA hB hmiss
      have hany : (s.nodes.map (·.val)).any (fun x => decide (cmp x v = 0)) = false := by
        rw [List.any_eq_false]
        intro x hx
        obtain ⟨n, hm, rfl⟩ := List.mem_map.mp hx
        simpa using hnone n (by rw [← hn]; exact hm)
      rw [hany]
      cases hB' : B.head? with
      | none => rfl
      | some n => simp [hmiss n hB']
  | get i =>
    refine ⟨?_, by simp only [step]; split <;> (try split) <;> exact hs⟩
    have hsz := hs.size
    simp only [step, Spec.step, SL.asSlice, List.length_map, hsz]
    by_cases hr : i < 0 ∨ i ≥ (s.nodes.length : Int)
    · simp [hr]
    · have hlt : i.toNat < s.nodes.length := by omega
      simp only [hr, if_false, List.getElem?_eq_getElem hlt, List.getD_eq_getElem?_getD, List.getElem?_map]
      simp
  | peek =>
    refine ⟨?_, by simp only [step]; split <;> exact hs⟩
    obtain ⟨nodes, lvl, sz⟩ := s
    simp only [step, Spec.step, SL.asSlice]
    cases nodes with
    | nil => rfl
    | cons n t => rfl
  | asSlice =>
    have hsz : ¬ s.size < 0 := by have := hs.size; omega
    have : step cmp s h .asSlice = (s, .ok (.slice (s.nodes.map (·.val)))) := by simp only [step, if_neg hsz]
    rw [this]
    exact ⟨rfl, hs⟩
  | len =>
    refine ⟨?_, hs⟩
    simp [step, Spec.step, SL.asSlice, hs.size]

/-! ### facts about the specification itself -/

theorem spec_insert_perm (cmp : Cmp) (v : Int) (l : List Int) : (Spec.insert cmp v l).Perm (v :: l) := by
  unfold Spec.insert
  have h := List.perm_middle (a := v) (l₁ := l.takeWhile (fun x => decide (cmp x v < 0)))
    (l₂ := l.dropWhile (fun x => decide (cmp x v < 0)))
  rw [List.takeWhile_append_dropWhile] at h
  exact h

/-- DeleteElement removes exactly one element equivalent to `v`, or nothing if there is none -/
theorem spec_delete_cases (cmp : Cmp) (v : Int) (l : List Int) :
    ((∀ x ∈ l, cmp x v ≠ 0) ∧ Spec.delete cmp v l = l) ∨
    (∃ x, x ∈ l ∧ cmp x v = 0 ∧ l.Perm (x :: Spec.delete cmp v l)) := by
  by_cases hex : ∃ x ∈ l, cmp x v = 0
  · right
    obtain ⟨x, hx, hxe⟩ := hex
    obtain ⟨a, l1, l2, _, hpa, hl, he⟩ := List.exists_of_eraseP (p := fun x => decide (cmp x v = 0)) hx (by simpa using hxe)
    refine ⟨a, by rw [hl]; simp, by simpa using hpa, ?_⟩
    unfold Spec.delete
    rw [he, hl]
    exact List.perm_middle
  · left
    have hall : ∀ x ∈ l, cmp x v ≠ 0 := fun x hx he => hex ⟨x, hx, he⟩
    refine ⟨hall, ?_⟩
    unfold Spec.delete
    exact List.eraseP_of_forall_not (fun a ha => by simpa using hall a ha)

/-- with a comparator that separates different elements, DeleteElement is multiset removal -/
theorem spec_delete_exact {cmp : Cmp} (hc : Lawful cmp) (hex : ∀ a b, cmp a b = 0 → a = b) (v : Int) (l : List Int) :
    Spec.delete cmp v l = l.erase v := by
  unfold Spec.delete
  rw [List.erase_eq_eraseP']
  congr 1
  funext x
  by_cases e : x = v
  · subst e; simp [hc.refl x]
  · have : cmp x v ≠ 0 := fun h => e (hex x v h)
    simp [e, this]

end Ekit.SkipList
