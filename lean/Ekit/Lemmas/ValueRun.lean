/-
Table level: `run` (every call the driver executes) refines `Spec.judge`, never panics, and passes a
stored Err through, for every table that passes `Table.sound`.
-/
import Ekit.Lemmas.ValueRefine

namespace Ekit.Value
open Ekit.Go Spec

theorem Table.sound_elim {tbl : Table} (h : tbl.sound = true) :
    (∀ r ∈ tbl.rows, r.sound = true) ∧ (∀ d ∈ tbl.defs, d.sound tbl = true) ∧
    tbl.asString.sound = true ∧ tbl.jsonScan.sound tbl = true := by
  unfold Table.sound at h
  simp only [Bool.and_eq_true, List.all_eq_true] at h
  obtain ⟨⟨⟨⟨_, h2⟩, h3⟩, h4⟩, h5⟩ := h
  exact ⟨h2, h3, h4, h5⟩

theorem find_row {tbl : Table} {name : String} {r : Row} (h : tbl.rows.find? (·.name = name) = some r) :
    r ∈ tbl.rows ∧ r.name = name := by
  refine ⟨List.mem_of_find?_eq_some h, ?_⟩
  have := List.find?_some h
  simpa using this

/-- what `runNamed` resolves to in a sound table -/
theorem runNamed_cases (o : Oracle) {tbl : Table} (h : tbl.sound = true) (name : String) (av : AnyValue)
    (out : Out) (hr : runNamed o tbl name av = some out) :
    (name = "AsString" ∧ out = runAsString o tbl.asString av) ∨
    (∃ r ∈ tbl.rows, r.sound = true ∧ r.name = name ∧ out = runRow o r av) := by
  obtain ⟨hrows, _, _, _⟩ := Table.sound_elim h
  unfold runNamed at hr
  by_cases hn : name = "AsString"
  · simp [hn] at hr; exact Or.inl ⟨hn, hr.symm⟩
  · simp only [hn, if_false] at hr
    cases hf : tbl.rows.find? (·.name = name) with
    | none => simp [hf] at hr
    | some r =>
      simp [hf] at hr
      obtain ⟨hm, hname⟩ := find_row hf
      exact Or.inr ⟨r, hm, hrows r hm, hname, hr.symm⟩

theorem runNamed_accepts (o : Oracle) {tbl : Table} (h : tbl.sound = true) (name : String) (av : AnyValue)
    (hwf : av.val.wf) (out : Out) (hr : runNamed o tbl name av = some out) :
    ∃ vd, judge o av (.acc name) = some vd ∧ vd.accepts out = true := by
  obtain ⟨_, _, has, _⟩ := Table.sound_elim h
  rcases runNamed_cases o h name av out hr with ⟨hn, ho⟩ | ⟨r, _, hs, hn, ho⟩
  · subst hn ho; exact runAsString_accepts o has av hwf
  · subst hn ho; exact runRow_accepts o hs av

theorem runNamed_nopanic (o : Oracle) {tbl : Table} (h : tbl.sound = true) (name : String) (av : AnyValue)
    (out : Out) (hr : runNamed o tbl name av = some out) : out.isPanic = false := by
  obtain ⟨_, _, has, _⟩ := Table.sound_elim h
  rcases runNamed_cases o h name av out hr with ⟨_, ho⟩ | ⟨r, _, hs, _, ho⟩
  · subst ho; exact runAsString_nopanic o has av
  · subst ho; exact runRow_nopanic o hs av

theorem runNamed_stored (o : Oracle) {tbl : Table} (h : tbl.sound = true) (name : String) (hv : Held) (e : Err)
    (out : Out) (hr : runNamed o tbl name ⟨hv, some e⟩ = some out) : out = .err e := by
  obtain ⟨_, _, has, _⟩ := Table.sound_elim h
  rcases runNamed_cases o h name _ out hr with ⟨_, ho⟩ | ⟨r, _, hs, _, ho⟩
  · subst ho; exact runAsString_stored o has hv e
  · subst ho; exact runRow_stored o hs hv e

/-! ### OrDefault -/

theorem DefRow.sound_elim {tbl : Table} {d : DefRow} (h : d.sound tbl = true) :
    defTarget d.name = some d.ret ∧ d.via ≠ "AsString" ∧
    ∃ r, tbl.rows.find? (·.name = d.via) = some r ∧ r.str = none ∧ r.ret = d.ret ∧ r.sound = true := by
  unfold DefRow.sound at h
  simp only [Bool.and_eq_true, beq_iff_eq, bne_iff_ne] at h
  obtain ⟨⟨⟨_, h2⟩, h3⟩, h4⟩ := h
  refine ⟨h2, h3, ?_⟩
  cases hf : tbl.rows.find? (·.name = d.via) with
  | none => simp [hf] at h4
  | some r =>
    simp [hf] at h4
    exact ⟨r, rfl, by simpa using h4.1.1, h4.1.2, h4.2⟩

/-- an OrDefault form consults a *strict* accessor of the same type and returns the default exactly
when that accessor fails -/
theorem runDef_spec (o : Oracle) {tbl : Table} {d : DefRow} (h : d.sound tbl = true) (av : AnyValue) (dv : Val) :
    ∃ r, tbl.rows.find? (·.name = d.via) = some r ∧ r.str = none ∧ r.ret = d.ret ∧
      ((∃ v, runRow o r av = .ok v ∧ runDef o tbl d av dv = .ok v) ∨
       ((runRow o r av).isErr = true ∧ runDef o tbl d av dv = .ok dv)) := by
  obtain ⟨_, hvia, r, hf, hs, hret, hsound⟩ := DefRow.sound_elim h
  refine ⟨r, hf, hs, hret, ?_⟩
  have hnamed : runNamed o tbl d.via av = some (runRow o r av) := by
    simp [runNamed, hvia, hf]
  unfold runDef
  rw [hnamed]
  have hnp := runRow_nopanic o hsound av
  cases hr : runRow o r av with
  | ok v => exact Or.inl ⟨v, rfl, rfl⟩
  | err e => exact Or.inr ⟨rfl, rfl⟩
  | panic m => rw [hr] at hnp; simp [Outcome.isPanic] at hnp

theorem runDef_accepts (o : Oracle) {tbl : Table} {d : DefRow} (h : d.sound tbl = true) (av : AnyValue) (dv : Val) :
    ∃ vd, judge o av (.orDefault d.name dv) = some vd ∧ vd.accepts (runDef o tbl d av dv) = true := by
  obtain ⟨hdt, hvia, r, hf, hs, hret, hsound⟩ := DefRow.sound_elim h
  have hnamed : runNamed o tbl d.via av = some (runRow o r av) := by
    simp [runNamed, hvia, hf]
  unfold runDef
  rw [hnamed]
  rcases av with ⟨hv, err⟩
  simp only [judge, hdt]
  cases err with
  | some e =>
    rw [runRow_stored o hsound]
    exact ⟨_, rfl, accepts_exactly dv⟩
  | none =>
    cases ht : typeAssert d.ret hv with
    | some v =>
      rw [runRow_exact o hsound hv v (by rw [hret]; exact ht)]
      exact ⟨_, rfl, accepts_exactly v⟩
    | none =>
      rw [runRow_strict_err o hsound hs hv (by rw [hret]; exact ht)]
      exact ⟨_, rfl, accepts_exactly dv⟩

/-! ### JSONScan -/

theorem typeAssert_bytes {h : Held} {v : Val} (ht : typeAssert .bytes h = some v) :
    ∃ b, h = .bytes false b ∧ v = .bytes b := by
  cases h with
  | bytes named b =>
    cases named
    · simp [typeAssert] at ht; exact ⟨b, rfl, ht.symm⟩
    · simp [typeAssert] at ht
  | int t named v' => cases named <;> simp [typeAssert] at ht
  | float is64 named b => cases named <;> cases is64 <;> simp [typeAssert] at ht
  | str named b => cases named <;> simp [typeAssert] at ht
  | bool named b => cases named <;> simp [typeAssert] at ht
  | nil => simp [typeAssert] at ht
  | slice => simp [typeAssert] at ht
  | other => simp [typeAssert] at ht

theorem JSONScanInfo.sound_elim {tbl : Table} (h : tbl.jsonScan.sound tbl = true) :
    tbl.jsonScan.propagatesErr = true ∧ tbl.jsonScan.via = "AsBytes" ∧
    ∃ r sc, tbl.rows.find? (·.name = "AsBytes") = some r ∧ r.sound = true ∧ r.ret = .bytes ∧
      r.str = some sc ∧ sc.conv = .toBytes := by
  unfold JSONScanInfo.sound at h
  simp only [Bool.and_eq_true, beq_iff_eq] at h
  obtain ⟨⟨⟨_, h2⟩, h3⟩, h4⟩ := h
  refine ⟨h2, h3, ?_⟩
  cases hf : tbl.rows.find? (·.name = "AsBytes") with
  | none => simp [hf] at h4
  | some r =>
    simp [hf] at h4
    obtain ⟨hs, hret⟩ := h4
    obtain ⟨_, hname⟩ := find_row hf
    obtain ⟨_, _, _, hcase⟩ := Row.sound_elim hs
    rcases hcase with ⟨_, hst⟩ | ⟨sc, hstr, _, _, _, _, hsf⟩
    · rw [hname] at hst
      have : strictTarget "AsBytes" = none := by decide
      rw [this] at hst; simp at hst
    · refine ⟨r, sc, rfl, hs, hret, hstr, ?_⟩
      rw [hret] at hsf
      unfold StrCase.soundFor at hsf
      cases hc : sc.conv <;> simp [hc] at hsf
      rfl

theorem runJSONScan_accepts (o : Oracle) {tbl : Table} (h : tbl.sound = true) (av : AnyValue) (target : Nat) :
    ∃ vd, judge o av (.jsonScan target) = some vd ∧ vd.accepts (runJSONScan o tbl av target) = true := by
  obtain ⟨_, _, _, hj⟩ := Table.sound_elim h
  obtain ⟨hprop, hvia, r, sc, hf, hsound, hret, hstr, hconv⟩ := JSONScanInfo.sound_elim hj
  have hnamed : runNamed o tbl "AsBytes" av = some (runRow o r av) := by
    have : ¬ ("AsBytes" = "AsString") := by decide
    simp [runNamed, this, hf]
  unfold runJSONScan
  rw [hvia, hnamed, hprop]
  rcases av with ⟨hv, err⟩
  cases err with
  | some e =>
    rw [runRow_stored o hsound]
    exact ⟨{ allowed := [.err e] }, rfl, by simp [Verdict.accepts]⟩
  | none =>
    cases ht : typeAssert r.ret hv with
    | some v =>
      rw [runRow_exact o hsound hv v ht]
      rw [hret] at ht
      obtain ⟨b, rfl, rfl⟩ := typeAssert_bytes ht
      exact ⟨_, rfl, by simp [Verdict.accepts]⟩
    | none =>
      cases hs : typeAssert .string hv with
      | some v' =>
        obtain ⟨s, rfl, rfl⟩ := typeAssert_string hs
        rw [runRow_plain_string o hsound hstr s ht]
        simp only [runStr, hconv]
        exact ⟨_, rfl, by simp [Verdict.accepts]⟩
      | none =>
        rw [runRow_not_string o hsound hv ht hs]
        simp only [if_true]
        rw [hret] at ht
        cases hv with
        | str named s =>
          cases named
          · simp [typeAssert] at hs
          · exact ⟨_, rfl, accepts_anyErr rfl _⟩
        | bytes named b =>
          cases named
          · simp [typeAssert] at ht
          · exact ⟨_, rfl, accepts_anyErr rfl _⟩
        | nil => exact ⟨_, rfl, accepts_anyErr rfl _⟩
        | int t named v => exact ⟨_, rfl, accepts_anyErr rfl _⟩
        | float is64 named b => exact ⟨_, rfl, accepts_anyErr rfl _⟩
        | bool named b => exact ⟨_, rfl, accepts_anyErr rfl _⟩
        | slice => exact ⟨_, rfl, accepts_anyErr rfl _⟩
        | other => exact ⟨_, rfl, accepts_anyErr rfl _⟩

theorem runJSONScan_nopanic (o : Oracle) (ho : ∀ b t, (o.unmarshal b t).isPanic = false) {tbl : Table}
    (h : tbl.sound = true) (av : AnyValue) (target : Nat) : (runJSONScan o tbl av target).isPanic = false := by
  obtain ⟨_, _, _, hj⟩ := Table.sound_elim h
  obtain ⟨hprop, hvia, r, sc, hf, hsound, hret, hstr, hconv⟩ := JSONScanInfo.sound_elim hj
  have hnamed : runNamed o tbl "AsBytes" av = some (runRow o r av) := by
    have : ¬ ("AsBytes" = "AsString") := by decide
    simp [runNamed, this, hf]
  have hacc := runNamed_accepts o h "AsBytes" av
  unfold runJSONScan
  rw [hvia, hnamed, hprop]
  rcases av with ⟨hv, err⟩
  cases err with
  | some e => rw [runRow_stored o hsound]; rfl
  | none =>
    cases ht : typeAssert r.ret hv with
    | some v =>
      rw [runRow_exact o hsound hv v ht]
      rw [hret] at ht
      obtain ⟨b, rfl, rfl⟩ := typeAssert_bytes ht
      exact ho _ _
    | none =>
      cases hs : typeAssert .string hv with
      | some v' =>
        obtain ⟨s, rfl, rfl⟩ := typeAssert_string hs
        rw [runRow_plain_string o hsound hstr s ht]
        simp only [runStr, hconv]
        exact ho _ _
      | none =>
        rw [runRow_not_string o hsound hv ht hs]; rfl

theorem runJSONScan_stored (o : Oracle) {tbl : Table} (h : tbl.sound = true) (hv : Held) (e : Err) (target : Nat) :
    runJSONScan o tbl ⟨hv, some e⟩ target = .err e := by
  obtain ⟨_, _, _, hj⟩ := Table.sound_elim h
  obtain ⟨hprop, hvia, r, sc, hf, hsound, _⟩ := JSONScanInfo.sound_elim hj
  have hnamed : runNamed o tbl "AsBytes" ⟨hv, some e⟩ = some (runRow o r ⟨hv, some e⟩) := by
    have : ¬ ("AsBytes" = "AsString") := by decide
    simp [runNamed, this, hf]
  unfold runJSONScan
  rw [hvia, hnamed, hprop, runRow_stored o hsound]
  rfl

/-! ### every call -/

/-- **refinement**: whatever the table interpreter returns for a call is an outcome the specification allows -/
theorem run_refines (o : Oracle) {tbl : Table} (h : tbl.sound = true) (av : AnyValue) (hwf : av.val.wf)
    (call : Call) (out : Out) (hr : run o tbl av call = some out) :
    ∃ vd, judge o av call = some vd ∧ vd.accepts out = true := by
  obtain ⟨_, hdefs, _, _⟩ := Table.sound_elim h
  cases call with
  | acc name => exact runNamed_accepts o h name av hwf out hr
  | orDefault name dv =>
    simp only [run] at hr
    cases hf : tbl.defs.find? (·.name = name) with
    | none => simp [hf] at hr
    | some d =>
      simp [hf] at hr
      have hm := List.mem_of_find?_eq_some hf
      have hname : d.name = name := by simpa using List.find?_some hf
      subst hname hr
      exact runDef_accepts o (hdefs d hm) av dv
  | jsonScan target =>
    simp only [run, Option.some.injEq] at hr
    subst hr
    exact runJSONScan_accepts o h av target

/-- **totality**: no call panics (json.Unmarshal itself assumed not to) -/
theorem run_nopanic (o : Oracle) (ho : ∀ b t, (o.unmarshal b t).isPanic = false) {tbl : Table}
    (h : tbl.sound = true) (av : AnyValue) (call : Call) (out : Out) (hr : run o tbl av call = some out) :
    out.isPanic = false := by
  obtain ⟨_, hdefs, _, _⟩ := Table.sound_elim h
  cases call with
  | acc name => exact runNamed_nopanic o h name av out hr
  | orDefault name dv =>
    simp only [run] at hr
    cases hf : tbl.defs.find? (·.name = name) with
    | none => simp [hf] at hr
    | some d =>
      simp [hf] at hr
      have hm := List.mem_of_find?_eq_some hf
      subst hr
      obtain ⟨r, _, _, _, hc⟩ := runDef_spec o (hdefs d hm) av dv
      rcases hc with ⟨v, _, hd⟩ | ⟨_, hd⟩ <;> rw [hd] <;> rfl
  | jsonScan target =>
    simp only [run, Option.some.injEq] at hr
    subst hr
    exact runJSONScan_nopanic o ho h av target

/-- **a stored Err is returned unchanged** by every accessor and by JSONScan -/
theorem run_stored (o : Oracle) {tbl : Table} (h : tbl.sound = true) (hv : Held) (e : Err)
    (call : Call) (hcall : ∀ n d, call ≠ .orDefault n d) (out : Out)
    (hr : run o tbl ⟨hv, some e⟩ call = some out) : out = .err e := by
  cases call with
  | acc name => exact runNamed_stored o h name hv e out hr
  | orDefault name dv => exact absurd rfl (hcall name dv)
  | jsonScan target =>
    simp only [run, Option.some.injEq] at hr
    subst hr
    exact runJSONScan_stored o h hv e target

end Ekit.Value
