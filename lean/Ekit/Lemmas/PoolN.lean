/-
Layer N (C10): ShutdownNow leaves nothing behind.  Once the queue has been closed by ShutdownNow
(`closed ∧ ¬graceful`) and its caller (`holder`, the winner of the last successful CAS on `state`) is no
longer between its CAS and the end of the drain loop, the queue is empty — and stays empty.
-/
import Ekit.Lemmas.PoolA2
import Ekit.Lemmas.PoolFrame
namespace Ekit.Pool

def LN : Loc where
  G s := s.closed = true → s.graceful = false → snAfter (s.callers s.holder).pc = false → s.queue = []
  W _ _ _ := True
  C s _ cl := cl.pc = .sdClose → s.graceful = true

theorem invN_init : LN.Inv init := by
  refine ⟨?_, ?_, ?_⟩ <;> simp [LN, init]

theorem invN_wstep (c : Cfg) (s s' : St) (i : Nat) (a : WAct) (hi : LN.Inv s) (h : wStep c s i a = some s') :
    LN.Inv s' := by
  unfold wStep at h
  split at h
  next w hw =>
    have hg := hi.glob
    simp only [LN] at hg
    cases a <;> simp only [wAct] at h <;> (repeat' (split at h)) <;> (try simp at h) <;> (try subst h) <;>
      (refine Loc.inv_worker hw rfl rfl hi ?_ (fun _ => trivial) (fun _ _ _ _ _ => trivial) (fun _ h => h)
       first
       | exact hi.glob
       | (simp only [LN]; simp_all))
  next => simp at h

set_option maxHeartbeats 1000000 in
theorem invN_cstep (c : Cfg) (s s' : St) (t : Nat) (a : CAct) (hA : InvA s) (hi : LN.Inv s)
    (h : cAct c s t (s.callers t) a = some s') : LN.Inv s' := by
  have hg := hi.glob
  have hct := hi.cl t
  have hag := (GAI_iff _).1 hA.glob
  have hat := (LA_iff _ _ _).1 (hA.loc t)
  simp only [LN] at hg hct
  simp only [St.ga] at hag hat
  cases a <;> simp only [cAct, toUnlock] at h <;> (repeat' (split at h)) <;> (try simp at h) <;> (try subst h) <;>
    first
    | (refine Loc.inv_global (s := s) rfl rfl hi ?_ (fun _ h => h) (fun _ _ _ _ => trivial)
       first | exact hi.glob | (simp only [LN]; simp_all))
    | (refine Loc.inv_spawn (s := s) (t := t) rfl rfl hi ?_ ?_ (fun _ _ h => h) (fun _ _ _ _ => trivial) trivial
       · simp only [LN, St.setC]; by_cases hht : s.holder = t <;> simp_all [upd]
       · intro hm; simp only [LN]; simp_all)
    | (refine Loc.inv_rendezvous (s := s) (t := t) rfl rfl hi ?_ ?_ (fun _ _ h => h) (fun _ _ _ => trivial)
         (fun _ _ _ _ _ => trivial)
       · simp only [LN, St.setC]; by_cases hht : s.holder = t <;> simp_all [upd]
       · intro hm; simp only [LN]; simp_all)
    | (refine Loc.inv_caller (s := s) (t := t) rfl rfl hi ?_ ?_ ?_ (fun _ _ _ _ => trivial)
       · simp only [LN, St.setC, St.recSub]; by_cases hht : s.holder = t <;> simp_all [upd]
       · intro hm; simp only [LN]; simp_all
       · first
         | exact fun _ _ h => h
         | (intro u hne hm
            have hau := (LA_iff _ _ _).1 (hA.loc u)
            simp only [St.ga] at hau
            simp only [LN] at hm ⊢; simp_all))

end Ekit.Pool
