/- The sift-up loop of Enqueue restores the heap (C05). Core Lean only. -/
import Ekit.Lemmas.HeapBasic

namespace Ekit.Heap
open Ekit.Cmp

/-- one iteration of the sift-up loop keeps its invariant, one level higher -/
theorem upInv_swap {cmp : Cmp} (hc : Lawful cmp) {d : List Int} {k : Nat} {a b : Int}
    (hk2 : 2 ≤ k) (ha : d[k]? = some a) (hb : d[k / 2]? = some b) (hlt : cmp a b < 0)
    (h : UpInv cmp d k) : UpInv cmp ((d.set (k / 2) a).set k b) (k / 2) := by
  have hkl := lt_length_of_getElem? ha
  have hpl := lt_length_of_getElem? hb
  obtain ⟨h1, h2⟩ := h
  have rd : ∀ j, ((d.set (k / 2) a).set k b)[j]? = if j = k then some b else if j = k / 2 then some a else d[j]? :=
    fun j => getElem?_swap b a hpl hkl j
  constructor
  · intro i x y hi2 hik hx hy
    rw [rd] at hx hy
    by_cases e1 : i = k
    · -- the moved-down old parent under the moved-up element
      have e2 : ¬ i / 2 = k := by omega
      have e2' : i / 2 = k / 2 := by rw [e1]
      rw [if_pos e1] at hx
      rw [if_neg e2, if_pos e2'] at hy
      have hx' := Option.some.inj hx
      have hy' := Option.some.inj hy
      rw [← hx', ← hy']; omega
    · have e3 : ¬ i = k / 2 := hik
      rw [if_neg e1, if_neg e3] at hx
      by_cases e4 : i / 2 = k
      · -- i is a child of k: its new parent is the old parent of k
        rw [if_pos e4] at hy
        have hy' := Option.some.inj hy
        rw [← hy']
        exact h2 i x b hk2 e4 hx hb
      · rw [if_neg e4] at hy
        by_cases e5 : i / 2 = k / 2
        · -- i is the sibling of k: its parent is now `a`, smaller than the old parent
          rw [if_pos e5] at hy
          have hy' := Option.some.inj hy
          rw [← hy']
          have := h1 i x b hi2 e1 hx (by rw [e5]; exact hb)
          exact hc.trans _ _ _ (by omega) this
        · rw [if_neg e5] at hy
          exact h1 i x y hi2 e1 hx hy
  · intro c x y hp2 hcp hx hy
    rw [rd] at hx hy
    have e1 : ¬ k / 2 / 2 = k := by omega
    have e2 : ¬ k / 2 / 2 = k / 2 := by omega
    rw [if_neg e1, if_neg e2] at hy
    -- y is the grandparent of k
    have hgb : cmp y b ≤ 0 := h1 (k / 2) b y hp2 (by omega) hb hy
    by_cases e3 : c = k
    · rw [if_pos e3] at hx
      have hx' := Option.some.inj hx
      rw [← hx']; exact hgb
    · have e4 : ¬ c = k / 2 := by omega
      rw [if_neg e3, if_neg e4] at hx
      have := h1 c x b (by omega) e3 hx (by rw [hcp]; exact hb)
      exact hc.trans _ _ _ hgb this

theorem upInv_done_root {cmp : Cmp} {d : List Int} {k : Nat} (hk : k / 2 = 0) (h : UpInv cmp d k) :
    HeapInv cmp d := by
  intro i a b hi ha hb
  exact h.1 i a b hi (by omega) ha hb

theorem upInv_done_le {cmp : Cmp} (hc : Lawful cmp) {d : List Int} {k : Nat} {a b : Int}
    (ha : d[k]? = some a) (hb : d[k / 2]? = some b) (hnlt : ¬ cmp a b < 0) (h : UpInv cmp d k) :
    HeapInv cmp d := by
  intro i x y hi hx hy
  by_cases e : i = k
  · subst e
    rw [ha] at hx; rw [hb] at hy
    cases hx; cases hy
    exact hc.le_of_not_lt hnlt
  · exact h.1 i x y hi e hx hy

/-- **the sift-up loop**: started at a slot inside the array with enough fuel it does not panic,
    restores the heap, permutes the array, keeps slot 0 and the length. -/
theorem siftUp_spec {cmp : Cmp} (hc : Lawful cmp) (fuel : Nat) (d : List Int) (k : Nat)
    (hk : k < d.length) (hf : k < fuel) (h : UpInv cmp d k) :
    ∃ d', siftUp cmp fuel d k = some d' ∧ HeapInv cmp d' ∧ d'.Perm d ∧ d'[0]? = d[0]? ∧
      d'.length = d.length := by
  induction fuel generalizing d k with
  | zero => omega
  | succ fuel ih =>
    unfold siftUp
    by_cases hp : k / 2 > 0
    · simp only [hp, if_true]
      have hkl : d[k]? = some d[k] := List.getElem?_eq_getElem hk
      have hpl' : k / 2 < d.length := by omega
      have hpl : d[k / 2]? = some d[k / 2] := List.getElem?_eq_getElem hpl'
      rw [hkl, hpl]
      simp only []
      by_cases hlt : cmp d[k] d[k / 2] < 0
      · simp only [hlt, if_true]
        have hinv := upInv_swap hc (by omega) hkl hpl hlt h
        have hlen : ((d.set (k / 2) d[k]).set k d[k / 2]).length = d.length := by simp
        obtain ⟨d', e1, e2, e3, e4, e5⟩ := ih ((d.set (k / 2) d[k]).set k d[k / 2]) (k / 2)
          (by rw [hlen]; exact hpl') (by omega) hinv
        refine ⟨d', e1, e2, ?_, ?_, ?_⟩
        · exact e3.trans (swap_perm hpl hkl)
        · rw [e4, getElem?_swap _ _ hpl' hk]
          have : ¬ (0 = k) := by omega
          have : ¬ (0 = k / 2) := by omega
          simp [*]
        · rw [e5, hlen]
      · simp only [hlt, if_false]
        exact ⟨d, rfl, upInv_done_le hc hkl hpl hlt h, List.Perm.refl _, rfl, rfl⟩
    · simp only [hp, if_false]
      exact ⟨d, rfl, upInv_done_root (by omega) h, List.Perm.refl _, rfl, rfl⟩

/-- appending an element to a heap leaves everything in order except possibly the new last slot -/
theorem upInv_append {cmp : Cmp} {d : List Int} (t : Int) (h : HeapInv cmp d) :
    UpInv cmp (d ++ [t]) d.length := by
  constructor
  · intro i a b hi hne ha hb
    have hil := lt_length_of_getElem? ha
    simp at hil
    have hi' : i < d.length := by omega
    rw [List.getElem?_append_left hi'] at ha
    rw [List.getElem?_append_left (by omega)] at hb
    exact h i a b hi ha hb
  · intro c a b hk hck ha hb
    have hcl := lt_length_of_getElem? ha
    simp at hcl
    omega

end Ekit.Heap
