/-
A call whose context has already ended before it passes its (last) context check can only return the
context error — in both models.  This is the model-level fact behind the driver's `model`-mode rule
"a call invoked with a cancelled context answers the context error".
-/
import Ekit.Model.ArrayBQ
import Ekit.Model.LinkedBQ
open Ekit.Conc Ekit.BQ

namespace Ekit.ArrayBQ
/-- the program counters from which, once the context has ended, only `return ctx.Err()` is reachable -/
def errPath : Pc → Bool
  | .eAcq _ | .eLock _ | .eChk _ | .eRelBack | .dAcq | .dLock | .dChk | .dRelBack
  | .unlock .ctxErr | .ret .ctxErr => true
  | _ => false

theorem errPath_closed {s s' : State} {l : Label} (t : Nat) (hc : s.ctxDone t = true)
    (hp : errPath (s.pc t) = true) (hs : step s l = some s') :
    (s'.ctxDone t = true ∧ errPath (s'.pc t) = true) ∨ l = .res t .ctxErr := by
  cases l with
  | tau u =>
    left
    simp only [step] at hs
    split at hs
    · simp at hs
    · by_cases hu : u = t
      · subst hu
        unfold tauStep at hs
        cases hpc : s.pc u <;> simp only [hpc] at hs <;> simp [hpc, errPath] at hp
        all_goals (try split at hs)
        all_goals (try (simp at hs; done))
        all_goals (injection hs with hs; subst hs)
        all_goals (first
          | (simp_all [fpAdd, setPc, panic, errPath]; done)
          | (rename_i r; cases r <;> simp_all [setPc, panic, errPath])
          | (rename_i r _; cases r <;> simp_all [setPc, panic, errPath]))
      · have hfr : s'.pc t = s.pc t ∧ s'.ctxDone t = s.ctxDone t := by
          unfold tauStep at hs
          cases hpc : s.pc u <;> simp only [hpc] at hs
          all_goals (try split at hs)
          all_goals (try split at hs)
          all_goals (try (simp at hs; done))
          all_goals (injection hs with hs; subst hs)
          all_goals (simp [fpAdd, setPc, panic, upd, Ne.symm hu])
        rw [hfr.1, hfr.2]; exact ⟨hc, hp⟩
  | ctxEnd u =>
    left
    simp only [step] at hs
    split at hs
    · injection hs with hs; subst hs
      refine ⟨?_, hp⟩
      by_cases hu : t = u
      · subst hu; simp [upd]
      · simp [upd, hu, hc]
    · simp at hs
  | ctxArm u =>
    left
    simp only [step] at hs
    by_cases hu : u = t
    · subst hu
      cases hpc : s.pc u <;> simp only [hpc] at hs <;> try (simp at hs; done)
      all_goals (split at hs <;> try (simp at hs; done))
      all_goals (injection hs with hs; subst hs)
      all_goals (simp [setPc, errPath, hc])
    · cases hpc : s.pc u <;> simp only [hpc] at hs <;> try (simp at hs; done)
      all_goals (split at hs <;> try (simp at hs; done))
      all_goals (injection hs with hs; subst hs)
      all_goals (simp [setPc, upd, Ne.symm hu, hc, hp])
  | inv u op =>
    left
    simp only [step] at hs
    split at hs
    · rename_i hidle
      injection hs with hs; subst hs
      have hu : t ≠ u := by rintro rfl; simp [hidle, errPath] at hp
      simp [upd, hu, hc, hp]
    · simp at hs
  | res u r =>
    simp only [step] at hs
    split at hs
    · rename_i hret
      injection hs with hs; subst hs
      by_cases hu : t = u
      · subst hu
        right
        cases r <;> simp [hret, errPath] at hp
        rfl
      · left; simp [upd, hu, hc, hp]
    · simp at hs
end Ekit.ArrayBQ

namespace Ekit.LinkedBQ
def errPath : Pc → Bool
  | .eCtx _ | .dCtx | .ret .ctxErr => true
  | _ => false

theorem errPath_closed {s s' : State} {l : Label} (t : Nat) (hc : s.ctxDone t = true)
    (hp : errPath (s.pc t) = true) (hs : step s l = some s') :
    (s'.ctxDone t = true ∧ errPath (s'.pc t) = true) ∨ l = .res t .ctxErr := by
  cases l with
  | tau u =>
    left
    simp only [step] at hs
    split at hs
    · simp at hs
    · by_cases hu : u = t
      · subst hu
        unfold tauStep at hs
        cases hpc : s.pc u <;> simp only [hpc] at hs <;> simp [hpc, errPath] at hp
        all_goals (try (simp at hs; done))
        all_goals (injection hs with hs; subst hs)
        all_goals (simp_all [setPc, errPath])
      · have hfr : s'.pc t = s.pc t ∧ s'.ctxDone t = s.ctxDone t := by
          unfold tauStep at hs
          cases hpc : s.pc u <;> simp only [hpc] at hs
          all_goals (try simp only [unlockTo] at hs)
          all_goals (try split at hs)
          all_goals (try (simp at hs; done))
          all_goals (injection hs with hs; subst hs)
          all_goals (simp [setPc, panic, upd, Ne.symm hu])
          all_goals (try (cases ‹Which› <;> simp [setCond]))
        rw [hfr.1, hfr.2]; exact ⟨hc, hp⟩
  | ctxEnd u =>
    left
    simp only [step] at hs
    split at hs
    · injection hs with hs; subst hs
      refine ⟨?_, hp⟩
      by_cases hu : t = u
      · subst hu; simp [upd]
      · simp [upd, hu, hc]
    · simp at hs
  | ctxArm u =>
    left
    simp only [step] at hs
    by_cases hu : u = t
    · subst hu
      cases hpc : s.pc u <;> simp only [hpc] at hs <;> try (simp at hs; done)
      all_goals (split at hs <;> try (simp at hs; done))
      all_goals (injection hs with hs; subst hs)
      all_goals (simp [setPc, errPath, hc])
    · cases hpc : s.pc u <;> simp only [hpc] at hs <;> try (simp at hs; done)
      all_goals (split at hs <;> try (simp at hs; done))
      all_goals (injection hs with hs; subst hs)
      all_goals (simp [setPc, upd, Ne.symm hu, hc, hp])
  | inv u op =>
    left
    simp only [step] at hs
    split at hs
    · rename_i hidle
      injection hs with hs; subst hs
      have hu : t ≠ u := by rintro rfl; simp [hidle, errPath] at hp
      simp [upd, hu, hc, hp]
    · simp at hs
  | res u r =>
    simp only [step] at hs
    split at hs
    · rename_i hret
      injection hs with hs; subst hs
      by_cases hu : t = u
      · subst hu
        right
        cases r <;> simp [hret, errPath] at hp
        rfl
      · left; simp [upd, hu, hc, hp]
    · simp at hs
end Ekit.LinkedBQ
