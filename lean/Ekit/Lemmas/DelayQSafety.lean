/-
Invariants of the DelayQueue transition system, part 2: what a Dequeue removes and returns,
capacity, effect-freedom of failed calls.
-/
import Ekit.Lemmas.DelayQ

namespace Ekit.DelayQ
open Ekit.Conc

theorem isMin_mem {q : List Elem} {x : Elem} (h : isMin q x = true) : x ∈ q := by
  simp [isMin] at h; exact h.1

theorem isMin_le {q : List Elem} {x : Elem} (h : isMin q x = true) : ∀ y ∈ q, x.dl ≤ y.dl := by
  simp [isMin] at h; exact h.2

/-- the result a thread is about to return (it is inside `broadcast` or at the `return`) -/
def Pc.retOf : Pc → Option Ret
  | .bSwap _ r | .bUnlock _ _ r | .bClose _ _ r | .ret r => some r
  | _ => none

/-- I2: between the Peek that found `x` expired and the `q.Dequeue()`, `x` is still in the queue -/
def PopInv (s : State) : Prop := ∀ t x, s.pc t = .dPop x → x ∈ s.q ∧ x.dl ≤ s.now

theorem popInv_step (P : Params) (s : State) (l : Label) (s' : State)
    (hl : LockInv s) (hi : PopInv s) (h : step P s l = some s') : PopInv s' := by
  obtain ⟨h1, h2⟩ := hl
  step_cases h <;> intro u y hu <;> dsimp only at hu ⊢ <;>
    first
    | grind [upd, Pc.locked, isMin_mem, PopInv]
    | skip

theorem popInv_init : PopInv init := by intro t x h; simp [init] at h

/-- I3: an element on its way out (popped, the call is inside `broadcast` or at its `return`) is expired -/
def RetInv (s : State) : Prop := ∀ t x, (s.pc t).retOf = some (.deqOk x) → x.dl ≤ s.now

theorem retInv_init : RetInv init := by intro t x h; simp [init, Pc.retOf] at h

theorem retInv_step (P : Params) (s : State) (l : Label) (s' : State)
    (hp : PopInv s) (hi : RetInv s) (h : step P s l = some s') : RetInv s' := by
  step_cases h <;> intro u y hu <;> dsimp only at hu ⊢ <;>
    first
    | grind [upd, Pc.retOf, isMin_mem, isMin_le, PopInv, RetInv]
    | (simp only [upd] at hu; split at hu
       · simp only [Pc.retOf, Option.some.injEq, Ret.deqOk.injEq] at hu; subst hu
         have hx := hp _ _ ‹s.pc _ = Pc.dPop _›
         have := isMin_le ‹isMin s.q _ = true› _ hx.1
         omega
       · exact hi _ _ hu)

/-- I9: `q.Dequeue()` after a successful Peek never fails (the code's comment "cannot happen") -/
def NoErrInv (s : State) : Prop := ∀ t, (s.pc t).retOf ≠ some .deqErr

theorem noErrInv_init : NoErrInv init := by intro t; simp [init, Pc.retOf]

theorem noErrInv_step (P : Params) (s : State) (l : Label) (s' : State)
    (hp : PopInv s) (hi : NoErrInv s) (h : step P s l = some s') : NoErrInv s' := by
  step_cases h <;> intro u hu <;> dsimp only at hu ⊢ <;>
    first
    | grind [upd, Pc.retOf, PopInv, NoErrInv]
    | skip

/-- I7: the bounded variant never holds more than its capacity -/
def CapInv (P : Params) (s : State) : Prop := 0 < P.cap → s.q.length ≤ P.cap

theorem capInv_init (P : Params) : CapInv P init := by intro _; simp [init]

theorem capInv_step (P : Params) (s : State) (l : Label) (s' : State)
    (hi : CapInv P s) (h : step P s l = some s') : CapInv P s' := by
  step_cases h <;> intro hc <;> have hi := hi hc <;> dsimp only at hi ⊢ <;>
    first
    | exact hi
    | (simp [isFull] at *; omega)
    | (have := List.length_erase_le (a := ‹Elem›) (l := s.q); omega)
    | skip

/-- I8: only a call that is going to report success has modified the queue -/
def EffInv (s : State) : Prop :=
  ∀ t, s.eff t = true → s.pc t = .idle ∨ (s.pc t).retOf = some .enqOk ∨ ∃ x, (s.pc t).retOf = some (.deqOk x)

theorem effInv_init : EffInv init := by intro t h; simp [init] at h

theorem effInv_step (P : Params) (s : State) (l : Label) (s' : State)
    (hi : EffInv s) (h : step P s l = some s') : EffInv s' := by
  step_cases h <;> intro u hu <;> dsimp only at hu ⊢ <;>
    first
    | grind [upd, Pc.retOf, EffInv]
    | skip

end Ekit.DelayQ
