/-
Fuel monotonicity of the MiniGo interpreter: a result obtained with some call handler / loop fuel / call fuel
is obtained again with any handler that returns at least as much, and with any larger fuel.
-/
import Ekit.MiniGo.Lang
namespace Ekit.MiniGo
variable {ν : Type}

/-- `c'` returns whatever `c` returns -/
def CallLe (c c' : CallH ν) : Prop := ∀ fn args st r, c fn args st = .ok r → c' fn args st = .ok r

/-- one step through a `match evalE … with`: split the hypothesis, discharge the failing branches, transport
    the successful evaluation of the scrutinee to the goal with the induction hypothesis `ih` -/
local macro "mono_step " hr:ident ih:term : tactic =>
  `(tactic| (split at $hr:ident <;> rename_i heq $hr:ident <;> first
      | (cases $hr:ident; done)
      | (rw [$ih _ _ _ heq]; simp only [])
      | (rw [$ih _ _ _ heq])))

theorem evalE_mono (cmpF : Int → Int → Int) {c c' : CallH ν} (h : CallLe c c') :
    ∀ (e : Expr ν) ρ st r, evalE cmpF c ρ st e = .ok r → evalE cmpF c' ρ st e = .ok r := by
  intro e
  induction e with
  | nil => intro ρ st r hr; exact hr
  | int i => intro ρ st r hr; exact hr
  | bool b => intro ρ st r hr; exact hr
  | err c => intro ρ st r hr; exact hr
  | unit => intro ρ st r hr; exact hr
  | var x => intro ρ st r hr; exact hr
  | root => intro ρ st r hr; exact hr
  | size => intro ρ st r hr; exact hr
  | field e f ih =>
    intro ρ st r hr
    simp only [evalE] at hr ⊢
    mono_step hr ih
    exact hr
  | cmp a b iha ihb =>
    intro ρ st r hr
    simp only [evalE] at hr ⊢
    mono_step hr iha
    mono_step hr ihb
    exact hr
  | eq a b iha ihb =>
    intro ρ st r hr
    simp only [evalE] at hr ⊢
    mono_step hr iha
    mono_step hr ihb
    exact hr
  | ne a b iha ihb =>
    intro ρ st r hr
    simp only [evalE] at hr ⊢
    mono_step hr iha
    mono_step hr ihb
    exact hr
  | lt a b iha ihb =>
    intro ρ st r hr
    simp only [evalE] at hr ⊢
    mono_step hr iha
    mono_step hr ihb
    exact hr
  | gt a b iha ihb =>
    intro ρ st r hr
    simp only [evalE] at hr ⊢
    mono_step hr iha
    mono_step hr ihb
    exact hr
  | and a b iha ihb =>
    intro ρ st r hr
    simp only [evalE] at hr ⊢
    mono_step hr iha
    · exact hr
    · mono_step hr ihb
      exact hr
  | or a b iha ihb =>
    intro ρ st r hr
    simp only [evalE] at hr ⊢
    mono_step hr iha
    · exact hr
    · mono_step hr ihb
      exact hr
  | not a iha =>
    intro ρ st r hr
    simp only [evalE] at hr ⊢
    mono_step hr iha
    exact hr
  | add a b iha ihb =>
    intro ρ st r hr
    simp only [evalE] at hr ⊢
    mono_step hr iha
    mono_step hr ihb
    exact hr
  | call0 fn =>
    intro ρ st r hr
    simp only [evalE] at hr ⊢
    exact h _ _ _ _ hr
  | call1 fn a iha =>
    intro ρ st r hr
    simp only [evalE] at hr ⊢
    mono_step hr iha
    exact h _ _ _ _ hr
  | call2 fn a b iha ihb =>
    intro ρ st r hr
    simp only [evalE] at hr ⊢
    mono_step hr iha
    mono_step hr ihb
    exact h _ _ _ _ hr
  | call3 fn a b d iha ihb ihd =>
    intro ρ st r hr
    simp only [evalE] at hr ⊢
    mono_step hr iha
    mono_step hr ihb
    mono_step hr ihd
    exact h _ _ _ _ hr
  | alloc a b d e f g iha ihb ihd ihe ihf ihg =>
    intro ρ st r hr
    simp only [evalE] at hr ⊢
    mono_step hr iha
    mono_step hr ihb
    mono_step hr ihd
    mono_step hr ihe
    mono_step hr ihf
    mono_step hr ihg
    exact hr

theorem iterate_mono {cond cond' : Env → St → Res (Val × St)} {body body' : Env → St → Res (Flow × Env × St)}
    (hc : ∀ ρ st r, cond ρ st = .ok r → cond' ρ st = .ok r)
    (hb : ∀ ρ st r, body ρ st = .ok r → body' ρ st = .ok r) :
    ∀ (n n' : Nat), n ≤ n' → ∀ ρ st r, iterate cond body n ρ st = .ok r → iterate cond' body' n' ρ st = .ok r := by
  intro n
  induction n with
  | zero => intro n' _ ρ st r hr; simp [iterate] at hr
  | succ n ih =>
    intro n' hn ρ st r hr
    cases n' with
    | zero => omega
    | succ n' =>
      have hn' : n ≤ n' := by omega
      simp only [iterate] at hr ⊢
      mono_step hr hc
      · exact hr
      · mono_step hr hb
        · exact ih n' hn' _ _ _ hr
        · exact ih n' hn' _ _ _ hr
        · exact hr
        · exact hr

theorem exec_mono (cmpF : Int → Int → Int) {c c' : CallH ν} (h : CallLe c c') {lf lf' : Nat} (hl : lf ≤ lf') :
    ∀ (s : Stmt ν) ρ st r, exec cmpF c lf ρ st s = .ok r → exec cmpF c' lf' ρ st s = .ok r := by
  have hE := evalE_mono cmpF h
  intro s
  induction s with
  | skip => intro ρ st r hr; exact hr
  | continue_ => intro ρ st r hr; exact hr
  | break_ => intro ρ st r hr; exact hr
  | seq a b iha ihb =>
    intro ρ st r hr
    simp only [exec] at hr ⊢
    mono_step hr iha
    · exact ihb _ _ _ hr
    · exact hr
  | assign x e =>
    intro ρ st r hr
    simp only [exec] at hr ⊢
    mono_step hr (hE e)
    exact hr
  | setField p f e =>
    intro ρ st r hr
    simp only [exec] at hr ⊢
    mono_step hr (hE p)
    mono_step hr (hE e)
    exact hr
  | setRoot e =>
    intro ρ st r hr
    simp only [exec] at hr ⊢
    mono_step hr (hE e)
    exact hr
  | setSize e =>
    intro ρ st r hr
    simp only [exec] at hr ⊢
    mono_step hr (hE e)
    exact hr
  | ite c t e iht ihe =>
    intro ρ st r hr
    simp only [exec] at hr ⊢
    mono_step hr (hE c)
    · exact iht _ _ _ hr
    · exact ihe _ _ _ hr
  | loop c body ih =>
    intro ρ st r hr
    simp only [exec] at hr ⊢
    exact iterate_mono (fun ρ st r => hE c ρ st r) (fun ρ st r => ih ρ st r) lf lf' hl _ _ _ hr
  | ret e =>
    intro ρ st r hr
    simp only [exec] at hr ⊢
    mono_step hr (hE e)
    exact hr
  | ret2 a b =>
    intro ρ st r hr
    simp only [exec] at hr ⊢
    mono_step hr (hE a)
    mono_step hr (hE b)
    exact hr
  | expr e =>
    intro ρ st r hr
    simp only [exec] at hr ⊢
    mono_step hr (hE e)
    exact hr

theorem runBody_mono (cmpF : Int → Int → Int) {c c' : CallH ν} (h : CallLe c c') {lf lf' : Nat} (hl : lf ≤ lf')
    (p : Proc ν) (args : List Val) (st : St) (r : Val × St)
    (hr : runBody cmpF c lf p args st = .ok r) : runBody cmpF c' lf' p args st = .ok r := by
  have hX := exec_mono cmpF h hl p.body
  simp only [runBody] at hr ⊢
  mono_step hr hX
  · exact hr
  · exact hr

theorem call_mono (cmpF : Int → Int → Int) (procs : ν → Proc ν) :
    ∀ f f', f ≤ f' → CallLe (call cmpF procs f) (call cmpF procs f') := by
  intro f
  induction f with
  | zero => intro f' _ fn args st r hr; simp [call] at hr
  | succ f ih =>
    intro f' hf fn args st r hr
    cases f' with
    | zero => omega
    | succ f' =>
      have hf' : f ≤ f' := by omega
      simp only [call] at hr ⊢
      exact runBody_mono cmpF (ih f' hf') hf' _ _ _ _ hr


end Ekit.MiniGo
