/-
The translated list/array_list.go (Ekit/Generated/ArrayListGo.lean, run by the MiniGo interpreter of
Ekit/MiniGo/LangAL.lean; its calls into internal/slice mean the translated Add / Delete / Shrink of
Ekit/Generated/SliceGo.lean) simulates the hand-written value-level model `Ekit.Lists.ArrayList.step`
(Model/Lists.lean) call by call: related states, same results.  The calls into internal/slice are discharged by
`add_sim` / `delete_sim` / `shrink_sim` of Lemmas/SLRefine.lean.
-/
import Ekit.Generated.ArrayListGo
import Ekit.Props.C16SL
import Ekit.Props.C04

namespace Ekit.MiniGo.AL.Refine
open Ekit.MiniGo.AL Ekit.Gen.ArrayListGo Ekit.Lists
open Ekit.MiniGo.SL (Val Fail Res Env updA appendVals)
open Ekit.MiniGo.SL.Refine (WFS view)
open Ekit.Go (Outcome Err)

/-- the receiver's slice is a well-formed slice of the heap of arrays and its value-level view is the model's slice -/
def Rel (st : St) (m : ArrayList) : Prop :=
  ∃ a l c, st.vals = .slice (some a) l c ∧ WFS st.mem a l c ∧ view st.mem a l c = m.s

/-- how a Go result appears as a MiniGo value -/
def OutIs : Out → Val → Prop
  | .ok .unit, v => v = .nilErr
  | .ok (.val x), v => v = .pair (.int x) .nilErr
  | .ok (.int n), v => v = .int n
  | .err (.idx a b), v => v = .errIdx a b ∨ v = .pair (.int 0) (.errIdx a b)
  | _, _ => False

/-- the public calls of the translated file (`Range` / `AsSlice` are not translated); `g` is the runtime's capacity choice
    for this call, the variadic argument of `Append` is a fresh array of the heap -/
def runOp (sf fuel : Nat) (st : St) (g : Nat) : Op → Res (Val × St)
  | .get i => call sf procs fuel .Get [.int i] (withGrow st g)
  | .append ts => call sf procs fuel .Append [(allocSlice (withGrow st g) ts 0).1] (allocSlice (withGrow st g) ts 0).2
  | .add i t => call sf procs fuel .Add [.int i, .int t] (withGrow st g)
  | .set i t => call sf procs fuel .Set [.int i, .int t] (withGrow st g)
  | .delete i => call sf procs fuel .Delete [.int i] (withGrow st g)
  | .len => call sf procs fuel .Len [] (withGrow st g)
  | _ => .error .stuck

def translated : Op → Bool
  | .asSlice => false
  | .range => false
  | _ => true

/-- the room the oracle must offer: the elements of an allocating `append` -/
def need (n : Nat) : Op → Nat
  | .append ts => n + ts.length
  | .add _ _ => n + 1
  | _ => 0

theorem set_apply (ρ : Env) (x : Nat) (v : Val) (y : Nat) : (ρ.set x v) y = if y = x then v else ρ y := rfl
theorem ofArgs_apply (args : List Val) (x : Nat) : Env.ofArgs args x = args.getD x .unit := rfl
theorem call_succ (sf f : Nat) (fn : PName) (args : List Val) (st : St) :
    call sf procs (f + 1) fn args st = runBody sf (call sf procs f) (procs fn) args st := rfl

theorem take_length_of_wfs {st : SL.St} {a l c : Nat} (h : WFS st a l c) : ((st.arrs a).take l).length = l := by
  rw [List.length_take]; have := h.1; have := h.2.1; omega

theorem rel_withGrow {st : St} {m : ArrayList} (h : Rel st m) (g : Nat) : Rel (withGrow st g) m := h

/-! ### Len, Cap -/

theorem Len_run (sf f : Nat) (st : St) (a : Option Nat) (l c : Nat) (hv : st.vals = .slice a l c) :
    call sf procs (f + 1) .Len [] st = .ok (.int l, st) := by
  simp [call_succ, runBody, procs, body_Len, exec, evalE, hv]

theorem Cap_run (sf f : Nat) (st : St) (a : Option Nat) (l c : Nat) (hv : st.vals = .slice a l c) :
    call sf procs (f + 1) .Cap [] st = .ok (.int c, st) := by
  simp [call_succ, runBody, procs, body_Cap, exec, evalE, hv]

/-! ### Get -/

theorem Get_sim (sf f : Nat) (st : St) (m : ArrayList) (h : Rel st m) (g : Nat) (i : Int) :
    ∃ v, call sf procs (f + 2) .Get [.int i] st = .ok (v, st) ∧ (m.step g (.get i)).1 = m ∧
      OutIs (m.step g (.get i)).2 v := by
  obtain ⟨a, l, c, hv, hw, hview⟩ := h
  have hl := take_length_of_wfs hw
  obtain ⟨s⟩ := m
  simp only at hview; subst hview
  have hlen := Len_run sf f st (some a) l c hv
  by_cases h1 : i < 0
  · refine ⟨.pair (.int 0) (.errIdx l i), ?_, ?_, ?_⟩
    · simp [call_succ (f := f + 1), runBody, procs, body_Get, exec, evalE, hlen, ofArgs_apply, set_apply, SL.BinOp.apply, h1]
    · simp [ArrayList.step, view, hl, h1]
    · simp [ArrayList.step, view, hl, h1, OutIs]
  · by_cases h2 : i ≥ l
    · refine ⟨.pair (.int 0) (.errIdx l i), ?_, ?_, ?_⟩
      · simp [call_succ (f := f + 1), runBody, procs, body_Get, exec, evalE, hlen, ofArgs_apply, set_apply, SL.BinOp.apply, h1, h2]
      · simp [ArrayList.step, view, hl, h2]
      · simp [ArrayList.step, view, hl, h2, OutIs]
    · have hc : ¬ (i < 0 ∨ i ≥ (l : Int)) := by omega
      refine ⟨.pair (.int ((st.mem.arrs a).getD i.toNat 0)) .nilErr, ?_, ?_, ?_⟩
      · simp [call_succ (f := f + 1), runBody, procs, body_Get, exec, evalE, hlen, ofArgs_apply, set_apply, SL.BinOp.apply, h1,
          h2, hv, readIdx]
      · simp [ArrayList.step, view, hl, hc]
      · simp [ArrayList.step, view, hl, hc, OutIs]
        have hk : i.toNat < l := by omega
        simp [hk]

/-! ### Set -/

theorem Set_sim (sf f : Nat) (st : St) (m : ArrayList) (h : Rel st m) (g : Nat) (i t : Int) :
    ∃ v st', call sf procs (f + 1) .Set [.int i, .int t] st = .ok (v, st') ∧ Rel st' (m.step g (.set i t)).1 ∧
      OutIs (m.step g (.set i t)).2 v := by
  obtain ⟨a, l, c, hv, hw, hview⟩ := h
  have hl := take_length_of_wfs hw
  obtain ⟨s⟩ := m
  simp only at hview; subst hview
  by_cases hc : i ≥ (l : Int) ∨ i < 0
  · refine ⟨.errIdx l i, st, ?_, ?_, ?_⟩
    · rcases hc with h1 | h1
      · simp [call_succ, runBody, procs, body_Set, exec, evalE, ofArgs_apply, set_apply, SL.BinOp.apply, hv, h1]
      · have h2 : ¬ i ≥ (l : Int) := by omega
        simp [call_succ, runBody, procs, body_Set, exec, evalE, ofArgs_apply, set_apply, SL.BinOp.apply, hv, h1, h2]
    · simp only [ArrayList.step, view, hl, if_pos hc]; exact ⟨a, l, c, hv, hw, rfl⟩
    · simp [ArrayList.step, view, hl, hc, OutIs]
  · have h1 : ¬ i ≥ (l : Int) := by omega
    have h2 : ¬ i < 0 := by omega
    have h3 : ¬ (i < 0 ∨ i ≥ (l : Int)) := by omega
    refine ⟨.nilErr, { st with mem := { st.mem with arrs := updA st.mem.arrs a ((st.mem.arrs a).set i.toNat t) } }, ?_, ?_, ?_⟩
    · simp [call_succ, runBody, procs, body_Set, exec, evalE, ofArgs_apply, set_apply, SL.BinOp.apply, hv, h1, h2, writeIdx]
    · simp only [ArrayList.step, view, hl, if_neg hc]
      refine ⟨a, l, c, hv, ⟨?_, hw.2.1, hw.2.2⟩, ?_⟩
      · simp [updA, hw.1]
      · simp [view, updA, List.take_set]
    · simp [ArrayList.step, view, hl, hc, OutIs]

/-! ### Append -/

/-- the elements a slice argument denotes -/
def argVals (mem : SL.St) (arr : Option Nat) (n : Nat) : List Int :=
  match arr with | some b => (mem.arrs b).take n | none => []

theorem Append_sim (sf f : Nat) (st : St) (m : ArrayList) (h : Rel st m) (g : Nat) (rest : List Nat)
    (hg : st.mem.grow = g :: rest) (ts : List Int) (arr2 : Option Nat) (n c2 : Nat) (hts : argVals st.mem arr2 n = ts)
    (hroom : m.s.vals.length + ts.length ≤ g) :
    ∃ st', call sf procs (f + 1) .Append [.slice arr2 n c2] st = .ok (.nilErr, st') ∧ Rel st' ⟨m.s.append ts g⟩ := by
  obtain ⟨a, l, c, hv, hw, hview⟩ := h
  have hl := take_length_of_wfs hw
  obtain ⟨s⟩ := m
  simp only at hview; subst hview
  simp only [view, hl] at hroom
  have hev : ∀ r m', appendVals st.mem (some a) l c ts = .ok (r, m') →
      ∃ a' l' c', r = .slice (some a') l' c' ∧
        call sf procs (f + 1) .Append [.slice arr2 n c2] st = .ok (.nilErr, { mem := m', vals := r }) := by
    intro r m' hap
    cases arr2 with
    | none =>
      simp only [argVals] at hts; subst hts
      simp only [appendVals, List.isEmpty_nil, if_true] at hap
      injection hap with hap; injection hap with h1 h2; subst h1; subst h2
      exact ⟨a, l, c, rfl, by
        simp [call_succ, runBody, procs, body_Append, exec, evalE, ofArgs_apply, hv, appendVals]⟩
    | some b =>
      simp only [argVals] at hts
      have hshape : ∃ a' l' c', r = .slice (some a') l' c' := by
        unfold appendVals at hap
        split at hap
        · injection hap with hap; injection hap with h1 _; exact ⟨a, l, c, h1.symm⟩
        · split at hap
          · simp only [] at hap; injection hap with hap; injection hap with h1 _; exact ⟨_, _, _, h1.symm⟩
          · split at hap
            · split at hap
              · cases hap
              · injection hap with hap; injection hap with h1 _; exact ⟨_, _, _, h1.symm⟩
            · cases hap
      obtain ⟨a', l', c', hr⟩ := hshape
      refine ⟨a', l', c', hr, ?_⟩
      subst hr
      simp [call_succ, runBody, procs, body_Append, exec, evalE, ofArgs_apply, hv, hts, hap]
  by_cases hfit : l + ts.length ≤ c
  · obtain ⟨m2, hA, hB, hC, hD, hE⟩ := Ekit.MiniGo.SL.Refine.appendVals_fit st.mem a l c ts hfit
    obtain ⟨a', l', c', hr, hcall⟩ := hev _ _ hA
    refine ⟨_, hcall, a, l + ts.length, c, rfl, ⟨?_, hfit, by rw [hD]; exact hw.2.2⟩, ?_⟩
    · rw [hB]; simp only [List.length_append, List.length_drop, hl, hw.1]; omega
    · simp only [view, GoSlice.append, hl, if_pos hfit]
      rw [hB, List.take_left' (by simp [hl])]
  · cases ts with
    | nil => simp at hfit; have := hw.2.1; omega
    | cons y ys =>
      have hA := Ekit.MiniGo.SL.Refine.appendVals_grow st.mem a l c y ys hfit g rest hg hroom
      obtain ⟨a', l', c', hr, hcall⟩ := hev _ _ hA
      refine ⟨_, hcall, st.mem.alloc, l + (y :: ys).length, g, rfl, ⟨?_, hroom, by simp⟩, ?_⟩
      · simp only [Ekit.MiniGo.SL.Refine.updA_same, List.length_append, List.length_replicate, hl]; omega
      · simp only [view, GoSlice.append, hl, if_neg hfit, Ekit.MiniGo.SL.Refine.updA_same]
        rw [List.take_left' (by simp [hl])]

/-! ### Add: `slice.Add` is the translated internal/slice.Add (`add_sim`) -/

theorem Add_sim (sf f : Nat) (st : St) (m : ArrayList) (h : Rel st m) (g : Nat) (rest : List Nat)
    (hg : st.mem.grow = g :: rest) (i t : Int) (hroom : m.s.vals.length + 1 ≤ g) (hsf : m.s.vals.length + 2 ≤ sf) :
    ∃ v st', call sf procs (f + 1) .Add [.int i, .int t] st = .ok (v, st') ∧ Rel st' (m.step g (.add i t)).1 ∧
      OutIs (m.step g (.add i t)).2 v := by
  obtain ⟨a, l, c, hv, hw, hview⟩ := h
  have hl := take_length_of_wfs hw
  obtain ⟨s⟩ := m
  simp only at hview; subst hview
  simp only [view, hl] at hroom hsf
  have hs := Ekit.MiniGo.SL.Refine.add_sim st.mem a l c hw t i g rest hg hroom sf hsf
  cases hsa : sliceAdd (view st.mem a l c) t i g with
  | err e =>
    simp only [hsa] at hs
    obtain ⟨he, hrun⟩ := hs
    subst he
    refine ⟨.errIdx l i, st, ?_, ?_, ?_⟩
    · simp [call_succ, runBody, procs, body_Add, exec, evalE, foreign, ofArgs_apply, set_apply, hv, hrun]
      rw [← hv]
    · simp only [ArrayList.step, hsa]; exact ⟨a, l, c, hv, hw, rfl⟩
    · simp [ArrayList.step, hsa, OutIs]
  | ok r =>
    simp only [hsa] at hs
    obtain ⟨a', m2, hrun, hw2, hview2, _, _⟩ := hs
    refine ⟨.nilErr, { mem := m2, vals := .slice (some a') r.vals.length r.cap }, ?_, ?_, ?_⟩
    · simp [call_succ, runBody, procs, body_Add, exec, evalE, foreign, ofArgs_apply, set_apply, hv, hrun]
    · simp only [ArrayList.step, hsa]; exact ⟨a', _, _, rfl, hw2, hview2⟩
    · simp [ArrayList.step, hsa, OutIs]
  | panic msg => simp only [hsa] at hs

/-! ### shrink and Delete: the translated internal/slice.Delete (`delete_sim`), then `a.shrink()` = the translated
    internal/slice.Shrink (`shrink_sim`; it never panics on a well-formed slice) -/

theorem shrink_run (sf f : Nat) (st : St) (a l c : Nat) (hv : st.vals = .slice (some a) l c) (hw : WFS st.mem a l c)
    (g' : Nat) :
    ∃ r a' m', sliceShrink (view st.mem a l c) g' = .ok r ∧
      call sf procs (f + 1) .shrink [] st = .ok (.unit, { mem := m', vals := .slice (some a') r.vals.length r.cap }) ∧
      WFS m' a' r.vals.length r.cap ∧ view m' a' r.vals.length r.cap = r := by
  obtain ⟨r, hr⟩ := Ekit.Props.C16SL.c04_sl_shrink_no_panic st.mem a l c hw g'
  have hs := Ekit.MiniGo.SL.Refine.shrink_sim st.mem a l c hw g' sf
  simp only [hr] at hs
  obtain ⟨a', m2, hrun, hw2, hview2, _, _⟩ := hs
  refine ⟨r, a', m2, hr, ?_, hw2, hview2⟩
  simp [call_succ, runBody, procs, body_shrink, exec, evalE, foreign, hv, hrun]

theorem Delete_sim (sf f : Nat) (st : St) (m : ArrayList) (h : Rel st m) (g : Nat) (i : Int)
    (hsf : m.s.vals.length ≤ sf) :
    ∃ v st', call sf procs (f + 2) .Delete [.int i] st = .ok (v, st') ∧ Rel st' (m.step g (.delete i)).1 ∧
      OutIs (m.step g (.delete i)).2 v := by
  obtain ⟨a, l, c, hv, hw, hview⟩ := h
  have hl := take_length_of_wfs hw
  obtain ⟨s⟩ := m
  simp only at hview; subst hview
  simp only [view, hl] at hsf
  have hs := Ekit.MiniGo.SL.Refine.delete_sim st.mem a l c hw i sf hsf
  cases hsd : sliceDelete (view st.mem a l c) i with
  | err e =>
    simp only [hsd] at hs
    obtain ⟨he, hrun⟩ := hs
    subst he
    refine ⟨.pair (.int 0) (.errIdx l i), st, ?_, ?_, ?_⟩
    · simp [call_succ (f := f + 1), runBody, procs, body_Delete, exec, evalE, foreign, ofArgs_apply, set_apply, hv, hrun]
      rw [← hv]
    · simp only [ArrayList.step, hsd]; exact ⟨a, l, c, hv, hw, rfl⟩
    · simp [ArrayList.step, hsd, OutIs]
  | ok p =>
    obtain ⟨r, res⟩ := p
    simp only [hsd] at hs
    obtain ⟨m1, hrun, _, _, hw1, hview1, _⟩ := hs
    obtain ⟨r2, a2, m2, hsh, hcall, hw2, hview2⟩ :=
      shrink_run sf f { mem := m1, vals := .slice (some a) (l - 1) c } a (l - 1) c rfl hw1 g
    rw [hview1] at hsh
    refine ⟨.pair (.int res) .nilErr, { mem := m2, vals := .slice (some a2) r2.vals.length r2.cap }, ?_, ?_, ?_⟩
    · simp [call_succ (f := f + 1), runBody, procs, body_Delete, exec, evalE, foreign, ofArgs_apply, set_apply, hv, hrun, hcall]
    · simp only [ArrayList.step, hsd, hsh]; exact ⟨a2, _, _, rfl, hw2, hview2⟩
    · simp [ArrayList.step, hsd, hsh, OutIs]
  | panic msg => simp only [hsd] at hs

/-! ### the constructors -/

def emptySt : St := { mem := { arrs := fun _ => [], alloc := 0, grow := [] }, vals := .slice none 0 0 }

theorem New_sim (sf f : Nat) (st : St) (cap : Int) (hc : 0 ≤ cap) :
    ∃ v st' m, call sf procs (f + 1) .NewArrayList [.int cap] st = .ok (v, st') ∧ ArrayList.new cap = .ok m ∧ Rel st' m := by
  have h1 : ¬ cap < 0 := by omega
  refine ⟨.int 0, { mem := { st.mem with arrs := updA st.mem.arrs st.mem.alloc (List.replicate cap.toNat 0),
                                          alloc := st.mem.alloc + 1 },
                      vals := .slice (some st.mem.alloc) 0 cap.toNat }, ⟨⟨[], cap.toNat⟩⟩, ?_, by simp [ArrayList.new, h1], ?_⟩
  · simp [call_succ, runBody, procs, body_NewArrayList, exec, evalE, ofArgs_apply, h1]
  · exact ⟨st.mem.alloc, 0, cap.toNat, rfl, ⟨by simp [updA], Nat.zero_le _, by simp⟩, by simp [view]⟩

theorem NewOf_sim (sf f : Nat) (st : St) (a l c : Nat) (hw : WFS st.mem a l c) :
    ∃ v st', call sf procs (f + 1) .NewArrayListOf [.slice (some a) l c] st = .ok (v, st') ∧
      Rel st' (ArrayList.ofSlice ((st.mem.arrs a).take l) c) := by
  refine ⟨.int 0, { st with vals := .slice (some a) l c }, ?_, a, l, c, rfl, hw, rfl⟩
  simp [call_succ, runBody, procs, body_NewArrayListOf, exec, evalE, ofArgs_apply]

/-! ### one call, histories -/

theorem allocSlice_spec (st : St) (ts : List Int) :
    ∃ arr n c2 st1, allocSlice st ts 0 = (.slice arr n c2, st1) ∧ argVals st1.mem arr n = ts ∧ st1.vals = st.vals ∧
      st1.mem.grow = st.mem.grow ∧ st.mem.alloc ≤ st1.mem.alloc ∧ (∀ x, x < st.mem.alloc → st1.mem.arrs x = st.mem.arrs x) := by
  cases ts with
  | nil => exact ⟨none, 0, 0, st, by simp [allocSlice], rfl, rfl, rfl, Nat.le_refl _, fun _ _ => rfl⟩
  | cons y ys =>
    refine ⟨some st.mem.alloc, (y :: ys).length, (y :: ys).length,
      { st with mem := { st.mem with arrs := updA st.mem.arrs st.mem.alloc (y :: ys), alloc := st.mem.alloc + 1 } },
      by simp [allocSlice], ?_, rfl, rfl, by simp, ?_⟩
    · simp [argVals, updA]
    · intro x hx; simp only [updA]; rw [if_neg (by omega)]

/-- **one call**: from related states, with fuel for two nested calls, `len + 2` iterations for the loops of the translated
    internal/slice and an oracle that offers room for the elements, the translated procedure returns what the model
    `ArrayList.step` returns and ends in a related state (it does not panic, get stuck or run out of fuel). -/
theorem step_sim (sf fuel g : Nat) (st : St) (m : ArrayList) (h : Rel st m) (op : Op) (ht : translated op = true)
    (hf : 2 ≤ fuel) (hsf : m.s.vals.length + 2 ≤ sf) (hroom : need m.s.vals.length op ≤ g) :
    ∃ v st', runOp sf fuel st g op = .ok (v, st') ∧ Rel st' (m.step g op).1 ∧ OutIs (m.step g op).2 v := by
  obtain ⟨f, rfl⟩ : ∃ f, fuel = f + 2 := ⟨fuel - 2, by omega⟩
  have h' := rel_withGrow h g
  cases op with
  | get i =>
    obtain ⟨v, h1, h2, h3⟩ := Get_sim sf f _ m h' g i
    exact ⟨v, _, h1, by rw [h2]; exact h', h3⟩
  | append ts =>
    obtain ⟨arr, n, c2, st1, hal, hav, hvals, hgrow, hle, hsame⟩ := allocSlice_spec (withGrow st g) ts
    have hR1 : Rel st1 m := by
      obtain ⟨a, l, c, hv, hw, hview⟩ := h'
      refine ⟨a, l, c, by rw [hvals]; exact hv, ⟨?_, hw.2.1, by have := hw.2.2; omega⟩, ?_⟩
      · rw [hsame a hw.2.2]; exact hw.1
      · rw [← hview]; simp only [view]; rw [hsame a hw.2.2]
    obtain ⟨st', h1, h2⟩ := Append_sim sf (f + 1) st1 m hR1 g [g] (by rw [hgrow]; rfl) ts arr n c2 hav hroom
    refine ⟨.nilErr, st', ?_, h2, rfl⟩
    simp only [runOp, hal]; exact h1
  | add i t => exact Add_sim sf (f + 1) _ m h' g [g] rfl i t hroom hsf
  | set i t => exact Set_sim sf (f + 1) _ m h' g i t
  | delete i => exact Delete_sim sf f _ m h' g i (by omega)
  | len =>
    obtain ⟨a, l, c, hv, hw, hview⟩ := h'
    refine ⟨.int l, _, Len_run sf (f + 1) _ (some a) l c hv, ⟨a, l, c, hv, hw, hview⟩, ?_⟩
    simp only [ArrayList.step, OutIs, ← hview, view, take_length_of_wfs hw]
  | asSlice => simp [translated] at ht
  | range => simp [translated] at ht

/-- a history: the runtime's capacity choice comes with every call -/
def runOps (sf fuel : Nat) (st : St) : List (Nat × Op) → Res (List Val × St)
  | [] => .ok ([], st)
  | (g, op) :: ops =>
    match runOp sf fuel st g op with
    | .ok (v, s1) =>
      match runOps sf fuel s1 ops with
      | .ok (vs, s2) => .ok (v :: vs, s2)
      | .error e => .error e
    | .error e => .error e

inductive Forall₂ {α β : Type} (R : α → β → Prop) : List α → List β → Prop
  | nil : Forall₂ R [] []
  | cons {a b as bs} : R a b → Forall₂ R as bs → Forall₂ R (a :: as) (b :: bs)

/-- the side conditions of a history on the MODEL's run: every op is a translated one, the oracle offers room and the
    slice fuel covers the current length -/
def Admissible (sf : Nat) (m : ArrayList) : List (Nat × Op) → Prop
  | [] => True
  | (g, op) :: ops => translated op = true ∧ m.s.vals.length + 2 ≤ sf ∧ need m.s.vals.length op ≤ g ∧
      Admissible sf (m.step g op).1 ops

theorem run_sim (sf fuel : Nat) (hf : 2 ≤ fuel) : ∀ (ops : List (Nat × Op)) (st : St) (m : ArrayList), Rel st m →
    Admissible sf m ops →
    ∃ vs st', runOps sf fuel st ops = .ok (vs, st') ∧ Rel st' (ArrayList.run m ops).1 ∧
      Forall₂ OutIs (ArrayList.run m ops).2 vs := by
  intro ops
  induction ops with
  | nil => intro st m h _; exact ⟨[], st, rfl, h, .nil⟩
  | cons x rest ih =>
    intro st m h had
    obtain ⟨g, op⟩ := x
    obtain ⟨ht, hsf, hroom, hrest⟩ := had
    obtain ⟨v, s1, e1, hR1, ho⟩ := step_sim sf fuel g st m h op ht hf hsf hroom
    obtain ⟨vs, s2, e2, hR2, hF⟩ := ih s1 _ hR1 hrest
    refine ⟨v :: vs, s2, by simp only [runOps, e1, e2], ?_, ?_⟩
    · simpa only [ArrayList.run] using hR2
    · simpa only [ArrayList.run] using Forall₂.cons ho hF

/-- the list's contents read off the interpreter's heap (what the driver area `alptr` compares with the real list) -/
def contents (st : St) : List Int :=
  match st.vals with
  | .slice (some a) l _ => (st.mem.arrs a).take l
  | _ => []

theorem rel_contents {st : St} {m : ArrayList} (h : Rel st m) : contents st = m.s.vals := by
  obtain ⟨a, l, c, hv, _, hview⟩ := h
  simp only [contents, hv, ← hview, view]

end Ekit.MiniGo.AL.Refine
