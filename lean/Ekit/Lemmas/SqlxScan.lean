/-
Helper lemmas for C18: characterisations of `value`, `scan`, `deserialize`.
-/
import Ekit.Lemmas.Sqlx

namespace Ekit.Sqlx
open Ekit.Go

/-- the JSON side condition of the round trip: for a JSON-serialised `T`, `x` is representable
    for the receiver's current value; vacuous for the binary / raw arms -/
def Val.RepresentableFor {J} (c : JsonCodec J) (prior v : Val J) : Prop :=
  match prior, v with
  | .other p, .other x => ∀ b, c.marshal x = some b → c.unmarshal p b = (x, true)
  | _, _ => True

theorem value_ok {J} {a : AEAD} {c : JsonCodec J} {e : Col J} {n ct : Bytes}
    (h : value a c e n = .ok ct) :
    e.valid = true ∧ keyLenOk e.key.length = true ∧
      ∃ b, serialize c e.val = .ok b ∧ ct = n ++ a.sealAE e.key n b := by
  unfold value aesEncrypt at h
  cases hv : e.valid <;> simp [hv] at h
  cases hk : keyLenOk e.key.length <;> simp [hk] at h
  cases hs : serialize c e.val with
  | ok b => simp [hs] at h; exact ⟨rfl, rfl, b, rfl, h.symm⟩
  | err er => simp [hs] at h
  | panic m => simp [hs] at h

theorem value_of_ok {J} (a : AEAD) (c : JsonCodec J) (e : Col J) (n b : Bytes)
    (hv : e.valid = true) (hk : keyLenOk e.key.length = true) (hs : serialize c e.val = .ok b) :
    value a c e n = .ok (n ++ a.sealAE e.key n b) := by
  simp [value, aesEncrypt, hv, hk, hs]

theorem serialize_no_panic {J} (c : JsonCodec J) (v : Val J) (m : String) : serialize c v ≠ .panic m := by
  cases v <;> simp [serialize]
  split <;> simp

theorem value_no_panic {J} (a : AEAD) (c : JsonCodec J) (e : Col J) (n : Bytes) (m : String) :
    value a c e n ≠ .panic m := by
  unfold value aesEncrypt
  split
  · simp
  · split
    · simp
    · cases hs : serialize c e.val with
      | ok b => simp
      | err er => simp
      | panic m' => exact absurd hs (serialize_no_panic c e.val m')

theorem aesDecrypt_no_panic (a : AEAD) (key data : Bytes) (m : String) : aesDecrypt a key data ≠ .panic m := by
  rw [aesDecrypt_eq]
  split
  · simp
  · split
    · simp
    · split <;> simp

theorem deserialize_no_panic {J} (c : JsonCodec J) (prior : Val J) (pt : Bytes) (m : String) :
    (deserialize c prior pt).2 ≠ .panic m := by
  cases prior with
  | str s => simp [deserialize]
  | bytes b => simp [deserialize]
  | num k v =>
    simp only [deserialize]
    cases h : decodeNum k pt with
    | ok v => simp
    | err e => simp
    | panic m' => exact absurd h (decodeNum_no_panic k pt m')
  | int v =>
    simp only [deserialize]
    cases h : decodeNum .i64 pt with
    | ok v => simp
    | err e => simp
    | panic m' => exact absurd h (decodeNum_no_panic _ pt m')
  | uint v =>
    simp only [deserialize]
    cases h : decodeNum .u64 pt with
    | ok v => simp
    | err e => simp
    | panic m' => exact absurd h (decodeNum_no_panic _ pt m')
  | other x =>
    simp only [deserialize]
    split <;> simp

/-- `setValAfterDecrypt` never changes the static type of `Val` -/
theorem deserialize_ty {J} (c : JsonCodec J) (prior : Val J) (pt : Bytes) :
    (deserialize c prior pt).1.ty = prior.ty := by
  cases prior with
  | str s => rfl
  | bytes b => rfl
  | num k v => simp only [deserialize]; cases decodeNum k pt <;> rfl
  | int v => simp only [deserialize]; cases decodeNum .i64 pt <;> rfl
  | uint v => simp only [deserialize]; cases decodeNum .u64 pt <;> rfl
  | other x => rfl

/-- plaintext-level round trip: the inverse switch undoes the forward switch, whatever the
    receiver held before (of the same static type) -/
theorem deserialize_serialize {J} (c : JsonCodec J) (prior v : Val J) (b : Bytes)
    (hty : prior.ty = v.ty) (hs : serialize c v = .ok b) (hj : Val.RepresentableFor c prior v) :
    deserialize c prior b = (v, .ok ()) := by
  cases v with
  | str s =>
    cases prior <;> simp [Val.ty] at hty
    simp [serialize] at hs; subst hs; rfl
  | bytes s =>
    cases prior <;> simp [Val.ty] at hty
    simp [serialize] at hs; subst hs; rfl
  | num k v =>
    cases prior <;> simp [Val.ty] at hty
    subst hty
    simp [serialize] at hs; subst hs
    simp [deserialize, decodeNum_encodeNum]
  | int v =>
    cases prior <;> simp [Val.ty] at hty
    simp [serialize] at hs; subst hs
    have h := decodeNum_encodeNum .i64 (intToI64 v)
    simp only [deserialize]
    rw [h]
    simp [i64ToInt_intToI64]
  | uint v =>
    cases prior <;> simp [Val.ty] at hty
    simp [serialize] at hs; subst hs
    have h := decodeNum_encodeNum .u64 (uintToU64 v)
    simp only [deserialize]
    rw [h]
    simp [u64ToUint_uintToU64]
  | other x =>
    cases prior <;> simp [Val.ty] at hty
    rename_i p
    simp only [serialize] at hs
    cases hm : c.marshal x with
    | none => simp [hm] at hs
    | some b' =>
      simp [hm] at hs; subst hs
      have := hj b' hm
      simp [deserialize, this]

/-- `Scan` on bytes, unfolded -/
theorem scan_bytes {J} (a : AEAD) (c : JsonCodec J) (e : Col J) (data : Bytes) :
    scan a c e (.bytes data) =
      match aesDecrypt a e.key data with
      | .ok pt => ({ e with val := (deserialize c e.val pt).1, valid := (deserialize c e.val pt).2.isOk },
                   (deserialize c e.val pt).2)
      | .err er => (e, .err er)
      | .panic m => (e, .panic m) := by
  simp only [scan]
  cases aesDecrypt a e.key data <;> rfl

/-- a `string` src is converted to `[]byte` and takes the same path -/
theorem scan_str {J} (a : AEAD) (c : JsonCodec J) (e : Col J) (data : Bytes) :
    scan a c e (.str data) = scan a c e (.bytes data) := rfl

end Ekit.Sqlx
