/-
Helper lemmas for C14 (LimitPool): int32 arithmetic without wrap, counting program counters,
the bookkeeping invariant and its preservation by every step.
-/
import Ekit.Model.LimitPool

namespace Ekit.LimitPool
open Ekit.Conc

/-! ### int32 arithmetic -/

theorem toInt_range (x : BitVec 32) : -2147483648 ≤ x.toInt ∧ x.toInt < 2147483648 := by
  have h1 := @BitVec.toInt_lt 32 x
  have h2 := @BitVec.le_toInt 32 x
  simp at h1 h2
  omega

/-- `tokens.Add(d)` computes the mathematical sum as long as it fits an int32 -/
theorem toInt_add32 (x : BitVec 32) (d : Int)
    (h : -2147483648 ≤ x.toInt + d ∧ x.toInt + d < 2147483648) : (add32 x d).toInt = x.toInt + d := by
  unfold add32
  rw [BitVec.toInt_add, BitVec.toInt_ofInt, Int.add_bmod_bmod]
  rw [Int.bmod_def]
  simp only [Nat.reducePow]
  omega

theorem toInt_init (m : Int) (h0 : 0 ≤ m) (h1 : m < 2147483648) : (add32 0 m).toInt = m := by
  have := toInt_add32 0 m (by simp; omega)
  simpa using this

/-! ### counting program counters -/

theorem count_set_pc (l : List PC) (t : Nat) (old : PC) (h : l[t]? = some old) (new c : PC) :
    (l.set t new).count c + (if old = c then 1 else 0) = l.count c + (if new = c then 1 else 0) := by
  induction l generalizing t with
  | nil => simp at h
  | cons x xs ih =>
    cases t with
    | zero =>
      simp at h
      subst h
      simp only [List.set_cons_zero, List.count_cons, beq_iff_eq]
      omega
    | succ t =>
      simp at h
      have := ih t h
      simp only [List.set_cons_succ, List.count_cons]
      omega

theorem count_lt_length (l : List PC) (t : Nat) (old c : PC) (h : l[t]? = some old) (hne : old ≠ c) :
    l.count c < l.length := by
  induction l generalizing t with
  | nil => simp at h
  | cons x xs ih =>
    cases t with
    | zero =>
      simp at h
      subst h
      have := @List.count_le_length _ _ c xs
      simp only [List.count_cons, List.length_cons, beq_iff_eq, hne, if_false]
      omega
    | succ t =>
      simp at h
      have := ih t h
      simp only [List.count_cons, List.length_cons]
      split <;> omega

theorem count_pos_of_get (l : List PC) (t : Nat) (c : PC) (h : l[t]? = some c) : 0 < l.count c := by
  have hm : c ∈ l := List.mem_of_getElem? h
  exact List.count_pos_iff.mpr hm

theorem count_eq_zero_of_quiescent (l : List PC) (h : ∀ pc ∈ l, pc = PC.idle) (c : PC) (hc : c ≠ .idle) :
    l.count c = 0 := by
  apply List.count_eq_zero.mpr
  intro hm
  exact hc (h c hm)

/-! ### the invariant -/

/-- range assumptions under which an `int32` counter is faithful -/
structure Cfg.Ok (cfg : Cfg) : Prop where
  max_nonneg : 0 ≤ cfg.maxTokens
  max_lt : cfg.maxTokens < 2147483648
  threads_le : cfg.maxThreads ≤ 2147483648

/-- the bookkeeping invariant: `tokens = max − outstanding − failing` (as integers — no wrap has
    happened), never more than `max` outstanding, and the thread bound -/
structure Inv (cfg : Cfg) (s : State) : Prop where
  tok : s.tokens.toInt = cfg.maxTokens - outstanding s - failing s
  bound : (outstanding s : Int) ≤ cfg.maxTokens
  threads : s.pcs.length ≤ cfg.maxThreads

theorem inv_init (cfg : Cfg) (ok : cfg.Ok) : Inv cfg (init cfg) := by
  refine ⟨?_, ?_, ?_⟩
  · have := toInt_init _ ok.max_nonneg ok.max_lt
    simpa [init, outstanding, failing] using this
  · simp [init, outstanding]; exact ok.max_nonneg
  · simp [init]

theorem inv_step (cfg : Cfg) (ok : cfg.Ok) (s : State) (l : Label) (s' : State)
    (inv : Inv cfg s) (h : step cfg s l = some s') : Inv cfg s' := by
  obtain ⟨tok, bound, thr⟩ := inv
  have hr := toInt_range s.tokens
  simp only [outstanding, failing] at tok bound
  cases l with
  | spawn =>
    simp only [step] at h
    split at h
    · simp at h; subst h
      refine ⟨?_, ?_, ?_⟩
      · simpa [outstanding, failing, List.count_append] using tok
      · simpa [outstanding, List.count_append] using bound
      · simp; omega
    · simp at h
  | poolDrop =>
    simp only [step] at h
    split at h
    · simp at h; subst h; exact ⟨tok, bound, thr⟩
    · simp at h
  | act t a =>
    simp only [step, pcOf] at h
    split at h
    · -- getDec
      rename_i hpc
      simp at h; subst h
      have hlt := count_lt_length s.pcs t .idle .getFail hpc (by decide)
      have c1 := count_set_pc s.pcs t .idle hpc
      have hv : (add32 s.tokens (-1)).toInt = s.tokens.toInt + -1 := by
        apply toInt_add32
        have := ok.threads_le
        omega
      by_cases hneg : (add32 s.tokens (-1)).toInt < 0
      · have hs : (add32 s.tokens (-1)).slt 0#32 = true := by
          rw [BitVec.slt_eq_decide]; simpa using hneg
        have a := c1 .getFail .getFail
        have b := c1 .getFail .getOk
        have c := c1 .getFail .putInc
        simp only [reduceCtorEq, ↓reduceIte, Nat.add_zero] at a b c
        refine ⟨?_, ?_, ?_⟩ <;> simp only [hs, if_true, setPc, outstanding, failing, List.length_set]
        · rw [hv]; omega
        · omega
        · exact thr
      · have hs : (add32 s.tokens (-1)).slt 0#32 = false := by
          rw [BitVec.slt_eq_decide]; simpa using hneg
        have a := c1 .getOk .getFail
        have b := c1 .getOk .getOk
        have c := c1 .getOk .putInc
        simp only [reduceCtorEq, ↓reduceIte, Nat.add_zero] at a b c
        refine ⟨?_, ?_, ?_⟩ <;> simp only [hs, setPc, outstanding, failing, List.length_set]
        · rw [hv]; simp; omega
        · rw [hv] at hneg; simp; omega
        · exact thr
    · -- getUndo
      rename_i hpc
      simp at h; subst h
      have c1 := count_set_pc s.pcs t .getFail hpc .idle
      have hpos := count_pos_of_get s.pcs t .getFail hpc
      have a := c1 .getFail
      have b := c1 .getOk
      have c := c1 .putInc
      simp only [reduceCtorEq, ↓reduceIte, Nat.add_zero] at a b c
      have hv : (add32 s.tokens 1).toInt = s.tokens.toInt + 1 := by
        apply toInt_add32
        have := ok.max_lt
        omega
      refine ⟨?_, ?_, ?_⟩ <;> simp only [setPc, outstanding, failing, List.length_set]
      · rw [hv]; omega
      · omega
      · exact thr
    · -- getPool
      rename_i reuse hpc
      have c1 := count_set_pc s.pcs t .getOk hpc .idle
      have hpos := count_pos_of_get s.pcs t .getOk hpc
      have a := c1 .getFail
      have b := c1 .getOk
      have c := c1 .putInc
      simp only [reduceCtorEq, ↓reduceIte, Nat.add_zero] at a b c
      split at h
      · split at h
        · simp at h; subst h
          refine ⟨?_, ?_, ?_⟩ <;> simp only [setPc, outstanding, failing, List.length_set]
          · omega
          · omega
          · exact thr
        · simp at h
      · simp at h; subst h
        refine ⟨?_, ?_, ?_⟩ <;> simp only [setPc, outstanding, failing, List.length_set]
        · omega
        · omega
        · exact thr
    · -- putPool
      rename_i hpc
      have c1 := count_set_pc s.pcs t .idle hpc .putInc
      have a := c1 .getFail
      have b := c1 .getOk
      have c := c1 .putInc
      simp only [reduceCtorEq, ↓reduceIte, Nat.add_zero] at a b c
      split at h
      · rename_i hb
        simp at h; subst h
        refine ⟨?_, ?_, ?_⟩ <;> simp only [setPc, outstanding, failing, List.length_set]
        · omega
        · omega
        · exact thr
      · simp at h
    · -- putInc
      rename_i hpc
      simp at h; subst h
      have c1 := count_set_pc s.pcs t .putInc hpc .idle
      have hpos := count_pos_of_get s.pcs t .putInc hpc
      have a := c1 .getFail
      have b := c1 .getOk
      have c := c1 .putInc
      simp only [reduceCtorEq, ↓reduceIte, Nat.add_zero] at a b c
      have hv : (add32 s.tokens 1).toInt = s.tokens.toInt + 1 := by
        apply toInt_add32
        have := ok.max_lt
        omega
      refine ⟨?_, ?_, ?_⟩ <;> simp only [setPc, outstanding, failing, List.length_set]
      · rw [hv]; omega
      · omega
      · exact thr
    · simp at h

/-- the invariant holds in every reachable state -/
theorem inv_reachable (cfg : Cfg) (ok : cfg.Ok) :
    ∀ s, (sys cfg).Reachable s → Inv cfg s :=
  System.invariant_induction (sys cfg) (Inv cfg) (inv_init cfg ok)
    (fun s l s' i h => inv_step cfg ok s l s' i h)

/-! ### quiescent states and uninterrupted calls -/

theorem add32_cancel (x : BitVec 32) : add32 (add32 x (-1)) 1 = x := by
  unfold add32
  have : BitVec.ofInt 32 (-1) + BitVec.ofInt 32 1 = 0#32 := by decide
  rw [BitVec.add_assoc, this, BitVec.add_zero]

theorem quiescent_counts (s : State) (q : Quiescent s) :
    outstanding s = s.borrowed ∧ failing s = 0 := by
  have a := count_eq_zero_of_quiescent s.pcs q .getOk (by decide)
  have b := count_eq_zero_of_quiescent s.pcs q .putInc (by decide)
  have c := count_eq_zero_of_quiescent s.pcs q .getFail (by decide)
  simp [outstanding, failing, a, b, c]

/-- at a quiescent state the counter is exactly `max − borrowed` -/
theorem quiescent_tokens (cfg : Cfg) (s : State) (inv : Inv cfg s) (q : Quiescent s) :
    s.tokens.toInt = cfg.maxTokens - s.borrowed := by
  have ⟨a, b⟩ := quiescent_counts s q
  have := inv.tok
  rw [a, b] at this
  simpa using this

theorem quiescent_get (s : State) (q : Quiescent s) (t : Nat) (ht : t < s.pcs.length) :
    s.pcs[t]? = some .idle := by
  rw [List.getElem?_eq_getElem ht]
  exact congrArg some (q _ (List.getElem_mem ht))

theorem set_set_idle (l : List PC) (t : Nat) (x : PC) (h : l[t]? = some .idle) :
    (l.set t x).set t .idle = l := by
  rw [List.set_set]
  apply List.ext_getElem?
  intro i
  by_cases hi : t = i
  · subst hi
    have ht : t < l.length := by
      cases hlt : l[t]? with
      | none => simp [hlt] at h
      | some v => exact (List.getElem?_eq_some_iff.mp hlt).1
    have hv := (List.getElem?_eq_some_iff.mp h).2
    simp [ht, hv]
  · simp [List.getElem?_set_ne hi]

/-- an uninterrupted `Get` at a quiescent state succeeds iff fewer than `max` objects are
    borrowed (no spurious failure without contention), and leaves a quiescent state -/
theorem getCall_quiescent (cfg : Cfg) (ok : cfg.Ok) (s : State) (inv : Inv cfg s) (q : Quiescent s)
    (t : Nat) (ht : t < s.pcs.length) :
    getCall cfg s t false =
      if (s.borrowed : Int) < cfg.maxTokens then
        some ({ s with tokens := add32 s.tokens (-1), borrowed := s.borrowed + 1, created := s.created + 1 }, true)
      else some (s, false) := by
  have hpc := quiescent_get s q t ht
  have htok := quiescent_tokens cfg s inv q
  have hr := toInt_range s.tokens
  have hv : (add32 s.tokens (-1)).toInt = s.tokens.toInt + -1 := by
    apply toInt_add32
    have := ok.max_nonneg
    have := ok.max_lt
    have := inv.bound
    have hb := (quiescent_counts s q).1
    -- tokens = max - borrowed ≥ 0 at quiescence
    omega
  unfold getCall
  simp only [step, pcOf, hpc]
  by_cases hlt : (s.borrowed : Int) < cfg.maxTokens
  · have hs : (add32 s.tokens (-1)).slt 0 = false := by
      rw [BitVec.slt_eq_decide]; simp; omega
    simp only [hs, setPc, hlt, if_true]
    simp [ht, set_set_idle _ _ _ hpc]
  · have hs : (add32 s.tokens (-1)).slt 0 = true := by
      rw [BitVec.slt_eq_decide]; simp; omega
    simp only [hs, setPc, hlt, if_false]
    simp [ht, set_set_idle _ _ _ hpc, add32_cancel]

/-- a complete `Get` is two steps of the system -/
theorem getCall_steps (cfg : Cfg) (s s' : State) (t : Nat) (reuse b : Bool)
    (h : getCall cfg s t reuse = some (s', b)) :
    ∃ s1 l1 l2, step cfg s l1 = some s1 ∧ step cfg s1 l2 = some s' := by
  unfold getCall at h
  cases h1 : step cfg s (.act t .getDec) with
  | none => simp [h1] at h
  | some s1 =>
    simp only [h1] at h
    split at h
    · cases h2 : step cfg s1 (.act t (.getPool reuse)) with
      | none => simp [h2] at h
      | some s2 =>
        simp [h2] at h
        exact ⟨s1, _, _, h1, h.1 ▸ h2⟩
    · cases h2 : step cfg s1 (.act t .getUndo) with
      | none => simp [h2] at h
      | some s2 =>
        simp [h2] at h
        exact ⟨s1, _, _, h1, h.1 ▸ h2⟩
    · simp at h

theorem getCall_inv (cfg : Cfg) (ok : cfg.Ok) (s s' : State) (t : Nat) (reuse b : Bool)
    (inv : Inv cfg s) (h : getCall cfg s t reuse = some (s', b)) : Inv cfg s' := by
  obtain ⟨s1, l1, l2, h1, h2⟩ := getCall_steps cfg s s' t reuse b h
  exact inv_step cfg ok _ _ _ (inv_step cfg ok _ _ _ inv h1) h2

/-- `n` consecutive uninterrupted Gets at a quiescent state with `b` objects borrowed:
    the first `max − b` succeed, all later ones fail -/
theorem getMany_quiescent (cfg : Cfg) (ok : cfg.Ok) (t n : Nat) :
    ∀ (s : State), Inv cfg s → Quiescent s → t < s.pcs.length →
    ∃ s', getMany cfg s t n = some (s',
      List.replicate (min n (cfg.maxTokens.toNat - s.borrowed)) true ++
      List.replicate (n - (cfg.maxTokens.toNat - s.borrowed)) false) := by
  induction n with
  | zero => intro s _ _ _; exact ⟨s, by simp [getMany]⟩
  | succ n ih =>
    intro s inv q ht
    have hc := getCall_quiescent cfg ok s inv q t ht
    have hm := ok.max_nonneg
    by_cases hlt : (s.borrowed : Int) < cfg.maxTokens
    · simp only [hlt, if_true] at hc
      obtain ⟨s1, hs1⟩ : ∃ s1 : State, s1 = { s with tokens := add32 s.tokens (-1), borrowed := s.borrowed + 1, created := s.created + 1 } := ⟨_, rfl⟩
      rw [← hs1] at hc
      have inv1 : Inv cfg s1 := getCall_inv cfg ok s s1 t false true inv hc
      have q1 : Quiescent s1 := by subst hs1; intro pc hp; exact q pc hp
      have ht1 : t < s1.pcs.length := by subst hs1; exact ht
      have hb1 : s1.borrowed = s.borrowed + 1 := by subst hs1; rfl
      obtain ⟨s', h'⟩ := ih s1 inv1 q1 ht1
      refine ⟨s', ?_⟩
      simp only [getMany, hc, h', Option.map]
      have e1 : min (n + 1) (cfg.maxTokens.toNat - s.borrowed) = min n (cfg.maxTokens.toNat - (s.borrowed + 1)) + 1 := by omega
      have e2 : n + 1 - (cfg.maxTokens.toNat - s.borrowed) = n - (cfg.maxTokens.toNat - (s.borrowed + 1)) := by omega
      rw [e1, e2, List.replicate_succ, hb1]
      simp
    · simp only [hlt, if_false] at hc
      obtain ⟨s', h'⟩ := ih s inv q ht
      refine ⟨s', ?_⟩
      simp only [getMany, hc, h', Option.map]
      have e0 : cfg.maxTokens.toNat - s.borrowed = 0 := by omega
      simp only [e0, Nat.min_zero, Nat.sub_zero, List.replicate_zero, List.nil_append, List.replicate_succ]

end Ekit.LimitPool
