/-
Invariants of the DelayQueue transition system, part 4 (C09): the broadcast generations of the two
`cond` objects.  A `broadcast` installs a fresh channel (generation `cur+1`), releases the lock and
only then closes the old channel, so closes can be pending and can happen out of order; the
invariant `covered` says that every superseded generation is closed or is about to be closed by a
thread that is inside `broadcast`.
-/
import Ekit.Lemmas.DelayQ

namespace Ekit.DelayQ
open Ekit.Conc

/-- the generation a (future) waiter obtained from `signalCh` -/
def Pc.holds : Pc → Option (CondId × Nat)
  | .eWait _ g => some (.deqSig, g)
  | .dWaitE g | .dArm _ g | .dWaitT g => some (.enqSig, g)
  | .sUnlock g k => some (k.cond, g)
  | _ => none

/-- the old generation a thread inside `broadcast` still has to close -/
def Pc.closing : Pc → Option (CondId × Nat)
  | .bUnlock c old _ | .bClose c old _ => some (c, old)
  | _ => none

structure GenInv (s : State) : Prop where
  held_le : ∀ t c g, (s.pc t).holds = some (c, g) → g ≤ s.cur c
  closing_lt : ∀ t c g, (s.pc t).closing = some (c, g) → g < s.cur c ∧ g ∉ s.closed c
  closing_distinct : ∀ t u c g, t ≠ u → (s.pc t).closing = some (c, g) → (s.pc u).closing ≠ some (c, g)
  closed_lt : ∀ c g, g ∈ s.closed c → g < s.cur c
  covered : ∀ c g, g < s.cur c → g ∈ s.closed c ∨ ∃ u, (s.pc u).closing = some (c, g)
  /-- fetch_before_unlock: the generation read by `signalCh` is still the current one while the lock is held -/
  fetched_cur : ∀ t g k, s.pc t = .sUnlock g k → g = s.cur k.cond

theorem genInv_init : GenInv init := by
  constructor <;> simp [init, Pc.holds, Pc.closing]

set_option maxHeartbeats 1000000 in
theorem genInv_step_a (P : Params) (s : State) (l : Label) (s' : State)
    (hl : LockInv s) (hi : GenInv s) (h : step P s l = some s') :
    (∀ t c g, (s'.pc t).holds = some (c, g) → g ≤ s'.cur c) ∧
    (∀ t g k, s'.pc t = .sUnlock g k → g = s'.cur k.cond) := by
  obtain ⟨p1, p2, p3, p4, p5, p6⟩ := hi
  obtain ⟨l1, l2⟩ := hl
  step_cases h <;> refine ⟨?_, ?_⟩ <;> dsimp only <;>
    first
    | assumption
    | grind [upd, updC, Pc.holds, Pc.locked, Cont.cond]
    | skip

set_option maxHeartbeats 1000000 in
theorem genInv_step_b (P : Params) (s : State) (l : Label) (s' : State)
    (hl : LockInv s) (hi : GenInv s) (h : step P s l = some s') :
    (∀ t c g, (s'.pc t).closing = some (c, g) → g < s'.cur c ∧ g ∉ s'.closed c) ∧
    (∀ t u c g, t ≠ u → (s'.pc t).closing = some (c, g) → (s'.pc u).closing ≠ some (c, g)) ∧
    (∀ c g, g ∈ s'.closed c → g < s'.cur c) := by
  obtain ⟨p1, p2, p3, p4, p5, p6⟩ := hi
  obtain ⟨l1, l2⟩ := hl
  step_cases h <;> refine ⟨?_, ?_, ?_⟩ <;> dsimp only <;>
    first
    | assumption
    | grind [upd, updC, Pc.closing, Pc.locked]
    | skip

theorem covered_upd (pc : Nat → Pc) (cur : CondId → Nat) (closed : CondId → List Nat) (t : Nat) (p' : Pc)
    (hc : (pc t).closing = none ∨ p'.closing = (pc t).closing)
    (h : ∀ c g, g < cur c → g ∈ closed c ∨ ∃ u, (pc u).closing = some (c, g)) :
    ∀ c g, g < cur c → g ∈ closed c ∨ ∃ u, (upd pc t p' u).closing = some (c, g) := by
  intro c g hg
  rcases h c g hg with h1 | ⟨u, hu⟩
  · exact Or.inl h1
  · right
    by_cases hut : u = t
    · subst hut
      rcases hc with hc | hc
      · rw [hc] at hu; cases hu
      · exact ⟨u, by simp [hc, hu]⟩
    · exact ⟨u, by simp [upd, hut, hu]⟩

theorem covered_swap (pc : Nat → Pc) (cur : CondId → Nat) (closed : CondId → List Nat) (t : Nat)
    (c : CondId) (r : Ret) (hpc : pc t = .bSwap c r)
    (h : ∀ c g, g < cur c → g ∈ closed c ∨ ∃ u, (pc u).closing = some (c, g)) :
    ∀ c' g, g < updC cur c (cur c + 1) c' → g ∈ closed c' ∨
      ∃ u, (upd pc t (.bUnlock c (cur c) r) u).closing = some (c', g) := by
  intro c' g hg
  by_cases hcg : c' = c ∧ g = cur c
  · obtain ⟨rfl, rfl⟩ := hcg
    exact Or.inr ⟨t, by simp [Pc.closing]⟩
  · have hg' : g < cur c' := by
      by_cases hc : c' = c
      · subst hc; simp at hg; have : g ≠ cur c' := fun e => hcg ⟨rfl, e⟩; omega
      · simpa [updC, hc] using hg
    rcases h c' g hg' with h1 | ⟨u, hu⟩
    · exact Or.inl h1
    · right
      by_cases hut : u = t
      · subst hut; rw [hpc] at hu; cases hu
      · exact ⟨u, by simp [upd, hut, hu]⟩

theorem covered_close (pc : Nat → Pc) (cur : CondId → Nat) (closed : CondId → List Nat) (t : Nat)
    (c : CondId) (old : Nat) (r : Ret) (hpc : pc t = .bClose c old r)
    (h : ∀ c g, g < cur c → g ∈ closed c ∨ ∃ u, (pc u).closing = some (c, g)) :
    ∀ c' g, g < cur c' → g ∈ updC closed c (old :: closed c) c' ∨
      ∃ u, (upd pc t (.ret r) u).closing = some (c', g) := by
  intro c' g hg
  rcases h c' g hg with h1 | ⟨u, hu⟩
  · left
    by_cases hc : c' = c
    · subst hc; simp [h1]
    · simpa [updC, hc] using h1
  · by_cases hut : u = t
    · subst hut; rw [hpc] at hu
      simp only [Pc.closing, Option.some.injEq, Prod.mk.injEq] at hu
      obtain ⟨rfl, rfl⟩ := hu
      left; simp
    · exact Or.inr ⟨u, by simp [upd, hut, hu]⟩

theorem genInv_step_c (P : Params) (s : State) (l : Label) (s' : State)
    (hi : GenInv s) (h : step P s l = some s') :
    ∀ c g, g < s'.cur c → g ∈ s'.closed c ∨ ∃ u, (s'.pc u).closing = some (c, g) := by
  have p5 := hi.covered
  step_cases h <;> dsimp only <;>
    first
    | assumption
    | exact covered_upd _ _ _ _ _ (by simp [*, Pc.closing]) p5
    | exact covered_swap _ _ _ _ _ _ ‹_› p5
    | exact covered_close _ _ _ _ _ _ _ ‹_› p5

theorem genInv_step (P : Params) (s : State) (l : Label) (s' : State)
    (hl : LockInv s) (hi : GenInv s) (h : step P s l = some s') : GenInv s' := by
  obtain ⟨a1, a2⟩ := genInv_step_a P s l s' hl hi h
  obtain ⟨b1, b2, b3⟩ := genInv_step_b P s l s' hl hi h
  exact ⟨a1, b1, b2, b3, genInv_step_c P s l s' hi h, a2⟩

end Ekit.DelayQ
