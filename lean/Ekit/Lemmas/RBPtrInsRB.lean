/-
Insertion keeps the red-black colouring at the pointer level: `addNode` of the translated
`internal/tree/red_black_tree.go`, run by the MiniGo interpreter under the real call handler, takes a heap that holds a
red-black coloured address tree to a heap that holds a red-black coloured address tree.
-/
import Ekit.Lemmas.RBPtrTop
import Ekit.MiniGo.RBColor
namespace Ekit.MiniGo.RBHeap.InsExec
open Ekit.MiniGo Ekit.Gen.RBTreeGo Ekit.MiniGo.RBHeap

/-- colour read through a possibly-nil pointer (nil is black = true) -/
def colOf (st : St) : Option Nat → Bool
  | none => true
  | some n => (st.h n).color

/-- `setColor` through a possibly-nil pointer -/
def setCol (st : St) : Option Nat → Bool → St
  | none, _ => st
  | some n, c => { st with h := upd st.h n { st.h n with color := c } }

/-! ### `setCol` writes no pointer field -/

theorem setCol_parent (st : St) (a : Option Nat) (c : Bool) (y : Nat) :
    ((setCol st a c).h y).parent = (st.h y).parent := by
  cases a with
  | none => rfl
  | some n =>
    simp only [setCol, upd]
    split
    · next e => subst e; rfl
    · rfl

theorem setCol_left (st : St) (a : Option Nat) (c : Bool) (y : Nat) :
    ((setCol st a c).h y).left = (st.h y).left := by
  cases a with
  | none => rfl
  | some n =>
    simp only [setCol, upd]
    split
    · next e => subst e; rfl
    · rfl

theorem setCol_right (st : St) (a : Option Nat) (c : Bool) (y : Nat) :
    ((setCol st a c).h y).right = (st.h y).right := by
  cases a with
  | none => rfl
  | some n =>
    simp only [setCol, upd]
    split
    · next e => subst e; rfl
    · rfl

theorem setCol_root (st : St) (a : Option Nat) (c : Bool) : (setCol st a c).root = st.root := by
  cases a <;> rfl

theorem setCol_alloc (st : St) (a : Option Nat) (c : Bool) : (setCol st a c).alloc = st.alloc := by
  cases a <;> rfl

theorem setCol_size (st : St) (a : Option Nat) (c : Bool) : (setCol st a c).size = st.size := by
  cases a <;> rfl

theorem fldOf_setCol (st : St) (a : Option Nat) (c : Bool) (b : Option Nat) (g : Fld) :
    Fix.fldOf (setCol st a c) b g = Fix.fldOf st b g := by
  cases b with
  | none => rfl
  | some n =>
    cases g <;> simp [Fix.fldOf, Rot.getP, setCol_parent, setCol_left, setCol_right]

section
variable (cmpF : Int → Int → Int)

theorem call_getColor {f : Nat} {a : Option Nat} {st st' : St} {v : Val}
    (h : call cmpF procs f .getColor [.ptr a] st = .ok (v, st')) : st' = st ∧ v = .bool (colOf st a) := by
  cases f with
  | zero => simp [call] at h
  | succ f =>
    cases a with
    | none =>
      simp [call, runBody, procs, body_getColor, exec, evalE, Env.ofArgs, valEq] at h
      simp [colOf, h]
    | some n =>
      simp [call, runBody, procs, body_getColor, exec, evalE, Env.ofArgs, valEq, Node.get] at h
      obtain ⟨rfl, rfl⟩ := h
      simp [colOf]

theorem call_setColor {f : Nat} {a : Option Nat} {c : Bool} {st st' : St} {v : Val}
    (h : call cmpF procs f .setColor [.ptr a, .bool c] st = .ok (v, st')) : st' = setCol st a c := by
  cases f with
  | zero => simp [call] at h
  | succ f =>
    cases a with
    | none =>
      simp [call, runBody, procs, body_setColor, exec, evalE, Env.ofArgs, valEq] at h
      simp [setCol, h]
    | some n =>
      simp [call, runBody, procs, body_setColor, exec, evalE, Env.ofArgs, valEq, Node.set] at h
      obtain ⟨_, rfl⟩ := h
      simp [setCol]

/-- a body of the shape `if node == nil { return R }; return e`, run on a non-nil receiver -/
theorem run_guard_ret {callH : CallH PName} {lf n : Nat} {R e : Expr PName} {st st' : St} {v : Val}
    (h : runBody cmpF callH lf ⟨1, .seq (.ite (.eq (.var 0) .nil) (.ret R) .skip) (.ret e)⟩
      [.ptr (some n)] st = .ok (v, st')) :
    evalE cmpF callH (Env.ofArgs [.ptr (some n)]) st e = .ok (v, st') := by
  simp only [runBody, exec] at h
  have hg : evalE cmpF callH (Env.ofArgs [.ptr (some n)]) st (.eq (.var 0) .nil) = .ok (.bool false, st) := by
    simp [evalE, Env.ofArgs, valEq]
  rw [hg] at h
  simp only at h
  cases he : evalE cmpF callH (Env.ofArgs [.ptr (some n)]) st e with
  | error x => simp [he] at h
  | ok r =>
    obtain ⟨v1, st1⟩ := r
    simp [he] at h
    obtain ⟨rfl, rfl⟩ := h
    rfl

theorem call_getGrandParent {f : Nat} {a : Option Nat} {st st' : St} {v : Val}
    (h : call cmpF procs f .getGrandParent [.ptr a] st = .ok (v, st')) :
    st' = st ∧ v = .ptr (Fix.fldOf st (Fix.fldOf st a .parent) .parent) := by
  cases f with
  | zero => simp [call] at h
  | succ f =>
    cases a with
    | none =>
      simp [call, runBody, procs, body_getGrandParent, exec, evalE, Env.ofArgs, valEq] at h
      simp [Fix.fldOf, h]
    | some n =>
      have h' := run_guard_ret cmpF (show runBody cmpF (call cmpF procs f) f ⟨1, body_getGrandParent⟩
        [.ptr (some n)] st = .ok (v, st') from h)
      exact Fix.evalsTo_getParent (Fix.evalsTo_getParent
        (Fix.evalsTo_var (k := 0) (a := some n) (by simp [Env.ofArgs]))) _ _ h'

theorem call_getUncle {f : Nat} {x p g : Nat} {st st' : St} {v : Val}
    (hp : (st.h x).parent = some p) (hg : (st.h p).parent = some g)
    (h : call cmpF procs f .getUncle [.ptr (some x)] st = .ok (v, st')) :
    st' = st ∧ v = .ptr (if (st.h g).left = some p then (st.h g).right else (st.h g).left) := by
  cases f with
  | zero => simp [call] at h
  | succ f =>
    have h' := run_guard_ret cmpF (show runBody cmpF (call cmpF procs f) f ⟨1, body_getUncle⟩
      [.ptr (some x)] st = .ok (v, st') from h)
    obtain ⟨y, st1, h1, h2⟩ := Fix.eval_call1 h'
    obtain ⟨e1, e2⟩ := Fix.evalsTo_getParent
      (Fix.evalsTo_var (cmpF := cmpF) (f := f) (st := st) (k := 0) (a := some x) (by simp [Env.ofArgs])) _ _ h1
    subst e1 e2
    simp only [Fix.fldOf, Rot.getP, hp] at h2
    exact Fix.call_getBrother hg h2

/-- a rotation body run on a node whose relevant child exists -/
theorem run_rotBody_some {callH : CallH PName} {lf : Nat} {f g : Fld} (hfg : Rot.Sides f g) (getF : PName)
    {n r : Nat} {st st' : St} {v : Val}
    (hget : ∀ v1 st1, callH getF [.ptr (some n)] st = .ok (v1, st1) → st1 = st ∧ v1 = .ptr (some r))
    (hr : Rot.getP (st.h n) f = some r)
    (h : runBody cmpF callH lf ⟨1, Rot.rotBody f g getF⟩ [.ptr (some n)] st = .ok (v, st')) :
    st' = Rot.rotSt f g st n r := by
  simp only [runBody, Rot.rotBody, exec, evalE] at h
  have hv : Env.ofArgs [.ptr (some n)] 0 = .ptr (some n) := by simp [Env.ofArgs]
  have e1 : valEq (.ptr (some n)) (.ptr none) = some false := by simp [valEq]
  simp only [hv] at h
  cases hc : callH getF [.ptr (some n)] st with
  | error e => simp [hc, e1] at h
  | ok r1 =>
    obtain ⟨v1, st1⟩ := r1
    obtain ⟨es, ev⟩ := hget _ _ hc
    subst es ev
    have hq : valEq (.ptr (some r)) (.ptr none) = some false := by simp [valEq]
    simp [hc, hq, e1] at h
    cases he : exec cmpF callH lf (Env.ofArgs [.ptr (some n)]) st1 (Rot.rotRest f g) with
    | error e => simp [he] at h
    | ok res =>
      obtain ⟨r', ρ', hr', rfl⟩ := Rot.exec_rotRest cmpF callH lf st1 hfg hv he
      simp [he] at h
      rw [hr] at hr'
      cases hr'
      exact h.2.symm

theorem call_rotateLeft_some {f : Nat} {n r : Nat} {st st' : St} {v : Val} (hr : (st.h n).right = some r)
    (h : call cmpF procs f .rotateLeft [.ptr (some n)] st = .ok (v, st')) :
    st' = Rot.rotSt .right .left st n r := by
  cases f with
  | zero => simp [call] at h
  | succ f =>
    refine run_rotBody_some cmpF (.inl ⟨rfl, rfl⟩) .getRight (fun v1 st1 hc => ?_) hr
      (show runBody cmpF (call cmpF procs f) f ⟨1, Rot.rotBody .right .left .getRight⟩
        [.ptr (some n)] st = .ok (v, st') from h)
    have := Fix.call_getRight cmpF hc
    simpa [Fix.fldOf, Rot.getP, hr] using this

theorem call_rotateRight_some {f : Nat} {n l : Nat} {st st' : St} {v : Val} (hl : (st.h n).left = some l)
    (h : call cmpF procs f .rotateRight [.ptr (some n)] st = .ok (v, st')) :
    st' = Rot.rotSt .left .right st n l := by
  cases f with
  | zero => simp [call] at h
  | succ f =>
    refine run_rotBody_some cmpF (.inr ⟨rfl, rfl⟩) .getLeft (fun v1 st1 hc => ?_) hl
      (show runBody cmpF (call cmpF procs f) f ⟨1, Rot.rotBody .left .right .getLeft⟩
        [.ptr (some n)] st = .ok (v, st') from h)
    have := Fix.call_getLeft cmpF hc
    simpa [Fix.fldOf, Rot.getP, hl] using this

end

/-! ### symbolic execution with singleton predicates -/

section hoare
open Fix
variable {cmpF : Int → Int → Int} {f lf : Nat}

/-- inversion of a binary call -/
theorem eval_call2 {callH : CallH PName} {ρ : Env} {st : St} {fn : PName} {a b : Expr PName} {r : Val × St}
    (h : evalE cmpF callH ρ st (.call2 fn a b) = .ok r) :
    ∃ x st1 y st2, evalE cmpF callH ρ st a = .ok (x, st1) ∧ evalE cmpF callH ρ st1 b = .ok (y, st2) ∧
      callH fn [x, y] st2 = .ok r := by
  simp only [evalE] at h
  cases h1 : evalE cmpF callH ρ st a with
  | error e => simp [h1] at h
  | ok r1 =>
    obtain ⟨x, st1⟩ := r1
    rw [h1] at h
    simp only at h
    cases h2 : evalE cmpF callH ρ st1 b with
    | error e => simp [h2] at h
    | ok r2 =>
      obtain ⟨y, st2⟩ := r2
      rw [h2] at h
      exact ⟨x, st1, y, st2, rfl, h2, h⟩

/-- the environment is `ρ0` and the state is `s` -/
def At (ρ0 : Env) (s : St) : Env → St → Prop := fun ρ st => ρ = ρ0 ∧ st = s

theorem evalsTo_getGrandParent {ρ : Env} {st : St} {e : Expr PName} {a : Option Nat}
    (h : EvalsTo cmpF f ρ st e a) :
    EvalsTo cmpF f ρ st (.call1 .getGrandParent e) (fldOf st (fldOf st a .parent) .parent) := by
  intro v st1 he
  obtain ⟨x, st2, h1, h2⟩ := eval_call1 he
  obtain ⟨rfl, rfl⟩ := h _ _ h1
  exact call_getGrandParent cmpF h2

/-- `x.getParent()` where variable 0 is `c` -/
theorem evalsTo_p0 {ρ : Env} {s : St} {c q : Nat} (h0 : ρ 0 = .ptr (some c)) (hp : (s.h c).parent = some q) :
    EvalsTo cmpF f ρ s (.call1 .getParent (.var 0)) (some q) := by
  have := evalsTo_getParent (cmpF := cmpF) (f := f) (evalsTo_var (st := s) h0)
  simpa [fldOf, Rot.getP, hp] using this

/-- `x.getGrandParent()` where variable 0 is `c` -/
theorem evalsTo_gp0 {ρ : Env} {s : St} {c q g : Nat} (h0 : ρ 0 = .ptr (some c)) (hp : (s.h c).parent = some q)
    (hg : (s.h q).parent = some g) :
    EvalsTo cmpF f ρ s (.call1 .getGrandParent (.var 0)) (some g) := by
  have := evalsTo_getGrandParent (cmpF := cmpF) (f := f) (evalsTo_var (st := s) h0)
  simpa [fldOf, Rot.getP, hp, hg] using this

theorem ht_setColor {ρ0 : Env} {s : St} {e : Expr PName} {a : Option Nat} {c : Bool}
    (he : EvalsTo cmpF f ρ0 s e a) :
    HT cmpF (call cmpF procs f) lf (At ρ0 s) (.expr (.call2 .setColor e (.bool c)))
      (Nrm (At ρ0 (setCol s a c))) := by
  refine HT.expr ?_
  intro ρ st v st' hP h
  obtain ⟨hρ, hs⟩ := hP
  subst hρ hs
  obtain ⟨x, st1, y, st2, h1, h2, h3⟩ := eval_call2 h
  obtain ⟨e1, e2⟩ := he _ _ h1
  subst e1 e2
  simp [evalE] at h2
  obtain ⟨e3, e4⟩ := h2
  subst e3 e4
  exact ⟨rfl, call_setColor cmpF h3⟩

theorem ht_rotateLeft {ρ0 : Env} {s : St} {e : Expr PName} {n r : Nat}
    (he : EvalsTo cmpF f ρ0 s e (some n)) (hr : (s.h n).right = some r) :
    HT cmpF (call cmpF procs f) lf (At ρ0 s) (.expr (.call1 .rotateLeft e))
      (Nrm (At ρ0 (Rot.rotSt .right .left s n r))) := by
  refine HT.expr ?_
  intro ρ st v st' hP h
  obtain ⟨hρ, hs⟩ := hP
  subst hρ hs
  obtain ⟨x, st1, h1, h2⟩ := eval_call1 h
  obtain ⟨e1, e2⟩ := he _ _ h1
  subst e1 e2
  exact ⟨rfl, call_rotateLeft_some cmpF hr h2⟩

theorem ht_rotateRight {ρ0 : Env} {s : St} {e : Expr PName} {n l : Nat}
    (he : EvalsTo cmpF f ρ0 s e (some n)) (hl : (s.h n).left = some l) :
    HT cmpF (call cmpF procs f) lf (At ρ0 s) (.expr (.call1 .rotateRight e))
      (Nrm (At ρ0 (Rot.rotSt .left .right s n l))) := by
  refine HT.expr ?_
  intro ρ st v st' hP h
  obtain ⟨hρ, hs⟩ := hP
  subst hρ hs
  obtain ⟨x, st1, h1, h2⟩ := eval_call1 h
  obtain ⟨e1, e2⟩ := he _ _ h1
  subst e1 e2
  exact ⟨rfl, call_rotateRight_some cmpF hl h2⟩

/-- `return x` when variable 0 is known -/
theorem ht_ret0 {ρ0 : Env} {s : St} {w : Val} (h0 : ρ0 0 = w) :
    HT cmpF (call cmpF procs f) lf (At ρ0 s) (.ret (.var 0)) (fun fl _ s' => fl = .ret w ∧ s' = s) := by
  refine HT.retVar.mono (fun _ _ h => h) ?_
  intro fl ρ s' h
  obtain ⟨hfl, hρ, hs⟩ := h
  rw [hρ, h0] at hfl
  exact ⟨hfl, hs⟩

/-- the guard `x == e` where variable 0 is `c` -/
theorem guard_eval {ρ0 : Env} {s s' : St} {c : Nat} {e : Expr PName} {b : Option Nat} {v : Val}
    (h0 : ρ0 0 = .ptr (some c)) (he : EvalsTo cmpF f ρ0 s e b)
    (h : evalE cmpF (call cmpF procs f) ρ0 s (.eq (.var 0) e) = .ok (v, s')) :
    s' = s ∧ v = .bool (some c == b) := by
  obtain ⟨x, s1, y, r, h1, h2, hv, hvr⟩ := eval_eq h
  simp [evalE] at h1
  obtain ⟨hx, hs1⟩ := h1
  subst hx hs1
  obtain ⟨e1, e2⟩ := he _ _ h2
  rw [e2, h0] at hv
  simp [valEq] at hv
  exact ⟨e1, by rw [hvr, hv]⟩

/-- from a body specification to the call -/
theorem call_of_HT {fn : PName} {args : List Val} {st st' s' : St} {v w : Val}
    (hb : HT cmpF (call cmpF procs f) f (At (Env.ofArgs args) st) (procs fn).body
      (fun fl _ s => fl = .ret w ∧ s = s'))
    (h : call cmpF procs (f + 1) fn args st = .ok (v, st')) : v = w ∧ st' = s' := by
  have h' : runBody cmpF (call cmpF procs f) f (procs fn) args st = .ok (v, st') := h
  simp only [runBody] at h'
  cases he : exec cmpF (call cmpF procs f) f (Env.ofArgs args) st (procs fn).body with
  | error e => simp [he] at h'
  | ok r =>
    obtain ⟨fl, ρ', st1⟩ := r
    obtain ⟨e1, e2⟩ := hb _ _ _ _ _ ⟨rfl, rfl⟩ he
    rw [he, e1] at h'
    simp at h'
    exact ⟨h'.1.symm, by rw [← h'.2, e2]⟩

theorem body_fixUncleRed_spec {ρ0 : Env} {x p g : Nat} {u : Option Nat} {st : St}
    (h0 : ρ0 0 = .ptr (some x)) (h1 : ρ0 1 = .ptr u)
    (hp : (st.h x).parent = some p) (hg : (st.h p).parent = some g) :
    HT cmpF (call cmpF procs f) lf (At ρ0 st) body_fixUncleRed
      (fun fl _ s => fl = .ret (.ptr (some g)) ∧
        s = setCol (setCol (setCol st (some p) true) u true) (some g) false) := by
  unfold body_fixUncleRed
  refine HT.seq (ht_setColor (a := some p) (evalsTo_p0 h0 hp)) ?_
  refine HT.seq (ht_setColor (a := u) (evalsTo_var h1)) ?_
  have hp2 : ((setCol (setCol st (some p) true) u true).h x).parent = some p := by
    simpa [setCol_parent] using hp
  have hg2 : ((setCol (setCol st (some p) true) u true).h p).parent = some g := by
    simpa [setCol_parent] using hg
  refine HT.seq (ht_setColor (a := some g) (evalsTo_gp0 (q := p) h0 hp2 hg2)) ?_
  have hp3 : ((setCol (setCol (setCol st (some p) true) u true) (some g) false).h x).parent = some p := by
    simpa [setCol_parent] using hp
  have hg3 : ((setCol (setCol (setCol st (some p) true) u true) (some g) false).h p).parent = some g := by
    simpa [setCol_parent] using hg
  refine HT.seq (HT.assign (Q := At (ρ0.set 0 (.ptr (some g)))
    (setCol (setCol (setCol st (some p) true) u true) (some g) false)) ?_) (ht_ret0 (by simp [Env.set]))
  intro ρ s v s' hP he
  obtain ⟨hρ, hs⟩ := hP
  subst hρ hs
  obtain ⟨e1, e2⟩ := evalsTo_gp0 (cmpF := cmpF) (f := f) (q := p) h0 hp3 hg3 _ _ he
  rw [e1, e2]
  exact ⟨rfl, rfl⟩

/-- the common tail of `fixAddLeftBlack` -/
def tailL : Stmt PName :=
  (.seq (.expr (.call2 .setColor (.call1 .getParent (.var 0)) (.bool true)))
    (.seq (.expr (.call2 .setColor (.call1 .getGrandParent (.var 0)) (.bool false)))
    (.seq (.expr (.call1 .rotateRight (.call1 .getGrandParent (.var 0))))
    (.ret (.var 0)))))

theorem tailL_spec {ρ1 : Env} {s : St} {c q g : Nat} (h0 : ρ1 0 = .ptr (some c))
    (hp : (s.h c).parent = some q) (hg : (s.h q).parent = some g) (hl : (s.h g).left = some q) :
    HT cmpF (call cmpF procs f) lf (At ρ1 s) tailL
      (fun fl _ s' => fl = .ret (.ptr (some c)) ∧
        s' = Rot.rotSt .left .right (setCol (setCol s (some q) true) (some g) false) g q) := by
  unfold tailL
  refine HT.seq (ht_setColor (a := some q) (evalsTo_p0 h0 hp)) ?_
  have hp2 : ((setCol s (some q) true).h c).parent = some q := by simpa [setCol_parent] using hp
  have hg2 : ((setCol s (some q) true).h q).parent = some g := by simpa [setCol_parent] using hg
  refine HT.seq (ht_setColor (a := some g) (evalsTo_gp0 (q := q) h0 hp2 hg2)) ?_
  have hp3 : ((setCol (setCol s (some q) true) (some g) false).h c).parent = some q := by
    simpa [setCol_parent] using hp
  have hg3 : ((setCol (setCol s (some q) true) (some g) false).h q).parent = some g := by
    simpa [setCol_parent] using hg
  have hl3 : ((setCol (setCol s (some q) true) (some g) false).h g).left = some q := by
    simpa [setCol_left] using hl
  exact HT.seq (ht_rotateRight (n := g) (evalsTo_gp0 (q := q) h0 hp3 hg3) hl3) (ht_ret0 h0)

theorem body_fixAddLeftBlack_outer {ρ0 : Env} {x p g : Nat} {st : St} (h0 : ρ0 0 = .ptr (some x))
    (hp : (st.h x).parent = some p) (hg : (st.h p).parent = some g)
    (hn : (st.h p).right ≠ some x) (hgc : (st.h g).left = some p) :
    HT cmpF (call cmpF procs f) lf (At ρ0 st) body_fixAddLeftBlack
      (fun fl _ s' => fl = .ret (.ptr (some x)) ∧
        s' = Rot.rotSt .left .right (setCol (setCol st (some p) true) (some g) false) g p) := by
  unfold body_fixAddLeftBlack
  refine HT.seq (M := At ρ0 st) (HT.ite' (Pt := fun _ _ => False) (Pe := At ρ0 st) ?_
    (fun _ _ _ _ _ hF _ => hF.elim) HT.skip) (tailL_spec h0 hp hg hgc)
  intro ρ s v s' hP he
  obtain ⟨hρ, hs⟩ := hP
  subst hρ hs
  obtain ⟨e1, e2⟩ := guard_eval h0 (evalsTo_getRight (evalsTo_p0 (cmpF := cmpF) (f := f) h0 hp)) he
  have hb : (some x == fldOf s (some p) .right) = false := by
    simp only [fldOf, Rot.getP]
    simpa using fun e : some x = (s.h p).right => hn e.symm
  rw [hb] at e2
  subst e1 e2
  exact ⟨fun e => (by cases e), fun _ => ⟨rfl, rfl⟩⟩

theorem body_fixAddLeftBlack_inner {ρ0 : Env} {x p g : Nat} {st : St} (h0 : ρ0 0 = .ptr (some x))
    (hp : (st.h x).parent = some p) (hc : (st.h p).right = some x)
    (h1p : ((Rot.rotSt .right .left st p x).h p).parent = some x)
    (h1x : ((Rot.rotSt .right .left st p x).h x).parent = some g)
    (h1g : ((Rot.rotSt .right .left st p x).h g).left = some x) :
    HT cmpF (call cmpF procs f) lf (At ρ0 st) body_fixAddLeftBlack
      (fun fl _ s' => fl = .ret (.ptr (some p)) ∧
        s' = Rot.rotSt .left .right
          (setCol (setCol (Rot.rotSt .right .left st p x) (some x) true) (some g) false) g x) := by
  unfold body_fixAddLeftBlack
  have h0' : (ρ0.set 0 (.ptr (some p))) 0 = .ptr (some p) := by simp [Env.set]
  refine HT.seq (M := At (ρ0.set 0 (.ptr (some p))) (Rot.rotSt .right .left st p x))
    (HT.ite' (Pt := At ρ0 st) (Pe := fun _ _ => False) ?_ ?_ (fun _ _ _ _ _ hF _ => hF.elim))
    (tailL_spec h0' h1p h1x h1g)
  · intro ρ s v s' hP he
    obtain ⟨hρ, hs⟩ := hP
    subst hρ hs
    obtain ⟨e1, e2⟩ := guard_eval h0 (evalsTo_getRight (evalsTo_p0 (cmpF := cmpF) (f := f) h0 hp)) he
    have hb : (some x == fldOf s (some p) .right) = true := by
      simp only [fldOf, Rot.getP]
      simpa using hc.symm
    rw [hb] at e2
    subst e1 e2
    exact ⟨fun _ => ⟨rfl, rfl⟩, fun e => by cases e⟩
  · refine HT.seq (HT.assign (Q := At (ρ0.set 0 (.ptr (some p))) st) ?_)
      (ht_rotateLeft (n := p) (evalsTo_var h0') hc)
    intro ρ s v s' hP he
    obtain ⟨hρ, hs⟩ := hP
    subst hρ hs
    obtain ⟨e1, e2⟩ := evalsTo_p0 (cmpF := cmpF) (f := f) h0 hp _ _ he
    rw [e1, e2]
    exact ⟨rfl, rfl⟩

/-- the common tail of `fixAddRightBlack` -/
def tailR : Stmt PName :=
  (.seq (.expr (.call2 .setColor (.call1 .getParent (.var 0)) (.bool true)))
    (.seq (.expr (.call2 .setColor (.call1 .getGrandParent (.var 0)) (.bool false)))
    (.seq (.expr (.call1 .rotateLeft (.call1 .getGrandParent (.var 0))))
    (.ret (.var 0)))))

theorem tailR_spec {ρ1 : Env} {s : St} {c q g : Nat} (h0 : ρ1 0 = .ptr (some c))
    (hp : (s.h c).parent = some q) (hg : (s.h q).parent = some g) (hl : (s.h g).right = some q) :
    HT cmpF (call cmpF procs f) lf (At ρ1 s) tailR
      (fun fl _ s' => fl = .ret (.ptr (some c)) ∧
        s' = Rot.rotSt .right .left (setCol (setCol s (some q) true) (some g) false) g q) := by
  unfold tailR
  refine HT.seq (ht_setColor (a := some q) (evalsTo_p0 h0 hp)) ?_
  have hp2 : ((setCol s (some q) true).h c).parent = some q := by simpa [setCol_parent] using hp
  have hg2 : ((setCol s (some q) true).h q).parent = some g := by simpa [setCol_parent] using hg
  refine HT.seq (ht_setColor (a := some g) (evalsTo_gp0 (q := q) h0 hp2 hg2)) ?_
  have hp3 : ((setCol (setCol s (some q) true) (some g) false).h c).parent = some q := by
    simpa [setCol_parent] using hp
  have hg3 : ((setCol (setCol s (some q) true) (some g) false).h q).parent = some g := by
    simpa [setCol_parent] using hg
  have hl3 : ((setCol (setCol s (some q) true) (some g) false).h g).right = some q := by
    simpa [setCol_right] using hl
  exact HT.seq (ht_rotateLeft (n := g) (evalsTo_gp0 (q := q) h0 hp3 hg3) hl3) (ht_ret0 h0)

theorem body_fixAddRightBlack_outer {ρ0 : Env} {x p g : Nat} {st : St} (h0 : ρ0 0 = .ptr (some x))
    (hp : (st.h x).parent = some p) (hg : (st.h p).parent = some g)
    (hn : (st.h p).left ≠ some x) (hgc : (st.h g).right = some p) :
    HT cmpF (call cmpF procs f) lf (At ρ0 st) body_fixAddRightBlack
      (fun fl _ s' => fl = .ret (.ptr (some x)) ∧
        s' = Rot.rotSt .right .left (setCol (setCol st (some p) true) (some g) false) g p) := by
  unfold body_fixAddRightBlack
  refine HT.seq (M := At ρ0 st) (HT.ite' (Pt := fun _ _ => False) (Pe := At ρ0 st) ?_
    (fun _ _ _ _ _ hF _ => hF.elim) HT.skip) (tailR_spec h0 hp hg hgc)
  intro ρ s v s' hP he
  obtain ⟨hρ, hs⟩ := hP
  subst hρ hs
  obtain ⟨e1, e2⟩ := guard_eval h0 (evalsTo_getLeft (evalsTo_p0 (cmpF := cmpF) (f := f) h0 hp)) he
  have hb : (some x == fldOf s (some p) .left) = false := by
    simp only [fldOf, Rot.getP]
    simpa using fun e : some x = (s.h p).left => hn e.symm
  rw [hb] at e2
  subst e1 e2
  exact ⟨fun e => (by cases e), fun _ => ⟨rfl, rfl⟩⟩

theorem body_fixAddRightBlack_inner {ρ0 : Env} {x p g : Nat} {st : St} (h0 : ρ0 0 = .ptr (some x))
    (hp : (st.h x).parent = some p) (hc : (st.h p).left = some x)
    (h1p : ((Rot.rotSt .left .right st p x).h p).parent = some x)
    (h1x : ((Rot.rotSt .left .right st p x).h x).parent = some g)
    (h1g : ((Rot.rotSt .left .right st p x).h g).right = some x) :
    HT cmpF (call cmpF procs f) lf (At ρ0 st) body_fixAddRightBlack
      (fun fl _ s' => fl = .ret (.ptr (some p)) ∧
        s' = Rot.rotSt .right .left
          (setCol (setCol (Rot.rotSt .left .right st p x) (some x) true) (some g) false) g x) := by
  unfold body_fixAddRightBlack
  have h0' : (ρ0.set 0 (.ptr (some p))) 0 = .ptr (some p) := by simp [Env.set]
  refine HT.seq (M := At (ρ0.set 0 (.ptr (some p))) (Rot.rotSt .left .right st p x))
    (HT.ite' (Pt := At ρ0 st) (Pe := fun _ _ => False) ?_ ?_ (fun _ _ _ _ _ hF _ => hF.elim))
    (tailR_spec h0' h1p h1x h1g)
  · intro ρ s v s' hP he
    obtain ⟨hρ, hs⟩ := hP
    subst hρ hs
    obtain ⟨e1, e2⟩ := guard_eval h0 (evalsTo_getLeft (evalsTo_p0 (cmpF := cmpF) (f := f) h0 hp)) he
    have hb : (some x == fldOf s (some p) .left) = true := by
      simp only [fldOf, Rot.getP]
      simpa using hc.symm
    rw [hb] at e2
    subst e1 e2
    exact ⟨fun _ => ⟨rfl, rfl⟩, fun e => by cases e⟩
  · refine HT.seq (HT.assign (Q := At (ρ0.set 0 (.ptr (some p))) st) ?_)
      (ht_rotateRight (n := p) (evalsTo_var h0') hc)
    intro ρ s v s' hP he
    obtain ⟨hρ, hs⟩ := hP
    subst hρ hs
    obtain ⟨e1, e2⟩ := evalsTo_p0 (cmpF := cmpF) (f := f) h0 hp _ _ he
    rw [e1, e2]
    exact ⟨rfl, rfl⟩

end hoare

section
variable (cmpF : Int → Int → Int)

/-- `fixUncleRed(x, u)` -/
theorem call_fixUncleRed {f : Nat} {x p g : Nat} {u : Option Nat} {st st' : St} {v : Val}
    (hp : (st.h x).parent = some p) (hg : (st.h p).parent = some g)
    (h : call cmpF procs f .fixUncleRed [.ptr (some x), .ptr u] st = .ok (v, st')) :
    v = .ptr (some g) ∧ st' = setCol (setCol (setCol st (some p) true) u true) (some g) false := by
  cases f with
  | zero => simp [call] at h
  | succ f =>
    exact call_of_HT (fn := .fixUncleRed)
      (body_fixUncleRed_spec (by simp [Env.ofArgs]) (by simp [Env.ofArgs]) hp hg) h

/-- `fixAddLeftBlack(x)`, `x` is the LEFT child of its parent (no first rotation) -/
theorem call_fixAddLeftBlack_outer {f : Nat} {x p g : Nat} {st st' : St} {v : Val}
    (hp : (st.h x).parent = some p) (hg : (st.h p).parent = some g)
    (hnr : (st.h p).right ≠ some x) (hgl : (st.h g).left = some p)
    (h : call cmpF procs f .fixAddLeftBlack [.ptr (some x)] st = .ok (v, st')) :
    v = .ptr (some x) ∧
    st' = Rot.rotSt .left .right (setCol (setCol st (some p) true) (some g) false) g p := by
  cases f with
  | zero => simp [call] at h
  | succ f =>
    exact call_of_HT (fn := .fixAddLeftBlack)
      (body_fixAddLeftBlack_outer (by simp [Env.ofArgs]) hp hg hnr hgl) h

/-- `fixAddLeftBlack(x)`, `x` is the RIGHT child of its parent: first `rotateLeft(p)`; what is needed about the
    intermediate heap `st1` is assumed -/
theorem call_fixAddLeftBlack_inner {f : Nat} {x p g : Nat} {st st' : St} {v : Val}
    (hp : (st.h x).parent = some p) (hr : (st.h p).right = some x)
    (h1p : ((Rot.rotSt .right .left st p x).h p).parent = some x)
    (h1x : ((Rot.rotSt .right .left st p x).h x).parent = some g)
    (h1g : ((Rot.rotSt .right .left st p x).h g).left = some x)
    (h : call cmpF procs f .fixAddLeftBlack [.ptr (some x)] st = .ok (v, st')) :
    v = .ptr (some p) ∧
    st' = Rot.rotSt .left .right
      (setCol (setCol (Rot.rotSt .right .left st p x) (some x) true) (some g) false) g x := by
  cases f with
  | zero => simp [call] at h
  | succ f =>
    exact call_of_HT (fn := .fixAddLeftBlack)
      (body_fixAddLeftBlack_inner (by simp [Env.ofArgs]) hp hr h1p h1x h1g) h

/-- mirror images -/
theorem call_fixAddRightBlack_outer {f : Nat} {x p g : Nat} {st st' : St} {v : Val}
    (hp : (st.h x).parent = some p) (hg : (st.h p).parent = some g)
    (hnl : (st.h p).left ≠ some x) (hgr : (st.h g).right = some p)
    (h : call cmpF procs f .fixAddRightBlack [.ptr (some x)] st = .ok (v, st')) :
    v = .ptr (some x) ∧
    st' = Rot.rotSt .right .left (setCol (setCol st (some p) true) (some g) false) g p := by
  cases f with
  | zero => simp [call] at h
  | succ f =>
    exact call_of_HT (fn := .fixAddRightBlack)
      (body_fixAddRightBlack_outer (by simp [Env.ofArgs]) hp hg hnl hgr) h

theorem call_fixAddRightBlack_inner {f : Nat} {x p g : Nat} {st st' : St} {v : Val}
    (hp : (st.h x).parent = some p) (hl : (st.h p).left = some x)
    (h1p : ((Rot.rotSt .left .right st p x).h p).parent = some x)
    (h1x : ((Rot.rotSt .left .right st p x).h x).parent = some g)
    (h1g : ((Rot.rotSt .left .right st p x).h g).right = some x)
    (h : call cmpF procs f .fixAddRightBlack [.ptr (some x)] st = .ok (v, st')) :
    v = .ptr (some p) ∧
    st' = Rot.rotSt .right .left
      (setCol (setCol (Rot.rotSt .left .right st p x) (some x) true) (some g) false) g x := by
  cases f with
  | zero => simp [call] at h
  | succ f =>
    exact call_of_HT (fn := .fixAddRightBlack)
      (body_fixAddRightBlack_inner (by simp [Env.ofArgs]) hp hl h1p h1x h1g) h

end
end Ekit.MiniGo.RBHeap.InsExec

namespace Ekit.MiniGo.RBHeap.InsRB
open Ekit.MiniGo Ekit.Gen.RBTreeGo Ekit.MiniGo.RBHeap
open Ekit.MiniGo.RBHeap.InsExec

set_option linter.unusedSimpArgs false
set_option linter.unusedVariables false

/-! ### (0) address-tree algebra -/

theorem nodup_node {l r : PT} {b : Nat} (h : (PT.node l b r).addrs.Nodup) :
    l.addrs.Nodup ∧ r.addrs.Nodup ∧ b ∉ l.addrs ∧ b ∉ r.addrs ∧ ∀ x, x ∈ l.addrs → x ∉ r.addrs := by
  simp only [PT.addrs] at h
  rw [List.nodup_append] at h
  obtain ⟨h1, h2, h3⟩ := h
  rw [List.nodup_cons] at h2
  exact ⟨h1, h2.2, fun hb => h3 b hb b (by simp) rfl, h2.1, fun x hx hx' => h3 x hx x (by simp [hx']) rfl⟩

/-- where the subtree at `g` sits -/
theorem sub_node_cases {l r : PT} {b g : Nat} {s : PT} (hnd : (PT.node l b r).addrs.Nodup)
    (hs : (PT.node l b r).sub g = some s) :
    (g = b ∧ s = .node l b r) ∨
    (g ≠ b ∧ l.sub g = some s ∧ g ∉ r.addrs ∧ (∀ x ∈ s.addrs, x ∈ l.addrs)) ∨
    (g ≠ b ∧ r.sub g = some s ∧ g ∉ l.addrs ∧ l.sub g = none ∧ (∀ x ∈ s.addrs, x ∈ r.addrs)) := by
  obtain ⟨ndl, ndr, hbl, hbr, hd⟩ := nodup_node hnd
  by_cases hgb : g = b
  · left; subst hgb; simp [PT.sub] at hs; exact ⟨rfl, hs.symm⟩
  · simp only [PT.sub, hgb, if_false] at hs
    cases hl : l.sub g with
    | some s0 =>
      simp [hl] at hs; subst hs
      right; left
      exact ⟨hgb, rfl, fun hg => hd g (mem_of_sub hl) hg, (sub_spec hl).2⟩
    | none =>
      simp [hl] at hs
      right; right
      refine ⟨hgb, hs, fun hg => ?_, rfl, (sub_spec hs).2⟩
      obtain ⟨s1, e⟩ := sub_some_of_mem hg; rw [hl] at e; cases e

theorem sub_root_not_mem {l r : PT} {b g : Nat} {s : PT} (hnd : (PT.node l b r).addrs.Nodup) (hgb : g ≠ b)
    (hs : (PT.node l b r).sub g = some s) : b ∉ s.addrs := by
  obtain ⟨ndl, ndr, hbl, hbr, hd⟩ := nodup_node hnd
  rcases sub_node_cases hnd hs with ⟨e, _⟩ | ⟨_, _, _, h1⟩ | ⟨_, _, _, _, h1⟩
  · exact absurd e hgb
  · exact fun hb => hbl (h1 b hb)
  · exact fun hb => hbr (h1 b hb)

theorem replace_self {t : PT} {g : Nat} {s : PT} (hnd : t.addrs.Nodup) (hs : t.sub g = some s) :
    t.replace g s = t := by
  induction t with
  | leaf => simp [PT.sub] at hs
  | node l b r ihl ihr =>
    obtain ⟨ndl, ndr, hbl, hbr, hd⟩ := nodup_node hnd
    rcases sub_node_cases hnd hs with ⟨rfl, rfl⟩ | ⟨hgb, hl, hgr, _⟩ | ⟨hgb, hr, hgl, _, _⟩
    · simp [PT.replace]
    · simp [PT.replace, hgb, ihl ndl hl, replace_of_not_mem hgr]
    · simp [PT.replace, hgb, ihr ndr hr, replace_of_not_mem hgl]

theorem ptr_replace {t : PT} {g : Nat} {s s' : PT} (hs : t.sub g = some s) :
    (t.replace g s').ptr = if t.ptr = some g then s'.ptr else t.ptr := by
  cases t with
  | leaf => simp [PT.sub] at hs
  | node l b r =>
    by_cases hgb : g = b
    · subst hgb; simp [PT.replace, PT.ptr]
    · have : b ≠ g := fun e => hgb e.symm
      simp [PT.replace, PT.ptr, hgb, this]

/-! ### (1) colour predicates with a hole -/

/-- the top of `t` is black, or it is the node `x` -/
def blackOr (h : Nat → Node) (x : Nat) (t : PT) : Prop := ∀ c, t.ptr = some c → (h c).color = true ∨ c = x

/-- no red node has a red child, except that the node `x` may be the red child of a red node -/
def NRRB (h : Nat → Node) (x : Nat) : PT → Prop
  | .leaf => True
  | .node l a r => ((h a).color = false → blackOr h x l ∧ blackOr h x r) ∧ NRRB h x l ∧ NRRB h x r

theorem blackAt_iff {h : Nat → Node} {t : PT} : blackAt h t ↔ ∀ c, t.ptr = some c → (h c).color = true := by
  cases t with
  | leaf => simp [blackAt, PT.ptr]
  | node l a r => simp [blackAt, PT.ptr]

theorem blackOr_of_blackAt {h : Nat → Node} {x : Nat} {t : PT} (hb : blackAt h t) : blackOr h x t :=
  fun c hc => .inl (blackAt_iff.1 hb c hc)

theorem blackAt_of_blackOr {h : Nat → Node} {x : Nat} {t : PT} (hb : blackOr h x t) (hx : x ∉ t.addrs) :
    blackAt h t :=
  blackAt_iff.2 (fun c hc => (hb c hc).resolve_right (fun e => hx (e ▸ ptr_mem_addrs hc)))

theorem nrrb_of_nrr {h : Nat → Node} {x : Nat} {t : PT} (hN : NoRedRed h t) : NRRB h x t := by
  induction t with
  | leaf => trivial
  | node l a r ihl ihr =>
    simp only [NoRedRed] at hN
    simp only [NRRB]
    exact ⟨fun hr => ⟨blackOr_of_blackAt (hN.1 hr).1, blackOr_of_blackAt (hN.1 hr).2⟩, ihl hN.2.1, ihr hN.2.2⟩

theorem nrr_of_nrrb {h : Nat → Node} {x : Nat} {t : PT} (hx : x ∉ t.addrs) (hN : NRRB h x t) : NoRedRed h t := by
  induction t with
  | leaf => trivial
  | node l a r ihl ihr =>
    simp only [NRRB] at hN
    simp only [NoRedRed]
    have hxl : x ∉ l.addrs := fun e => hx (by simp [PT.addrs, e])
    have hxr : x ∉ r.addrs := fun e => hx (by simp [PT.addrs, e])
    exact ⟨fun hr => ⟨blackAt_of_blackOr (hN.1 hr).1 hxl, blackAt_of_blackOr (hN.1 hr).2 hxr⟩,
      ihl hxl hN.2.1, ihr hxr hN.2.2⟩

/-- colours agree on the tree, and the hole moves consistently -/
theorem nrrb_congr {h h' : Nat → Node} {x y : Nat} {t : PT} (hc : ∀ a ∈ t.addrs, (h' a).color = (h a).color)
    (hxy : ∀ a ∈ t.addrs, a = x → a = y) (hN : NRRB h x t) : NRRB h' y t := by
  induction t with
  | leaf => trivial
  | node l a r ihl ihr =>
    simp only [NRRB] at hN ⊢
    have hl : ∀ b ∈ l.addrs, b ∈ (PT.node l a r).addrs := fun b hb => by simp [PT.addrs, hb]
    have hr : ∀ b ∈ r.addrs, b ∈ (PT.node l a r).addrs := fun b hb => by simp [PT.addrs, hb]
    refine ⟨fun hred => ?_, ihl (fun b hb => hc b (hl b hb)) (fun b hb => hxy b (hl b hb)) hN.2.1,
      ihr (fun b hb => hc b (hr b hb)) (fun b hb => hxy b (hr b hb)) hN.2.2⟩
    rw [hc a (by simp [PT.addrs])] at hred
    obtain ⟨b1, b2⟩ := hN.1 hred
    constructor
    · intro c hcp
      have hm := hl c (ptr_mem_addrs hcp)
      rcases b1 c hcp with e | e
      · left; rw [hc c hm]; exact e
      · right; exact hxy c hm e
    · intro c hcp
      have hm := hr c (ptr_mem_addrs hcp)
      rcases b2 c hcp with e | e
      · left; rw [hc c hm]; exact e
      · right; exact hxy c hm e

theorem bh_congr {h h' : Nat → Node} {t : PT} : ∀ {n}, (∀ a ∈ t.addrs, (h' a).color = (h a).color) →
    BH h t n → BH h' t n := by
  induction t with
  | leaf => intro n _ hB; exact hB
  | node l a r ihl ihr =>
    intro n hc hB
    simp only [BH] at hB ⊢
    obtain ⟨m, h1, h2, h3⟩ := hB
    refine ⟨m, ihl (fun b hb => hc b (by simp [PT.addrs, hb])) h1,
      ihr (fun b hb => hc b (by simp [PT.addrs, hb])) h2, ?_⟩
    rw [hc a (by simp [PT.addrs])]; exact h3

theorem bh_unique {h : Nat → Node} {t : PT} : ∀ {n m}, BH h t n → BH h t m → n = m := by
  induction t with
  | leaf => intro n m h1 h2; simp only [BH] at h1 h2; omega
  | node l a r ihl ihr =>
    intro n m h1 h2
    simp only [BH] at h1 h2
    obtain ⟨k1, a1, _, e1⟩ := h1
    obtain ⟨k2, a2, _, e2⟩ := h2
    have := ihl a1 a2
    omega

theorem bh_sub {h : Nat → Node} {g : Nat} {s : PT} {t : PT} : ∀ {n}, t.addrs.Nodup → t.sub g = some s →
    BH h t n → ∃ m, BH h s m := by
  induction t with
  | leaf => intro n _ hs; simp [PT.sub] at hs
  | node l b r ihl ihr =>
    intro n hnd hs hB
    obtain ⟨ndl, ndr, _⟩ := nodup_node hnd
    rcases sub_node_cases hnd hs with ⟨rfl, rfl⟩ | ⟨hgb, hl, _⟩ | ⟨hgb, hr, _⟩
    · exact ⟨n, hB⟩
    · simp only [BH] at hB; obtain ⟨m, h1, _⟩ := hB; exact ihl ndl hl h1
    · simp only [BH] at hB; obtain ⟨m, _, h2, _⟩ := hB; exact ihr ndr hr h2

theorem nrrb_sub {h : Nat → Node} {x g : Nat} {s : PT} {t : PT} (hnd : t.addrs.Nodup) (hs : t.sub g = some s)
    (hN : NRRB h x t) : NRRB h x s := by
  induction t with
  | leaf => simp [PT.sub] at hs
  | node l b r ihl ihr =>
    obtain ⟨ndl, ndr, _⟩ := nodup_node hnd
    rcases sub_node_cases hnd hs with ⟨rfl, rfl⟩ | ⟨hgb, hl, _⟩ | ⟨hgb, hr, _⟩
    · exact hN
    · simp only [NRRB] at hN; exact ihl ndl hl hN.2.1
    · simp only [NRRB] at hN; exact ihr ndr hr hN.2.2

/-- context lemma for the black height -/
theorem bh_replace {h h' : Nat → Node} {g : Nat} {s s' : PT} {m : Nat} {t : PT} : ∀ {n}, t.addrs.Nodup →
    t.sub g = some s → (∀ a ∈ t.addrs, a ∉ s.addrs → (h' a).color = (h a).color) →
    BH h s m → BH h' s' m → BH h t n → BH h' (t.replace g s') n := by
  induction t with
  | leaf => intro n _ hs; simp [PT.sub] at hs
  | node l b r ihl ihr =>
    intro n hnd hs hc hm hm' hB
    obtain ⟨ndl, ndr, hbl, hbr, hd⟩ := nodup_node hnd
    rcases sub_node_cases hnd hs with ⟨rfl, rfl⟩ | ⟨hgb, hl, hgr, hsl⟩ | ⟨hgb, hr, hgl, _, hsr⟩
    · have := bh_unique hm hB; subst this
      simpa [PT.replace] using hm'
    · simp only [BH] at hB
      obtain ⟨k, h1, h2, h3⟩ := hB
      simp only [PT.replace, hgb, if_false, BH, replace_of_not_mem hgr]
      refine ⟨k, ihl ndl hl (fun a ha => hc a (by simp [PT.addrs, ha])) hm hm' h1,
        bh_congr (fun a ha => hc a (by simp [PT.addrs, ha]) (fun has => hd a (hsl a has) ha)) h2, ?_⟩
      rw [hc b (by simp [PT.addrs]) (fun hb => hbl (hsl b hb))]; exact h3
    · simp only [BH] at hB
      obtain ⟨k, h1, h2, h3⟩ := hB
      simp only [PT.replace, hgb, if_false, BH, replace_of_not_mem hgl]
      refine ⟨k, bh_congr (fun a ha => hc a (by simp [PT.addrs, ha]) (fun has => hd a ha (hsr a has))) h1,
        ihr ndr hr (fun a ha => hc a (by simp [PT.addrs, ha])) hm hm' h2, ?_⟩
      rw [hc b (by simp [PT.addrs]) (fun hb => hbr (hsr b hb))]; exact h3

/-- context lemma for the no-red-red property with a hole: the hole may move from `x` to `y` inside the replaced
    subtree; the edge from the parent of the replaced subtree is the caller's business (`htop`) -/
theorem nrrb_replace {h h' : Nat → Node} {x y g : Nat} {s s' : PT} {t : PT} : ∀ {par : Option Nat},
    t.addrs.Nodup → t.sub g = some s →
    (∀ a ∈ t.addrs, a ∉ s.addrs → a ≠ x) →
    (∀ a ∈ t.addrs, a ∉ s.addrs → (h' a).color = (h a).color) →
    (∀ q, t.parOf par g = some q → (h q).color = false → blackOr h x s → blackOr h' y s') →
    NRRB h' y s' → NRRB h x t → NRRB h' y (t.replace g s') := by
  induction t with
  | leaf => intro par _ hs; simp [PT.sub] at hs
  | node l b r ihl ihr =>
    intro par hnd hs hx hc htop hs' hN
    obtain ⟨ndl, ndr, hbl, hbr, hd⟩ := nodup_node hnd
    simp only [NRRB] at hN
    obtain ⟨hNb, hNl, hNr⟩ := hN
    rcases sub_node_cases hnd hs with ⟨rfl, rfl⟩ | ⟨hgb, hl, hgr, hsl⟩ | ⟨hgb, hr, hgl, hln, hsr⟩
    · simpa [PT.replace] using hs'
    · have hbs : b ∉ s.addrs := fun hb => hbl (hsl b hb)
      have hcb : (h' b).color = (h b).color := hc b (by simp [PT.addrs]) hbs
      have hrs : ∀ a ∈ r.addrs, a ∉ s.addrs := fun a ha has => hd a (hsl a has) ha
      have hpar : (PT.node l b r).parOf par g = l.parOf (some b) g := by simp [PT.parOf, hgb, hl]
      simp only [PT.replace, hgb, if_false, NRRB, replace_of_not_mem hgr]
      refine ⟨fun hred => ?_, ?_, ?_⟩
      · rw [hcb] at hred
        obtain ⟨bl, br⟩ := hNb hred
        constructor
        · cases l with
          | leaf => simp [PT.sub] at hl
          | node ll c lr =>
            by_cases hgc : g = c
            · subst hgc
              simp [PT.sub] at hl; subst hl
              simp only [PT.replace, if_true]
              exact htop b (by rw [hpar]; simp [PT.parOf]) hred bl
            · intro d hd'
              simp only [PT.replace, hgc, if_false, PT.ptr, Option.some.injEq] at hd'
              subst hd'
              have hcs : c ∉ s.addrs := sub_root_not_mem ndl hgc hl
              rcases bl c rfl with h1 | h1
              · left; rw [hc c (by simp [PT.addrs]) hcs]; exact h1
              · exact absurd h1 (hx c (by simp [PT.addrs]) hcs)
        · intro d hd'
          have hdr : d ∈ r.addrs := ptr_mem_addrs hd'
          rcases br d hd' with h1 | h1
          · left; rw [hc d (by simp [PT.addrs, hdr]) (hrs d hdr)]; exact h1
          · exact absurd h1 (hx d (by simp [PT.addrs, hdr]) (hrs d hdr))
      · exact ihl (par := some b) ndl hl (fun a ha => hx a (by simp [PT.addrs, ha]))
          (fun a ha => hc a (by simp [PT.addrs, ha])) (fun q hq => htop q (by rw [hpar]; exact hq)) hs' hNl
      · exact nrrb_congr (fun a ha => hc a (by simp [PT.addrs, ha]) (hrs a ha))
          (fun a ha e => absurd e (hx a (by simp [PT.addrs, ha]) (hrs a ha))) hNr
    · have hbs : b ∉ s.addrs := fun hb => hbr (hsr b hb)
      have hcb : (h' b).color = (h b).color := hc b (by simp [PT.addrs]) hbs
      have hls : ∀ a ∈ l.addrs, a ∉ s.addrs := fun a ha has => hd a ha (hsr a has)
      have hpar : (PT.node l b r).parOf par g = r.parOf (some b) g := by simp [PT.parOf, hgb, hln]
      simp only [PT.replace, hgb, if_false, NRRB, replace_of_not_mem hgl]
      refine ⟨fun hred => ?_, ?_, ?_⟩
      · rw [hcb] at hred
        obtain ⟨bl, br⟩ := hNb hred
        constructor
        · intro d hd'
          have hdl : d ∈ l.addrs := ptr_mem_addrs hd'
          rcases bl d hd' with h1 | h1
          · left; rw [hc d (by simp [PT.addrs, hdl]) (hls d hdl)]; exact h1
          · exact absurd h1 (hx d (by simp [PT.addrs, hdl]) (hls d hdl))
        · cases r with
          | leaf => simp [PT.sub] at hr
          | node rl c rr =>
            by_cases hgc : g = c
            · subst hgc
              simp [PT.sub] at hr; subst hr
              simp only [PT.replace, if_true]
              exact htop b (by rw [hpar]; simp [PT.parOf]) hred br
            · intro d hd'
              simp only [PT.replace, hgc, if_false, PT.ptr, Option.some.injEq] at hd'
              subst hd'
              have hcs : c ∉ s.addrs := sub_root_not_mem ndr hgc hr
              rcases br c rfl with h1 | h1
              · left; rw [hc c (by simp [PT.addrs]) hcs]; exact h1
              · exact absurd h1 (hx c (by simp [PT.addrs]) hcs)
      · exact nrrb_congr (fun a ha => hc a (by simp [PT.addrs, ha]) (hls a ha))
          (fun a ha e => absurd e (hx a (by simp [PT.addrs, ha]) (hls a ha))) hNl
      · exact ihr (par := some b) ndr hr (fun a ha => hx a (by simp [PT.addrs, ha]))
          (fun a ha => hc a (by simp [PT.addrs, ha])) (fun q hq => htop q (by rw [hpar]; exact hq)) hs' hNr

/-- when the parent of `x` (if any) is black, the hole is closed -/
theorem nrrb_close {h : Nat → Node} {x : Nat} {t : PT} : ∀ {q par : Option Nat}, Repr h q par t →
    (∀ p, (h x).parent = some p → (h p).color = true) → NRRB h x t → NoRedRed h t := by
  induction t with
  | leaf => intros; trivial
  | node l a r ihl ihr =>
    intro q par hR hp hN
    simp only [Repr] at hR
    obtain ⟨_, _, hL, hRr⟩ := hR
    simp only [NRRB] at hN
    simp only [NoRedRed]
    refine ⟨fun hred => ?_, ihl hL hp hN.2.1, ihr hRr hp hN.2.2⟩
    obtain ⟨b1, b2⟩ := hN.1 hred
    constructor
    · refine blackAt_iff.2 (fun c hc => (b1 c hc).resolve_right (fun e => ?_))
      subst e
      cases l with
      | leaf => simp [PT.ptr] at hc
      | node _ c' _ =>
        simp only [PT.ptr, Option.some.injEq] at hc; subst hc
        simp only [Repr] at hL
        have := hp a hL.2.1
        rw [hred] at this; cases this
    · refine blackAt_iff.2 (fun c hc => (b2 c hc).resolve_right (fun e => ?_))
      subst e
      cases r with
      | leaf => simp [PT.ptr] at hc
      | node _ c' _ =>
        simp only [PT.ptr, Option.some.injEq] at hc; subst hc
        simp only [Repr] at hRr
        have := hp a hRr.2.1
        rw [hred] at this; cases this

/-! ### (2) the rotations with their explicit trees; rotations write no colour -/

theorem color_upd_setP (h : Nat → Node) (a : Nat) (f : Fld) (p : Option Nat) (x : Nat) :
    ((upd h a (Rot.setP (h a) f p)) x).color = (h x).color := by
  unfold upd
  split
  · next e => subst e; cases f <;> rfl
  · rfl

theorem rotSt_color (f g : Fld) (st : St) (n r : Nat) (x : Nat) :
    ((Rot.rotSt f g st n r).h x).color = (st.h x).color := by
  have kB : ∀ (st : St) x, ((Rot.stB f g st n r).h x).color = (st.h x).color := fun st x => color_upd_setP _ _ _ _ _
  have kC : ∀ (st : St) x, ((Rot.stC g st n r).h x).color = (st.h x).color := by
    intro st x; unfold Rot.stC; split
    · exact color_upd_setP _ _ _ _ _
    · rfl
  have kD : ∀ (st : St) x, ((Rot.stD st n r).h x).color = (st.h x).color := fun st x => color_upd_setP _ _ _ _ _
  have kE : ∀ (st : St) x, ((Rot.stE f g st n r).h x).color = (st.h x).color := by
    intro st x; unfold Rot.stE; split
    · rfl
    · split
      · exact color_upd_setP _ _ _ _ _
      · exact color_upd_setP _ _ _ _ _
  have kF : ∀ (st : St) x, ((Rot.stF g st n r).h x).color = (st.h x).color := fun st x => color_upd_setP _ _ _ _ _
  have kG : ∀ (st : St) x, ((Rot.stG st n r).h x).color = (st.h x).color := fun st x => color_upd_setP _ _ _ _ _
  unfold Rot.rotSt
  rw [kG, kF, kE, kD, kC, kB]

theorem rotL_tree {h h' : Nat → Node} {q : Option Nat} {t : PT} {n r : Nat} {A B C : PT}
    (hR : Repr h q none t) (hnd : t.addrs.Nodup) (hs : t.sub n = some (.node A n (.node B r C)))
    (H : Rot.RotL h h' n r) :
    Repr h' (if (h n).parent = none then some r else q) none (t.replace n (.node (.node A n B) r C)) := by
  have hn : n ∈ t.addrs := mem_of_sub hs
  obtain ⟨A', R', hs0, hnds, hsub, hA, hRr, hpar, hdich⟩ := Rot.rot_setup hR hnd hn
  rw [hs] at hs0
  cases hs0
  simp only [Repr] at hRr
  obtain ⟨e, hrp, hB, hC⟩ := hRr
  have hbB : ∀ x, (h r).left = some x → x ∈ B.addrs := by
    intro x hx; rw [hx] at hB
    cases B with
    | leaf => simp [Repr] at hB
    | node _ y _ => simp only [Repr] at hB; obtain ⟨e, _⟩ := hB; cases e; simp [PT.addrs]
  have hpS : ∀ x, (h n).parent = some x → x ∉ (PT.node A n (.node B r C)).addrs := by
    intro x hx
    rcases hdich with ⟨_, e⟩ | ⟨_, p, e, _, e3, _⟩
    · rw [e] at hx; cases hx
    · rw [e] at hx; cases hx; exact e3
  simp only [PT.addrs] at hnds hpS hsub
  have hfr : ∀ x, x ∈ A.addrs ++ n :: (B.addrs ++ r :: C.addrs) → x ≠ n → x ≠ r → (h r).left ≠ some x →
      h' x = h x := fun x hx h1 h2 h3 => H.other x h1 h2 h3 (fun e => hpS x e hx)
  have hrep := repr_replace (h' := h') (s' := .node (.node A n B) r C) hR hnd hs ?_ ?_
  · have : (q = some n) ↔ ((h n).parent = none) := by
      rcases hdich with ⟨e1, e2⟩ | ⟨e1, p, e2, _⟩
      · simp [e1, e2]
      · simp [e1, e2]
    simpa only [this, PT.ptr] using hrep
  · rw [hpar]
    simp only [PT.ptr, Repr]
    refine ⟨trivial, H.r_parent, ?_, ?_⟩
    · rw [H.r_left]
      refine ⟨rfl, H.n_parent, ?_, ?_⟩
      · rw [H.n_left]
        refine Rot.repr_frame (fun x hx => hfr x (by simp [hx]) ?_ ?_ ?_) hA
        · grind [List.nodup_append, List.nodup_cons]
        · grind [List.nodup_append, List.nodup_cons]
        · intro e; have := hbB x e; grind [List.nodup_append, List.nodup_cons]
      · rw [H.n_right]
        cases B with
        | leaf => simpa [Repr] using hB
        | node Bl b Br =>
          simp only [Repr] at hB ⊢
          obtain ⟨e1, _, hBl, hBr⟩ := hB
          obtain ⟨b1, b2, b3⟩ := H.b b e1
          simp only [PT.addrs] at hnds hfr
          refine ⟨e1, b3, ?_, ?_⟩
          · rw [b1]
            refine Rot.repr_frame (fun x hx => hfr x (by simp [hx]) ?_ ?_ ?_) hBl
            · grind [List.nodup_append, List.nodup_cons]
            · grind [List.nodup_append, List.nodup_cons]
            · rw [e1]; grind [List.nodup_append, List.nodup_cons]
          · rw [b2]
            refine Rot.repr_frame (fun x hx => hfr x (by simp [hx]) ?_ ?_ ?_) hBr
            · grind [List.nodup_append, List.nodup_cons]
            · grind [List.nodup_append, List.nodup_cons]
            · rw [e1]; grind [List.nodup_append, List.nodup_cons]
    · rw [H.r_right]
      refine Rot.repr_frame (fun x hx => hfr x (by simp [hx]) ?_ ?_ ?_) hC
      · grind [List.nodup_append, List.nodup_cons]
      · grind [List.nodup_append, List.nodup_cons]
      · intro e; have := hbB x e; grind [List.nodup_append, List.nodup_cons]
  · intro x hx hxs
    simp only [PT.ptr]
    by_cases hxp : (h n).parent = some x
    · exact H.p x hxp
    · have hxe : h' x = h x := by
        refine H.other x ?_ ?_ ?_ hxp
        · intro e; exact hxs (by simp [PT.addrs, e])
        · intro e; exact hxs (by simp [PT.addrs, e])
        · intro e; exact hxs (by have := hbB x e; simp [PT.addrs, this])
      have h1 : (h x).left ≠ some n := fun e => hxp (Rot.child_parent hR hx (.inl e))
      have h2 : (h x).right ≠ some n := fun e => hxp (Rot.child_parent hR hx (.inr e))
      simp [Redirected, hxe, h1, h2]

theorem rotR_tree {h h' : Nat → Node} {q : Option Nat} {t : PT} {n l : Nat} {A1 B C : PT}
    (hR : Repr h q none t) (hnd : t.addrs.Nodup) (hs : t.sub n = some (.node (.node A1 l B) n C))
    (H : Rot.RotR h h' n l) :
    Repr h' (if (h n).parent = none then some l else q) none (t.replace n (.node A1 l (.node B n C))) := by
  have hn : n ∈ t.addrs := mem_of_sub hs
  obtain ⟨A', C', hs0, hnds, hsub, hA, hC, hpar, hdich⟩ := Rot.rot_setup hR hnd hn
  rw [hs] at hs0
  cases hs0
  simp only [Repr] at hA
  obtain ⟨e, hlp, hA1, hB⟩ := hA
  have hbB : ∀ x, (h l).right = some x → x ∈ B.addrs := by
    intro x hx; rw [hx] at hB
    cases B with
    | leaf => simp [Repr] at hB
    | node _ y _ => simp only [Repr] at hB; obtain ⟨e, _⟩ := hB; cases e; simp [PT.addrs]
  have hpS : ∀ x, (h n).parent = some x → x ∉ (PT.node (.node A1 l B) n C).addrs := by
    intro x hx
    rcases hdich with ⟨_, e⟩ | ⟨_, p, e, _, e3, _⟩
    · rw [e] at hx; cases hx
    · rw [e] at hx; cases hx; exact e3
  simp only [PT.addrs] at hnds hpS hsub
  have hfr : ∀ x, x ∈ (A1.addrs ++ l :: B.addrs) ++ n :: C.addrs → x ≠ n → x ≠ l → (h l).right ≠ some x →
      h' x = h x := fun x hx h1 h2 h3 => H.other x h1 h2 h3 (fun e => hpS x e hx)
  have hrep := repr_replace (h' := h') (s' := .node A1 l (.node B n C)) hR hnd hs ?_ ?_
  · have : (q = some n) ↔ ((h n).parent = none) := by
      rcases hdich with ⟨e1, e2⟩ | ⟨e1, p, e2, _⟩
      · simp [e1, e2]
      · simp [e1, e2]
    simpa only [this, PT.ptr] using hrep
  · rw [hpar]
    simp only [PT.ptr, Repr]
    refine ⟨trivial, H.l_parent, ?_, ?_⟩
    · rw [H.l_left]
      refine Rot.repr_frame (fun x hx => hfr x (by simp [hx]) ?_ ?_ ?_) hA1
      · grind [List.nodup_append, List.nodup_cons]
      · grind [List.nodup_append, List.nodup_cons]
      · intro e; have := hbB x e; grind [List.nodup_append, List.nodup_cons]
    · rw [H.l_right]
      refine ⟨rfl, H.n_parent, ?_, ?_⟩
      · rw [H.n_left]
        cases B with
        | leaf => simpa [Repr] using hB
        | node Bl b Br =>
          simp only [Repr] at hB ⊢
          obtain ⟨e1, _, hBl, hBr⟩ := hB
          obtain ⟨b1, b2, b3⟩ := H.b b e1
          simp only [PT.addrs] at hnds hfr
          refine ⟨e1, b3, ?_, ?_⟩
          · rw [b1]
            refine Rot.repr_frame (fun x hx => hfr x (by simp [hx]) ?_ ?_ ?_) hBl
            · grind [List.nodup_append, List.nodup_cons]
            · grind [List.nodup_append, List.nodup_cons]
            · rw [e1]; grind [List.nodup_append, List.nodup_cons]
          · rw [b2]
            refine Rot.repr_frame (fun x hx => hfr x (by simp [hx]) ?_ ?_ ?_) hBr
            · grind [List.nodup_append, List.nodup_cons]
            · grind [List.nodup_append, List.nodup_cons]
            · rw [e1]; grind [List.nodup_append, List.nodup_cons]
      · rw [H.n_right]
        refine Rot.repr_frame (fun x hx => hfr x (by simp [hx]) ?_ ?_ ?_) hC
        · grind [List.nodup_append, List.nodup_cons]
        · grind [List.nodup_append, List.nodup_cons]
        · intro e; have := hbB x e; grind [List.nodup_append, List.nodup_cons]
  · intro x hx hxs
    simp only [PT.ptr]
    by_cases hxp : (h n).parent = some x
    · exact H.p x hxp
    · have hxe : h' x = h x := by
        refine H.other x ?_ ?_ ?_ hxp
        · intro e; exact hxs (by simp [PT.addrs, e])
        · intro e; exact hxs (by simp [PT.addrs, e])
        · intro e; exact hxs (by have := hbB x e; simp [PT.addrs, this])
      have h1 : (h x).left ≠ some n := fun e => hxp (Rot.child_parent hR hx (.inl e))
      have h2 : (h x).right ≠ some n := fun e => hxp (Rot.child_parent hR hx (.inr e))
      simp [Redirected, hxe, h1, h2]

/-- `rotateLeft(n)` on a held tree, with the tree it leaves -/
theorem rotL_holds {st : St} {t : PT} {n r : Nat} {A B C : PT} (hH : Holds st t)
    (hs : t.sub n = some (.node A n (.node B r C))) :
    Holds (Rot.rotSt .right .left st n r) (t.replace n (.node (.node A n B) r C)) ∧
    Rot.RotL st.h (Rot.rotSt .right .left st n r).h n r ∧
    (t.replace n (.node (.node A n B) r C)).addrs = t.addrs := by
  obtain ⟨hR, hnd, hal⟩ := hH
  have hn : n ∈ t.addrs := mem_of_sub hs
  have hRs := repr_sub hR hs
  simp only [Repr] at hRs
  have hr : (st.h n).right = some r := hRs.2.2.2.1
  obtain ⟨H, eroot, ealloc, _⟩ := Rot.rotL_explicit st hR hnd hn hr
  have hadd : (t.replace n (.node (.node A n B) r C)).addrs = t.addrs :=
    Rot.addrs_replace hnd hs (by simp [PT.addrs])
  refine ⟨⟨?_, ?_, ?_⟩, H, hadd⟩
  · rw [eroot]; exact rotL_tree hR hnd hs H
  · rw [hadd]; exact hnd
  · intro a ha; rw [ealloc]; exact hal a (by rw [← hadd]; exact ha)

/-- `rotateRight(n)` on a held tree, with the tree it leaves -/
theorem rotR_holds {st : St} {t : PT} {n l : Nat} {A B C : PT} (hH : Holds st t)
    (hs : t.sub n = some (.node (.node A l B) n C)) :
    Holds (Rot.rotSt .left .right st n l) (t.replace n (.node A l (.node B n C))) ∧
    Rot.RotR st.h (Rot.rotSt .left .right st n l).h n l ∧
    (t.replace n (.node A l (.node B n C))).addrs = t.addrs := by
  obtain ⟨hR, hnd, hal⟩ := hH
  have hn : n ∈ t.addrs := mem_of_sub hs
  have hRs := repr_sub hR hs
  simp only [Repr] at hRs
  have hl : (st.h n).left = some l := hRs.2.2.1.1
  obtain ⟨H, eroot, ealloc, _⟩ := Rot.rotR_explicit st hR hnd hn hl
  have hadd : (t.replace n (.node A l (.node B n C))).addrs = t.addrs :=
    Rot.addrs_replace hnd hs (by simp [PT.addrs])
  refine ⟨⟨?_, ?_, ?_⟩, H, hadd⟩
  · rw [eroot]; exact rotR_tree hR hnd hs H
  · rw [hadd]; exact hnd
  · intro a ha; rw [ealloc]; exact hal a (by rw [← hadd]; exact ha)

/-! ### (3) the configuration of the fix-up loop, heap level -/

theorem setCol_ptrSame (st : St) (a : Option Nat) (c : Bool) : PtrSame st (setCol st a c) := by
  cases a with
  | none => exact .refl _
  | some n =>
    refine ⟨fun y => ?_, rfl, rfl⟩
    simp only [setCol, upd]
    split
    · next e => subst e; exact ⟨rfl, rfl, rfl⟩
    · exact ⟨rfl, rfl, rfl⟩

theorem setCol_color (st : St) (n : Nat) (c : Bool) (y : Nat) :
    ((setCol st (some n) c).h y).color = if y = n then c else (st.h y).color := by
  simp only [setCol, upd]
  split <;> simp_all

theorem repr_some_node {h : Nat → Node} {a : Nat} {par : Option Nat} {T : PT} (hR : Repr h (some a) par T) :
    ∃ l r, T = .node l a r ∧ (h a).parent = par ∧ Repr h (h a).left (some a) l ∧ Repr h (h a).right (some a) r := by
  cases T with
  | leaf => simp [Repr] at hR
  | node l b r => simp only [Repr] at hR; obtain ⟨e, h1, h2, h3⟩ := hR; cases e; exact ⟨l, r, rfl, h1, h2, h3⟩

/-- a node of a represented tree is its top or has its parent inside -/
theorem mem_parent {h : Nat → Node} {x : Nat} {T : PT} : ∀ {q par : Option Nat}, Repr h q par T → x ∈ T.addrs →
    T.ptr = some x ∨ ∃ p ∈ T.addrs, (h x).parent = some p := by
  induction T with
  | leaf => intro q par _ hx; simp [PT.addrs] at hx
  | node l a r ihl ihr =>
    intro q par hR hx
    simp only [Repr] at hR
    obtain ⟨_, _, hL, hRr⟩ := hR
    simp only [PT.addrs, List.mem_append, List.mem_cons] at hx
    rcases hx with hx | hx | hx
    · right
      rcases ihl hL hx with e | ⟨p, hp, e⟩
      · cases l with
        | leaf => simp [PT.ptr] at e
        | node _ c _ =>
          simp only [PT.ptr, Option.some.injEq] at e; subst e
          simp only [Repr] at hL
          exact ⟨a, by simp [PT.addrs], hL.2.1⟩
      · exact ⟨p, by simp [PT.addrs, hp], e⟩
    · left; simp [PT.ptr, hx]
    · right
      rcases ihr hRr hx with e | ⟨p, hp, e⟩
      · cases r with
        | leaf => simp [PT.ptr] at e
        | node _ c _ =>
          simp only [PT.ptr, Option.some.injEq] at e; subst e
          simp only [Repr] at hRr
          exact ⟨a, by simp [PT.addrs], hRr.2.1⟩
      · exact ⟨p, by simp [PT.addrs, hp], e⟩

theorem nrr_of_nrrb_root {h : Nat → Node} {x : Nat} {T : PT} (hnd : T.addrs.Nodup) (hx : T.ptr = some x)
    (hN : NRRB h x T) : NoRedRed h T := by
  cases T with
  | leaf => trivial
  | node l a r =>
    simp only [PT.ptr, Option.some.injEq] at hx; subst hx
    obtain ⟨_, _, hal, har, _⟩ := nodup_node hnd
    simp only [NRRB] at hN
    simp only [NoRedRed]
    exact ⟨fun hr => ⟨blackAt_of_blackOr (hN.1 hr).1 hal, blackAt_of_blackOr (hN.1 hr).2 har⟩,
      nrr_of_nrrb hal hN.2.1, nrr_of_nrrb har hN.2.2⟩

/-- a subtree that does not contain the parent of `x` does not see the hole -/
theorem nrrb_rehole {h h' : Nat → Node} {x y p : Nat} {T : PT} {q par : Option Nat} (hR : Repr h q par T)
    (hnd : T.addrs.Nodup) (hp : (h x).parent = some p) (hpT : p ∉ T.addrs)
    (hc : ∀ a ∈ T.addrs, (h' a).color = (h a).color) (hN : NRRB h x T) : NRRB h' y T := by
  have hnr : NoRedRed h T := by
    by_cases hx : x ∈ T.addrs
    · rcases mem_parent hR hx with e | ⟨p', hp', e⟩
      · exact nrr_of_nrrb_root hnd e hN
      · rw [hp] at e; cases e; exact absurd hp' hpT
    · exact nrr_of_nrrb hx hN
  exact nrrb_congr hc (fun _ _ e => e) (nrrb_of_nrr hnr)

structure Cfg (st : St) (t : PT) (x : Nat) : Prop where
  holds : Holds st t
  mem : x ∈ t.addrs
  red : (st.h x).color = false
  bh : ∃ n, BH st.h t n
  nrr : NRRB st.h x t
  rootB : blackAt st.h t ∨ t.ptr = some x

/-- reassembly: the subtree at `g` is replaced, the cursor moves from `x` to `y` -/
theorem cfg_replace {st st' : St} {t : PT} {x y g : Nat} {s s' : PT} (hC : Cfg st t x) (hs : t.sub g = some s)
    (hH : Holds st' (t.replace g s'))
    (hout : ∀ a ∈ t.addrs, a ∉ s.addrs → (st'.h a).color = (st.h a).color)
    (hxs : x ∈ s.addrs) (hy : y ∈ s'.addrs) (hyr : (st'.h y).color = false)
    (hbh : ∀ m, BH st.h s m → BH st'.h s' m)
    (hnr : NRRB st.h x s → NRRB st'.h y s')
    (htop : ∀ q, t.parOf none g = some q → (st.h q).color = false → blackOr st.h x s → blackOr st'.h y s')
    (hroot : t.ptr = some g → blackAt st'.h s' ∨ s'.ptr = some y) :
    Cfg st' (t.replace g s') y := by
  have hnd := hC.holds.2.1
  obtain ⟨n, hn⟩ := hC.bh
  obtain ⟨m, hm⟩ := bh_sub hnd hs hn
  refine ⟨hH, (mem_replace hnd hs y).2 (.inr hy), hyr, ⟨n, bh_replace hnd hs hout hm (hbh m hm) hn⟩, ?_, ?_⟩
  · exact nrrb_replace (par := none) hnd hs (fun a ha has e => has (e ▸ hxs)) hout htop
      (hnr (nrrb_sub hnd hs hC.nrr)) hC.nrr
  · have hp := ptr_replace (s' := s') hs
    by_cases hg : t.ptr = some g
    · rw [if_pos hg] at hp
      rcases hroot hg with h1 | h1
      · left; exact blackAt_iff.2 (fun c hc => blackAt_iff.1 h1 c (by rw [← hp]; exact hc))
      · right; rw [hp]; exact h1
    · rw [if_neg hg] at hp
      cases t with
      | leaf => simp [PT.sub] at hs
      | node l b r =>
        have hgb : g ≠ b := fun e => hg (by simp [PT.ptr, e])
        have hbs : b ∉ s.addrs := sub_root_not_mem hnd hgb hs
        rcases hC.rootB with h1 | h1
        · left
          refine blackAt_iff.2 (fun c hc => ?_)
          rw [hp] at hc
          simp only [PT.ptr, Option.some.injEq] at hc; subst hc
          rw [hout b (by simp [PT.addrs]) hbs]; exact h1
        · simp only [PT.ptr, Option.some.injEq] at h1; subst h1; exact absurd hxs hbs

/-- what is known around a cursor that has a parent and a grandparent -/
theorem shape {h : Nat → Node} {q : Option Nat} {t : PT} {x p g : Nat} (hR : Repr h q none t)
    (hnd : t.addrs.Nodup) (hx : x ∈ t.addrs) (hp : (h x).parent = some p) (hg : (h p).parent = some g) :
    p ∈ t.addrs ∧ g ∈ t.addrs ∧ p ≠ x ∧ ∃ L R, t.sub g = some (.node L g R) ∧
      Repr h (some g) (t.parOf none g) (.node L g R) ∧ (PT.node L g R).addrs.Nodup ∧
      t.parOf none p = some g ∧ q ≠ some p ∧ q ≠ some x ∧
      x ∈ (PT.node L g R).addrs ∧ p ∈ (PT.node L g R).addrs ∧
      (((h g).left = some p ∧ (h g).right ≠ some p) ∨ ((h g).left ≠ some p ∧ (h g).right = some p)) ∧
      (((h p).left = some x ∧ (h p).right ≠ some x) ∨ ((h p).left ≠ some x ∧ (h p).right = some x)) := by
  obtain ⟨Ax, Rx, hsx, _, _, _, _, _, hdx⟩ := Rot.rot_setup hR hnd hx
  rcases hdx with ⟨_, e⟩ | ⟨hqx, p', e, hpm, hpx, hxside⟩
  · rw [e] at hp; cases hp
  rw [e] at hp; cases hp
  obtain ⟨Ap, Rp, hsp, _, _, _, _, hparp, hdp⟩ := Rot.rot_setup hR hnd hpm
  rcases hdp with ⟨_, e⟩ | ⟨hqp, g', e, hgm, _, hpside⟩
  · rw [e] at hg; cases hg
  rw [e] at hg; cases hg
  obtain ⟨L, R, hsg, hndg, _, _, _, _, _⟩ := Rot.rot_setup hR hnd hgm
  have hRg := repr_sub hR hsg
  have hxs : x ∈ (PT.node L g R).addrs ∧ p ∈ (PT.node L g R).addrs := by
    have hRg' := hRg
    simp only [Repr] at hRg'
    obtain ⟨_, _, hL, hRr⟩ := hRg'
    have key : ∀ T par, Repr h (some p) par T → x ∈ T.addrs := by
      intro T par hT
      obtain ⟨A, B, rfl, _, hA, hB⟩ := repr_some_node hT
      rcases hxside with ⟨e, _⟩ | ⟨_, e⟩
      · rw [e] at hA; have := Fix.repr_root_mem hA; simp [PT.addrs, this]
      · rw [e] at hB; have := Fix.repr_root_mem hB; simp [PT.addrs, this]
    rcases hpside with ⟨e, _⟩ | ⟨_, e⟩
    · rw [e] at hL; have h1 := key _ _ hL; have h2 := Fix.repr_root_mem hL; simp [PT.addrs, h1, h2]
    · rw [e] at hRr; have h1 := key _ _ hRr; have h2 := Fix.repr_root_mem hRr; simp [PT.addrs, h1, h2]
  refine ⟨hpm, hgm, fun e => hpx (by simp [PT.addrs, e]), L, R, hsg, hRg, hndg,
    by rw [hparp, e], hqp, hqx, hxs.1, hxs.2, hpside, hxside⟩

/-- the grandparent of a cursor with a red parent is black -/
theorem gp_black {st : St} {t : PT} {x p g : Nat} (hC : Cfg st t x) (hp : (st.h x).parent = some p)
    (hpr : (st.h p).color = false) (hg : (st.h p).parent = some g) : (st.h g).color = true := by
  obtain ⟨hpm, hgm, hpx, L, R, hsg, hRg, hndg, _, _, _, hxs, hpins, hps, _⟩ := shape hC.holds.1 hC.holds.2.1 hC.mem hp hg
  have hN := nrrb_sub hC.holds.2.1 hsg hC.nrr
  simp only [NRRB] at hN
  cases hcg : (st.h g).color with
  | true => rfl
  | false =>
    obtain ⟨b1, b2⟩ := hN.1 hcg
    simp only [Repr] at hRg
    obtain ⟨_, _, hL, hRr⟩ := hRg
    rcases hps with ⟨e, _⟩ | ⟨_, e⟩
    · rcases b1 p (by rw [← repr_ptr hL]; exact e) with h1 | h1
      · rw [hpr] at h1; cases h1
      · exact absurd h1 hpx
    · rcases b2 p (by rw [← repr_ptr hRr]; exact e) with h1 | h1
      · rw [hpr] at h1; cases h1
      · exact absurd h1 hpx

/-- recolouring of `fixUncleRed` on the local shape; `a`, `b` are the two (red) children of `g` -/
theorem uncle_local {h h' : Nat → Node} {x p g a b : Nat} {A B C D : PT} {par : Option Nat}
    (hRs : Repr h (some g) par (.node (.node A a B) g (.node C b D)))
    (hnds : (PT.node (.node A a B) g (.node C b D)).addrs.Nodup)
    (hp : (h x).parent = some p) (hpab : p = a ∨ p = b)
    (ca : (h a).color = false) (cb : (h b).color = false) (cg : (h g).color = true)
    (cg' : (h' g).color = false) (ca' : (h' a).color = true) (cb' : (h' b).color = true)
    (hoth : ∀ y, y ≠ g → y ≠ a → y ≠ b → (h' y).color = (h y).color) :
    (∀ m, BH h (.node (.node A a B) g (.node C b D)) m → BH h' (.node (.node A a B) g (.node C b D)) m) ∧
    (NRRB h x (.node (.node A a B) g (.node C b D)) → NRRB h' g (.node (.node A a B) g (.node C b D))) := by
  obtain ⟨ndl, ndr, hgl, hgr, hdlr⟩ := nodup_node hnds
  obtain ⟨ndA, ndB, haA, haB, hdAB⟩ := nodup_node ndl
  obtain ⟨ndC, ndD, hbC, hbD, hdCD⟩ := nodup_node ndr
  have hal : a ∈ (PT.node A a B).addrs := by simp [PT.addrs]
  have hbr : b ∈ (PT.node C b D).addrs := by simp [PT.addrs]
  have sA : ∀ y ∈ A.addrs, (h' y).color = (h y).color := fun y hy =>
    hoth y (fun e => hgl (by simp [PT.addrs, ← e, hy])) (fun e => haA (e ▸ hy))
      (fun e => hdlr y (by simp [PT.addrs, hy]) (e ▸ hbr))
  have sB : ∀ y ∈ B.addrs, (h' y).color = (h y).color := fun y hy =>
    hoth y (fun e => hgl (by simp [PT.addrs, ← e, hy])) (fun e => haB (e ▸ hy))
      (fun e => hdlr y (by simp [PT.addrs, hy]) (e ▸ hbr))
  have sC : ∀ y ∈ C.addrs, (h' y).color = (h y).color := fun y hy =>
    hoth y (fun e => hgr (by simp [PT.addrs, ← e, hy])) (fun e => hdlr a hal (by simp [PT.addrs, ← e, hy]))
      (fun e => hbC (e ▸ hy))
  have sD : ∀ y ∈ D.addrs, (h' y).color = (h y).color := fun y hy =>
    hoth y (fun e => hgr (by simp [PT.addrs, ← e, hy])) (fun e => hdlr a hal (by simp [PT.addrs, ← e, hy]))
      (fun e => hbD (e ▸ hy))
  constructor
  · intro m hb
    simp only [BH, ca, cb, cg, cg', ca', cb'] at hb ⊢
    obtain ⟨k, ⟨j, a1, a2, e1⟩, ⟨j', a3, a4, e2⟩, e3⟩ := hb
    simp at e1 e2 e3
    subst e1 e2
    exact ⟨k + 1, ⟨k, bh_congr sA a1, bh_congr sB a2, by simp⟩, ⟨k, bh_congr sC a3, bh_congr sD a4, by simp⟩,
      by simp [e3]⟩
  · intro hN
    simp only [Repr] at hRs
    obtain ⟨_, _, ⟨_, _, rA, rB⟩, ⟨_, _, rC, rD⟩⟩ := hRs
    simp only [NRRB] at hN
    obtain ⟨_, ⟨_, nA, nB⟩, ⟨_, nC, nD⟩⟩ := hN
    have pA : p ∉ A.addrs := by
      rcases hpab with e | e
      · rw [e]; exact haA
      · rw [e]; exact fun hm => hdlr b (by simp [PT.addrs, hm]) hbr
    have pB : p ∉ B.addrs := by
      rcases hpab with e | e
      · rw [e]; exact haB
      · rw [e]; exact fun hm => hdlr b (by simp [PT.addrs, hm]) hbr
    have pC : p ∉ C.addrs := by
      rcases hpab with e | e
      · rw [e]; exact fun hm => hdlr a hal (by simp [PT.addrs, hm])
      · rw [e]; exact hbC
    have pD : p ∉ D.addrs := by
      rcases hpab with e | e
      · rw [e]; exact fun hm => hdlr a hal (by simp [PT.addrs, hm])
      · rw [e]; exact hbD
    simp only [NRRB]
    refine ⟨fun _ => ⟨fun c hc => ?_, fun c hc => ?_⟩,
      ⟨fun hr => (by rw [ca'] at hr; cases hr), nrrb_rehole rA ndA hp pA sA nA, nrrb_rehole rB ndB hp pB sB nB⟩,
      ⟨fun hr => (by rw [cb'] at hr; cases hr), nrrb_rehole rC ndC hp pC sC nC, nrrb_rehole rD ndD hp pD sD nD⟩⟩
    · simp only [PT.ptr, Option.some.injEq] at hc; subst hc; exact .inl ca'
    · simp only [PT.ptr, Option.some.injEq] at hc; subst hc; exact .inl cb'

theorem step_uncleRed {st : St} {t : PT} {x p g u : Nat} (hC : Cfg st t x)
    (hp : (st.h x).parent = some p) (hpr : (st.h p).color = false) (hg : (st.h p).parent = some g)
    (hu : (if (st.h g).left = some p then (st.h g).right else (st.h g).left) = some u)
    (hur : (st.h u).color = false) :
    Cfg (setCol (setCol (setCol st (some p) true) (some u) true) (some g) false) t g := by
  have hgb := gp_black hC hp hpr hg
  obtain ⟨hpm, hgm, hpx, L, R, hsg, hRg, hndg, _, _, _, hxs, hpins, hps, _⟩ := shape hC.holds.1 hC.holds.2.1 hC.mem hp hg
  have hnd := hC.holds.2.1
  have huins : u ∈ (PT.node L g R).addrs := by
    have hRg' := hRg
    simp only [Repr] at hRg'
    obtain ⟨_, _, hL, hRr⟩ := hRg'
    split at hu
    · rw [hu] at hRr; have := Fix.repr_root_mem hRr; simp [PT.addrs, this]
    · rw [hu] at hL; have := Fix.repr_root_mem hL; simp [PT.addrs, this]
  generalize hst' : setCol (setCol (setCol st (some p) true) (some u) true) (some g) false = st'
  have hcol : ∀ a, (st'.h a).color =
      if a = g then false else if a = u then true else if a = p then true else (st.h a).color := by
    intro a; rw [← hst']; simp only [setCol_color]
  have hPS : PtrSame st st' := by
    rw [← hst']
    exact ((setCol_ptrSame _ _ _).trans (setCol_ptrSame _ _ _)).trans (setCol_ptrSame _ _ _)
  have hH' : Holds st' t := Fix.holds_ptrSame hPS hC.holds
  have hgp : g ≠ p := by
    intro e; rw [e] at hgb; rw [hpr] at hgb; cases hgb
  have hgu : g ≠ u := by
    intro e; rw [e] at hgb; rw [hur] at hgb; cases hgb
  have hloc : (∀ m, BH st.h (.node L g R) m → BH st'.h (.node L g R) m) ∧
      (NRRB st.h x (.node L g R) → NRRB st'.h g (.node L g R)) := by
    have hRg' := hRg
    simp only [Repr] at hRg'
    obtain ⟨_, _, hL, hRr⟩ := hRg'
    rcases hps with ⟨e1, e2⟩ | ⟨e1, e2⟩
    · rw [if_pos e1] at hu
      rw [e1] at hL; rw [hu] at hRr
      obtain ⟨A, B, rfl, _⟩ := repr_some_node hL
      obtain ⟨C, D, rfl, _⟩ := repr_some_node hRr
      have hpu : p ≠ u := fun e => e2 (by rw [hu, e])
      refine uncle_local hRg hndg hp (.inl rfl) hpr hur hgb (by rw [hcol]; simp) (by rw [hcol]; simp [hgp.symm, hpu])
        (by rw [hcol]; simp [hgu.symm]) (fun y h1 h2 h3 => by rw [hcol]; simp [h1, h2, h3])
    · rw [if_neg e1] at hu
      rw [hu] at hL; rw [e2] at hRr
      obtain ⟨C, D, rfl, _⟩ := repr_some_node hL
      obtain ⟨A, B, rfl, _⟩ := repr_some_node hRr
      have hpu : p ≠ u := fun e => e1 (by rw [hu, e])
      refine uncle_local hRg hndg hp (.inr rfl) hur hpr hgb (by rw [hcol]; simp) (by rw [hcol]; simp [hgu.symm])
        (by rw [hcol]; simp [hgp.symm, hpu]) (fun y h1 h2 h3 => by rw [hcol]; simp [h1, h2, h3])
  have key := cfg_replace (st' := st') (y := g) (s' := .node L g R) hC hsg
    (by rw [replace_self hnd hsg]; exact hH')
    (fun a ha has => by
      rw [hcol]
      have h1 : a ≠ g := fun e => has (by simp [PT.addrs, e])
      have h2 : a ≠ u := fun e => has (e ▸ huins)
      have h3 : a ≠ p := fun e => has (e ▸ hpins)
      simp [h1, h2, h3])
    hxs (by simp [PT.addrs]) (by rw [hcol]; simp) hloc.1 hloc.2
    (fun q _ _ _ c hc => by simp only [PT.ptr, Option.some.injEq] at hc; exact .inr hc.symm) (fun _ => .inr rfl)
  rw [replace_self hnd hsg] at key
  exact key

/-! #### black uncle, cursor an outer grandchild: recolour and rotate at the grandparent -/

theorem bh_outerL {h h' : Nat → Node} {A B U : PT} {p g : Nat}
    (sA : ∀ a ∈ A.addrs, (h' a).color = (h a).color) (sB : ∀ a ∈ B.addrs, (h' a).color = (h a).color)
    (sU : ∀ a ∈ U.addrs, (h' a).color = (h a).color)
    (cp : (h p).color = false) (cg : (h g).color = true) (cp' : (h' p).color = true) (cg' : (h' g).color = false) :
    ∀ m, BH h (.node (.node A p B) g U) m → BH h' (.node A p (.node B g U)) m := by
  intro m hb
  simp only [BH, cp, cg, cp', cg'] at hb ⊢
  obtain ⟨k, ⟨j, a1, a2, e1⟩, a3, e3⟩ := hb
  simp at e1 e3
  subst e1
  exact ⟨k, bh_congr sA a1, ⟨k, bh_congr sB a2, bh_congr sU a3, by simp⟩, by simp [e3]⟩

theorem nrrb_outerL {h h' : Nat → Node} {A B U : PT} {x p g : Nat}
    (sA : ∀ a ∈ A.addrs, (h' a).color = (h a).color) (sB : ∀ a ∈ B.addrs, (h' a).color = (h a).color)
    (sU : ∀ a ∈ U.addrs, (h' a).color = (h a).color)
    (cp : (h p).color = false) (cp' : (h' p).color = true)
    (hBx : ∀ c, B.ptr = some c → c ≠ x) (hUb : blackAt h U)
    (hN : NRRB h x (.node (.node A p B) g U)) : NRRB h' x (.node A p (.node B g U)) := by
  simp only [NRRB] at hN ⊢
  obtain ⟨_, ⟨hpe, nA, nB⟩, nU⟩ := hN
  obtain ⟨_, bB⟩ := hpe cp
  refine ⟨fun hr => (by rw [cp'] at hr; cases hr), nrrb_congr sA (fun _ _ e => e) nA,
    ⟨fun _ => ⟨?_, ?_⟩, nrrb_congr sB (fun _ _ e => e) nB, nrrb_congr sU (fun _ _ e => e) nU⟩⟩
  · intro c hc
    rcases bB c hc with e | e
    · left; rw [sB c (ptr_mem_addrs hc)]; exact e
    · exact absurd e (hBx c hc)
  · intro c hc
    left; rw [sU c (ptr_mem_addrs hc)]; exact blackAt_iff.1 hUb c hc

theorem bh_outerR {h h' : Nat → Node} {A B U : PT} {p g : Nat}
    (sA : ∀ a ∈ A.addrs, (h' a).color = (h a).color) (sB : ∀ a ∈ B.addrs, (h' a).color = (h a).color)
    (sU : ∀ a ∈ U.addrs, (h' a).color = (h a).color)
    (cp : (h p).color = false) (cg : (h g).color = true) (cp' : (h' p).color = true) (cg' : (h' g).color = false) :
    ∀ m, BH h (.node U g (.node B p A)) m → BH h' (.node (.node U g B) p A) m := by
  intro m hb
  simp only [BH, cp, cg, cp', cg'] at hb ⊢
  obtain ⟨k, a3, ⟨j, a2, a1, e1⟩, e3⟩ := hb
  simp at e1 e3
  subst e1
  exact ⟨k, ⟨k, bh_congr sU a3, bh_congr sB a2, by simp⟩, bh_congr sA a1, by simp [e3]⟩

theorem nrrb_outerR {h h' : Nat → Node} {A B U : PT} {x p g : Nat}
    (sA : ∀ a ∈ A.addrs, (h' a).color = (h a).color) (sB : ∀ a ∈ B.addrs, (h' a).color = (h a).color)
    (sU : ∀ a ∈ U.addrs, (h' a).color = (h a).color)
    (cp : (h p).color = false) (cp' : (h' p).color = true)
    (hBx : ∀ c, B.ptr = some c → c ≠ x) (hUb : blackAt h U)
    (hN : NRRB h x (.node U g (.node B p A))) : NRRB h' x (.node (.node U g B) p A) := by
  simp only [NRRB] at hN ⊢
  obtain ⟨_, nU, ⟨hpe, nB, nA⟩⟩ := hN
  obtain ⟨bB, _⟩ := hpe cp
  refine ⟨fun hr => (by rw [cp'] at hr; cases hr),
    ⟨fun _ => ⟨?_, ?_⟩, nrrb_congr sU (fun _ _ e => e) nU, nrrb_congr sB (fun _ _ e => e) nB⟩,
    nrrb_congr sA (fun _ _ e => e) nA⟩
  · intro c hc
    left; rw [sU c (ptr_mem_addrs hc)]; exact blackAt_iff.1 hUb c hc
  · intro c hc
    rcases bB c hc with e | e
    · left; rw [sB c (ptr_mem_addrs hc)]; exact e
    · exact absurd e (hBx c hc)

theorem blackAt_of_colOf {st : St} {q par : Option Nat} {U : PT} (hR : Repr st.h q par U)
    (hc : colOf st q = true) : blackAt st.h U := by
  cases U with
  | leaf => trivial
  | node l u r =>
    simp only [Repr] at hR
    rw [hR.1] at hc
    exact hc

theorem step_outerL {st : St} {t : PT} {x p g : Nat} (hC : Cfg st t x)
    (hp : (st.h x).parent = some p) (hpr : (st.h p).color = false) (hg : (st.h p).parent = some g)
    (hgl : (st.h g).left = some p) (hpl : (st.h p).left = some x) (hub : colOf st (st.h g).right = true) :
    ∃ t', Cfg (Rot.rotSt .left .right (setCol (setCol st (some p) true) (some g) false) g p) t' x := by
  have hgb := gp_black hC hp hpr hg
  obtain ⟨hpm, hgm, hpx, L, R, hsg, hRg, hndg, _, _, _, hxs, hpins, hps, _⟩ :=
    shape hC.holds.1 hC.holds.2.1 hC.mem hp hg
  have hRg' := hRg
  simp only [Repr] at hRg'
  obtain ⟨_, _, hL, hRr⟩ := hRg'
  rw [hgl] at hL
  obtain ⟨A, B, rfl, _, hA, hB⟩ := repr_some_node hL
  rw [hpl] at hA
  have hxA : x ∈ A.addrs := Fix.repr_root_mem hA
  have hUb : blackAt st.h R := blackAt_of_colOf hRr hub
  obtain ⟨ndl, ndR, hgl', hgR, hdlR⟩ := nodup_node hndg
  obtain ⟨ndA, ndB, hpA, hpB, hdAB⟩ := nodup_node ndl
  have hgp : g ≠ p := fun e => hgl' (by simp [PT.addrs, e])
  generalize hst2 : setCol (setCol st (some p) true) (some g) false = st2
  have hPS : PtrSame st st2 := by
    rw [← hst2]; exact (setCol_ptrSame _ _ _).trans (setCol_ptrSame _ _ _)
  have hH2 : Holds st2 t := Fix.holds_ptrSame hPS hC.holds
  obtain ⟨hH3, _, hadd⟩ := rotR_holds hH2 hsg
  generalize hst3 : Rot.rotSt .left .right st2 g p = st3 at hH3
  have hcol : ∀ a, (st3.h a).color = if a = g then false else if a = p then true else (st.h a).color := by
    intro a; rw [← hst3, rotSt_color, ← hst2]; simp only [setCol_color]
  have sub_same : ∀ a, a ≠ g → a ≠ p → (st3.h a).color = (st.h a).color := by
    intro a h1 h2; rw [hcol]; simp [h1, h2]
  have sA : ∀ a ∈ A.addrs, (st3.h a).color = (st.h a).color := fun a ha =>
    sub_same a (fun e => hgl' (by simp [PT.addrs, ← e, ha])) (fun e => hpA (e ▸ ha))
  have sB : ∀ a ∈ B.addrs, (st3.h a).color = (st.h a).color := fun a ha =>
    sub_same a (fun e => hgl' (by simp [PT.addrs, ← e, ha])) (fun e => hpB (e ▸ ha))
  have sU : ∀ a ∈ R.addrs, (st3.h a).color = (st.h a).color := fun a ha =>
    sub_same a (fun e => hgR (e ▸ ha)) (fun e => hdlR p (by simp [PT.addrs]) (e ▸ ha))
  have cp' : (st3.h p).color = true := by rw [hcol]; simp [hgp.symm]
  have cg' : (st3.h g).color = false := by rw [hcol]; simp
  refine ⟨_, cfg_replace (y := x) hC hsg hH3 ?_ hxs (by simp [PT.addrs, hxA]) ?_
    (bh_outerL sA sB sU hpr hgb cp' cg') (nrrb_outerL sA sB sU hpr cp' ?_ hUb) ?_ ?_⟩
  · intro a ha has
    exact sub_same a (fun e => has (by simp [PT.addrs, e])) (fun e => has (e ▸ hpins))
  · rw [sA x hxA]; exact hC.red
  · intro c hc e
    exact hdAB x hxA (e ▸ ptr_mem_addrs hc)
  · intro q _ _ _ c hc
    simp only [PT.ptr, Option.some.injEq] at hc; subst hc; exact .inl cp'
  · intro _; left; exact cp'

theorem step_outerR {st : St} {t : PT} {x p g : Nat} (hC : Cfg st t x)
    (hp : (st.h x).parent = some p) (hpr : (st.h p).color = false) (hg : (st.h p).parent = some g)
    (hgr : (st.h g).right = some p) (hpr' : (st.h p).right = some x) (hub : colOf st (st.h g).left = true) :
    ∃ t', Cfg (Rot.rotSt .right .left (setCol (setCol st (some p) true) (some g) false) g p) t' x := by
  have hgb := gp_black hC hp hpr hg
  obtain ⟨hpm, hgm, hpx, L, R, hsg, hRg, hndg, _, _, _, hxs, hpins, hps, _⟩ :=
    shape hC.holds.1 hC.holds.2.1 hC.mem hp hg
  have hRg' := hRg
  simp only [Repr] at hRg'
  obtain ⟨_, _, hL, hRr⟩ := hRg'
  rw [hgr] at hRr
  obtain ⟨B, A, rfl, _, hB, hA⟩ := repr_some_node hRr
  rw [hpr'] at hA
  have hxA : x ∈ A.addrs := Fix.repr_root_mem hA
  have hUb : blackAt st.h L := blackAt_of_colOf hL hub
  obtain ⟨ndL, ndr, hgL, hgr', hdLr⟩ := nodup_node hndg
  obtain ⟨ndB, ndA, hpB, hpA, hdBA⟩ := nodup_node ndr
  have hgp : g ≠ p := fun e => hgr' (by simp [PT.addrs, e])
  generalize hst2 : setCol (setCol st (some p) true) (some g) false = st2
  have hPS : PtrSame st st2 := by
    rw [← hst2]; exact (setCol_ptrSame _ _ _).trans (setCol_ptrSame _ _ _)
  have hH2 : Holds st2 t := Fix.holds_ptrSame hPS hC.holds
  obtain ⟨hH3, _, hadd⟩ := rotL_holds hH2 hsg
  generalize hst3 : Rot.rotSt .right .left st2 g p = st3 at hH3
  have hcol : ∀ a, (st3.h a).color = if a = g then false else if a = p then true else (st.h a).color := by
    intro a; rw [← hst3, rotSt_color, ← hst2]; simp only [setCol_color]
  have sub_same : ∀ a, a ≠ g → a ≠ p → (st3.h a).color = (st.h a).color := by
    intro a h1 h2; rw [hcol]; simp [h1, h2]
  have sA : ∀ a ∈ A.addrs, (st3.h a).color = (st.h a).color := fun a ha =>
    sub_same a (fun e => hgr' (by simp [PT.addrs, ← e, ha])) (fun e => hpA (e ▸ ha))
  have sB : ∀ a ∈ B.addrs, (st3.h a).color = (st.h a).color := fun a ha =>
    sub_same a (fun e => hgr' (by simp [PT.addrs, ← e, ha])) (fun e => hpB (e ▸ ha))
  have sU : ∀ a ∈ L.addrs, (st3.h a).color = (st.h a).color := fun a ha =>
    sub_same a (fun e => hgL (e ▸ ha)) (fun e => hdLr a ha (by simp [PT.addrs, e]))
  have cp' : (st3.h p).color = true := by rw [hcol]; simp [hgp.symm]
  have cg' : (st3.h g).color = false := by rw [hcol]; simp
  refine ⟨_, cfg_replace (y := x) hC hsg hH3 ?_ hxs (by simp [PT.addrs, hxA]) ?_
    (bh_outerR sA sB sU hpr hgb cp' cg') (nrrb_outerR sA sB sU hpr cp' ?_ hUb) ?_ ?_⟩
  · intro a ha has
    exact sub_same a (fun e => has (by simp [PT.addrs, e])) (fun e => has (e ▸ hpins))
  · rw [sA x hxA]; exact hC.red
  · intro c hc e
    exact hdBA c (ptr_mem_addrs hc) (e ▸ hxA)
  · intro q _ _ _ c hc
    simp only [PT.ptr, Option.some.injEq] at hc; subst hc; exact .inl cp'
  · intro _; left; exact cp'

/-! #### black uncle, cursor an inner grandchild: rotate at the parent, the cursor moves to the old parent -/

theorem bh_innerL {h : Nat → Node} {A Bl Br : PT} {x p : Nat} (cp : (h p).color = false) (cx : (h x).color = false) :
    ∀ m, BH h (.node A p (.node Bl x Br)) m → BH h (.node (.node A p Bl) x Br) m := by
  intro m hb
  simp only [BH, cp, cx] at hb ⊢
  obtain ⟨k, a1, ⟨j, a2, a3, e1⟩, e3⟩ := hb
  simp at e1 e3
  subst e1
  exact ⟨k, ⟨k, a1, a2, by simp⟩, a3, by simp [e3]⟩

theorem bh_innerR {h : Nat → Node} {A Bl Br : PT} {x p : Nat} (cp : (h p).color = false) (cx : (h x).color = false) :
    ∀ m, BH h (.node (.node Bl x Br) p A) m → BH h (.node Bl x (.node Br p A)) m := by
  intro m hb
  simp only [BH, cp, cx] at hb ⊢
  obtain ⟨k, ⟨j, a2, a3, e1⟩, a1, e3⟩ := hb
  simp at e1 e3
  subst e1
  exact ⟨k, a2, ⟨k, a3, a1, by simp⟩, by simp [e3]⟩

theorem blackOr_move {h : Nat → Node} {x y : Nat} {T : PT} (hx : x ∉ T.addrs) (hb : blackOr h x T) : blackOr h y T :=
  fun c hc => (hb c hc).elim .inl (fun e => absurd (e ▸ ptr_mem_addrs hc) hx)

theorem nrrb_move {h : Nat → Node} {x y : Nat} {T : PT} (hx : x ∉ T.addrs) (hN : NRRB h x T) : NRRB h y T :=
  nrrb_congr (fun _ _ => rfl) (fun a ha e => absurd (e ▸ ha) hx) hN

theorem nrrb_innerL {h : Nat → Node} {A Bl Br : PT} {x p : Nat}
    (hnd : (PT.node A p (.node Bl x Br)).addrs.Nodup) (cp : (h p).color = false) (cx : (h x).color = false)
    (hN : NRRB h x (.node A p (.node Bl x Br))) : NRRB h p (.node (.node A p Bl) x Br) := by
  obtain ⟨_, ndr, _, _, hdAr⟩ := nodup_node hnd
  obtain ⟨_, _, hxBl, hxBr, _⟩ := nodup_node ndr
  have hxA : x ∉ A.addrs := fun hm => hdAr x hm (by simp [PT.addrs])
  simp only [NRRB] at hN ⊢
  obtain ⟨hpe, nA, hxe, nBl, nBr⟩ := hN
  obtain ⟨bA, _⟩ := hpe cp
  obtain ⟨bBl, bBr⟩ := hxe cx
  exact ⟨fun _ => ⟨fun c hc => by simp only [PT.ptr, Option.some.injEq] at hc; exact .inr hc.symm,
      blackOr_move hxBr bBr⟩,
    ⟨fun _ => ⟨blackOr_move hxA bA, blackOr_move hxBl bBl⟩, nrrb_move hxA nA, nrrb_move hxBl nBl⟩,
    nrrb_move hxBr nBr⟩

theorem nrrb_innerR {h : Nat → Node} {A Bl Br : PT} {x p : Nat}
    (hnd : (PT.node (.node Bl x Br) p A).addrs.Nodup) (cp : (h p).color = false) (cx : (h x).color = false)
    (hN : NRRB h x (.node (.node Bl x Br) p A)) : NRRB h p (.node Bl x (.node Br p A)) := by
  obtain ⟨ndl, _, _, _, hdlA⟩ := nodup_node hnd
  obtain ⟨_, _, hxBl, hxBr, _⟩ := nodup_node ndl
  have hxA : x ∉ A.addrs := fun hm => hdlA x (by simp [PT.addrs]) hm
  simp only [NRRB] at hN ⊢
  obtain ⟨hpe, ⟨hxe, nBl, nBr⟩, nA⟩ := hN
  obtain ⟨_, bA⟩ := hpe cp
  obtain ⟨bBl, bBr⟩ := hxe cx
  exact ⟨fun _ => ⟨blackOr_move hxBl bBl,
      fun c hc => by simp only [PT.ptr, Option.some.injEq] at hc; exact .inr hc.symm⟩,
    nrrb_move hxBl nBl,
    ⟨fun _ => ⟨blackOr_move hxBr bBr, blackOr_move hxA bA⟩, nrrb_move hxBr nBr, nrrb_move hxA nA⟩⟩

theorem step_innerL {st : St} {t : PT} {x p g : Nat} (hC : Cfg st t x)
    (hp : (st.h x).parent = some p) (hpr : (st.h p).color = false) (hg : (st.h p).parent = some g)
    (hgl : (st.h g).left = some p) (hpx : (st.h p).right = some x) :
    ∃ t1, Cfg (Rot.rotSt .right .left st p x) t1 p ∧
      ((Rot.rotSt .right .left st p x).h p).parent = some x ∧
      ((Rot.rotSt .right .left st p x).h x).parent = some g ∧
      ((Rot.rotSt .right .left st p x).h g).left = some x ∧
      ((Rot.rotSt .right .left st p x).h x).left = some p ∧
      ((Rot.rotSt .right .left st p x).h g).right = (st.h g).right ∧
      (∀ a, ((Rot.rotSt .right .left st p x).h a).color = (st.h a).color) := by
  have hgb := gp_black hC hp hpr hg
  have hnd := hC.holds.2.1
  obtain ⟨hpm, hgm, hpx', L, R, hsg, hRg, hndg, hparp, hqp, _, hxs, hpins, hps, _⟩ :=
    shape hC.holds.1 hnd hC.mem hp hg
  obtain ⟨A, R', hsp, hndp, _, hA, hR', _, _⟩ := Rot.rot_setup hC.holds.1 hnd hpm
  rw [hpx] at hR'
  obtain ⟨Bl, Br, rfl, _, _, _⟩ := repr_some_node hR'
  obtain ⟨hH1, H, hadd⟩ := rotL_holds hC.holds hsp
  have hcol : ∀ a, ((Rot.rotSt .right .left st p x).h a).color = (st.h a).color := rotSt_color _ _ _ _ _
  have hgr : (st.h g).right ≠ some p := by
    rcases hps with ⟨_, e⟩ | ⟨e, _⟩
    · exact e
    · exact absurd hgl e
  have hred := H.p g hg
  refine ⟨_, cfg_replace (y := p) hC hsp hH1 (fun a _ _ => hcol a) (by simp [PT.addrs]) (by simp [PT.addrs])
    (by rw [hcol]; exact hpr) (fun m hb => bh_congr (fun a _ => hcol a) (bh_innerL hpr hC.red m hb))
    (fun hN => nrrb_congr (fun a _ => hcol a) (fun _ _ e => e) (nrrb_innerL hndp hpr hC.red hN)) ?_ ?_,
    H.n_parent, by rw [H.r_parent, hg], ?_, H.r_left, ?_, hcol⟩
  · intro q hq hqr
    rw [hparp] at hq; cases hq
    rw [hgb] at hqr; cases hqr
  · intro e
    exact absurd ((repr_ptr hC.holds.1).trans e) hqp
  · rw [hred.2.1, if_pos hgl]
  · rw [hred.2.2, if_neg hgr]

theorem step_innerR {st : St} {t : PT} {x p g : Nat} (hC : Cfg st t x)
    (hp : (st.h x).parent = some p) (hpr : (st.h p).color = false) (hg : (st.h p).parent = some g)
    (hgr : (st.h g).right = some p) (hpx : (st.h p).left = some x) :
    ∃ t1, Cfg (Rot.rotSt .left .right st p x) t1 p ∧
      ((Rot.rotSt .left .right st p x).h p).parent = some x ∧
      ((Rot.rotSt .left .right st p x).h x).parent = some g ∧
      ((Rot.rotSt .left .right st p x).h g).right = some x ∧
      ((Rot.rotSt .left .right st p x).h x).right = some p ∧
      ((Rot.rotSt .left .right st p x).h g).left = (st.h g).left ∧
      (∀ a, ((Rot.rotSt .left .right st p x).h a).color = (st.h a).color) := by
  have hgb := gp_black hC hp hpr hg
  have hnd := hC.holds.2.1
  obtain ⟨hpm, hgm, hpx', L, R, hsg, hRg, hndg, hparp, hqp, _, hxs, hpins, hps, _⟩ :=
    shape hC.holds.1 hnd hC.mem hp hg
  obtain ⟨L', A, hsp, hndp, _, hL', hA, _, _⟩ := Rot.rot_setup hC.holds.1 hnd hpm
  rw [hpx] at hL'
  obtain ⟨Bl, Br, rfl, _, _, _⟩ := repr_some_node hL'
  obtain ⟨hH1, H, hadd⟩ := rotR_holds hC.holds hsp
  have hcol : ∀ a, ((Rot.rotSt .left .right st p x).h a).color = (st.h a).color := rotSt_color _ _ _ _ _
  have hgl : (st.h g).left ≠ some p := by
    rcases hps with ⟨e, e'⟩ | ⟨e, _⟩
    · exact absurd hgr e'
    · exact e
  have hred := H.p g hg
  refine ⟨_, cfg_replace (y := p) hC hsp hH1 (fun a _ _ => hcol a) (by simp [PT.addrs]) (by simp [PT.addrs])
    (by rw [hcol]; exact hpr) (fun m hb => bh_congr (fun a _ => hcol a) (bh_innerR hpr hC.red m hb))
    (fun hN => nrrb_congr (fun a _ => hcol a) (fun _ _ e => e) (nrrb_innerR hndp hpr hC.red hN)) ?_ ?_,
    H.n_parent, by rw [H.l_parent, hg], ?_, H.l_right, ?_, hcol⟩
  · intro q hq hqr
    rw [hparp] at hq; cases hq
    rw [hgb] at hqr; cases hqr
  · intro e
    exact absurd ((repr_ptr hC.holds.1).trans e) hqp
  · rw [hred.2.2, if_pos hgr]
  · rw [hred.2.1, if_neg hgl]

/-! ### (4) the three fix-up procedures as calls -/

theorem colOf_congr {st st' : St} (hc : ∀ a, (st'.h a).color = (st.h a).color) (q : Option Nat) :
    colOf st' q = colOf st q := by
  cases q with
  | none => rfl
  | some n => exact hc n

section calls
variable (cmpF : Int → Int → Int)

theorem fixAddLeftBlack_cfg {f : Nat} {x p g : Nat} {st st' : St} {v : Val} {t : PT} (hC : Cfg st t x)
    (hp : (st.h x).parent = some p) (hpr : (st.h p).color = false) (hg : (st.h p).parent = some g)
    (hgl : (st.h g).left = some p) (hub : colOf st (st.h g).right = true)
    (h : call cmpF procs f .fixAddLeftBlack [.ptr (some x)] st = .ok (v, st')) :
    ∃ x' t', v = .ptr (some x') ∧ Cfg st' t' x' := by
  obtain ⟨_, _, _, _, _, _, _, _, _, _, _, _, _, _, hxside⟩ := shape hC.holds.1 hC.holds.2.1 hC.mem hp hg
  rcases hxside with ⟨hpl, hnr⟩ | ⟨_, hpx⟩
  · obtain ⟨rfl, rfl⟩ := call_fixAddLeftBlack_outer cmpF hp hg hnr hgl h
    obtain ⟨t', hC'⟩ := step_outerL hC hp hpr hg hgl hpl hub
    exact ⟨x, t', rfl, hC'⟩
  · obtain ⟨t1, hC1, h1p, h1x, h1g, h1xl, h1gr, hcol⟩ := step_innerL hC hp hpr hg hgl hpx
    obtain ⟨rfl, rfl⟩ := call_fixAddLeftBlack_inner cmpF hp hpx h1p h1x h1g h
    obtain ⟨t', hC'⟩ := step_outerL hC1 h1p (by rw [hcol]; exact hC.red) h1x h1g h1xl
      (by rw [h1gr, colOf_congr hcol]; exact hub)
    exact ⟨p, t', rfl, hC'⟩

theorem fixAddRightBlack_cfg {f : Nat} {x p g : Nat} {st st' : St} {v : Val} {t : PT} (hC : Cfg st t x)
    (hp : (st.h x).parent = some p) (hpr : (st.h p).color = false) (hg : (st.h p).parent = some g)
    (hgr : (st.h g).right = some p) (hub : colOf st (st.h g).left = true)
    (h : call cmpF procs f .fixAddRightBlack [.ptr (some x)] st = .ok (v, st')) :
    ∃ x' t', v = .ptr (some x') ∧ Cfg st' t' x' := by
  obtain ⟨_, _, _, _, _, _, _, _, _, _, _, _, _, _, hxside⟩ := shape hC.holds.1 hC.holds.2.1 hC.mem hp hg
  rcases hxside with ⟨hpl, _⟩ | ⟨hnl, hpx⟩
  · obtain ⟨t1, hC1, h1p, h1x, h1g, h1xr, h1gl, hcol⟩ := step_innerR hC hp hpr hg hgr hpl
    obtain ⟨rfl, rfl⟩ := call_fixAddRightBlack_inner cmpF hp hpl h1p h1x h1g h
    obtain ⟨t', hC'⟩ := step_outerR hC1 h1p (by rw [hcol]; exact hC.red) h1x h1g h1xr
      (by rw [h1gl, colOf_congr hcol]; exact hub)
    exact ⟨p, t', rfl, hC'⟩
  · obtain ⟨rfl, rfl⟩ := call_fixAddRightBlack_outer cmpF hp hg hnl hgr h
    obtain ⟨t', hC'⟩ := step_outerR hC hp hpr hg hgr hpx hub
    exact ⟨x, t', rfl, hC'⟩

theorem fixUncleRed_cfg {f : Nat} {x p g u : Nat} {st st' : St} {v : Val} {t : PT} (hC : Cfg st t x)
    (hp : (st.h x).parent = some p) (hpr : (st.h p).color = false) (hg : (st.h p).parent = some g)
    (hu : (if (st.h g).left = some p then (st.h g).right else (st.h g).left) = some u)
    (hur : (st.h u).color = false)
    (h : call cmpF procs f .fixUncleRed [.ptr (some x), .ptr (some u)] st = .ok (v, st')) :
    ∃ x' t', v = .ptr (some x') ∧ Cfg st' t' x' := by
  obtain ⟨rfl, rfl⟩ := call_fixUncleRed cmpF hp hg h
  exact ⟨g, t, rfl, step_uncleRed hC hp hpr hg hu hur⟩

end calls

/-! ### (5) after the loop: the root is painted black -/

theorem finish {st : St} {t : PT} {x : Nat} (hC : Cfg st t x)
    (hex : st.root = some x ∨ colOf st (st.h x).parent = true) :
    Holds (setCol st st.root true) t ∧ RB (setCol st st.root true) t := by
  have hp : ∀ p, (st.h x).parent = some p → (st.h p).color = true := by
    intro p hp
    rcases hex with e | e
    · have h1 := hC.holds.1
      rw [e] at h1
      rw [Fix.repr_root_parent h1] at hp; cases hp
    · rw [hp] at e; exact e
  have hN : NoRedRed st.h t := nrrb_close hC.holds.1 hp hC.nrr
  have hH' : Holds (setCol st st.root true) t := Fix.holds_ptrSame (setCol_ptrSame _ _ _) hC.holds
  refine ⟨hH', ?_⟩
  have hnd := hC.holds.2.1
  obtain ⟨n, hn⟩ := hC.bh
  cases t with
  | leaf => exact absurd hC.mem (by simp [PT.addrs])
  | node l r0 r =>
    have hroot : st.root = some r0 := by have := hC.holds.1; simp only [Repr] at this; exact this.1
    rw [hroot]
    obtain ⟨_, _, hl, hr, _⟩ := nodup_node hnd
    have cl : ∀ a ∈ l.addrs, ((setCol st (some r0) true).h a).color = (st.h a).color := by
      intro a ha; rw [setCol_color, if_neg (fun e : a = r0 => hl (e ▸ ha))]
    have cr : ∀ a ∈ r.addrs, ((setCol st (some r0) true).h a).color = (st.h a).color := by
      intro a ha; rw [setCol_color, if_neg (fun e : a = r0 => hr (e ▸ ha))]
    have c0 : ((setCol st (some r0) true).h r0).color = true := by rw [setCol_color, if_pos rfl]
    simp only [NoRedRed] at hN
    simp only [BH] at hn
    obtain ⟨m, b1, b2, _⟩ := hn
    refine ⟨c0, ?_, m + 1, ?_⟩
    · simp only [NoRedRed]
      refine ⟨fun hr => (by rw [c0] at hr; cases hr), ?_, ?_⟩
      · exact nrr_of_nrrb hl (nrrb_congr cl (fun _ _ e => e) (nrrb_of_nrr (x := r0) hN.2.1))
      · exact nrr_of_nrrb hr (nrrb_congr cr (fun _ _ e => e) (nrrb_of_nrr (x := r0) hN.2.2))
    · simp only [BH, c0]
      exact ⟨m, bh_congr cl b1, bh_congr cr b2, by simp⟩

theorem Cfg.congr {st st' : St} {t : PT} {x : Nat} (hC : Cfg st t x) (hS : PtrSame st st')
    (hc : ∀ a, (st'.h a).color = (st.h a).color) : Cfg st' t x :=
  ⟨Fix.holds_ptrSame hS hC.holds, hC.mem, by rw [hc]; exact hC.red,
    hC.bh.elim (fun n hn => ⟨n, bh_congr (fun a _ => hc a) hn⟩),
    nrrb_congr (fun a _ => hc a) (fun _ _ e => e) hC.nrr,
    hC.rootB.elim (fun hb => .inl (blackAt_iff.2 (fun c hcp => by rw [hc]; exact blackAt_iff.1 hb c hcp))) .inr⟩

/-! ### (6) the loop of `fixAfterAdd` -/

def condA : Expr PName :=
  .and (.and (.ne (.var 0) .nil) (.ne (.var 0) .root))
    (.eq (.call1 .getColor (.call1 .getParent (.var 0))) (.bool false))

def bodyA : Stmt PName :=
  (.seq (.assign 1 (.call1 .getUncle (.var 0)))
    (.seq (.ite (.eq (.call1 .getColor (.var 1)) (.bool false))
    (.seq (.assign 0 (.call2 .fixUncleRed (.var 0) (.var 1)))
    .continue_)
    .skip)
    (.seq (.ite (.eq (.call1 .getParent (.var 0)) (.call1 .getLeft (.call1 .getGrandParent (.var 0))))
    (.seq (.assign 0 (.call1 .fixAddLeftBlack (.var 0)))
    .continue_)
    .skip)
    (.assign 0 (.call1 .fixAddRightBlack (.var 0))))))

theorem body_fixAfterAdd_eq : body_fixAfterAdd =
    .seq (.setField (.var 0) .color (.bool false))
      (.seq (.loop condA bodyA) (.expr (.call2 .setColor .root (.bool true)))) := rfl

section loop
open Fix
variable {cmpF : Int → Int → Int} {f lf : Nat}

theorem eval_and {callH : CallH PName} {ρ : Env} {st st' : St} {a b : Expr PName} {v : Val}
    (h : evalE cmpF callH ρ st (.and a b) = .ok (v, st')) :
    (evalE cmpF callH ρ st a = .ok (.bool false, st') ∧ v = .bool false) ∨
    ∃ st1 y, evalE cmpF callH ρ st a = .ok (.bool true, st1) ∧
      evalE cmpF callH ρ st1 b = .ok (.bool y, st') ∧ v = .bool y := by
  simp only [evalE] at h
  cases h1 : evalE cmpF callH ρ st a with
  | error e => simp [h1] at h
  | ok r =>
    obtain ⟨va, st1⟩ := r
    rw [h1] at h
    cases va with
    | bool ba =>
      cases ba with
      | false =>
        simp at h
        left; exact ⟨by rw [h.2], h.1.symm⟩
      | true =>
        simp only at h
        cases h2 : evalE cmpF callH ρ st1 b with
        | error e => simp [h2] at h
        | ok r2 =>
          obtain ⟨vb, st2⟩ := r2
          rw [h2] at h
          cases vb with
          | bool y =>
            simp at h
            right; exact ⟨st1, y, rfl, by rw [← h.2, h2], h.1.symm⟩
          | _ => simp at h
    | _ => simp at h

/-- `e.getColor() == Red` -/
theorem eval_isRed {ρ : Env} {st st' : St} {e : Expr PName} {a : Option Nat} {v : Val}
    (he : EvalsTo cmpF f ρ st e a)
    (h : evalE cmpF (call cmpF procs f) ρ st (.eq (.call1 .getColor e) (.bool false)) = .ok (v, st')) :
    st' = st ∧ v = .bool (colOf st a == false) := by
  obtain ⟨x, s1, y, r, h1, h2, hv, hvr⟩ := eval_eq h
  obtain ⟨z, s2, h3, h4⟩ := eval_call1 h1
  obtain ⟨e1, e2⟩ := he _ _ h3
  subst e1 e2
  obtain ⟨e3, e4⟩ := call_getColor cmpF h4
  subst e3 e4
  simp [evalE] at h2
  obtain ⟨e5, e6⟩ := h2
  subst e5 e6
  simp [valEq] at hv
  refine ⟨rfl, ?_⟩
  rw [hvr, hv]
  cases r <;> rfl

theorem condA_spec {ρ : Env} {st st1 : St} {v : Val} {x : Nat} (h0 : ρ 0 = .ptr (some x))
    (h : evalE cmpF (call cmpF procs f) ρ st condA = .ok (v, st1)) :
    st1 = st ∧ ((v = .bool true ∧ st.root ≠ some x ∧ colOf st (st.h x).parent = false) ∨
      (v = .bool false ∧ (st.root = some x ∨ colOf st (st.h x).parent = true))) := by
  have hpar : EvalsTo cmpF f ρ st (.call1 .getParent (.var 0)) (st.h x).parent := by
    have := evalsTo_getParent (cmpF := cmpF) (f := f) (evalsTo_var (st := st) h0)
    simpa [fldOf, Rot.getP] using this
  rcases eval_and h with ⟨h1, rfl⟩ | ⟨st2, y, h1, h2, rfl⟩
  · simp [evalE, h0, valEq] at h1
    exact ⟨h1.2.symm, .inr ⟨rfl, .inl h1.1.symm⟩⟩
  · simp [evalE, h0, valEq] at h1
    have hr : st.root ≠ some x := fun e => h1.1 e.symm
    have : st2 = st := h1.2.symm
    subst this
    obtain ⟨e1, e2⟩ := eval_isRed hpar h2
    injection e2 with e2
    cases hc : colOf st2 (st2.h x).parent with
    | true => rw [hc] at e2; simp at e2; subst e2; exact ⟨e1, .inr ⟨rfl, .inr rfl⟩⟩
    | false => rw [hc] at e2; simp at e2; subst e2; exact ⟨e1, .inl ⟨rfl, hr, rfl⟩⟩

/-- the loop invariant -/
def Q : Env → St → Prop := fun ρ st => ∃ x t, ρ 0 = .ptr (some x) ∧ Cfg st t x

theorem ht_continue {callH : CallH PName} {P : Env → St → Prop} :
    HT cmpF callH lf P .continue_ (fun fl ρ st => fl = .cont ∧ P ρ st) := by
  intro ρ st fl ρ' st' hP h
  simp [exec] at h
  obtain ⟨rfl, rfl, rfl⟩ := h
  exact ⟨rfl, hP⟩

/-- a cursor that is not the root and has a red parent has a grandparent -/
theorem cfg_gp {st : St} {t : PT} {x p : Nat} (hC : Cfg st t x) (hroot : st.root ≠ some x)
    (hp : (st.h x).parent = some p) (hpr : (st.h p).color = false) : ∃ g, (st.h p).parent = some g := by
  have hR := hC.holds.1
  have hnd := hC.holds.2.1
  have hptr := repr_ptr hR
  have hb : blackAt st.h t := hC.rootB.resolve_right (fun e => hroot (hptr.trans e))
  obtain ⟨_, _, _, _, _, _, _, _, hdx⟩ := Rot.rot_setup hR hnd hC.mem
  rcases hdx with ⟨_, e⟩ | ⟨_, p', e, hpm, _, _⟩
  · rw [e] at hp; cases hp
  rw [e] at hp; cases hp
  obtain ⟨_, _, _, _, _, _, _, _, hdp⟩ := Rot.rot_setup hR hnd hpm
  rcases hdp with ⟨e1, _⟩ | ⟨_, g, e1, _⟩
  · have := blackAt_iff.1 hb p (hptr.symm.trans e1)
    rw [hpr] at this; cases this
  · exact ⟨g, e1⟩

theorem bodyA_spec {ρ0 : Env} {st : St} {t : PT} {x p g : Nat} (h0 : ρ0 0 = .ptr (some x)) (hC : Cfg st t x)
    (hp : (st.h x).parent = some p) (hpr : (st.h p).color = false) (hg : (st.h p).parent = some g) :
    HT cmpF (call cmpF procs f) lf (At ρ0 st) bodyA
      (fun fl ρ s => (fl = .normal ∨ fl = .cont) ∧ Q ρ s) := by
  obtain ⟨_, _, _, _, _, _, _, _, _, _, _, _, _, hps, _⟩ := shape hC.holds.1 hC.holds.2.1 hC.mem hp hg
  generalize hunc : (if (st.h g).left = some p then (st.h g).right else (st.h g).left) = unc
  have h10 : (ρ0.set 1 (.ptr unc)) 0 = .ptr (some x) := by simp [Env.set, h0]
  have h11 : (ρ0.set 1 (.ptr unc)) 1 = .ptr unc := by simp [Env.set]
  unfold bodyA
  refine HT.seq (M := At (ρ0.set 1 (.ptr unc)) st) ?_ ?_
  · refine HT.assign ?_
    rintro ρ s v s' ⟨rfl, rfl⟩ he
    obtain ⟨a, s1, h1, h2⟩ := eval_call1 he
    simp [evalE] at h1
    obtain ⟨ha, hs1⟩ := h1
    rw [← ha, ← hs1, h0] at h2
    obtain ⟨e1, e2⟩ := call_getUncle cmpF hp hg h2
    rw [hunc] at e2
    exact ⟨by rw [e2], e1⟩
  · refine HT.seqG (M := fun ρ s => At (ρ0.set 1 (.ptr unc)) st ρ s ∧ colOf st unc = true)
      (HT.ite' (Pt := fun ρ s => At (ρ0.set 1 (.ptr unc)) st ρ s ∧ colOf st unc = false)
        (Pe := fun ρ s => At (ρ0.set 1 (.ptr unc)) st ρ s ∧ colOf st unc = true) ?_ ?_
        (HT.skip.mono (fun _ _ h => h) (fun _ _ _ h => .inl h))) ?_
    · -- the guard `uncle.getColor() == Red`
      rintro ρ s v s' ⟨rfl, rfl⟩ he
      obtain ⟨e1, e2⟩ := eval_isRed (evalsTo_var (st := s) h11) he
      subst e1
      cases hc : colOf s' unc with
      | true => rw [hc] at e2; exact ⟨fun e => (by rw [e2] at e; cases e), fun _ => ⟨⟨rfl, rfl⟩, rfl⟩⟩
      | false => rw [hc] at e2; exact ⟨fun _ => ⟨⟨rfl, rfl⟩, rfl⟩, fun e => by rw [e2] at e; cases e⟩
    · -- `x = rb.fixUncleRed(x, uncle); continue`
      refine (HT.seq (M := Q) (HT.assign ?_) ht_continue).mono (fun _ _ h => h)
        (fun fl ρ s h => .inr ⟨by rw [h.1]; simp, .inr h.1, h.2⟩)
      rintro ρ s v s' ⟨⟨rfl, rfl⟩, hcu⟩ he
      obtain ⟨a, s1, b, s2, h1, h2, h3⟩ := eval_call2 he
      simp [evalE] at h1 h2
      obtain ⟨ha, hs1⟩ := h1
      obtain ⟨hb, hs2⟩ := h2
      subst hs1
      rw [← ha, ← hb, ← hs2, h10, h11] at h3
      cases unc with
      | none => simp [colOf] at hcu
      | some u =>
        obtain ⟨x', t', rfl, hC'⟩ := fixUncleRed_cfg cmpF hC hp hpr hg hunc hcu h3
        exact ⟨x', t', by simp [Env.set], hC'⟩
    · refine HT.seqG (M := fun ρ s => (At (ρ0.set 1 (.ptr unc)) st ρ s ∧ colOf st unc = true) ∧
          (st.h g).left ≠ some p)
        (HT.ite' (Pt := fun ρ s => (At (ρ0.set 1 (.ptr unc)) st ρ s ∧ colOf st unc = true) ∧
            (st.h g).left = some p)
          (Pe := fun ρ s => (At (ρ0.set 1 (.ptr unc)) st ρ s ∧ colOf st unc = true) ∧
            (st.h g).left ≠ some p) ?_ ?_
          (HT.skip.mono (fun _ _ h => h) (fun _ _ _ h => .inl h))) ?_
      · -- the guard `x.getParent() == x.getGrandParent().getLeft()`
        rintro ρ s v s' ⟨⟨rfl, rfl⟩, hcu⟩ he
        obtain ⟨a, s1, b, r, h1, h2, hv, hvr⟩ := eval_eq he
        obtain ⟨e1, e2⟩ := evalsTo_p0 (cmpF := cmpF) (f := f) h10 hp _ _ h1
        subst e1 e2
        obtain ⟨e3, e4⟩ := evalsTo_getLeft (evalsTo_gp0 (cmpF := cmpF) (f := f) h10 hp hg) _ _ h2
        subst e3 e4
        simp [valEq, fldOf, Rot.getP] at hv
        subst hvr
        constructor
        · intro e
          injection e with e
          rw [e] at hv
          exact ⟨⟨⟨rfl, rfl⟩, hcu⟩, (by simpa using hv : some p = (s'.h g).left).symm⟩
        · intro e
          injection e with e
          rw [e] at hv
          exact ⟨⟨⟨rfl, rfl⟩, hcu⟩, fun e' => (by simpa using hv : ¬ some p = (s'.h g).left) e'.symm⟩
      · -- `x = rb.fixAddLeftBlack(x); continue`
        refine (HT.seq (M := Q) (HT.assign ?_) ht_continue).mono (fun _ _ h => h)
          (fun fl ρ s h => .inr ⟨by rw [h.1]; simp, .inr h.1, h.2⟩)
        rintro ρ s v s' ⟨⟨⟨rfl, rfl⟩, hcu⟩, hgl⟩ he
        obtain ⟨a, s1, h1, h2⟩ := eval_call1 he
        simp [evalE] at h1
        obtain ⟨ha, hs1⟩ := h1
        rw [← ha, ← hs1, h10] at h2
        rw [← hunc, if_pos hgl] at hcu
        obtain ⟨x', t', rfl, hC'⟩ := fixAddLeftBlack_cfg cmpF hC hp hpr hg hgl hcu h2
        exact ⟨x', t', by simp [Env.set], hC'⟩
      · -- `x = rb.fixAddRightBlack(x)`
        refine (HT.assign (Q := Q) ?_).mono (fun _ _ h => h) (fun fl ρ s h => ⟨.inl h.1, h.2⟩)
        rintro ρ s v s' ⟨⟨⟨rfl, rfl⟩, hcu⟩, hgl⟩ he
        obtain ⟨a, s1, h1, h2⟩ := eval_call1 he
        simp [evalE] at h1
        obtain ⟨ha, hs1⟩ := h1
        rw [← ha, ← hs1, h10] at h2
        rw [← hunc, if_neg hgl] at hcu
        have hgr : (s.h g).right = some p := by
          rcases hps with ⟨e, _⟩ | ⟨_, e⟩
          · exact absurd e hgl
          · exact e
        obtain ⟨x', t', rfl, hC'⟩ := fixAddRightBlack_cfg cmpF hC hp hpr hg hgr hcu h2
        exact ⟨x', t', by simp [Env.set], hC'⟩

theorem loopA_spec : ∀ n ρ st fl ρ' st', Q ρ st →
    iterate (fun ρ st => evalE cmpF (call cmpF procs f) ρ st condA)
      (fun ρ st => exec cmpF (call cmpF procs f) lf ρ st bodyA) n ρ st = .ok (fl, ρ', st') →
    fl = .normal ∧ ∃ x t, ρ' 0 = .ptr (some x) ∧ Cfg st' t x ∧
      (st'.root = some x ∨ colOf st' (st'.h x).parent = true) := by
  intro n
  induction n with
  | zero => intro ρ st fl ρ' st' _ h; simp [iterate] at h
  | succ n ih =>
    intro ρ st fl ρ' st' hQ h
    obtain ⟨x, t, h0, hC⟩ := hQ
    simp only [iterate] at h
    cases h1 : evalE cmpF (call cmpF procs f) ρ st condA with
    | error e => simp [h1] at h
    | ok r1 =>
      obtain ⟨v, st1⟩ := r1
      rw [h1] at h
      obtain ⟨rfl, hv⟩ := condA_spec h0 h1
      rcases hv with ⟨rfl, hroot, hcp⟩ | ⟨rfl, hex⟩
      · simp only at h
        cases hpar : (st1.h x).parent with
        | none => rw [hpar] at hcp; simp [colOf] at hcp
        | some p =>
          rw [hpar] at hcp
          have hpr : (st1.h p).color = false := hcp
          obtain ⟨g, hg⟩ := cfg_gp hC hroot hpar hpr
          cases h2 : exec cmpF (call cmpF procs f) lf ρ st1 bodyA with
          | error e => simp [h2] at h
          | ok r2 =>
            obtain ⟨fl2, ρ2, st2⟩ := r2
            rw [h2] at h
            obtain ⟨hfl, hQ2⟩ := bodyA_spec h0 hC hpar hpr hg _ _ _ _ _ ⟨rfl, rfl⟩ h2
            rcases hfl with rfl | rfl
            · exact ih _ _ _ _ _ hQ2 h
            · exact ih _ _ _ _ _ hQ2 h
      · simp at h
        obtain ⟨rfl, rfl, rfl⟩ := h
        exact ⟨rfl, x, t, h0, hC, hex⟩

theorem body_fixAfterAdd_spec {x : Nat} {st : St} {t : PT} (hC : Cfg st t x) :
    HT cmpF (call cmpF procs f) f (At (Env.ofArgs [.ptr (some x)]) st) body_fixAfterAdd
      (fun _ _ s => ∃ t', Holds s t' ∧ RB s t') := by
  rw [body_fixAfterAdd_eq]
  refine HT.seq (M := Q) ?_ (HT.seq (M := fun ρ s => ∃ x t, ρ 0 = .ptr (some x) ∧ Cfg s t x ∧
    (s.root = some x ∨ colOf s (s.h x).parent = true)) ?_ ?_)
  · rintro ρ s fl ρ' s' ⟨rfl, rfl⟩ h
    simp [exec, evalE, Env.ofArgs, Node.set] at h
    obtain ⟨rfl, rfl, rfl⟩ := h
    refine ⟨rfl, x, t, by simp [Env.ofArgs], ?_⟩
    have e : ({ s with h := upd s.h x { s.h x with color := false } } : St) = setCol s (some x) false := rfl
    rw [e]
    refine hC.congr (setCol_ptrSame _ _ _) (fun a => ?_)
    rw [setCol_color]
    split
    · next e => rw [e, hC.red]
    · rfl
  · intro ρ s fl ρ' s' hQ h
    simp only [exec] at h
    exact loopA_spec _ _ _ _ _ _ hQ h
  · refine (HT.expr (Q := fun _ s => ∃ t', Holds s t' ∧ RB s t') ?_).mono (fun _ _ h => h) (fun _ _ _ h => h.2)
    rintro ρ s v s' ⟨x', t', _, hC', hex⟩ he
    obtain ⟨a, s1, b, s2, h1, h2, h3⟩ := eval_call2 he
    simp [evalE] at h1 h2
    obtain ⟨ha, hs1⟩ := h1
    obtain ⟨hb, hs2⟩ := h2
    subst hs1 hs2
    rw [← ha, ← hb] at h3
    rw [call_setColor cmpF h3]
    exact ⟨t', finish hC' hex⟩

end loop

theorem call_fixAfterAdd (cmpF : Int → Int → Int) : ∀ f x st st' v t, Cfg st t x →
    call cmpF procs f .fixAfterAdd [.ptr (some x)] st = .ok (v, st') → ∃ t', Holds st' t' ∧ RB st' t' := by
  intro f x st st' v t hC h
  cases f with
  | zero => simp [call] at h
  | succ f =>
    have h' : runBody cmpF (call cmpF procs f) f ⟨1, body_fixAfterAdd⟩ [.ptr (some x)] st = .ok (v, st') := h
    simp only [runBody] at h'
    cases he : exec cmpF (call cmpF procs f) f (Env.ofArgs [.ptr (some x)]) st body_fixAfterAdd with
    | error e => simp [he] at h'
    | ok r =>
      obtain ⟨fl, ρ', st1⟩ := r
      have hpost := body_fixAfterAdd_spec hC _ _ _ _ _ ⟨rfl, rfl⟩ he
      rw [he] at h'
      cases fl with
      | normal => simp at h'; rw [← h'.2]; exact hpost
      | ret w => simp at h'; rw [← h'.2]; exact hpost
      | cont => simp at h'
      | brk => simp at h'

/-! ### (7) `addNode` up to the call of `fixAfterAdd` -/

/-! ### colour congruences -/

theorem blackAt_congr {h h' : Nat → Node} {t : PT} (hc : ∀ a ∈ t.addrs, (h' a).color = (h a).color)
    (hb : blackAt h t) : blackAt h' t := by
  cases t with
  | leaf => trivial
  | node l a r =>
    simp only [blackAt] at hb ⊢
    rw [hc a (by simp [PT.addrs])]; exact hb

theorem blackOr_congr {h h' : Nat → Node} {x : Nat} {t : PT} (hc : ∀ a ∈ t.addrs, (h' a).color = (h a).color)
    (hb : blackOr h x t) : blackOr h' x t := by
  intro c hcp
  rcases hb c hcp with e | e
  · left; rw [hc c (ptr_mem_addrs hcp)]; exact e
  · right; exact e

theorem nrr_congr {h h' : Nat → Node} {t : PT} (hc : ∀ a ∈ t.addrs, (h' a).color = (h a).color)
    (hN : NoRedRed h t) : NoRedRed h' t := by
  induction t with
  | leaf => trivial
  | node l a r ihl ihr =>
    simp only [NoRedRed] at hN ⊢
    have hl : ∀ b ∈ l.addrs, b ∈ (PT.node l a r).addrs := fun b hb => by simp [PT.addrs, hb]
    have hr : ∀ b ∈ r.addrs, b ∈ (PT.node l a r).addrs := fun b hb => by simp [PT.addrs, hb]
    refine ⟨fun hred => ?_, ihl (fun b hb => hc b (hl b hb)) hN.2.1, ihr (fun b hb => hc b (hr b hb)) hN.2.2⟩
    rw [hc a (by simp [PT.addrs])] at hred
    exact ⟨blackAt_congr (fun b hb => hc b (hl b hb)) (hN.1 hred).1,
      blackAt_congr (fun b hb => hc b (hr b hb)) (hN.1 hred).2⟩

theorem rb_congr {st st' : St} {t : PT} (hc : ∀ a ∈ t.addrs, (st'.h a).color = (st.h a).color)
    (hRB : RB st t) : RB st' t := by
  obtain ⟨h1, h2, n, h3⟩ := hRB
  exact ⟨blackAt_congr hc h1, nrr_congr hc h2, n, bh_congr hc h3⟩

/-- allocation of a fresh cell preserves the colouring -/
theorem rb_alloc {st : St} {t : PT} (hH : Holds st t) (hRB : RB st t) (nd : Node) (sz : Int) :
    RB ⟨upd st.h st.alloc nd, st.alloc + 1, st.root, sz⟩ t := by
  refine rb_congr (fun a ha => ?_) hRB
  have hne : a ≠ st.alloc := Nat.ne_of_lt (hH.2.2 a ha)
  simp [upd, hne]

/-! ### heap level: linking a fresh red leaf, with the tree explicit -/

theorem link_left_x {h : Nat → Node} {root : Option Nat} {A : Nat} {t : PT} {p : Nat}
    (hR : Repr h root none t) (hnd : t.addrs.Nodup) (hb : ∀ a ∈ t.addrs, a < A)
    (hp : p ∈ t.addrs) (hl : (h p).left = none) (h' : Nat → Node)
    (hf' : (h' A).left = none ∧ (h' A).right = none ∧ (h' A).parent = some p)
    (hp' : (h' p).left = some A ∧ (h' p).right = (h p).right ∧ (h' p).parent = (h p).parent)
    (hoth : ∀ b, b ≠ p → b ≠ A → h' b = h b) :
    ∃ R, t.sub p = some (.node .leaf p R) ∧
      (Repr h' root none (t.replace p (.node (.node .leaf A .leaf) p R)) ∧
        (t.replace p (.node (.node .leaf A .leaf) p R)).addrs.Nodup ∧
        ∀ a ∈ (t.replace p (.node (.node .leaf A .leaf) p R)).addrs, a < A + 1) := by
  have hfA : A ∉ t.addrs := fun hm => Nat.lt_irrefl _ (hb A hm)
  obtain ⟨s, hs⟩ := sub_some_of_mem hp
  obtain ⟨⟨L, R, rfl⟩, hsub⟩ := sub_spec hs
  have hRs := repr_sub hR hs
  simp only [Repr] at hRs
  obtain ⟨_, hpar, hL, hRr⟩ := hRs
  rw [hl] at hL
  have hLl : L = .leaf := by
    cases L with
    | leaf => rfl
    | node _ _ _ => simp [Repr] at hL
  subst hLl
  have hsnd := AddN.nodup_sub hnd hs
  simp only [PT.addrs, List.nil_append, List.nodup_cons] at hsnd hsub
  have hAR : A ∉ R.addrs := fun hm => hfA (hsub A (List.mem_cons_of_mem _ hm))
  have hpA : p ≠ A := fun e => hfA (e ▸ hp)
  have hs'R : Repr h' (some p) (t.parOf none p) (.node (.node .leaf A .leaf) p R) := by
    simp only [Repr]
    refine ⟨trivial, by rw [hp'.2.2]; exact hpar, ⟨hp'.1, hf'.2.2, hf'.1, hf'.2.1⟩, ?_⟩
    rw [hp'.2.1]
    refine repr_congr (fun a ha => ?_) hRr
    have h1 : a ≠ p := fun e => hsnd.1 (e ▸ ha)
    have h2 : a ≠ A := fun e => hAR (e ▸ ha)
    rw [hoth a h1 h2]; exact ⟨rfl, rfl, rfl⟩
  have hrep := repr_replace (s' := .node (.node .leaf A .leaf) p R) hR hnd hs hs'R (by
    intro b hbt hbs
    simp only [PT.addrs, List.nil_append, List.mem_cons, not_or] at hbs
    have h2 : b ≠ A := fun e => hfA (e ▸ hbt)
    rw [Redirected, hoth b hbs.1 h2]
    refine ⟨rfl, ?_, ?_⟩ <;> split <;> simp_all [PT.ptr])
  have hmem : ∀ x, x ∈ (t.replace p (.node (.node .leaf A .leaf) p R)).addrs ↔ x ∈ t.addrs ∨ x = A := by
    intro x
    rw [mem_replace hnd hs]
    simp only [PT.addrs, List.nil_append, List.mem_cons, List.mem_append, List.not_mem_nil, false_or, or_false]
    constructor
    · rintro (⟨h1, _⟩ | h1 | h1 | h1)
      · exact .inl h1
      · exact .inr h1
      · exact .inl (h1 ▸ hp)
      · exact .inl (hsub x (List.mem_cons_of_mem _ h1))
    · rintro (h1 | h1)
      · by_cases hx : x = p ∨ x ∈ R.addrs
        · exact .inr (.inr hx)
        · exact .inl ⟨h1, hx⟩
      · exact .inr (.inl h1)
  refine ⟨R, hs, ?_, ?_, ?_⟩
  · simp only [PT.ptr] at hrep
    split at hrep
    · rename_i e; rw [e]; exact hrep
    · exact hrep
  · refine nodup_replace hnd hs ?_ ?_
    · simp only [PT.addrs, List.nil_append, List.nodup_cons, List.mem_cons, not_or, List.append_nil,
        List.nodup_nil, and_true, List.singleton_append]
      exact ⟨⟨fun e => hpA e.symm, hAR⟩, hsnd⟩
    · intro x hx
      simp only [PT.addrs, List.nil_append, List.mem_cons, List.mem_append, List.not_mem_nil, false_or,
        or_false] at hx ⊢
      rcases hx with hx | hx
      · exact .inr (hx ▸ hfA)
      · exact .inl hx
  · intro a ha
    rcases (hmem a).1 ha with h1 | h1
    · exact Nat.lt_succ_of_lt (hb a h1)
    · omega

theorem link_right_x {h : Nat → Node} {root : Option Nat} {A : Nat} {t : PT} {p : Nat}
    (hR : Repr h root none t) (hnd : t.addrs.Nodup) (hb : ∀ a ∈ t.addrs, a < A)
    (hp : p ∈ t.addrs) (hl : (h p).right = none) (h' : Nat → Node)
    (hf' : (h' A).left = none ∧ (h' A).right = none ∧ (h' A).parent = some p)
    (hp' : (h' p).right = some A ∧ (h' p).left = (h p).left ∧ (h' p).parent = (h p).parent)
    (hoth : ∀ b, b ≠ p → b ≠ A → h' b = h b) :
    ∃ L, t.sub p = some (.node L p .leaf) ∧
      (Repr h' root none (t.replace p (.node L p (.node .leaf A .leaf))) ∧
        (t.replace p (.node L p (.node .leaf A .leaf))).addrs.Nodup ∧
        ∀ a ∈ (t.replace p (.node L p (.node .leaf A .leaf))).addrs, a < A + 1) := by
  have hfA : A ∉ t.addrs := fun hm => Nat.lt_irrefl _ (hb A hm)
  obtain ⟨s, hs⟩ := sub_some_of_mem hp
  obtain ⟨⟨L, R, rfl⟩, hsub⟩ := sub_spec hs
  have hRs := repr_sub hR hs
  simp only [Repr] at hRs
  obtain ⟨_, hpar, hL, hRr⟩ := hRs
  rw [hl] at hRr
  have hRl : R = .leaf := by
    cases R with
    | leaf => rfl
    | node _ _ _ => simp [Repr] at hRr
  subst hRl
  have hsnd := AddN.nodup_sub hnd hs
  simp only [PT.addrs] at hsnd hsub
  rw [List.nodup_append] at hsnd
  have hpL : p ∉ L.addrs := fun hm => hsnd.2.2 p hm p (by simp) rfl
  have hAL : A ∉ L.addrs := fun hm => hfA (hsub A (by simp [hm]))
  have hpA : p ≠ A := fun e => hfA (e ▸ hp)
  have hs'R : Repr h' (some p) (t.parOf none p) (.node L p (.node .leaf A .leaf)) := by
    simp only [Repr]
    refine ⟨trivial, by rw [hp'.2.2]; exact hpar, ?_, ⟨hp'.1, hf'.2.2, hf'.1, hf'.2.1⟩⟩
    rw [hp'.2.1]
    refine repr_congr (fun a ha => ?_) hL
    have h1 : a ≠ p := fun e => hpL (e ▸ ha)
    have h2 : a ≠ A := fun e => hAL (e ▸ ha)
    rw [hoth a h1 h2]; exact ⟨rfl, rfl, rfl⟩
  have hrep := repr_replace (s' := .node L p (.node .leaf A .leaf)) hR hnd hs hs'R (by
    intro b hbt hbs
    simp only [PT.addrs, List.mem_append, List.mem_cons, List.not_mem_nil, or_false, not_or] at hbs
    have h2 : b ≠ A := fun e => hfA (e ▸ hbt)
    rw [Redirected, hoth b hbs.2 h2]
    refine ⟨rfl, ?_, ?_⟩ <;> split <;> simp_all [PT.ptr])
  have hmem : ∀ x, x ∈ (t.replace p (.node L p (.node .leaf A .leaf))).addrs ↔ x ∈ t.addrs ∨ x = A := by
    intro x
    rw [mem_replace hnd hs]
    simp only [PT.addrs, List.nil_append, List.mem_cons, List.mem_append, List.not_mem_nil, false_or, or_false]
    constructor
    · rintro (⟨h1, _⟩ | h1 | h1 | h1)
      · exact .inl h1
      · exact .inl (hsub x (by simp [h1]))
      · exact .inl (h1 ▸ hp)
      · exact .inr h1
    · rintro (h1 | h1)
      · by_cases hx : x ∈ L.addrs ∨ x = p
        · rcases hx with hx | hx
          · exact .inr (.inl hx)
          · exact .inr (.inr (.inl hx))
        · exact .inl ⟨h1, hx⟩
      · exact .inr (.inr (.inr h1))
  refine ⟨L, hs, ?_, ?_, ?_⟩
  · simp only [PT.ptr] at hrep
    split at hrep
    · rename_i e; rw [e]; exact hrep
    · exact hrep
  · refine nodup_replace hnd hs ?_ ?_
    · simp only [PT.addrs, List.nil_append]
      rw [List.nodup_append]
      refine ⟨hsnd.1, ?_, ?_⟩
      · simp [hpA]
      · intro x hx y hy hxy
        subst hxy
        simp only [List.mem_cons, List.not_mem_nil, or_false] at hy
        rcases hy with hy | hy
        · exact hpL (hy ▸ hx)
        · exact hAL (hy ▸ hx)
    · intro x hx
      simp only [PT.addrs, List.nil_append, List.mem_cons, List.mem_append, List.not_mem_nil, false_or,
        or_false] at hx ⊢
      rcases hx with hx | hx | hx
      · exact .inl (.inl hx)
      · exact .inl (.inr hx)
      · exact .inr (hx ▸ hfA)
  · intro a ha
    rcases (hmem a).1 ha with h1 | h1
    · exact Nat.lt_succ_of_lt (hb a h1)
    · omega

/-- the colour part of linking a fresh red node `A` somewhere below `p` (the top of the replaced subtree keeps
    its address and every old node keeps its colour) -/
theorem cfg_link {st st' : St} {t : PT} {p A : Nat} {s s' : PT}
    (hH : Holds st t) (hRB : RB st t) (hs : t.sub p = some s) (hA : A ∉ t.addrs)
    (hH' : Holds st' (t.replace p s'))
    (hcol : ∀ a ∈ t.addrs, (st'.h a).color = (st.h a).color)
    (hcA : (st'.h A).color = false)
    (hAm : A ∈ s'.addrs)
    (hptr : s'.ptr = some p)
    (hbh : ∀ m, BH st.h s m → BH st'.h s' m)
    (hnr : NRRB st.h A s → NRRB st'.h A s') : Cfg st' (t.replace p s') A := by
  have hnd := hH.2.1
  obtain ⟨hB, hN, n, hn⟩ := hRB
  obtain ⟨m, hm⟩ := bh_sub hnd hs hn
  have hpm : p ∈ t.addrs := mem_of_sub hs
  have hsp : s.ptr = some p := by
    obtain ⟨⟨l, r, rfl⟩, _⟩ := sub_spec hs
    rfl
  have hout : ∀ a ∈ t.addrs, a ∉ s.addrs → (st'.h a).color = (st.h a).color := fun a ha _ => hcol a ha
  refine ⟨hH', (mem_replace hnd hs A).2 (.inr hAm), hcA, ⟨n, bh_replace hnd hs hout hm (hbh m hm) hn⟩, ?_, .inl ?_⟩
  · refine nrrb_replace (x := A) (y := A) (par := none) hnd hs (fun a ha _ (e : a = A) => hA (e ▸ ha)) hout ?_
      (hnr (nrrb_sub hnd hs (nrrb_of_nrr hN))) (nrrb_of_nrr hN)
    intro q _ _ hbo c hc
    rw [hptr] at hc
    cases hc
    rcases hbo p hsp with e | e
    · left; rw [hcol p hpm]; exact e
    · exact absurd (e ▸ hpm) hA
  · refine blackAt_iff.2 (fun c hc => ?_)
    rw [ptr_replace hs] at hc
    have hc' : t.ptr = some c := by
      split at hc
      · rename_i e; rw [hptr] at hc; rw [← hc]; exact e
      · exact hc
    rw [hcol c (ptr_mem_addrs hc')]
    exact blackAt_iff.1 hB c hc'

theorem link_left_cfg {st : St} {t : PT} {p : Nat} (hH : Holds st t) (hRB : RB st t)
    (hp : p ∈ t.addrs) (hl : (st.h p).left = none) (h' : Nat → Node) (sz : Int)
    (hf' : (h' st.alloc).left = none ∧ (h' st.alloc).right = none ∧ (h' st.alloc).parent = some p)
    (hp' : (h' p).left = some st.alloc ∧ (h' p).right = (st.h p).right ∧ (h' p).parent = (st.h p).parent)
    (hoth : ∀ b, b ≠ p → b ≠ st.alloc → h' b = st.h b)
    (hcA : (h' st.alloc).color = false) (hcp : (h' p).color = (st.h p).color) :
    ∃ t', Cfg ⟨h', st.alloc + 1, st.root, sz⟩ t' st.alloc := by
  have hfA : st.alloc ∉ t.addrs := fun hm => Nat.lt_irrefl _ (hH.2.2 _ hm)
  obtain ⟨R, hs, hH'⟩ := link_left_x hH.1 hH.2.1 hH.2.2 hp hl h' hf' hp' hoth
  have hcol : ∀ a ∈ t.addrs, (h' a).color = (st.h a).color := by
    intro a ha
    by_cases hap : a = p
    · rw [hap]; exact hcp
    · rw [hoth a hap (fun e => hfA (e ▸ ha))]
  have hsub := (sub_spec hs).2
  have hcR : ∀ a ∈ R.addrs, (h' a).color = (st.h a).color :=
    fun a ha => hcol a (hsub a (by simp [PT.addrs, ha]))
  refine ⟨_, cfg_link (st' := ⟨h', st.alloc + 1, st.root, sz⟩) hH hRB hs hfA hH' hcol hcA
    (by simp [PT.addrs]) rfl ?_ ?_⟩
  · intro m hm
    simp only [BH] at hm ⊢
    obtain ⟨k, h1, h2, h3⟩ := hm
    subst h1
    refine ⟨0, ⟨0, rfl, rfl, by simp [hcA]⟩, bh_congr hcR h2, ?_⟩
    rw [hcp]; exact h3
  · intro hN
    simp only [NRRB] at hN ⊢
    refine ⟨fun hred => ⟨?_, ?_⟩, ⟨fun _ => ⟨?_, ?_⟩, trivial, trivial⟩, nrrb_congr hcR (fun _ _ e => e) hN.2.2⟩
    · intro c hc; right; simpa [PT.ptr] using hc.symm
    · rw [hcp] at hred
      exact blackOr_congr hcR (hN.1 hred).2
    · intro c hc; simp [PT.ptr] at hc
    · intro c hc; simp [PT.ptr] at hc

theorem link_right_cfg {st : St} {t : PT} {p : Nat} (hH : Holds st t) (hRB : RB st t)
    (hp : p ∈ t.addrs) (hl : (st.h p).right = none) (h' : Nat → Node) (sz : Int)
    (hf' : (h' st.alloc).left = none ∧ (h' st.alloc).right = none ∧ (h' st.alloc).parent = some p)
    (hp' : (h' p).right = some st.alloc ∧ (h' p).left = (st.h p).left ∧ (h' p).parent = (st.h p).parent)
    (hoth : ∀ b, b ≠ p → b ≠ st.alloc → h' b = st.h b)
    (hcA : (h' st.alloc).color = false) (hcp : (h' p).color = (st.h p).color) :
    ∃ t', Cfg ⟨h', st.alloc + 1, st.root, sz⟩ t' st.alloc := by
  have hfA : st.alloc ∉ t.addrs := fun hm => Nat.lt_irrefl _ (hH.2.2 _ hm)
  obtain ⟨L, hs, hH'⟩ := link_right_x hH.1 hH.2.1 hH.2.2 hp hl h' hf' hp' hoth
  have hcol : ∀ a ∈ t.addrs, (h' a).color = (st.h a).color := by
    intro a ha
    by_cases hap : a = p
    · rw [hap]; exact hcp
    · rw [hoth a hap (fun e => hfA (e ▸ ha))]
  have hsub := (sub_spec hs).2
  have hcL : ∀ a ∈ L.addrs, (h' a).color = (st.h a).color :=
    fun a ha => hcol a (hsub a (by simp [PT.addrs, ha]))
  refine ⟨_, cfg_link (st' := ⟨h', st.alloc + 1, st.root, sz⟩) hH hRB hs hfA hH' hcol hcA
    (by simp [PT.addrs]) rfl ?_ ?_⟩
  · intro m hm
    simp only [BH] at hm ⊢
    obtain ⟨k, h1, h2, h3⟩ := hm
    subst h2
    refine ⟨0, bh_congr hcL h1, ⟨0, rfl, rfl, by simp [hcA]⟩, ?_⟩
    rw [hcp]; exact h3
  · intro hN
    simp only [NRRB] at hN ⊢
    refine ⟨fun hred => ⟨?_, ?_⟩, nrrb_congr hcL (fun _ _ e => e) hN.2.1, ⟨fun _ => ⟨?_, ?_⟩, trivial, trivial⟩⟩
    · rw [hcp] at hred
      exact blackOr_congr hcL (hN.1 hred).1
    · intro c hc; right; simpa [PT.ptr] using hc.symm
    · intro c hc; simp [PT.ptr] at hc
    · intro c hc; simp [PT.ptr] at hc

/-! ### exec level -/

section
variable (cmpF : Int → Int → Int) (callH : CallH PName) (lf : Nat)

/-- what holds after `midS`: either the fix-up configuration at the new node (in variable 1), or an early return
    with a coloured tree -/
def MidPost (fl : Flow) (ρ' : Env) (s' : St) : Prop :=
  (fl = .normal ∧ ∃ t' x, ρ' 1 = .ptr (some x) ∧ Cfg s' t' x) ∨
  (fl ≠ .normal ∧ ∃ t', Holds s' t' ∧ RB s' t')

theorem after_cfg (ρ : Env) (st : St) (t : PT) (m : Nat) (hH : Holds st t) (hRB : RB st t)
    (h0 : ρ 0 = .ptr (some m))
    (hg : AddN.Good t ρ st) (fl : Flow) (ρ' : Env) (st' : St)
    (h : exec cmpF callH lf ρ st AddN.afterL = .ok (fl, ρ', st')) :
    fl = .normal ∧ ∃ t' x, ρ' 1 = .ptr (some x) ∧ Cfg st' t' x := by
  obtain ⟨p, c, h4, h3, hp, hl, hr⟩ := hg
  simp only [AddN.afterL, exec, evalE, AddN.set_apply, h0, h4, h3, Node.get] at h
  simp [h0, h4, h3] at h
  have hpA : p ≠ st.alloc := Nat.ne_of_lt (hH.2.2 p hp)
  by_cases h1 : c < 0
  · simp [h1, Node.set] at h
    obtain ⟨hfl, rfl, rfl⟩ := h
    refine ⟨hfl.symm, ?_⟩
    suffices hS : ∃ t', Cfg _ t' st.alloc by
      obtain ⟨t', hC⟩ := hS
      exact ⟨t', st.alloc, by simp [AddN.set_apply], hC⟩
    exact link_left_cfg hH hRB hp (hl h1) _ _ (by simp [upd, hpA.symm])
      (by simp [upd, hpA]) (fun b hb1 hb2 => by simp [upd, hb1, hb2]) (by simp [upd, hpA.symm])
      (by simp [upd, hpA])
  · simp [h1, Node.set] at h
    obtain ⟨hfl, rfl, rfl⟩ := h
    refine ⟨hfl.symm, ?_⟩
    suffices hS : ∃ t', Cfg _ t' st.alloc by
      obtain ⟨t', hC⟩ := hS
      exact ⟨t', st.alloc, by simp [AddN.set_apply], hC⟩
    exact link_right_cfg hH hRB hp (hr h1) _ _ (by simp [upd, hpA.symm])
      (by simp [upd, hpA]) (fun b hb1 hb2 => by simp [upd, hb1, hb2]) (by simp [upd, hpA.symm])
      (by simp [upd, hpA])

theorem else_cfg (ρ : Env) (st : St) (t : PT) (m : Nat) (hH : Holds st t) (hRB : RB st t)
    (hroot : st.root ≠ none)
    (h0 : ρ 0 = .ptr (some m)) (fl : Flow) (ρ' : Env) (st' : St)
    (h : exec cmpF callH lf ρ st AddN.elseB = .ok (fl, ρ', st')) :
    MidPost fl ρ' st' := by
  simp only [AddN.elseB, exec, evalE] at h
  have hH1 : Holds ⟨upd st.h st.alloc {}, st.alloc + 1, st.root, st.size⟩ t := AddN.holds_alloc hH {} st.size
  have hRB1 : RB ⟨upd st.h st.alloc {}, st.alloc + 1, st.root, st.size⟩ t := rb_alloc hH hRB {} st.size
  have hq : ∀ a, st.root = some a → a ∈ t.addrs := by
    intro a ha
    have := repr_ptr hH.1
    rw [ha] at this
    cases t with
    | leaf => simp [PT.ptr] at this
    | node l b r => simp [PT.ptr] at this; subst this; simp [PT.addrs]
  have hinv := AddN.loop_inv cmpF callH lf _ t hH1 m lf
    (((ρ.set 2 (.ptr st.root)).set 3 (.int 0)).set 4 (.ptr (some st.alloc))) st.root
    (by simp [AddN.set_apply, h0]) (by simp [AddN.set_apply]) hq
    (fun hn => absurd hn hroot)
  split at h
  · rename_i ρ1 st1 heq
    obtain ⟨rfl, hg⟩ := hinv _ _ _ heq
    obtain ⟨hgood, h0'⟩ := hg rfl
    exact .inl (after_cfg cmpF callH lf _ _ t m hH1 hRB1 h0' hgood _ _ _ h)
  · rename_i r hne heq
    cases h
    obtain ⟨rfl, _⟩ := hinv _ _ _ heq
    refine .inr ⟨fun hf => ?_, t, hH1, hRB1⟩
    subst hf
    exact hne _ _ rfl
  · cases h

theorem call_newRBNode_x {f : Nat} {k w : Int} {st st' : St} {v : Val}
    (h : call cmpF procs f .newRBNode [.int k, .int w] st = .ok (v, st')) :
    v = .ptr (some st.alloc) ∧
      st' = ⟨upd st.h st.alloc ⟨false, k, w, none, none, none⟩, st.alloc + 1, st.root, st.size⟩ := by
  cases f with
  | zero => simp [call] at h
  | succ f =>
    simp [call, runBody, procs, body_newRBNode, exec, evalE, Env.ofArgs] at h
    obtain ⟨rfl, rfl⟩ := h
    exact ⟨rfl, rfl⟩

theorem then_cfg (f : Nat) (ρ : Env) (st : St) (t : PT) (m : Nat) (hH : Holds st t) (hroot : st.root = none)
    (h0 : ρ 0 = .ptr (some m)) (fl : Flow) (ρ' : Env) (st' : St)
    (h : exec cmpF (call cmpF procs f) lf ρ st AddN.thenB = .ok (fl, ρ', st')) :
    MidPost fl ρ' st' := by
  simp only [AddN.thenB, exec, evalE, h0, Node.get] at h
  cases hc : call cmpF procs f PName.newRBNode [Val.int (st.h m).key, Val.int (st.h m).value] st with
  | error e => rw [hc] at h; simp at h
  | ok r =>
    obtain ⟨v, s1⟩ := r
    rw [hc] at h
    obtain ⟨rfl, rfl⟩ := call_newRBNode_x cmpF hc
    simp at h
    obtain ⟨hfl, rfl, rfl⟩ := h
    have ht : t = .leaf := AddN.holds_root_none hH hroot
    subst ht
    refine .inl ⟨hfl.symm, .node .leaf st.alloc .leaf, st.alloc, by simp [AddN.set_apply], ?_⟩
    refine ⟨⟨?_, ?_, ?_⟩, by simp [PT.addrs], by simp [upd], ⟨0, ?_⟩, ?_, .inr rfl⟩
    · simp [Repr, upd]
    · simp [PT.addrs]
    · simp [PT.addrs]
    · simp [BH, upd]
    · simp [NRRB, blackOr, PT.ptr]

theorem tail_cfg (f : Nat)
    (hFix : ∀ f x st st' v t, Cfg st t x →
      call cmpF procs f .fixAfterAdd [.ptr (some x)] st = .ok (v, st') → ∃ t', Holds st' t' ∧ RB st' t')
    (ρ : Env) (st : St) (t : PT) (x : Nat) (hC : Cfg st t x) (hp : ρ 1 = .ptr (some x))
    (fl : Flow) (ρ' : Env) (st' : St)
    (h : exec cmpF (call cmpF procs f) lf ρ st AddN.tailS = .ok (fl, ρ', st')) :
    ∃ t', Holds st' t' ∧ RB st' t' := by
  simp only [AddN.tailS, exec, evalE] at h
  cases hc : call cmpF procs f PName.fixAfterAdd [ρ 1] { st with size := st.size + 1 } with
  | error e => rw [hc] at h; simp at h
  | ok r =>
    obtain ⟨v, s1⟩ := r
    rw [hc] at h
    simp at h
    obtain ⟨_, _, rfl⟩ := h
    have hC' : Cfg { st with size := st.size + 1 } t x := ⟨hC.holds, hC.mem, hC.red, hC.bh, hC.nrr, hC.rootB⟩
    rw [hp] at hc
    exact hFix f x _ _ _ t hC' hc
end

theorem addNode_rb_of_fix (cmpF : Int → Int → Int)
    (hFix : ∀ f x st st' v t, Cfg st t x →
      call cmpF procs f .fixAfterAdd [.ptr (some x)] st = .ok (v, st') → ∃ t', Holds st' t' ∧ RB st' t') :
    ∀ fuel n st v st' t, Holds st t → RB st t →
      call cmpF procs fuel .addNode [.ptr (some n)] st = .ok (v, st') →
      ∃ t', Holds st' t' ∧ RB st' t' := by
  intro fuel n st v st' t hH hRB h
  cases fuel with
  | zero => simp [call] at h
  | succ f =>
    have h' : runBody cmpF (call cmpF procs f) f (procs .addNode) [.ptr (some n)] st = .ok (v, st') := h
    clear h
    simp only [runBody, procs, AddN.body_addNode_eq, exec, evalE] at h'
    have h0 : ((Env.ofArgs [Val.ptr (some n)]).set 1 (Val.ptr none)) 0 = .ptr (some n) := by
      simp [AddN.set_apply, Env.ofArgs]
    have hmid : ∀ fl ρ' s', exec cmpF (call cmpF procs f) f
          ((Env.ofArgs [Val.ptr (some n)]).set 1 (Val.ptr none)) st AddN.midS = .ok (fl, ρ', s') →
        MidPost fl ρ' s' := by
      intro fl ρ' s' hEq
      simp only [AddN.midS, exec, evalE] at hEq
      cases hr : st.root with
      | none =>
        simp [valEq, hr] at hEq
        exact then_cfg cmpF f f _ st t n hH hr h0 _ _ _ hEq
      | some a =>
        simp [valEq, hr] at hEq
        exact else_cfg cmpF _ f _ st t n hH hRB (by simp [hr]) h0 _ _ _ hEq
    generalize exec cmpF (call cmpF procs f) f ((Env.ofArgs [Val.ptr (some n)]).set 1 (Val.ptr none)) st AddN.midS
      = E at h' hmid
    match E, hmid with
    | .error e, _ => simp at h'
    | .ok (fl, ρ1, s1), hmid =>
      rcases hmid _ _ _ rfl with ⟨rfl, t1, x, hx, hC⟩ | ⟨hne, t1, hH1, hRB1⟩
      · simp only at h'
        cases hx2 : exec cmpF (call cmpF procs f) f ρ1 s1 AddN.tailS with
        | error e => rw [hx2] at h'; simp at h'
        | ok r =>
          obtain ⟨fl2, ρ2, s2⟩ := r
          obtain ⟨t2, hH2, hRB2⟩ := tail_cfg cmpF f f hFix ρ1 s1 t1 x hC hx _ _ _ hx2
          rw [hx2] at h'
          cases fl2 <;> simp at h'
          · obtain ⟨_, rfl⟩ := h'; exact ⟨t2, hH2, hRB2⟩
          · obtain ⟨_, rfl⟩ := h'; exact ⟨t2, hH2, hRB2⟩
      · cases fl with
        | normal => exact absurd rfl hne
        | cont => simp at h'
        | brk => simp at h'
        | ret w =>
          simp at h'
          obtain ⟨_, rfl⟩ := h'
          exact ⟨t1, hH1, hRB1⟩

/-! ### (8) the theorem -/

theorem addNode_rb (cmpF : Int → Int → Int) :
    ∀ fuel n st v st' t, Holds st t → RB st t →
      call cmpF procs fuel .addNode [.ptr (some n)] st = .ok (v, st') →
      ∃ t', Holds st' t' ∧ RB st' t' :=
  addNode_rb_of_fix cmpF (call_fixAfterAdd cmpF)


end Ekit.MiniGo.RBHeap.InsRB
