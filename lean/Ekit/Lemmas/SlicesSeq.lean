/- Helper lemmas for C16: index / find / map / reverse loops equal the obvious List definitions. Core Lean only. -/
import Ekit.Model.Slices
import Ekit.Spec.Slices

namespace Ekit.Slices
open Ekit.Go
variable {α : Type}

theorem idx?_of_lt {l : List α} {i : Nat} (h : i < l.length) : idx? l i = .ok l[i] := by
  simp [idx?, List.getElem?_eq_getElem h]

theorem set?_of_lt {l : List α} {i : Nat} (v : α) (h : i < l.length) : set? l i v = .ok (l.set i v) := by
  simp [set?, h]

/-! ### IndexFunc -/

theorem indexFunc_go (p : α → Bool) (k : Nat) (src : List α) :
    indexFunc.go p k src = match src.findIdx? p with
      | some i => ((k + i : Nat) : Int)
      | none => -1 := by
  induction src generalizing k with
  | nil => simp [indexFunc.go]
  | cons v r ih =>
    unfold indexFunc.go
    rw [List.findIdx?_cons]
    by_cases h : p v = true
    · simp [h]
    · simp only [h, if_false, Bool.false_eq_true]
      rw [ih]
      cases hf : List.findIdx? p r with
      | none => simp
      | some i =>
        simp only [Option.map_some]
        have : k + 1 + i = k + (i + 1) := by omega
        rw [this]

theorem indexFunc_eq (src : List α) (p : α → Bool) : indexFunc src p = Spec.index src p := by
  unfold indexFunc Spec.index
  rw [indexFunc_go]
  cases List.findIdx? p src <;> simp

/-! ### LastIndexFunc -/

theorem lastIndexFunc_go (src : List α) (p : α → Bool) (i : Nat) (hi : i ≤ src.length) :
    lastIndexFunc.go src p i = .ok (match (src.take i).reverse.findIdx? p with
      | some j => (i : Int) - 1 - (j : Int)
      | none => -1) := by
  induction i with
  | zero => simp [lastIndexFunc.go]
  | succ i ih =>
    have hlt : i < src.length := by omega
    unfold lastIndexFunc.go
    rw [idx?_of_lt hlt]
    simp only []
    rw [List.take_succ_eq_append_getElem hlt, List.reverse_append]
    simp only [List.reverse_cons, List.reverse_nil, List.nil_append, List.singleton_append,
      List.findIdx?_cons]
    by_cases h : p src[i] = true
    · simp [h]
    · simp only [h, if_false, Bool.false_eq_true]
      rw [ih (by omega)]
      cases hf : List.findIdx? p (List.take i src).reverse with
      | none => simp
      | some j => simp; omega

theorem lastIndexFunc_eq (src : List α) (p : α → Bool) :
    lastIndexFunc src p = .ok (Spec.lastIndex src p) := by
  unfold lastIndexFunc Spec.lastIndex
  rw [lastIndexFunc_go src p src.length (Nat.le_refl _), List.take_length]
  rfl

/-! ### IndexAllFunc -/

theorem indexAllFunc_go (p : α → Bool) (k : Nat) (src : List α) (acc : List Int) :
    indexAllFunc.go p k src acc =
      acc ++ ((src.zipIdx k).filter (fun x => p x.1)).map (fun x => (x.2 : Int)) := by
  induction src generalizing k acc with
  | nil => simp [indexAllFunc.go]
  | cons v r ih =>
    unfold indexAllFunc.go
    rw [List.zipIdx_cons]
    by_cases h : p v = true
    · simp [h, ih]
    · simp [h, ih]

theorem indexAllFunc_eq (src : List α) (p : α → Bool) : indexAllFunc src p = Spec.indexAll src p := by
  unfold indexAllFunc Spec.indexAll
  rw [indexAllFunc_go]; simp

/-! ### Find / FindAll -/

theorem find_eq (src : List α) (p : α → Bool) : find src p = src.find? p := by
  induction src with
  | nil => rfl
  | cons v r ih =>
    unfold find
    by_cases h : p v = true
    · simp [h]
    · simp [h, ih]

theorem findAll_go (p : α → Bool) (src acc : List α) : findAll.go p src acc = acc ++ src.filter p := by
  induction src generalizing acc with
  | nil => simp [findAll.go]
  | cons v r ih =>
    unfold findAll.go
    by_cases h : p v = true
    · simp [h, ih]
    · simp [h, ih]

theorem findAll_eq (src : List α) (p : α → Bool) : findAll src p = some (src.filter p) := by
  simp [findAll, findAll_go]

/-! ### FilterMap / Map -/

theorem filterMap_go {β} (m : Nat → α → β × Bool) (i : Nat) (src : List α) (acc : List β) :
    filterMap.go m i src acc =
      acc ++ (src.zipIdx i).filterMap (fun x => if (m x.2 x.1).2 then some (m x.2 x.1).1 else none) := by
  induction src generalizing i acc with
  | nil => simp [filterMap.go]
  | cons v r ih =>
    unfold filterMap.go
    rw [List.zipIdx_cons, List.filterMap_cons]
    cases hm : m i v with
    | mk d ok =>
      cases ok with
      | true => simp [ih]
      | false => simp [ih]

theorem filterMap_eq {β} (src : List α) (m : Nat → α → β × Bool) :
    filterMap src m = Spec.filterMap src m := by
  unfold filterMap Spec.filterMap
  rw [filterMap_go]; simp

theorem take_succ_set {β} (l : List β) (i : Nat) (v : β) (h : i < l.length) :
    (l.set i v).take (i + 1) = l.take i ++ [v] := by
  apply List.ext_getElem?
  intro j
  rw [List.getElem?_take, List.getElem?_set, List.getElem?_append, List.getElem?_take]
  simp only [List.length_take]
  have hmin : Nat.min i l.length = i := Nat.min_eq_left (Nat.le_of_lt h)
  by_cases h1 : j < i
  · have : ¬ i = j := by omega
    have h2 : j < i + 1 := by omega
    have h3 : j < min i l.length := by omega
    simp [h1, this, h2, h3]
  · by_cases h2 : j = i
    · subst h2
      have h3 : ¬ j < min j l.length := by omega
      have h4 : j - min j l.length = 0 := by omega
      simp [h, h3, h4]
    · have h3 : ¬ j < i + 1 := by omega
      have h4 : ¬ j < min i l.length := by omega
      have h5 : j - min i l.length = (j - i - 1) + 1 := by omega
      simp [h3, h4, h5]

theorem drop_succ_set {β} (l : List β) (i : Nat) (v : β) :
    (l.set i v).drop (i + 1) = l.drop (i + 1) := by
  apply List.ext_getElem?
  intro j
  rw [List.getElem?_drop, List.getElem?_drop, List.getElem?_set]
  have : ¬ i = i + 1 + j := by omega
  simp [this]

theorem mapFn_go {β} (m : Nat → α → β) (i : Nat) (src : List α) (dst : List β)
    (hlen : dst.length = i + src.length) :
    mapFn.go m i src dst = .ok (dst.take i ++ (src.zipIdx i).map (fun x => m x.2 x.1)) := by
  induction src generalizing i dst with
  | nil => simp [mapFn.go]; simp at hlen; rw [← hlen, List.take_length]
  | cons v r ih =>
    unfold mapFn.go
    have hi : i < dst.length := by simp at hlen; omega
    rw [set?_of_lt _ hi]
    simp only []
    rw [ih (i + 1) (dst.set i (m i v)) (by simp at hlen ⊢; omega), take_succ_set _ _ _ hi, List.zipIdx_cons]
    simp

theorem mapFn_eq {β} [Inhabited β] (src : List α) (m : Nat → α → β) :
    mapFn src m = .ok (Spec.map src m) := by
  unfold mapFn Spec.map
  rw [mapFn_go m 0 src _ (by simp)]
  simp

/-! ### Reverse -/

theorem reverse_go (src : List α) (i : Nat) (acc : List α) (hi : i ≤ src.length) :
    reverse.go src i acc = .ok (acc ++ (src.take i).reverse) := by
  induction i generalizing acc with
  | zero => simp [reverse.go]
  | succ i ih =>
    have hlt : i < src.length := by omega
    unfold reverse.go
    rw [idx?_of_lt hlt]
    simp only []
    rw [ih _ (by omega), List.take_succ_eq_append_getElem hlt, List.reverse_append]
    simp

theorem reverse_eq (src : List α) : reverse src = .ok src.reverse := by
  unfold reverse
  rw [reverse_go src src.length [] (Nat.le_refl _), List.take_length]
  simp

end Ekit.Slices
