/-
Second layer of invariants of the linked blocking queue model: what the lock and the `cond`
generations guarantee.

* capacity: with `maxSize > 0` the list never holds more than `maxSize` elements;
* facts a thread knows while it holds the lock (`lockFact`): the loop guard it evaluated still holds,
  the generation it fetched in `signalCh` is the current one (**fetch before unlock**);
* facts about parked waiters (`parkFact`): a waiter's generation is never newer than the current
  one, and if it *is* the current one, its wait condition still holds or the thread that falsified
  it is about to swap the channel (**no lost wake-up**, with `closerEx`: every older generation is
  closed or has a pending `close`);
* every channel is closed at most once (`closerOk`, `closerInj`): `close` never panics;
* FIFO / exactly-once accounting, no non-context error, no panic, per-call write footprint.
-/
import Ekit.Lemmas.LinkedBQInv
namespace Ekit.LinkedBQ
open Ekit.Conc Ekit.BQ

/-- `p` is inside `broadcast` on cond `w` after the swap, still owing `close(g)` -/
def isCloser (p : Pc) (w : Which) (g : Nat) : Bool :=
  match p with
  | .bcUnlock w' g' _ => decide (w' = w) && decide (g' = g)
  | .bcClose w' g' _ => decide (w' = w) && decide (g' = g)
  | _ => false

/-- `p` is about to swap the channel of cond `w` (it holds the lock) -/
def isSwap (p : Pc) (w : Which) : Bool :=
  match p with
  | .bcSwap w' _ => decide (w' = w)
  | _ => false

def resOf : Pc → Option Ret
  | .bcSwap _ r | .bcUnlock _ _ r | .bcClose _ _ r | .runlock r | .ret r => some r
  | _ => none

def wrOfRet : Ret → Nat
  | .ok | .val _ => 1
  | _ => 0
def wrOf : Pc → Nat
  | .bcSwap _ r | .bcUnlock _ _ r | .bcClose _ _ r | .runlock r | .ret r => wrOfRet r
  | _ => 0

/-- what a thread knows while it holds the lock -/
def lockFact (s : State) : Pc → Prop
  | .eAppend _ => full s = false
  | .eSigRead _ => full s = true
  | .eSigUnlock _ g => g = s.notFull.cur ∧ full s = true
  | .dDelete => s.q ≠ []
  | .dSigRead => s.q = []
  | .dSigUnlock g => g = s.notEmpty.cur ∧ s.q = []
  | _ => True

/-- what holds for a parked waiter -/
def parkFact (s : State) : Pc → Prop
  | .eSelect _ g => g ≤ s.notFull.cur ∧ (g = s.notFull.cur → full s = true ∨ ∃ u, isSwap (s.pc u) .notFull = true)
  | .dSelect g => g ≤ s.notEmpty.cur ∧ (g = s.notEmpty.cur → s.q = [] ∨ ∃ u, isSwap (s.pc u) .notEmpty = true)
  | _ => True

structure Inv2 (s : State) : Prop where
  cap_le : 0 < s.maxSize → (s.q.length : Int) ≤ s.maxSize
  lockF : ∀ t, lockFact s (s.pc t)
  parkF : ∀ t, parkFact s (s.pc t)
  fifo : s.enqd = s.deqd ++ s.q
  noErr : ∀ t, resOf (s.pc t) ≠ some .err
  noPanic : s.panicked = false
  closedLt : ∀ w g, g ∈ (getCond s w).closed → g < (getCond s w).cur
  closerOk : ∀ t w g, isCloser (s.pc t) w g = true → g < (getCond s w).cur ∧ g ∉ (getCond s w).closed
  closerInj : ∀ t u w g, isCloser (s.pc t) w g = true → isCloser (s.pc u) w g = true → t = u
  closerEx : ∀ w g, g < (getCond s w).cur → g ∈ (getCond s w).closed ∨ ∃ t, isCloser (s.pc t) w g = true
  wr : ∀ t, s.pc t ≠ .idle → s.writes t = wrOf (s.pc t)

theorem full_congr {s s' : State} (hq : s'.q = s.q) (hm : s'.maxSize = s.maxSize) : full s' = full s := by
  simp [full, hq, hm]

theorem lockFact_congr {s s' : State} (hq : s'.q = s.q) (hm : s'.maxSize = s.maxSize)
    (hne : s'.notEmpty.cur = s.notEmpty.cur) (hnf : s'.notFull.cur = s.notFull.cur) (p : Pc) :
    lockFact s' p ↔ lockFact s p := by
  cases p <;> simp [lockFact, full_congr hq hm, hq, hne, hnf]

/-- lock facts only concern program counters inside the write lock -/
theorem lockFact_of_not_inW (s : State) {p : Pc} (h : inW p = false) : lockFact s p := by
  cases p <;> simp [lockFact] <;> simp [inW] at h

theorem swapping_congr {s s' : State} (t : Nat) (hpc : ∀ u, u ≠ t → s'.pc u = s.pc u)
    (w : Which) (hsw : isSwap (s'.pc t) w = isSwap (s.pc t) w) :
    (∃ u, isSwap (s'.pc u) w = true) ↔ (∃ u, isSwap (s.pc u) w = true) := by
  constructor
  · rintro ⟨u, hu⟩
    by_cases hut : u = t
    · subst hut; exact ⟨u, by rw [← hsw]; exact hu⟩
    · exact ⟨u, by rw [← hpc u hut]; exact hu⟩
  · rintro ⟨u, hu⟩
    by_cases hut : u = t
    · subst hut; exact ⟨u, by rw [hsw]; exact hu⟩
    · exact ⟨u, by rw [hpc u hut]; exact hu⟩

theorem parkFact_congr {s s' : State} (t : Nat) (hpc : ∀ u, u ≠ t → s'.pc u = s.pc u)
    (hsw : ∀ w, isSwap (s'.pc t) w = isSwap (s.pc t) w)
    (hq : s'.q = s.q) (hm : s'.maxSize = s.maxSize)
    (hne : s'.notEmpty.cur = s.notEmpty.cur) (hnf : s'.notFull.cur = s.notFull.cur) (p : Pc) :
    parkFact s' p ↔ parkFact s p := by
  cases p <;> simp only [parkFact, full_congr hq hm, hq, hne, hnf, swapping_congr t hpc _ (hsw _)]

theorem getCond_congr {s s' : State} (hne : s'.notEmpty = s.notEmpty) (hnf : s'.notFull = s.notFull) (w : Which) :
    getCond s' w = getCond s w := by cases w <;> simp [getCond, hne, hnf]

/-- a step of `t` that leaves the list and both conds alone, and neither starts nor ends inside
    `broadcast`'s swap/close obligations -/
theorem inv2_frame {s s' : State} (h2 : Inv2 s) (t : Nat)
    (hpc : ∀ u, u ≠ t → s'.pc u = s.pc u)
    (hq : s'.q = s.q) (hne : s'.notEmpty = s.notEmpty) (hnf : s'.notFull = s.notFull)
    (hm : s'.maxSize = s.maxSize) (he : s'.enqd = s.enqd) (hd : s'.deqd = s.deqd)
    (hpan : s'.panicked = s.panicked) (hwr : ∀ u, u ≠ t → s'.writes u = s.writes u)
    (hcl : ∀ w g, isCloser (s'.pc t) w g = isCloser (s.pc t) w g)
    (hsw : ∀ w, isSwap (s'.pc t) w = isSwap (s.pc t) w)
    (hL : lockFact s (s'.pc t)) (hP : parkFact s (s'.pc t))
    (hE : resOf (s'.pc t) ≠ some .err)
    (hW : s'.pc t ≠ .idle → s'.writes t = wrOf (s'.pc t)) : Inv2 s' := by
  have hgc := getCond_congr hne hnf
  have hclu : ∀ u w g, isCloser (s'.pc u) w g = isCloser (s.pc u) w g := by
    intro u w g
    by_cases hut : u = t
    · subst hut; exact hcl w g
    · rw [hpc u hut]
  refine ⟨by rw [hm, hq]; exact h2.cap_le, ?_, ?_, by rw [he, hd, hq]; exact h2.fifo, ?_,
    by rw [hpan]; exact h2.noPanic, ?_, ?_, ?_, ?_, ?_⟩
  · intro u
    rw [lockFact_congr hq hm (by rw [hne]) (by rw [hnf])]
    by_cases hut : u = t
    · subst hut; exact hL
    · rw [hpc u hut]; exact h2.lockF u
  · intro u
    rw [parkFact_congr t hpc hsw hq hm (by rw [hne]) (by rw [hnf])]
    by_cases hut : u = t
    · subst hut; exact hP
    · rw [hpc u hut]; exact h2.parkF u
  · intro u
    by_cases hut : u = t
    · subst hut; exact hE
    · rw [hpc u hut]; exact h2.noErr u
  · intro w g; rw [hgc]; exact h2.closedLt w g
  · intro u w g; rw [hgc, hclu]; exact h2.closerOk u w g
  · intro u u' w g; rw [hclu, hclu]; exact h2.closerInj u u' w g
  · intro w g hg
    rw [hgc] at hg ⊢
    cases h2.closerEx w g hg with
    | inl h => exact Or.inl h
    | inr h => obtain ⟨u, hu⟩ := h; exact Or.inr ⟨u, by rw [hclu]; exact hu⟩
  · intro u hu
    by_cases hut : u = t
    · subst hut; exact hW hu
    · rw [hpc u hut] at hu ⊢; rw [hwr u hut]; exact h2.wr u hu

theorem others_not_inW {m : Int} {s : State} (h : Inv m s) {t : Nat} (hw : inW (s.pc t) = true)
    (u : Nat) (hut : u ≠ t) : inW (s.pc u) = false := by
  cases hb : inW (s.pc u)
  · rfl
  · have h1 := h.mutexW u hb; have h2 := h.mutexW t hw
    rw [h2] at h1; injection h1 with h1; exact absurd h1.symm hut

theorem isSwap_inW {p : Pc} {w : Which} (h : isSwap p w = true) : inW p = true := by
  cases p <;> simp [isSwap] at h <;> simp [inW]

theorem no_swapper {m : Int} {s : State} (h : Inv m s) {t : Nat} (hw : inW (s.pc t) = true)
    (w : Which) (hns : isSwap (s.pc t) w = false) : ¬ ∃ u, isSwap (s.pc u) w = true := by
  rintro ⟨u, hu⟩
  by_cases hut : u = t
  · subst hut; rw [hns] at hu; exact absurd hu (by simp)
  · have := others_not_inW h hw u hut
    rw [isSwap_inW hu] at this; exact absurd this (by simp)

/-- the four facts about pending `close`s are untouched by a step that leaves the conds alone and
    neither creates nor discharges a close obligation -/
theorem closers_frame {s s' : State} (h2 : Inv2 s) (t : Nat)
    (hpc : ∀ u, u ≠ t → s'.pc u = s.pc u) (hgc : ∀ w, getCond s' w = getCond s w)
    (hcl : ∀ w g, isCloser (s'.pc t) w g = isCloser (s.pc t) w g) :
    (∀ w g, g ∈ (getCond s' w).closed → g < (getCond s' w).cur) ∧
    (∀ t w g, isCloser (s'.pc t) w g = true → g < (getCond s' w).cur ∧ g ∉ (getCond s' w).closed) ∧
    (∀ t u w g, isCloser (s'.pc t) w g = true → isCloser (s'.pc u) w g = true → t = u) ∧
    (∀ w g, g < (getCond s' w).cur → g ∈ (getCond s' w).closed ∨ ∃ t, isCloser (s'.pc t) w g = true) := by
  have hclu : ∀ u w g, isCloser (s'.pc u) w g = isCloser (s.pc u) w g := by
    intro u w g
    by_cases hut : u = t
    · subst hut; exact hcl w g
    · rw [hpc u hut]
  refine ⟨?_, ?_, ?_, ?_⟩
  · intro w g; rw [hgc]; exact h2.closedLt w g
  · intro u w g; rw [hgc, hclu]; exact h2.closerOk u w g
  · intro u u' w g; rw [hclu, hclu]; exact h2.closerInj u u' w g
  · intro w g hg
    rw [hgc] at hg ⊢
    cases h2.closerEx w g hg with
    | inl h => exact Or.inl h
    | inr h => obtain ⟨u, hu⟩ := h; exact Or.inr ⟨u, by rw [hclu]; exact hu⟩

theorem full_false_lt {s : State} (hf : full s = false) (hc : 0 < s.maxSize → (s.q.length : Int) ≤ s.maxSize)
    (hm : 0 < s.maxSize) : (s.q.length : Int) < s.maxSize := by
  have := hc hm
  simp [full, hm] at hf
  omega

end Ekit.LinkedBQ
