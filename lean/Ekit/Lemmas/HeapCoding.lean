/-
Element codings: the bridge between the heap model of C05, whose elements are `Int` (the Go code is
generic in `T`; the model instantiates `T = int`), and the models that wrap the heap with a richer
element type (C06: `(priority, id)`, C08: `(id, deadline)`).

A `Coding α` is an injective representation of `α` in `Int` with a decoder.  The wrapped models
store `enc x` in the heap and compare codes through the user comparator on the decoded values —
exactly what Go's generic instantiation does up to the (unobservable) representation of `T`.
The theorems of `Props/C06Heap.lean` and `Props/C08Heap.lean` are for EVERY coding; this file shows
that codings exist (`Coding.intPair`, `Coding.natPair`: computable, so the non-vacuity examples run).
Core Lean only.
-/
namespace Ekit.Heap

structure Coding (α : Type) where
  enc : α → Int
  dec : Int → α
  dec_enc : ∀ a, dec (enc a) = a

theorem Coding.enc_injective {α : Type} (C : Coding α) {a b : α} (h : C.enc a = C.enc b) : a = b := by
  rw [← C.dec_enc a, ← C.dec_enc b, h]

/-! ### a concrete pairing `Nat × Nat → Nat`: `(a, b) ↦ 2^a · (2b+1)` -/

def pairNat (a b : Nat) : Nat := 2 ^ a * (2 * b + 1)

/-- strip factors of two: `unpairAux fuel n k` = `(k + number of trailing zero bits of n, rest)` -/
def unpairAux : Nat → Nat → Nat → Nat × Nat
  | 0, n, k => (k, n / 2)
  | fuel + 1, n, k => if n % 2 = 1 then (k, n / 2) else unpairAux fuel (n / 2) (k + 1)

def unpairNat (n : Nat) : Nat × Nat := unpairAux n n 0

theorem unpairAux_pair (a b : Nat) : ∀ (fuel k : Nat), a < fuel →
    unpairAux fuel (pairNat a b) k = (k + a, b) := by
  induction a with
  | zero =>
    intro fuel k hf
    cases fuel with
    | zero => omega
    | succ f =>
      have h1 : pairNat 0 b % 2 = 1 := by simp only [pairNat, Nat.pow_zero, Nat.one_mul]; omega
      have h2 : pairNat 0 b / 2 = b := by simp only [pairNat, Nat.pow_zero, Nat.one_mul]; omega
      simp [unpairAux, h1, h2]
  | succ a ih =>
    intro fuel k hf
    cases fuel with
    | zero => omega
    | succ f =>
      have e : pairNat (a + 1) b = 2 * pairNat a b := by
        simp only [pairNat, Nat.pow_succ]
        rw [Nat.mul_comm (2 ^ a) 2, Nat.mul_assoc]
      have h1 : ¬ (pairNat (a + 1) b % 2 = 1) := by rw [e]; omega
      have h2 : pairNat (a + 1) b / 2 = pairNat a b := by rw [e]; omega
      simp only [unpairAux, h1, if_false, h2]
      rw [ih f (k + 1) (by omega)]
      congr 1
      omega

theorem unpair_pair (a b : Nat) : unpairNat (pairNat a b) = (a, b) := by
  have hlt : a < pairNat a b := by
    have h1 : a < 2 ^ a := Nat.lt_two_pow_self
    have h2 : 2 ^ a * 1 ≤ 2 ^ a * (2 * b + 1) := Nat.mul_le_mul_left _ (by omega)
    simp only [pairNat]
    omega
  simp only [unpairNat]
  rw [unpairAux_pair a b _ 0 hlt]
  simp

/-! ### `Int ↔ Nat` (zig-zag) -/

def zig (i : Int) : Nat := if 0 ≤ i then (2 * i).toNat else (-2 * i - 1).toNat
def zag (n : Nat) : Int := if n % 2 = 0 then ((n / 2 : Nat) : Int) else - (((n + 1) / 2 : Nat) : Int)

theorem zag_zig (i : Int) : zag (zig i) = i := by
  unfold zag zig
  split <;> split <;> omega

/-! ### the codings -/

def Coding.natPair : Coding (Nat × Nat) where
  enc p := (pairNat p.1 p.2 : Nat)
  dec i := unpairNat i.toNat
  dec_enc p := by simp [unpair_pair]

def Coding.intPair : Coding (Int × Int) where
  enc p := (pairNat (zig p.1) (zig p.2) : Nat)
  dec i := (zag (unpairNat i.toNat).1, zag (unpairNat i.toNat).2)
  dec_enc p := by simp [unpair_pair, zag_zig]

/-- a coding of `β` from a coding of `α` and an embedding–projection pair -/
def Coding.comap {α β : Type} (C : Coding α) (to : β → α) (from_ : α → β) (h : ∀ b, from_ (to b) = b) :
    Coding β where
  enc b := C.enc (to b)
  dec i := from_ (C.dec i)
  dec_enc b := by rw [C.dec_enc, h]

example : Coding.intPair.dec (Coding.intPair.enc (-3, 7)) = (-3, 7) := by decide
example : Coding.intPair.enc (0, 0) = 1 ∧ Coding.intPair.enc (1, -1) = 12 := by decide

end Ekit.Heap
