/-
Tree-level facts for C01: every rotation / recolouring / fix-up keeps the in-order traversal, and
`ins` / `del` / `set` / `findEntry` act on the traversal like the sorted-list operations.
-/
import Ekit.Lemmas.RBSorted

namespace Ekit.RB
namespace Tree
variable {α β : Type} {cmp : α → α → Int}

@[simp] theorem toList_nil : (nil : Tree α β).toList = [] := rfl
@[simp] theorem toList_node (c : Color) (l : Tree α β) (k : α) (v : β) (r : Tree α β) :
    (node c l k v r).toList = l.toList ++ (k, v) :: r.toList := rfl

@[simp] theorem setBlack_nil : (nil : Tree α β).setBlack = nil := rfl
@[simp] theorem setBlack_node (c : Color) (l : Tree α β) (k : α) (v : β) (r : Tree α β) :
    (node c l k v r).setBlack = node .black l k v r := rfl
@[simp] theorem setRed_nil : (nil : Tree α β).setRed = nil := rfl
@[simp] theorem setRed_node (c : Color) (l : Tree α β) (k : α) (v : β) (r : Tree α β) :
    (node c l k v r).setRed = node .red l k v r := rfl

@[simp] theorem toList_setBlack (t : Tree α β) : t.setBlack.toList = t.toList := by
  cases t <;> rfl
@[simp] theorem toList_setRed (t : Tree α β) : t.setRed.toList = t.toList := by
  cases t <;> rfl

@[simp] theorem toList_rotL (t : Tree α β) : t.rotL.toList = t.toList := by
  cases t with
  | nil => rfl
  | node c a k v r =>
    cases r with
    | nil => rfl
    | node c' b k' v' d => simp [rotL]

@[simp] theorem toList_rotR (t : Tree α β) : t.rotR.toList = t.toList := by
  cases t with
  | nil => rfl
  | node c l k v d =>
    cases l with
    | nil => rfl
    | node c' a k' v' b => simp [rotR]

@[simp] theorem toList_fixInsL (c : Color) (l : Tree α β) (k : α) (v : β) (r : Tree α β) :
    (fixInsL c l k v r).toList = l.toList ++ (k, v) :: r.toList := by
  unfold fixInsL
  split
  · split
    · simp
    · split <;> simp
  · simp

@[simp] theorem toList_fixInsR (c : Color) (l : Tree α β) (k : α) (v : β) (r : Tree α β) :
    (fixInsR c l k v r).toList = l.toList ++ (k, v) :: r.toList := by
  unfold fixInsR
  split
  · split
    · simp
    · split <;> simp
  · simp

@[simp] theorem toList_fixDelLB (c : Color) (l : Tree α β) (k : α) (v : β) (r : Tree α β) :
    (fixDelLB c l k v r).1.toList = l.toList ++ (k, v) :: r.toList := by
  unfold fixDelLB
  split
  · split <;> simp
  · cases r with
    | nil => simp [rotR]
    | node rc rl rk rv rr =>
      split
      · -- far nephew black: rotate the sibling first
        cases rl with
        | nil => simp [rotR]
        | node rlc rll rlk rlv rlr => simp [rotR]
      · simp

@[simp] theorem toList_fixDelL (c : Color) (l : Tree α β) (k : α) (v : β) (r : Tree α β) :
    (fixDelL c l k v r).1.toList = l.toList ++ (k, v) :: r.toList := by
  unfold fixDelL
  split <;> simp

@[simp] theorem toList_fixDelRB (c : Color) (l : Tree α β) (k : α) (v : β) (r : Tree α β) :
    (fixDelRB c l k v r).1.toList = l.toList ++ (k, v) :: r.toList := by
  unfold fixDelRB
  split
  · split <;> simp
  · cases l with
    | nil => simp [rotL]
    | node lc ll lk lv lr =>
      split
      · cases lr with
        | nil => simp [rotL]
        | node lrc lrl lrk lrv lrr => simp [rotL]
      · simp

@[simp] theorem toList_fixDelR (c : Color) (l : Tree α β) (k : α) (v : β) (r : Tree α β) :
    (fixDelR c l k v r).1.toList = l.toList ++ (k, v) :: r.toList := by
  unfold fixDelR
  split <;> simp

@[simp] theorem toList_balL (c : Color) (res : Tree α β × Bool) (k : α) (v : β) (r : Tree α β) :
    (balL c res k v r).1.toList = res.1.toList ++ (k, v) :: r.toList := by
  unfold balL
  split <;> simp

@[simp] theorem toList_balR (c : Color) (l : Tree α β) (k : α) (v : β) (res : Tree α β × Bool) :
    (balR c l k v res).1.toList = l.toList ++ (k, v) :: res.1.toList := by
  unfold balR
  split <;> simp

theorem toList_spliceOut_left (c : Color) (r : Tree α β) : (spliceOut c nil r).1.toList = r.toList := by
  unfold spliceOut
  cases r with
  | nil => simp
  | node rc rl rk rv rr =>
    simp only
    split <;> (try split) <;> simp

theorem toList_spliceOut_right (c : Color) (l : Tree α β) : (spliceOut c l nil).1.toList = l.toList := by
  unfold spliceOut
  cases l with
  | nil => simp
  | node lc ll lk lv lr =>
    simp only
    split <;> (try split) <;> simp

/-- `delMin` removes exactly the first entry of the traversal -/
theorem toList_delMin (c : Color) (l : Tree α β) (k : α) (v : β) (r : Tree α β) :
    (delMin c l k v r).1 :: (delMin c l k v r).2.1.toList = l.toList ++ (k, v) :: r.toList := by
  induction l generalizing c k v r with
  | nil => simp [delMin, toList_spliceOut_left]
  | node lc ll lk lv lr ih _ =>
    simp only [delMin, toList_balL, toList_node]
    have := ih lc lk lv lr
    simp only [List.append_assoc, List.cons_append] at this ⊢
    rw [← List.cons_append, this]
    simp

/-! #### the descent -/

theorem findEntry_eq_lookup (hc : LawfulCmp cmp) (k : α) (t : Tree α β) (ho : SMap.Sorted cmp t.toList) :
    findEntry cmp k t = SMap.lookup cmp k t.toList := by
  induction t with
  | nil => rfl
  | node c l k' v' r ihl ihr =>
    simp only [toList_node] at ho ⊢
    obtain ⟨hl, hr, _⟩ := SMap.sorted_mid.1 ho
    simp only [findEntry]
    by_cases h1 : cmp k k' < 0
    · simp only [h1, if_true]
      rw [SMap.lookup_mid_lt hc ho h1, ihl hl]
    · by_cases h2 : cmp k k' > 0
      · simp only [h1, h2, if_true, if_false]
        rw [SMap.lookup_mid_gt hc ho h2, ihr hr]
      · simp only [h1, h2, if_false]
        rw [SMap.lookup_mid_eq hc ho (p := (k', v')) (by simp only; omega)]

/-- `ins` fails exactly on a present key and otherwise performs the sorted-list insertion -/
theorem ins_toList (hc : LawfulCmp cmp) (k : α) (v : β) (t : Tree α β) (ho : SMap.Sorted cmp t.toList) :
    match ins cmp k v t with
    | none => (SMap.lookup cmp k t.toList).isSome
    | some t' => SMap.lookup cmp k t.toList = none ∧ t'.toList = SMap.insert cmp k v t.toList := by
  induction t with
  | nil => simp [ins, SMap.insert, SMap.lookup]
  | node c l k' v' r ihl ihr =>
    simp only [toList_node] at ho ⊢
    obtain ⟨hl, hr, _⟩ := SMap.sorted_mid.1 ho
    simp only [ins]
    by_cases h1 : cmp k k' < 0
    · simp only [h1, if_true]
      rw [SMap.lookup_mid_lt hc ho h1]
      have := ihl hl
      cases hi : ins cmp k v l with
      | none => simpa [hi] using this
      | some l' =>
        simp only [hi] at this ⊢
        refine ⟨this.1, ?_⟩
        rw [toList_fixInsL, this.2, SMap.insert_append_lt (p := (k', v')) h1]
    · by_cases h2 : cmp k k' > 0
      · simp only [h1, h2, if_true, if_false]
        rw [SMap.lookup_mid_gt hc ho h2]
        have := ihr hr
        cases hi : ins cmp k v r with
        | none => simpa [hi] using this
        | some r' =>
          simp only [hi] at this ⊢
          refine ⟨this.1, ?_⟩
          rw [toList_fixInsR, this.2, SMap.insert_mid_gt hc ho h2]
      · simp only [h1, h2, if_false]
        rw [SMap.lookup_mid_eq hc ho (p := (k', v')) (by simp only; omega)]
        simp

theorem set_toList (hc : LawfulCmp cmp) (k : α) (v : β) (t : Tree α β) (ho : SMap.Sorted cmp t.toList) :
    match set cmp k v t with
    | none => SMap.lookup cmp k t.toList = none
    | some t' => (SMap.lookup cmp k t.toList).isSome ∧ t'.toList = SMap.update cmp k v t.toList := by
  induction t with
  | nil => simp [set, SMap.lookup]
  | node c l k' v' r ihl ihr =>
    simp only [toList_node] at ho ⊢
    obtain ⟨hl, hr, _⟩ := SMap.sorted_mid.1 ho
    simp only [set]
    by_cases h1 : cmp k k' < 0
    · simp only [h1, if_true]
      rw [SMap.lookup_mid_lt hc ho h1]
      have := ihl hl
      cases hi : set cmp k v l with
      | none => simpa [hi] using this
      | some l' =>
        simp only [hi] at this ⊢
        refine ⟨this.1, ?_⟩
        rw [toList_node, this.2, SMap.update_mid_lt hc ho h1]
    · by_cases h2 : cmp k k' > 0
      · simp only [h1, h2, if_true, if_false]
        rw [SMap.lookup_mid_gt hc ho h2]
        have := ihr hr
        cases hi : set cmp k v r with
        | none => simpa [hi] using this
        | some r' =>
          simp only [hi] at this ⊢
          refine ⟨this.1, ?_⟩
          rw [toList_node, this.2, SMap.update_mid_gt hc ho h2]
      · simp only [h1, h2, if_false]
        have he : cmp k k' = 0 := by omega
        rw [SMap.lookup_mid_eq hc ho (p := (k', v')) he]
        simp [SMap.update_mid_eq hc ho (p := (k', v')) he]

/-- `del` fails exactly on an absent key; otherwise it returns the value of the entry equal to `k`
    and the traversal loses exactly that entry -/
theorem del_toList (hc : LawfulCmp cmp) (k : α) (t : Tree α β) (ho : SMap.Sorted cmp t.toList) :
    match del cmp k t with
    | none => SMap.lookup cmp k t.toList = none
    | some (x, res) => (∃ p, SMap.lookup cmp k t.toList = some p ∧ p.2 = x) ∧
        res.1.toList = SMap.erase cmp k t.toList := by
  induction t with
  | nil => simp [del, SMap.lookup]
  | node c l k' v' r ihl ihr =>
    simp only [toList_node] at ho ⊢
    obtain ⟨hl, hr, _⟩ := SMap.sorted_mid.1 ho
    simp only [del]
    by_cases h1 : cmp k k' < 0
    · simp only [h1, if_true]
      rw [SMap.lookup_mid_lt hc ho h1]
      have := ihl hl
      cases hi : del cmp k l with
      | none => simpa [hi] using this
      | some xr =>
        obtain ⟨x, res⟩ := xr
        simp only [hi] at this ⊢
        refine ⟨this.1, ?_⟩
        rw [toList_balL, this.2, SMap.erase_mid_lt hc ho h1]
    · by_cases h2 : cmp k k' > 0
      · simp only [h1, h2, if_true, if_false]
        rw [SMap.lookup_mid_gt hc ho h2]
        have := ihr hr
        cases hi : del cmp k r with
        | none => simpa [hi] using this
        | some xr =>
          obtain ⟨x, res⟩ := xr
          simp only [hi] at this ⊢
          refine ⟨this.1, ?_⟩
          rw [toList_balR, this.2, SMap.erase_mid_gt hc ho h2]
      · simp only [h1, h2, if_false]
        have he : cmp k k' = 0 := by omega
        rw [SMap.lookup_mid_eq hc ho (p := (k', v')) he, SMap.erase_mid_eq hc ho (p := (k', v')) he]
        cases l with
        | nil => simp [toList_spliceOut_left]
        | node lc ll lk lv lr =>
          cases r with
          | nil => simp [toList_spliceOut_right]
          | node rc rl rk rv rr =>
            simp only [toList_balR]
            have := toList_delMin rc rl rk rv rr
            refine ⟨⟨(k', v'), rfl, rfl⟩, ?_⟩
            rw [show ((delMin rc rl rk rv rr).1.1, (delMin rc rl rk rv rr).1.2) = (delMin rc rl rk rv rr).1 from rfl, this]
            simp

end Tree
end Ekit.RB
