/-
Progress for `Delete` at the pointer level: under `Holds` and `RB` the call returns (no nil dereference, no ill-typed
step, and a fuel bound that is linear in the number of nodes suffices).

Method: (a) the leaf procedures (getters, `setColor`, the rotations) return in EVERY state — shown by direct
symbolic execution; (b) `fixAfterDeleteLeft`/`fixAfterDeleteRight`/`getBrother` contain no field access at all, only
calls of (a) on pointer-typed variables: a small type checker (`tyS`) with a soundness theorem shows that they return
in every state; (c) totality + the existing inversion lemmas (RBPtrFix, RBPtrDelRB) give the forward specifications;
(d) the loops are handled with explicit measures.
-/
import Ekit.Lemmas.RBPtrRBTop
namespace Ekit.MiniGo.RBHeap.ProgDel
open Ekit.MiniGo Ekit.Gen.RBTreeGo Ekit.MiniGo.RBHeap

/-! ## (1) the leaf procedures return in every state -/

section prims
variable (cmpF : Int → Int → Int)

theorem getParent_ok (f : Nat) (a : Option Nat) (st : St) :
    call cmpF procs (f + 1) .getParent [.ptr a] st = .ok (.ptr (Fix.fldOf st a .parent), st) := by
  cases a <;>
    simp [call, runBody, procs, body_getParent, exec, evalE, Env.ofArgs, valEq, Node.get, Fix.fldOf, Rot.getP]

theorem getLeft_ok (f : Nat) (a : Option Nat) (st : St) :
    call cmpF procs (f + 1) .getLeft [.ptr a] st = .ok (.ptr (Fix.fldOf st a .left), st) := by
  cases a <;>
    simp [call, runBody, procs, body_getLeft, exec, evalE, Env.ofArgs, valEq, Node.get, Fix.fldOf, Rot.getP]

theorem getRight_ok (f : Nat) (a : Option Nat) (st : St) :
    call cmpF procs (f + 1) .getRight [.ptr a] st = .ok (.ptr (Fix.fldOf st a .right), st) := by
  cases a <;>
    simp [call, runBody, procs, body_getRight, exec, evalE, Env.ofArgs, valEq, Node.get, Fix.fldOf, Rot.getP]

theorem getColor_ok (f : Nat) (a : Option Nat) (st : St) :
    call cmpF procs (f + 1) .getColor [.ptr a] st = .ok (.bool (DelRB.colP st.h a), st) := by
  cases a <;>
    simp [call, runBody, procs, body_getColor, exec, evalE, Env.ofArgs, valEq, Node.get, DelRB.colP]

theorem setColor_ok (f : Nat) (a : Option Nat) (b : Bool) (st : St) :
    call cmpF procs (f + 1) .setColor [.ptr a, .bool b] st = .ok (.unit, DelRB.setCol st a b) := by
  cases a <;>
    simp [call, runBody, procs, body_setColor, exec, evalE, Env.ofArgs, valEq, Node.set, DelRB.setCol]

/-- forward form of `Rot.exec_rotRest` -/
theorem rotRest_ok (callH : CallH PName) (lf : Nat) {f g : Fld} {ρ : Env} {n r : Nat} (st : St)
    (hfg : Rot.Sides f g) (h0 : ρ 0 = .ptr (some n)) (hr : Rot.getP (st.h n) f = some r) :
    exec cmpF callH lf ρ st (Rot.rotRest f g)
      = .ok (.normal, ρ.set 1 (.ptr (some r)), Rot.rotSt f g st n r) := by
  unfold Rot.rotRest
  rw [Rot.exec_seq_normal _ _ _ (Rot.exec_A cmpF callH lf st hfg h0), hr]
  have h0' : (ρ.set 1 (.ptr (some r))) 0 = .ptr (some n) := by simp [Env.set, h0]
  have h1' : (ρ.set 1 (.ptr (some r))) 1 = .ptr (some r) := by simp [Env.set]
  rw [Rot.exec_seq_normal _ _ _ (Rot.exec_B cmpF callH lf st hfg h0' h1'),
    Rot.exec_seq_normal _ _ _ (Rot.exec_C cmpF callH lf _ hfg h0' h1'),
    Rot.exec_seq_normal _ _ _ (Rot.exec_D cmpF callH lf _ h0' h1'),
    Rot.exec_seq_normal _ _ _ (Rot.exec_E cmpF callH lf _ hfg h0' h1'),
    Rot.exec_seq_normal _ _ _ (Rot.exec_F cmpF callH lf _ hfg h0' h1'),
    Rot.exec_G cmpF callH lf _ h0' h1']
  rfl

theorem rot_ok {fl gl : Fld} {getF fn : PName} (hfg : Rot.Sides fl gl)
    (hproc : procs fn = ⟨1, Rot.rotBody fl gl getF⟩)
    (hget : ∀ f a st, call cmpF procs (f + 1) getF [.ptr a] st = .ok (.ptr (Fix.fldOf st a fl), st))
    (f : Nat) (a : Option Nat) (st : St) :
    ∃ st', call cmpF procs (f + 2) fn [.ptr a] st = .ok (.unit, st') := by
  have h' : call cmpF procs (f + 2) fn [.ptr a] st
      = runBody cmpF (call cmpF procs (f + 1)) (f + 1) ⟨1, Rot.rotBody fl gl getF⟩ [.ptr a] st := by
    rw [← hproc]; rfl
  rw [h']
  have hv : Env.ofArgs [Val.ptr a] 0 = .ptr a := by simp [Env.ofArgs]
  simp only [runBody, Rot.rotBody, exec, evalE, hv, hget]
  cases a with
  | none => exact ⟨st, by simp [valEq]⟩
  | some n =>
    cases hr : Rot.getP (st.h n) fl with
    | none => exact ⟨st, by simp [valEq, Fix.fldOf, hr]⟩
    | some r =>
      refine ⟨Rot.rotSt fl gl st n r, ?_⟩
      simp [valEq, Fix.fldOf, hr, rotRest_ok cmpF _ _ st hfg hv hr]

theorem rotL_ok (f : Nat) (a : Option Nat) (st : St) :
    ∃ st', call cmpF procs (f + 2) .rotateLeft [.ptr a] st = .ok (.unit, st') :=
  rot_ok cmpF (.inl ⟨rfl, rfl⟩) rfl (getRight_ok cmpF) f a st

theorem rotR_ok (f : Nat) (a : Option Nat) (st : St) :
    ∃ st', call cmpF procs (f + 2) .rotateRight [.ptr a] st = .ok (.unit, st') :=
  rot_ok cmpF (.inr ⟨rfl, rfl⟩) rfl (getLeft_ok cmpF) f a st

end prims

/-! ## (2) a type checker for the fragment without field accesses: such code returns in every state -/

inductive Ty where
  | ptr | bool | any
  deriving DecidableEq

def hasTy : Ty → Val → Prop
  | .ptr, v => ∃ a, v = .ptr a
  | .bool, v => ∃ b, v = .bool b
  | .any, _ => True

/-- result types of the unary procedures applied to a pointer -/
def sig1 : PName → Option Ty
  | .getParent | .getLeft | .getRight | .getBrother => some .ptr
  | .getColor => some .bool
  | .rotateLeft | .rotateRight => some .any
  | _ => none

/-- `Γ`: the variables known to hold pointers -/
def tyE (Γ : List Nat) : Expr PName → Option Ty
  | .nil => some .ptr
  | .root => some .ptr
  | .bool _ => some .bool
  | .var k => if Γ.contains k then some .ptr else none
  | .call1 fn e =>
    match tyE Γ e, sig1 fn with
    | some .ptr, some T => some T
    | _, _ => none
  | .call2 fn a b =>
    match tyE Γ a, tyE Γ b with
    | some .ptr, some .bool => if fn = .setColor then some .any else none
    | _, _ => none
  | .eq a b =>
    match tyE Γ a, tyE Γ b with
    | some .ptr, some .ptr => some .bool
    | some .bool, some .bool => some .bool
    | _, _ => none
  | .and a b =>
    match tyE Γ a, tyE Γ b with
    | some .bool, some .bool => some .bool
    | _, _ => none
  | _ => none

/-- `some none`: the statement never completes normally (it returns a pointer) -/
def tyS (Γ : List Nat) : Stmt PName → Option (Option (List Nat))
  | .skip => some (some Γ)
  | .assign k e => if tyE Γ e = some .ptr then some (some (k :: Γ)) else none
  | .expr e => if (tyE Γ e).isSome then some (some Γ) else none
  | .ret e => if tyE Γ e = some .ptr then some none else none
  | .seq a b =>
    match tyS Γ a with
    | some none => some none
    | some (some Γ1) => tyS Γ1 b
    | none => none
  | .ite c t e =>
    if tyE Γ c = some .bool then
      match tyS Γ t, tyS Γ e with
      | some none, some R => some R
      | some (some G), some none => some (some G)
      | some (some G1), some (some G2) => some (some (G1.filter (fun k => G2.contains k)))
      | _, _ => none
    else none
  | _ => none

def Sat (ρ : Env) (Γ : List Nat) : Prop := ∀ k ∈ Γ, ∃ a, ρ k = .ptr a

structure GoodH (callH : CallH PName) : Prop where
  c1 : ∀ fn T, sig1 fn = some T → ∀ a st, ∃ v st', callH fn [.ptr a] st = .ok (v, st') ∧ hasTy T v
  sc : ∀ a b st, ∃ v st', callH .setColor [.ptr a, .bool b] st = .ok (v, st')

section sound
variable {cmpF : Int → Int → Int} {callH : CallH PName} (lf : Nat)

theorem tyE_sound (hG : GoodH callH) {ρ : Env} {Γ : List Nat} (hρ : Sat ρ Γ) :
    ∀ (e : Expr PName) (T : Ty), tyE Γ e = some T →
      ∀ st, ∃ v st', evalE cmpF callH ρ st e = .ok (v, st') ∧ hasTy T v := by
  intro e
  induction e with
  | nil => intro T h st; simp [tyE] at h; subst h; exact ⟨_, _, rfl, none, rfl⟩
  | root => intro T h st; simp [tyE] at h; subst h; exact ⟨_, _, rfl, st.root, rfl⟩
  | bool b => intro T h st; simp [tyE] at h; subst h; exact ⟨_, _, rfl, b, rfl⟩
  | var k =>
    intro T h st
    simp only [tyE] at h
    split at h
    · next hk =>
      cases h
      obtain ⟨a, ha⟩ := hρ k (by simpa using hk)
      exact ⟨_, _, rfl, a, ha⟩
    · cases h
  | call1 fn e ih =>
    intro T h st
    simp only [tyE] at h
    split at h
    · next h1 h2 =>
      cases h
      obtain ⟨v, st1, hv, a, rfl⟩ := ih _ h1 st
      obtain ⟨w, st2, hw, hT⟩ := hG.c1 fn _ h2 a st1
      exact ⟨w, st2, by simp only [evalE, hv, hw] <;> rfl, hT⟩
    · cases h
  | call2 fn a b iha ihb =>
    intro T h st
    simp only [tyE] at h
    split at h
    · next h1 h2 =>
      split at h
      · next hfn =>
        cases h
        subst hfn
        obtain ⟨v, st1, hv, x, rfl⟩ := iha _ h1 st
        obtain ⟨w, st2, hw, y, rfl⟩ := ihb _ h2 st1
        obtain ⟨u, st3, hu⟩ := hG.sc x y st2
        exact ⟨u, st3, by simp only [evalE, hv, hw, hu] <;> rfl, trivial⟩
      · cases h
    · cases h
  | eq a b iha ihb =>
    intro T h st
    simp only [tyE] at h
    split at h
    · next h1 h2 =>
      cases h
      obtain ⟨v, st1, hv, x, rfl⟩ := iha _ h1 st
      obtain ⟨w, st2, hw, y, rfl⟩ := ihb _ h2 st1
      exact ⟨_, st2, by simp only [evalE, hv, hw, valEq] <;> rfl, _, rfl⟩
    · next h1 h2 =>
      cases h
      obtain ⟨v, st1, hv, x, rfl⟩ := iha _ h1 st
      obtain ⟨w, st2, hw, y, rfl⟩ := ihb _ h2 st1
      exact ⟨_, st2, by simp only [evalE, hv, hw, valEq] <;> rfl, _, rfl⟩
    · cases h
  | and a b iha ihb =>
    intro T h st
    simp only [tyE] at h
    split at h
    · next h1 h2 =>
      cases h
      obtain ⟨v, st1, hv, x, rfl⟩ := iha _ h1 st
      cases x with
      | false => exact ⟨_, st1, by simp only [evalE, hv] <;> rfl, _, rfl⟩
      | true =>
        obtain ⟨w, st2, hw, y, rfl⟩ := ihb _ h2 st1
        exact ⟨_, st2, by simp only [evalE, hv, hw] <;> rfl, _, rfl⟩
    · cases h
  | _ => intro T h; simp [tyE] at h

theorem sat_filter {ρ : Env} {G1 G2 : List Nat} (h : Sat ρ G1 ∨ Sat ρ G2) :
    Sat ρ (G1.filter (fun k => G2.contains k)) := by
  intro k hk
  simp only [List.mem_filter, List.contains_iff_mem] at hk
  rcases h with h | h
  · exact h k hk.1
  · exact h k (by simpa using hk.2)

theorem tyS_sound (hG : GoodH callH) :
    ∀ (s : Stmt PName) (Γ : List Nat) (R : Option (List Nat)), tyS Γ s = some R → ∀ ρ st, Sat ρ Γ →
      ∃ fl ρ' st', exec cmpF callH lf ρ st s = .ok (fl, ρ', st') ∧
        ((∃ a, fl = .ret (.ptr a)) ∨ (fl = .normal ∧ ∃ Γ', R = some Γ' ∧ Sat ρ' Γ')) := by
  intro s
  induction s with
  | skip =>
    intro Γ R h ρ st hρ
    simp [tyS] at h
    exact ⟨_, _, _, rfl, .inr ⟨rfl, Γ, h.symm, hρ⟩⟩
  | assign k e =>
    intro Γ R h ρ st hρ
    simp only [tyS] at h
    split at h
    · next he =>
      cases h
      obtain ⟨v, st1, hv, a, rfl⟩ := tyE_sound (cmpF := cmpF) hG hρ e _ he st
      refine ⟨_, _, _, by simp only [exec, hv] <;> rfl, .inr ⟨rfl, _, rfl, ?_⟩⟩
      intro j hj
      simp only [List.mem_cons] at hj
      by_cases hjk : j = k
      · exact ⟨a, by simp [Env.set, hjk]⟩
      · rcases hj with hj | hj
        · exact absurd hj hjk
        · obtain ⟨b, hb⟩ := hρ j hj
          exact ⟨b, by simp [Env.set, hjk, hb]⟩
    · cases h
  | expr e =>
    intro Γ R h ρ st hρ
    simp only [tyS] at h
    split at h
    · next he =>
      cases h
      obtain ⟨T, hT⟩ := Option.isSome_iff_exists.1 he
      obtain ⟨v, st1, hv, _⟩ := tyE_sound (cmpF := cmpF) hG hρ e _ hT st
      exact ⟨_, _, _, by simp only [exec, hv] <;> rfl, .inr ⟨rfl, _, rfl, hρ⟩⟩
    · cases h
  | ret e =>
    intro Γ R h ρ st hρ
    simp only [tyS] at h
    split at h
    · next he =>
      cases h
      obtain ⟨v, st1, hv, a, rfl⟩ := tyE_sound (cmpF := cmpF) hG hρ e _ he st
      exact ⟨_, _, _, by simp only [exec, hv] <;> rfl, .inl ⟨a, rfl⟩⟩
    · cases h
  | seq a b iha ihb =>
    intro Γ R h ρ st hρ
    simp only [tyS] at h
    split at h
    · next h1 =>
      cases h
      obtain ⟨fl, ρ1, st1, hx, hc⟩ := iha _ _ h1 ρ st hρ
      rcases hc with ⟨x, rfl⟩ | ⟨_, Γ', hΓ, _⟩
      · exact ⟨_, _, _, by simp only [exec, hx] <;> rfl, .inl ⟨x, rfl⟩⟩
      · cases hΓ
    · next Γ1 h1 =>
      obtain ⟨fl, ρ1, st1, hx, hc⟩ := iha _ _ h1 ρ st hρ
      rcases hc with ⟨x, rfl⟩ | ⟨rfl, Γ', hΓ, hρ1⟩
      · exact ⟨_, _, _, by simp only [exec, hx] <;> rfl, .inl ⟨x, rfl⟩⟩
      · cases hΓ
        obtain ⟨fl2, ρ2, st2, hx2, hc2⟩ := ihb _ _ h ρ1 st1 hρ1
        exact ⟨_, _, _, by simp only [exec, hx, hx2] <;> rfl, hc2⟩
    · cases h
  | ite c t e iht ihe =>
    intro Γ R h ρ st hρ
    simp only [tyS] at h
    split at h
    · next hc =>
      obtain ⟨v, st1, hv, b, rfl⟩ := tyE_sound (cmpF := cmpF) hG hρ c _ hc st
      split at h
      · next R' h1 h2 =>
        cases h
        cases b with
        | true =>
          obtain ⟨fl, ρ1, st2, hx, hcase⟩ := iht _ _ h1 ρ st1 hρ
          refine ⟨_, _, _, by simp only [exec, hv, hx] <;> rfl, ?_⟩
          rcases hcase with hr | ⟨_, Γ', hΓ, _⟩
          · exact .inl hr
          · cases hΓ
        | false =>
          obtain ⟨fl, ρ1, st2, hx, hcase⟩ := ihe _ _ h2 ρ st1 hρ
          exact ⟨_, _, _, by simp only [exec, hv, hx] <;> rfl, hcase⟩
      · next G h1 h2 =>
        cases h
        cases b with
        | true =>
          obtain ⟨fl, ρ1, st2, hx, hcase⟩ := iht _ _ h1 ρ st1 hρ
          exact ⟨_, _, _, by simp only [exec, hv, hx] <;> rfl, hcase⟩
        | false =>
          obtain ⟨fl, ρ1, st2, hx, hcase⟩ := ihe _ _ h2 ρ st1 hρ
          refine ⟨_, _, _, by simp only [exec, hv, hx] <;> rfl, ?_⟩
          rcases hcase with hr | ⟨_, Γ', hΓ, _⟩
          · exact .inl hr
          · cases hΓ
      · next G1 G2 h1 h2 =>
        cases h
        cases b with
        | true =>
          obtain ⟨fl, ρ1, st2, hx, hcase⟩ := iht _ _ h1 ρ st1 hρ
          refine ⟨_, _, _, by simp only [exec, hv, hx] <;> rfl, ?_⟩
          rcases hcase with hr | ⟨hn, Γ', hΓ, hs⟩
          · exact .inl hr
          · cases hΓ
            exact .inr ⟨hn, _, rfl, sat_filter (.inl hs)⟩
        | false =>
          obtain ⟨fl, ρ1, st2, hx, hcase⟩ := ihe _ _ h2 ρ st1 hρ
          refine ⟨_, _, _, by simp only [exec, hv, hx] <;> rfl, ?_⟩
          rcases hcase with hr | ⟨hn, Γ', hΓ, hs⟩
          · exact .inl hr
          · cases hΓ
            exact .inr ⟨hn, _, rfl, sat_filter (.inr hs)⟩
      · cases h
    · cases h
  | _ => intro Γ R h; simp [tyS] at h

end sound

/-! ## (3) `getBrother`, `fixAfterDeleteLeft`, `fixAfterDeleteRight` return in every state -/

section bodies
variable (cmpF : Int → Int → Int)

theorem getBrother_ok (f : Nat) (a : Option Nat) (st : St) :
    ∃ b, call cmpF procs (f + 2) .getBrother [.ptr a] st = .ok (.ptr b, st) := by
  have h' : call cmpF procs (f + 2) .getBrother [.ptr a] st
      = runBody cmpF (call cmpF procs (f + 1)) (f + 1) ⟨1, body_getBrother⟩ [.ptr a] st := rfl
  rw [h']
  cases a with
  | none => exact ⟨none, by simp [runBody, body_getBrother, exec, evalE, Env.ofArgs, valEq]⟩
  | some n =>
    have hv : Env.ofArgs [Val.ptr (some n)] 0 = .ptr (some n) := by simp [Env.ofArgs]
    by_cases hc : (some n == Fix.fldOf st (Fix.fldOf st (some n) .parent) .left) = true
    · refine ⟨Fix.fldOf st (Fix.fldOf st (some n) .parent) .right, ?_⟩
      simp [runBody, body_getBrother, exec, evalE, hv, valEq, getParent_ok, getLeft_ok, getRight_ok, hc]
    · refine ⟨Fix.fldOf st (Fix.fldOf st (some n) .parent) .left, ?_⟩
      simp [runBody, body_getBrother, exec, evalE, hv, valEq, getParent_ok, getLeft_ok, hc]

theorem goodH (f : Nat) : GoodH (call cmpF procs (f + 2)) := by
  refine ⟨?_, fun a b st => ⟨_, _, setColor_ok cmpF (f + 1) a b st⟩⟩
  intro fn T h a st
  cases fn <;> simp [sig1] at h <;> subst h
  · obtain ⟨b, hb⟩ := getBrother_ok cmpF f a st
    exact ⟨_, _, hb, b, rfl⟩
  · exact ⟨_, _, getColor_ok cmpF (f + 1) a st, _, rfl⟩
  · exact ⟨_, _, getLeft_ok cmpF (f + 1) a st, _, rfl⟩
  · exact ⟨_, _, getParent_ok cmpF (f + 1) a st, _, rfl⟩
  · exact ⟨_, _, getRight_ok cmpF (f + 1) a st, _, rfl⟩
  · obtain ⟨st', h'⟩ := rotL_ok cmpF f a st
    exact ⟨_, _, h', trivial⟩
  · obtain ⟨st', h'⟩ := rotR_ok cmpF f a st
    exact ⟨_, _, h', trivial⟩

theorem sat0 (a : Option Nat) : Sat (Env.ofArgs [Val.ptr a]) [0] := by
  intro k hk
  simp at hk
  subst hk
  exact ⟨a, by simp [Env.ofArgs]⟩

theorem fixLeft_ok (f : Nat) (a : Option Nat) (st : St) :
    ∃ b st', call cmpF procs (f + 3) .fixAfterDeleteLeft [.ptr a] st = .ok (.ptr b, st') := by
  have h' : call cmpF procs (f + 3) .fixAfterDeleteLeft [.ptr a] st
      = runBody cmpF (call cmpF procs (f + 2)) (f + 2) ⟨1, body_fixAfterDeleteLeft⟩ [.ptr a] st := rfl
  rw [h']
  obtain ⟨fl, ρ', st', hx, hc⟩ := tyS_sound (cmpF := cmpF) (f + 2) (goodH cmpF f) body_fixAfterDeleteLeft [0] none
    (by decide) _ st (sat0 a)
  rcases hc with ⟨b, rfl⟩ | ⟨_, Γ', hΓ, _⟩
  · exact ⟨b, st', by simp only [runBody, hx]⟩
  · cases hΓ

theorem fixRight_ok (f : Nat) (a : Option Nat) (st : St) :
    ∃ b st', call cmpF procs (f + 3) .fixAfterDeleteRight [.ptr a] st = .ok (.ptr b, st') := by
  have h' : call cmpF procs (f + 3) .fixAfterDeleteRight [.ptr a] st
      = runBody cmpF (call cmpF procs (f + 2)) (f + 2) ⟨1, body_fixAfterDeleteRight⟩ [.ptr a] st := rfl
  rw [h']
  obtain ⟨fl, ρ', st', hx, hc⟩ := tyS_sound (cmpF := cmpF) (f + 2) (goodH cmpF f) body_fixAfterDeleteRight [0] none
    (by decide) _ st (sat0 a)
  rcases hc with ⟨b, rfl⟩ | ⟨_, Γ', hΓ, _⟩
  · exact ⟨b, st', by simp only [runBody, hx]⟩
  · cases hΓ

end bodies

/-! ## (4) one step of the fix-up, forward form: the new cursor is the parent or the root, the sub-tree below the
old cursor is untouched -/

section step
open Fix
variable (cmpF : Int → Int → Int)
variable {f lf : Nat} {sd : Fld} {x c p : Nat} {S : PT}

def Q4 (sd : Fld) (x c p : Nat) (S : PT) : Env → St → Prop :=
  fun ρ st => J sd x c p S st ∧ (ρ 0 = .ptr (some p) ∨ ρ 0 = .ptr st.root)

theorem ht_assign_parent' : HT cmpF (call cmpF procs f) lf (P0 sd x c p S)
    (.assign 0 (.call1 .getParent (.var 0))) (Nrm (Q4 sd x c p S)) := by
  refine HT.assign (fun ρ st v st' hP h => ?_)
  obtain ⟨e1, e2⟩ := evalsTo_parent0 cmpF hP _ _ h
  rw [e1, e2]
  exact ⟨hP.2, .inl (by simp [Env.set])⟩

theorem ht_assign_root' : HT cmpF (call cmpF procs f) lf (P0 sd x c p S)
    (.assign 0 .root) (Nrm (Q4 sd x c p S)) := by
  refine HT.assign (fun ρ st v st' hP h => ?_)
  simp [evalE] at h
  obtain ⟨e1, e2⟩ := h
  rw [← e1, ← e2]
  exact ⟨hP.2, .inr (by simp [Env.set])⟩

theorem left_body' : HT cmpF (call cmpF procs f) lf (P0 .left x c p S) body_fixAfterDeleteLeft
    (fun fl _ st => J .left x c p S st ∧ (fl = .ret (.ptr (some p)) ∨ fl = .ret (.ptr st.root))) := by
  have hK := call_specK cmpF
  unfold body_fixAfterDeleteLeft
  refine HT.seq (ht_assign_sibL cmpF) (HT.seq (M := P1 .left .right x c p S) ?_
    (HT.seq (M := Q4 .left x c p S) ?_ ?_))
  · refine HT.pureIte stable_P1 rfl ?_ HT.skip
    exact HT.seq (HT.pureExpr stable_P1 rfl) (HT.seq (HT.pureExpr stable_P1 rfl)
      (HT.seq ((ht_rotL_p cmpF hK).pre P1_P0) (ht_assign_sibL cmpF)))
  · refine HT.pureIte stable_P1 rfl ?_ ?_
    · exact HT.seq (HT.pureExpr stable_P1 rfl) ((ht_assign_parent' cmpF).pre P1_P0)
    · refine HT.seq (M := P1 .left .right x c p S) (HT.pureIte stable_P1 rfl ?_ HT.skip) ?_
      · exact HT.seq (HT.pureExpr stable_P1 rfl) (HT.seq (HT.pureExpr stable_P1 rfl)
          (HT.seq (ht_rotR_sibL cmpF hK) (ht_assign_sibL cmpF)))
      · exact HT.seq (HT.pureExpr stable_P1 rfl) (HT.seq (HT.pureExpr stable_P1 rfl)
          (HT.seq (HT.pureExpr stable_P1 rfl) (HT.seq ((ht_rotL_p cmpF hK).pre P1_P0)
            (ht_assign_root' cmpF))))
  · refine HT.retVar.mono (fun _ _ h => h) ?_
    rintro fl ρ st ⟨rfl, hJ, h0⟩
    exact ⟨hJ, by rcases h0 with h0 | h0 <;> simp [h0]⟩

theorem right_body' : HT cmpF (call cmpF procs f) lf (P0 .right x c p S) body_fixAfterDeleteRight
    (fun fl _ st => J .right x c p S st ∧ (fl = .ret (.ptr (some p)) ∨ fl = .ret (.ptr st.root))) := by
  have hK := call_specK cmpF
  unfold body_fixAfterDeleteRight
  refine HT.seq (ht_assign_sibR cmpF) (HT.seq (M := P1 .right .left x c p S) ?_
    (HT.seq (M := Q4 .right x c p S) ?_ ?_))
  · refine HT.pureIte stable_P1 rfl ?_ HT.skip
    exact HT.seq (HT.pureExpr stable_P1 rfl) (HT.seq (HT.pureExpr stable_P1 rfl)
      (HT.seq ((ht_rotR_p cmpF hK).pre P1_P0) (ht_assign_brother cmpF)))
  · refine HT.pureIte stable_P1 rfl ?_ ?_
    · exact HT.seq (HT.pureExpr stable_P1 rfl) ((ht_assign_parent' cmpF).pre P1_P0)
    · refine HT.seq (M := P1 .right .left x c p S) (HT.pureIte stable_P1 rfl ?_ HT.skip) ?_
      · exact HT.seq (HT.pureExpr stable_P1 rfl) (HT.seq (HT.pureExpr stable_P1 rfl)
          (HT.seq (ht_rotL_sibR cmpF hK) (ht_assign_sibR cmpF)))
      · exact HT.seq (HT.pureExpr stable_P1 rfl) (HT.seq (HT.pureExpr stable_P1 rfl)
          (HT.seq (HT.pureExpr stable_P1 rfl) (HT.seq ((ht_rotR_p cmpF hK).pre P1_P0)
            (ht_assign_root' cmpF))))
  · refine HT.retVar.mono (fun _ _ h => h) ?_
    rintro fl ρ st ⟨rfl, hJ, h0⟩
    exact ⟨hJ, by rcases h0 with h0 | h0 <;> simp [h0]⟩

/-- forward form of one step, cursor a left child -/
theorem left_step {st : St} (hJ : J .left x c p S st) (f : Nat) :
    ∃ c' st', call cmpF procs (f + 3) .fixAfterDeleteLeft [.ptr (some c)] st = .ok (.ptr c', st') ∧
      J .left x c p S st' ∧ (c' = some p ∨ c' = st'.root) := by
  obtain ⟨b, st', h⟩ := fixLeft_ok cmpF f (some c) st
  refine ⟨b, st', h, ?_⟩
  have h' : runBody cmpF (call cmpF procs (f + 2)) (f + 2) ⟨1, body_fixAfterDeleteLeft⟩ [.ptr (some c)] st
      = .ok (.ptr b, st') := h
  simp only [runBody] at h'
  cases he : exec cmpF (call cmpF procs (f + 2)) (f + 2) (Env.ofArgs [.ptr (some c)]) st
      body_fixAfterDeleteLeft with
  | error e => simp [he] at h'
  | ok r =>
    obtain ⟨fl, ρ', st1⟩ := r
    obtain ⟨hJ', hfl⟩ := left_body' cmpF _ _ _ _ _ ⟨by simp [Env.ofArgs], hJ⟩ he
    rw [he] at h'
    rcases hfl with rfl | rfl <;> simp at h' <;> obtain ⟨e3, e4⟩ := h' <;> subst e3 e4
    · exact ⟨hJ', .inl rfl⟩
    · exact ⟨hJ', .inr rfl⟩

/-- forward form of one step, cursor a right child -/
theorem right_step {st : St} (hJ : J .right x c p S st) (f : Nat) :
    ∃ c' st', call cmpF procs (f + 3) .fixAfterDeleteRight [.ptr (some c)] st = .ok (.ptr c', st') ∧
      J .right x c p S st' ∧ (c' = some p ∨ c' = st'.root) := by
  obtain ⟨b, st', h⟩ := fixRight_ok cmpF f (some c) st
  refine ⟨b, st', h, ?_⟩
  have h' : runBody cmpF (call cmpF procs (f + 2)) (f + 2) ⟨1, body_fixAfterDeleteRight⟩ [.ptr (some c)] st
      = .ok (.ptr b, st') := h
  simp only [runBody] at h'
  cases he : exec cmpF (call cmpF procs (f + 2)) (f + 2) (Env.ofArgs [.ptr (some c)]) st
      body_fixAfterDeleteRight with
  | error e => simp [he] at h'
  | ok r =>
    obtain ⟨fl, ρ', st1⟩ := r
    obtain ⟨hJ', hfl⟩ := right_body' cmpF _ _ _ _ _ ⟨by simp [Env.ofArgs], hJ⟩ he
    rw [he] at h'
    rcases hfl with rfl | rfl <;> simp at h' <;> obtain ⟨e3, e4⟩ := h' <;> subst e3 e4
    · exact ⟨hJ', .inl rfl⟩
    · exact ⟨hJ', .inr rfl⟩

end step

/-! ## (5) the loop of `fixAfterDelete` returns: the number of nodes outside the sub-tree of the cursor decreases -/

section loop
open Fix
variable (cmpF : Int → Int → Int)

theorem sub_length_le : ∀ {t : PT} {a : Nat} {s : PT}, t.sub a = some s → s.addrs.length ≤ t.addrs.length := by
  intro t
  induction t with
  | leaf => intro a s h; simp [PT.sub] at h
  | node l b r ihl ihr =>
    intro a s h
    by_cases hab : a = b
    · simp [PT.sub, hab] at h; subst h; exact Nat.le_refl _
    · simp only [PT.sub, hab, if_false] at h
      cases hl : l.sub a with
      | some s' =>
        rw [hl] at h; simp at h; subst h
        have := ihl hl
        simp [PT.addrs]; omega
      | none =>
        rw [hl] at h; simp at h
        have := ihr h
        simp [PT.addrs]; omega

/-- loop invariant with measure `m`: `x` is a leaf at or below the cursor `c`, at most `m` nodes are outside the
    sub-tree of `c` -/
def LInv (x : Nat) (st : St) (c m : Nat) : Prop :=
  ∃ t s par, Holds st t ∧ c ∈ t.addrs ∧ Repr st.h (some c) par s ∧ x ∈ s.addrs ∧ Leaf st x ∧
    t.addrs.length ≤ m + s.addrs.length

theorem linv_parent {sd : Fld} {x c p : Nat} {S : PT} {st : St} (hsd : sd = .left ∨ sd = .right)
    (hJ : J sd x c p S st) {N m : Nat} (hN : ∀ t, Holds st t → t.addrs.length = N)
    (hm : N ≤ m + S.addrs.length) :
    0 < m ∧ LInv x st p (m - 1) ∧ ∃ t, Holds st t ∧ x ∈ t.addrs := by
  obtain ⟨t, hH, hp⟩ := hJ.holds
  obtain ⟨A, R, hs, hnds, hsub, hA, hRr, hpar, hdich⟩ := Rot.rot_setup hH.1 hH.2.1 hp
  have hlen := sub_length_le hs
  rw [hN t hH] at hlen
  have hx : x ∈ (PT.node A p R).addrs ∧ S.addrs.length + 1 ≤ (PT.node A p R).addrs.length := by
    rcases hsd with rfl | rfl
    · have hside : (st.h p).left = some c := hJ.side
      rw [hside] at hA
      have := repr_det hA hJ.repr; subst this
      simp [PT.addrs, hJ.mem]
    · have hside : (st.h p).right = some c := hJ.side
      rw [hside] at hRr
      have := repr_det hRr hJ.repr; subst this
      simp [PT.addrs, hJ.mem]
  refine ⟨by omega, ⟨t, _, _, hH, hp, repr_sub hH.1 hs, hx.1, hJ.leaf, ?_⟩, t, hH, hsub x hx.1⟩
  rw [hN t hH]; omega

theorem linv_root {x : Nat} {st : St} {t : PT} (hH : Holds st t) (hx : x ∈ t.addrs) (hl : Leaf st x) {a : Nat}
    (hr : st.root = some a) : LInv x st a 0 := by
  have h1 := hH.1
  rw [hr] at h1
  exact ⟨t, t, none, hH, repr_root_mem h1, h1, hx, hl, by omega⟩

theorem holds_len {st : St} {t t' : PT} (h : Holds st t) (h' : Holds st t') : t'.addrs.length = t.addrs.length := by
  rw [repr_det h.1 h'.1]

/-- one iteration of the loop -/
theorem step_ok {x c m : Nat} {ρ : Env} {st : St} (f lf : Nat) (h0 : ρ 0 = .ptr (some c)) (hL : LInv x st c m)
    (hroot : st.root ≠ some c) :
    ∃ c' st' m', exec cmpF (call cmpF procs (f + 3)) lf ρ st stepS
        = .ok (.normal, ρ.set 0 (.ptr (some c')), st') ∧ LInv x st' c' m' ∧ m' < m := by
  obtain ⟨t, s, par, hH, hc, hR, hx, hl, hm⟩ := hL
  obtain ⟨p, S, hpar, hLft, hRgt⟩ := Inv.toJ ⟨t, s, par, hH, hc, hR, hx, hl⟩ hroot
  have hcond : evalE cmpF (call cmpF procs (f + 3)) ρ st
      (.eq (.var 0) (.call1 .getLeft (.field (.var 0) .parent)))
      = .ok (.bool (some c == (st.h p).left), st) := by
    simp [evalE, h0, Node.get, hpar, getLeft_ok, valEq, Fix.fldOf, Rot.getP]
  -- what both branches share
  have key : ∀ (sd : Fld) (fn : PName), isK fn = true → (sd = .left ∨ sd = .right) → J sd x c p S st →
      (∃ c' st', call cmpF procs (f + 3) fn [.ptr (some c)] st = .ok (.ptr c', st') ∧
        J sd x c p S st' ∧ (c' = some p ∨ c' = st'.root)) →
      ∃ c' st' m', call cmpF procs (f + 3) fn [.ptr (some c)] st = .ok (.ptr (some c'), st') ∧
        LInv x st' c' m' ∧ m' < m := by
    intro sd fn hk hsd hJ ⟨c', st', hcall, hJ', hc'⟩
    have hSs : s = S := repr_det hR hJ.repr
    subst hSs
    obtain ⟨t1, hH1, hP, _⟩ := call_specK cmpF _ fn hk _ _ _ _ t hH (by
      intro y hy; simp at hy; subst hy; exact hc) hcall
    have hN : ∀ t', Holds st' t' → t'.addrs.length = t.addrs.length := by
      intro t' ht'
      rw [holds_len hH1 ht', hP.addrs]
    obtain ⟨hpos, hLp, t2, hH2, hx2⟩ := linv_parent hsd hJ' hN hm
    rcases hc' with rfl | rfl
    · exact ⟨p, st', m - 1, hcall, hLp, by omega⟩
    · obtain ⟨a, ha, _⟩ := hJ'.inv_root hsd
      exact ⟨a, st', 0, by rw [← ha]; exact hcall, linv_root hH2 hx2 hJ'.leaf ha, hpos⟩
  by_cases hside : (st.h p).left = some c
  · have hb : (some c == (st.h p).left) = true := by simp [hside]
    obtain ⟨c', st', m', hcall, hL', hlt⟩ := key .left .fixAfterDeleteLeft rfl (.inl rfl) (hLft hside)
      (left_step cmpF (hLft hside) f)
    refine ⟨c', st', m', ?_, hL', hlt⟩
    simp only [stepS, exec]
    rw [hcond, hb]
    simp only [exec, evalE, h0, hcall]
  · have hb : (some c == (st.h p).left) = false := by
      have : ¬ (some c = (st.h p).left) := fun e => hside e.symm
      simp [this]
    obtain ⟨c', st', m', hcall, hL', hlt⟩ := key .right .fixAfterDeleteRight rfl (.inr rfl) (hRgt hside)
      (right_step cmpF (hRgt hside) f)
    refine ⟨c', st', m', ?_, hL', hlt⟩
    simp only [stepS, exec]
    rw [hcond, hb]
    simp only [exec, evalE, h0, hcall]

theorem loop_ok {x : Nat} (f lf : Nat) : ∀ n m ρ st c, m + 1 ≤ n → ρ 0 = .ptr (some c) → LInv x st c m →
    ∃ ρ' st' c', iterate (fun ρ st => evalE cmpF (call cmpF procs (f + 3)) ρ st condE)
      (fun ρ st => exec cmpF (call cmpF procs (f + 3)) lf ρ st stepS) n ρ st = .ok (.normal, ρ', st') ∧
      ρ' 0 = .ptr (some c') := by
  intro n
  induction n with
  | zero => intro m ρ st c h; omega
  | succ n ih =>
    intro m ρ st c hmn h0 hL
    have hcond : evalE cmpF (call cmpF procs (f + 3)) ρ st condE
        = .ok (.bool (!(some c == st.root) && ((st.h c).color == true)), st) := by
      cases hq : (some c == st.root) <;> simp [condE, evalE, h0, valEq, getColor_ok, DelRB.colP, hq]
    simp only [iterate]
    rw [hcond]
    cases hb : (!(some c == st.root) && ((st.h c).color == true)) with
    | false => exact ⟨ρ, st, c, rfl, h0⟩
    | true =>
      have hroot : st.root ≠ some c := by
        intro e; simp [e] at hb
      obtain ⟨c', st', m', hx, hL', hlt⟩ := step_ok cmpF f lf h0 hL hroot
      simp only [hx]
      exact ih m' _ st' c' (by omega) (by simp [Env.set]) hL'

/-- `fixAfterDelete` returns on a leaf of a held tree, with fuel linear in the number of nodes -/
theorem fixAfterDelete_ok {x : Nat} {st : St} {t : PT} (hH : Holds st t) (hx : x ∈ t.addrs)
    (hl : (st.h x).left = none) (hr : (st.h x).right = none) (F : Nat) (hF : t.addrs.length + 3 ≤ F) :
    ∃ v st', call cmpF procs (F + 1) .fixAfterDelete [.ptr (some x)] st = .ok (v, st') := by
  obtain ⟨f, rfl⟩ : ∃ f, F = f + 3 := ⟨F - 3, by omega⟩
  obtain ⟨s, hs⟩ := sub_some_of_mem hx
  obtain ⟨⟨A, R, rfl⟩, _⟩ := sub_spec hs
  have hL : LInv x st x t.addrs.length :=
    ⟨t, _, _, hH, hx, repr_sub hH.1 hs, by simp [PT.addrs], ⟨hl, hr⟩, by omega⟩
  obtain ⟨ρ', st', c', hit, hρ'⟩ := loop_ok cmpF f (f + 3) (f + 3) t.addrs.length
    (Env.ofArgs [.ptr (some x)]) st x (by omega) (by simp [Env.ofArgs]) hL
  have h' : call cmpF procs (f + 3 + 1) .fixAfterDelete [.ptr (some x)] st
      = runBody cmpF (call cmpF procs (f + 3)) (f + 3) ⟨1, body_fixAfterDelete⟩ [.ptr (some x)] st := rfl
  rw [h', body_fixAfterDelete_eq]
  simp only [runBody, exec, hit, evalE, hρ', setColor_ok]
  exact ⟨_, _, rfl⟩

end loop

/-! ## (6) the descents: `findNode`, `findSuccessor` -/

section descent
variable (cmpF : Int → Int → Int)

def fnCond : Expr PName := .ne (.var 1) .nil
def fnBody : Stmt PName :=
  (.seq (.assign 2 (.cmp (.var 0) (.field (.var 1) .key)))
    (.ite (.lt (.var 2) (.int 0))
    (.assign 1 (.field (.var 1) .left))
    (.ite (.gt (.var 2) (.int 0))
    (.assign 1 (.field (.var 1) .right))
    (.ret (.var 1)))))

theorem body_findNode_eq : body_findNode = .seq (.assign 1 .root) (.seq (.loop fnCond fnBody) (.ret .nil)) := rfl

theorem findNode_loop (callH : CallH PName) (lf : Nat) (k : Int) (st : St) :
    ∀ (s : PT) (n : Nat) (ρ : Env) (q par : Option Nat), Repr st.h q par s → ρ 0 = .int k → ρ 1 = .ptr q →
      s.addrs.length + 1 ≤ n →
      ∃ fl ρ', iterate (fun ρ st => evalE cmpF callH ρ st fnCond) (fun ρ st => exec cmpF callH lf ρ st fnBody)
          n ρ st = .ok (fl, ρ', st) ∧ (fl = .normal ∨ ∃ a, fl = .ret (.ptr a)) := by
  intro s
  induction s with
  | leaf =>
    intro n ρ q par hR h0 h1 hn
    obtain ⟨n', rfl⟩ : ∃ n', n = n' + 1 := ⟨n - 1, by omega⟩
    simp only [Repr] at hR
    subst hR
    have hc : evalE cmpF callH ρ st fnCond = .ok (.bool false, st) := by simp [fnCond, evalE, h1, valEq]
    exact ⟨.normal, ρ, by simp only [iterate, hc], .inl rfl⟩
  | node l a r ihl ihr =>
    intro n ρ q par hR h0 h1 hn
    simp only [Repr] at hR
    obtain ⟨rfl, _, hl, hr⟩ := hR
    simp only [PT.addrs, List.length_append, List.length_cons] at hn
    obtain ⟨n', rfl⟩ : ∃ n', n = n' + 1 := ⟨n - 1, by omega⟩
    have hc : evalE cmpF callH ρ st fnCond = .ok (.bool true, st) := by simp [fnCond, evalE, h1, valEq]
    by_cases c1 : cmpF k (st.h a).key < 0
    · have hb : exec cmpF callH lf ρ st fnBody
          = .ok (.normal, (ρ.set 2 (.int (cmpF k (st.h a).key))).set 1 (.ptr (st.h a).left), st) := by
        simp [fnBody, exec, evalE, h0, h1, Node.get, Env.set, c1]
      obtain ⟨fl, ρ', hit, hfl⟩ := ihl n' ((ρ.set 2 (.int (cmpF k (st.h a).key))).set 1 (.ptr (st.h a).left)) _ _ hl (by simp [Env.set, h0]) (by simp [Env.set]) (by omega)
      exact ⟨fl, ρ', by simp only [iterate, hc, hb, hit], hfl⟩
    · by_cases c2 : cmpF k (st.h a).key > 0
      · have hb : exec cmpF callH lf ρ st fnBody
            = .ok (.normal, (ρ.set 2 (.int (cmpF k (st.h a).key))).set 1 (.ptr (st.h a).right), st) := by
          simp [fnBody, exec, evalE, h0, h1, Node.get, Env.set, c1, c2]
        obtain ⟨fl, ρ', hit, hfl⟩ := ihr n' ((ρ.set 2 (.int (cmpF k (st.h a).key))).set 1 (.ptr (st.h a).right)) _ _ hr (by simp [Env.set, h0]) (by simp [Env.set]) (by omega)
        exact ⟨fl, ρ', by simp only [iterate, hc, hb, hit], hfl⟩
      · have hb : exec cmpF callH lf ρ st fnBody
            = .ok (.ret (.ptr (some a)), ρ.set 2 (.int (cmpF k (st.h a).key)), st) := by
          simp [fnBody, exec, evalE, h0, h1, Node.get, Env.set, c1, c2]
        exact ⟨.ret (.ptr (some a)), ρ.set 2 (.int (cmpF k (st.h a).key)), by simp only [iterate, hc, hb], .inr ⟨_, rfl⟩⟩

theorem findNode_ok {st : St} {t : PT} (hH : Holds st t) (k : Int) (F : Nat) (hF : t.addrs.length + 1 ≤ F) :
    ∃ a, call cmpF procs (F + 1) .findNode [.int k] st = .ok (.ptr a, st) := by
  have h' : call cmpF procs (F + 1) .findNode [.int k] st
      = runBody cmpF (call cmpF procs F) F ⟨1, body_findNode⟩ [.int k] st := rfl
  rw [h', body_findNode_eq]
  obtain ⟨fl, ρ', hit, hfl⟩ := findNode_loop cmpF (call cmpF procs F) F k st t F
    ((Env.ofArgs [.int k]).set 1 (.ptr st.root)) st.root none hH.1 (by simp [Env.set, Env.ofArgs])
    (by simp [Env.set]) hF
  simp only [runBody, exec, evalE, hit]
  rcases hfl with rfl | ⟨a, rfl⟩
  · exact ⟨none, rfl⟩
  · exact ⟨a, rfl⟩

theorem spine_loop (callH : CallH PName) (lf : Nat) (st : St) :
    ∀ (s : PT) (n : Nat) (ρ : Env) (a : Nat) (par : Option Nat), Repr st.h (some a) par s → ρ 1 = .ptr (some a) →
      s.addrs.length ≤ n →
      ∃ ρ', iterate (fun ρ st => evalE cmpF callH ρ st (.ne (.field (.var 1) .left) .nil))
          (fun ρ st => exec cmpF callH lf ρ st (.assign 1 (.field (.var 1) .left))) n ρ st
        = .ok (.normal, ρ', st) := by
  intro s
  induction s with
  | leaf => intro n ρ a par hR; simp [Repr] at hR
  | node l b r ihl _ =>
    intro n ρ a par hR h1 hn
    simp only [Repr] at hR
    obtain ⟨e, _, hl, _⟩ := hR
    cases e
    simp only [PT.addrs, List.length_append, List.length_cons] at hn
    obtain ⟨n', rfl⟩ : ∃ n', n = n' + 1 := ⟨n - 1, by omega⟩
    cases hq : (st.h b).left with
    | none =>
      exact ⟨ρ, by simp [iterate, Succ.cond_eval cmpF callH ρ st b h1, hq]⟩
    | some q =>
      rw [hq] at hl
      obtain ⟨ρ', hit⟩ := ihl n' (ρ.set 1 (.ptr (some q))) q (some b) hl (by simp [Env.set]) (by omega)
      refine ⟨ρ', ?_⟩
      have hc : (!(some q == (none : Option Nat))) = true := by simp
      simp only [iterate, Succ.cond_eval cmpF callH ρ st b h1, Succ.body_eval cmpF callH lf ρ st b h1, hq, hc, hit]

theorem findSuccessor_ok {st : St} {t : PT} (hH : Holds st t) {a : Nat} (ha : a ∈ t.addrs)
    (hr : (st.h a).right ≠ none) (F : Nat) (hF : t.addrs.length ≤ F) :
    ∃ v st', call cmpF procs (F + 1) .findSuccessor [.ptr (some a)] st = .ok (v, st') := by
  have h' : call cmpF procs (F + 1) .findSuccessor [.ptr (some a)] st
      = runBody cmpF (call cmpF procs F) F ⟨1, body_findSuccessor⟩ [.ptr (some a)] st := rfl
  rw [h']
  obtain ⟨sa, hsa⟩ := sub_some_of_mem ha
  obtain ⟨⟨L, R, rfl⟩, _⟩ := sub_spec hsa
  have hlen := sub_length_le hsa
  have hRa := repr_sub hH.1 hsa
  simp only [Repr] at hRa
  obtain ⟨_, _, _, hRR⟩ := hRa
  cases hq : (st.h a).right with
  | none => exact absurd hq hr
  | some q =>
    rw [hq] at hRR
    simp only [PT.addrs, List.length_append, List.length_cons] at hlen
    obtain ⟨ρ', hit⟩ := spine_loop cmpF (call cmpF procs F) F st R F
      ((Env.ofArgs [Val.ptr (some a)]).set 1 (Val.ptr (some q))) q (some a) hRR (by simp [Env.set]) (by omega)
    have hloop : exec cmpF (call cmpF procs F) F ((Env.ofArgs [Val.ptr (some a)]).set 1 (Val.ptr (some q))) st
        (Stmt.loop (.ne (.field (.var 1) .left) .nil) (.assign 1 (.field (.var 1) .left)))
        = .ok (.normal, ρ', st) := hit
    simp only [runBody, body_findSuccessor]
    generalize (Stmt.loop (.ne (.field (.var 1) .left) .nil) (.assign 1 (.field (.var 1) .left)) : Stmt PName)
      = lp at hloop ⊢
    have hv : Env.ofArgs [Val.ptr (some a)] 0 = .ptr (some a) := by simp [Env.ofArgs]
    simp [exec, evalE, hv, valEq, Node.get, hq, hloop]

end descent

/-! ## (7) `deleteNode` -/

section del
open Del
variable (cmpF : Int → Int → Int)

theorem fixAfterDelete_red_ok (f : Nat) {r : Nat} {st : St} (hr : (st.h r).color = false) :
    ∃ v st', call cmpF procs (f + 2) .fixAfterDelete [.ptr (some r)] st = .ok (v, st') := by
  have h' : call cmpF procs (f + 2) .fixAfterDelete [.ptr (some r)] st
      = runBody cmpF (call cmpF procs (f + 1)) (f + 1) ⟨1, body_fixAfterDelete⟩ [.ptr (some r)] st := rfl
  rw [h', Fix.body_fixAfterDelete_eq]
  have h0 : (Env.ofArgs [Val.ptr (some r)]) 0 = .ptr (some r) := by simp [Env.ofArgs]
  have hcond : evalE cmpF (call cmpF procs (f + 1)) (Env.ofArgs [Val.ptr (some r)]) st Fix.condE
      = .ok (.bool false, st) := by
    cases hq : (some r == st.root) <;> simp [Fix.condE, evalE, h0, valEq, getColor_ok, DelRB.colP, hq, hr]
  simp only [runBody, exec, iterate, hcond, evalE, h0, setColor_ok]
  exact ⟨_, _, rfl⟩

theorem tail_ok (f lf : Nat) {ρ : Env} {st : St} {n r : Nat} (h1 : ρ 1 = .ptr (some n)) (h3 : ρ 3 = .ptr (some r))
    (hcol : (st.h n).color = true → (st.h r).color = false) :
    ∃ res, exec cmpF (call cmpF procs (f + 2)) lf ρ st dnTail = .ok res := by
  simp only [dnTail, exec, evalE, h1, h3, getColor_ok, DelRB.colP]
  cases hc : (st.h n).color with
  | false => exact ⟨_, rfl⟩
  | true =>
    obtain ⟨v, st', hf⟩ := fixAfterDelete_red_ok cmpF f (hcol hc)
    simp only [hf]
    exact ⟨_, rfl⟩

theorem cut_ok (callH : CallH PName) (lf : Nat) {ρ : Env} {st : St} {n : Nat} (h1 : ρ 1 = .ptr (some n)) :
    ∃ res, exec cmpF callH lf ρ st dnCut = .ok res := by
  simp only [dnCut, exec, evalE, h1, valEq_ptr, Node.get, Node.set]
  cases hp : (st.h n).parent with
  | none => simp
  | some p =>
    cases hb : (some n == (st.h p).left) <;> cases hb2 : (some n == (st.h p).right) <;>
      simp [hp, valEq_ptr, hb, hb2, h1]

/-- the fix-up before the cut, forward form -/
theorem fix_ok (F lf : Nat) {ρ : Env} {st : St} {t : PT} {n : Nat} (hH : Holds st t) (hn : n ∈ t.addrs)
    (h1 : ρ 1 = .ptr (some n)) (hl : (st.h n).left = none) (hr : (st.h n).right = none)
    (hF : t.addrs.length + 4 ≤ F) :
    ∃ st', exec cmpF (call cmpF procs F) lf ρ st dnFix = .ok (.normal, ρ, st') := by
  obtain ⟨f, rfl⟩ : ∃ f, F = f + 1 := ⟨F - 1, by omega⟩
  simp only [dnFix, exec, evalE, h1, getColor_ok, DelRB.colP]
  cases hc : (st.h n).color with
  | false => exact ⟨_, rfl⟩
  | true =>
    obtain ⟨v, st', hf⟩ := fixAfterDelete_ok cmpF hH hn hl hr f (by omega)
    simp only [hf]
    exact ⟨_, rfl⟩

def IsOk {α : Type} (x : Res α) : Prop := ∃ r, x = .ok r

@[simp] theorem isOk_ok {α : Type} (r : α) : IsOk (Except.ok r : Res α) := ⟨r, rfl⟩

theorem norepl_ok (F lf : Nat) {ρ : Env} {st : St} {t : PT} {n : Nat} (hH : Holds st t) (hn : n ∈ t.addrs)
    (h1 : ρ 1 = .ptr (some n)) (hl : (st.h n).left = none) (hr : (st.h n).right = none)
    (hF : t.addrs.length + 4 ≤ F) :
    IsOk (exec cmpF (call cmpF procs F) lf ρ st dnNoRepl) := by
  simp only [dnNoRepl, exec, evalE, h1, valEq_ptr, Node.get]
  cases hp : (st.h n).parent with
  | none => simp
  | some p =>
    obtain ⟨st', hf⟩ := fix_ok cmpF F lf hH hn h1 hl hr hF
    obtain ⟨res, hc⟩ := cut_ok cmpF (call cmpF procs F) lf (st := st') h1
    simp [hf, hc]

theorem splice_ok (f lf : Nat) {ρ : Env} {st : St} {t : PT} {n r : Nat} (hH : Holds st t) (hRB : RB st t)
    (hn : n ∈ t.addrs) (hρ1 : ρ 1 = .ptr (some n)) (hρ3 : ρ 3 = .ptr (some r))
    (hrn : ((st.h n).left = some r ∧ (st.h n).right = none) ∨ ((st.h n).left = none ∧ (st.h n).right = some r)) :
    IsOk (exec cmpF (call cmpF procs (f + 2)) lf ρ st dnSplice) := by
  obtain ⟨hnb, hrr, hrn', hpn, hsp⟩ := DelRB.splice_rb hH hRB hn hrn
  have hnr : n ≠ r := Ne.symm hrn'
  simp only [dnSplice, dnLink, exec, evalE, hρ1, hρ3, valEq_ptr, Node.get, Node.set]
  cases hp : (st.h n).parent with
  | none =>
    simp [hp, upd_ne, hnr, hρ1]
    exact tail_ok cmpF f lf hρ1 hρ3 (fun _ => by simp [upd_ne, upd_same, hrn', hrr])
  | some p =>
    obtain ⟨hpn1, hpr⟩ := hpn p hp
    simp [hp, upd_ne, hnr, hpr, valEq_ptr]
    cases hb : (some n == (st.h p).left) with
    | true =>
      simp [hb, hp, upd_ne, upd_same, hnr, hpr, hρ1, Ne.symm hpn1]
      exact tail_ok cmpF f lf hρ1 hρ3 (fun _ => by simp [upd_ne, upd_same, hrn', hrr, Ne.symm hpr])
    | false =>
      simp [hb, hp, upd_ne, upd_same, hnr, hpr, hρ1, Ne.symm hpn1]
      exact tail_ok cmpF f lf hρ1 hρ3 (fun _ => by simp [upd_ne, upd_same, hrn', hrr, Ne.symm hpr])

theorem succ_ok (F lf : Nat) {ρ : Env} {st : St} {t : PT} {n : Nat} (hH : Holds st t)
    (hρ : ρ 1 = .ptr (some n)) (hn : n ∈ t.addrs) (hF : t.addrs.length + 1 ≤ F) :
    IsOk (exec cmpF (call cmpF procs F) lf ρ st dnSucc) := by
  obtain ⟨f, rfl⟩ : ∃ f, F = f + 1 := ⟨F - 1, by omega⟩
  simp only [dnSucc, exec, evalE, hρ, valEq_ptr, Node.get]
  cases hl : (st.h n).left with
  | none => simp [hl]
  | some l =>
    cases hr : (st.h n).right with
    | none => simp [hl, hr]
    | some r =>
      obtain ⟨v, st1, hc⟩ := findSuccessor_ok cmpF hH hn (by simp [hr]) f (by omega)
      obtain ⟨rfl, s, pre, post, rfl, hL, hsl⟩ := call_findSuccessor cmpF _ _ _ _ _ t hH hn (by simp [hr]) hc
      simp [hl, hr, hc, Env.set, hρ, Node.set]

theorem rest_ok (F lf : Nat) {ρ : Env} {st : St} {t : PT} {n : Nat} (hH : Holds st t) (hRB : RB st t)
    (hn : n ∈ t.addrs) (hρ1 : ρ 1 = .ptr (some n)) (hlf : (st.h n).left = none ∨ (st.h n).right = none)
    (hF : t.addrs.length + 4 ≤ F) :
    IsOk (exec cmpF (call cmpF procs F) lf ρ st dnRest) := by
  obtain ⟨f, rfl⟩ : ∃ f, F = f + 2 := ⟨F - 2, by omega⟩
  simp only [dnRest, exec, evalE]
  have hρ1' : (ρ.set 3 (.ptr none)) 1 = .ptr (some n) := by simp [Env.set, hρ1]
  have hsplice : ∀ r, (((st.h n).left = some r ∧ (st.h n).right = none) ∨
      ((st.h n).left = none ∧ (st.h n).right = some r)) →
      ∃ ρ3 st3, exec cmpF (call cmpF procs (f + 2)) lf ((ρ.set 3 (.ptr none)).set 3 (.ptr (some r))) st dnSplice
        = .ok (.normal, ρ3, st3) := by
    intro r hrn
    have e1 : ((ρ.set 3 (.ptr none)).set 3 (.ptr (some r))) 1 = .ptr (some n) := by simp [Env.set, hρ1]
    have e3 : ((ρ.set 3 (.ptr none)).set 3 (.ptr (some r))) 3 = .ptr (some r) := by simp [Env.set]
    obtain ⟨⟨fl3, ρ3, st3⟩, hs⟩ := splice_ok cmpF f lf hH hRB hn e1 e3 hrn
    obtain ⟨rfl, _⟩ := DelRB.g_splice cmpF (f + 2) lf _ _ _ _ _ t n r hH hRB hn e1 e3 hrn hs
    exact ⟨ρ3, st3, hs⟩
  cases hl : (st.h n).left with
  | some l =>
    have h2 : exec cmpF (call cmpF procs (f + 2)) lf (ρ.set 3 (.ptr none)) st dnPick
        = .ok (.normal, (ρ.set 3 (.ptr none)).set 3 (.ptr (some l)), st) := by
      simp [dnPick, exec, evalE, hρ1', valEq_ptr, Node.get, hl]
    have hr : (st.h n).right = none := by
      rcases hlf with e | e
      · rw [hl] at e; cases e
      · exact e
    obtain ⟨ρ3, st3, hs⟩ := hsplice l (.inl ⟨hl, hr⟩)
    simp [h2, Env.set, valEq_ptr, hs]
  | none =>
    have h2 : exec cmpF (call cmpF procs (f + 2)) lf (ρ.set 3 (.ptr none)) st dnPick
        = .ok (.normal, (ρ.set 3 (.ptr none)).set 3 (.ptr (st.h n).right), st) := by
      simp [dnPick, exec, evalE, hρ1', valEq_ptr, Node.get, hl]
    cases hr : (st.h n).right with
    | some r =>
      obtain ⟨ρ3, st3, hs⟩ := hsplice r (.inr ⟨hl, hr⟩)
      rw [hr] at h2
      simp [h2, Env.set, valEq_ptr, hs]
    | none =>
      rw [hr] at h2
      have e1 : ((ρ.set 3 (.ptr none)).set 3 (.ptr none)) 1 = .ptr (some n) := by simp [Env.set, hρ1]
      obtain ⟨⟨fl3, ρ3, st3⟩, hs⟩ := norepl_ok cmpF (f + 2) lf hH hn e1 hl hr hF
      obtain ⟨rfl, _⟩ := DelRB.g_norepl cmpF (f + 2) lf _ _ _ _ _ t n hH hRB hn e1 hl hr hs
      simp [h2, Env.set, valEq_ptr, hs]

theorem deleteNode_ok {st : St} {t : PT} {a : Nat} (hH : Holds st t) (hRB : RB st t) (ha : a ∈ t.addrs)
    (F : Nat) (hF : t.addrs.length + 4 ≤ F) :
    ∃ v st', call cmpF procs (F + 1) .deleteNode [.ptr (some a)] st = .ok (v, st') := by
  have h' : call cmpF procs (F + 1) .deleteNode [.ptr (some a)] st
      = runBody cmpF (call cmpF procs F) F ⟨1, body_deleteNode⟩ [.ptr (some a)] st := rfl
  rw [h', body_deleteNode_eq']
  simp only [runBody, exec, evalE]
  have hρ0 : ((Env.ofArgs [Val.ptr (some a)]).set 1 (Env.ofArgs [Val.ptr (some a)] 0)) 1 = .ptr (some a) := by
    simp [Env.set, Env.ofArgs]
  generalize ((Env.ofArgs [Val.ptr (some a)]).set 1 (Env.ofArgs [Val.ptr (some a)] 0)) = ρ0 at hρ0 ⊢
  obtain ⟨⟨fl1, ρ1, st1⟩, h1⟩ := succ_ok cmpF F F hH hρ0 ha (by omega)
  obtain ⟨rfl, n, ⟨hH1, hRB1⟩, hρ1, hn, hlf⟩ := DelRB.g_succ cmpF F F _ _ _ _ _ t a hH hRB hρ0 ha h1
  obtain ⟨⟨fl2, ρ2, st2⟩, h2⟩ := rest_ok cmpF F F hH1 hRB1 hn hρ1 hlf hF
  obtain ⟨rfl, _⟩ := DelRB.g_rest cmpF F F _ _ _ _ _ t n hH1 hRB1 hn hρ1 hlf h2
  simp [h1, h2]

end del

/-! ## (8) `Delete` -/

theorem delete_returns (cmpF : Int → Int → Int)
    (hmono : ∀ f f', f ≤ f' → ∀ fn args st r, call cmpF procs f fn args st = .ok r → call cmpF procs f' fn args st = .ok r)
    (st : St) (t : PT) (hH : Holds st t) (hR : RB st t) (k : Int) :
    ∃ F, ∀ fuel, F ≤ fuel → ∃ r st', call cmpF procs fuel .Delete [.int k] st = .ok (r, st') := by
  refine ⟨t.addrs.length + 6, fun fuel hfuel => ?_⟩
  obtain ⟨f, rfl⟩ : ∃ f, fuel = f + 2 := ⟨fuel - 2, by omega⟩
  have h' : call cmpF procs (f + 2) .Delete [.int k] st
      = runBody cmpF (call cmpF procs (f + 1)) (f + 1) ⟨1, body_Delete⟩ [.int k] st := rfl
  rw [h']
  obtain ⟨x, h1⟩ := findNode_ok cmpF hH k f (by omega)
  simp only [runBody, body_Delete, exec, evalE, Env.ofArgs, List.getD, Env.set]
  cases x with
  | none => simp [h1, valEq, Env.set]
  | some a =>
    have P1' : a ∈ t.addrs := by
      obtain ⟨t1, H1', S1, P⟩ := call_specK cmpF (f + 1) .findNode rfl [Val.int k] st _ st t hH
        (by simp [PtrIn]) h1
      exact (S1.same a).1 P
    obtain ⟨y, st2, h2⟩ := deleteNode_ok cmpF hH hR P1' f (by omega)
    simp [h1, valEq, Env.set, h2]

end Ekit.MiniGo.RBHeap.ProgDel

