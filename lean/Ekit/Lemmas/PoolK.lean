/-
Layer K (C10, "the pool keeps its core workers"): while the pool has not been shut down and no worker has
taken the idle-timeout exit, the live-worker counter never falls below min(coreGo, its high-water mark):
the only other exit of a running pool, the above-core exit, is decided and performed inside one
critical section of `mutex` (`coreGo < totalGo` is checked on the very value that is decremented).
Moving the decrement out of that critical section breaks this invariant (seeded defect C10-c).
-/
import Ekit.Lemmas.PoolG2
namespace Ekit.Pool

def LK (c : Cfg) : Loc where
  G s := s.idleExits = 0 → shutBegun s.life = false → min c.coreGo s.hwmGo ≤ s.totalGo
  W _ _ _ := True
  C _ _ _ := True

theorem invK_init (c : Cfg) : (LK c).Inv init := by
  refine ⟨?_, ?_, ?_⟩ <;> simp [LK, init]

theorem invK_wstep (c : Cfg) (s s' : St) (i : Nat) (a : WAct) (hA : InvA s) (hB : LB.Inv s) (hG : LG.Inv s)
    (hi : (LK c).Inv s) (h : wStep c s i a = some s') : (LK c).Inv s' := by
  unfold wStep at h
  split at h
  next w hw =>
    have hg := hi.glob
    have hbi := hB.wk i w hw
    have hgw := hG.wk i w hw
    have hgg := hG.glob.2
    have hcb := hA.glob.closed_begun
    simp only [LK] at hg
    simp only [LB] at hbi
    simp only [LG] at hgw hgg
    simp only [St.ga] at hcb
    cases a <;> simp only [wAct] at h <;> (repeat' (split at h)) <;> (try simp at h) <;> (try subst h) <;>
      (refine Loc.inv_worker hw rfl rfl hi ?_ (fun _ => trivial) (fun _ _ _ _ _ => trivial) (fun _ _ => trivial)
       first
       | exact hi.glob
       | (simp only [LK]; cases hlife : s.life <;> simp_all [exitAboveCore] <;> omega))
  next => simp at h

set_option maxHeartbeats 1000000 in
theorem invK_cstep (c : Cfg) (s s' : St) (t : Nat) (a : CAct) (hB : LB.Inv s) (hi : (LK c).Inv s)
    (h : cAct c s t (s.callers t) a = some s') : (LK c).Inv s' := by
  have hg := hi.glob
  have hbt := hB.cl t
  simp only [LK] at hg
  simp only [LB] at hbt
  cases a <;> simp only [cAct, toUnlock] at h <;> (repeat' (split at h)) <;> (try simp at h) <;> (try subst h) <;>
    first
    | exact Loc.inv_global (s := s) rfl rfl hi hi.glob (fun _ _ => trivial) (fun _ _ _ _ => trivial)
    | exact Loc.inv_spawn (s := s) (t := t) rfl rfl hi hi.glob (fun _ => trivial) (fun _ _ _ => trivial)
        (fun _ _ _ _ => trivial) trivial
    | exact Loc.inv_rendezvous (s := s) (t := t) rfl rfl hi hi.glob (fun _ => trivial) (fun _ _ _ => trivial)
        (fun _ _ _ => trivial) (fun _ _ _ _ _ => trivial)
    | exact Loc.inv_caller (s := s) (t := t) rfl rfl hi hi.glob (fun _ => trivial) (fun _ _ _ => trivial)
        (fun _ _ _ _ => trivial)
    | (refine Loc.inv_global (s := s) rfl rfl hi ?_ (fun _ _ => trivial) (fun _ _ _ _ => trivial)
       simp only [LK]; cases hlife : s.life <;> simp_all <;> omega)
    | (refine Loc.inv_caller (s := s) (t := t) rfl rfl hi ?_ (fun _ => trivial) (fun _ _ _ => trivial)
         (fun _ _ _ _ => trivial)
       simp only [LK, St.setC, St.recSub]; cases hlife : s.life <;> simp_all <;> omega)

end Ekit.Pool
