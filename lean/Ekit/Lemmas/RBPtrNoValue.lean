/-
Fifth generic contract: procedures that never assign a `value` field, never allocate and call only procedures of the
same kind leave the value of every node as it is (everything except `setNode`, `Set`, `deleteNode`, `Delete` and the
allocating `newRBNode`, `addNode`, `Add`): in particular the rotations and all fix-up procedures.
-/
import Ekit.MiniGo.RBContract

namespace Ekit.MiniGo.RBHeap
open Ekit.MiniGo Ekit.Gen.RBTreeGo

/-- no value changed -/
def ValSame (st st' : St) : Prop := ∀ a, (st'.h a).value = (st.h a).value

theorem ValSame.refl (st : St) : ValSame st st := fun _ => rfl
theorem ValSame.trans {a b c : St} (h1 : ValSame a b) (h2 : ValSame b c) : ValSame a c :=
  fun x => (h2 x).trans (h1 x)

def isNoVal : PName → Bool
  | .setNode | .Set | .deleteNode | .Delete | .newRBNode | .addNode | .Add => false
  | _ => true

def nvE : Expr PName → Bool
  | .nil | .int _ | .bool _ | .err _ | .unit | .var _ | .root | .size => true
  | .field e _ => nvE e
  | .cmp a b | .eq a b | .ne a b | .lt a b | .gt a b | .and a b | .or a b | .add a b => nvE a && nvE b
  | .not a => nvE a
  | .call0 fn => isNoVal fn
  | .call1 fn a => isNoVal fn && nvE a
  | .call2 fn a b => isNoVal fn && nvE a && nvE b
  | .call3 fn a b c => isNoVal fn && nvE a && nvE b && nvE c
  | .alloc .. => false

def nvS : Stmt PName → Bool
  | .skip | .continue_ | .break_ => true
  | .seq a b => nvS a && nvS b
  | .assign _ e => nvE e
  | .setField p f e => (f != .value) && nvE p && nvE e
  | .setRoot e => nvE e
  | .setSize e => nvE e
  | .ite c t e => nvE c && nvS t && nvS e
  | .loop c b => nvE c && nvS b
  | .ret e => nvE e
  | .ret2 a b => nvE a && nvE b
  | .expr e => nvE e

theorem noval_procs : ∀ fn, isNoVal fn = true → nvS (procs fn).body = true := by
  intro fn; cases fn <;> decide

def SpecNoVal (callH : CallH PName) (fn : PName) : Prop :=
  ∀ args st v st', callH fn args st = .ok (v, st') → ValSame st st'

theorem set_nonvalue {n m : Node} {f : Fld} {v : Val} (hf : (f != Fld.value) = true) (h : n.set f v = some m) :
    m.value = n.value := by
  cases f <;> cases v <;> simp [Node.set] at h hf <;> subst h <;> rfl

section
variable (cmpF : Int → Int → Int) (callH : CallH PName) (hV : ∀ fn, isNoVal fn = true → SpecNoVal callH fn)
include hV

def VGoodE (e : Expr PName) : Prop :=
  ∀ ρ st v st', evalE cmpF callH ρ st e = .ok (v, st') → ValSame st st'

theorem evalE_nv : ∀ e : Expr PName, nvE e = true → VGoodE cmpF callH e := by
  intro e
  induction e with
  | nil => intro _ ρ st v st' h; simp [evalE] at h; obtain ⟨_, rfl⟩ := h; exact .refl _
  | int i => intro _ ρ st v st' h; simp [evalE] at h; obtain ⟨_, rfl⟩ := h; exact .refl _
  | bool b => intro _ ρ st v st' h; simp [evalE] at h; obtain ⟨_, rfl⟩ := h; exact .refl _
  | err c => intro _ ρ st v st' h; simp [evalE] at h; obtain ⟨_, rfl⟩ := h; exact .refl _
  | unit => intro _ ρ st v st' h; simp [evalE] at h; obtain ⟨_, rfl⟩ := h; exact .refl _
  | var x => intro _ ρ st v st' h; simp [evalE] at h; obtain ⟨_, rfl⟩ := h; exact .refl _
  | root => intro _ ρ st v st' h; simp [evalE] at h; obtain ⟨_, rfl⟩ := h; exact .refl _
  | size => intro _ ρ st v st' h; simp [evalE] at h; obtain ⟨_, rfl⟩ := h; exact .refl _
  | field e f ih =>
    intro hs ρ st v st' h
    simp only [nvE] at hs
    simp only [evalE] at h
    cases he : evalE cmpF callH ρ st e with
    | error x => simp [he] at h
    | ok r =>
      obtain ⟨x, st1⟩ := r
      have S1 := ih hs ρ st x st1 he
      rw [he] at h
      cases x with
      | ptr p =>
        cases p with
        | none => simp at h
        | some a => simp at h; obtain ⟨_, rfl⟩ := h; exact S1
      | _ => simp at h
  | cmp a b iha ihb =>
    intro hs ρ st v st' h
    simp only [nvE, Bool.and_eq_true] at hs
    simp only [evalE] at h
    cases h1 : evalE cmpF callH ρ st a with
    | error x => simp [h1] at h
    | ok r1 =>
      obtain ⟨x, st1⟩ := r1
      rw [h1] at h
      cases x with
      | int xi =>
        simp only at h
        cases h2 : evalE cmpF callH ρ st1 b with
        | error x => simp [h2] at h
        | ok r2 =>
          obtain ⟨y, st2⟩ := r2
          rw [h2] at h
          cases y <;> simp at h
          obtain ⟨_, rfl⟩ := h
          exact (iha hs.1 ρ st _ st1 h1).trans (ihb hs.2 ρ st1 _ st2 h2)
      | _ => simp at h
  | lt a b iha ihb =>
    intro hs ρ st v st' h
    simp only [nvE, Bool.and_eq_true] at hs
    simp only [evalE] at h
    cases h1 : evalE cmpF callH ρ st a with
    | error x => simp [h1] at h
    | ok r1 =>
      obtain ⟨x, st1⟩ := r1
      rw [h1] at h
      cases x with
      | int xi =>
        simp only at h
        cases h2 : evalE cmpF callH ρ st1 b with
        | error x => simp [h2] at h
        | ok r2 =>
          obtain ⟨y, st2⟩ := r2
          rw [h2] at h
          cases y <;> simp at h
          obtain ⟨_, rfl⟩ := h
          exact (iha hs.1 ρ st _ st1 h1).trans (ihb hs.2 ρ st1 _ st2 h2)
      | _ => simp at h
  | gt a b iha ihb =>
    intro hs ρ st v st' h
    simp only [nvE, Bool.and_eq_true] at hs
    simp only [evalE] at h
    cases h1 : evalE cmpF callH ρ st a with
    | error x => simp [h1] at h
    | ok r1 =>
      obtain ⟨x, st1⟩ := r1
      rw [h1] at h
      cases x with
      | int xi =>
        simp only at h
        cases h2 : evalE cmpF callH ρ st1 b with
        | error x => simp [h2] at h
        | ok r2 =>
          obtain ⟨y, st2⟩ := r2
          rw [h2] at h
          cases y <;> simp at h
          obtain ⟨_, rfl⟩ := h
          exact (iha hs.1 ρ st _ st1 h1).trans (ihb hs.2 ρ st1 _ st2 h2)
      | _ => simp at h
  | add a b iha ihb =>
    intro hs ρ st v st' h
    simp only [nvE, Bool.and_eq_true] at hs
    simp only [evalE] at h
    cases h1 : evalE cmpF callH ρ st a with
    | error x => simp [h1] at h
    | ok r1 =>
      obtain ⟨x, st1⟩ := r1
      rw [h1] at h
      cases x with
      | int xi =>
        simp only at h
        cases h2 : evalE cmpF callH ρ st1 b with
        | error x => simp [h2] at h
        | ok r2 =>
          obtain ⟨y, st2⟩ := r2
          rw [h2] at h
          cases y <;> simp at h
          obtain ⟨_, rfl⟩ := h
          exact (iha hs.1 ρ st _ st1 h1).trans (ihb hs.2 ρ st1 _ st2 h2)
      | _ => simp at h
  | eq a b iha ihb =>
    intro hs ρ st v st' h
    simp only [nvE, Bool.and_eq_true] at hs
    simp only [evalE] at h
    cases h1 : evalE cmpF callH ρ st a with
    | error x => simp [h1] at h
    | ok r1 =>
      obtain ⟨x, st1⟩ := r1
      rw [h1] at h
      simp only at h
      cases h2 : evalE cmpF callH ρ st1 b with
      | error x => simp [h2] at h
      | ok r2 =>
        obtain ⟨y, st2⟩ := r2
        rw [h2] at h
        simp only at h
        cases hv : valEq x y with
        | none => simp [hv] at h
        | some r =>
          simp [hv] at h; obtain ⟨_, rfl⟩ := h
          exact (iha hs.1 ρ st x st1 h1).trans (ihb hs.2 ρ st1 y st2 h2)
  | ne a b iha ihb =>
    intro hs ρ st v st' h
    simp only [nvE, Bool.and_eq_true] at hs
    simp only [evalE] at h
    cases h1 : evalE cmpF callH ρ st a with
    | error x => simp [h1] at h
    | ok r1 =>
      obtain ⟨x, st1⟩ := r1
      rw [h1] at h
      simp only at h
      cases h2 : evalE cmpF callH ρ st1 b with
      | error x => simp [h2] at h
      | ok r2 =>
        obtain ⟨y, st2⟩ := r2
        rw [h2] at h
        simp only at h
        cases hv : valEq x y with
        | none => simp [hv] at h
        | some r =>
          simp [hv] at h; obtain ⟨_, rfl⟩ := h
          exact (iha hs.1 ρ st x st1 h1).trans (ihb hs.2 ρ st1 y st2 h2)
  | and a b iha ihb =>
    intro hs ρ st v st' h
    simp only [nvE, Bool.and_eq_true] at hs
    simp only [evalE] at h
    cases h1 : evalE cmpF callH ρ st a with
    | error x => simp [h1] at h
    | ok r1 =>
      obtain ⟨x, st1⟩ := r1
      rw [h1] at h
      have S1 := iha hs.1 ρ st x st1 h1
      cases x with
      | bool xb =>
        cases xb with
        | false => simp at h; obtain ⟨_, rfl⟩ := h; exact S1
        | true =>
          simp only at h
          cases h2 : evalE cmpF callH ρ st1 b with
          | error x => simp [h2] at h
          | ok r2 =>
            obtain ⟨y, st2⟩ := r2
            rw [h2] at h
            have S2 := ihb hs.2 ρ st1 y st2 h2
            cases y <;> simp at h
            obtain ⟨_, rfl⟩ := h
            exact S1.trans S2
      | _ => simp at h
  | or a b iha ihb =>
    intro hs ρ st v st' h
    simp only [nvE, Bool.and_eq_true] at hs
    simp only [evalE] at h
    cases h1 : evalE cmpF callH ρ st a with
    | error x => simp [h1] at h
    | ok r1 =>
      obtain ⟨x, st1⟩ := r1
      rw [h1] at h
      have S1 := iha hs.1 ρ st x st1 h1
      cases x with
      | bool xb =>
        cases xb with
        | true => simp at h; obtain ⟨_, rfl⟩ := h; exact S1
        | false =>
          simp only at h
          cases h2 : evalE cmpF callH ρ st1 b with
          | error x => simp [h2] at h
          | ok r2 =>
            obtain ⟨y, st2⟩ := r2
            rw [h2] at h
            have S2 := ihb hs.2 ρ st1 y st2 h2
            cases y <;> simp at h
            obtain ⟨_, rfl⟩ := h
            exact S1.trans S2
      | _ => simp at h
  | not a iha =>
    intro hs ρ st v st' h
    simp only [nvE] at hs
    simp only [evalE] at h
    cases h1 : evalE cmpF callH ρ st a with
    | error x => simp [h1] at h
    | ok r1 =>
      obtain ⟨x, st1⟩ := r1
      rw [h1] at h
      have S1 := iha hs ρ st x st1 h1
      cases x <;> simp at h
      obtain ⟨_, rfl⟩ := h
      exact S1
  | call0 fn =>
    intro hs ρ st v st' h
    simp only [nvE] at hs
    simp only [evalE] at h
    exact hV fn hs [] st v st' h
  | call1 fn a iha =>
    intro hs ρ st v st' h
    simp only [nvE, Bool.and_eq_true] at hs
    simp only [evalE] at h
    cases h1 : evalE cmpF callH ρ st a with
    | error x => simp [h1] at h
    | ok r1 =>
      obtain ⟨x, st1⟩ := r1
      rw [h1] at h
      exact (iha hs.2 ρ st x st1 h1).trans (hV fn hs.1 [x] st1 v st' h)
  | call2 fn a b iha ihb =>
    intro hs ρ st v st' h
    simp only [nvE, Bool.and_eq_true] at hs
    simp only [evalE] at h
    cases h1 : evalE cmpF callH ρ st a with
    | error x => simp [h1] at h
    | ok r1 =>
      obtain ⟨x, st1⟩ := r1
      rw [h1] at h
      simp only at h
      cases h2 : evalE cmpF callH ρ st1 b with
      | error x => simp [h2] at h
      | ok r2 =>
        obtain ⟨y, st2⟩ := r2
        rw [h2] at h
        exact ((iha hs.1.2 ρ st x st1 h1).trans (ihb hs.2 ρ st1 y st2 h2)).trans (hV fn hs.1.1 [x, y] st2 v st' h)
  | call3 fn a b c iha ihb ihc =>
    intro hs ρ st v st' h
    simp only [nvE, Bool.and_eq_true] at hs
    simp only [evalE] at h
    cases h1 : evalE cmpF callH ρ st a with
    | error x => simp [h1] at h
    | ok r1 =>
      obtain ⟨x, st1⟩ := r1
      rw [h1] at h
      simp only at h
      cases h2 : evalE cmpF callH ρ st1 b with
      | error x => simp [h2] at h
      | ok r2 =>
        obtain ⟨y, st2⟩ := r2
        rw [h2] at h
        simp only at h
        cases h3 : evalE cmpF callH ρ st2 c with
        | error x => simp [h3] at h
        | ok r3 =>
          obtain ⟨z, st3⟩ := r3
          rw [h3] at h
          exact (((iha hs.1.1.2 ρ st x st1 h1).trans (ihb hs.1.2 ρ st1 y st2 h2)).trans
            (ihc hs.2 ρ st2 z st3 h3)).trans (hV fn hs.1.1.1 [x, y, z] st3 v st' h)
  | alloc c k v l r p => intro hs; simp [nvE] at hs

def VGoodS (lf : Nat) (s : Stmt PName) : Prop :=
  ∀ ρ st fl ρ' st', exec cmpF callH lf ρ st s = .ok (fl, ρ', st') → ValSame st st'

omit hV in
theorem iterate_nv {cond : Env → St → Res (Val × St)} {body : Env → St → Res (Flow × Env × St)}
    (hc : ∀ ρ st v st', cond ρ st = .ok (v, st') → ValSame st st')
    (hb : ∀ ρ st fl ρ' st', body ρ st = .ok (fl, ρ', st') → ValSame st st') :
    ∀ n ρ st fl ρ' st', iterate cond body n ρ st = .ok (fl, ρ', st') → ValSame st st' := by
  intro n
  induction n with
  | zero => intro ρ st fl ρ' st' h; simp [iterate] at h
  | succ n ih =>
    intro ρ st fl ρ' st' h
    simp only [iterate] at h
    cases h1 : cond ρ st with
    | error x => simp [h1] at h
    | ok r1 =>
      obtain ⟨x, st1⟩ := r1
      rw [h1] at h
      have S1 := hc ρ st x st1 h1
      cases x with
      | bool xb =>
        cases xb with
        | false => simp at h; obtain ⟨_, _, rfl⟩ := h; exact S1
        | true =>
          simp only at h
          cases h2 : body ρ st1 with
          | error x => simp [h2] at h
          | ok r2 =>
            obtain ⟨fl2, ρ2, st2⟩ := r2
            rw [h2] at h
            have S2 := hb ρ st1 fl2 ρ2 st2 h2
            cases fl2 with
            | normal => simp only at h; exact (S1.trans S2).trans (ih ρ2 st2 fl ρ' st' h)
            | cont => simp only at h; exact (S1.trans S2).trans (ih ρ2 st2 fl ρ' st' h)
            | brk => simp at h; obtain ⟨_, _, rfl⟩ := h; exact S1.trans S2
            | ret w => simp at h; obtain ⟨_, _, rfl⟩ := h; exact S1.trans S2
      | _ => simp at h

theorem exec_nv (lf : Nat) : ∀ s : Stmt PName, nvS s = true → VGoodS cmpF callH lf s := by
  intro s
  induction s with
  | skip => intro _ ρ st fl ρ' st' h; simp [exec] at h; obtain ⟨_, _, rfl⟩ := h; exact .refl _
  | continue_ => intro _ ρ st fl ρ' st' h; simp [exec] at h; obtain ⟨_, _, rfl⟩ := h; exact .refl _
  | break_ => intro _ ρ st fl ρ' st' h; simp [exec] at h; obtain ⟨_, _, rfl⟩ := h; exact .refl _
  | seq a b iha ihb =>
    intro hs ρ st fl ρ' st' h
    simp only [nvS, Bool.and_eq_true] at hs
    simp only [exec] at h
    cases h1 : exec cmpF callH lf ρ st a with
    | error x => simp [h1] at h
    | ok r1 =>
      obtain ⟨fl1, ρ1, st1⟩ := r1
      rw [h1] at h
      have S1 := iha hs.1 ρ st fl1 ρ1 st1 h1
      cases fl1 with
      | normal => simp only at h; exact S1.trans (ihb hs.2 ρ1 st1 fl ρ' st' h)
      | cont => simp at h; obtain ⟨_, _, rfl⟩ := h; exact S1
      | brk => simp at h; obtain ⟨_, _, rfl⟩ := h; exact S1
      | ret w => simp at h; obtain ⟨_, _, rfl⟩ := h; exact S1
  | assign x e =>
    intro hs ρ st fl ρ' st' h
    simp only [nvS] at hs
    simp only [exec] at h
    cases h1 : evalE cmpF callH ρ st e with
    | error x => simp [h1] at h
    | ok r1 =>
      obtain ⟨v, st1⟩ := r1
      rw [h1] at h
      simp at h; obtain ⟨_, _, rfl⟩ := h
      exact evalE_nv cmpF callH hV e hs ρ st v st1 h1
  | setField p f e =>
    intro hs ρ st fl ρ' st' h
    simp only [nvS, Bool.and_eq_true] at hs
    simp only [exec] at h
    cases h1 : evalE cmpF callH ρ st p with
    | error x => simp [h1] at h
    | ok r1 =>
      obtain ⟨pv, st1⟩ := r1
      rw [h1] at h
      simp only at h
      cases h2 : evalE cmpF callH ρ st1 e with
      | error x => simp [h2] at h
      | ok r2 =>
        obtain ⟨v, st2⟩ := r2
        rw [h2] at h
        have S2 := (evalE_nv cmpF callH hV p hs.1.2 ρ st pv st1 h1).trans
          (evalE_nv cmpF callH hV e hs.2 ρ st1 v st2 h2)
        cases pv with
        | ptr q =>
          cases q with
          | none => simp at h
          | some a =>
            simp only at h
            cases h3 : (st2.h a).set f v with
            | none => simp [h3] at h
            | some n =>
              simp [h3] at h; obtain ⟨_, _, rfl⟩ := h
              refine S2.trans (fun b => ?_)
              simp only [upd]
              split
              · next e => subst e; exact set_nonvalue hs.1.1 h3
              · rfl
        | _ => simp at h
  | setRoot e =>
    intro hs ρ st fl ρ' st' h
    simp only [nvS] at hs
    simp only [exec] at h
    cases h1 : evalE cmpF callH ρ st e with
    | error x => simp [h1] at h
    | ok r1 =>
      obtain ⟨v, st1⟩ := r1
      rw [h1] at h
      have S1 := evalE_nv cmpF callH hV e hs ρ st v st1 h1
      cases v with
      | ptr q => simp at h; obtain ⟨_, _, rfl⟩ := h; exact S1
      | _ => simp at h
  | setSize e =>
    intro hs ρ st fl ρ' st' h
    simp only [nvS] at hs
    simp only [exec] at h
    cases h1 : evalE cmpF callH ρ st e with
    | error x => simp [h1] at h
    | ok r1 =>
      obtain ⟨v, st1⟩ := r1
      rw [h1] at h
      have S1 := evalE_nv cmpF callH hV e hs ρ st v st1 h1
      cases v with
      | int i =>
        simp at h; obtain ⟨_, _, rfl⟩ := h
        exact S1.trans (fun _ => rfl)
      | _ => simp at h
  | ite c a b iha ihb =>
    intro hs ρ st fl ρ' st' h
    simp only [nvS, Bool.and_eq_true] at hs
    simp only [exec] at h
    cases h1 : evalE cmpF callH ρ st c with
    | error x => simp [h1] at h
    | ok r1 =>
      obtain ⟨v, st1⟩ := r1
      rw [h1] at h
      have S1 := evalE_nv cmpF callH hV c hs.1.1 ρ st v st1 h1
      cases v with
      | bool vb =>
        cases vb with
        | true => simp only at h; exact S1.trans (iha hs.1.2 ρ st1 fl ρ' st' h)
        | false => simp only at h; exact S1.trans (ihb hs.2 ρ st1 fl ρ' st' h)
      | _ => simp at h
  | loop c b ihb =>
    intro hs ρ st fl ρ' st' h
    simp only [nvS, Bool.and_eq_true] at hs
    simp only [exec] at h
    exact iterate_nv (fun ρ st v st' h => evalE_nv cmpF callH hV c hs.1 ρ st v st' h)
      (fun ρ st fl ρ' st' h => ihb hs.2 ρ st fl ρ' st' h) lf ρ st fl ρ' st' h
  | ret e =>
    intro hs ρ st fl ρ' st' h
    simp only [nvS] at hs
    simp only [exec] at h
    cases h1 : evalE cmpF callH ρ st e with
    | error x => simp [h1] at h
    | ok r1 =>
      obtain ⟨v, st1⟩ := r1
      rw [h1] at h
      simp at h; obtain ⟨_, _, rfl⟩ := h
      exact evalE_nv cmpF callH hV e hs ρ st v st1 h1
  | ret2 a b =>
    intro hs ρ st fl ρ' st' h
    simp only [nvS, Bool.and_eq_true] at hs
    simp only [exec] at h
    cases h1 : evalE cmpF callH ρ st a with
    | error x => simp [h1] at h
    | ok r1 =>
      obtain ⟨x, st1⟩ := r1
      rw [h1] at h
      simp only at h
      cases h2 : evalE cmpF callH ρ st1 b with
      | error x => simp [h2] at h
      | ok r2 =>
        obtain ⟨y, st2⟩ := r2
        rw [h2] at h
        simp at h; obtain ⟨_, _, rfl⟩ := h
        exact (evalE_nv cmpF callH hV a hs.1 ρ st x st1 h1).trans (evalE_nv cmpF callH hV b hs.2 ρ st1 y st2 h2)
  | expr e =>
    intro hs ρ st fl ρ' st' h
    simp only [nvS] at hs
    simp only [exec] at h
    cases h1 : evalE cmpF callH ρ st e with
    | error x => simp [h1] at h
    | ok r1 =>
      obtain ⟨v, st1⟩ := r1
      rw [h1] at h
      simp at h; obtain ⟨_, _, rfl⟩ := h
      exact evalE_nv cmpF callH hV e hs ρ st v st1 h1

theorem runBody_nv (lf : Nat) (p : Proc PName) (hs : nvS p.body = true) :
    ∀ args st v st', runBody cmpF callH lf p args st = .ok (v, st') → ValSame st st' := by
  intro args st v st' h
  simp only [runBody] at h
  cases h1 : exec cmpF callH lf (Env.ofArgs args) st p.body with
  | error x => simp [h1] at h
  | ok r1 =>
    obtain ⟨fl, ρ1, st1⟩ := r1
    rw [h1] at h
    have S1 := exec_nv cmpF callH hV lf p.body hs _ st fl ρ1 st1 h1
    cases fl with
    | normal => simp at h; obtain ⟨_, rfl⟩ := h; exact S1
    | ret w => simp at h; obtain ⟨_, rfl⟩ := h; exact S1
    | cont => simp at h
    | brk => simp at h

end

/-- under the real call handler the getters, setColor, the searches, the rotations and the fix-up procedures change no value -/
theorem call_noval (cmpF : Int → Int → Int) : ∀ fuel fn, isNoVal fn = true → SpecNoVal (call cmpF procs fuel) fn := by
  intro fuel
  induction fuel with
  | zero => intro fn _ args st v st' h; simp [call] at h
  | succ f ih =>
    intro fn hp args st v st' h
    exact runBody_nv cmpF _ ih f (procs fn) (noval_procs fn hp) args st v st' h

end Ekit.MiniGo.RBHeap
